(** C08 — NautyCanonicalizer(node_attrs, edge_attrs) for ANY attribute selection (model/C08_Sel.v): the search is the generic
    pruned search of C08_IR.v instantiated with the selection's signature and label; its result is a permutation of the node
    set, so canonical_form returns the input relabelled injectively onto 1..N whatever is selected (also nothing at all). *)
From Coq Require Import String List NArith ZArith Bool Arith Lia Permutation.
From SK Require Import lib.LGraph lib.IRSortKeys lib.IRCore lib.IRSearch lib.StrJoin.
From SK Require Import model.C08_Model model.C08_Sel proof.C08_Spec proof.C08_Sort proof.C08_IR proof.C08_Faithful proof.C08_Nauty.
From SK Require lib.IRInst.
Import ListNotations.

Section Sel.
Variable na : list nsel.
Variable ea : list esel.

Notation sgs g := (gsearch _ lexleb (sigN_sel na ea g) (rfuel g) (children g) _ strleb (nlabel_sel na ea g) (npartial_sel na g)).
Notation slv g := (leaves2 _ lexleb (sigN_sel na ea g) (rfuel g) (children g)).

Lemma nsearch_sel_gs g fuel : forall P pre a, nsearch_sel na ea g fuel P pre a = sgs g fuel P pre a.
Proof.
  induction fuel as [|f IH]; intros P pre a; [reflexivity|].
  cbn [nsearch_sel gsearch]. unfold nrefine_sel, nvisit_sel, npruned_sel.
  destruct (first_big (refine lexleb (sigN_sel na ea g) (rfuel g) P)); [|reflexivity].
  apply fold_left_ext_in. intros a' v _. destruct (pruned strleb (npartial_sel na g) a' (pre ++ [v])); auto.
Qed.

Lemma spartial_lb_str g pre r : pre <> [] -> strleb (npartial_sel na g pre) (nlabel_sel na ea g (pre ++ r)) = true.
Proof.
  intros Hpre. unfold npartial_sel, nlabel_sel, node_seg_sel. rewrite map_app, join_app by (destruct pre; simpl; congruence).
  rewrite <- app_assoc. apply strleb_common.
  change (repeat 123%N 1000) with (123%N :: repeat 123%N 999).
  destruct (map (node_str_sel na g) r); reflexivity.
Qed.
Lemma spartial_lb g fuel P pre p : pre <> [] -> In p (slv g fuel P pre) -> strleb (npartial_sel na g pre) (nlabel_sel na ea g p) = true.
Proof.
  intros Hpre Hin. destruct (leaves2_prefix _ _ _ _ _ _ _ _ _ Hin) as (r & ->). apply spartial_lb_str. auto.
Qed.

Theorem nsearch_sel_is_fold g fuel P pre a :
  nsearch_sel na ea g fuel P pre a = fold_left (visit strleb (nlabel_sel na ea g)) (slv g fuel P pre) a.
Proof.
  rewrite nsearch_sel_gs.
  apply (gsearch_is_fold _ lexleb (sigN_sel na ea g) (rfuel g) (children g) _ strleb strleb_total strleb_trans strleb_antisym
           (nlabel_sel na ea g) (npartial_sel na g)).
  intros. eapply spartial_lb; eauto.
Qed.

Lemma init_vpart_sel g : vpart (node_ids g) (init_partition_sel na g).
Proof.
  unfold init_partition_sel. destruct (gnodes g) as [|p l] eqn:E.
  - unfold node_ids. rewrite E. split; simpl; auto.
  - split.
    + eapply perm_trans; [apply (split_cell_perm _ lexleb IRInst.lexleb_total IRInst.lexleb_trans IRInst.lexleb_antisym)|].
      apply sorted_ids_perm.
    + apply (split_cell_nonempty _ lexleb IRInst.lexleb_total IRInst.lexleb_antisym).
      intro H. pose proof (Permutation_length (sorted_ids_perm g)) as Hl. rewrite H in Hl.
      unfold node_ids in Hl. rewrite E in Hl. simpl in Hl. lia.
Qed.

Lemma sfold_visit_best (g : graph) l : forall a bl bp, fst (fold_left (visit strleb (nlabel_sel na ea g)) l a) = Some (bl, bp) ->
  (In bp l /\ bl = nlabel_sel na ea g bp) \/ fst a = Some (bl, bp).
Proof.
  induction l as [|p l IH]; intros a bl bp H; simpl in H; auto.
  destruct (IH _ _ _ H) as [[H1 H2]|H1]; [left; split; auto; right; auto|].
  unfold visit in H1. destruct (fst a) as [[bl0 bp0]|] eqn:Ea.
  - destruct (ltb strleb (nlabel_sel na ea g p) bl0); simpl in H1.
    + inversion H1; subst. left. split; auto. left; auto.
    + destruct (eqb strleb (nlabel_sel na ea g p) bl0); simpl in H1; right; congruence.
  - simpl in H1. inversion H1; subst. left. split; auto. left; auto.
Qed.

Theorem nauty_perm_sel_leaf g : NoDup (node_ids g) ->
  In (nauty_perm_sel na ea g) (slv g (sfuel g) (init_partition_sel na g) [])
  /\ nauty_label_sel na ea g = Some (nlabel_sel na ea g (nauty_perm_sel na ea g)).
Proof.
  intros Hnd. unfold nauty_perm_sel, nauty_label_sel, nauty_acc_sel.
  assert (Hf : fst (nsearch_sel na ea g (sfuel g) (init_partition_sel na g) [] (None, [])) <> None).
  { rewrite nsearch_sel_gs.
    apply (gsearch_finds _ lexleb IRInst.lexleb_total IRInst.lexleb_trans IRInst.lexleb_antisym (sigN_sel na ea g) (rfuel g) (children g)
             (children_perm g) (node_ids g) Hnd); [apply init_vpart_sel|].
    unfold sfuel, node_ids. rewrite map_length. lia. }
  destruct (fst (nsearch_sel na ea g (sfuel g) (init_partition_sel na g) [] (None, []))) as [[bl bp]|] eqn:E; [|congruence].
  rewrite nsearch_sel_is_fold in E. apply sfold_visit_best in E. simpl in E.
  destruct E as [[H1 H2]|H]; [|discriminate]. simpl. subst bl. auto.
Qed.

Theorem nauty_perm_sel_perm g : NoDup (node_ids g) -> Permutation (nauty_perm_sel na ea g) (node_ids g).
Proof.
  intros Hnd. destruct (nauty_perm_sel_leaf g Hnd) as [Hin _].
  apply (leaves2_perm _ lexleb IRInst.lexleb_total IRInst.lexleb_trans IRInst.lexleb_antisym (sigN_sel na ea g) (rfuel g) (children g)
           (children_perm g) (node_ids g) Hnd _ _ _ _ (init_vpart_sel g)) in Hin; auto.
  split; [constructor|intros x []].
Qed.

Theorem faithful_nauty_sel g : NoDup (node_ids g) -> faithful g (canon_nauty_sel na ea g).
Proof.
  intros Hnd. pose proof (nauty_perm_sel_perm g Hnd) as Hp.
  assert (Hndp : NoDup (nauty_perm_sel na ea g)) by (eapply Permutation_NoDup; [apply Permutation_sym; exact Hp|auto]).
  exists (apply_map (mapping_of (nauty_perm_sel na ea g))). split; [|split]; auto.
  apply inj_on_same. eapply inj_on_perm; [exact Hp|]. apply mapping_of_inj. auto.
Qed.

Theorem onto_nauty_sel g : NoDup (node_ids g) -> onto_1N g (canon_nauty_sel na ea g).
Proof.
  intros Hnd. pose proof (nauty_perm_sel_perm g Hnd) as Hp.
  assert (Hndp : NoDup (nauty_perm_sel na ea g)) by (eapply Permutation_NoDup; [apply Permutation_sym; exact Hp|auto]).
  unfold onto_1N, canon_nauty_sel, node_ids, relabel. cbn [gnodes]. rewrite map_map. cbn [fst].
  rewrite <- (map_map fst (apply_map (mapping_of (nauty_perm_sel na ea g)))).
  eapply perm_trans; [apply Permutation_map; apply Permutation_sym; exact Hp|].
  rewrite (mapping_of_map _ Hndp). rewrite (Permutation_length Hp). unfold node_ids. rewrite map_length. apply Permutation_refl.
Qed.
End Sel.

(* the selection GraphCanonicaliser passes is the model of C08_Model *)
Definition NA4 : list nsel := [SEl; SAr; SCh; SHc].
Definition EA2 : list esel := [SOrd; SStd].
Lemma acode_sel_default g v : acode_sel NA4 g v = acode g v.
Proof. unfold acode_sel, acode, NA4. cbn [flat_map ncode1 app]. reflexivity. Qed.
Lemma node_str_sel_default g v : node_str_sel NA4 g v = node_str g v.
Proof. reflexivity. Qed.
Lemma edge_bit_sel_default g ab : edge_bit_sel EA2 g ab = edge_bit g ab.
Proof.
  unfold edge_bit_sel, edge_bit, EA2. destruct (adj g (fst ab) (snd ab)) as [x|]; [|reflexivity].
  cbn [map efield join]. reflexivity.
Qed.
Theorem nlabel_sel_default g p : nlabel_sel NA4 EA2 g p = nlabel g p.
Proof.
  unfold nlabel_sel, nlabel, node_seg_sel, node_seg.
  rewrite (map_ext (node_str_sel NA4 g) (node_str g)) by (intros; apply node_str_sel_default).
  rewrite (map_ext (edge_bit_sel EA2 g) (edge_bit g)) by (intros; apply edge_bit_sel_default). reflexivity.
Qed.

(* non-vacuity: C-O=C under four selections: a relabelling onto 1..3 each time; with nothing selected the label is bare structure *)
Example sel_ex : Permutation (node_ids (canon_nauty_sel [] [] ex_g)) [1%N; 2%N; 3%N]
                 /\ nauty_label_sel [] [] ex_g = Some (lit "||||0:|1:|1:"%string)
                 /\ nauty_perm_sel [SEl] EA2 ex_g <> nauty_perm_sel [SHc; SEl] [] ex_g.
Proof.
  split; [apply (onto_nauty_sel [] [] ex_g); repeat constructor; simpl; intuition discriminate|].
  split; [vm_compute; reflexivity|vm_compute; discriminate].
Qed.

Print Assumptions faithful_nauty_sel.
Print Assumptions onto_nauty_sel.
Print Assumptions nlabel_sel_default.

(* known finding: with no node attribute selected, graph_signature hashes "||" for the empty graph and for a single node -
   equal signatures although the graphs are not isomorphic (whatever one selects, an injection cannot map one node to none) *)
Definition one_node : graph := LG [(1%N, NA [67%N] false 0 0 None)] [].
Theorem empty_selection_n0_n1 :
  graph_sig_label_sel [] [] (LG [] []) = graph_sig_label_sel [] [] one_node /\ length (gnodes (LG [] [] : graph)) <> length (gnodes one_node)
  /\ graph_sig_label_sel NA4 EA2 (LG [] []) <> graph_sig_label_sel NA4 EA2 one_node.
Proof. split; [vm_compute; reflexivity|]. split; [discriminate|vm_compute; discriminate]. Qed.
Theorem empty_selection_refuted : exists g h : graph,
  graph_sig_label_sel [] [] g = graph_sig_label_sel [] [] h /\ length (gnodes g) <> length (gnodes h)
  /\ graph_sig_label_sel NA4 EA2 g <> graph_sig_label_sel NA4 EA2 h.
Proof. exists (LG [] []), one_node. exact empty_selection_n0_n1. Qed.
Print Assumptions empty_selection_n0_n1.
