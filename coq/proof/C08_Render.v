(** C08 — the string renderings of the model are injective: serialisation items, the serialisation itself,
    nauty node strings / edge bits / labels.  Parsing by separators (lib/StrJoin.v). *)
From Coq Require Import String Ascii List NArith ZArith Bool Arith Lia Permutation DecimalN.
From SK Require Import lib.LGraph lib.StrJoin model.C08_Model proof.C08_Spec proof.C08_Sort proof.C08_SigFun.
Import ListNotations.
Open Scope list_scope.

(* ---------------- separators ---------------- *)
Lemma app_sep_inj sep (x x' r r' : str) : nosep sep x -> nosep sep x' -> x ++ sep :: r = x' ++ sep :: r' -> x = x' /\ r = r'.
Proof.
  intros H H' E. pose proof (f_equal (split1 sep) E) as E'.
  rewrite (split1_app _ H), (split1_app _ H') in E'. inversion E'. auto.
Qed.
Lemma nosep_nil sep : nosep sep [].
Proof. intros []. Qed.
Lemma nosep_cons sep c x : c <> sep -> nosep sep x -> nosep sep (c :: x).
Proof. intros H1 H2 [E|I]; [congruence|auto]. Qed.
Lemma nosep_app sep x y : nosep sep x -> nosep sep y -> nosep sep (x ++ y).
Proof. intros H1 H2 I. apply in_app_or in I. destruct I; auto. Qed.
Lemma cls_nosep (P : N -> bool) sep x : forallb P x = true -> P sep = false -> nosep sep x.
Proof. intros H Hs I. rewrite forallb_forall in H. rewrite (H _ I) in Hs. discriminate. Qed.

Lemma join_nosep sep c xs : c <> sep -> Forall (nosep c) xs -> nosep c (join sep xs).
Proof.
  intros Hc. induction 1 as [|x xs Hx Hxs IH]; [apply nosep_nil|].
  destruct xs as [|x2 xs]; [exact Hx|].
  change (join sep (x :: x2 :: xs)) with (x ++ sep :: join sep (x2 :: xs)).
  apply nosep_app; auto. apply nosep_cons; auto.
Qed.

(* join is injective on lists of non-empty separator-free strings (empty lists allowed) *)
Lemma join_nonempty sep xs : xs <> [] -> Forall (fun x => x <> []) xs -> join sep xs <> [].
Proof.
  intros Hn Hx. destruct xs as [|x xs]; [congruence|]. inversion Hx; subst.
  destruct xs as [|x2 xs]; [exact H1|].
  change (join sep (x :: x2 :: xs)) with (x ++ sep :: join sep (x2 :: xs)).
  destruct x; [congruence|discriminate].
Qed.
Lemma join_inj0 sep xs ys : Forall (nosep sep) xs -> Forall (nosep sep) ys ->
  Forall (fun x => x <> []) xs -> Forall (fun x => x <> []) ys -> join sep xs = join sep ys -> xs = ys.
Proof.
  intros Hx Hy Nx Ny E. destruct xs as [|x xs], ys as [|y ys]; auto.
  - exfalso. symmetry in E. revert E. apply join_nonempty; auto; discriminate.
  - exfalso. revert E. apply join_nonempty; auto; discriminate.
  - apply (join_inj Hx Hy); auto; discriminate.
Qed.

(* a joined list of known length followed by the separator *)
Lemma join_prefix_inj sep : forall xs ys r r', length xs = length ys -> xs <> [] ->
  Forall (nosep sep) xs -> Forall (nosep sep) ys ->
  join sep xs ++ sep :: r = join sep ys ++ sep :: r' -> xs = ys /\ r = r'.
Proof.
  induction xs as [|x xs IH]; intros ys r r' Hl Hn Hx Hy E; [congruence|].
  destruct ys as [|y ys]; [discriminate|].
  inversion Hx as [|? ? Hx1 Hx2]; subst. inversion Hy as [|? ? Hy1 Hy2]; subst.
  destruct xs as [|x2 xs], ys as [|y2 ys]; try discriminate.
  - simpl in E. destruct (app_sep_inj _ _ _ _ _ Hx1 Hy1 E) as [-> ->]. auto.
  - change (join sep (x :: x2 :: xs)) with (x ++ sep :: join sep (x2 :: xs)) in E.
    change (join sep (y :: y2 :: ys)) with (y ++ sep :: join sep (y2 :: ys)) in E.
    rewrite <- !app_assoc in E. cbn [app] in E.
    destruct (app_sep_inj _ _ _ _ _ Hx1 Hy1 E) as [-> E2].
    assert (Hl' : length (x2 :: xs) = length (y2 :: ys)) by (simpl in *; lia).
    assert (Hn' : x2 :: xs <> []) by discriminate.
    destruct (IH (y2 :: ys) r r' Hl' Hn' Hx2 Hy2 E2) as [E3 E4].
    rewrite E3. auto.
Qed.

(* ---------------- character classes ---------------- *)
Definition isdig (c : N) : bool := ((48 <=? c) && (c <=? 57))%N.
Definition isnum (c : N) : bool := isdig c || (c =? 45)%N || (c =? 46)%N.
Definition isalpha (c : N) : bool := ((65 <=? c) && (c <=? 90) || (97 <=? c) && (c <=? 122))%N.

Lemma digits_dig d : forallb isdig (digits_uint d) = true.
Proof. induction d; simpl; auto. Qed.
Lemma decN_dig n : forallb isdig (decN n) = true.
Proof. apply digits_dig. Qed.
Lemma forallb_weaken (P Q : N -> bool) x : (forall c, P c = true -> Q c = true) -> forallb P x = true -> forallb Q x = true.
Proof. intros H. rewrite !forallb_forall. auto. Qed.
Lemma dig_num c : isdig c = true -> isnum c = true.
Proof. unfold isnum. intros ->. reflexivity. Qed.
Lemma decN_num n : forallb isnum (decN n) = true.
Proof. eapply forallb_weaken; [apply dig_num|apply decN_dig]. Qed.
Lemma decZ_num z : forallb isnum (decZ z) = true.
Proof. unfold decZ. destruct (z <? 0)%Z; simpl; apply decN_num. Qed.
Lemma fl_num h : forallb isnum (fl h) = true.
Proof.
  unfold fl. cbv zeta. rewrite !forallb_app. rewrite decN_num.
  destruct (h <? 0)%Z, (N.eqb _ 0); reflexivity.
Qed.
Lemma pybool_alpha b : forallb isalpha (pybool b) = true.
Proof. destruct b; reflexivity. Qed.

Ltac nosep :=
  repeat first
    [ apply nosep_nil
    | assumption
    | (eapply cls_nosep; [eassumption|reflexivity])
    | (eapply cls_nosep; [apply decN_dig|reflexivity])
    | (eapply cls_nosep; [apply decZ_num|reflexivity])
    | (eapply cls_nosep; [apply fl_num|reflexivity])
    | (eapply cls_nosep; [apply pybool_alpha|reflexivity])
    | apply nosep_cons; [discriminate|]
    | apply nosep_app ].

(* ---------------- numbers ---------------- *)
Lemma digits_uint_inj a : forall b, digits_uint a = digits_uint b -> a = b.
Proof. induction a; destruct b; simpl; intros E; try discriminate; auto; inversion E; f_equal; auto. Qed.
Lemma decN_inj a b : decN a = decN b -> a = b.
Proof.
  unfold decN. intros E. apply digits_uint_inj in E.
  rewrite <- (Unsigned.of_to a), <- (Unsigned.of_to b), E. reflexivity.
Qed.
Lemma decN_not_minus n r : decN n <> 45%N :: r.
Proof.
  intros E. pose proof (decN_dig n) as H. rewrite E in H. simpl in H. discriminate.
Qed.
Lemma decZ_inj a b : decZ a = decZ b -> a = b.
Proof.
  unfold decZ. destruct (Z.ltb_spec a 0), (Z.ltb_spec b 0); intros E.
  - inversion E as [E']. apply decN_inj in E'. lia.
  - symmetry in E. apply decN_not_minus in E. contradiction.
  - apply decN_not_minus in E. contradiction.
  - apply decN_inj in E. lia.
Qed.

Lemma fl_form h : fl h = (if (h <? 0)%Z then [45%N] else []) ++ decN (N.div (Z.abs_N h) 2) ++ 46%N ::
                         [if N.eqb (N.modulo (Z.abs_N h) 2) 0 then 48%N else 53%N].
Proof. unfold fl. cbv zeta. destruct (N.eqb _ 0); reflexivity. Qed.
Lemma fl_inj a b : fl a = fl b -> a = b.
Proof.
  rewrite !fl_form. intros E.
  assert (Hs : (a <? 0)%Z = (b <? 0)%Z).
  { destruct (a <? 0)%Z, (b <? 0)%Z; auto; simpl in E.
    - destruct (decN (Z.abs_N b / 2)) as [|c r] eqn:Eb; simpl in E; [discriminate|].
      inversion E; subst. exfalso. apply (decN_not_minus _ _ Eb).
    - destruct (decN (Z.abs_N a / 2)) as [|c r] eqn:Ea; simpl in E; [discriminate|].
      inversion E; subst. exfalso. apply (decN_not_minus _ _ Ea). }
  rewrite Hs in E. apply app_inv_head in E.
  apply app_sep_inj in E; [|nosep|nosep]. destruct E as [E1 E2]. apply decN_inj in E1.
  assert (Em : N.modulo (Z.abs_N a) 2 = N.modulo (Z.abs_N b) 2).
  { assert (Ha : (Z.abs_N a mod 2 < 2)%N) by (apply N.mod_upper_bound; discriminate).
    assert (Hb : (Z.abs_N b mod 2 < 2)%N) by (apply N.mod_upper_bound; discriminate).
    revert E2 Ha Hb. generalize (Z.abs_N a mod 2)%N (Z.abs_N b mod 2)%N. intros x y E2 Ha Hb.
    destruct (N.eqb_spec x 0), (N.eqb_spec y 0); try discriminate; lia. }
  assert (Eabs : Z.abs_N a = Z.abs_N b).
  { rewrite (N.div_mod (Z.abs_N a) 2), (N.div_mod (Z.abs_N b) 2) by lia. rewrite E1, Em. reflexivity. }
  destruct (Z.ltb_spec a 0), (Z.ltb_spec b 0); try discriminate; lia.
Qed.
Lemma fl_has_dot h : In 46%N (fl h).
Proof. rewrite fl_form. apply in_or_app. right. apply in_or_app. right. left. reflexivity. Qed.
Lemma fl_not_nil h : fl h <> [].
Proof. intro E. pose proof (fl_has_dot h) as I. rewrite E in I. contradiction. Qed.
Lemma fl_not_zero h : fl h <> [48%N].
Proof. intro E. pose proof (fl_has_dot h) as I. rewrite E in I. destruct I as [I|[]]. discriminate. Qed.
Lemma pybool_inj a b : pybool a = pybool b -> a = b.
Proof. destruct a, b; auto; discriminate. Qed.

(* ---------------- the order value: a float or a tuple of two floats ---------------- *)
Lemma OS_form o t : OS o t = match t with None => fl o | Some b => 40%N :: fl o ++ 44%N :: 32%N :: fl b ++ [41%N] end.
Proof.
  destruct t as [b|]; [|reflexivity]. unfold OS, sep2.
  change (lit "(") with [40%N]. change (lit ", ") with [44%N; 32%N]. change (lit ")") with [41%N].
  cbn [app]. rewrite <- ?app_assoc. reflexivity.
Qed.
Lemma fl_head_num h c r : fl h = c :: r -> isnum c = true.
Proof. intros E. pose proof (fl_num h) as H. rewrite E in H. simpl in H. apply andb_prop in H. tauto. Qed.
Lemma fl_not_paren h r : fl h <> 40%N :: r.
Proof. intros E. apply fl_head_num in E. discriminate. Qed.
(* the order value followed by a comma *)
Lemma OS_comma_inj o t o' t' r r' : OS o t ++ 44%N :: r = OS o' t' ++ 44%N :: r' -> o = o' /\ t = t' /\ r = r'.
Proof.
  rewrite !OS_form. destruct t as [b|], t' as [b'|]; intros E.
  - cbn [app] in E. inversion E as [E1]. clear E. rewrite <- !app_assoc in E1. cbn [app] in E1.
    apply app_sep_inj in E1; [|nosep|nosep]. destruct E1 as [E1 E2]. apply fl_inj in E1.
    inversion E2 as [E3]. clear E2. rewrite <- !app_assoc in E3. cbn [app] in E3.
    apply app_sep_inj in E3; [|nosep|nosep]. destruct E3 as [E3 E4]. apply fl_inj in E3. inversion E4. subst. auto.
  - exfalso. cbn [app] in E. destruct (fl o') as [|c r0] eqn:Ef; [apply (fl_not_nil _ Ef)|].
    cbn [app] in E. inversion E; subst. apply fl_head_num in Ef. discriminate.
  - exfalso. cbn [app] in E. destruct (fl o) as [|c r0] eqn:Ef; [apply (fl_not_nil _ Ef)|].
    cbn [app] in E. inversion E; subst. apply fl_head_num in Ef. discriminate.
  - apply app_sep_inj in E; [|nosep|nosep]. destruct E as [E1 E2]. apply fl_inj in E1. subst. auto.
Qed.
Lemma OS_inj o t o' t' : OS o t = OS o' t' -> o = o' /\ t = t'.
Proof.
  intros E. assert (E' : OS o t ++ 44%N :: [] = OS o' t' ++ 44%N :: []) by (rewrite E; reflexivity).
  apply OS_comma_inj in E'. tauto.
Qed.
Lemma OS_nosep o t sep : sep = 58%N \/ sep = 59%N \/ sep = 124%N -> nosep sep (OS o t).
Proof. intros H. rewrite OS_form. destruct t; destruct H as [->|[->| ->]]; nosep. Qed.
Lemma OS_not_nil o t : OS o t <> [].
Proof. rewrite OS_form. destruct t; [discriminate|apply fl_not_nil]. Qed.

(* ---------------- serialisation items ---------------- *)
Lemma NI_form n e c a h : NI (n, (e, c, a, h)) =
  decN n ++ 58%N :: 40%N :: 39%N :: e ++ 39%N :: 44%N :: 32%N :: decZ c ++ 44%N :: 32%N :: pybool a ++ 44%N :: 32%N :: decZ h ++ [41%N].
Proof.
  unfold NI, pyrepr, sep2.
  change (lit ":") with [58%N]. change (lit "(") with [40%N]. change (lit ", ") with [44%N; 32%N]. change (lit ")") with [41%N].
  rewrite <- !app_assoc. reflexivity.
Qed.

Lemma NI_inj c1 c2 : el_ok (fst (fst (fst (snd c1)))) -> el_ok (fst (fst (fst (snd c2)))) -> NI c1 = NI c2 -> c1 = c2.
Proof.
  destruct c1 as [n [[[e c] a] h]], c2 as [n' [[[e' c'] a'] h']]. cbn [fst snd]. unfold el_ok. intros He He' E.
  rewrite !NI_form in E.
  apply app_sep_inj in E; [|nosep|nosep]. destruct E as [E1 E]. apply decN_inj in E1.
  inversion E as [E2]. clear E.
  apply app_sep_inj in E2; [|nosep|nosep]. destruct E2 as [E2 E]. inversion E as [E3]. clear E.
  apply app_sep_inj in E3; [|nosep|nosep]. destruct E3 as [E3 E]. apply decZ_inj in E3. inversion E as [E4]. clear E.
  apply app_sep_inj in E4; [|nosep|nosep]. destruct E4 as [E4 E]. apply pybool_inj in E4. inversion E as [E5]. clear E.
  apply app_inj_tail in E5. destruct E5 as [E5 _]. apply decZ_inj in E5. subst. reflexivity.
Qed.

Lemma EI_form u v o t s : EI (u, v, (o, t, s)) =
  40%N :: decN u ++ 44%N :: 32%N :: decN v ++ 41%N :: 58%N :: 40%N :: 40%N :: decN u ++ 44%N :: 32%N :: decN v ++ 41%N :: 44%N :: 32%N ::
  OS o t ++ 44%N :: 32%N :: (match s with Some s => fl s | None => [48%N] end) ++ [41%N].
Proof.
  unfold EI, sep2. cbv zeta.
  change (lit ":") with [58%N]. change (lit "(") with [40%N]. change (lit ", ") with [44%N; 32%N]. change (lit ")") with [41%N].
  change (lit "0") with [48%N].
  rewrite <- ?app_assoc. cbn [app]. rewrite <- ?app_assoc. reflexivity.
Qed.

Lemma EI_inj c1 c2 : EI c1 = EI c2 -> c1 = c2.
Proof.
  destruct c1 as [[u v] [[o t] s]], c2 as [[u' v'] [[o' t'] s']]. intros E. rewrite !EI_form in E.
  inversion E as [E1]. clear E.
  apply app_sep_inj in E1; [|nosep|nosep]. destruct E1 as [E1 E]. apply decN_inj in E1. inversion E as [E2]. clear E.
  apply app_sep_inj in E2; [|nosep|nosep]. destruct E2 as [E2 E]. apply decN_inj in E2. subst u' v'.
  inversion E as [E3]. clear E.
  apply app_inv_head in E3. inversion E3 as [E4]. clear E3.
  apply app_inv_head in E4. inversion E4 as [E5]. clear E4.
  apply OS_comma_inj in E5. destruct E5 as (-> & -> & E).
  inversion E as [E6]. clear E. apply app_inj_tail in E6. destruct E6 as [E6 _].
  destruct s as [s|], s' as [s'|].
  - apply fl_inj in E6. subst. reflexivity.
  - exfalso. apply (fl_not_zero _ E6).
  - exfalso. symmetry in E6. apply (fl_not_zero _ E6).
  - reflexivity.
Qed.

Lemma node_item_inj p q : el_ok (el (snd p)) -> el_ok (el (snd q)) -> node_item p = node_item q -> covn p = covn q.
Proof. intros Hp Hq E. rewrite !node_item_cov in E. apply NI_inj in E; auto. Qed.
Lemma edge_item_inj e1 e2 : edge_item e1 = edge_item e2 -> cove e1 = cove e2.
Proof. intros E. rewrite !edge_item_cov in E. apply EI_inj. exact E. Qed.

Lemma NI_nosep c sep : el_ok (fst (fst (fst (snd c)))) -> sep = 59%N \/ sep = 93%N -> nosep sep (NI c).
Proof.
  destruct c as [n [[[e c] a] h]]. cbn [fst snd]. unfold el_ok. intros He Hs. rewrite NI_form.
  destruct Hs; subst; nosep.
Qed.
Lemma EI_nosep c : nosep 59%N (EI c).
Proof.
  destruct c as [[u v] [[o t] s]]. rewrite EI_form. pose proof (OS_nosep o t 59%N (or_intror (or_introl eq_refl))) as H.
  destruct s; nosep.
Qed.
Lemma NI_not_nil c : NI c <> [].
Proof. destruct c as [n [[[e c] a] h]]. rewrite NI_form. intro E. apply (f_equal (@length N)) in E. rewrite app_length in E. simpl in E. lia. Qed.
Lemma EI_not_nil c : EI c <> [].
Proof. destruct c as [[u v] [[o t] s]]. rewrite EI_form. discriminate. Qed.

Lemma map_inj_in {A B} (f : A -> B) (P : A -> Prop) : (forall x y, P x -> P y -> f x = f y -> x = y) ->
  forall l l', Forall P l -> Forall P l' -> map f l = map f l' -> l = l'.
Proof.
  intros Hf. induction l as [|x l IH]; intros [|y l'] Hl Hl' E; try discriminate; auto.
  inversion E. inversion Hl; subst. inversion Hl'; subst. f_equal; auto.
Qed.

Definition cel_ok (c : N * (list N * Z * bool * Z)) : Prop := el_ok (fst (fst (fst (snd c)))).

Lemma cov_nodes_ok g : els_ok g -> Forall cel_ok (cov_nodes g).
Proof.
  intros H. unfold cov_nodes. apply Forall_forall. intros c I. apply in_map_iff in I. destruct I as (p & <- & I).
  unfold cel_ok, covn, ncov. simpl. apply H. exact I.
Qed.
Lemma sort_by_Forall {A} (key : A -> list Z) (P : A -> Prop) l : Forall P l -> Forall P (sort_by key l).
Proof. rewrite !Forall_forall. intros H x I. apply H. apply (sort_by_in key). exact I. Qed.

(* the serialisation determines the sorted covered node and edge lists *)
Theorem serialise_inj_cov g h : els_ok g -> els_ok h -> serialise g = serialise h ->
  sort_by NK (cov_nodes g) = sort_by NK (cov_nodes h) /\ sort_by EK (cov_edges g) = sort_by EK (cov_edges h).
Proof.
  intros Hg Hh E. rewrite !serialise_cov in E.
  change (lit "N[") with [78%N; 91%N] in E. change (lit "]|E[") with [93%N; 124%N; 69%N; 91%N] in E.
  change (lit "]") with [93%N] in E. cbn [app] in E. inversion E as [E1]. clear E.
  pose proof (sort_by_Forall NK _ _ (cov_nodes_ok g Hg)) as Fg.
  pose proof (sort_by_Forall NK _ _ (cov_nodes_ok h Hh)) as Fh.
  set (ng := sort_by NK (cov_nodes g)) in *. set (nh := sort_by NK (cov_nodes h)) in *.
  assert (Sg : forall l, Forall cel_ok l -> Forall (nosep 93%N) (map NI l) /\ Forall (nosep 59%N) (map NI l) /\ Forall (fun x => x <> []) (map NI l)).
  { intros l Hl. repeat split; apply Forall_forall; intros x I; apply in_map_iff in I; destruct I as (c & <- & I);
      rewrite Forall_forall in Hl; try (apply NI_nosep; [apply Hl; auto|auto]). apply NI_not_nil. }
  destruct (Sg ng Fg) as (A1 & A2 & A3). destruct (Sg nh Fh) as (B1 & B2 & B3).
  apply app_sep_inj in E1; [|apply join_nosep; [discriminate|auto]|apply join_nosep; [discriminate|auto]].
  destruct E1 as [E1 E2]. apply join_inj0 in E1; auto.
  split.
  - revert E1. apply (map_inj_in NI cel_ok); auto. intros x y Hx Hy. apply NI_inj; auto.
  - inversion E2 as [E3]. apply app_inj_tail in E3. destruct E3 as [E3 _].
    apply join_inj0 in E3.
    + revert E3. apply (map_inj_in EI (fun _ => True)); try (apply Forall_forall; auto). intros x y _ _. apply EI_inj.
    + apply Forall_forall. intros x I. apply in_map_iff in I. destruct I as (c & <- & _). apply EI_nosep.
    + apply Forall_forall. intros x I. apply in_map_iff in I. destruct I as (c & <- & _). apply EI_nosep.
    + apply Forall_forall. intros x I. apply in_map_iff in I. destruct I as (c & <- & _). apply EI_not_nil.
    + apply Forall_forall. intros x I. apply in_map_iff in I. destruct I as (c & <- & _). apply EI_not_nil.
Qed.

Theorem serialise_inj g h : els_ok g -> els_ok h -> serialise g = serialise h -> geq_cov g h.
Proof.
  intros Hg Hh E. destruct (serialise_inj_cov g h Hg Hh E) as [E1 E2]. split.
  - eapply perm_trans; [apply Permutation_sym, (sort_by_perm NK)|]. rewrite E1. apply sort_by_perm.
  - eapply perm_trans; [apply Permutation_sym, (sort_by_perm EK)|]. rewrite E2. apply sort_by_perm.
Qed.

(* ---------------- nauty label strings ---------------- *)
Definition NS (c : list N * Z * bool * Z) : str := let '(e, c0, a, h) := c in join 58%N [e; pybool a; decZ c0; decZ h].
Lemma node_str_cov g v : node_str g v = NS (ncov (attr_of g v)).
Proof. unfold node_str, NS, ncov. destruct (attr_of g v). reflexivity. Qed.
Definition EB (o : option ecv) : str :=
  match o with
  | Some (o, t, s) => 49%N :: 58%N :: OS o t ++ 58%N :: (match s with Some s => fl s | None => [] end)
  | None => [48%N; 58%N; 58%N]
  end.
Lemma ord_str_cov a : ord_str a = OS (eo a) (et a).
Proof. reflexivity. Qed.
Lemma edge_bit_cov g ab : edge_bit g ab = EB (option_map ecov (adj g (fst ab) (snd ab))).
Proof.
  unfold edge_bit, EB. destruct (adj g (fst ab) (snd ab)) as [[o s t]|]; [|reflexivity].
  cbn [option_map ecov eo es et]. rewrite ord_str_cov. cbn [eo et]. change (lit "1:") with [49%N; 58%N]. change (lit ":") with [58%N].
  cbn [app]. rewrite <- ?app_assoc. reflexivity.
Qed.

Lemma NS_inj c1 c2 : el_ok (fst (fst (fst c1))) -> el_ok (fst (fst (fst c2))) -> NS c1 = NS c2 -> c1 = c2.
Proof.
  destruct c1 as [[[e c] a] h], c2 as [[[e' c'] a'] h']. cbn [fst]. unfold el_ok, NS. intros He He' E.
  apply join_inj in E; try discriminate.
  - inversion E as [[E1 E2 E3 E4]]. apply pybool_inj in E2. apply decZ_inj in E3, E4. subst. reflexivity.
  - repeat constructor; nosep.
  - repeat constructor; nosep.
Qed.
Lemma NS_nosep c : el_ok (fst (fst (fst c))) -> nosep 124%N (NS c).
Proof.
  destruct c as [[[e c] a] h]. cbn [fst]. unfold el_ok, NS. intros He.
  apply join_nosep; [discriminate|]. repeat constructor; nosep.
Qed.
Lemma EB_inj o1 o2 : EB o1 = EB o2 -> o1 = o2.
Proof.
  destruct o1 as [[[o t] s]|], o2 as [[[o' t'] s']|]; unfold EB; intros E; try discriminate; auto.
  inversion E as [E1]. clear E.
  apply app_sep_inj in E1; [|apply OS_nosep; auto|apply OS_nosep; auto]. destruct E1 as [E1 E2].
  apply OS_inj in E1. destruct E1 as [-> ->].
  destruct s as [s|], s' as [s'|]; auto.
  - apply fl_inj in E2. subst. reflexivity.
  - exfalso. apply (fl_not_nil _ E2).
  - exfalso. symmetry in E2. apply (fl_not_nil _ E2).
Qed.
Lemma EB_nosep o : nosep 124%N (EB o).
Proof.
  destruct o as [[[o t] s]|]; unfold EB; [|nosep].
  pose proof (OS_nosep o t 124%N (or_intror (or_intror eq_refl))) as H. destruct s; nosep.
Qed.
Lemma EB_not_nil o : EB o <> [].
Proof. destruct o as [[[o t] s]|]; discriminate. Qed.

Lemma node_str_inj g h u v : el_ok (el (attr_of g u)) -> el_ok (el (attr_of h v)) ->
  node_str g u = node_str h v -> ncov (attr_of g u) = ncov (attr_of h v).
Proof. intros H1 H2 E. rewrite !node_str_cov in E. apply NS_inj in E; auto. Qed.
Lemma edge_bit_inj g h ab cd : edge_bit g ab = edge_bit h cd ->
  option_map ecov (adj g (fst ab) (snd ab)) = option_map ecov (adj h (fst cd) (snd cd)).
Proof. intros E. rewrite !edge_bit_cov in E. apply EB_inj. exact E. Qed.

Lemma map_transfer {A A' B C} (f : A -> B) (f' : A' -> B) (k : A -> C) (k' : A' -> C) :
  forall l l', (forall x y, In x l -> In y l' -> f x = f' y -> k x = k' y) -> map f l = map f' l' -> map k l = map k' l'.
Proof.
  induction l as [|x l IH]; intros [|y l'] H E; try discriminate; auto.
  inversion E. simpl. f_equal; [apply H; simpl; auto|apply IH; auto]. intros; apply H; simpl; auto.
Qed.

Theorem nlabel_inj g h p q : length p = length q ->
  (forall v, In v p -> el_ok (el (attr_of g v))) -> (forall v, In v q -> el_ok (el (attr_of h v))) ->
  nlabel g p = nlabel h q ->
  map (fun v => ncov (attr_of g v)) p = map (fun v => ncov (attr_of h v)) q /\
  map (fun ab => option_map ecov (adj g (fst ab) (snd ab))) (pairs p)
  = map (fun ab => option_map ecov (adj h (fst ab) (snd ab))) (pairs q).
Proof.
  intros Hl Hp Hq E.
  destruct p as [|p0 p]; [destruct q; [auto|discriminate]|]. destruct q as [|q0 q]; [discriminate|].
  unfold nlabel, node_seg in E. change (lit "||") with [124%N; 124%N] in E. cbn [app] in E.
  apply join_prefix_inj in E.
  - destruct E as [E1 E2]. split.
    + revert E1. apply map_transfer. intros x y Hx Hy. apply node_str_inj; auto.
    + inversion E2 as [E3]. clear E2. apply join_inj0 in E3.
      * revert E3. apply map_transfer. intros x y _ _. apply edge_bit_inj.
      * apply Forall_forall. intros x I. apply in_map_iff in I. destruct I as (c & <- & _). rewrite edge_bit_cov. apply EB_nosep.
      * apply Forall_forall. intros x I. apply in_map_iff in I. destruct I as (c & <- & _). rewrite edge_bit_cov. apply EB_nosep.
      * apply Forall_forall. intros x I. apply in_map_iff in I. destruct I as (c & <- & _). rewrite edge_bit_cov. apply EB_not_nil.
      * apply Forall_forall. intros x I. apply in_map_iff in I. destruct I as (c & <- & _). rewrite edge_bit_cov. apply EB_not_nil.
  - rewrite !map_length. exact Hl.
  - discriminate.
  - apply Forall_forall. intros x I. apply in_map_iff in I. destruct I as (c & <- & I). rewrite node_str_cov. apply NS_nosep.
    unfold ncov. cbn [fst]. apply Hp. exact I.
  - apply Forall_forall. intros x I. apply in_map_iff in I. destruct I as (c & <- & I). rewrite node_str_cov. apply NS_nosep.
    unfold ncov. cbn [fst]. apply Hq. exact I.
Qed.

Print Assumptions serialise_inj.
Print Assumptions nlabel_inj.
