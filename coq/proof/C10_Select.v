(** C10 — proofs, part 17: attribute selections (node_attrs / edge_attrs).  The model is a pure function of its
    arguments, so a conversion cannot depend on what was converted before; these lemmas say what a selection does and
    which selections leave the way back to RDKit untouched. *)
From Coq Require Import String List NArith ZArith Bool Lia.
From SK Require Import lib.Tok lib.LGraph lib.StrJoin model.C10_Model proof.C10_Views proof.C10_Build proof.C10_Copy.
Import ListNotations.
Local Open Scope Z_scope.

Lemma sel_natt_all a : sel_natt asel_all a = a.
Proof. destruct a; reflexivity. Qed.
Lemma sel_graph_all (g : gr) : (forall e, In e (gedges g) -> True) -> sel_graph asel_all true g = g.
Proof.
  intros _. destruct g as [ns es]. unfold sel_graph. simpl. f_equal.
  - induction ns as [|[n a] r IH]; [reflexivity|]. simpl. rewrite sel_natt_all, IH. reflexivity.
  - induction es as [|[[u v] x] r IH]; [reflexivity|]. simpl. rewrite IH. destruct x; reflexivity.
Qed.
(** keeping everything (node_attrs=None / the full list) is the unselected conversion *)
Theorem select_all m drop ui : mol_to_graph_sel m drop ui asel_all true = mol_to_graph m drop ui.
Proof. unfold mol_to_graph_sel. apply sel_graph_all. auto. Qed.

Definition asel_and (s t : asel) : asel :=
  AS (k_el s && k_el t) (k_ar s && k_ar t) (k_hc s && k_hc t) (k_ch s && k_ch t) (k_am s && k_am t).
Lemma pick_pick {A} b c (x : option A) : pick b (pick c x) = pick (b && c) x.
Proof. destruct b, c; reflexivity. Qed.
(** selecting twice = selecting the intersection (so the ORDER of two selections does not matter) *)
Theorem select_twice s t ks kt (g : gr) : sel_graph s ks (sel_graph t kt g) = sel_graph (asel_and s t) (ks && kt) g.
Proof.
  destruct g as [ns es]. unfold sel_graph. simpl. rewrite !map_map. f_equal.
  - apply map_ext. intros [n a]. simpl. unfold sel_natt, asel_and. simpl. rewrite !pick_pick. reflexivity.
  - apply map_ext. intros [[u v] x]. simpl. rewrite pick_pick. reflexivity.
Qed.

(** node ids, node order and the bond pairs never depend on the selection *)
Lemma node_ids_sel s k (g : gr) : node_ids (sel_graph s k g) = node_ids g.
Proof. unfold node_ids, sel_graph. simpl. rewrite map_map. reflexivity. Qed.
Lemma edges_from_sel k : forall rest seen (es : list (N * N * eatt)),
  edges_from seen rest (map (fun e : N * N * eatt => (fst e, EA (pick k (e_ord (snd e))) (e_std (snd e)))) es)
  = map (fun e : N * N * eatt => (fst e, EA (pick k (e_ord (snd e))) (e_std (snd e)))) (edges_from seen rest es).
Proof.
  induction rest as [|n r IH]; intros seen es; [reflexivity|]. simpl. rewrite map_app, IH. f_equal.
  unfold inc_unseen. induction es as [|[[a b] x] t IHt]; [reflexivity|]. simpl. rewrite map_app, IHt. f_equal.
  destruct (N.eqb a n); [destruct (mem b seen); reflexivity|]. destruct (N.eqb b n); [destruct (mem a seen); reflexivity|reflexivity].
Qed.
Lemma edges_iter_sel s k (g : gr) :
  edges_iter (sel_graph s k g) = map (fun e : N * N * eatt => (fst e, EA (pick k (e_ord (snd e))) (e_std (snd e)))) (edges_iter g).
Proof. unfold edges_iter. rewrite node_ids_sel. apply edges_from_sel. Qed.

(** what GraphToMol reads: element, charge, atom_map, hcount, order.  A selection that keeps these (aromatic may go: RDKit
    re-perceives it) hands RDKit back exactly the same molecule — in particular the default selection of smiles_to_graph *)
Theorem graph_to_mol_sel s (g : gr) :
  k_el s = true -> k_hc s = true -> k_ch s = true -> k_am s = true ->
  graph_to_mol (sel_graph s true g) = graph_to_mol g.
Proof.
  intros H1 H2 H3 H4. unfold graph_to_mol. rewrite node_ids_sel, edges_iter_sel, map_map.
  assert (forall e : N * N * eatt, g2m_bond (node_ids g) (fst e, EA (pick true (e_ord (snd e))) (e_std (snd e))) = g2m_bond (node_ids g) e) as Hb.
  { intros [[u v] x]. reflexivity. }
  rewrite (map_ext _ _ Hb).
  assert (map (fun p : N * natt => g2m_atom (snd p)) (gnodes (sel_graph s true g)) = map (fun p : N * natt => g2m_atom (snd p)) (gnodes g)) as ->; [|reflexivity].
  unfold sel_graph. simpl. rewrite map_map. apply map_ext. intros [n a]. simpl. unfold g2m_atom, sel_natt. simpl. rewrite H1, H2, H3, H4. reflexivity.
Qed.

(** ... and a selection that drops the charge does not (witness: the acetate ion read as acetic acid radical) *)
Local Open Scope string_scope.
Definition ex_ion : rmol := ([RAt (s2l "C") false 3 0 0; RAt (s2l "O") false 0 (-1) 0], [(0%N, 1%N, 2)]).
Example select_charge_matters :
  graph_to_mol (mol_to_graph_sel ex_ion false false (AS true true true false true) true)
  <> graph_to_mol (mol_to_graph ex_ion false false) /\
  graph_to_mol (mol_to_graph_sel ex_ion false false (AS true false true true true) true)
  = graph_to_mol (mol_to_graph ex_ion false false).
Proof. split; [vm_compute; discriminate|reflexivity]. Qed.

(** ** graph_to_smi with a non-empty preserve list: before repair 3ba7a77 hydrogens without a heavy neighbour were dropped
    (finding graph_to_smi:preserve_atom_maps:bare-hydrogen-dropped, now fixed): H2 became the empty molecule; the repaired
    code hands RDKit the same H2 with or without a preserve list *)
Definition ex_h2m : gr :=
  LG [(1%N, NA (Some s_H) (Some false) (Some 0) (Some 0) (Some 0) None); (2%N, NA (Some s_H) (Some false) (Some 0) (Some 0) (Some 0) None)]
     [(1%N, 2%N, EA (Some (OS 2)) None)].
Theorem preserve_bare_h_old_refuted :
  exists (g : gr) (pres : list Z), gwfb g = true /\ total_h g = 2 /\
    graph_to_smi_mol_old g [] <> Some ([], []) /\ graph_to_smi_mol_old g pres = Some ([], []).
Proof. exists ex_h2m, [3]. vm_compute. repeat split; discriminate. Qed.
Example preserve_bare_h_kept_ex : graph_to_smi_mol ex_h2m [3] = graph_to_smi_mol ex_h2m [] /\ graph_to_smi_mol ex_h2m [] <> Some ([], []).
Proof. vm_compute. split; [reflexivity|discriminate]. Qed.

(** ** NXToGML.transform(attributes=...): the default ["charge"] is the writer of the round-trip theorems *)
Lemma find_changed_sel_charge Lg Rg : find_changed_sel asel_charge Lg Rg = find_changed Lg Rg.
Proof.
  unfold find_changed_sel, find_changed. apply flat_map_ext. intros [n a]. simpl. destruct (label Rg n) as [b|]; [|reflexivity].
  unfold natt_diff, asel_charge, opt_eqb. simpl. destruct (a_ch a) as [z|], (a_ch b) as [z0|]; try reflexivity. destruct (Z.eqb z z0); reflexivity.
Qed.
Theorem nx_to_gml_sel_charge Lg Rg Kg reindex eh : nx_to_gml_sel asel_charge Lg Rg Kg reindex eh = nx_to_gml Lg Rg Kg reindex eh.
Proof.
  unfold nx_to_gml_sel, nx_to_gml. cbv zeta. destruct reindex; rewrite find_changed_sel_charge; reflexivity.
Qed.

(** ** GraphToMol options: the defaults graph_to_smi uses are [graph_to_mol]; ignore_bond_order only touches bond types;
    use_h_count=False only drops the explicit hydrogen counts *)
Lemma g2m_bond_gen_false ids e : g2m_bond_gen false ids e = g2m_bond ids e.
Proof. destruct e as [[u v] x]. unfold g2m_bond_gen, g2m_bond. destruct (e_ord x) as [[o|a b]|]; reflexivity. Qed.
Theorem graph_to_mol_gen_default (g : gr) : graph_to_mol_gen false true g = graph_to_mol g.
Proof.
  unfold graph_to_mol_gen, graph_to_mol. rewrite (map_ext _ _ (g2m_bond_gen_false (node_ids g))).
  destruct (forallb _ _); [|reflexivity]. f_equal.
Qed.
Theorem graph_to_mol_gen_atoms ignore (g : gr) atoms bonds :
  graph_to_mol_gen ignore true g = Some (atoms, bonds) -> atoms = map (fun p : N * natt => g2m_atom (snd p)) (gnodes g).
Proof. unfold graph_to_mol_gen. destruct (forallb _ _); [|discriminate]. intros [= <- _]. reflexivity. Qed.
