(** C14 — proofs about BatchReactor.fit with worker processes (model/C14_WorkersModel.v): a pickled copy of the
    applier — cache keys meaningless in the worker, pinned objects replaced by copies — satisfies the invariant of
    the heap+cache machine, so every application in every worker, under every worker-side allocator / collector
    schedule, returns execute(contents); the per-entry outputs of every batch of tasks are the single-entry results,
    and so is their concatenation for every order-preserving cut of the entry list. *)
From Coq Require Import NArith List Bool Arith Lia.
Import ListNotations.
From SK Require Import lib.Tok model.C14_Model model.C14_WorkersModel proof.C14_Proof proof.C14_Batch.
Local Open Scope N_scope.

(* ------------------------------------------------------------------ the invariant survives a whole run *)

Section RunInv.
  Variable R : Type.
  Variable execute : N -> N -> bool -> R.
  Variable cache_on : bool.
  Variable cmax : nat.
  Notation InvP := (Inv R execute).
  Notation runP := (run R execute true cache_on cmax).
  Notation stepP := (step R execute true cache_on cmax).

  Lemma step_Inv cs s ev s' out :
    InvP cs s -> stepP s ev = Some (s', out) ->
    InvP (cs ++ match ev with EAlloc _ c => [c] | _ => [] end) s'.
  Proof.
    intros HI Es. destruct HI as (Hn & Hh & Hc).
    destruct ev as [a c|so ro inv|o|o]; unfold step in Es.
    - destruct (addr_live a (heap s)); [discriminate|]. inversion Es; subst s' out. clear Es.
      repeat split; simpl.
      + rewrite app_length, Hn. simpl. lia.
      + apply Forall_app. split.
        * eapply Forall_impl; [|exact Hh]. intros; apply obj_ok_ext; auto.
        * constructor; auto. split; simpl.
          -- rewrite Hn, Nat2N.id, app_length. simpl. lia.
          -- unfold cont_of. rewrite Hn, Nat2N.id. rewrite app_nth2; [|lia].
             rewrite Nat.sub_diag. reflexivity.
      + eapply Forall_impl; [|exact Hc]. intros; apply entry_ok_ext; auto.
    - rewrite app_nil_r.
      destruct (find_obj so (heap s)) as [x|] eqn:Ex; [|discriminate].
      destruct (find_obj ro (heap s)) as [y|] eqn:Ey; [|discriminate].
      destruct (o_held x && o_held y); [|discriminate].
      destruct (apply R execute true cache_on cmax s x y inv) as [s'' [h res]] eqn:Ea.
      inversion Es; subst s' out. clear Es.
      apply find_obj_some in Ex. destruct Ex as [Hx Hxi].
      apply find_obj_some in Ey. destruct Ey as [Hy Hyi].
      rewrite Forall_forall in Hh. pose proof (Hh _ Hx) as Hox. pose proof (Hh _ Hy) as Hoy.
      destruct (apply_ok R execute cache_on cmax cs s x y inv s'' h res) as [_ HI']; auto.
      repeat split; auto. rewrite Forall_forall; auto.
    - rewrite app_nil_r.
      destruct (find_obj o (heap s)) as [x|]; [|discriminate].
      destruct (o_held x); [|discriminate]. inversion Es; subst s' out. clear Es.
      repeat split; simpl; auto using set_released_ok.
    - rewrite app_nil_r.
      destruct (find_obj o (heap s)) as [x|]; [|discriminate].
      destruct (o_held x || (true && pins R o (cache s))); [discriminate|].
      inversion Es; subst s' out. clear Es.
      repeat split; simpl; auto. unfold remove_obj. apply Forall_filter; auto.
  Qed.

  Lemma contents_of_cons ev tr :
    contents_of (ev :: tr) = match ev with EAlloc _ c => [c] | _ => [] end ++ contents_of tr.
  Proof. reflexivity. Qed.

  Lemma run_Inv tr : forall cs s outs fin,
    InvP cs s -> runP s tr = (true, outs, fin) -> InvP (cs ++ contents_of tr) fin.
  Proof.
    induction tr as [|ev tr IH]; intros cs s outs fin HI Hrun; simpl in Hrun.
    - inversion Hrun; subst. unfold contents_of. simpl. now rewrite app_nil_r.
    - destruct (stepP s ev) as [[s' out]|] eqn:Es; [|discriminate].
      destruct (runP s' tr) as [[ok' outs'] fin'] eqn:Er.
      inversion Hrun; subst ok' fin'. clear Hrun.
      rewrite contents_of_cons, app_assoc. eapply IH; [|exact Er].
      eapply step_Inv; eauto.
  Qed.
End RunInv.

(* ------------------------------------------------------------------ shipping *)

Lemma index_of_spec o ids : In o ids ->
  (N.to_nat (index_of o ids) < length ids)%nat /\ nth (N.to_nat (index_of o ids)) ids 0 = o.
Proof.
  induction ids as [|x ids IH]; intros Hin; [destruct Hin|]. cbn [index_of].
  destruct (x =? o) eqn:E.
  - apply N.eqb_eq in E. subst. change (N.to_nat 0) with 0%nat. cbn [nth length]. split; [lia|reflexivity].
  - destruct Hin as [Hx|Hin]; [apply N.eqb_neq in E; congruence|].
    destruct (IH Hin) as [H1 H2].
    rewrite N2Nat.inj_add. change (N.to_nat 1) with 1%nat. cbn [Nat.add nth length]. split; [lia|exact H2].
Qed.

Lemma ship_contents_length cs ids : length (ship_contents cs ids) = length ids.
Proof. unfold ship_contents. apply map_length. Qed.

Lemma ship_contents_at cs ids o : In o ids ->
  cont_of (ship_contents cs ids) (index_of o ids) = cont_of cs o.
Proof.
  intros Hin. destruct (index_of_spec o ids Hin) as [H1 H2].
  unfold cont_of, ship_contents.
  rewrite (nth_indep _ 0 (nth (N.to_nat 0) cs 0)) by (rewrite map_length; exact H1).
  rewrite (map_nth (fun o0 => nth (N.to_nat o0) cs 0)). rewrite H2. reflexivity.
Qed.

Section ShipInv.
  Variable R : Type.
  Variable execute : N -> N -> bool -> R.

  Lemma pinned_in_ids (c : list (centry R)) roots e : In e c ->
    In (e_ps e) (ship_ids c roots) /\ In (e_pr e) (ship_ids c roots).
  Proof.
    intros Hin. unfold ship_ids. split; apply dedupe_In, in_app_iff; right; apply in_flat_map;
      exists e; simpl; auto.
  Qed.

  Lemma root_in_ids (c : list (centry R)) roots r : In r roots -> In r (ship_ids c roots).
  Proof. intros Hin. unfold ship_ids. apply dedupe_In, in_app_iff. auto. Qed.

  (** the shipped state satisfies the machine's invariant for the contents of the copies *)
  Lemma ship_Inv cs sp roots addrs :
    Inv R execute cs sp ->
    Inv R execute (ship_contents cs (ship_ids (cache sp) roots)) (ship cs sp roots addrs).
  Proof.
    intros (Hn & Hh & Hc). unfold ship.
    set (ids := ship_ids (cache sp) roots). set (cs' := ship_contents cs ids).
    assert (Hlen : length cs' = length ids) by apply ship_contents_length.
    repeat split; simpl.
    - now rewrite Hlen.
    - apply Forall_forall. intros x Hx. apply in_map_iff in Hx as [k [<- Hk]]. apply in_seq in Hk.
      split; simpl.
      + rewrite Nat2N.id, Hlen. lia.
      + unfold cont_of. now rewrite Nat2N.id.
    - apply Forall_forall. intros e' He'. apply in_map_iff in He' as [e [<- He]].
      rewrite Forall_forall in Hc. destruct (Hc e He) as (Hr & _ & _).
      destruct (pinned_in_ids (cache sp) roots e He) as [Hps Hpr]. fold ids in Hps, Hpr.
      unfold entry_ok, ship_entry. simpl. repeat split.
      + unfold cs'. rewrite !ship_contents_at by assumption. exact Hr.
      + rewrite Hlen. apply index_of_spec. exact Hps.
      + rewrite Hlen. apply index_of_spec. exact Hpr.
  Qed.
End ShipInv.

(* ------------------------------------------------------------------ transparency in a worker *)

Section Workers.
  Variable execute : N -> N -> bool -> list N.
  Variable cache_on : bool.
  Variable cmax : nat.

  Notation runL := (run (list N) execute true cache_on cmax).

  (** every application in a worker — whatever the worker's allocator and collector do, whatever the parent's cache
      contained when it was pickled — returns execute(contents of the two objects) *)
  Theorem worker_transparent tr0 outs0 sp roots addrs tr outs fin :
    runL (init _) tr0 = (true, outs0, sp) ->
    runL (ship (contents_of tr0) sp roots addrs) tr = (true, outs, fin) ->
    map snd outs = spec execute (ship_contents (contents_of tr0) (ship_ids (cache sp) roots)) tr.
  Proof.
    intros H0 Hw.
    pose proof (run_Inv _ execute cache_on cmax tr0 [] _ _ _ (init_Inv _ execute) H0) as HI. simpl in HI.
    eapply cache_transparent_from; [|exact Hw]. apply ship_Inv. exact HI.
  Qed.

  (** one batch of entries in a worker: the outputs are the single-entry results *)
  Theorem worker_batch_is_map dd tr0 outs0 sp rules addrs inv chunk tr :
    runL (init _) tr0 = (true, outs0, sp) ->
    let cs := contents_of tr0 in
    let ids := ship_ids (cache sp) rules in
    let sw := ship cs sp rules addrs in
    fst (fst (runL sw tr)) = true ->
    client_view tr = worker_prog (length ids) (map (fun r => index_of r ids) rules) inv chunk ->
    worker_outputs execute cache_on cmax dd sw (length rules) chunk tr =
    (true, map (single execute dd (map (cont_of cs) rules) inv) chunk).
  Proof.
    intros H0 cs ids sw Hok Hview. unfold worker_outputs.
    destruct (runL sw tr) as [[ok outs] fin] eqn:Er. simpl in Hok. subst ok.
    pose proof (worker_transparent _ _ _ _ _ _ _ _ H0 Er) as Hs. fold cs ids in Hs.
    rewrite Hs, spec_client_view, Hview. unfold worker_prog.
    destruct (entries_prog (N.of_nat (length ids)) (map (fun r => index_of r ids) rules) inv chunk)
      as [ops n'] eqn:Ee. simpl.
    destruct (entries_spec execute (map (fun r => index_of r ids) rules) (map (cont_of cs) rules) inv chunk
                _ (ship_contents cs ids) _ _ Ee) as (H1 & _ & _).
    { now rewrite ship_contents_length. }
    { intros l. rewrite map_map. apply map_ext_in. intros r Hr.
      assert (Hin : In r ids) by (apply root_in_ids; exact Hr).
      rewrite cont_of_ext by (rewrite ship_contents_length; apply index_of_spec; exact Hin).
      apply ship_contents_at. exact Hin. }
    rewrite H1.
    set (gs := map (fun c => map (fun rc => execute c rc inv) (map (cont_of cs) rules)) chunk).
    assert (Hl : length gs = length chunk) by (unfold gs; apply map_length).
    rewrite <- Hl, <- (app_nil_r (concat gs)), chop_concat.
    - simpl. f_equal. unfold gs. rewrite map_map. apply map_ext. intro c. reflexivity.
    - unfold gs. rewrite Forall_map. apply Forall_forall. intros c _. simpl. now rewrite !map_length.
  Qed.

  (** rule-level parallelism: the single application of a task returns execute(contents) *)
  Theorem rule_task_transparent tr0 outs0 sp s r addrs inv tr outs fin :
    runL (init _) tr0 = (true, outs0, sp) ->
    let cs := contents_of tr0 in
    let ids := ship_ids (cache sp) [s; r] in
    runL (ship cs sp [s; r] addrs) tr = (true, outs, fin) ->
    client_view tr = rule_task_prog (index_of s ids) (index_of r ids) inv ->
    map snd outs = [execute (cont_of cs s) (cont_of cs r) inv].
  Proof.
    intros H0 cs ids Hw Hview. subst cs ids.
    rewrite (worker_transparent _ _ _ _ _ _ _ _ H0 Hw), spec_client_view, Hview.
    unfold rule_task_prog. cbn [cspec].
    set (cs := contents_of tr0). set (ids := ship_ids (cache sp) [s; r]).
    assert (Hs : In s ids) by (apply root_in_ids; simpl; auto).
    assert (Hr : In r ids) by (apply root_in_ids; simpl; auto).
    pose proof (ship_contents_at cs ids s Hs) as E1. pose proof (ship_contents_at cs ids r Hr) as E2.
    unfold cont_of in E1, E2 |- *. rewrite E1, E2. reflexivity.
  Qed.
End Workers.

(* ------------------------------------------------------------------ all batches together *)

Lemma wchunks_fuel_concat {A} c : (0 < c)%nat -> forall fuel (l : list A), (length l <= fuel)%nat ->
  concat (wchunks_fuel fuel c l) = l.
Proof.
  intros Hc. induction fuel as [|fuel IH]; intros l Hl; simpl.
  - destruct l; simpl in *; [reflexivity|lia].
  - destruct l as [|x l]; [reflexivity|].
    simpl concat. rewrite IH.
    + apply firstn_skipn.
    + rewrite skipn_length. cbn [length] in *. lia.
Qed.

Lemma wchunks_concat {A} c (l : list A) : concat (wchunks c l) = l.
Proof. unfold wchunks. apply wchunks_fuel_concat; lia. Qed.

(** fit with entry-level workers = map single, for EVERY order-preserving cut of the entry list into batches of tasks,
    every parent history before the fit (any legal trace [tr0]: e.g. earlier serial work that filled the cache which is
    then pickled), every address assignment of the copies and every legal worker trace per batch *)
Theorem fit_workers_is_map execute cache_on cmax dd tr0 outs0 sp rules inv subs c
        (addrs_of : nat -> list N) (traces : list (list event)) :
  run (list N) execute true cache_on cmax (init _) tr0 = (true, outs0, sp) ->
  let cs := contents_of tr0 in
  let ids := ship_ids (cache sp) rules in
  Forall2 (fun chunk ktr =>
             fst (fst (run (list N) execute true cache_on cmax (ship cs sp rules (addrs_of (fst ktr))) (snd ktr))) = true /\
             client_view (snd ktr) = worker_prog (length ids) (map (fun r => index_of r ids) rules) inv chunk)
          (wchunks c subs) (combine (seq 0 (length traces)) traces) ->
  concat (map (fun x : list N * (nat * list event) =>
                 snd (worker_outputs execute cache_on cmax dd (ship cs sp rules (addrs_of (fst (snd x))))
                                     (length rules) (fst x) (snd (snd x))))
              (combine (wchunks c subs) (combine (seq 0 (length traces)) traces))) =
  map (single execute dd (map (cont_of cs) rules) inv) subs.
Proof.
  intros H0 cs ids HF. subst cs ids.
  rewrite <- (wchunks_concat c subs) at 2. rewrite concat_map. f_equal.
  induction HF as [|chunk ktr chunks ktrs [Hok Hview] HF IH]; [reflexivity|].
  cbn [combine map]. f_equal; [|exact IH]. cbn [fst snd].
  rewrite (worker_batch_is_map execute cache_on cmax dd tr0 outs0 sp rules (addrs_of (fst ktr)) inv chunk (snd ktr) H0 Hok Hview).
  reflexivity.
Qed.

(* ------------------------------------------------------------------ non-vacuity *)

(** A parent that has served two entries serially (cache of size 2 filled with the second entry's two results, its
    substrate kept alive by the cache alone), then ships the applier: in the worker the first new substrate is given the
    address of the stale substrate key while the rule copies sit at their old addresses — both stale keys collide, the
    identity check rejects them, and the worker returns the right results. *)
Definition nvw_exec (s r : N) (inv : bool) : list N := [s + r; s; if inv then 1 else 0].
Definition nvw_tr0 : list event := synth (list N) nvw_exec true 2 (init _) (parent_prog [50; 60] false [1; 2]).
Definition nvw_sp : state (list N) := snd (run (list N) nvw_exec true true 2 (init _) nvw_tr0).
Definition nvw_ids : list N := ship_ids (cache nvw_sp) [0; 1].
Definition nvw_sw : state (list N) := ship (contents_of nvw_tr0) nvw_sp [0; 1] (copy_addrs nvw_sp [0; 1] nvw_ids).
Definition nvw_tr : list event := synth (list N) nvw_exec true 2 nvw_sw (worker_prog (length nvw_ids) [0; 1] false [1; 3]).

Example worker_nonvacuous :
  fst (fst (run (list N) nvw_exec true true 2 (init _) nvw_tr0)) = true /\
  map (fun e => (e_ks e, e_kr e, e_ps e)) (cache nvw_sp) = [(4, 1, 3); (4, 2, 3)] /\          (* parent: keys 4/1, 4/2 pin object 3 *)
  map (fun e => (e_ks e, e_kr e, e_ps e)) (cache nvw_sw) = [(4, 1, 2); (4, 2, 2)] /\          (* worker: same keys, pin copy 2 *)
  firstn 3 nvw_tr = [EAlloc 4 1; EApply 3 0 false; EApply 3 1 false] /\                        (* new substrate at address 4 *)
  client_view nvw_tr = worker_prog (length nvw_ids) [0; 1] false [1; 3] /\
  worker_outputs nvw_exec true 2 true nvw_sw 2 [1; 3] nvw_tr = (true, [[51; 1; 0; 61]; [53; 3; 0; 63]]) /\
  map (single nvw_exec true [50; 60] false) [1; 3] = [[51; 1; 0; 61]; [53; 3; 0; 63]].
Proof. vm_compute. repeat split; reflexivity. Qed.

Example fit_workers_synth_nonvacuous :
  fit_workers_synth nvw_exec true 2 true (contents_of nvw_tr0) nvw_sp [0; 1] false [1; 2; 3; 1; 5] 2 =
  (true, map (single nvw_exec true [50; 60] false) [1; 2; 3; 1; 5]) /\
  rule_task_synth nvw_exec true 2 (contents_of nvw_tr0) nvw_sp 0 1 false = (true, nvw_exec 50 60 false).
Proof. vm_compute. split; reflexivity. Qed.
