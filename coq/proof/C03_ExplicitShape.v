(** C03 — the exact shape of the graph _explicit_h returns, given its list of migrations: the old edges followed by
    one (donor, H) bond (1,0) and one (H, recipient) bond (0,1) per migration, the old atoms followed by the new H
    atoms, and every old atom's two hydrogen counts lowered by the number of times it donates / receives.
    Stdlib lists only. *)
From Coq Require Import List NArith ZArith Bool Lia Permutation.
From SK Require Import lib.Tok lib.LGraph model.C03_Model proof.C03_Proof proof.C03_Glue proof.C03_ExplicitH.
Import ListNotations.
Local Open Scope Z_scope.

Lemma addH_fold_lists ms : forall J h J' h', fold_left addH_step ms (J, h) = (J', h') ->
  gnodes J' = gnodes J ++ new_nodes h ms /\ gedges J' = gedges J ++ new_edges h ms.
Proof.
  induction ms as [|sd r IH]; intros J h J' h' H.
  - simpl in H. inversion H; subst. simpl. rewrite !app_nil_r. auto.
  - cbn [fold_left] in H. unfold addH_step at 2 in H. destruct (IH _ _ _ _ H) as [E1 E2]. cbn [gnodes gedges] in E1, E2.
    rewrite E1, E2. cbn [new_nodes new_edges]. rewrite <- !app_assoc. split; reflexivity.
Qed.

Lemma new_nodes_ge h ms k a : In (k, a) (new_nodes h ms) -> (h <= k)%N /\ a = H_inode.
Proof.
  revert h. induction ms as [|sd r IH]; intros h I; [destruct I|]. simpl in I. destruct I as [I|I].
  - inversion I; subst. split; [lia|reflexivity].
  - destruct (IH _ I). split; [lia|assumption].
Qed.

Lemma dec_fold_label_other ms : forall J k,
  (forall sd, In sd ms -> fst sd <> k /\ snd sd <> k) -> label (fold_left dec_step ms J) k = label J k.
Proof.
  induction ms as [|sd r IH]; intros J k H; [reflexivity|]. cbn [fold_left]. rewrite IH by (intros; apply H; right; assumption).
  destruct (H sd (or_introl eq_refl)) as [H1 H2]. unfold dec_step. rewrite !label_upd.
  destruct (N.eqb_spec k (snd sd)); [congruence|]. destruct (N.eqb_spec k (fst sd)); [congruence|]. reflexivity.
Qed.

Lemma dec_fold_hc ms : forall J n a, label J n = Some a ->
  exists a', label (fold_left dec_step ms J) n = Some a' /\
    a_hc (iG a') = a_hc (iG a) - occurrences n (map fst ms) /\ a_hc (iH a') = a_hc (iH a) - occurrences n (map snd ms).
Proof.
  induction ms as [|sd r IH]; intros J n a Ha.
  - exists a. unfold occurrences; simpl. repeat split; auto; lia.
  - cbn [fold_left].
    assert (exists a1, label (dec_step J sd) n = Some a1 /\
              a_hc (iG a1) = a_hc (iG a) - (if N.eqb n (fst sd) then 1 else 0) /\
              a_hc (iH a1) = a_hc (iH a) - (if N.eqb n (snd sd) then 1 else 0)) as (a1 & H1 & G1 & G2).
    { unfold dec_step. rewrite !label_upd, Ha.
      destruct (N.eqb n (fst sd)), (N.eqb n (snd sd)); simpl; eexists; (split; [reflexivity|]); simpl; lia. }
    destruct (IH _ n a1 H1) as (a' & H' & F1 & F2). exists a'. split; [exact H'|].
    unfold occurrences in *. cbn [map filter]. destruct (N.eqb n (fst sd)), (N.eqb n (snd sd)); cbn [length]; lia.
Qed.

Theorem explicit_h_shape T T' ms : NoDup (node_ids T) -> explicit_h T = Some (T', ms) ->
  gedges T' = gedges T ++ new_edges (N.succ (max_id T)) ms /\
  node_ids T' = node_ids T ++ map fst (new_nodes (N.succ (max_id T)) ms) /\
  (forall k a, In (k, a) (new_nodes (N.succ (max_id T)) ms) -> label T' k = Some H_inode) /\
  (forall n a, label T n = Some a ->
     exists a', label T' n = Some a' /\
       a_hc (iG a') = a_hc (iG a) - occurrences n (map fst ms) /\ a_hc (iH a') = a_hc (iH a) - occurrences n (map snd ms)).
Proof.
  intros Hnd H. destruct (explicit_h_unfold T T' ms H) as (Hm & T1 & h1 & E1 & ->).
  pose proof (migrations_are_atoms T ms Hm) as Hat.
  destruct (addH_fold_lists ms _ _ _ _ E1) as [N1 N2].
  destruct (addH_fold ms T (N.succ (max_id T)) T1 h1 E1 Hnd) as (A1 & _ & A3 & _ & _).
  { intros n I. pose proof (max_id_ge T n I). lia. }
  split; [|split; [|split]].
  - rewrite dec_fold_edges. exact N2.
  - rewrite dec_fold_ids. unfold node_ids. rewrite N1, map_app. reflexivity.
  - intros k a I. destruct (new_nodes_ge _ _ _ _ I) as [Hk ->]. rewrite dec_fold_label_other.
    + apply assoc_nodup_in; [exact A1|]. rewrite N1. apply in_or_app. right. exact I.
    + intros sd Isd. destruct (Hat sd Isd) as [H1 H2]. apply has_node_label in H1, H2. destruct H1 as [x Hx], H2 as [y Hy].
      unfold label in Hx, Hy. apply assoc_in in Hx, Hy.
      pose proof (max_id_ge T (fst sd) (in_map fst _ _ Hx)). pose proof (max_id_ge T (snd sd) (in_map fst _ _ Hy)).
      cbn [fst] in *. split; lia.
  - intros n a Ha. apply dec_fold_hc. apply A3. exact Ha.
Qed.
