(** C19 — the evaluation-friendly variants of model/C19_Fast.v are EQUAL to the functions of model/C19_Model.v that every
    theorem of props/C19.v talks about; the fast certificate flag implies the certificate flag.  stdlib lists. *)
From Coq Require Import List NArith ZArith Bool Arith Lia.
From SK Require Import lib.Tok lib.Reach lib.C17_Farkas lib.C19_FastClosure model.C17_Model model.C19_Model model.C19_Fast.
Require SK.lib.C19_FastRank.
Import ListNotations.
Local Open Scope nat_scope.

Lemma complex_graph_f_eq net iso : complex_graph_f net iso = complex_graph net iso.
Proof. reflexivity. Qed.
Lemma build_S_f_eq net iso : build_S_f net iso = build_S net iso.
Proof. reflexivity. Qed.

Lemma closure_f_eq nbr k u : closure_f nbr k u = closure nbr k u.
Proof. unfold closure_f, closure. rewrite sat_f_seed. reflexivity. Qed.

Lemma classes_go_f_eq nbr k todo : forall seen, classes_go_f nbr k todo seen = classes_go nbr k todo seen.
Proof.
  induction todo as [|u rest IH]; intros seen; simpl; [reflexivity|].
  destruct (mem u seen); [apply IH|]. rewrite closure_f_eq, IH. reflexivity.
Qed.
Lemma linkage_classes_f_eq arcs k : linkage_classes_f arcs k = linkage_classes arcs k.
Proof. apply classes_go_f_eq. Qed.

Lemma forallb_ext' {A} (f g : A -> bool) l : (forall x, f x = g x) -> forallb f l = forallb g l.
Proof. intros H. induction l as [|a l IH]; simpl; [reflexivity|]. rewrite H, IH. reflexivity. Qed.
Lemma filter_ext' {A} (f g : A -> bool) l : (forall x, f x = g x) -> filter f l = filter g l.
Proof. intros H. induction l as [|a l IH]; simpl; [reflexivity|]. rewrite H, IH. reflexivity. Qed.

Lemma strongly_connected_f_eq arcs k c : strongly_connected_f arcs k c = strongly_connected arcs k c.
Proof. destruct c as [|u c]; [reflexivity|]. unfold strongly_connected_f, strongly_connected. rewrite !closure_f_eq. reflexivity. Qed.
Lemma weakly_reversible_f_eq arcs k : weakly_reversible_f arcs k = weakly_reversible arcs k.
Proof.
  unfold weakly_reversible_f, weakly_reversible. rewrite linkage_classes_f_eq. apply forallb_ext'. apply strongly_connected_f_eq.
Qed.

Lemma scc_f_eq arcs k v : scc_f arcs k v = scc arcs k v.
Proof. unfold scc_f, scc. cbv zeta. rewrite !closure_f_eq. reflexivity. Qed.
Lemma is_terminal_f_eq arcs k v : is_terminal_f arcs k v = is_terminal arcs k v.
Proof. unfold is_terminal_f, is_terminal. rewrite !closure_f_eq. reflexivity. Qed.
Lemma is_rep_f_eq arcs k c v : is_rep_f arcs k c v = is_rep arcs k c v.
Proof. unfold is_rep_f, is_rep. cbv zeta. rewrite scc_f_eq. reflexivity. Qed.
Lemma terminal_count_f_eq arcs k c : terminal_count_f arcs k c = terminal_count arcs k c.
Proof.
  unfold terminal_count_f, terminal_count. f_equal. apply filter_ext'. intros v. rewrite is_rep_f_eq, is_terminal_f_eq. reflexivity.
Qed.
Lemma regular_f_eq arcs k : regular_f arcs k = regular arcs k.
Proof.
  unfold regular_f, regular. rewrite linkage_classes_f_eq. apply forallb_ext'. intros c. rewrite terminal_count_f_eq. reflexivity.
Qed.

Lemma compute_summary_f_eq net iso r : compute_summary_f net iso r = compute_summary net iso r.
Proof.
  unfold compute_summary_f, summary_of, compute_summary. rewrite complex_graph_f_eq. destruct (complex_graph net iso) as [cs arcs].
  rewrite linkage_classes_f_eq, weakly_reversible_f_eq. reflexivity.
Qed.

(** the observable computed with the fast functions is the observable of model/C19_Model.v, for every certificate flag *)
Theorem run19_flag_f_eq flag net iso rc ccs : run19_flag_f flag net iso rc ccs = run19_flag flag net iso rc ccs.
Proof.
  unfold run19_flag_f, run19_of, run19_flag. destruct net as [|e net]; [reflexivity|].
  fold (compute_summary_f (e :: net) iso (rc_r rc)). rewrite compute_summary_f_eq, complex_graph_f_eq.
  destruct (complex_graph (e :: net) iso) as [cs arcs].
  rewrite linkage_classes_f_eq, regular_f_eq. reflexivity.
Qed.

Lemma rank_checked_f_sound m n S c : rank_checked_f m n S c = true -> rank_checked m n S c = true.
Proof. unfold rank_checked_f, rank_checked. apply SK.lib.C19_FastRank.check_rank_f_sound. Qed.

(** the fast certificate flag implies the flag the rank theorems ask for *)
Theorem certs_ok_f_sound net iso rc ccs : certs_ok_f net iso rc ccs = true -> certs_ok net iso rc ccs = true.
Proof.
  unfold certs_ok_f, certs_of, certs_ok. rewrite complex_graph_f_eq, build_S_f_eq. destruct (complex_graph net iso) as [cs arcs].
  rewrite linkage_classes_f_eq. rewrite !andb_true_iff. intros [[H1 H2] H3].
  split; [split; [apply rank_checked_f_sound; exact H1|exact H2]|].
  rewrite forallb_forall in *. intros p I. apply rank_checked_f_sound. apply H3. exact I.
Qed.

(** hence: when the evaluated observable run19f shows the flag 1, it IS run19 of the same inputs, with accepted certificates *)
Theorem run19f_spec net iso rc ccs : certs_ok_f net iso rc ccs = true ->
  run19f net iso rc ccs = run19 net iso rc ccs /\ certs_ok net iso rc ccs = true.
Proof.
  intros H. pose proof (certs_ok_f_sound _ _ _ _ H) as H'. split; [|exact H'].
  unfold run19f, run19. cbv zeta. fold (certs_ok_f net iso rc ccs). fold (run19_flag_f (certs_ok_f net iso rc ccs) net iso rc ccs).
  rewrite run19_flag_f_eq, H, H'. reflexivity.
Qed.

(* non-vacuity: A + B <-> C, C -> 2A *)
Definition exf_net : list rxn :=
  [([49%N], [114%N], [([65%N], 1%Z); ([66%N], 1%Z)], [([67%N], 1%Z)]);
   ([50%N], [114%N], [([67%N], 1%Z)], [([65%N], 1%Z); ([66%N], 1%Z)]);
   ([51%N], [114%N], [([67%N], 1%Z)], [([65%N], 2%Z)])].
Definition exf_rc : rcert :=
  RCert 2 [[1; 2]; [1; 0]; [-1; -1]]%Z [[-1; 1; 0]; [0; 0; 1]]%Z [[0; -2; 0]; [1; -1; 0]]%Z [[1; 0]; [0; 0]; [0; 1]]%Z 2%Z.
Example ex_fast : rank_checked_f 3 3 (build_S_f exf_net []) exf_rc = true /\
  complex_graph_f exf_net [] = ([[1; 1; 0]; [0; 0; 1]; [2; 0; 0]]%Z, [(0, 1); (1, 0); (1, 2)]) /\
  regular_f (snd (complex_graph_f exf_net [])) 3 = true /\ weakly_reversible_f (snd (complex_graph_f exf_net [])) 3 = false.
Proof. repeat split; vm_compute; reflexivity. Qed.

Lemma fast_eval net iso rc ccs :
  (forall flag, run19_flag_f flag net iso rc ccs = run19_flag flag net iso rc ccs) /\
  (certs_ok_f net iso rc ccs = true -> certs_ok net iso rc ccs = true) /\
  (certs_ok_f net iso rc ccs = true -> run19f net iso rc ccs = run19 net iso rc ccs /\ certs_ok net iso rc ccs = true).
Proof.
  split; [intros flag; apply run19_flag_f_eq|]. split; [apply certs_ok_f_sound|apply run19f_spec].
Qed.
