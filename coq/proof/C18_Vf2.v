(** C18 — the reference enumerator [auts] of the model (compared with VF2's self-isomorphisms on every case) lists, without
    duplicates, exactly the assignments that are structure-preserving self-maps of the view. *)
From Coq Require Import List NArith ZArith Bool Arith Lia Permutation.
From SK Require Import lib.IRCore lib.C18_IRValid lib.C18_IRLeaves model.C18_Model proof.C18_Spec proof.C18_Graph proof.C18_Label proof.C18_Aut.
Import ListNotations.

Lemma eattr_eqb_eq a b : eattr_eqb a b = true <-> a = b.
Proof.
  destruct a, b. unfold eattr_eqb. simpl. rewrite andb_true_iff, !Z.eqb_eq. split; [intros [-> ->]; auto|intros E; inversion E; auto].
Qed.
Lemma oattr_eqb_eq a b : oattr_eqb a b = true <-> a = b.
Proof.
  destruct a as [a|], b as [b|]; simpl; try (split; [discriminate|discriminate]); [|tauto].
  rewrite eattr_eqb_eq. split; [intros ->; auto|intros E; inversion E; auto].
Qed.

(** pointwise reading of an assignment list (pattern node, host node) *)
Definition pw (g : vgraph) (m : list (N * N)) : Prop :=
  NoDup (map snd m) /\
  (forall ph, In ph m -> In (snd ph) (node_ids g) /\ kind_of g (fst ph) = kind_of g (snd ph)) /\
  (forall ph ph', In ph m -> In ph' m -> find_arc g (fst ph) (fst ph') = find_arc g (snd ph) (snd ph')).

Inductive mvalid (g : vgraph) : list (N * N) -> Prop :=
| mv_nil : mvalid g []
| mv_cons p h acc : mvalid g acc -> In h (node_ids g) -> aut_ok g p h acc = true -> mvalid g ((p, h) :: acc).

Lemma aut_ok_spec g p h acc : aut_ok g p h acc = true <->
  kind_of g p = kind_of g h /\ ~ In h (map snd acc) /\ find_arc g p p = find_arc g h h /\
  (forall ph, In ph acc -> find_arc g p (fst ph) = find_arc g h (snd ph) /\ find_arc g (fst ph) p = find_arc g (snd ph) h).
Proof.
  unfold aut_ok. rewrite !andb_true_iff, Z.eqb_eq, negb_true_iff, oattr_eqb_eq, forallb_forall.
  assert (F : existsb (fun ph : N * N => N.eqb (snd ph) h) acc = false <-> ~ In h (map snd acc)).
  { rewrite <- not_true_iff_false, existsb_exists. split.
    - intros H I. apply H. apply in_map_iff in I. destruct I as (ph & E & I). exists ph. split; auto. apply N.eqb_eq. auto.
    - intros H (ph & I & E). apply H. apply N.eqb_eq in E. subst. apply in_map. auto. }
  rewrite F. unfold pair_ok. split.
  - intros [[[H1 H2] H3] H4]. repeat split; auto; specialize (H4 _ H); apply andb_prop in H4; destruct H4 as [A B];
      apply oattr_eqb_eq; auto.
  - intros (H1 & H2 & H3 & H4). repeat split; auto. intros ph I. destruct (H4 _ I) as [A B].
    apply andb_true_iff. split; apply oattr_eqb_eq; auto.
Qed.

Lemma mvalid_pw g m : mvalid g m <-> pw g m.
Proof.
  split.
  - induction 1 as [|p h acc Hv (IH1 & IH2 & IH3) Hh Hok].
    + split; [constructor|]. split; [intros ? []|intros ? ? []].
    + apply aut_ok_spec in Hok. destruct Hok as (Hk & Hf & Hl & Hp). split; [|split].
      * simpl. constructor; auto.
      * intros ph [<-|I]; simpl; auto.
      * intros ph ph' [<-|I] [<-|I']; simpl; auto.
        -- apply (Hp _ I').
        -- apply (Hp _ I).
  - induction m as [|[p h] acc IH]; intros (H1 & H2 & H3); [constructor|].
    simpl in H1. inversion H1; subst. constructor.
    + apply IH. split; [auto|]. split; intros; [apply H2|apply H3]; simpl; auto.
    + apply (H2 (p, h)). left. auto.
    + apply aut_ok_spec. split; [apply (H2 (p, h)); left; auto|]. split; [auto|]. split.
      * apply (H3 (p, h) (p, h)); left; auto.
      * intros ph I. split; [apply (H3 (p, h) ph)|apply (H3 ph (p, h))]; simpl; auto.
Qed.

(* ---------------- the enumerator ---------------- *)
Lemma aut_ext_shape g ps : forall acc m, In m (aut_ext g ps acc) ->
  exists hs, length hs = length ps /\ m = rev (combine ps hs) ++ acc.
Proof.
  induction ps as [|p ps IH]; intros acc m Hin; simpl in *.
  - destruct Hin as [<-|[]]. exists []. auto.
  - apply in_flat_map in Hin. destruct Hin as (h & Hh & Hin).
    destruct (aut_ok g p h acc); [|destruct Hin].
    apply IH in Hin. destruct Hin as (hs & Hl & ->). exists (h :: hs). split; [simpl; lia|].
    simpl. rewrite <- app_assoc. reflexivity.
Qed.
Lemma aut_ext_sound g ps : forall acc m, mvalid g acc -> In m (aut_ext g ps acc) -> mvalid g m.
Proof.
  induction ps as [|p ps IH]; intros acc m Hv Hin; simpl in *.
  - destruct Hin as [<-|[]]. exact Hv.
  - apply in_flat_map in Hin. destruct Hin as (h & Hh & Hin).
    destruct (aut_ok g p h acc) eqn:Hok; [|destruct Hin].
    eapply IH; [|exact Hin]. constructor; auto.
Qed.
Lemma mvalid_app_inv g l acc : mvalid g (l ++ acc) -> mvalid g acc.
Proof. induction l as [|[p h] l IH]; simpl; auto. intros H. inversion H; subst. auto. Qed.
Lemma aut_ext_complete g ps : forall hs acc, length hs = length ps ->
  mvalid g (rev (combine ps hs) ++ acc) -> In (rev (combine ps hs) ++ acc) (aut_ext g ps acc).
Proof.
  induction ps as [|p ps IH]; intros hs acc Hl Hv.
  - destruct hs; [|discriminate]. simpl. left. reflexivity.
  - destruct hs as [|h hs]; [discriminate|]. simpl in *. rewrite <- app_assoc in *. simpl in *.
    assert (Hv' : mvalid g ((p, h) :: acc)) by (eapply mvalid_app_inv; exact Hv).
    inversion Hv'; subst. apply in_flat_map. exists h. split; auto.
    match goal with H : aut_ok g p h acc = true |- _ => rewrite H end.
    apply IH; [lia | exact Hv].
Qed.

Lemma aut_ext_nodup g ps : forall acc, NoDup (node_ids g) -> NoDup (aut_ext g ps acc).
Proof.
  induction ps as [|p ps IH]; intros acc Hnd; simpl; [constructor; [intros []|constructor]|].
  apply NoDup_flat_map_disj; auto.
  - intros h _. destruct (aut_ok g p h acc); [apply IH; auto|constructor].
  - intros h h' m _ _ Hne H1 H2.
    destruct (aut_ok g p h acc); [|destruct H1]. destruct (aut_ok g p h' acc); [|destruct H2].
    apply aut_ext_shape in H1, H2. destruct H1 as (hs & L1 & E1), H2 as (hs' & L2 & E2). rewrite E1 in E2.
    assert (Hl : length (rev (combine ps hs)) = length (rev (combine ps hs'))).
    { rewrite !rev_length, !combine_length. lia. }
    destruct (app_inv_length _ _ _ _ Hl E2) as [_ Ex]. inversion Ex. auto.
Qed.

(* ---------------- the assignment order is a permutation of the nodes ---------------- *)
Lemma filter_neq_perm v l : NoDup l -> In v l -> Permutation (v :: filter (fun x => negb (N.eqb x v)) l) l.
Proof. intros Hnd Hin. apply (rest_perm v l Hnd Hin). Qed.

Lemma greedy_perm g fuel : forall chosen remaining, NoDup remaining ->
  Permutation (greedy g fuel chosen remaining) (rev chosen ++ remaining).
Proof.
  induction fuel as [|f IH]; intros chosen remaining Hnd; simpl; auto.
  destruct remaining as [|r0 rem]; [rewrite app_nil_r; auto|].
  set (v := match find (fun v => existsb (is_nbr g v) chosen) (r0 :: rem) with Some v => v | None => r0 end).
  assert (Hv : In v (r0 :: rem)).
  { unfold v. destruct (find _ (r0 :: rem)) eqn:E; [apply find_some in E; tauto|left; auto]. }
  eapply perm_trans; [apply IH; apply NoDup_filter; auto|].
  simpl rev. rewrite <- app_assoc. apply Permutation_app_head. exact (filter_neq_perm v (r0 :: rem) Hnd Hv).
Qed.

Lemma aut_order_perm g : NoDup (node_ids g) -> Permutation (aut_order g) (node_ids g).
Proof. intros H. unfold aut_order. apply (greedy_perm g _ [] _ H). Qed.

(* ---------------- [auts] = the structure-preserving self-maps ---------------- *)
Lemma in_combine_map {A B} (f : A -> B) l ph : In ph (combine l (map f l)) -> In (fst ph) l /\ snd ph = f (fst ph).
Proof. induction l as [|x l IH]; simpl; [tauto|]. intros [<-|I]; simpl; auto. destruct (IH I); auto. Qed.
Lemma map_snd_combine {A B} (l : list A) (l' : list B) : length l = length l' -> map snd (combine l l') = l'.
Proof. revert l'. induction l as [|x l IH]; intros [|y l'] H; simpl in *; try discriminate; auto. f_equal. apply IH. lia. Qed.
Lemma in_combine_nth {A B} (l : list A) (l' : list B) i dA dB : length l = length l' -> i < length l ->
  In (nth i l dA, nth i l' dB) (combine l l').
Proof.
  revert l' i. induction l as [|x l IH]; intros [|y l'] i Hl Hi; simpl in *; try lia; try discriminate.
  destruct i; auto. right. apply IH; lia.
Qed.

Theorem auts_spec g : wf g ->
  NoDup (auts g) /\
  (forall s, is_aut g s -> In (rev (combine (aut_order g) (map s (aut_order g)))) (auts g)) /\
  (forall m, In m (auts g) -> exists s, is_aut g s /\ m = rev (combine (aut_order g) (map s (aut_order g)))).
Proof.
  intros Hw. pose proof (aut_order_perm g (proj1 Hw)) as Hp. set (ps := aut_order g) in *.
  assert (Hps : NoDup ps) by (eapply Permutation_NoDup; [apply Permutation_sym; exact Hp|apply Hw]).
  split; [apply aut_ext_nodup; apply Hw|]. split.
  - intros s (Hinj & Hin & Hk & Ha). unfold auts. fold ps.
    rewrite <- (app_nil_r (rev (combine ps (map s ps)))). apply aut_ext_complete; [apply map_length|].
    rewrite app_nil_r. apply mvalid_pw.
    assert (Hel : forall ph, In ph (rev (combine ps (map s ps))) -> In (fst ph) (node_ids g) /\ snd ph = s (fst ph)).
    { intros ph I. apply in_rev in I. destruct (in_combine_map _ _ _ I) as [I1 I2]. split; auto. apply (Permutation_in _ Hp I1). }
    split; [|split].
    + rewrite map_rev, map_snd_combine by (rewrite map_length; auto). apply NoDup_rev.
      apply NoDup_map_inj_on; auto. intros x y Hx Hy. apply Hinj; apply (Permutation_in _ Hp); auto.
    + intros ph I. destruct (Hel _ I) as [I1 ->]. split; auto. symmetry. auto.
    + intros ph ph' I I'. destruct (Hel _ I) as [I1 ->]. destruct (Hel _ I') as [I1' ->]. symmetry. auto.
  - intros m Hm. unfold auts in Hm. fold ps in Hm.
    destruct (aut_ext_shape g ps [] m Hm) as (hs & Hl & E). rewrite app_nil_r in E.
    pose proof (aut_ext_sound g ps [] m (mv_nil g) Hm) as Hv. apply mvalid_pw in Hv. subst m.
    destruct Hv as (H1 & H2 & H3).
    rewrite map_rev, map_snd_combine in H1 by auto.
    assert (Hndh : NoDup hs) by (rewrite <- (rev_involutive hs); apply NoDup_rev; auto).
    assert (Hinh : forall i, i < length ps -> In (nth i ps 0%N, nth i hs 0%N) (rev (combine ps hs))).
    { intros i Hi. apply -> in_rev. apply in_combine_nth; auto. }
    assert (Hph : Permutation hs (node_ids g)).
    { apply NoDup_Permutation_bis; auto.
      - rewrite <- (Permutation_length Hp). lia.
      - intros h Hh. destruct (In_nth hs h 0%N Hh) as (i & Hi & <-).
        apply (H2 (nth i ps 0%N, nth i hs 0%N)). apply Hinh. lia. }
    exists (seqmap ps hs). split.
    + apply seq_aut; auto.
      * intros i Hi. apply (H2 (nth i ps 0%N, nth i hs 0%N)). auto.
      * intros i j Hi Hj. apply (H3 (nth i ps 0%N, nth i hs 0%N) (nth j ps 0%N, nth j hs 0%N)); auto.
    + rewrite map_seqmap; auto.
Qed.
