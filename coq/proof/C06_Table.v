(** C06 — proofs, part 8: the monitor of the VF2 contract implies the contract.  If
    [table_ok2 H P t] evaluates to true (second flag of every order-sensitive case) then
    the oracle [lookup_or t H P] that [run_list] hands to [find] satisfies [oracle_ok]:
    the theorems of props/C06.v apply to that run without any assumption about networkx. *)
From Coq Require Import List NArith Bool Arith Lia Permutation SetoidList SetoidPermutation.
From SK Require Import lib.LGraph lib.Mono model.C06_Model lib.C06_Spec proof.C06_All proof.C06_Comps proof.C06_CompSem.
Import ListNotations.

Lemma pair_eqb_spec a b : pair_eqb a b = true <-> a = b.
Proof.
  unfold pair_eqb. rewrite andb_true_iff, !N.eqb_eq. destruct a, b; simpl. split; [intros [-> ->]; reflexivity|intros [= -> ->]; auto].
Qed.

Lemma map_eqb_spec a b : map_eqb a b = true <-> length a = length b /\ incl a b.
Proof.
  unfold map_eqb. rewrite andb_true_iff, Nat.eqb_eq, forallb_forall. split; intros [E I]; split; auto.
  - intros x Ix. specialize (I x Ix). apply existsb_exists in I. destruct I as (y & Iy & Ey).
    apply pair_eqb_spec in Ey. subst. exact Iy.
  - intros x Ix. apply existsb_exists. exists x. split; [apply I; exact Ix|apply pair_eqb_spec; reflexivity].
Qed.

Lemma map_eqb2_perm a b : NoDup b -> map_eqb2 a b = true -> Permutation a b.
Proof.
  intros Hnd E. unfold map_eqb2 in E. apply andb_prop in E. destruct E as [E1 E2].
  apply map_eqb_spec in E1. apply map_eqb_spec in E2. destruct E1 as [El I1], E2 as [_ I2].
  apply NoDup_Permutation; [|exact Hnd|intros x; split; auto].
  apply (NoDup_incl_NoDup Hnd); [lia|exact I2].
Qed.

Lemma remove2_spec x : forall l r, remove2 x l = Some r ->
  exists l1 y l2, l = l1 ++ y :: l2 /\ r = l1 ++ l2 /\ map_eqb2 x y = true.
Proof.
  induction l as [|y l IH]; intros r E; simpl in E; [discriminate|].
  destruct (map_eqb2 x y) eqn:Ex.
  - inversion E; subst. exists [], y, r. auto.
  - destruct (remove2 x l) as [r'|] eqn:Er; [|discriminate]. inversion E; subst.
    destruct (IH r' eq_refl) as (l1 & z & l2 & -> & -> & Ez). exists (y :: l1), z, l2. auto.
Qed.

Lemma is_perm2_spec : forall a b, is_perm2 a b = true ->
  exists b', Permutation b b' /\ Forall2 (fun x y => map_eqb2 x y = true) a b'.
Proof.
  induction a as [|x a IH]; intros b E; simpl in E.
  - destruct b; [|discriminate]. exists []. split; constructor.
  - destruct (remove2 x b) as [r|] eqn:Er; [|discriminate].
    destruct (remove2_spec x b r Er) as (l1 & y & l2 & -> & -> & Ey).
    destruct (IH _ E) as (b' & Hp & HF). exists (y :: b'). split; [|constructor; assumption].
    eapply Permutation_trans; [apply Permutation_sym, Permutation_middle|]. constructor. exact Hp.
Qed.

Lemma same_set_spec a b : same_set a b = true <-> length a = length b /\ incl a b.
Proof.
  unfold same_set. rewrite andb_true_iff, Nat.eqb_eq, forallb_forall. split; intros [E I]; split; auto.
  - intros x Ix. apply LGraph.mem_spec. apply I. exact Ix.
  - intros x Ix. apply LGraph.mem_spec. apply I. exact Ix.
Qed.

Lemma same_set2_mem a b : same_set2 a b = true -> forall x, LGraph.mem x a = LGraph.mem x b.
Proof.
  unfold same_set2. intros E x. apply andb_prop in E. destruct E as [E1 E2].
  apply same_set_spec in E1. apply same_set_spec in E2. destruct E1 as [_ I1], E2 as [_ I2].
  destruct (LGraph.mem x a) eqn:Ea, (LGraph.mem x b) eqn:Eb; auto.
  - apply LGraph.mem_spec in Ea. apply I1 in Ea. apply LGraph.mem_spec in Ea. congruence.
  - apply LGraph.mem_spec in Eb. apply I2 in Eb. apply LGraph.mem_spec in Eb. congruence.
Qed.

(** a sublist of the node list "in node order" is recovered by filtering on membership *)
Definition in_order (nodes l : list N) : Prop := exists g, l = filter g nodes.

Lemma in_order_refilter nodes l : NoDup nodes -> in_order nodes l ->
  filter (fun x => LGraph.mem x l) nodes = l.
Proof.
  intros Hnd (g & ->). apply filter_ext_in. intros x Ix.
  destruct (g x) eqn:Eg.
  - apply LGraph.mem_spec. apply filter_In. auto.
  - rewrite <- not_true_iff_false, LGraph.mem_spec, filter_In. intros [_ E]. congruence.
Qed.

Lemma filter_ext_mem (f g : N -> bool) l : (forall x, f x = g x) -> filter f l = filter g l.
Proof. intros E. apply filter_ext. exact E. Qed.

Section Table.
Variables H P : graph.
Hypothesis HwfH : gwf H.
Hypothesis HwfP : gwf P.
Variable t : table.
Hypothesis Hok : table_ok2 H P t = true.

Lemma lookup_opt_in : forall hn pn l, lookup_opt t hn pn = Some l ->
  exists h p, In (h, p, l) t /\ same_set2 h hn = true /\ same_set2 p pn = true.
Proof.
  clear Hok. induction t as [|[[h p] l0] r IH]; intros hn pn l E; simpl in E; [discriminate|].
  destruct (same_set2 h hn && same_set2 p pn) eqn:Es.
  - inversion E; subst. apply andb_prop in Es. exists h, p. split; [left; reflexivity|exact Es].
  - destruct (IH hn pn l E) as (h' & p' & I & S). exists h', p'. split; [right; exact I|exact S].
Qed.

Lemma transfer hn pn l : NoDup hn -> NoDup pn ->
  is_perm2 l (monos_on H P hn pn) = true -> vf2_contract (fun _ _ => l) H P hn pn.
Proof.
  intros Hhn Hpn E. destruct (monos_on_contract H P HwfP hn pn Hhn Hpn) as (S & C & D).
  destruct (is_perm2_spec _ _ E) as (b' & Hp & HF).
  assert (Hb' : forall y, In y b' -> is_mono_on H P hn pn y).
  { intros y I. apply S. eapply Permutation_in; [apply Permutation_sym; exact Hp|exact I]. }
  assert (HF' : Forall2 (@Permutation (N * N)) l b').
  { clear -HF Hb'. induction HF as [|x y a b Exy _ IH]; constructor.
    - apply map_eqb2_perm; [|exact Exy]. destruct (Hb' y (or_introl eq_refl)) as (A & _).
      eapply NoDup_map_inv. exact A.
    - apply IH. intros z I. apply Hb'. right. exact I. }
  split; [|split].
  - intros m I. destruct (Forall2_in_l _ _ _ _ HF' I) as (y & Iy & Hxy).
    eapply is_mono_on_perm; [apply Permutation_sym; exact Hxy|apply Hb'; exact Iy].
  - intros m Hm. destruct (C m Hm) as (y & Iy & Hmy).
    apply (Permutation_in _ Hp) in Iy. destruct (Forall2_in_r _ _ _ _ HF' Iy) as (x & Ix & Hxy).
    exists x. split; [exact Ix|]. eapply Permutation_trans; [exact Hmy|apply Permutation_sym; exact Hxy].
  - assert (Db' : NoDupA (@Permutation (N * N)) b').
    { eapply PermutationA_preserves_NoDupA; [apply Permutation_Equivalence| |exact D].
      apply Permutation_PermutationA; [apply Permutation_Equivalence|exact Hp]. }
    eapply PermutationA_preserves_NoDupA; [apply Permutation_Equivalence| |exact Db'].
    clear -HF'. induction HF' as [|x y a b Exy _ IH]; [constructor|].
    apply permA_skip; [apply Permutation_sym; exact Exy|exact IH].
Qed.

Lemma lookup_or_contract hn pn :
  in_order (node_ids H) hn -> in_order (node_ids P) pn ->
  vf2_contract (lookup_or t H P) H P hn pn.
Proof.
  intros Oh Op.
  assert (Hhn : NoDup hn) by (destruct Oh as (g & ->); apply NoDup_filter; apply HwfH).
  assert (Hpn : NoDup pn) by (destruct Op as (g & ->); apply NoDup_filter; apply HwfP).
  unfold vf2_contract, lookup_or. destruct (lookup_opt t hn pn) as [l|] eqn:El.
  - destruct (lookup_opt_in hn pn l El) as (h & p & I & Sh & Sp).
    unfold table_ok2 in Hok. rewrite forallb_forall in Hok. specialize (Hok _ I). cbv beta iota in Hok.
    rewrite (filter_ext_mem _ _ (node_ids H) (same_set2_mem h hn Sh)) in Hok.
    rewrite (filter_ext_mem _ _ (node_ids P) (same_set2_mem p pn Sp)) in Hok.
    rewrite (in_order_refilter (node_ids H) hn (proj1 HwfH) Oh) in Hok.
    rewrite (in_order_refilter (node_ids P) pn (proj1 HwfP) Op) in Hok.
    exact (transfer hn pn l Hhn Hpn Hok).
  - exact (monos_on_contract H P HwfP hn pn Hhn Hpn).
Qed.

Lemma comps_in_order (g : graph) : gwf g -> forall c, In c (comps g) -> in_order (node_ids g) c.
Proof.
  intros Hg c Ic. destruct (comps_all g Hg) as (A & _). destruct (A c Ic) as (u & _ & ->).
  eexists. reflexivity.
Qed.

Theorem table_ok2_oracle_ok : oracle_ok (lookup_or t H P) H P.
Proof.
  split.
  - apply lookup_or_contract; exists (fun _ => true); symmetry.
    + clear. induction (node_ids H); simpl; congruence.
    + clear. induction (node_ids P); simpl; congruence.
  - intros hc pc Ihc Ipc _. apply lookup_or_contract; apply comps_in_order; assumption.
Qed.
End Table.
