(** C06 — proofs, part 3: [comps] (model of nx.connected_components) lists exactly the
    connectivity classes: every entry is a non-empty duplicate-free class, the entries
    cover the node list, entries at different positions are disjoint.  Stdlib lists. *)
From Coq Require Import List NArith Bool Arith Lia Permutation Relations Operators_Properties.
From SK Require Import lib.LGraph lib.Reach lib.C01_GraphLemmas model.C06_Model lib.C06_Spec.
Import ListNotations.

Lemma gconn_refl (g : graph) x : gconn g x x.
Proof. apply rt_refl. Qed.

Lemma gconn_trans (g : graph) x y z : gconn g x y -> gconn g y z -> gconn g x z.
Proof. apply rt_trans. Qed.

Lemma adjacent_sym (g : graph) x y : adjacent g x y -> adjacent g y x.
Proof. unfold adjacent. rewrite (LGraph.adj_sym g y x). auto. Qed.

Lemma gconn_sym (g : graph) x y : gconn g x y -> gconn g y x.
Proof.
  induction 1 as [x y Hs| |x y z _ IH1 _ IH2].
  - apply rt_step. apply adjacent_sym. exact Hs.
  - apply rt_refl.
  - eapply rt_trans; eauto.
Qed.

Lemma gconn_adj (g : graph) x y : LGraph.adj g x y <> None -> gconn g x y.
Proof. intros Hs. apply rt_step. exact Hs. Qed.

Lemma adjacent_nodes (g : graph) x y : gwf g -> adjacent g x y -> In x (node_ids g) /\ In y (node_ids g).
Proof.
  intros [_ Hg] Ha. unfold adjacent in Ha. destruct (LGraph.adj g x y) as [b|] eqn:E; [|congruence].
  apply find_edge_some_in in E. destruct E as [E|E]; apply Hg in E; tauto.
Qed.

Lemma gconn_nodes (g : graph) x y : gwf g -> gconn g x y -> In x (node_ids g) -> In y (node_ids g).
Proof.
  intros Hg Hc. induction Hc as [x y Hs| |x y z _ IH1 _ IH2]; auto.
  intros _. apply (adjacent_nodes g x y Hg Hs).
Qed.

Lemma conn_gconn (g : graph) u x : conn (nbrs g) [u] x <-> gconn g u x.
Proof.
  split.
  - induction 1 as [x [<-|[]]|y z _ IH I].
    + apply rt_refl.
    + eapply rt_trans; [exact IH|]. apply rt_step. apply in_nbrs. exact I.
  - intros Hc. apply clos_rt_rtn1_iff in Hc. induction Hc as [|y z Hs _ IH].
    + apply conn_seed. left. reflexivity.
    + eapply conn_step; [exact IH|]. apply in_nbrs. exact Hs.
Qed.

Lemma comp_of_spec (g : graph) u : gwf g -> In u (node_ids g) ->
  forall x, In x (comp_of g u) <-> gconn g u x.
Proof.
  intros Hg Hu x. unfold comp_of.
  assert (Hin : forall a b, In b (nbrs g a) -> In b (node_ids g)).
  { intros a b I. apply in_nbrs in I. apply (adjacent_nodes g a b Hg I). }
  pose proof (@saturate_fuel (node_ids g) (nbrs g) Hin (S (length (gnodes g))) [u]) as Hf.
  destruct (saturate (nbrs g) (S (length (gnodes g))) [u]) as [R|] eqn:E.
  - rewrite <- conn_gconn. apply (@saturate_spec (nbrs g) [u] (S (length (gnodes g))) [u] R); auto.
    intros y I. apply conn_seed. exact I.
  - exfalso. apply Hf; auto.
    + constructor; [intros []|constructor].
    + intros y [<-|[]]. exact Hu.
    + unfold node_ids. rewrite map_length. simpl. lia.
Qed.

Definition comp_list (g : graph) (u : N) : list N :=
  filter (fun x => LGraph.mem x (comp_of g u)) (node_ids g).

Lemma comp_list_spec (g : graph) u : gwf g -> In u (node_ids g) ->
  forall x, In x (comp_list g u) <-> gconn g u x.
Proof.
  intros Hg Hu x. unfold comp_list. rewrite filter_In, LGraph.mem_spec, comp_of_spec by assumption.
  split; [tauto|]. intros Hc. split; [|exact Hc]. eapply gconn_nodes; eauto.
Qed.

Definition closed (g : graph) (seen : list N) : Prop := forall x y, In x seen -> gconn g x y -> In y seen.

Lemma comps_go_spec (g : graph) : gwf g -> forall todo seen,
  incl todo (node_ids g) -> closed g seen ->
  let cs := comps_go g todo seen in
  (forall c, In c cs -> exists u, In u (node_ids g) /\ c = comp_list g u) /\
  (forall x, In x todo -> In x seen \/ exists c, In c cs /\ In x c) /\
  (forall c x, In c cs -> In x c -> ~ In x seen) /\
  (forall i j ci cj x, nth_error cs i = Some ci -> nth_error cs j = Some cj -> In x ci -> In x cj -> i = j).
Proof.
  intros Hg. induction todo as [|u r IH]; intros seen Hincl Hcl; cbn [comps_go].
  - split; [intros c []|]. split; [intros x []|]. split; [intros c x []|].
    intros [|i] j ci cj x E; discriminate.
  - assert (Hu : In u (node_ids g)) by (apply Hincl; left; reflexivity).
    assert (Hr : incl r (node_ids g)) by (intros y I; apply Hincl; right; exact I).
    destruct (LGraph.mem u seen) eqn:Em.
    + apply LGraph.mem_spec in Em. destruct (IH seen Hr Hcl) as (A & B & C & D).
      split; [exact A|]. split; [|split; [exact C|exact D]].
      intros x [<-|I]; [left; exact Em|apply B; exact I].
    + assert (Hnot : ~ In u seen) by (rewrite <- LGraph.mem_spec; congruence).
      fold (comp_list g u).
      assert (Hcl' : closed g (comp_of g u ++ seen)).
      { intros x y I Hc. apply in_or_app. apply in_app_or in I. destruct I as [I|I].
        - left. apply comp_of_spec; auto. apply comp_of_spec in I; auto. eapply gconn_trans; eauto.
        - right. eapply Hcl; eauto. }
      destruct (IH (comp_of g u ++ seen) Hr Hcl') as (A & B & C & D).
      assert (Hfresh : forall x, In x (comp_list g u) -> ~ In x seen).
      { intros x I Is. apply comp_list_spec in I; auto. apply Hnot. eapply Hcl; [exact Is|]. apply gconn_sym. exact I. }
      split; [|split; [|split]].
      * intros c [<-|I]; [exists u; auto|apply A; exact I].
      * intros x [<-|I].
        -- right. exists (comp_list g u). split; [left; reflexivity|]. apply comp_list_spec; auto. apply gconn_refl.
        -- destruct (B x I) as [Is|(c & Ic & Ix)].
           ++ apply in_app_or in Is. destruct Is as [Is|Is]; [|left; exact Is].
              right. exists (comp_list g u). split; [left; reflexivity|].
              apply comp_list_spec; auto. apply comp_of_spec in Is; auto.
           ++ right. exists c. split; [right; exact Ic|exact Ix].
      * intros c x [<-|I] Ix; [apply Hfresh; exact Ix|].
        intros Is. apply (C c x I Ix). apply in_or_app. right. exact Is.
      * assert (Hsep : forall cj x, In cj (comps_go g r (comp_of g u ++ seen)) -> In x (comp_list g u) -> In x cj -> False).
        { intros cj x Icj I1 I2. apply (C cj x Icj I2). apply in_or_app. left.
          apply comp_of_spec; auto. apply comp_list_spec in I1; auto. }
        intros [|i] [|j] ci cj x Ei Ej Ii Ij; cbn [nth_error] in Ei, Ej.
        -- reflexivity.
        -- exfalso. inversion Ei; subst ci. apply nth_error_In in Ej. eapply Hsep; eauto.
        -- exfalso. inversion Ej; subst cj. apply nth_error_In in Ei. eapply Hsep; eauto.
        -- f_equal. eapply D; eauto.
Qed.

Lemma comps_all (g : graph) : gwf g ->
  (forall c, In c (comps g) -> exists u, In u (node_ids g) /\ c = comp_list g u) /\
  (forall x, In x (node_ids g) -> exists c, In c (comps g) /\ In x c) /\
  (forall i j ci cj x, nth_error (comps g) i = Some ci -> nth_error (comps g) j = Some cj -> In x ci -> In x cj -> i = j).
Proof.
  intros Hg. destruct (comps_go_spec g Hg (node_ids g) [] (incl_refl _)) as (A & B & _ & D).
  { intros x y []. }
  split; [exact A|]. split; [|exact D].
  intros x I. destruct (B x I) as [[]|Hx]. exact Hx.
Qed.

(** every listed component is a non-empty, duplicate-free sublist of the node list and a full connectivity class *)
Theorem comps_class (g : graph) : gwf g -> forall c, In c (comps g) ->
  c <> [] /\ NoDup c /\ incl c (node_ids g) /\ (forall x y, In x c -> (In y c <-> gconn g x y)).
Proof.
  intros Hg c Ic. destruct (comps_all g Hg) as (A & _ & _). destruct (A c Ic) as (u & Hu & ->).
  assert (Iu : In u (comp_list g u)) by (apply comp_list_spec; auto; apply gconn_refl).
  split; [intros E; rewrite E in Iu; destruct Iu|].
  split; [apply NoDup_filter; apply Hg|].
  split; [intros x I; apply filter_In in I; tauto|].
  intros x y Ix. rewrite !comp_list_spec in * by assumption. split.
  - intros Iy. eapply gconn_trans; [apply gconn_sym; exact Ix|exact Iy].
  - intros Hxy. eapply gconn_trans; eauto.
Qed.

Theorem comps_cover (g : graph) : gwf g -> forall x, In x (node_ids g) -> exists c, In c (comps g) /\ In x c.
Proof. intros Hg. apply (comps_all g Hg). Qed.

Theorem comps_disjoint (g : graph) : gwf g -> forall i j ci cj x,
  nth_error (comps g) i = Some ci -> nth_error (comps g) j = Some cj -> In x ci -> In x cj -> i = j.
Proof. intros Hg. apply (comps_all g Hg). Qed.

(** value form of disjointness, and the list of components has no repetition *)
Lemma comps_disjoint_val (g : graph) : gwf g -> forall c c' x, In c (comps g) -> In c' (comps g) -> In x c -> In x c' -> c = c'.
Proof.
  intros Hg c c' x Ic Ic' Ix Ix'. apply In_nth_error in Ic. apply In_nth_error in Ic'.
  destruct Ic as (i & Ei). destruct Ic' as (j & Ej).
  assert (i = j) by (eapply comps_disjoint; eauto). subst j. congruence.
Qed.

Lemma comps_NoDup (g : graph) : gwf g -> NoDup (comps g).
Proof.
  intros Hg. apply NoDup_nth_error. intros i j Hi E.
  destruct (nth_error (comps g) i) as [c|] eqn:Ei; [|apply nth_error_None in Ei; lia].
  destruct (comps_class g Hg c (nth_error_In _ _ Ei)) as (Hne & _).
  destruct c as [|x c]; [congruence|].
  eapply (comps_disjoint g Hg i j); eauto; left; reflexivity.
Qed.
