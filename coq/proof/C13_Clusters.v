(** C13 -- the [clusters] list returned by GraphCluster.iterative_cluster is a partition of the index set:
    no index occurs twice (in one cluster or in two), whatever the isomorphism test answers; with a reflexive
    test every index 0..n-1 occurs.  (Together with proof/C13_More.clusters_sync: cluster c = the indices whose
    rule_to_cluster entry is c.) *)
From Coq Require Import List NArith ZArith Bool Arith Lia Permutation.
From SK Require Import lib.LGraph lib.Mono lib.C13_Partition model.C13_Model proof.C13_Proof proof.C13_More.
Import ListNotations.

Lemma pairs_of_fst s cls : map fst (pairs_of s cls) = concat cls.
Proof.
  revert s. induction cls as [|cl r IH]; intros s; simpl; [reflexivity|].
  rewrite map_app, map_map, IH. simpl. now rewrite map_id.
Qed.

Lemma NoDup_snoc {A} (l : list A) x : NoDup l -> ~ In x l -> NoDup (l ++ [x]).
Proof.
  intros H Hx. induction H as [|y l Hy Hl IH]; simpl; [constructor; [intros []|constructor]|].
  constructor.
  - intros I. apply in_app_or in I. destruct I as [I|[<-|[]]]; [contradiction|]. apply Hx. now left.
  - apply IH. intros I. apply Hx. now right.
Qed.

Section Clusters.
Variable iso : item -> item -> bool.
Variable mode : attr_mode.

(** invariant: the assigned indices are pairwise distinct and all marked visited *)
Definition kinv (visited : list nat) (r2c : list (nat * nat)) : Prop :=
  NoDup (map fst r2c) /\ forall k, In k (map fst r2c) -> memb k visited = true.

Lemma kinv_add visited r2c j c : kinv visited r2c -> memb j visited = false -> kinv (j :: visited) (r2c ++ [(j, c)]).
Proof.
  intros (H1 & H2) Hj. split.
  - rewrite map_app. simpl. apply NoDup_snoc; [exact H1|]. intros I. rewrite (H2 j I) in Hj. discriminate.
  - intros k Hk. rewrite map_app in Hk. apply in_app_or in Hk. destruct Hk as [Hk|[<-|[]]].
    + destruct (Nat.eq_dec k j) as [->|Hne]; [apply memb_cons_eq|rewrite memb_cons_ne by exact Hne; auto].
    + apply memb_cons_eq.
Qed.

Lemma gc_inner_kinv xi c rest : forall cl vis rc cl' vis' rc',
  kinv vis rc -> gc_inner iso mode xi c rest (cl, vis, rc) = (cl', vis', rc') -> kinv vis' rc'.
Proof.
  induction rest as [|[j xj] r IH]; intros cl vis rc cl' vis' rc' K E; simpl in E.
  - inversion E; subst. exact K.
  - destruct (zlist_eqb (gc_key mode xi) (gc_key mode xj) && negb (memb j vis)) eqn:Ec; [destruct (iso xi xj)|].
    + apply andb_prop in Ec. destruct Ec as [_ Ev]. apply negb_true_iff in Ev.
      eapply IH; [|exact E]. now apply kinv_add.
    + eapply IH; eauto.
    + eapply IH; eauto.
Qed.

Lemma gc_outer_kinv todo : forall visited clusters r2c,
  kinv visited r2c -> NoDup (map fst (snd (gc_outer iso mode todo visited clusters r2c))).
Proof.
  induction todo as [|[i xi] rest IH]; intros visited clusters r2c K; simpl; [apply K|].
  destruct (memb i visited) eqn:Ev; [now apply IH|].
  destruct (gc_inner iso mode xi (length clusters) rest ([i], i :: visited, r2c ++ [(i, length clusters)]))
    as [[cluster vis'] rc'] eqn:Ei.
  apply IH. eapply gc_inner_kinv; [|exact Ei]. now apply kinv_add.
Qed.

Theorem clusters_disjoint data : NoDup (concat (fst (gc_iterative iso mode data))).
Proof.
  rewrite <- (pairs_of_fst 0), <- clusters_sync. unfold gc_iterative. apply gc_outer_kinv.
  split; [constructor|intros k []].
Qed.

End Clusters.

Theorem clusters_cover iso mode data : (forall x, In x data -> iso x x = true) ->
  forall i, i < length data ->
  exists c, c < length (fst (gc_iterative iso mode data)) /\ In i (nth c (fst (gc_iterative iso mode data)) []).
Proof.
  intros Hrefl i Hi.
  destruct (nth_error data i) as [x|] eqn:Hx; [|apply nth_error_None in Hx; lia].
  pose proof (gc_iterative_spec iso mode data Hrefl) as Hs.
  assert (Rr : forall y, iso y y = true -> Rc iso mode y y = true).
  { intros y Hy. unfold Rc. now rewrite zlist_eqb_refl. }
  assert (HD : Forall (fun y => iso y y = true) data) by (apply Forall_forall; exact Hrefl).
  destruct (class_of_total _ (Rc iso mode) (fun y => iso y y = true) Rr data x HD (nth_error_In _ _ Hx)) as (c & Ec & Hc).
  pose proof (clusters_sync_in iso mode data i c) as Hsync.
  destruct (gc_iterative iso mode data) as [clusters r2c] eqn:Eg. destruct Hs as (Hlen & Hall). simpl in *.
  exists c. split; [now rewrite Hlen|]. apply Hsync.
  specialize (Hall i x Hx). rewrite Ec in Hall. clear -Hall.
  induction r2c as [|[k v] r IH]; simpl in *; [discriminate|].
  destruct (Nat.eqb_spec i k) as [->|Hne]; [inversion Hall; now left|right; auto].
Qed.

Module Example_clusters.
Import Example_abstract.
Example clusters_partition_nonvacuous :
  fst (gc_iterative iso0 ANone data) = [[0; 2]; [1; 3]] /\
  NoDup (concat (fst (gc_iterative iso0 ANone data))) /\
  exists c, c < length (fst (gc_iterative iso0 ANone data)) /\ In 3 (nth c (fst (gc_iterative iso0 ANone data)) []).
Proof.
  split; [vm_compute; reflexivity|]. split; [apply clusters_disjoint|].
  apply clusters_cover; [intros x _; apply N.eqb_refl|simpl; lia].
Qed.
End Example_clusters.

(* ------------------------------------------------------------------ BatchCluster.batch_dicts *)
Lemma chunks_fuel_lengths {X} fuel b (l : list X) : 1 <= b -> length l <= fuel ->
  Forall (fun c => 1 <= length c <= b) (chunks_fuel fuel b l).
Proof.
  intros Hb. revert l. induction fuel as [|f IH]; intros l Hl.
  - destruct l; [constructor|simpl in Hl; lia].
  - destruct l as [|x r]; [constructor|].
    change (chunks_fuel (S f) b (x :: r)) with (firstn b (x :: r) :: chunks_fuel f b (skipn b (x :: r))).
    constructor.
    + rewrite firstn_length. cbn [length]. lia.
    + apply IH. rewrite skipn_length. cbn [length] in *. lia.
Qed.

Theorem batch_dicts_spec {X} b (l : list X) : 1 <= b ->
  concat (chunks b l) = l /\ Forall (fun c => 1 <= length c <= b) (chunks b l) /\
  (forall c rest, chunks b l = c :: rest -> rest <> [] -> length c = b).
Proof.
  intros Hb. split; [now apply chunks_concat|]. split; [apply chunks_fuel_lengths; [exact Hb|apply le_n]|].
  unfold chunks. intros c rest E Hr. destruct l as [|x r]; [discriminate|].
  change (chunks_fuel (length (x :: r)) b (x :: r)) with
    (firstn b (x :: r) :: chunks_fuel (length r) b (skipn b (x :: r))) in E.
  inversion E as [[Ec Er]]. rewrite firstn_length.
  destruct (le_lt_dec b (length (x :: r))) as [Hle|Hlt]; [lia|].
  exfalso. apply Hr. rewrite <- Er. rewrite skipn_all2 by lia. destruct (length r); reflexivity.
Qed.

Example batch_dicts_nonvacuous : chunks 2 [1; 2; 3; 4; 5] = [[1; 2]; [3; 4]; [5]] /\ chunks 7 [1; 2] = [[1; 2]] /\ chunks 3 (@nil nat) = [].
Proof. repeat split; reflexivity. Qed.
