(** C05 — part 4: rule preparation in the implicit-hydrogen mode (SynRule(..., implicit_h=False): its_decompose and the
    typesGH refresh; _invert_template for the backward direction) commutes with renumbering of the template; composed
    with part 3 into the end-to-end statement about [pipeline]. Stdlib lists. *)
From Coq Require Import List NArith ZArith Bool Arith Lia.
From SK Require Import lib.Tok lib.LGraph lib.Mono.
From SK Require Import model.C03_Model model.C05_Model proof.C05_Proof proof.C05_Glue proof.C05_Pipe.
Import ListNotations.
Local Open Scope Z_scope.

Section WithThr.
Context {TH : Thr}.


Section PrepEquiv.
  Variable sg : N -> N.
  Hypothesis Hs : inj sg.

  Lemma invert_template_relabel (T : its) : invert_template (relabel sg T) = relabel sg (invert_template T).
  Proof.
    unfold invert_template, relabel; simpl. rewrite !map_map. f_equal.
    rewrite flat_map_map', map_flat_map'. apply flat_map_ext. intros [[u v] x]. simpl.
    destruct ((0 <? eH x) || (0 <? eG x))%bool; reflexivity.
  Qed.

  Lemma dec_side_relabel sn se (T : its) : dec_side sn se (relabel sg T) = relabel sg (dec_side sn se T).
  Proof.
    unfold dec_side, relabel; simpl. rewrite !map_map. f_equal.
    rewrite flat_map_map', map_flat_map'. apply flat_map_ext. intros [[u v] x]. simpl.
    destruct (0 <? se x); reflexivity.
  Qed.

  Definition refresh_step (l r : molg) (p : N * inode) (acc : option (list (N * inode))) : option (list (N * inode)) :=
    match acc, label l (fst p), label r (fst p) with
    | Some ns, Some la, Some ra =>
        let a := snd p in
        Some ((fst p, IN (set_hc (iG a) (m_hc la)) (set_hc (iH a) (m_hc ra)) (i_hc a) (i_hp a)) :: ns)
    | _, _, _ => None
    end.

  Lemma refresh_types_unfold rc l r :
    refresh_types rc l r = match fold_right (refresh_step l r) (Some []) (gnodes rc) with
                           | Some ns => Some (LG ns (gedges rc)) | None => None end.
  Proof. reflexivity. Qed.

  Lemma refresh_fold_relabel (l r : molg) ns :
    fold_right (refresh_step (relabel sg l) (relabel sg r)) (Some []) (map (fun p : N * inode => (sg (fst p), snd p)) ns)
    = option_map (map (fun p : N * inode => (sg (fst p), snd p))) (fold_right (refresh_step l r) (Some []) ns).
  Proof.
    induction ns as [|[k a] ns IH]; simpl; [reflexivity|].
    rewrite IH. unfold refresh_step at 1 3. simpl.
    rewrite !(label_relabel _ _ sg Hs).
    destruct (fold_right (refresh_step l r) (Some []) ns); simpl; [|reflexivity].
    destruct (label l k); [|reflexivity]. destruct (label r k); reflexivity.
  Qed.

  Lemma refresh_types_relabel (rc : its) (l r : molg) :
    refresh_types (relabel sg rc) (relabel sg l) (relabel sg r) = option_map (relabel sg) (refresh_types rc l r).
  Proof.
    rewrite !refresh_types_unfold. simpl (gnodes (relabel sg rc)). rewrite refresh_fold_relabel.
    destruct (fold_right (refresh_step l r) (Some []) (gnodes rc)); reflexivity.
  Qed.

  Lemma is_H_m_relabel (g : molg) u : is_H_m (relabel sg g) (sg u) = is_H_m g u.
  Proof. unfold is_H_m. rewrite (label_relabel _ _ sg Hs). reflexivity. Qed.

  Lemma has_XH_relabel (g : molg) : has_XH (relabel sg g) = has_XH g.
  Proof.
    unfold has_XH. simpl (gedges (relabel sg g)). generalize (gedges g) as es.
    induction es as [|[[u v] x] es IH]; simpl; [reflexivity|]. rewrite !is_H_m_relabel, IH. reflexivity.
  Qed.

  Lemma synrule_false_relabel (T : its) :
    synrule (relabel sg T) false
    = option_map (fun t : triple => (relabel sg (fst (fst t)), relabel sg (snd (fst t)), relabel sg (snd t))) (synrule T false).
  Proof.
    unfold synrule, its_decompose. simpl. rewrite !dec_side_relabel, refresh_types_relabel.
    destruct (refresh_types T (dec_side iG eG T) (dec_side iH eH T)); reflexivity.
  Qed.

  Lemma prepare_relabel inv (T : its) p :
    prepare inv true T = Some p -> p_flag p = false -> prepare inv true (relabel sg T) = Some (relabel_prep sg p).
  Proof.
    unfold prepare. change (negb true) with false.
    destruct inv.
    - rewrite invert_template_relabel, synrule_false_relabel.
      destruct (synrule (invert_template T) false) as [[[rc l] r]|]; simpl; [|discriminate].
      intros [= <-]. simpl. intros Hflag. unfold relabel_prep; simpl. rewrite has_XH_relabel. destruct (has_XH l); [discriminate Hflag | reflexivity].
    - rewrite synrule_false_relabel.
      destruct (synrule T false) as [[[rc l] r]|]; simpl; [|discriminate].
      intros [= <-]. simpl. intros Hflag. unfold relabel_prep; simpl. rewrite has_XH_relabel. destruct (has_XH l); [discriminate Hflag | reflexivity].
  Qed.
End PrepEquiv.

(** end to end, implicit-hydrogen mode, exhaustive strategy, no _explicit_h stage, pattern without explicit X-H bonds:
    the result list of the renumbered (substrate, template) is the renumbered result list *)
Lemma pipeline_relabel sg pi (Hs : inj sg) (Hp : inj pi) inv (host : hostg) (T : its) p :
  prepare inv true T = Some p -> p_flag p = false ->
  pipeline inv true false 0%N (relabel pi host) (relabel sg T) = option_map (map (relabel pi)) (pipeline inv true false 0%N host T).
Proof.
  intros Hprep Hflag. unfold pipeline. rewrite (prepare_relabel sg Hs inv T p Hprep Hflag), Hprep.
  apply results_all_relabel; assumption.
Qed.

End WithThr.
