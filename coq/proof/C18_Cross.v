(** C18 — the two exact tools under one node selection: the canonicaliser (node_attr_keys = nk without 'label', default edge keys)
    never reports fewer automorphisms than the VF2 tool's enumerator under the same selection. *)
From Coq Require Import List NArith ZArith Bool Arith Lia Permutation.
From SK Require Import lib.IRSortKeys lib.IRCore lib.IRSearch lib.C18_IRValid model.C18_Model model.C18_AttrModel model.C18_SpAttrModel
  model.C18_AutAttrModel proof.C18_Order proof.C18_Spec proof.C18_Graph proof.C18_Canon proof.C18_Count proof.C18_Vf2 proof.C18_WL
  proof.C18_Attr proof.C18_SpAttr proof.C18_AutAttr proof.C18_AttrEquiv proof.C18_WLBound.
From SK Require lib.IRInst.
Import ListNotations.

Lemma nval_by_key g t v w s : s <> NLabel -> fst (nval g t v s) = fst (nval g t w s) -> nval g t v s = nval g t w s.
Proof.
  destruct s; simpl; intros Hs E; try congruence.
  destruct (Z.eqb (kind_of g v) KSPECIES), (Z.eqb (kind_of g w) KSPECIES); simpl in *; congruence.
Qed.
Lemma is_autA_is_autG g t nk s : Forall (fun x => x <> NLabel) nk ->
  is_autA g t nk [ERole; EStoich] s -> is_autG g (nvA g t nk) (evA [ERole; EStoich]) s.
Proof.
  intros Hnk (H1 & H2 & H3 & H4). repeat split; auto.
  - intros v Hv. specialize (H3 v Hv). unfold nvA. unfold nkey in H3. revert H3. clear - Hnk.
    induction nk as [|x nk IH]; simpl; intros E; auto. inversion Hnk; subst. inversion E. f_equal; auto. apply nval_by_key; auto.
  - intros u v Hu Hv. specialize (H4 u v Hu Hv).
    destruct (find_arc g (s u) (s v)) as [[a1 a2]|], (find_arc g u v) as [[b1 b2]|]; simpl in *; try discriminate; auto.
    inversion H4. reflexivity.
Qed.

Theorem canon_count_ge_vf2 g t nk : wf g -> Forall (fun x => x <> NLabel) nk ->
  length (autsA g t nk) <= length (snd (canon_searchA g t nk [ERole; EStoich])).
Proof.
  intros Hw Hnk.
  destruct (canon_isoA g t nk [ERole; EStoich] Hw) as [Hsome Hiso].
  destruct (fst (canon_searchA g t nk [ERole; EStoich])) as [[lab p]|] eqn:Eb; [|congruence].
  destruct (autsA_spec g t nk Hw) as (Hnd & _ & Hall).
  set (F := fun s : N -> N => rev (combine (aut_order (recode g t nk)) (map s (aut_order (recode g t nk))))).
  assert (Hp : In p (snd (canon_searchA g t nk [ERole; EStoich]))).
  { revert Eb. rewrite canon_searchA_fold. intros Eb.
    rewrite (fold_min_leaves _ lexlebN lexlebN_total lexlebN_trans lexlebN_antisym _ _ _ _ Eb).
    assert (HB : lab = labelA g t nk [ERole; EStoich] p /\ In p (leaves_ofA g t nk [ERole; EStoich])).
    { revert Eb. apply fold_visit_best. simpl. intros; discriminate. }
    destruct HB as [-> Hin]. apply filter_In. split; auto. apply (eqb_eq lexlebN lexlebN_total lexlebN_antisym). reflexivity. }
  apply (inj_rel_length (fun m q => exists s, is_autA g t nk [ERole; EStoich] s /\ m = F s /\ q = map s p)); auto.
  - intros m Hm. destruct (Hall m Hm) as (s & Hs & E). exists (map s p). split; [|exists s; auto].
    apply (attr_count_lower_partial g t nk [ERole; EStoich] s p Hw); auto. apply is_autA_is_autG; auto.
  - intros m m' q _ _ (s & Hs & -> & ->) (s' & Hs' & -> & E).
    assert (Hag : forall v, In v (node_ids g) -> s v = s' v).
    { rewrite canon_searchA_G in Hp. apply (autG_determined g (nvA g t nk) (evA [ERole; EStoich]) (length nk) 2 Hw s s' p Hp E). }
    unfold F. f_equal. f_equal. apply map_ext_in. intros v Hv. apply Hag.
    pose proof (aut_order_perm (recode g t nk) (proj1 (wf_recode g t nk Hw))) as Hord. rewrite node_ids_recode in Hord.
    apply (Permutation_in _ Hord Hv).
Qed.
