(** C20 — the flow defaults (model/C20_Inputs.v): through hypergraph_to_pr_inputs an edge keeps the flow it was GIVEN — also an
    explicit 0 or a negative number — and gets 1 only when the mapping is None or has no entry for it; loaded directly, an edge
    without an entry gets 0; entries for unknown edge ids are ignored. *)
From Coq Require Import ZArith NArith List Bool Arith Lia.
Import ListNotations.
From SK Require Import model.C20_Model model.C20_Inputs.

Lemma assocZ_map_self (f : N -> Z) eids e : In e eids -> assocZ e (map (fun x => (x, f x)) eids) = Some (f e).
Proof.
  induction eids as [|x eids IH]; intros Hin; [destruct Hin|]. simpl.
  destruct (N.eqb x e) eqn:E; [apply N.eqb_eq in E; now subst|].
  destruct Hin as [->|Hin]; [rewrite N.eqb_refl in E; discriminate|auto].
Qed.

Lemma nth_map_lt {A B} (f : A -> B) l : forall k d d', (k < length l)%nat -> nth k (map f l) d = f (nth k l d').
Proof.
  induction l as [|x l IH]; intros k d d' H; simpl in *; [lia|].
  destruct k; auto. apply IH. lia.
Qed.

Lemma nth_seq_map k n d : (k < n)%nat -> nth k (map N.of_nat (seq 0 n)) d = N.of_nat k.
Proof.
  intros H. rewrite (nth_map_lt N.of_nat (seq 0 n) k d 0%nat) by (rewrite seq_length; exact H).
  now rewrite seq_nth.
Qed.

Theorem flow_via_hg_spec nedges given k : (k < nedges)%nat ->
  nth k (flow_via_hg nedges given) 0%Z =
  match given with
  | None => 1%Z
  | Some g => match assocZ (N.of_nat k) g with Some f => f | None => 1%Z end
  end.
Proof.
  intros Hk. unfold flow_via_hg, load_flow.
  set (eids := map N.of_nat (seq 0 nedges)).
  assert (Hlen : length eids = nedges) by (unfold eids; now rewrite map_length, seq_length).
  rewrite (nth_map_lt _ eids k 0%Z 0%N) by (rewrite Hlen; exact Hk).
  unfold eids at 1. rewrite nth_seq_map by exact Hk.
  unfold pr_inputs_flow. rewrite assocZ_map_self.
  - reflexivity.
  - unfold eids. apply in_map, in_seq. lia.
Qed.

Theorem flow_direct_spec nedges flow k : (k < nedges)%nat ->
  nth k (flow_direct nedges flow) 0%Z = match assocZ (N.of_nat k) flow with Some f => f | None => 0%Z end.
Proof.
  intros Hk. unfold flow_direct, load_flow.
  rewrite (nth_map_lt _ (map N.of_nat (seq 0 nedges)) k 0%Z 0%N) by (rewrite map_length, seq_length; exact Hk).
  now rewrite nth_seq_map.
Qed.

Lemma flow_lengths nedges given flow :
  length (flow_via_hg nedges given) = nedges /\ length (flow_direct nedges flow) = nedges.
Proof. unfold flow_via_hg, flow_direct, load_flow. now rewrite !map_length, !seq_length. Qed.

(** non-vacuity: three edges; through the converter an explicit 0 stays 0, a missing entry becomes 1, an entry for an unknown edge is
    ignored; loaded directly the missing entry becomes 0 *)
Example flow_defaults_example :
  flow_via_hg 3 (Some [(0%N, 0%Z); (2%N, 5%Z); (7%N, 9%Z)]) = [0%Z; 1%Z; 5%Z] /\
  flow_via_hg 3 None = [1%Z; 1%Z; 1%Z] /\
  flow_direct 3 [(0%N, 0%Z); (2%N, 5%Z); (7%N, 9%Z)] = [0%Z; 0%Z; 5%Z].
Proof. vm_compute. repeat split; reflexivity. Qed.
