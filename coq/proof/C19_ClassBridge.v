(** C19 — index facts for "every linkage-class deficiency is >= 0" (rank of a class's difference vectors <= class size - 1):
    the class's difference vectors are indexed by the arcs inside the class; the vertices outside the class are turned into
    singleton classes so that proof/C19_RankMC.rank_complex_bound applies with (k - n_c) + 1 classes.  Style: stdlib lists. *)
From Coq Require Import List NArith ZArith Bool Arith Lia Permutation.
From SK Require Import lib.Reach lib.C17_Farkas model.C17_Model model.C19_Model proof.C17_Proof.
From SK Require Import proof.C19_Complexes proof.C19_Linkage proof.C19_Bridge.
Import ListNotations.
Local Open Scope nat_scope.

Definition diff_of (cs : list (list Z)) (a : nat * nat) : list Z := vsub (nth (snd a) cs []) (nth (fst a) cs []).
(** the arcs inside the class whose difference vector is not zero, in arc order *)
Definition carcs (cs : list (list Z)) (arcs : list (nat * nat)) (c : list N) : list (nat * nat) :=
  filter (fun a => mem (nn (fst a)) c && mem (nn (snd a)) c && negb (is_zero_vec (diff_of cs a))) arcs.

Lemma class_diffs_map cs arcs c : class_diffs cs arcs c = map (diff_of cs) (carcs cs arcs c).
Proof.
  unfold class_diffs, carcs. induction arcs as [|a arcs IH]; simpl; auto. fold (diff_of cs a).
  destruct (mem (nn (fst a)) c && mem (nn (snd a)) c); simpl; auto.
  destruct (is_zero_vec (diff_of cs a)); simpl; rewrite IH; reflexivity.
Qed.

Lemma carcs_in cs arcs c a : In a (carcs cs arcs c) -> In a arcs /\ In (nn (fst a)) c /\ In (nn (snd a)) c.
Proof.
  unfold carcs. rewrite filter_In. intros (I & H). apply andb_prop in H. destruct H as [H _].
  apply andb_prop in H. destruct H as [H1 H2]. apply mem_spec in H1, H2. auto.
Qed.

(** vertices outside the class *)
Definition outside (k : nat) (c : list N) : list nat := filter (fun i => negb (mem (nn i) c)) (seq 0 k).

Lemma filter_split_length {A} (p : A -> bool) l : length (filter p l) + length (filter (fun x => negb (p x)) l) = length l.
Proof. induction l as [|a l IH]; simpl; auto. destruct (p a); simpl; lia. Qed.

Lemma outside_length k c : NoDup c -> (forall y, In y c -> exists i, i < k /\ y = nn i) ->
  length (outside k c) + length c = k.
Proof.
  intros ND Hc. unfold outside.
  pose proof (filter_split_length (fun i => mem (nn i) c) (seq 0 k)) as E. rewrite seq_length in E.
  assert (P : length (filter (fun i => mem (nn i) c) (seq 0 k)) = length c).
  { rewrite <- (map_length nn). apply Permutation_length. apply NoDup_Permutation; auto.
    - apply FinFun.Injective_map_NoDup; [intros a b; apply nn_inj | apply NoDup_filter, seq_NoDup].
    - intros y. rewrite in_map_iff. split.
      + intros (i & <- & I). apply filter_In in I. destruct I as [_ I]. apply mem_spec. exact I.
      + intros I. destruct (Hc y I) as (i & Hi & ->). exists i. split; auto. apply filter_In. split; [apply in_seq; lia|].
        apply mem_spec. exact I. }
  lia.
Qed.

Lemma outside_spec k c i : In i (outside k c) <-> i < k /\ ~ In (nn i) c.
Proof.
  unfold outside. rewrite filter_In, in_seq, negb_true_iff. split.
  - intros (H & M). split; [lia|]. intros I. apply mem_spec in I. congruence.
  - intros (H & N). split; [lia|]. destruct (mem (nn i) c) eqn:M; auto. apply mem_spec in M. contradiction.
Qed.
Lemma outside_nodup k c : NoDup (outside k c).
Proof. apply NoDup_filter, seq_NoDup. Qed.

(** class 0 = the class itself, class j+1 = the singleton of the j-th outside vertex *)
Definition cls2 (k : nat) (c : list N) (a i : nat) : bool :=
  match a with 0 => mem (nn i) c | S j => Nat.eqb i (nth j (outside k c) k) end.
Definition rep2 (k : nat) (c : list N) (a : nat) : nat :=
  match a with 0 => N.to_nat (hd 0%N c) | S j => nth j (outside k c) 0 end.

Section OneClass.
Variable k : nat.
Variable c : list N.
Hypothesis ND : NoDup c.
Hypothesis NE : c <> [].
Hypothesis MEM : forall y, In y c -> exists i, i < k /\ y = nn i.

Lemma rep2_0 : rep2 k c 0 < k /\ In (nn (rep2 k c 0)) c.
Proof.
  unfold rep2. destruct c as [|h t]; [congruence|]. simpl.
  destruct (MEM h (or_introl eq_refl)) as (i & Hi & ->). unfold nn. rewrite Nat2N.id. split; [exact Hi | left; reflexivity].
Qed.

Lemma rep2_lt a : a < S (length (outside k c)) -> rep2 k c a < k.
Proof.
  destruct a as [|j]; intros H; [apply rep2_0|]. simpl.
  assert (I : In (nth j (outside k c) 0) (outside k c)) by (apply nth_In; lia). apply outside_spec in I. tauto.
Qed.

Lemma cls2_rep a b : a < S (length (outside k c)) -> b < S (length (outside k c)) -> cls2 k c a (rep2 k c b) = (a =? b).
Proof.
  intros Ha Hb. destruct a as [|i], b as [|j]; simpl.
  - apply mem_spec. apply rep2_0.
  - assert (I : In (nth j (outside k c) 0) (outside k c)) by (apply nth_In; lia). apply outside_spec in I.
    destruct (mem (nn (nth j (outside k c) 0)) c) eqn:M; auto. apply mem_spec in M. tauto.
  - destruct rep2_0 as (_ & I0). fold (rep2 k c 0).
    assert (I : In (nth i (outside k c) k) (outside k c)) by (apply nth_In; lia). apply outside_spec in I.
    apply Nat.eqb_neq. intros E. rewrite E in I0. tauto.
  - assert (Li : i < length (outside k c)) by lia. assert (Lj : j < length (outside k c)) by lia.
    rewrite (nth_indep _ k 0 Li).
    destruct (Nat.eqb_spec i j) as [->|NE']; [apply Nat.eqb_refl|]. apply Nat.eqb_neq. intros E. apply NE'.
    symmetry. apply (proj1 (NoDup_nth (outside k c) 0) (outside_nodup k c)); auto.
Qed.

Lemma cls2_inside a u v : In (nn u) c -> In (nn v) c -> cls2 k c a u = cls2 k c a v.
Proof.
  intros Iu Iv. destruct a as [|j]; simpl.
  - apply mem_spec in Iu, Iv. congruence.
  - assert (F : forall w, In (nn w) c -> (w =? nth j (outside k c) k) = false).
    { intros w Iw. apply Nat.eqb_neq. intros E.
      destruct (Nat.lt_ge_cases j (length (outside k c))) as [Lt|Ge].
      - assert (I : In (nth j (outside k c) k) (outside k c)) by (apply nth_In; exact Lt). apply outside_spec in I.
        rewrite <- E in I. tauto.
      - rewrite nth_overflow in E by exact Ge. destruct (MEM _ Iw) as (i & Hi & Ei). apply nn_inj in Ei. lia. }
    rewrite (F u Iu), (F v Iv). reflexivity.
Qed.
End OneClass.

(** everything for the class number ci of a network *)
Section NetClass.
Variables (net : list rxn) (iso : list str) (ci : nat).
Let cs := fst (complex_graph net iso).
Let arcs := snd (complex_graph net iso).
Let k := length cs.
Let L := linkage_classes arcs k.
Let c := nth ci L [].
Hypothesis Hci : ci < length L.

Lemma class_facts : NoDup c /\ c <> [] /\ (forall y, In y c -> exists i, i < k /\ y = nn i).
Proof.
  pose proof (complex_graph_arcs_ok net iso) as OK. fold cs arcs k in OK.
  assert (Ic : In c L) by (apply nth_In; exact Hci).
  destruct (linkage_spec arcs k OK) as (_ & _ & Q3 & _). destruct (Q3 c Ic) as (N1 & N2).
  split; auto. split; auto. apply (class_members arcs k OK c Ic).
Qed.

Lemma cdiffs_map : cdiffs net iso ci = map (diff_of cs) (carcs cs arcs c).
Proof. unfold cdiffs. apply class_diffs_map. Qed.

Definition carc (t : nat) : nat * nat := nth t (carcs cs arcs c) (0, 0).

Lemma carc_spec t : t < length (cdiffs net iso ci) ->
  fst (carc t) < k /\ snd (carc t) < k /\ In (nn (fst (carc t))) c /\ In (nn (snd (carc t))) c /\
  nth t (cdiffs net iso ci) [] = diff_of cs (carc t).
Proof.
  rewrite cdiffs_map, map_length. intros Ht.
  assert (I : In (carc t) (carcs cs arcs c)) by (apply nth_In; exact Ht).
  destruct (carcs_in _ _ _ _ I) as (Ia & Iu & Iv).
  pose proof (complex_graph_arcs_ok net iso _ Ia) as (Hu & Hv). fold cs k in Hu, Hv.
  split; auto. split; auto. split; auto. split; auto.
  rewrite (nth_indep _ [] (diff_of cs (0, 0))) by (rewrite map_length; exact Ht). unfold carc. rewrite map_nth. reflexivity.
Qed.

Lemma cdiffs_entry t i : t < length (cdiffs net iso ci) -> i < length (species_order net iso) ->
  nth i (nth t (cdiffs net iso ci) []) 0%Z = (nth i (nth (snd (carc t)) cs []) 0 - nth i (nth (fst (carc t)) cs []) 0)%Z.
Proof.
  intros Ht Hi. destruct (carc_spec t Ht) as (Hu & Hv & _ & _ & E). rewrite E. unfold diff_of.
  apply vsub_nth. rewrite !(complexes_length net iso) by (apply nth_In; assumption). reflexivity.
Qed.
End NetClass.
