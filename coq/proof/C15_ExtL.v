(** C15 (round 3) — paths: the max_paths cut, and the order among answers of
    equal length (lexicographic by species label, as a consequence of extending
    the queue entries in order by sorted neighbours). *)
From stdpp Require Import gmap strings sets pretty sorting.
From SK Require Import lib.Tok model.C15_Model model.C15_Ext proof.C15_Proof proof.C15_Ext proof.C15_ExtQ.
Local Open Scope string_scope.

(** max_paths only cuts the answer list: the first max(1, max_paths) answers
    (the loop appends before it tests the bound, so a bound <= 0 still yields one) *)
Lemma paths_max_paths s a b h m ps :
  paths s a b h None = inr ps → paths s a b h (Some m) = inr (take (Z.to_nat (Z.max 1 m)) ps).
Proof.
  unfold paths. destruct (decide _); [|done]. destruct (bfs _ _ _ _); [|done]. by intros [= <-].
Qed.

(** order on queue entries (reversed paths of equal length): compare the
    parents first, then the last species — i.e. the forward paths lexicographically *)
Definition slt (a b : string) : Prop := sle15 a b ∧ a ≠ b.
Fixpoint rlex (rp rq : list string) : Prop :=
  match rp, rq with
  | n :: p, m :: q => rlex p q ∨ (p = q ∧ slt n m)
  | _, _ => False
  end.

Lemma ssort_strict l : NoDup l → StronglySorted slt (ssort l).
Proof.
  intros Hnd. pose proof (ssort_sorted l) as Hs. pose proof (ssort_NoDup l Hnd) as Hn.
  induction Hs as [|x xs Hs IH Hall]; [constructor|]. apply NoDup_cons in Hn as [Hx Hn].
  constructor; [by apply IH|]. rewrite Forall_forall in *. intros y Hy. split; [by apply Hall|]. intros ->. done.
Qed.

Lemma StronglySorted_filter {A} (R : relation A) (P : A → Prop) `{∀ x, Decision (P x)} l :
  StronglySorted R l → StronglySorted R (filter P l).
Proof.
  induction 1 as [|x l Hs IH Hall]; [constructor|]. rewrite filter_cons. destruct (decide (P x)); [|done].
  constructor; [done|]. rewrite Forall_forall in *. intros y [_ Hy]%elem_of_list_filter. by apply Hall.
Qed.

Lemma extend_sorted s rp nxt :
  Inv s → extend s rp = Some nxt →
  StronglySorted rlex nxt ∧ Forall (λ c, ∃ n, c = n :: rp) nxt.
Proof.
  intros HI. unfold extend. destruct rp as [|last rp]; [intros [= <-]; split; constructor|].
  destruct (neighbors s last) as [er|N]; [done|]. intros [= <-]. split.
  - assert (Hs : StronglySorted slt (filter (λ n, n ∉ last :: rp) (ssort (elements N))))
      by (apply StronglySorted_filter, ssort_strict, NoDup_elements).
    induction Hs as [|x xs Hs IH Hall]; [constructor|]. cbn. constructor; [done|].
    apply Forall_fmap. eapply Forall_impl; [exact Hall|]. intros y Hy. cbn. right. done.
  - apply Forall_fmap, Forall_forall. intros n _. cbn. eauto.
Qed.

Lemma StronglySorted_app_2 {A} (R : relation A) l1 l2 :
  StronglySorted R l1 → StronglySorted R l2 → Forall (λ x, Forall (R x) l2) l1 → StronglySorted R (l1 ++ l2).
Proof.
  induction 1 as [|x l1 Hs IH Hall]; intros H2 Hc; [done|]. cbn.
  apply Forall_cons in Hc as [Hx Hc]. constructor; [by apply IH|]. by apply Forall_app.
Qed.

(** children of an ordered level are ordered *)
Lemma children_sorted s level nxt :
  Inv s → StronglySorted rlex level → mapM (extend s) level = Some nxt →
  StronglySorted rlex (concat nxt).
Proof.
  intros HI Hs Hm. apply mapM_Some in Hm. induction Hm as [|rp c level cs Hc Hcs IH]; [cbn; constructor|].
  apply StronglySorted_inv in Hs as [Hs Hall]. cbn.
  destruct (extend_sorted s rp c HI Hc) as [Hcs1 Hform]. specialize (IH Hs).
  (* append: everything in [c] is below everything in [concat cs] *)
  assert (Hcross : Forall (λ x, Forall (rlex x) (concat cs)) c).
  { rewrite Forall_forall. intros x Hx. rewrite Forall_forall in Hform. destruct (Hform x Hx) as [n ->].
    apply Forall_concat. rewrite Forall_forall. intros l Hl.
    apply elem_of_list_lookup in Hl as [i Hi].
    destruct (Forall2_lookup_r _ _ _ _ _ Hcs Hi) as (rq & Hrq & Hext).
    destruct (extend_sorted s rq l HI Hext) as [_ Hform2].
    eapply Forall_impl; [exact Hform2|]. intros y [m ->]. cbn. left.
    rewrite Forall_forall in Hall. apply Hall. by eapply elem_of_list_lookup_2. }
  by apply StronglySorted_app_2.
Qed.

Definition porder (rp rq : list string) : Prop :=
  (length rp < length rq)%nat ∨ (length rp = length rq ∧ rlex rp rq).

Lemma StronglySorted_weaken {A} (R R' : relation A) (P : A → Prop) l :
  StronglySorted R l → Forall P l → (∀ x y, P x → P y → R x y → R' x y) → StronglySorted R' l.
Proof.
  induction 1 as [|x l Hs IH Hall]; intros HP HR; [constructor|].
  apply Forall_cons in HP as [Hx HP]. constructor; [by apply IH|].
  rewrite Forall_forall in *. intros y Hy. apply HR; [done|by apply HP|by apply Hall].
Qed.

Lemma bfs_ordered s src tgt : ∀ k level d out,
  Inv s → Forall (λ rp, rpath s src rp ∧ length rp = d) level → StronglySorted rlex level →
  bfs k s tgt level = Some out → StronglySorted porder out.
Proof.
  induction k as [|k IH]; intros level d out HI Hl Hsl; cbn [bfs]; [intros [= <-]; constructor|].
  destruct (mapM _ _) as [nxt|] eqn:Hm; [|done].
  destruct (bfs k s tgt (concat nxt)) as [rest|] eqn:Hb; [|done]. intros [= <-].
  assert (Hnext : Forall (λ rp, rpath s src rp ∧ length rp = S d) (concat nxt)).
  { apply Forall_concat. pose proof Hm as Hm'. apply mapM_Some in Hm'. rewrite Forall_forall. intros l Hin.
    apply elem_of_list_lookup in Hin as [i Hi].
    destruct (Forall2_lookup_r _ _ _ _ _ Hm' Hi) as (rp & Hrp & Hext).
    apply elem_of_list_lookup_2, elem_of_list_filter in Hrp as [_ Hrp].
    rewrite Forall_forall in Hl. destruct (Hl rp Hrp) as [Hr <-].
    apply (extend_sound s src rp l HI Hr Hext). }
  assert (Hsn : StronglySorted rlex (concat nxt)).
  { eapply children_sorted; [done| |exact Hm]. by apply StronglySorted_filter. }
  pose proof (bfs_sound s src tgt k _ (S d) rest HI Hnext Hb) as Hrest.
  pose proof (IH _ (S d) rest HI Hnext Hsn Hb) as Hsorted.
  assert (Hlen : Forall (λ rp, length rp = d) (filter (λ rp, head rp = Some tgt) level)).
  { apply Forall_forall. intros rp [_ Hin]%elem_of_list_filter. rewrite Forall_forall in Hl. by destruct (Hl rp Hin). }
  apply StronglySorted_app_2; [|done|].
  - eapply (StronglySorted_weaken rlex porder (λ rp, length rp = d)); [by apply StronglySorted_filter|done|].
    intros x y Hx Hy Hxy. right. split; [congruence|done].
  - eapply Forall_impl; [exact Hlen|]. intros x Hx. cbn in Hx.
    eapply Forall_impl; [exact Hrest|]. intros y Hy. cbn in Hy. destruct Hy as (_ & _ & Hy). left. lia.
Qed.

(** the answers of paths, read forwards, in their order: shorter first, equal
    length by [rlex] of the reversed paths *)
Lemma paths_ordered s a b h ps :
  Inv s → paths s a b h None = inr ps →
  StronglySorted (λ p q, porder (reverse p) (reverse q)) ps.
Proof.
  intros HI. unfold paths. destruct (decide _) as [[Ha Hb]|]; [|done].
  destruct (bfs _ s b [[a]]) as [out|] eqn:Hbfs; [|done]. intros [= <-].
  eapply (bfs_ordered s a b _ _ 1) in Hbfs; [|done|by repeat constructor|by repeat constructor].
  induction Hbfs as [|rp l Hs IH Hall]; [constructor|]. cbn. constructor; [done|].
  apply Forall_fmap. eapply Forall_impl; [exact Hall|]. intros q Hq. cbn. by rewrite !reverse_involutive.
Qed.

(** what [rlex] on reversed paths means for the paths themselves: a common
    prefix, then a strictly smaller species label *)
Lemma rlex_decomp : ∀ rp rq, rlex rp rq →
  ∃ suf n m t1 t2, rp = (t1 ++ n :: suf)%list ∧ rq = (t2 ++ m :: suf)%list ∧ slt n m ∧ length t1 = length t2.
Proof.
  induction rp as [|n p IH]; intros [|m q]; cbn; try done. intros [H|[-> H]].
  - destruct (IH q H) as (suf & n' & m' & t1 & t2 & -> & -> & Hs & Hl).
    exists suf, n', m', (n :: t1), (m :: t2). split_and!; [done..|]. cbn. by rewrite Hl.
  - exists q, n, m, [], []. done.
Qed.

Lemma rlex_forward p q :
  rlex (reverse p) (reverse q) →
  ∃ pre x y p' q', p = (pre ++ x :: p')%list ∧ q = (pre ++ y :: q')%list ∧ String.leb x y = true ∧ x ≠ y ∧ length p' = length q'.
Proof.
  intros (suf & n & m & t1 & t2 & H1 & H2 & [Hle Hne] & Hl)%rlex_decomp.
  exists (reverse suf), n, m, (reverse t1), (reverse t2).
  apply (f_equal reverse) in H1, H2. rewrite reverse_involutive in H1, H2.
  rewrite reverse_app, reverse_cons, <- (assoc_L (++)) in H1, H2. cbn in H1, H2.
  split_and!; [done..|]. by rewrite !reverse_length.
Qed.

(** the order of the answers, stated on the paths as returned: shorter first;
    equal length: lexicographic by species label (first difference decides) *)
Lemma paths_order_forward s a b h ps :
  Inv s → paths s a b h None = inr ps →
  StronglySorted (λ p q, (length p < length q)%nat ∨
                         (length p = length q ∧
                          ∃ pre x y p' q', p = (pre ++ x :: p')%list ∧ q = (pre ++ y :: q')%list ∧
                                           String.leb x y = true ∧ x ≠ y)) ps.
Proof.
  intros HI Hp. pose proof (paths_ordered s a b h ps HI Hp) as Hs.
  eapply (StronglySorted_weaken _ _ (λ _, True)); [exact Hs|by apply Forall_forall|].
  intros p q _ _ [Hlt|[Hl Hr]]; rewrite !reverse_length in *; [by left|right]. split; [done|].
  destruct (rlex_forward p q Hr) as (pre & x & y & p' & q' & ? & ? & ? & ? & _). eauto 10.
Qed.

(** non-vacuity: three answers in the proved order *)
Definition exl_net : net :=
  getn (nets (fold_left (λ w o, (step2 w o).1.1)
    [ OAddItems 0 [ILabel "A"] [ILabel "C"; ILabel "B"; ILabel "D"] "" None;
      OAddItems 0 [ILabel "B"] [ILabel "D"; ILabel "E"] "" None;
      OAddItems 0 [ILabel "C"] [ILabel "D"] "" None;
      OAddItems 0 [ILabel "E"] [ILabel "D"] "" None ] (init_world2 1 0))) 0.
Local Instance qerr_eq_dec_l : EqDecision qerr.
Proof. solve_decision. Defined.
Example C15_ext_paths_order_nonvacuous :
  paths exl_net "A" "D" 4 None = inr [["A"; "D"]; ["A"; "B"; "D"]; ["A"; "C"; "D"]; ["A"; "B"; "E"; "D"]] ∧
  paths exl_net "A" "D" 4 (Some 2%Z) = inr [["A"; "D"]; ["A"; "B"; "D"]] ∧
  paths exl_net "A" "D" 4 (Some (-1)%Z) = inr [["A"; "D"]].
Proof. split_and!; apply (bool_decide_unpack _); vm_compute; exact Logic.I. Qed.
