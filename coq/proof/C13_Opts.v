(** C13 -- proofs about model/C13_Opts.v: the fallback of lib_check is per argument; iterative_cluster has none. *)
From Coq Require Import List NArith ZArith Bool Arith Lia.
From SK Require Import lib.Tok lib.LGraph lib.Mono model.C13_Model model.C13_Trace model.C13_Opts.
Import ListNotations.
Local Open Scope nat_scope.

(** lib_check: each matcher argument falls back to the object's own matcher ON ITS OWN -- the node labels come from the
    caller's matcher iff nodeMatch was given, the bond attribute from the caller's matcher iff edgeMatch was given *)
Theorem lib_check_fallback_per_argument (c cm : ccfg) (ns es : msrc) :
  let ce := mix_cfg c cm (fallback ns) (fallback es) in
  (cc_names ce = match ns with MExplicit => cc_names cm | _ => cc_names c end) /\
  (cc_defs ce = match ns with MExplicit => cc_defs cm | _ => cc_defs c end) /\
  (cc_edge ce = match es with MExplicit => cc_edge cm | _ => cc_edge c end).
Proof. destruct ns, es; repeat split. Qed.

(** ... in particular: only nodeMatch given -> the object's edge attribute is still compared; only edgeMatch given -> the object's
    node labels are still compared; nothing given = the object's configuration; both given = the caller's *)
Corollary lib_check_single_argument (c cm : ccfg) :
  mix_cfg c cm (fallback MExplicit) (fallback MNone) = {| cc_names := cc_names cm; cc_defs := cc_defs cm; cc_edge := cc_edge c |} /\
  mix_cfg c cm (fallback MNone) (fallback MExplicit) = {| cc_names := cc_names c; cc_defs := cc_defs c; cc_edge := cc_edge cm |} /\
  mix_cfg c cm (fallback MNone) (fallback MNone) = {| cc_names := cc_names c; cc_defs := cc_defs c; cc_edge := cc_edge c |} /\
  mix_cfg c cm (fallback MExplicit) (fallback MExplicit) = {| cc_names := cc_names cm; cc_defs := cc_defs cm; cc_edge := cc_edge cm |}.
Proof. repeat split. Qed.

(** the isomorphism test a lib_check call uses always compares node labels AND bond attribute (both flags true) *)
Theorem lib_check_always_labelled c cm mode rpool ts i ns es :
  stepR c cm mode rpool ts (RLibCheck i ns es) =
  let ce := mix_cfg c cm (fallback ns) (fallback es) in
  stepx (cc_defs ce) mode (map (mk_item ce) rpool) (map (reproj ce rpool) ts) (OBase (OLibCheck i)).
Proof. reflexivity. Qed.

(** iterative_cluster: no fallback -- a side whose matcher is None is not compared at all *)
Theorem gc_iter_no_fallback (c cm : ccfg) :
  (forall defs x y, item_iso2 true true defs x y = item_iso true defs x y) /\
  (forall defs x y, item_iso2 false false defs x y = item_iso false defs x y) /\
  given MNone = false /\ given MObj = true /\ given MExplicit = true /\
  cc_names (mix_cfg c cm MNone MObj) = [] /\ cc_edge (mix_cfg c cm MExplicit MNone) = 0%N.
Proof. repeat split. Qed.

Module Example_opts.
(** keys: 0 element, 1 charge; edge key 0 order; C-C single against C-C double (same atoms): a bond-order near-miss *)
Definition c0 : ccfg := {| cc_names := [0; 1]%N; cc_defs := [0; 9]%N; cc_edge := 0%N |}.
Definition rA : ritem := MkRItem 0 [] (LG [(1, [(0, 1)]); (2, [(0, 1)])]%N [(1%N, 2%N, [(0%N, [2%Z])])]).
Definition rB : ritem := MkRItem 1 [] (LG [(1, [(0, 1)]); (2, [(0, 1)])]%N [(1%N, 2%N, [(0%N, [4%Z])])]).
(** lib_check with ONLY the node matcher given: the object's bond attribute is still compared, the near-miss opens class 1 *)
Example node_matcher_alone_keeps_the_edge_matcher :
  runR c0 c0 ANone [rA; rB] [RBase (OBase (OTemplates [(0, 0%Z)])); RLibCheck 1 MExplicit MNone] =
  L [L [L []; L [L [I 0; I 0]]; L []];
     L [L [I 1]; L [L [I 0; I 0]; L [I 1; I 1]]; L [L [I 0; I 1; I 0]]]].
Proof. vm_compute. reflexivity. Qed.
(** iterative_cluster with only the node matcher: bonds are not compared, the two are one cluster *)
Example gc_iter_node_matcher_alone : fst (stepR c0 c0 ANone [rA; rB] [] (RGcIter [0; 1] MObj MNone)) =
  L [L [L [I SETMARK; I 0; I 1]]; L [I SETMARK; L [I 0; I 0]; L [I 1; I 0]]; L []; L [L [I 0; I 1; I 1]]].
Proof. vm_compute. reflexivity. Qed.
End Example_opts.
