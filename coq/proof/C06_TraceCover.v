(** C06 — the calls of the trace are exactly of the two kinds the premise [oracle_ok] speaks about:
    whole host x whole pattern, or pattern component x host component that is large enough. *)
From Coq Require Import List NArith Bool Arith Lia.
From SK Require Import lib.LGraph lib.Mono lib.Reach model.C06_Model model.C06_Attrs model.C06_Trace lib.C06_Spec
  proof.C06_Attrs proof.C06_Trace.
Import ListNotations.

Section Cover.
Variable enum : list N -> list N -> list mapping.

Definition call_kind (H P : graph) (c : call) : Prop :=
  let '(hn, pn, _) := c in
  (hn = node_ids H /\ pn = node_ids P) \/
  (In hn (comps H) /\ In pn (comps P) /\ length pn <= length hn).

Lemma cc_outer_calls_kind cap thr H P pc : In pc (comps P) -> forall cands n c,
  (forall ih, In ih cands -> In (snd ih) (comps H) /\ length pc <= length (snd ih)) ->
  In c (cc_outer_calls enum cap thr pc cands n) -> call_kind H P c.
Proof.
  intros Hpc. induction cands as [|[i hc] r IH]; intros n c Hc; cbn [cc_outer_calls]; [intros []|].
  intros [<-|Hin].
  - right. destruct (Hc (i, hc) (or_introl eq_refl)) as [A B]. auto.
  - destruct (capped cap (loop_n cap thr (enum hc pc) n) || (thr <? loop_n cap thr (enum hc pc) n)%N); [destruct Hin|].
    apply (IH (loop_n cap thr (enum hc pc) n) c); [|exact Hin]. intros ih Hi. apply Hc. right. exact Hi.
Qed.

Lemma per_cc_calls_kind cap thr H P hcs : (forall ih, In ih hcs -> In (snd ih) (comps H)) ->
  forall pcs c, (forall pc, In pc pcs -> In pc (comps P)) ->
  In c (per_cc_calls enum cap thr hcs pcs) -> call_kind H P c.
Proof.
  intros Hh. induction pcs as [|pc r IH]; intros c Hp; cbn [per_cc_calls]; [intros []|].
  remember (filter (fun ih => length pc <=? length (snd ih)) hcs) as cand eqn:Ecand.
  destruct cand as [|x cand']; [intros []|].
  rewrite in_app_iff. intros [Hin|Hin].
  - apply (cc_outer_calls_kind cap thr H P pc (Hp pc (or_introl eq_refl)) (x :: cand') 0%N c); [|exact Hin].
    intros ih Hi. rewrite Ecand in Hi. apply filter_In in Hi. destruct Hi as [Hi Hl].
    split; [apply Hh; exact Hi|apply Nat.leb_le; exact Hl].
  - destruct (cc_outer enum cap thr pc (x :: cand') [] 0%N) as [[|y l]|]; try destruct Hin.
    apply IH; [|exact Hin]. intros pc' Hi. apply Hp. right. exact Hi.
Qed.

Theorem trace_kind cfg H P c : In c (trace enum cfg H P) -> call_kind H P c.
Proof.
  assert (Hall : forall maxr thr, In c (trace_all enum maxr thr H P) -> call_kind H P c).
  { intros maxr thr [<-|[]]. left. split; reflexivity. }
  assert (Hcomp : forall maxr thr strict, In c (trace_comp enum maxr thr strict H P) -> call_kind H P c).
  { intros maxr thr strict. unfold trace_comp.
    destruct (length (comps P) =? 0); [intros []|].
    destruct (length (comps H) <? length (comps P)); [apply Hall|].
    destruct ((length (comps P) <? length (comps H)) && strict); [intros []|].
    apply per_cc_calls_kind.
    - intros ih Hin. exact (index_from_snd _ _ _ Hin).
    - intros pc Hin. exact Hin. }
  unfold trace. destruct (c_pref cfg && quick_pre_filter H P (c_thr cfg)); [intros []|].
  destruct (c_strat cfg) as [|[?|?|]]; try apply Hall; try apply Hcomp;
    unfold trace_bt; rewrite in_app_iff; (intros [Hin|Hin]; [exact (Hcomp _ _ _ Hin)|]);
    (destruct (find_comp enum (c_maxr cfg) (c_thr cfg) (c_strict cfg) H P); [exact (Hall _ _ Hin)|destruct Hin]).
Qed.

(** hence, under [oracle_ok], every enumeration the search pulls from satisfies the VF2 contract *)
Corollary trace_calls_under_contract cfg H P hn pn k :
  oracle_ok enum H P -> In (hn, pn, k) (trace enum cfg H P) -> vf2_contract enum H P hn pn.
Proof.
  intros [Owhole Ocomp] Hin. destruct (trace_kind cfg H P _ Hin) as [[-> ->]|(A & B & C)].
  - exact Owhole.
  - exact (Ocomp hn pn A B C).
Qed.
End Cover.

(** non-vacuity: a component call of the pair of proof/C06_TraceEx.v *)
From SK Require Import proof.C06_AttrsEx proof.C06_TraceEx.
Example ex_trace_kind : call_kind H0 P0 ([1; 2; 3]%N, [10; 11]%N, 2%N) /\ In [1; 2; 3]%N (comps H0).
Proof.
  split.
  - apply (trace_kind E0 (Cfg 1 0 5000 false false) H0 P0). vm_compute. left. reflexivity.
  - vm_compute. left. reflexivity.
Qed.
