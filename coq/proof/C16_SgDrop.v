(** C16 (round 5) — the species-graph round trip survives the deletion of every attribute except `via` and the
    per-reaction coefficient maps: node `label` (the node id is the label), `kind`, `mol`, the `rules` sets (rule names
    are not claimed by the species-graph clause) and the legacy per-arc values stoich_r / stoich_p.
    Without the per-reaction maps the clause fails as soon as two reactions share a species pair with different
    coefficients ([ex_sdrop_maps_needed]).  Model of the deletions: model/C16_Edit.v. *)
From stdpp Require Import gmap strings sets pretty sorting.
From SK Require Import lib.Tok model.C15_Model proof.C15_Proof model.C16_Model proof.C16_Defs proof.C16_Common proof.C16_Sg model.C16_Edit.
Local Open Scope string_scope.
Local Open Scope list_scope.

Lemma sdrop_AInv d done arcs : sd_rmap d = false → sd_pmap d = false → AInv done arcs → AInv done (sdrop_arc d <$> arcs).
Proof.
  intros Hm Hm' [Hvia Hmap Harc Hne]. split.
  - intros u v a e. rewrite lookup_fmap. destruct (arcs !! (u, v)) as [a0|] eqn:E; [|done]. cbn. intros [= <-].
    cbn. by apply Hvia.
  - intros a t. rewrite lookup_fmap. destruct (arcs !! (t_u t, t_v t)) as [a0|] eqn:E; [|done]. cbn. intros [= <-] Ht.
    unfold sdrop_arc. cbn. rewrite Hm, Hm'. by apply Hmap.
  - intros t Ht. rewrite lookup_fmap. destruct (Harc t Ht) as [a ->]. by eexists.
  - intros uv a. rewrite lookup_fmap. destruct (arcs !! uv) as [a0|] eqn:E; [|done]. cbn. intros [= <-]. cbn. by eapply Hne.
Qed.

Lemma sdrop_NInv d nodes : NInv nodes → NInv (sdrop_node d <$> nodes).
Proof.
  intros HN x nd. rewrite lookup_fmap. destruct (nodes !! x) as [nd0|] eqn:E; [|done]. cbn. intros [= <-].
  unfold sdrop_node. cbn. destruct (sd_label d); [by left|]. by apply HN.
Qed.

Lemma species_graph_roundtrip_edited (pick : gset string → string) (default_rule : string) (include_mol mol_attr : bool)
    (d : sdrops) (H : net) :
  two_sided H → sd_rmap d = false → sd_pmap d = false →
  (species_graph_to_hypergraph pick default_rule mol_attr (sdrop_attrs d (hypergraph_to_species_graph include_mol H))).2 = None ∧
  stoich_of <$> edges (species_graph_to_hypergraph pick default_rule mol_attr
                         (sdrop_attrs d (hypergraph_to_species_graph include_mol H))).1
    = stoich_of <$> edges H.
Proof.
  intros H2 Hm Hm'. destruct (export_inv include_mol H) as [HA HN].
  apply species_graph_import_inv; [done|by apply AInv_VAInv, sdrop_AInv|by apply sdrop_NInv].
Qed.

(** non-vacuity: two reactions share the arc A -> B with different coefficients; everything but via and the maps deleted *)
Definition exs_net : net :=
  mk_net [] [(None, "r", [("A", 2%Z)], [("B", 1%Z)]); (None, "q", [("A", 3%Z); ("C", 1%Z)], [("B", 5%Z)])] [("A", "CC")].
Definition exs_all_but_maps : sdrops := SDrops true true true true false false true true.
Definition exs_maps_only : sdrops := SDrops false false false false true true false false.
Definition exs_back (d : sdrops) : net * option cerr :=
  species_graph_to_hypergraph pick_first "r" true (sdrop_attrs d (hypergraph_to_species_graph true exs_net)).
Example ex_sdrop_nonvacuous :
  bool_decide (two_sided exs_net) = true ∧ size (edges exs_net) = 2%nat ∧
  size (g_arcs (hypergraph_to_species_graph true exs_net)) = 2%nat ∧
  (exs_back exs_all_but_maps).2 = None ∧
  bool_decide (stoich_of <$> edges (exs_back exs_all_but_maps).1 = stoich_of <$> edges exs_net) = true.
Proof. split_and!; by vm_compute. Qed.
(** without the per-reaction maps only the legacy minimum of the shared arc is left: 3A >> 4B comes back as 2A >> B;
    and when the arcs of one reaction disagree (B gets 1 from the arc A->B and 5 from C->B) the importer keeps whichever it
    meets first — the result depends on the iteration order of a set-built graph (the model reports EUnmodelled) *)
Definition exs_net2 : net :=
  mk_net [] [(None, "r", [("A", 2%Z)], [("B", 1%Z)]); (None, "q", [("A", 3%Z)], [("B", 4%Z)])] [].
Definition exs_back2 : net * option cerr :=
  species_graph_to_hypergraph pick_first "r" true (sdrop_attrs exs_maps_only (hypergraph_to_species_graph true exs_net2)).
Example ex_sdrop_maps_needed :
  bool_decide (two_sided exs_net2) = true ∧ exs_back2.2 = None ∧
  bool_decide (stoich_of <$> edges exs_back2.1 = stoich_of <$> edges exs_net2) = false ∧
  (exs_back exs_maps_only).2 = Some EUnmodelled.
Proof. split_and!; by vm_compute. Qed.
