(** C02 (round 5) — spectator edits: get_rc depends only on the atoms and on the sub-LIST of relevant bonds (changed, or between two
    hydrogens).  Two ITS graphs with the same atoms and the same relevant bonds (in the same order) have the SAME centre; so adding,
    deleting or re-attributing a bond that is unchanged and not H-H never changes the centre (the rewiring / count-changing edits of
    the history populations hist-b2 / hist-b3), while the contexts may change. *)
From Coq Require Import List NArith ZArith Bool Lia.
From SK Require Import lib.LGraph lib.Reach lib.C01_GraphLemmas model.C01_Model model.C02_Model proof.C02_Proof.
Import ListNotations.
Local Open Scope Z_scope.

Definition relevant (g : its) (e : N * N * iedge) : bool := changed (snd e) || is_hh g (fst (fst e)) (snd (fst e)).

Lemma label_same_nodes (g g' : its) : gnodes g' = gnodes g -> forall n, label g' n = label g n.
Proof. intros E n. unfold label. rewrite E. reflexivity. Qed.

Lemma ensure_same_nodes (g g' : its) : gnodes g' = gnodes g -> forall n ns, ensure_node g' n ns = ensure_node g n ns.
Proof. intros E n ns. unfold ensure_node. rewrite (label_same_nodes g g' E). reflexivity. Qed.

Lemma is_hh_same_nodes (g g' : its) : gnodes g' = gnodes g -> forall u v, is_hh g' u v = is_hh g u v.
Proof. intros E u v. unfold is_hh, is_h. rewrite !(label_same_nodes g g' E). reflexivity. Qed.

Lemma fold_changed_relevant (g : its) L : forall st,
  fold_left (step_changed g) L st = fold_left (step_changed g) (filter (relevant g) L) st.
Proof.
  induction L as [|[[u v] x] L IH]; intros st; [reflexivity|]. cbn [fold_left filter].
  destruct (relevant g (u, v, x)) eqn:R; [cbn [fold_left]; apply IH|].
  unfold relevant in R. cbn [fst snd] in R. apply orb_false_iff in R. destruct R as [C _].
  assert (step_changed g st (u, v, x) = st) as -> by (unfold step_changed; rewrite C; reflexivity). apply IH.
Qed.

Lemma fold_hh_relevant (g : its) L : forall st,
  fold_left (step_hh g) L st = fold_left (step_hh g) (filter (relevant g) L) st.
Proof.
  induction L as [|[[u v] x] L IH]; intros st; [reflexivity|]. cbn [fold_left filter].
  destruct (relevant g (u, v, x)) eqn:R; [cbn [fold_left]; apply IH|].
  unfold relevant in R. cbn [fst snd] in R. apply orb_false_iff in R. destruct R as [_ Hh].
  assert (step_hh g st (u, v, x) = st) as -> by (unfold step_hh; rewrite Hh; reflexivity). apply IH.
Qed.

Lemma step_changed_same (g g' : its) : gnodes g' = gnodes g -> forall st e, step_changed g' st e = step_changed g st e.
Proof. intros E st [[u v] x]. unfold step_changed. rewrite !(ensure_same_nodes g g' E). reflexivity. Qed.
Lemma step_hh_same (g g' : its) : gnodes g' = gnodes g -> forall st e, step_hh g' st e = step_hh g st e.
Proof. intros E st [[u v] x]. unfold step_hh. rewrite (is_hh_same_nodes g g' E), !(ensure_same_nodes g g' E). reflexivity. Qed.

Lemma fold_ext_step {S X} (f f' : S -> X -> S) L : (forall st e, f' st e = f st e) -> forall st, fold_left f' L st = fold_left f L st.
Proof. intros H. induction L as [|e L IH]; intros st; [reflexivity|]. cbn [fold_left]. rewrite H. apply IH. Qed.

Theorem rc_same_relevant (g g' : its) : gnodes g' = gnodes g ->
  filter (relevant g) (gedges g') = filter (relevant g) (gedges g) -> get_rc g' = get_rc g.
Proof.
  intros En Ee. unfold get_rc. cbv zeta.
  rewrite (fold_ext_step (step_changed g) (step_changed g') _ (step_changed_same g g' En)).
  rewrite (fold_ext_step (step_hh g) (step_hh g') _ (step_hh_same g g' En)).
  rewrite (fold_changed_relevant g (gedges g')), (fold_changed_relevant g (gedges g)), Ee.
  rewrite (fold_hh_relevant g (gedges g')), (fold_hh_relevant g (gedges g)), Ee. reflexivity.
Qed.

(** adding a spectator bond (unchanged, not between two hydrogens) anywhere in the edge list *)
Corollary rc_add_spectator_bond (g : its) l1 l2 u v x : gedges g = l1 ++ l2 -> changed x = false -> is_hh g u v = false ->
  get_rc (LG (gnodes g) (l1 ++ (u, v, x) :: l2)) = get_rc g.
Proof.
  intros E C Hh. assert (relevant g (u, v, x) = false) as R by (unfold relevant; cbn [fst snd]; rewrite C, Hh; reflexivity).
  apply rc_same_relevant; [reflexivity|]. cbn [gedges]. rewrite E, !filter_app. cbn [filter]. rewrite R. reflexivity.
Qed.

(** deleting, or re-attributing into another spectator bond *)
Corollary rc_del_spectator_bond (g : its) l1 l2 u v x : gedges g = l1 ++ (u, v, x) :: l2 -> changed x = false -> is_hh g u v = false ->
  get_rc (LG (gnodes g) (l1 ++ l2)) = get_rc g.
Proof.
  intros E C Hh. assert (relevant g (u, v, x) = false) as R by (unfold relevant; cbn [fst snd]; rewrite C, Hh; reflexivity).
  apply rc_same_relevant; [reflexivity|]. cbn [gedges]. rewrite E, !filter_app. cbn [filter]. rewrite R. reflexivity.
Qed.

(** the contexts do change: witness on ex_its (the chain 1-5-6-7 hangs on the centre atom 1; deleting the spectator bond 5-6 keeps
    the centre and shrinks the radius-2 context) *)
Definition ex_cut : its := LG (gnodes ex_its) (filter (fun e : N * N * iedge => negb (N.eqb (fst (fst e)) 5 && N.eqb (snd (fst e)) 6)) (gedges ex_its)).
Example C02_spectator_nonvacuous :
  get_rc ex_cut = get_rc ex_its /\ gedges ex_cut <> gedges ex_its /\
  length (gnodes (extract_k ex_cut 2)) = 6%nat /\ length (gnodes (extract_k ex_its 2)) = 7%nat.
Proof.
  split; [|vm_compute; repeat split; try reflexivity; discriminate].
  apply (rc_del_spectator_bond ex_its [(1%N, 2%N, IE 2 0 2); (3%N, 4%N, IE 2 0 2); (3%N, 1%N, IE 0 2 (-2)); (4%N, 2%N, IE 0 2 (-2)); (1%N, 5%N, IE 2 2 0)]
           [(6%N, 7%N, IE 2 2 0); (4%N, 8%N, IE 2 2 0)] 5%N 6%N (IE 4 4 0)); reflexivity.
Qed.

(** spectator LABEL edits: with the same bonds, the same hydrogens and the same labels on the endpoints of the relevant bonds the
    centre is the same — whatever happens to the labels of the other atoms (charges, typesGH, elements other than to / from "H") *)
Lemma ensure_same_label (g g' : its) n ns : label g' n = label g n -> ensure_node g' n ns = ensure_node g n ns.
Proof. intros E. unfold ensure_node. rewrite E. reflexivity. Qed.

Theorem rc_same_centre_labels (g g' : its) : gedges g' = gedges g -> (forall n, is_h g' n = is_h g n) ->
  (forall a b x, In (a, b, x) (gedges g) -> relevant g (a, b, x) = true -> label g' a = label g a /\ label g' b = label g b) ->
  get_rc g' = get_rc g.
Proof.
  intros Ee Hh HL. unfold get_rc. cbv zeta. rewrite Ee.
  assert (forall u v, is_hh g' u v = is_hh g u v) as Hhh by (intros u v; unfold is_hh; rewrite !Hh; reflexivity).
  assert (forall L, (forall e, In e L -> In e (gedges g)) -> forall st, fold_left (step_changed g') L st = fold_left (step_changed g) L st) as F1.
  { induction L as [|[[u v] x] L IH]; intros Hin st; [reflexivity|]. cbn [fold_left].
    assert (step_changed g' st (u, v, x) = step_changed g st (u, v, x)) as ->.
    { unfold step_changed. destruct (changed x) eqn:C; [|reflexivity].
      destruct (HL u v x (Hin _ (or_introl eq_refl))) as [Lu Lv]; [unfold relevant; cbn [fst snd]; rewrite C; reflexivity|].
      rewrite (ensure_same_label g g' u _ Lu), (ensure_same_label g g' v _ Lv). reflexivity. }
    apply IH. intros e I. apply Hin. right. exact I. }
  assert (forall L, (forall e, In e L -> In e (gedges g)) -> forall st, fold_left (step_hh g') L st = fold_left (step_hh g) L st) as F2.
  { induction L as [|[[u v] x] L IH]; intros Hin st; [reflexivity|]. cbn [fold_left].
    assert (step_hh g' st (u, v, x) = step_hh g st (u, v, x)) as ->.
    { unfold step_hh. rewrite Hhh. destruct (is_hh g u v) eqn:C; [|reflexivity].
      destruct (HL u v x (Hin _ (or_introl eq_refl))) as [Lu Lv]; [unfold relevant; cbn [fst snd]; rewrite C; apply orb_true_r|].
      rewrite (ensure_same_label g g' u _ Lu), (ensure_same_label g g' v _ Lv). reflexivity. }
    apply IH. intros e I. apply Hin. right. exact I. }
  rewrite (F1 (gedges g) (fun e I => I)), (F2 (gedges g) (fun e I => I)). reflexivity.
Qed.

(** witness on ex_its: the charge and the typesGH of the spectator atom 6 change, the centre does not *)
Definition relab6 (k : N) (a : inode) : inode :=
  if N.eqb k 6 then IN (i_el a) 1 (i_amap a) (i_extra a) (NA (i_el a) true 3 1 []) (i_H a) else a.
Definition ex_relab : its := LG (map (fun p : N * inode => (fst p, relab6 (fst p) (snd p))) (gnodes ex_its)) (gedges ex_its).
Example C02_spectator_labels_nonvacuous : get_rc ex_relab = get_rc ex_its /\ gnodes ex_relab <> gnodes ex_its.
Proof.
  split; [|vm_compute; discriminate]. apply rc_same_centre_labels; [reflexivity| |].
  - intros n. unfold is_h, label, ex_relab. cbn [gnodes]. rewrite (assoc_map_val relab6).
    destruct (assoc n (gnodes ex_its)); simpl; [unfold relab6; destruct (N.eqb n 6); reflexivity|reflexivity].
  - intros a b x I R. vm_compute in I. repeat (destruct I as [I|I]; [inversion I; subst; try (vm_compute in R; discriminate); split; reflexivity|]). destruct I.
Qed.

(** * the same for every option setting with disconnected = False and for every label shape: generic in the node type *)
From SK Require Import model.C01_Opts model.C02_Store proof.C02_Opts proof.C02_Store proof.C02_StoreCtx2.
Section SpectatorG.
Variable A : Type.
Variables sel selhh : A -> A.
Variables ish cc : A -> bool.
Variable m : bool.

Definition relevant_g (g : lgraph A xedge) (e : N * N * xedge) : bool :=
  include_x m (snd e) || is_hh_g ish g (fst (fst e)) (snd (fst e)).

Lemma ensure_g_same (f : A -> A) (g g' : lgraph A xedge) : gnodes g' = gnodes g -> forall n ns, ensure_g f g' n ns = ensure_g f g n ns.
Proof. intros E n ns. unfold ensure_g, label. rewrite E. reflexivity. Qed.
Lemma is_hh_g_same (g g' : lgraph A xedge) : gnodes g' = gnodes g -> forall u v, is_hh_g ish g' u v = is_hh_g ish g u v.
Proof. intros E u v. unfold is_hh_g, is_h_g, label. rewrite E. reflexivity. Qed.

Lemma fold_changed_g_relevant (g : lgraph A xedge) L : forall st,
  fold_left (step_changed_g sel m g) L st = fold_left (step_changed_g sel m g) (filter (relevant_g g) L) st.
Proof.
  induction L as [|[[u v] x] L IH]; intros st; [reflexivity|]. cbn [fold_left filter].
  destruct (relevant_g g (u, v, x)) eqn:R; [cbn [fold_left]; apply IH|].
  unfold relevant_g in R. cbn [fst snd] in R. apply orb_false_iff in R. destruct R as [C _].
  assert (step_changed_g sel m g st (u, v, x) = st) as -> by (unfold step_changed_g; rewrite C; reflexivity). apply IH.
Qed.
Lemma fold_hh_g_relevant (g : lgraph A xedge) L : forall st,
  fold_left (step_hh_g selhh ish g) L st = fold_left (step_hh_g selhh ish g) (filter (relevant_g g) L) st.
Proof.
  induction L as [|[[u v] x] L IH]; intros st; [reflexivity|]. cbn [fold_left filter].
  destruct (relevant_g g (u, v, x)) eqn:R; [cbn [fold_left]; apply IH|].
  unfold relevant_g in R. cbn [fst snd] in R. apply orb_false_iff in R. destruct R as [_ Hh].
  assert (step_hh_g selhh ish g st (u, v, x) = st) as -> by (unfold step_hh_g; rewrite Hh; reflexivity). apply IH.
Qed.

Theorem rcg_same_relevant (g g' : lgraph A xedge) : gnodes g' = gnodes g ->
  filter (relevant_g g) (gedges g') = filter (relevant_g g) (gedges g) ->
  get_rc_g sel selhh ish cc false m g' = get_rc_g sel selhh ish cc false m g.
Proof.
  intros En Ee. unfold get_rc_g. cbv zeta.
  assert (forall st e, step_changed_g sel m g' st e = step_changed_g sel m g st e) as S1.
  { intros st [[u v] x]. unfold step_changed_g. rewrite !(ensure_g_same sel g g' En). reflexivity. }
  assert (forall st e, step_hh_g selhh ish g' st e = step_hh_g selhh ish g st e) as S2.
  { intros st [[u v] x]. unfold step_hh_g. rewrite (is_hh_g_same g g' En), !(ensure_g_same selhh g g' En). reflexivity. }
  rewrite (fold_ext_step _ _ _ S1), (fold_ext_step _ _ _ S2).
  rewrite (fold_changed_g_relevant g (gedges g')), (fold_changed_g_relevant g (gedges g)), Ee.
  rewrite (fold_hh_g_relevant g (gedges g')), (fold_hh_g_relevant g (gedges g)), Ee. reflexivity.
Qed.
End SpectatorG.

(** instances: every element_key / keep_mtg (disconnected = False), optional labels and pair labels *)
Corollary rcx_same_relevant K m (g g' : xits) : gnodes g' = gnodes g ->
  filter (fun e : N * N * xedge => include_x m (snd e) || is_hh_x g (fst (fst e)) (snd (fst e))) (gedges g') =
  filter (fun e : N * N * xedge => include_x m (snd e) || is_hh_x g (fst (fst e)) (snd (fst e))) (gedges g) ->
  get_rc_x K false m g' = get_rc_x K false m g.
Proof. intros En Ee. rewrite !get_rc_x_is_generic. apply (rcg_same_relevant xnode (sel_attr K) (sel_attr_hh K) ish_x charge_changed m g g' En). exact Ee. Qed.

Corollary rcS_same_relevant K m (g g' : sits) : gnodes g' = gnodes g ->
  filter (fun e : N * N * xedge => include_x m (snd e) || is_hh_g ish_S g (fst (fst e)) (snd (fst e))) (gedges g') =
  filter (fun e : N * N * xedge => include_x m (snd e) || is_hh_g ish_S g (fst (fst e)) (snd (fst e))) (gedges g) ->
  get_rc_S K false m g' = get_rc_S K false m g.
Proof. intros En Ee. apply (rcg_same_relevant snode (selS K) (selS_hh K) ish_S cc_S m g g' En). exact Ee. Qed.

(** disconnected = True is different: a spectator bond between two centre atoms IS re-added by _reconnect_rc_edges (witness) *)
Definition sp_tri : xits := emb (LG [(1%N, ex_n 70%N); (2%N, ex_n 70%N); (3%N, ex_n 70%N)] [(1%N, 2%N, IE 2 0 2); (2%N, 3%N, IE 0 2 (-2)); (1%N, 3%N, IE 2 2 0)]).
Definition sp_tri_cut : xits := emb (LG [(1%N, ex_n 70%N); (2%N, ex_n 70%N); (3%N, ex_n 70%N)] [(1%N, 2%N, IE 2 0 2); (2%N, 3%N, IE 0 2 (-2))]).
Example C02_spectator_options_nonvacuous :
  get_rc_x K_default false true sp_tri_cut = get_rc_x K_default false true sp_tri /\
  length (gedges (get_rc_x K_default true false sp_tri)) = 3%nat /\ length (gedges (get_rc_x K_default true false sp_tri_cut)) = 2%nat.
Proof.
  split; [|vm_compute; split; reflexivity]. apply rcx_same_relevant; reflexivity.
Qed.
