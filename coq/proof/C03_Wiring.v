(** C03 — the WIRING of _explicit_h: every new explicit hydrogen goes from a donor (reactant-side hydrogen count
    exceeds the product-side one) to a recipient (the opposite) that are connected through shared h_pairs ids — the
    same hydrogen-transfer group.  Stdlib lists only. *)
From Coq Require Import List NArith ZArith Bool Lia.
From SK Require Import lib.Tok lib.LGraph model.C03_Model proof.C03_Proof proof.C03_Glue proof.C03_ExplicitH proof.C03_ExplicitShape.
Import ListNotations.
Local Open Scope Z_scope.

Lemma share_pair_sym T a b : share_pair T a b -> share_pair T b a.
Proof. intros (pid & A & B & H1 & H2 & H3 & H4). exists pid, B, A. auto. Qed.
Lemma same_group_trans T a b c : same_group T a b -> same_group T b c -> same_group T a c.
Proof. induction 1 as [|a b c0 Hs Hg IH]; intros Hbc; [exact Hbc|]. eapply sg_step; eauto. Qed.
Lemma same_group_sym T a b : same_group T a b -> same_group T b a.
Proof.
  induction 1 as [|a b c Hs Hg IH]; [constructor|]. eapply same_group_trans; [exact IH|].
  eapply sg_step; [apply share_pair_sym; exact Hs|constructor].
Qed.

(** * pair_to_nodes: every listed atom carries the pair id *)
Definition pt_ok (T : its) (pt : list (N * list N)) : Prop :=
  forall pid ns a, In (pid, ns) pt -> In a ns -> exists A, In (a, A) (gnodes T) /\ In pid (hp_of A).

Lemma pt_add_in pt pid n : forall q ns a, In (q, ns) (pt_add pt pid n) -> In a ns ->
  (exists ns0, In (q, ns0) pt /\ In a ns0) \/ (q = pid /\ a = n).
Proof.
  induction pt as [|[q0 ns0] r IH]; simpl; intros q ns a I Ia.
  - destruct I as [I|[]]. inversion I; subst. destruct Ia as [<-|[]]. auto.
  - destruct (N.eqb_spec q0 pid) as [->|Ne].
    + destruct I as [I|I].
      * inversion I; subst. destruct (mem n ns0) eqn:Em.
        -- left. exists ns0. auto.
        -- apply in_app_or in Ia. destruct Ia as [Ia|[<-|[]]]; [left; exists ns0; auto|auto].
      * left. exists ns. auto.
    + destruct I as [I|I].
      * inversion I; subst. left. exists ns. auto.
      * destruct (IH q ns a I Ia) as [(ns1 & I1 & I2)|E]; [left; exists ns1; auto|auto].
Qed.

Lemma pair_to_nodes_ok T : pt_ok T (pair_to_nodes T).
Proof.
  unfold pair_to_nodes.
  assert (H : forall nodes pt, (forall p, In p nodes -> In p (gnodes T)) -> pt_ok T pt ->
            pt_ok T (fold_left (fun pt (p : N * inode) =>
               fold_left (fun pt' pid => pt_add pt' pid (fst p)) (match i_hp (snd p) with Some l => l | None => [] end) pt) nodes pt)).
  { induction nodes as [|[k A] r IH]; intros pt Hsub Hpt; [exact Hpt|]. cbn [fold_left]. apply IH; [intros; apply Hsub; right; assumption|].
    cbn [fst snd]. fold (hp_of A).
    assert (Hk : In (k, A) (gnodes T)) by (apply Hsub; left; reflexivity).
    assert (G : forall pids pt0, (forall p, In p pids -> In p (hp_of A)) -> pt_ok T pt0 ->
                pt_ok T (fold_left (fun pt' pid => pt_add pt' pid k) pids pt0)).
    { induction pids as [|pid ps IHp]; intros pt0 Hs H0; [exact H0|]. cbn [fold_left]. apply IHp; [intros; apply Hs; right; assumption|].
      intros q ns a I Ia. destruct (pt_add_in pt0 pid k q ns a I Ia) as [(ns0 & I1 & I2)|[-> ->]].
      - exact (H0 q ns0 a I1 I2).
      - exists A. split; [exact Hk|]. apply Hs. left. reflexivity. }
    apply G; [auto|exact Hpt]. }
  apply H; [auto|]. intros pid ns a [].
Qed.

(** * components: all atoms of one component are in the same group *)
Lemma in_union a b x : In x (union a b) <-> In x a \/ In x b.
Proof.
  unfold union. rewrite in_app_iff, filter_In. split; [tauto|]. intros [H|H]; [auto|].
  destruct (mem x a) eqn:E; [left; apply mem_spec; exact E|right; auto].
Qed.
Lemma in_fold_union hs : forall ns x, In x (fold_left union hs ns) <-> In x ns \/ exists c, In c hs /\ In x c.
Proof.
  induction hs as [|h r IH]; intros ns x; cbn [fold_left].
  - split; [auto|]. intros [H|(c & [] & _)]. exact H.
  - rewrite IH, in_union. split.
    + intros [[H|H]|(c & I & Ic)]; [auto|right; exists h; simpl; auto|right; exists c; simpl; auto].
    + intros [H|(c & [<-|I] & Ic)]; [auto|auto|right; exists c; auto].
Qed.
Lemma inter_spec a b : inter a b = true <-> exists x, In x a /\ In x b.
Proof.
  unfold inter. rewrite existsb_exists. split; intros (x & H1 & H2); exists x; (split; [exact H1|]); apply mem_spec; exact H2.
Qed.

Definition conn (R : N -> N -> Prop) (cs : list (list N)) : Prop := forall c a b, In c cs -> In a c -> In b c -> R a b.

Lemma add_group_conn (R : N -> N -> Prop) cs ns :
  (forall a, R a a) -> (forall a b, R a b -> R b a) -> (forall a b c, R a b -> R b c -> R a c) ->
  (forall a b, In a ns -> In b ns -> R a b) -> conn R cs -> conn R (add_group cs ns).
Proof.
  intros Rr Rs Rt Hns Hc. unfold add_group. intros c a b [<-|Ic] Ia Ib.
  - assert (K : forall x, In x (fold_left union (filter (inter ns) cs) ns) -> exists y, In y ns /\ R x y).
    { intros x Ix. apply in_fold_union in Ix. destruct Ix as [Ix|(c1 & I1 & Ix)]; [exists x; auto|].
      apply filter_In in I1. destruct I1 as [I1 Hi]. apply inter_spec in Hi. destruct Hi as (y & Y1 & Y2).
      exists y. split; [exact Y1|]. exact (Hc c1 x y I1 Ix Y2). }
    destruct (K a Ia) as (x & X1 & X2). destruct (K b Ib) as (y & Y1 & Y2).
    apply (Rt a x b X2). apply (Rt x y b (Hns x y X1 Y1)). apply Rs. exact Y2.
  - apply filter_In in Ic. destruct Ic as [Ic _]. exact (Hc c a b Ic Ia Ib).
Qed.

Lemma components_conn (R : N -> N -> Prop) pt :
  (forall a, R a a) -> (forall a b, R a b -> R b a) -> (forall a b c, R a b -> R b c -> R a c) ->
  (forall g a b, In g pt -> In a (snd g) -> In b (snd g) -> R a b) -> conn R (components pt).
Proof.
  intros Rr Rs Rt Hpt. unfold components.
  assert (H : forall l cs, (forall g, In g l -> In g pt) -> conn R cs -> conn R (fold_left (fun cs g => add_group cs (snd g)) l cs)).
  { induction l as [|g r IH]; intros cs Hsub Hc; [exact Hc|]. cbn [fold_left]. apply IH; [intros; apply Hsub; right; assumption|].
    apply add_group_conn; auto. intros a b. apply Hpt. apply Hsub. left. reflexivity. }
  apply H; [auto|]. intros c a b [].
Qed.

Lemma components_same_group T : conn (same_group T) (components (pair_to_nodes T)).
Proof.
  apply components_conn; [constructor|apply same_group_sym|apply same_group_trans|].
  intros [pid ns] a b I Ia Ib. cbn [snd] in *.
  destruct (pair_to_nodes_ok T pid ns a I Ia) as (A & HA & PA). destruct (pair_to_nodes_ok T pid ns b I Ib) as (B & HB & PB).
  eapply sg_step; [|constructor]. exists pid, A, B. auto.
Qed.

(** * the migrations of one component stay inside it *)
Lemma migrations_of_in T comp ms : migrations_of T comp = Some ms ->
  forall sd, In sd ms -> In (fst sd) comp /\ In (snd sd) comp /\ 0 < dl_of T (fst sd) /\ dl_of T (snd sd) < 0.
Proof.
  intros H sd I. destruct (migrations_of_spec T comp ms H sd I) as [S1 S2]. split; [|split; [|auto]].
  - revert H I. unfold migrations_of. fold (dl_of T).
    change (fold_left _ (filter (fun n => 0 <? dl_of T n) comp) (Some (map (fun n => (n, - dl_of T n)) (filter (fun n => dl_of T n <? 0) comp), [])))
      with (fold_left (donor_step (dl_of T)) (filter (fun n => 0 <? dl_of T n) comp)
                      (Some (map (fun n => (n, - dl_of T n)) (filter (fun n => dl_of T n <? 0) comp), []))).
    destruct (fold_left _ _ _) as [[rs acc]|] eqn:E; [|discriminate]. intros H I. inversion H; subst acc.
    destruct (donor_fold_spec _ _ _ _ _ _ E) as [_ A]. destruct (A sd I) as [[]|[I1 _]]. apply filter_In in I1. tauto.
  - revert H I. unfold migrations_of. fold (dl_of T).
    change (fold_left _ (filter (fun n => 0 <? dl_of T n) comp) (Some (map (fun n => (n, - dl_of T n)) (filter (fun n => dl_of T n <? 0) comp), [])))
      with (fold_left (donor_step (dl_of T)) (filter (fun n => 0 <? dl_of T n) comp)
                      (Some (map (fun n => (n, - dl_of T n)) (filter (fun n => dl_of T n <? 0) comp), []))).
    destruct (fold_left _ _ _) as [[rs acc]|] eqn:E; [|discriminate]. intros H I. inversion H; subst acc.
    destruct (donor_fold_spec _ _ _ _ _ _ E) as [_ A]. destruct (A sd I) as [[]|[_ I2]].
    rewrite map_map in I2. simpl in I2. rewrite map_id in I2. apply filter_In in I2. tauto.
Qed.

Lemma in_insert_sorted' x y l : In y (insert_sorted x l) -> x = y \/ In y l.
Proof.
  induction l as [|z r IH]; simpl; [tauto|]. destruct (N.leb x z); simpl; [tauto|]. intros [->|I]; [auto|]. destruct (IH I); auto.
Qed.
Lemma in_sort_N' y l : In y (sort_N l) -> In y l.
Proof. unfold sort_N. induction l as [|x r IH]; simpl; [tauto|]. intros I. apply in_insert_sorted' in I. destruct I; auto. Qed.

Lemma comp_fold_in T cs : forall acc res, fold_left (comp_step T) cs (Some acc) = Some res ->
  forall sd, In sd res -> In sd acc \/
    exists comp, In comp cs /\ In (fst sd) comp /\ In (snd sd) comp /\ 0 < dl_of T (fst sd) /\ dl_of T (snd sd) < 0.
Proof.
  induction cs as [|c r IH]; cbn [fold_left]; intros acc res H sd I.
  - inversion H; subst. auto.
  - unfold comp_step at 2 in H. destruct (migrations_of T (sort_N c)) as [ms|] eqn:E; [|rewrite comp_fold_none in H; discriminate].
    destruct (IH _ _ H sd I) as [I1|(comp & I1 & R)]; [|right; exists comp; split; [right; exact I1|exact R]].
    apply in_app_or in I1. destruct I1 as [I1|I1]; [auto|]. right. exists c. split; [left; reflexivity|].
    destruct (migrations_of_in T _ ms E sd I1) as (A & B & C & D). split; [apply in_sort_N'; exact A|]. split; [apply in_sort_N'; exact B|auto].
Qed.

(** * the wiring theorem *)
Theorem explicit_h_wiring T T' ms : NoDup (node_ids T) -> explicit_h T = Some (T', ms) ->
  gedges T' = gedges T ++ new_edges (N.succ (max_id T)) ms /\
  forall sd, In sd ms ->
    same_group T (fst sd) (snd sd) /\ 0 < dl_of T (fst sd) /\ dl_of T (snd sd) < 0.
Proof.
  intros Hnd H. split; [exact (proj1 (explicit_h_shape T T' ms Hnd H))|].
  destruct (explicit_h_unfold T T' ms H) as (Hm & _). unfold all_migrations in Hm.
  change (fold_left _ (components (pair_to_nodes T)) (Some [])) with (fold_left (comp_step T) (components (pair_to_nodes T)) (Some [])) in Hm.
  intros sd I. destruct (comp_fold_in T _ _ _ Hm sd I) as [[]|(comp & Ic & A & B & C & D)].
  split; [|auto]. exact (components_same_group T comp (fst sd) (snd sd) Ic A B).
Qed.
