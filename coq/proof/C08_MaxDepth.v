(** C08 — canonical_form(max_depth = md) of the exact back-end ([nsearch_md], [canon_md]):
    exact      with md >= number of nodes the depth guard never fires: the search IS the unbounded search, early_stop = False;
    faithful   whatever md: when a permutation is returned (no RuntimeError) it is a leaf of the search tree, hence a
               permutation of the node set - the returned graph is the input relabelled onto 1..N (not necessarily the
               canonical one: the search was abandoned). *)
From Coq Require Import List NArith ZArith Bool Arith Lia Permutation.
From SK Require Import lib.LGraph lib.IRSortKeys lib.IRCore lib.IRSearch lib.StrJoin.
From SK Require Import model.C08_Model proof.C08_Spec proof.C08_Sort proof.C08_IR proof.C08_Faithful proof.C08_Nauty.
From SK Require lib.IRInst.
Import ListNotations.

(* ---------------- deep enough: the guard never fires ---------------- *)
Lemma fold_md_noflag (g : graph) (F : nacc -> N -> nacc) (G : nacc -> N -> nacc * bool) l :
  (forall a v, In v l -> G a v = (F a v, false)) ->
  forall a, fold_left (fun (s : nacc * bool) v => if snd s then s else G (fst s) v) l (a, false) = (fold_left F l a, false).
Proof.
  induction l as [|v l IH]; intros H a; [reflexivity|]. cbn [fold_left snd fst].
  rewrite (H a v) by (left; reflexivity). apply IH. intros a' v' I. apply H. right. exact I.
Qed.

Theorem nsearch_md_deep md g fuel : forall P pre a, length pre + fuel <= S md ->
  nsearch_md md g fuel P pre a = (nsearch g fuel P pre a, false).
Proof.
  induction fuel as [|f IH]; intros P pre a Hd; [reflexivity|].
  cbn [nsearch_md nsearch].
  assert (Hlt : Nat.ltb md (length pre) = false) by (apply Nat.ltb_ge; lia). rewrite Hlt.
  destruct (first_big (nrefine g P)) as [i|]; [|reflexivity].
  set (l := children g (nth i (nrefine g P) [])).
  rewrite <- (fold_md_noflag g (fun a v => if npruned g a (pre ++ [v]) then a else nsearch g f (individualise (nrefine g P) i v) (pre ++ [v]) a)
                (fun a v => if npruned g a (pre ++ [v]) then (a, false) else nsearch_md md g f (individualise (nrefine g P) i v) (pre ++ [v]) a) l).
  - apply fold_left_ext_in. intros [a' b'] v _. cbn [snd fst]. destruct b'; [reflexivity|].
    destruct (npruned g a' (pre ++ [v])); reflexivity.
  - intros a' v _. destruct (npruned g a' (pre ++ [v])); [reflexivity|].
    apply IH. rewrite app_length. simpl. lia.
Qed.

Theorem canon_md_exact md g : length (gnodes g) <= md -> NoDup (node_ids g) ->
  canon_md md g = Some (nauty_perm g, false).
Proof.
  intros Hmd Hnd. unfold canon_md, nauty_md.
  rewrite (nsearch_md_deep md g (sfuel g) (init_partition g) [] (None, [])) by (unfold sfuel; simpl; lia).
  cbn [fst snd]. destruct (nauty_perm_leaf g Hnd) as [_ Hl]. unfold nauty_label, nauty_perm, nauty_acc in *.
  destruct (fst (nsearch g (sfuel g) (init_partition g) [] (None, []))) as [[bl bp]|]; [reflexivity|discriminate].
Qed.

(* ---------------- whatever the bound: the best permutation so far is a leaf of the full search tree ---------------- *)
Notation lv g := (leaves2 _ lexleb (sigN g) (rfuel g) (children g)).
Definition best_in (T : list (list N)) (a : nacc) : Prop := forall bl bp, fst a = Some (bl, bp) -> In bp T.

Lemma visit_best_in (g : graph) T a p : best_in T a -> In p T -> best_in T (nvisit g a p).
Proof.
  intros Ha Hp bl bp E. unfold nvisit, visit in E. destruct a as [o auts]. cbn [fst snd] in *. destruct o as [[bl0 bp0]|].
  - destruct (ltb strleb (nlabel g p) bl0); cbn [fst] in E.
    + inversion E; subst. exact Hp.
    + destruct (eqb strleb (nlabel g p) bl0); cbn [fst] in E; apply (Ha bl bp); exact E.
  - cbn [fst] in E. inversion E; subst. exact Hp.
Qed.

Theorem nsearch_md_best_in md g T fuel : forall P pre a, incl (lv g fuel P pre) T -> best_in T a ->
  best_in T (fst (nsearch_md md g fuel P pre a)).
Proof.
  induction fuel as [|f IH]; intros P pre a Hin Ha; [exact Ha|].
  cbn [nsearch_md]. destruct (Nat.ltb md (length pre)); [exact Ha|].
  cbn [leaves2] in Hin. fold (nrefine g P) in Hin.
  destruct (first_big (nrefine g P)) as [i|].
  - set (l := children g (nth i (nrefine g P) [])) in *.
    assert (Hl : forall v, In v l -> incl (lv g f (individualise (nrefine g P) i v) (pre ++ [v])) T).
    { intros v Iv p Ip. apply Hin. apply in_flat_map. exists v. split; auto. }
    clearbody l. clear Hin.
    assert (K : forall (s : nacc * bool), best_in T (fst s) ->
                best_in T (fst (fold_left (fun (s : nacc * bool) v => if snd s then s else if npruned g (fst s) (pre ++ [v]) then s
                                   else nsearch_md md g f (individualise (nrefine g P) i v) (pre ++ [v]) (fst s)) l s))).
    { induction l as [|v l IHl]; intros s Hs; [exact Hs|]. cbn [fold_left]. apply IHl.
      - intros v' I. apply Hl. right. exact I.
      - destruct (snd s); [exact Hs|]. destruct (npruned g (fst s) (pre ++ [v])); [exact Hs|].
        apply IH; [apply Hl; left; reflexivity|exact Hs]. }
    apply (K (a, false)). exact Ha.
  - cbn [fst]. apply visit_best_in; [exact Ha|]. apply Hin. left. reflexivity.
Qed.

Theorem canon_md_leaf md g p b : canon_md md g = Some (p, b) -> In p (lv g (sfuel g) (init_partition g) []).
Proof.
  unfold canon_md, nauty_md. intros E.
  pose proof (nsearch_md_best_in md g (lv g (sfuel g) (init_partition g) []) (sfuel g) (init_partition g) [] (None, [])
                (fun x I => I) (fun bl bp (E0 : fst (None, []) = Some (bl, bp)) => match E0 with eq_refl => I end)) as H.
  destruct (fst (fst (nsearch_md md g (sfuel g) (init_partition g) [] (None, [])))) as [[bl bp]|] eqn:Eb; [|discriminate].
  inversion E; subst. apply (H bl p). exact Eb.
Qed.

Theorem canon_md_perm md g p b : NoDup (node_ids g) -> canon_md md g = Some (p, b) -> Permutation p (node_ids g).
Proof.
  intros Hnd E. apply canon_md_leaf in E.
  apply (leaves2_perm _ lexleb IRInst.lexleb_total IRInst.lexleb_trans IRInst.lexleb_antisym (sigN g) (rfuel g) (children g)
           (children_perm g) (node_ids g) Hnd _ _ _ _ (init_vpart g)) in E; auto.
  split; [constructor|intros x []].
Qed.

Theorem canon_md_faithful md g p b : NoDup (node_ids g) -> canon_md md g = Some (p, b) ->
  faithful g (relabel (apply_map (mapping_of p)) g) /\ onto_1N g (relabel (apply_map (mapping_of p)) g).
Proof.
  intros Hnd E. pose proof (canon_md_perm md g p b Hnd E) as Hp.
  assert (Hndp : NoDup p) by (eapply Permutation_NoDup; [apply Permutation_sym; exact Hp|auto]).
  split.
  - exists (apply_map (mapping_of p)). split; [|split]; auto.
    apply inj_on_same. eapply inj_on_perm; [exact Hp|]. apply mapping_of_inj. auto.
  - unfold onto_1N, node_ids, relabel. cbn [gnodes]. rewrite map_map. cbn [fst].
    rewrite <- (map_map fst (apply_map (mapping_of p))).
    eapply perm_trans; [apply Permutation_map; apply Permutation_sym; exact Hp|].
    rewrite (mapping_of_map _ Hndp). rewrite (Permutation_length Hp). unfold node_ids. rewrite map_length. apply Permutation_refl.
Qed.

(* non-vacuity: C4: depth 0 and 1 abandon the search before any leaf (RuntimeError), depth 2 < N is already the unbounded search;
   an 8-node graph whose leaves lie at different depths: with max_depth = 2 a leaf is returned AND early_stop is reported *)
Definition md_g : graph :=
  LG [(1%N, NA [67%N] false 0 0 None); (2%N, NA [67%N] false 0 0 None); (3%N, NA [67%N] false 0 0 None); (4%N, NA [67%N] false 0 0 None)]
     [(1%N, 2%N, EA 2 None); (2%N, 3%N, EA 2 None); (3%N, 4%N, EA 2 None); (4%N, 1%N, EA 2 None)].
Definition md_h : graph :=
  LG (map (fun k => (N.of_nat k, NA [67%N] false 0 0 None)) (seq 1 8))
     [(1%N, 4%N, EA 2 None); (1%N, 8%N, EA 2 None); (2%N, 4%N, EA 2 None); (2%N, 5%N, EA 2 None); (3%N, 6%N, EA 2 None); (3%N, 7%N, EA 2 None); (4%N, 6%N, EA 2 None); (4%N, 8%N, EA 2 None); (5%N, 6%N, EA 2 None); (6%N, 7%N, EA 2 None)].
Example md_ex : canon_md 0 md_g = None /\ canon_md 1 md_g = None /\ canon_md 2 md_g = Some (nauty_perm md_g, false)
                /\ canon_md 4 md_g = Some (nauty_perm md_g, false)
                /\ canon_md 2 md_h = Some ([1%N; 3%N; 2%N; 7%N; 5%N; 8%N; 6%N; 4%N], true) /\ NoDup (node_ids md_h).
Proof. repeat (split; [vm_compute; reflexivity|]). vm_compute. repeat constructor; simpl; intuition discriminate. Qed.

Print Assumptions canon_md_exact.
Print Assumptions canon_md_faithful.
