(** C18 — equivariance: the signature, the initial partition and the label of the model are transported by an
    injective renaming of the nodes and do not depend on the insertion order of nodes / arcs; hence (lib/IRCore
    [leaves_rel]) the leaf enumeration of a renamed, reordered view is the renamed leaf enumeration up to order. *)
From Coq Require Import List NArith ZArith Bool Arith Lia Permutation.
From SK Require Import lib.IRSortKeys lib.IRCore lib.IRSearch lib.StrJoin lib.C18_IRValid model.C18_Model
  proof.C18_Order proof.C18_Spec proof.C18_Graph proof.C18_Canon.
From SK Require lib.IRInst.
Import ListNotations.

(* ---------------- sorting the out-edge attributes ---------------- *)
Lemma attr_leb_spec a b : attr_leb a b = true <-> (fst a < fst b \/ (fst a = fst b /\ snd a <= snd b))%Z.
Proof.
  unfold attr_leb. destruct (Z.ltb_spec (fst a) (fst b)); [split; auto|].
  destruct (Z.ltb_spec (fst b) (fst a)).
  - split; [discriminate|lia].
  - rewrite Z.leb_le. split; [intros; right; lia|intros [?|[? ?]]; lia].
Qed.
Lemma attr_eq (a b : eattr) : fst a = fst b -> snd a = snd b -> a = b.
Proof. destruct a, b; simpl; intros; subst; auto. Qed.

Lemma ins_attr_comm x y l : ins_attr x (ins_attr y l) = ins_attr y (ins_attr x l).
Proof.
  induction l as [|z l IH]; simpl.
  - destruct (attr_leb x y) eqn:Exy, (attr_leb y x) eqn:Eyx; auto.
    + apply attr_leb_spec in Exy, Eyx. assert (x = y) by (apply attr_eq; lia). subst. auto.
    + exfalso. assert (~ (attr_leb x y = true)) by congruence. assert (~ (attr_leb y x = true)) by congruence.
      rewrite attr_leb_spec in *. lia.
  - destruct (attr_leb y z) eqn:Eyz, (attr_leb x z) eqn:Exz; simpl;
      rewrite ?Eyz, ?Exz; destruct (attr_leb x y) eqn:Exy, (attr_leb y x) eqn:Eyx; simpl; rewrite ?Eyz, ?Exz; auto;
      try (rewrite IH; reflexivity);
      try (apply attr_leb_spec in Exy, Eyx; assert (x = y) by (apply attr_eq; lia); subst; reflexivity);
      exfalso;
      repeat match goal with
             | H : attr_leb _ _ = true |- _ => apply attr_leb_spec in H
             | H : attr_leb ?a ?b = false |- _ =>
                 assert (~ (attr_leb a b = true)) by congruence; clear H
             end;
      rewrite ?attr_leb_spec in *; lia.
Qed.

Lemma sort_attrs_perm l l' : Permutation l l' -> sort_attrs l = sort_attrs l'.
Proof.
  unfold sort_attrs. induction 1; simpl; auto; try congruence.
  apply ins_attr_comm.
Qed.

(* ---------------- the signature does not depend on the presentation ---------------- *)
Lemma filter_ext_in' {A} (f g : A -> bool) l : (forall x, In x l -> f x = g x) -> filter f l = filter g l.
Proof. induction l as [|x l IH]; simpl; intros H; auto. rewrite H by auto. destruct (g x); rewrite IH; auto. Qed.

Lemma geq_has_arc g h u v : wf g -> geq g h -> has_arc h u v = has_arc g u v.
Proof. intros Hw Hg. unfold has_arc. rewrite (geq_find_arc g h u v Hw Hg). reflexivity. Qed.
Lemma geq_is_nbr g h u v : wf g -> geq g h -> is_nbr h u v = is_nbr g u v.
Proof. intros Hw Hg. unfold is_nbr. rewrite !(geq_has_arc g h) by auto. reflexivity. Qed.

Lemma sig_geq g h P v : wf g -> geq g h -> sig h P v = sig g P v.
Proof.
  intros Hw Hg. unfold sig. rewrite (geq_kind_of g h v Hw Hg).
  destruct Hg as [H1 H2].
  assert (Hin : indeg h v = indeg g v).
  { unfold indeg. apply Permutation_length. apply Permutation_filter. apply Permutation_sym. auto. }
  assert (Hout : outdeg h v = outdeg g v).
  { unfold outdeg. apply Permutation_length. apply Permutation_filter. apply Permutation_sym. auto. }
  rewrite Hin, Hout. f_equal. f_equal.
  - apply map_ext. intros c. unfold cnt. f_equal. f_equal. apply filter_ext_in'. intros n _.
    apply geq_is_nbr; auto. split; auto.
  - f_equal. apply sort_attrs_perm. unfold out_attrs. apply Permutation_map. apply Permutation_filter.
    apply Permutation_sym. auto.
Qed.

(* ---------------- the signature is transported by an injective renaming ---------------- *)
Section Rename.
Variable f : N -> N.
Hypothesis f_inj : forall x y, f x = f y -> x = y.

Lemma eqb_f x y : N.eqb (f x) (f y) = N.eqb x y.
Proof.
  destruct (N.eqb_spec x y) as [->|H]; [apply N.eqb_refl|].
  apply N.eqb_neq. intro E. apply H. apply f_inj. exact E.
Qed.

Lemma kind_of_rn g v : kind_of (relabel f g) (f v) = kind_of g v.
Proof.
  unfold kind_of, relabel; simpl. induction (vnodes g) as [|[u k] l IH]; simpl; auto.
  rewrite eqb_f. destruct (N.eqb u v); auto.
Qed.
Lemma find_arc_rn g u v : find_arc (relabel f g) (f u) (f v) = find_arc g u v.
Proof.
  unfold find_arc, relabel; simpl. induction (varcs g) as [|e l IH]; simpl; auto.
  change (asrc (f (asrc e), f (adst e), aattr e)) with (f (asrc e)).
  change (adst (f (asrc e), f (adst e), aattr e)) with (f (adst e)).
  change (aattr (f (asrc e), f (adst e), aattr e)) with (aattr e).
  rewrite !eqb_f. destruct (N.eqb (asrc e) u && N.eqb (adst e) v); auto.
Qed.
Lemma is_nbr_rn g u v : is_nbr (relabel f g) (f u) (f v) = is_nbr g u v.
Proof. unfold is_nbr, has_arc. rewrite !find_arc_rn. reflexivity. Qed.

Lemma filter_arcs_rn (sel : arc -> N) g v :
  (forall e, sel (f (asrc e), f (adst e), aattr e) = f (sel e)) ->
  filter (fun e => N.eqb (sel e) (f v)) (varcs (relabel f g))
  = map (fun e => (f (asrc e), f (adst e), aattr e)) (filter (fun e => N.eqb (sel e) v) (varcs g)).
Proof.
  intros Hs. unfold relabel; simpl. symmetry. apply map_filter_comm. intros e _. rewrite Hs. apply eqb_f.
Qed.
Lemma indeg_rn g v : indeg (relabel f g) (f v) = indeg g v.
Proof. unfold indeg. rewrite (filter_arcs_rn adst); [apply map_length|reflexivity]. Qed.
Lemma outdeg_rn g v : outdeg (relabel f g) (f v) = outdeg g v.
Proof. unfold outdeg. rewrite (filter_arcs_rn asrc); [apply map_length|reflexivity]. Qed.
Lemma out_attrs_rn g v : out_attrs (relabel f g) (f v) = out_attrs g v.
Proof. unfold out_attrs. rewrite (filter_arcs_rn asrc); [|reflexivity]. rewrite map_map. reflexivity. Qed.

Lemma cnt_rn g v c c' : cellR f c c' -> cnt (relabel f g) (f v) c' = cnt g v c.
Proof.
  intros Hc. unfold cnt. f_equal. unfold cellR in Hc.
  rewrite <- (Permutation_length (Permutation_filter (is_nbr (relabel f g) (f v)) Hc)).
  rewrite <- (map_filter_comm f (is_nbr g v) (is_nbr (relabel f g) (f v))).
  - apply map_length.
  - intros x _. apply is_nbr_rn.
Qed.

Lemma sig_rn g P P' v : partR f P P' -> sig (relabel f g) P' (f v) = sig g P v.
Proof.
  intros HP. unfold sig. rewrite kind_of_rn, indeg_rn, outdeg_rn, out_attrs_rn. f_equal. f_equal.
  induction HP as [|c c' P P' Hc HP IH]; simpl; auto. f_equal; auto. apply cnt_rn. auto.
Qed.

(** the model's signature satisfies the hypothesis [sig_rel] of lib/IRCore for a renamed, re-presented view *)
Theorem sig_rel g g' P P' v : wf g -> geq g' (relabel f g) -> partR f P P' -> sig g' P' (f v) = sig g P v.
Proof.
  intros Hw Hg HP. rewrite <- (sig_rn g P P' v HP). symmetry.
  assert (Hw' : wf g') by (apply (geq_wf (relabel f g)); [apply geq_sym; auto|apply wf_relabel; auto; intros x y _ _; apply f_inj]).
  rewrite <- (sig_geq g' (relabel f g) P' (f v) Hw' Hg). reflexivity.
Qed.
End Rename.

(* ---------------- the label ---------------- *)
Lemma label_ext g h p : (forall v, kind_of h v = kind_of g v) -> (forall u v, find_arc h u v = find_arc g u v) ->
  label h p = label g p.
Proof.
  intros Hk Ha. unfold label. f_equal; [f_equal; apply map_ext; intros v; rewrite Hk; auto|].
  f_equal. f_equal. unfold edge_bits. apply flat_map_ext. intros iv. apply flat_map_ext. intros jw.
  unfold bit. rewrite Ha. reflexivity.
Qed.
Lemma label_geq g h p : wf g -> geq g h -> label h p = label g p.
Proof. intros Hw Hg. apply label_ext; intros; [apply geq_kind_of|apply geq_find_arc]; auto. Qed.

Lemma indexed_map (f : N -> N) p : indexed (map f p) = map (fun iv => (fst iv, f (snd iv))) (indexed p).
Proof.
  unfold indexed. rewrite map_length. generalize (seq 0 (length p)) as s. induction p as [|x p IH]; intros [|i s]; simpl; auto.
  f_equal. apply IH.
Qed.

Lemma label_rn f (f_inj : forall x y, f x = f y -> x = y) g p : label (relabel f g) (map f p) = label g p.
Proof.
  unfold label. rewrite map_map. f_equal; [f_equal; apply map_ext; intros v; rewrite kind_of_rn; auto|].
  f_equal. f_equal. unfold edge_bits. rewrite indexed_map, flat_map_map. apply flat_map_ext. intros iv.
  rewrite flat_map_map. apply flat_map_ext. intros jw. simpl. unfold bit. rewrite find_arc_rn; auto.
Qed.

Lemma label_rel f (f_inj : forall x y, f x = f y -> x = y) g g' p : wf g -> geq g' (relabel f g) ->
  label g' (map f p) = label g p.
Proof.
  intros Hw Hg. rewrite <- (label_rn f f_inj g p).
  assert (Hw' : wf (relabel f g)) by (apply wf_relabel; auto; intros x y _ _; apply f_inj).
  apply label_geq; auto. apply geq_sym. auto.
Qed.

(* ---------------- the initial partition ---------------- *)
Lemma init_part_geq g h : geq g h -> init_part h = init_part g.
Proof.
  intros [H1 _]. unfold init_part.
  assert (E : sort_dedup Z.leb (map snd (vnodes h)) = sort_dedup Z.leb (map snd (vnodes g))).
  { apply (sort_dedup_ext Z.leb Zleb_total Zleb_trans Zleb_antisym). intros y.
    split; apply Permutation_in; apply Permutation_map; auto. apply Permutation_sym. auto. }
  rewrite E. apply map_ext. intros k. unfold sortN.
  apply (sort_dedup_ext N.leb Nleb_total Nleb_trans Nleb_antisym). intros y.
  split; apply Permutation_in; apply Permutation_map; apply Permutation_filter; auto. apply Permutation_sym. auto.
Qed.

Lemma init_part_rn f (f_inj : forall x y, f x = f y -> x = y) g : NoDup (node_ids g) ->
  partR f (init_part g) (init_part (relabel f g)).
Proof.
  intros Hnd. unfold init_part, relabel; simpl. rewrite map_map. simpl.
  apply Forall2_map_same. intros k _. unfold cellR.
  set (A := map fst (filter (fun p => Z.eqb (snd p) k) (vnodes g))).
  assert (EA : map fst (filter (fun p => Z.eqb (snd p) k) (map (fun p => (f (fst p), snd p)) (vnodes g))) = map f A).
  { unfold A. rewrite <- (map_filter_comm (fun p : N * Z => (f (fst p), snd p)) (fun p => Z.eqb (snd p) k) (fun p => Z.eqb (snd p) k)).
    - rewrite !map_map. reflexivity.
    - intros; reflexivity. }
  rewrite EA.
  assert (HA : NoDup A).
  { unfold A. rewrite kind_cell; auto. apply NoDup_filter. auto. }
  eapply perm_trans; [apply Permutation_map; apply sortN_perm; auto|].
  apply Permutation_sym. apply sortN_perm. apply NoDup_map_inj_on; auto.
Qed.

(* ---------------- the leaf enumeration ---------------- *)
Theorem leaves_of_rel f (f_inj : forall x y, f x = f y -> x = y) g g' : wf g -> geq g' (relabel f g) ->
  Permutation (map (map f) (leaves_of g)) (leaves_of g').
Proof.
  intros Hw Hg. unfold leaves_of.
  assert (El : length (vnodes g') = length (vnodes g)).
  { rewrite (Permutation_length (proj1 Hg)). unfold relabel; simpl. apply map_length. }
  rewrite El.
  apply (leaves_rel IRInst.lexleb IRInst.lexleb_total (fun a b c H1 H2 => IRInst.lexleb_trans a b c H1 H2)
           IRInst.lexleb_antisym f_inj (sig g) (sig g')).
  - intros P P' v HP. apply sig_rel; auto.
  - rewrite (init_part_geq _ _ (geq_sym _ _ Hg)). apply init_part_rn; auto. apply Hw.
Qed.

(** the minimum label is the same *)
Theorem best_label_rel f (f_inj : forall x y, f x = f y -> x = y) g g' : wf g -> geq g' (relabel f g) ->
  best_label (canon_search g') = best_label (canon_search g).
Proof.
  intros Hw Hg. rewrite !canon_search_fold, !best_label_fold.
  rewrite <- (fold_minl_perm lexlebN lexlebN_total lexlebN_trans lexlebN_antisym
                (Permutation_map (label g') (leaves_of_rel f f_inj g g' Hw Hg))).
  rewrite map_map. f_equal. apply map_ext. intros p. apply label_rel; auto.
Qed.
