(** C02 (round 5) — longest_radius_extension commutes with every injective renumbering (that keeps the edge-list order, as
    [relabel] does), hence extract_k(its, n_knn) does for EVERY option value, n_knn = -1 included. *)
From Coq Require Import List NArith ZArith Bool Lia.
From SK Require Import lib.LGraph lib.Reach lib.C01_GraphLemmas model.C01_Model model.C02_Model proof.C02_Proof proof.C02_Lre proof.C02_CtxEquiv.
Import ListNotations.
Local Open Scope Z_scope.

Section LreEquiv.
Variable f : N -> N.
Hypothesis Hinj : forall a b, f a = f b -> a = b.

Lemma std0_relabel (g : its) u v : std0 (relabel f g) (f u) (f v) = std0 g u v.
Proof. unfold std0. rewrite (adj_relabel Hinj). reflexivity. Qed.

Lemma lmem_map x l : LGraph.mem (f x) (map f l) = LGraph.mem x l.
Proof. apply (mem_map_inj Hinj). Qed.

Lemma fold_map_rel {X} (F F' : list N -> X -> list N) (h : X -> X) (L : list X) :
  (forall acc x, In x L -> F' (map f acc) (h x) = map f (F acc x)) ->
  forall acc, fold_left F' (map h L) (map f acc) = map f (fold_left F L acc).
Proof.
  induction L as [|x L IH]; intros H acc; simpl; [reflexivity|].
  rewrite (H acc x (or_introl eq_refl)). apply IH. intros a y I. apply H. right. exact I.
Qed.

Lemma lre_dfs_relabel (g : its) fuel : forall node visited path,
  lre_dfs (relabel f g) fuel (f node) (map f visited) (map f path) = map f (lre_dfs g fuel node visited path).
Proof.
  induction fuel as [|fu IH]; intros node visited path; simpl; [reflexivity|].
  rewrite (nbrs_relabel Hinj).
  apply (fold_map_rel
           (fun longest nb => if std0 g node nb && negb (LGraph.mem nb (node :: visited))
                              then let cur := lre_dfs g fu nb (node :: visited) (path ++ [nb]) in
                                   if (length longest <? length cur)%nat then cur else longest
                              else longest)
           (fun longest nb => if std0 (relabel f g) (f node) nb && negb (LGraph.mem nb (f node :: map f visited))
                              then let cur := lre_dfs (relabel f g) fu nb (f node :: map f visited) (map f path ++ [nb]) in
                                   if (length longest <? length cur)%nat then cur else longest
                              else longest)
           f (nbrs g node)).
  intros acc nb _. rewrite std0_relabel. change (f node :: map f visited) with (map f (node :: visited)). rewrite lmem_map.
  destruct (std0 g node nb && negb (LGraph.mem nb (node :: visited))); [|reflexivity]. cbv zeta.
  change (map f path ++ [f nb]) with (map f path ++ map f [nb]). rewrite <- map_app, IH, !map_length.
  destruct (length acc <? length (lre_dfs g fu nb (node :: visited) (path ++ [nb])))%nat; reflexivity.
Qed.

Definition lre_step (g : its) (st : list N * list N) (n : N) : list N * list N :=
  let '(vis, best) := st in
  if LGraph.mem n vis then st
  else let p := lre_dfs g (S (length (gnodes g))) n vis [n] in
       (p ++ vis, if (length best <? length p)%nat then p else best).
Definition mapst2 (st : list N * list N) : list N * list N := (map f (fst st), map f (snd st)).

Lemma lre_step_relabel (g : its) st n : lre_step (relabel f g) (mapst2 st) (f n) = mapst2 (lre_step g st n).
Proof.
  destruct st as [vis best]. unfold lre_step, mapst2. cbn [fst snd]. rewrite lmem_map.
  destruct (LGraph.mem n vis); [reflexivity|]. cbv zeta.
  assert (length (gnodes (relabel f g)) = length (gnodes g)) as -> by (unfold relabel; simpl; apply map_length).
  change [f n] with (map f [n]). rewrite lre_dfs_relabel, !map_length. cbn [fst snd]. rewrite map_app.
  destruct (length best <? length (lre_dfs g (S (length (gnodes g))) n vis [n]))%nat; reflexivity.
Qed.

Lemma lre_fold_relabel (g : its) L : forall st,
  fold_left (lre_step (relabel f g)) (map f L) (mapst2 st) = mapst2 (fold_left (lre_step g) L st).
Proof. induction L as [|n L IH]; intros st; cbn [map fold_left]; [reflexivity|]. rewrite lre_step_relabel. apply IH. Qed.

Theorem lre_relabel (g : its) rcn : lre (relabel f g) (map f rcn) = map f (lre g rcn).
Proof.
  change (lre (relabel f g) (map f rcn)) with (snd (fold_left (lre_step (relabel f g)) (map f rcn) (mapst2 ([], [])))).
  rewrite lre_fold_relabel. reflexivity.
Qed.

(** extract_k for every option value: 0, > 0, -1 (maximum radius), < -1 *)
Theorem extract_k_z_equivariant (g : its) k : extract_k_z (relabel f g) k = relabel f (extract_k_z g k).
Proof.
  unfold extract_k_z. destruct (k =? 0); [apply (rc_equivariant f Hinj)|].
  rewrite (rc_equivariant f Hinj), node_ids_relabel. destruct (k =? -1).
  - rewrite lre_relabel, map_length, (knn_map f Hinj). apply (induced_map f Hinj).
  - rewrite (knn_map f Hinj). apply (induced_map f Hinj).
Qed.
End LreEquiv.

Example C02_lre_equivariant_nonvacuous :
  lre ex_its (node_ids (get_rc ex_its)) <> [] /\
  lre (relabel (N.add 10) ex_its) (map (N.add 10) (node_ids (get_rc ex_its))) = map (N.add 10) (lre ex_its (node_ids (get_rc ex_its))) /\
  extract_k_z (relabel (N.add 10) ex_its) (-1) = relabel (N.add 10) (extract_k_z ex_its (-1)).
Proof.
  split; [vm_compute; discriminate|]. split; [apply lre_relabel|apply extract_k_z_equivariant]; intros a b; apply N.add_cancel_l.
Qed.

(** * the result is empty only when there is no centre atom (so the empty alternative of theorem 19 is not an out-of-fuel escape) *)
Lemma lre_as_fold (g : its) rcn : lre g rcn = snd (fold_left (lre_step g) rcn ([], [])).
Proof. reflexivity. Qed.

Lemma lre_step_best_nonempty (g : its) st n : snd st <> [] -> snd (lre_step g st n) <> [].
Proof.
  destruct st as [vis best]. unfold lre_step. cbn [snd]. intros Hb. destruct (LGraph.mem n vis); [exact Hb|]. cbv zeta. cbn [snd].
  destruct (length best <? length (lre_dfs g (S (length (gnodes g))) n vis [n]))%nat eqn:E; [|exact Hb].
  intros C. rewrite C in E. simpl in E. apply Nat.ltb_lt in E. lia.
Qed.

Theorem lre_nil_iff (g : its) rcn : lre g rcn = [] <-> rcn = [].
Proof.
  split; [|intros ->; reflexivity]. destruct rcn as [|n r]; [reflexivity|]. intros E. exfalso. rewrite lre_as_fold in E.
  cbn [fold_left] in E.
  assert (snd (lre_step g ([], []) n) <> []) as H0.
  { unfold lre_step. cbn [LGraph.mem existsb]. cbv zeta. cbn [snd].
    destruct (lre_dfs_spec g (S (length (gnodes g))) n [] [n]) as (ext & Ep & _). rewrite Ep. simpl. discriminate. }
  assert (forall L st, snd st <> [] -> snd (fold_left (lre_step g) L st) <> []) as H.
  { induction L as [|x L IH]; intros st Hs; [exact Hs|]. cbn [fold_left]. apply IH. apply lre_step_best_nonempty. exact Hs. }
  exact (H r _ H0 E).
Qed.

Example C02_lre_nil_nonvacuous : lre ex_its [] = [] /\ lre ex_its [7%N] = [7%N; 6%N; 5%N; 1%N].
Proof. vm_compute. split; reflexivity. Qed.

From SK Require Import proof.C02_Ctx.

(** the maximum-radius context (n_knn = -1) contains the whole extension path: the path has r atoms, starts in a centre atom and every
    step is a bond, so its i-th atom is within i < r bonds of the centre *)
Lemma zchain_walk (g : its) : forall ext n x, zchain g n ext -> In x ext -> exists m, (1 <= m <= length ext)%nat /\ walk g n x m.
Proof.
  induction ext as [|v r IH]; intros n x Z I; [destruct I|]. simpl in Z. destruct Z as [Sd Z].
  assert (adj g n v <> None) as Ad by (unfold std0 in Sd; destruct (adj g n v); [discriminate|discriminate]).
  destruct I as [<-|I].
  - exists 1%nat. split; [simpl; lia|]. econstructor; [constructor|exact Ad].
  - destruct (IH v x Z I) as (m & Hm & Wk). exists (S m). split; [simpl; lia|].
    clear -Wk Ad. induction Wk as [s|s u y m Wk IHw A]; [econstructor; [constructor|exact Ad]|]. econstructor; [apply IHw; exact Ad|exact A].
Qed.

Theorem lre_path_in_context (g : its) : wf g ->
  forall x, In x (lre g (node_ids (get_rc g))) -> In x (node_ids (extract_k_z g (-1))).
Proof.
  intros W x I. destruct (extract_k_z_minus1 g W) as [_ HN]. apply HN. clear HN.
  destruct (lre_path g (node_ids (get_rc g))) as [E|(n & ext & In_ & E & Z & Nd)]; [rewrite E in I; destruct I|].
  rewrite E in *. destruct I as [<-|I].
  - exists n, O. repeat split; [exact In_|simpl; lia|constructor].
  - destruct (zchain_walk g ext n x Z I) as (m & Hm & Wk). exists n, m. repeat split; [exact In_|simpl; lia|exact Wk].
Qed.

Example C02_lre_path_in_context_nonvacuous :
  lre ex_its (node_ids (get_rc ex_its)) = [1%N; 5%N; 6%N; 7%N] /\ In 7%N (node_ids (extract_k_z ex_its (-1))) /\ ~ In 7%N (node_ids (extract_k ex_its 2)).
Proof. vm_compute. split; [reflexivity|]. split; [auto 10|intuition discriminate]. Qed.

(** with a non-empty centre the maximum radius is at least 1: the n_knn = -1 context contains the radius-1 context *)
Theorem max_radius_contains_radius_1 (g : its) : wf g ->
  forall n, In n (node_ids (extract_k g 1)) -> In n (node_ids (extract_k_z g (-1))).
Proof.
  intros W n I. destruct (extract_k_z_minus1 g W) as [_ HN]. apply HN. clear HN.
  destruct (ctx_spec g W 1 (le_n _)) as (N1 & _ & _). apply N1 in I.
  destruct I as (s & m & Is & Hm & Wk).
  assert (lre g (node_ids (get_rc g)) <> []) as Hne by (intros E; apply lre_nil_iff in E; rewrite E in Is; destruct Is).
  exists s, m. repeat split; [exact Is| |exact Wk].
  destruct (lre g (node_ids (get_rc g))); [congruence|simpl; lia].
Qed.
