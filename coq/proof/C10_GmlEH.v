(** C10 — proofs, part 16: explicit_hydrogen=True exports of a graph without implicit hydrogens (a reaction centre as get_rc
    returns it: hcount dropped) read back to the same ITS as explicit_hydrogen=False exports. *)
From Coq Require Import String List NArith ZArith Bool Lia.
From SK Require Import lib.Tok lib.LGraph lib.StrJoin model.C10_Model proof.C10_Proof proof.C10_Views proof.C10_Build
  proof.C10_Copy proof.C10_GmlRead proof.C10_GmlWrite proof.C10_Hydrogen proof.C10_HRound.
Import ListNotations.
Local Open Scope Z_scope.

(** ** assembling the ITS from two synchronised sides (the last part of the proof of gml_pipeline, for any two graphs) *)
Lemma assemble c SLg SRg : IOK c ->
  (forall n, label SLg n = option_map (fun a => gnode_att n (tg_el (tG_of a)) (tg_ch (tG_of a))) (label c n)) ->
  (forall n, label SRg n = option_map (fun a => gnode_att n (tg_el (tG_of a)) (tg_ch (tH_of a))) (label c n)) ->
  (forall u v x, adj c u v = Some x ->
     (scal_order SLg u v = fst (ord_of x) /\ is_some (adj SLg u v) = (0 <? fst (ord_of x))) /\
     (scal_order SRg u v = snd (ord_of x) /\ is_some (adj SRg u v) = (0 <? snd (ord_of x)))) ->
  (forall u v, adj c u v = None -> adj SLg u v = None /\ adj SRg u v = None) ->
  let I' := its_construct SLg SRg (union_pairs SLg SRg) in
  (forall n, has_node I' n = has_node c n) /\
  (forall n a, label c n = Some a ->
     label I' n = Some (gml_node n (tg_el (tG_of a)) (tg_ch (tG_of a)) (tg_ch (tH_of a)))) /\
  (forall u v, adj I' u v = adj c u v).
Proof.
  intros Hok HL HR HS HN I'.
  assert (forall n a, label c n = Some a ->
            label I' n = Some (gml_node n (tg_el (tG_of a)) (tg_ch (tG_of a)) (tg_ch (tH_of a)))) as R2.
  { intros n a L. unfold I'.
    assert (exists b, assoc n (its_nodes SLg SRg) = Some b /\ a_am b = Some (Z.of_N n)) as (b & Eb & Hb).
    { rewrite its_nodes_assoc. cbv zeta. destruct (_ <=? _)%nat; [rewrite HL|rewrite HR]; rewrite L; simpl; eexists; split; reflexivity. }
    rewrite (its_construct_label _ _ _ n b Eb). unfold its_node, tg_of. rewrite HL, HR, L. simpl. rewrite Hb. reflexivity. }
  assert (forall u v, adj I' u v = adj c u v) as R3.
  { intros u v. unfold I'. rewrite its_construct_adj. destruct (adj c u v) as [x|] eqn:A.
    - destruct (HS u v x A) as [[S1 I1] [S2 I2]]. unfold its_d. rewrite S1, S2, I1, I2.
      destruct (iok_edge c u v x Hok A) as (a & b & -> & Oa & Ob & Hne & _). unfold ord_of. simpl.
      destruct (ord_ok_cases a Oa) as [->|[->|[->|[->| ->]]]]; destruct (ord_ok_cases b Ob) as [->|[->|[->|[->| ->]]]];
        simpl; try reflexivity. exfalso. destruct Hne; congruence.
    - destruct (HN u v A) as [-> ->]. reflexivity. }
  split; [|split; assumption].
  intros n. apply eq_true_iff_eq. split.
  - unfold I'. intros H. apply its_construct_has_node in H. destruct H as [H|[H|(w & H)]].
    + apply has_node_label in H. destruct H as [b Hb]. rewrite HL in Hb. unfold has_node. destruct (label c n); [reflexivity|discriminate].
    + apply has_node_label in H. destruct H as [b Hb]. rewrite HR in Hb. unfold has_node. destruct (label c n); [reflexivity|discriminate].
    + destruct (adj c n w) as [x|] eqn:A.
      * destruct (iok_edge c n w x Hok A) as (a & b & _ & _ & _ & _ & Hn & _). exact Hn.
      * destruct (HN n w A) as [E1 E2]. rewrite E1, E2 in H. destruct H; discriminate.
  - intros H. apply has_node_label in H. destruct H as [a La]. apply has_node_label. eexists. apply (R2 n a La).
Qed.

(** ** _synchronize_nodes_and_edges when every context edge is already in the side graph *)
Lemma fold_left_fix {A B} (f : A -> B -> A) l acc : (forall x, In x l -> f acc x = acc) -> fold_left f l acc = acc.
Proof. revert acc. induction l as [|x r IH]; intros acc H; simpl; [reflexivity|]. rewrite H by (left; reflexivity). apply IH. intros y Hy. apply H. right. exact Hy. Qed.

Lemma sync_side_sub (ctx side : gr) : gwf ctx -> (forall u v, adj ctx u v <> None -> adj side u v <> None) ->
  sync_side ctx side = fold_left (nstep snd) (gnodes ctx) side.
Proof.
  intros W Hsub. unfold sync_side. cbv zeta.
  change (fun acc (p : N * natt) => add_node acc (fst p) (snd p)) with (nstep snd).
  set (s1 := fold_left (nstep snd) (gnodes ctx) side).
  apply fold_left_fix. intros [[u v] x] Hin.
  assert (has_edge s1 u v = true) as E1; [|rewrite E1; reflexivity].
  unfold has_edge, adj, s1. rewrite fold_nstep_gedges.
  fold (adj side u v). pose proof (edges_iter_data ctx u v x W Hin) as A.
  destruct (adj side u v) eqn:E; [reflexivity|]. exfalso. apply (Hsub u v); [congruence|exact E].
Qed.
Lemma sync_label_sub (ctx side : gr) n : gwf ctx -> (forall u v, adj ctx u v <> None -> adj side u v <> None) ->
  label (sync_side ctx side) n =
  match label ctx n with
  | Some a => Some (match label side n with Some old => na_update a old | None => a end)
  | None => label side n
  end.
Proof. intros W H. rewrite sync_side_sub by assumption. rewrite fold_nstep_label by apply (gwf_nd _ W). reflexivity. Qed.
Lemma sync_adj_sub (ctx side : gr) u v : gwf ctx -> (forall u v, adj ctx u v <> None -> adj side u v <> None) ->
  adj (sync_side ctx side) u v = adj side u v.
Proof. intros W H. rewrite sync_side_sub by assumption. unfold adj. rewrite fold_nstep_gedges. reflexivity. Qed.

(** ** a context section that lists the unchanged atoms of c and, possibly, some of its unchanged bonds *)
Record ctx_like (c : gr) (ch : list N) (B : list gent) : Prop := {
  cl_gn : forall n, gn_find n (rev B) =
                    match label c n with Some a => if mem n ch then None else Some (node_label a) | None => None end;
  cl_ge : forall u v, ge_find u v (rev B) <> None -> dd c false u v <> None /\ dd c true u v <> None;
  cl_endp : forall n, endp n (rev B) = true -> label c n <> None }.

Definition sideB (B : list gent) (s : gr) (ch : list N) : gr := sync_side (parse_r (rev B)) (lftg s ch).

Lemma lftg_adj c j s ch u v : side_like c j s ->
  adj (lftg s ch) u v = option_map (fun x => edge_att (order_label_any (e_ord x) 2)) (dd c j u v).
Proof.
  intros SL. unfold lftg. rewrite parse_adj, side_entries_eq, rev_app_distr, ge_find_app.
  rewrite ge_find_nodes by (intros e He; exact (Nent_nodes _ _ _ He)).
  rewrite ge_find_edges_iter by apply (sl_wf _ _ _ SL). rewrite (sl_adj _ _ _ SL). destruct (dd c j u v); reflexivity.
Qed.
Lemma ctx_sub c j s ch B : side_like c j s -> ctx_like c ch B ->
  forall u v, adj (parse_r (rev B)) u v <> None -> adj (lftg s ch) u v <> None.
Proof.
  intros SL CL u v H. rewrite parse_adj in H. rewrite (lftg_adj c j s ch u v SL).
  assert (ge_find u v (rev B) <> None) as G by (destruct (ge_find u v (rev B)); [discriminate|simpl in H; congruence]).
  destruct (cl_ge _ _ _ CL u v G) as [D1 D2]. destruct j; [destruct (dd c true u v)|destruct (dd c false u v)]; simpl; congruence.
Qed.

Lemma sideB_adj c j s ch B u v : side_like c j s -> ctx_like c ch B ->
  adj (sideB B s ch) u v = option_map (fun x => edge_att (order_label_any (e_ord x) 2)) (dd c j u v).
Proof.
  intros SL CL. unfold sideB. rewrite sync_adj_sub; [apply (lftg_adj c j s ch u v SL)|apply parse_gwf|apply (ctx_sub c j s ch B SL CL)].
Qed.

Lemma sideB_label c j s ch B n : IOK c -> side_like c j s -> ctx_like c ch B ->
  (forall a, label c n = Some a -> elem_str (tg_el (T_of j a))) ->
  (forall a, label c n = Some a -> mem n ch = false -> a_el a = Some (tg_el (T_of j a)) /\ a_ch a = Some (tg_ch (T_of j a))) ->
  label (sideB B s ch) n = option_map (fun a => gnode_att n (tg_el (T_of j a)) (tg_ch (T_of j a))) (label c n).
Proof.
  intros Hok SL CL Hel HT. unfold sideB.
  rewrite sync_label_sub; [|apply parse_gwf|apply (ctx_sub c j s ch B SL CL)].
  rewrite (parse_label (rev B)), (cl_gn _ _ _ CL). unfold lftg. rewrite parse_label, (lft_gn c j s ch n SL).
  destruct (label c n) as [a|] eqn:L; simpl.
  - destruct (mem n ch) eqn:M.
    + rewrite node_att_label by (apply Hel; reflexivity). destruct (endp n (rev B)); simpl; reflexivity.
    + destruct (HT a eq_refl eq_refl) as [E1 E2]. unfold node_label. rewrite E1, E2. simpl.
      rewrite node_att_label by (apply Hel; reflexivity).
      match goal with |- context [endp n (rev (side_entries ?x ?y))] => destruct (endp n (rev (side_entries x y))) end; reflexivity.
  - destruct (endp n (rev B)) eqn:EB; [exfalso; apply (cl_endp _ _ _ CL n EB); exact L|].
    match goal with |- context [endp n ?l] => destruct (endp n l) eqn:E end; [|reflexivity]. exfalso.
    rewrite side_entries_eq, rev_app_distr, endp_app in E.
    rewrite endp_nodes in E by (intros e He; exact (Nent_nodes _ _ _ He)). simpl in E.
    apply endp_edges_iter in E; [|apply (sl_wf _ _ _ SL)]. apply has_node_label in E. destruct E as [b Hb].
    rewrite (sl_none _ _ _ SL n L) in Hb. discriminate.
Qed.

Theorem gml_pipeline_ctx c sL sR B : IOK c -> side_like c false sL -> side_like c true sR ->
  ctx_like c (find_changed sL sR) B ->
  let ch := find_changed sL sR in
  let I' := snd (gml_to_nx [(SLeft, side_entries sL ch); (SContext, B); (SRight, side_entries sR ch)]) in
  (forall n, has_node I' n = has_node c n) /\
  (forall n a, label c n = Some a ->
     label I' n = Some (gml_node n (tg_el (tG_of a)) (tg_ch (tG_of a)) (tg_ch (tH_of a)))) /\
  (forall u v, adj I' u v = adj c u v).
Proof.
  intros Hok SL SR CL ch I'.
  assert (I' = its_construct (sideB B sL ch) (sideB B sR ch) (union_pairs (sideB B sL ch) (sideB B sR ch))) as ->.
  { unfold I'. rewrite gml_to_nx_three. reflexivity. }
  apply (assemble c _ _ Hok).
  - intros n. apply (sideB_label c false sL ch B n Hok SL CL).
    + intros a L. destruct (iok_node c n a Hok L) as (e & ar & h & q & ar' & h' & q' & Ht & _ & _ & He).
      unfold T_of, tG_of. rewrite Ht. exact He.
    + intros a L _. destruct (iok_node c n a Hok L) as (e & ar & h & q & ar' & h' & q' & Ht & E1 & E2 & _).
      unfold T_of, tG_of. rewrite Ht. simpl. auto.
  - intros n. rewrite (sideB_label c true sR ch B n Hok SR CL).
    + destruct (label c n) as [a|] eqn:L; [|reflexivity]. simpl.
      destruct (iok_node c n a Hok L) as (e & ar & h & q & ar' & h' & q' & Ht & _).
      unfold T_of, tG_of, tH_of. rewrite Ht. reflexivity.
    + intros a L. destruct (iok_node c n a Hok L) as (e & ar & h & q & ar' & h' & q' & Ht & _ & _ & He).
      unfold T_of, tH_of. rewrite Ht. exact He.
    + intros a L M. unfold ch in M. rewrite (chg_mem c sL sR n a SL SR L) in M. apply negb_false_iff, Z.eqb_eq in M.
      destruct (iok_node c n a Hok L) as (e & ar & h & q & ar' & h' & q' & Ht & E1 & E2 & _).
      unfold T_of, tG_of, tH_of in *. rewrite Ht in *. simpl in *. subst q'. auto.
  - intros u v x A. destruct (iok_edge c u v x Hok A) as (a & b & -> & Oa & Ob & _).
    unfold scal_order. rewrite (sideB_adj c false sL ch B u v SL CL), (sideB_adj c true sR ch B u v SR CL).
    unfold dd. rewrite A. unfold ord_of. simpl. split.
    + destruct (ord_ok_cases a Oa) as [->|[->|[->|[->| ->]]]]; simpl; auto.
    + destruct (ord_ok_cases b Ob) as [->|[->|[->|[->| ->]]]]; simpl; auto.
  - intros u v A. rewrite (sideB_adj c false sL ch B u v SL CL), (sideB_adj c true sR ch B u v SR CL). unfold dd. rewrite A. auto.
Qed.

(** ** h_to_explicit on a graph without implicit hydrogens changes neither lookup *)
Lemma h_explicit_nohc (c : gr) : gwf c -> (forall n a, label c n = Some a -> cval a <= 0) ->
  let E := h_to_explicit c None false in
  node_ids E = node_ids c /\ (forall n, label E n = label c n) /\ (forall u v, adj E u v = adj c u v) /\ gwf E.
Proof.
  intros W Hc.
  assert (EInv c (copy c) (max_id c) []) as I0.
  { split; simpl; try (intros; contradiction).
    - rewrite app_nil_r. reflexivity.
    - constructor.
    - lia.
    - intros u v. apply adj_copy. exact W.
    - apply gwf_copy. exact W. }
  assert (lab_ok c (copy c) []) as L0.
  { intros n _. rewrite label_copy. destruct (label c n); reflexivity. }
  assert (cnt_ok c [] []) as C0 by (intros n a _; reflexivity).
  destruct (hexp_fold_inv c W (node_ids c) (copy c) (max_id c) [] [] I0 L0 C0 (gwf_nd c W)) as (P & IE & LE & CE).
  { intros n Hn. split; [exact Hn|intros []]. }
  cbv zeta in IE, LE, CE. intros E. unfold E. rewrite h_to_explicit_false. change (exp_nodes c None) with (node_ids c).
  set (E' := fst (fold_left hexp_step (node_ids c) (copy c, max_id c))) in *.
  assert (P = []) as ->.
  { destruct P as [|[h m] P']; [reflexivity|]. exfalso.
    destruct (ei_h _ _ _ _ IE h m (or_introl eq_refl)) as [_ Hm].
    apply has_node_in, has_node_label in Hm. destruct Hm as [a La].
    pose proof (CE m a La) as Cm. rewrite cnt_cons in Cm. simpl snd in Cm. rewrite N.eqb_refl in Cm.
    pose proof (Hc m a La). destruct (mem m _); [|discriminate]. destruct (cval a); simpl in Cm; try discriminate; lia. }
  assert (node_ids E' = node_ids c) as Eids by (rewrite (ei_ids _ _ _ _ IE); apply app_nil_r).
  split; [exact Eids|split; [|split; [|exact (ei_wf _ _ _ _ IE)]]].
  - intros n. destruct (in_dec N.eq_dec n (node_ids c)) as [Hn|Hn].
    + rewrite (LE n Hn). destruct (label c n) as [a|] eqn:La; [|reflexivity]. simpl.
      destruct (mem n _); [|reflexivity]. unfold upd. pose proof (Hc n a La). destruct (Z.ltb_spec 0 (cval a)); [lia|reflexivity].
    + assert (label c n = None) as -> by (apply has_node_false, not_true_is_false; intros H; apply has_node_in in H; contradiction).
      apply has_node_false, not_true_is_false. intros H. apply has_node_in in H. rewrite Eids in H. contradiction.
  - intros u v. rewrite (ei_adj _ _ _ _ IE). reflexivity.
Qed.

(** ** the context section of an explicit_hydrogen=True export *)
Definition Fedge (e : N * N * eatt) : list gent :=
  let '(u, v, x) := e in
  if match e_std x with Some s => s =? 0 | None => true end then [GEdge u v (order_label_any (e_ord x) 0)] else [].
Lemma context_entries_eh g ch :
  context_entries g ch true = flat_map (Nent (fun n => negb (mem n ch))) (gnodes g) ++ flat_map Fedge (edges_iter g).
Proof.
  unfold context_entries. f_equal. apply flat_map_ext. intros [n a]. unfold Nent. simpl. destruct (mem n ch); reflexivity.
Qed.
Lemma Fedge_edges l e : In e (rev (flat_map Fedge l)) -> is_gedge e.
Proof.
  rewrite <- in_rev, in_flat_map. intros ([[u v] x] & _ & H). unfold Fedge in H.
  destruct (match e_std x with Some s => s =? 0 | None => true end); [|destruct H]. destruct H as [<-|[]]. exact Logic.I.
Qed.

Lemma ctx_like_eh c K ch : IOK c -> gwf K -> (forall n, label K n = label c n) -> (forall u v, adj K u v = adj c u v) ->
  ctx_like c ch (context_entries K ch true).
Proof.
  intros Hok WK HL HA. rewrite context_entries_eh. split.
  - intros n. rewrite rev_app_distr, gn_find_app. rewrite gn_find_edges by (intros e He; exact (Fedge_edges _ _ He)).
    rewrite gn_find_sel by apply (gwf_nd _ WK). fold (label K n). rewrite HL.
    destruct (label c n); [destruct (mem n ch)|]; reflexivity.
  - intros u v G. rewrite rev_app_distr, ge_find_app in G.
    rewrite (ge_find_nodes u v (rev (flat_map (Nent _) _))) in G by (intros e He; exact (Nent_nodes _ _ _ He)).
    destruct (ge_find u v (rev (flat_map Fedge (edges_iter K)))) as [lab|] eqn:F; [|congruence]. clear G.
    apply ge_find_some_in in F. destruct F as (a & b & Hin & P). rewrite <- in_rev, in_flat_map in Hin.
    destruct Hin as ([[a' b'] x] & Hin & Hx). unfold Fedge in Hx.
    destruct (match e_std x with Some s => s =? 0 | None => true end) eqn:S; [|destruct Hx]. destruct Hx as [E|[]]. inversion E; subst.
    pose proof (edges_iter_data K a b x WK Hin) as A. rewrite HA in A.
    destruct (iok_edge c a b x Hok A) as (oa & ob & -> & Oa & Ob & Hne & _). simpl in S. apply Z.eqb_eq in S.
    assert (oa = ob) by lia. subst ob. unfold dd. rewrite <- (adj_pair c _ _ _ _ P), A. unfold ord_of. simpl.
    destruct (ord_ok_cases oa Oa) as [->|[->|[->|[->| ->]]]]; simpl; try (split; discriminate). exfalso. destruct Hne; congruence.
  - intros n E. rewrite rev_app_distr, endp_app in E.
    rewrite (endp_nodes n (rev (flat_map (Nent _) _))) in E by (intros e He; exact (Nent_nodes _ _ _ He)). rewrite orb_false_r in E.
    unfold endp in E. apply existsb_exists in E. destruct E as (e & Hin & He). rewrite <- in_rev, in_flat_map in Hin.
    destruct Hin as ([[a b] x] & Hin & Hx). unfold Fedge in Hx.
    destruct (match e_std x with Some s => s =? 0 | None => true end); [|destruct Hx]. destruct Hx as [<-|[]]. simpl in He.
    apply in_edges_from in Hin.
    assert (has_node K a = true /\ has_node K b = true) as [Ha Hb] by (destruct Hin as [H|H]; destruct (gwf_cl K WK _ _ _ H); auto).
    rewrite <- HL. apply orb_true_iff in He. rewrite !N.eqb_eq in He.
    destruct He as [<-|<-]; [apply has_node_label in Ha; destruct Ha as [y ->]|apply has_node_label in Hb; destruct Hb as [y ->]]; discriminate.
Qed.

Theorem gml_roundtrip_eh_iok c : IOK c -> (forall n a, label c n = Some a -> cval a <= 0) ->
  let I' := gml_to_its (its_to_gml c false false true) in
  (forall n, has_node I' n = has_node c n) /\
  (forall n a, label c n = Some a ->
     label I' n = Some (gml_node n (tg_el (tG_of a)) (tg_ch (tG_of a)) (tg_ch (tH_of a)))) /\
  (forall u v, adj I' u v = adj c u v).
Proof.
  intros Hok Hc. destruct (h_explicit_nohc c (iok_gwf c Hok) Hc) as (_ & KL & KA & KW). cbv zeta in KL, KA, KW.
  unfold gml_to_its, its_to_gml. rewrite its_decompose_sides by exact Hok. unfold nx_to_gml. cbv iota.
  apply (gml_pipeline_ctx c _ _ _ Hok (side_graph_like c false Hok) (side_graph_like c true Hok)).
  apply ctx_like_eh; assumption.
Qed.

Theorem gml_roundtrip_eh c : its_ok c = true -> hc_free c = true ->
  let I' := gml_to_its (its_to_gml c false false true) in
  (forall n, has_node I' n = has_node c n) /\
  (forall n a, label c n = Some a ->
     label I' n = Some (gml_node n (tg_el (tG_of a)) (tg_ch (tG_of a)) (tg_ch (tH_of a)))) /\
  (forall u v, adj I' u v = adj c u v).
Proof.
  intros H Hf. apply gml_roundtrip_eh_iok; [apply its_ok_IOK; exact H|].
  intros n a L. apply assoc_in in L. unfold hc_free in Hf. rewrite forallb_forall in Hf. specialize (Hf _ L). simpl in Hf.
  apply Z.leb_le in Hf. exact Hf.
Qed.

(** non-vacuity: a centre with an unchanged H-H-like bond kept by get_rc would carry a context edge; here the weakened
    bond 20-30 of ex_centre is changed, so add an unchanged one *)
Definition ex_centre_eh : gr :=
  LG (map (fun p : N * natt => (fst p, rc_attr (snd p))) (gnodes ex_centre))
     (gedges ex_centre ++ [(10%N, 40%N, EA (Some (OP 4 4)) (Some 0))]).
Definition ex_centre_eh' : gr :=
  LG (gnodes ex_centre_eh ++ [(40%N, rc_attr (ex_nd "S" 0 0 4))]) (gedges ex_centre_eh).
Example gml_roundtrip_eh_ex :
  its_ok ex_centre_eh' = true /\ hc_free ex_centre_eh' = true /\
  List.length (flat_map snd (its_to_gml ex_centre_eh' false false true)) = 13%nat /\
  List.length (flat_map snd (its_to_gml ex_centre_eh' false false false)) = 12%nat /\
  adj (gml_to_its (its_to_gml ex_centre_eh' false false true)) 10%N 40%N = Some (EA (Some (OP 4 4)) (Some 0)).
Proof. vm_compute. repeat split. Qed.
