(** C05 — part 15: the boolean [rewriting_okb] that the run function evaluates on every writing implies the premises
    of the set-level theorems: injective renumberings and [same_graph]. Stdlib lists. *)
From Coq Require Import List NArith ZArith Bool Arith Lia.
From SK Require Import lib.Tok lib.LGraph lib.Mono.
From SK Require Import model.C03_Model proof.C03_Proof.
From SK Require Import model.C05_Model proof.C05_Proof proof.C05_Order proof.C05_Set.
Import ListNotations.

Section WithThr.
Context {TH : Thr}.


Lemma label_none_notin {A B} (g : lgraph A B) u : ~ In u (node_ids g) -> label g u = None.
Proof. unfold label, node_ids. apply assoc_none_notin. Qed.

Lemma adj_closed {A B} (g : lgraph A B) u v x : closed_edgesb g = true -> LGraph.adj g u v = Some x ->
  In u (node_ids g) /\ In v (node_ids g).
Proof.
  unfold closed_edgesb. intros Hc Ha. rewrite forallb_forall in Hc.
  unfold LGraph.adj in Ha. destruct (find_edge_in _ _ _ _ Ha) as (p & q & I & Hp).
  specialize (Hc _ I). simpl in Hc. apply andb_prop in Hc. destruct Hc as [Hp1 Hq1].
  apply LGraph.mem_spec in Hp1, Hq1. unfold peq in Hp. apply orb_prop in Hp.
  destruct Hp as [Hp|Hp]; apply andb_prop in Hp; destruct Hp as [E1 E2]; apply N.eqb_eq in E1, E2; subst; tauto.
Qed.

Lemma opt_eqb_eq {A} (eqb : A -> A -> bool) (Heq : forall a b, eqb a b = true -> a = b) (x y : option A) :
  opt_eqb eqb x y = true -> x = y.
Proof. destruct x, y; simpl; try discriminate; [intros H; f_equal; apply Heq; exact H | reflexivity]. Qed.

Lemma same_graphb_ok {A B} (aeq : A -> A -> bool) (beq : B -> B -> bool)
      (Ha : forall a b, aeq a b = true -> a = b) (Hb : forall a b, beq a b = true -> a = b) (g g' : lgraph A B) :
  same_graphb aeq beq g g' = true -> same_graph g g'.
Proof.
  unfold same_graphb. intros H.
  repeat (apply andb_prop in H; let H' := fresh "C" in destruct H as [H H']).
  rewrite forallb_forall in C, C0, C3, C4.
  assert (Hsub : forall u, In u (node_ids g) -> In u (node_ids g')) by (intros u I; apply LGraph.mem_spec; apply C4; exact I).
  assert (Hsub' : forall u, In u (node_ids g') -> In u (node_ids g)) by (intros u I; apply LGraph.mem_spec; apply C3; exact I).
  split; [|split; [|split; [|split]]].
  - intros u. destruct (in_dec N.eq_dec u (node_ids g)) as [I|NI].
    + apply (opt_eqb_eq aeq Ha). apply C0. exact I.
    + rewrite (label_none_notin g u NI), (label_none_notin g' u); [reflexivity|]. intros I. apply NI. apply Hsub'. exact I.
  - intros u v.
    destruct (in_dec N.eq_dec u (node_ids g)) as [Iu|NIu]; [destruct (in_dec N.eq_dec v (node_ids g)) as [Iv|NIv]|].
    + apply (opt_eqb_eq beq Hb). specialize (C u Iu). rewrite forallb_forall in C. apply C. exact Iv.
    + destruct (LGraph.adj g u v) as [x|] eqn:E; [exfalso; apply NIv; exact (proj2 (adj_closed g u v x C2 E))|].
      destruct (LGraph.adj g' u v) as [x|] eqn:E'; [exfalso; apply NIv; apply Hsub'; exact (proj2 (adj_closed g' u v x C1 E'))|reflexivity].
    + destruct (LGraph.adj g u v) as [x|] eqn:E; [exfalso; apply NIu; exact (proj1 (adj_closed g u v x C2 E))|].
      destruct (LGraph.adj g' u v) as [x|] eqn:E'; [exfalso; apply NIu; apply Hsub'; exact (proj1 (adj_closed g' u v x C1 E'))|reflexivity].
  - intros u. split; [apply Hsub | apply Hsub'].
  - apply nodupb_NoDup. exact H.
  - apply nodupb_NoDup. exact C5.
Qed.

Lemma permb_inj (f : list (N * N)) : permb f = true -> inj (apply_map f).
Proof.
  unfold permb, injb. intros H. apply andb_prop in H. destruct H as [H Himg]. apply andb_prop in H. destruct H as [Hf Hs].
  apply nodupb_NoDup in Hf, Hs. rewrite forallb_forall in Himg.
  assert (Hin : forall u v, In (u, v) f -> apply_map f u = v)
    by (intros u v I; unfold apply_map; rewrite (assoc_nodup_in u f v Hf I); reflexivity).
  assert (Hout : forall u, ~ In u (map fst f) -> apply_map f u = u)
    by (intros u NI; unfold apply_map; rewrite (assoc_none_notin f u NI); reflexivity).
  assert (Hdom : forall u, In u (map fst f) -> exists v, In (u, v) f).
  { intros u I. apply in_map_iff in I. destruct I as ([u' v] & E & I). simpl in E. subst. eauto. }
  assert (Himg' : forall u v, In (u, v) f -> In v (map fst f)).
  { intros u v I. apply LGraph.mem_spec. apply Himg. change v with (snd (u, v)). apply in_map. exact I. }
  intros a b E.
  destruct (in_dec N.eq_dec a (map fst f)) as [Ia|NIa]; destruct (in_dec N.eq_dec b (map fst f)) as [Ib|NIb].
  - destruct (Hdom a Ia) as (va & Ha). destruct (Hdom b Ib) as (vb & Hb).
    rewrite (Hin a va Ha), (Hin b vb Hb) in E. subst vb. exact (nodup_snd_inj f a b va Hs Ha Hb).
  - exfalso. destruct (Hdom a Ia) as (va & Ha). rewrite (Hin a va Ha), (Hout b NIb) in E. rewrite <- E in NIb. apply NIb. exact (Himg' a va Ha).
  - exfalso. destruct (Hdom b Ib) as (vb & Hb). rewrite (Hout a NIa), (Hin b vb Hb) in E. rewrite E in NIa. apply NIa. exact (Himg' b vb Hb).
  - rewrite (Hout a NIa), (Hout b NIb) in E. exact E.
Qed.

Lemma Zeqb_eq (a b : Z) : Z.eqb a b = true -> a = b.
Proof. apply Z.eqb_eq. Qed.

(** what the run function checks on every writing *)
Lemma rewriting_okb_ok (host0 host : hostg) (tpl0 tpl : its) (pi sg : list (N * N)) :
  rewriting_okb host0 tpl0 (host, tpl, pi, sg) = true ->
  inj (apply_map pi) /\ inj (apply_map sg) /\
  same_graph (relabel (apply_map pi) host0) host /\ same_graph (relabel (apply_map sg) tpl0) tpl /\
  simple_edgesb (gedges tpl0) = true /\ simple_edgesb (gedges tpl) = true.
Proof.
  unfold rewriting_okb. intros H.
  apply andb_prop in H. destruct H as [H Hw2]. apply andb_prop in H. destruct H as [H Hw1].
  apply andb_prop in H. destruct H as [H Ht]. apply andb_prop in H. destruct H as [H Hh]. apply andb_prop in H. destruct H as [Hp Hs].
  split; [apply permb_inj; exact Hp|]. split; [apply permb_inj; exact Hs|]. split.
  - exact (same_graphb_ok nattr_eqb Z.eqb nattr_eqb_eq Zeqb_eq _ _ Hh).
  - split; [exact (same_graphb_ok inode_eqb iedge_eqb inode_eqb_eq iedge_eqb_eq _ _ Ht)|]. split; assumption.
Qed.

End WithThr.
