(** C10 — proofs, part 31: renumbering the atom maps of a molecule record (same atoms in the same order, same bonds, map number k
    replaced by sg k) renumbers the graph rsmi_to_graph builds: the pair is [renamed] in the sense of proof/C10_Renumber.v.  Hence
    the rule of a reaction whose atom maps were renumbered IN THE STRING is the renumbered rule (C10_rule_renumbering_records). *)
From Coq Require Import String List NArith ZArith Bool Lia.
From SK Require Import lib.Tok lib.LGraph lib.StrJoin model.C10_Model model.C10_Rxn proof.C10_Views proof.C10_Build proof.C10_Copy
  proof.C10_MolGraph proof.C10_Light proof.C10_MolOk proof.C10_Smart proof.C10_G2MSpec proof.C10_MolMapped proof.C10_Relabel proof.C10_Renumber.
Import ListNotations.
Local Open Scope Z_scope.


Lemma index_of_map_inj (s : N -> N) u l : forall k, (forall x, In x l -> s x = s u -> x = u) ->
  index_of (s u) (map s l) k = index_of u l k.
Proof.
  induction l as [|w t IH]; intros k H; [reflexivity|]. simpl. destruct (N.eqb_spec w u) as [->|Hne].
  - rewrite N.eqb_refl. reflexivity.
  - destruct (N.eqb_spec (s w) (s u)) as [E|_]; [exfalso; apply Hne, H; [left; reflexivity|exact E]|].
    apply IH. intros x Hx. apply H. right. exact Hx.
Qed.
Lemma NoDup_map_inj_back {A B} (f : A -> B) l : NoDup (map f l) -> forall a b, In a l -> In b l -> f a = f b -> a = b.
Proof.
  induction l as [|x r IH]; intros Hnd a b Ha Hb E; [destruct Ha|]. simpl in Hnd. inversion Hnd as [|? ? Hnot Hnd']; subst.
  destruct Ha as [<-|Ha]; destruct Hb as [<-|Hb]; try reflexivity.
  - exfalso. apply Hnot. rewrite E. apply in_map, Hb.
  - exfalso. apply Hnot. rewrite <- E. apply in_map, Ha.
  - apply IH; assumption.
Qed.

Lemma pos_mapped_all l : forallb pos_mapped l = true -> forallb mapped l = true.
Proof.
  rewrite !forallb_forall. intros H a Ha. specialize (H a Ha). unfold pos_mapped in H. unfold mapped. apply Z.ltb_lt in H.
  apply negb_true_iff, Z.eqb_neq. lia.
Qed.

Section Rec.
Variable sg : Z -> Z.
Variable m : rmol.
Hypothesis Hok : rdmol_ok m = true.
Hypothesis Hpos : forallb pos_mapped (fst m) = true.
Hypothesis Hok' : rdmol_ok (remap sg m) = true.
Hypothesis Hpos' : forallb pos_mapped (fst (remap sg m)) = true.
Let atoms := fst m.
Let m' := remap sg m.
Let Hfull := pos_mapped_all _ Hpos.
Let Hfull' := pos_mapped_all _ Hpos'.
Let G := mol_to_graph m true true.
Let G' := mol_to_graph m' true true.
Let ids := map fst (numT atoms).
Let ids' := map fst (numT (fst m')).
Let s := sN sg.

Lemma ids_eq : ids = map (fun a => Z.to_N (r_map a)) atoms.
Proof. unfold ids. rewrite (numT_full atoms Hfull), map_map. reflexivity. Qed.
Lemma ids'_eq : ids' = map s ids.
Proof.
  unfold ids', m'. rewrite (numT_full _ Hfull'), map_map. simpl. rewrite ids_eq. unfold remap. simpl fst. rewrite !map_map.
  apply map_ext_in. intros a Ha. unfold s, sN. simpl. pose proof Hpos as HP. rewrite forallb_forall in HP. specialize (HP a Ha). unfold pos_mapped in HP.
  apply Z.ltb_lt in HP. rewrite Z2N.id by lia. reflexivity.
Qed.
Lemma nd' : NoDup ids'.
Proof. destruct (ok_parts m' Hok') as (_ & H & _). exact H. Qed.
Lemma s_inj a b : In a ids -> In b ids -> s a = s b -> a = b.
Proof. apply NoDup_map_inj_back. rewrite <- ids'_eq. exact nd'. Qed.

Lemma node_ids_G : node_ids G = ids.
Proof. unfold node_ids, G. rewrite (G_gnodes_t m Hok Hfull). reflexivity. Qed.
Lemma node_ids_G' : node_ids G' = ids'.
Proof. unfold node_ids, G'. rewrite (G_gnodes_t m' Hok' Hfull'). reflexivity. Qed.

Theorem remap_renamed : renamed s G G'.
Proof.
  split.
  - intros a b Ha Hb. apply has_node_in in Ha, Hb. rewrite node_ids_G in Ha, Hb. apply s_inj; assumption.
  - intros k. rewrite has_node_in, node_ids_G', ids'_eq, in_map_iff. split.
    + intros (n & <- & Hn). exists n. split; [apply has_node_in; rewrite node_ids_G; exact Hn|reflexivity].
    + intros (n & Hn & ->). exists n. split; [reflexivity|]. apply has_node_in in Hn. rewrite node_ids_G in Hn. exact Hn.
  - intros n a La. unfold label, G in La. rewrite (G_gnodes_t m Hok Hfull), (numT_full (fst m) Hfull) in La. apply assoc_in in La.
    apply in_map_iff in La. destruct La as (x & E & Hx). injection E as <- <-.
    exists (atom_att (remap_atom sg x)). split.
    + unfold label, G'. rewrite (G_gnodes_t m' Hok' Hfull'). apply assoc_nodup_in; [exact nd'|].
      unfold m'. rewrite (numT_full _ Hfull'). apply in_map_iff. exists (remap_atom sg x). split.
      * f_equal. unfold s, sN. simpl. pose proof Hpos as HP. rewrite forallb_forall in HP. specialize (HP x Hx). unfold pos_mapped in HP.
        apply Z.ltb_lt in HP. rewrite Z2N.id by lia. reflexivity.
      * unfold remap. simpl. apply in_map, Hx.
    + repeat split.
  - intros u v Hu Hv. apply has_node_in in Hu, Hv. rewrite node_ids_G in Hu, Hv.
    unfold G, G'. rewrite (G_adj_t m Hok Hfull u v), (G_adj_t m' Hok' Hfull' (s u) (s v)). unfold mdT.
    change (map fst (numT (fst m))) with ids. change (map fst (numT (fst m'))) with ids'. rewrite ids'_eq.
    rewrite (index_of_map_inj s u ids 0%N) by (intros x Hx E; apply s_inj; assumption).
    rewrite (index_of_map_inj s v ids 0%N) by (intros x Hx E; apply s_inj; assumption).
    reflexivity.
Qed.
End Rec.

(** ** the rule of a reaction whose atom maps were renumbered in the string *)
Theorem rule_renumbering_records (sg : Z -> Z) (mr mp : rmol) (eo eo' : list (N * N)) (eh : bool) :
  rdmol_ok mr = true -> rdmol_ok mp = true -> forallb pos_mapped (fst mr) = true -> forallb pos_mapped (fst mp) = true ->
  rdmol_ok (remap sg mr) = true -> rdmol_ok (remap sg mp) = true ->
  forallb pos_mapped (fst (remap sg mr)) = true -> forallb pos_mapped (fst (remap sg mp)) = true ->
  let r := mol_to_graph mr true true in let p := mol_to_graph mp true true in
  let r' := mol_to_graph (remap sg mr) true true in let p' := mol_to_graph (remap sg mp) true true in
  balanced r p = true -> eo_covers r p eo = true -> balanced r' p' = true -> eo_covers r' p' eo' = true ->
  let A := gml_to_its (smart_to_gml r p eo true false eh) in
  let A' := gml_to_its (smart_to_gml r' p' eo' true false eh) in
  let s := sN sg in
  (forall k, has_node A' k = true <-> exists n, has_node A n = true /\ k = s n) /\
  (forall n e q q', label A n = Some (gml_node n e q q') -> label A' (s n) = Some (gml_node (s n) e q q')) /\
  (forall u v, has_node A u = true -> has_node A v = true -> adj A' (s u) (s v) = adj A u v).
Proof.
  intros Hr Hp Pr Pp Hr' Hp' Pr' Pp' r p r' p' Hb He Hb' He'.
  apply (rule_renumbering (sN sg) r p r' p' eo eo' eh); try assumption.
  - apply rsmi_graph_mol_ok, Hr.
  - apply rsmi_graph_mol_ok, Hp.
  - apply rsmi_graph_mol_ok, Hr'.
  - apply rsmi_graph_mol_ok, Hp'.
  - apply (remap_renamed sg mr Hr Pr Hr' Pr').
  - apply (remap_renamed sg mp Hp Pp Hp' Pp').
Qed.

(** non-vacuity: [CH3:5][O-:2] with every map number k replaced by k + 10 *)
Example remap_renamed_ex :
  rdmol_ok ex_mapped = true /\ forallb pos_mapped (fst ex_mapped) = true /\
  rdmol_ok (remap (fun k => k + 10) ex_mapped) = true /\ forallb pos_mapped (fst (remap (fun k => k + 10) ex_mapped)) = true /\
  node_ids (mol_to_graph ex_mapped true true) = [5%N; 2%N] /\
  node_ids (mol_to_graph (remap (fun k => k + 10) ex_mapped) true true) = [15%N; 12%N].
Proof. vm_compute. repeat split. Qed.
