(** C01 — the hypothesis [orders_pos] of the round trip is needed: a stored bond of order 0 (RDKit BondType.ZERO) is kept by
    construct as the pair (0, 0) but dropped by its_decompose (`if order_g > 0`) *)
From Coq Require Import List NArith ZArith Bool.
From SK Require Import lib.LGraph lib.C01_GraphLemmas model.C01_Model proof.C01_Proof.
Import ListNotations.
Local Open Scope Z_scope.

Definition ex_z : mgraph := LG [(1%N, ex_na 70%N 3 1); (2%N, ex_na 70%N 3 2)] [(1%N, 2%N, 0)].

Theorem order_zero_refuted :
  wf ex_z /\ same_nodes ex_z ex_z /\ ~ orders_pos ex_z /\
  adj (its_construct ex_z ex_z) 1%N 2%N = Some (IE 0 0 0) /\
  adj (fst (its_decompose (its_construct ex_z ex_z))) 1%N 2%N = None /\ adj ex_z 1%N 2%N = Some 0.
Proof.
  split.
  { apply wf_intro.
    - cbn. repeat constructor; cbn; intuition discriminate.
    - intros a b x I. cbn in I. destruct I as [I|[]]; inversion I; subst; cbn; intuition discriminate.
    - cbn. repeat constructor. }
  split; [intros n; tauto|]. split; [intros P; specialize (P 1%N 2%N 0 (or_introl eq_refl)); discriminate P|].
  repeat split; reflexivity.
Qed.
