(** C06 — non-vacuity examples for the trace theorems (section 7 of props/C06.v). *)
From Coq Require Import List NArith Bool Arith Lia.
From SK Require Import lib.LGraph lib.Mono model.C06_Model model.C06_Attrs model.C06_Trace
  proof.C06_Attrs proof.C06_AttrsEx proof.C06_Trace.
Import ListNotations.
Local Open Scope N_scope.

Definition H0 := project [] [] Hr.
Definition P0 := project [] [] Pr.
Definition E0 := monos_sel [] [] Hr Pr.

(** two monomorphisms exist; the loop is left by exhaustion (2), by max_results = 1 (1), by the threshold 0 (1 = 0 + 1) *)
Example ex_pulled :
  length (E0 (node_ids H0) (node_ids P0)) = 2%nat /\
  trace E0 (Cfg 0 0 5000 true false) H0 P0 = [([1; 2; 3; 4], [10; 11], 2)] /\
  trace E0 (Cfg 0 1 5000 true false) H0 P0 = [([1; 2; 3; 4], [10; 11], 1)] /\
  trace E0 (Cfg 0 0 0 true false) H0 P0 = [([1; 2; 3; 4], [10; 11], 1)] /\
  find E0 (Cfg 0 1 5000 true false) H0 P0 = [[(11, 1); (10, 2)]] /\
  find E0 (Cfg 0 0 0 true false) H0 P0 = [].
Proof. vm_compute. repeat split; reflexivity. Qed.

(** component-aware: only the host component {1,2,3} is large enough for the pattern; bt with strict_cc_count falls
    back to the whole-graph call after the component-aware search returned [] without any call *)
Example ex_trace_comp_bt :
  trace E0 (Cfg 1 0 5000 false false) H0 P0 = [([1; 2; 3], [10; 11], 2)] /\
  trace E0 (Cfg 1 0 5000 true false) H0 P0 = [] /\
  trace E0 (Cfg 2 0 5000 true false) H0 P0 = [([1; 2; 3; 4], [10; 11], 2)].
Proof. vm_compute. repeat split; reflexivity. Qed.

Example ex_trace_ok : call_ok E0 H0 P0 5000 ([1; 2; 3], [10; 11], 2).
Proof.
  apply (trace_ok E0 (Cfg 1 0 5000 false false) H0 P0). vm_compute. left. reflexivity.
Qed.

Example ex_closed : loop_n 2 5 (E0 (node_ids H0) (node_ids P0)) 0 = 2 /\ loop_n 0 0 (E0 (node_ids H0) (node_ids P0)) 0 = 1.
Proof. vm_compute. split; reflexivity. Qed.
