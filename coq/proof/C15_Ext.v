(** C15 (round 3) — proofs about the extended history language (model/C15_Ext.v).

    Contents
      1. RXNSide.from_any: the normalised side is the positive integer multiset of
         the positive counts given per label
      2. every [op2] keeps the store invariant; queries and edits of caller-held
         objects do not change any network; frame
      3. molecule labels: exact specifications of set_mol_map / assign_mol / get_mol
      4. coefficient edits through a returned edge
      5. stored reactions are kept by every [op2] except the ones that name them
      6. non-vacuity *)
From stdpp Require Import gmap strings sets pretty sorting.
From SK Require Import lib.Tok model.C15_Model model.C15_Ext proof.C15_Proof.
Local Open Scope string_scope.

(** * 1. normalisation *)

Definition weight (s : string) (it : item) : Z :=
  match it with
  | IPair s' c => if decide (s' = s) then Z.max 0 c else 0%Z
  | ILabel s' => if decide (s' = s ∧ s' ≠ "") then 1%Z else 0%Z
  end.
Definition total (s : string) (l : list item) : Z := foldr (λ it acc, (weight s it + acc)%Z) 0%Z l.

Lemma coef_bump acc s p x :
  coef (bump acc s p) x = (if decide (s = x) then coef acc x + Z.pos p else coef acc x)%Z.
Proof.
  unfold bump, coef, side in *. destruct (decide (s = x)) as [->|Hne].
  - rewrite lookup_insert. destruct (acc !! x); lia.
  - by rewrite lookup_insert_ne.
Qed.

Lemma normalize_items_acc l : ∀ acc x,
  coef (foldl (λ acc it, match it with
                         | IPair s c => if (0 <? c)%Z then bump acc s (Z.to_pos c) else acc
                         | ILabel s => if decide (s = "") then acc else bump acc s 1%positive
                         end) acc l) x = (coef acc x + total x l)%Z.
Proof.
  induction l as [|it l IH]; intros acc x; cbn [foldl]; [cbn; lia|].
  rewrite IH. change (total x (it :: l)) with (weight x it + total x l)%Z. destruct it as [s c|s]; cbn [weight].
  - destruct (0 <? c)%Z eqn:Hc.
    + apply Z.ltb_lt in Hc. rewrite coef_bump. destruct (decide (s = x)); [rewrite Z2Pos.id by lia|]; lia.
    + apply Z.ltb_ge in Hc. destruct (decide (s = x)); lia.
  - destruct (decide (s = "")) as [->|Hs].
    + destruct (decide _) as [[_ ?]|?]; [done|lia].
    + rewrite coef_bump. destruct (decide (s = x)) as [->|Hne].
      * rewrite decide_True by done. lia.
      * rewrite decide_False by (by intros [? _]). lia.
Qed.

Lemma coef_normalize_items l x : coef (normalize_items l) x = total x l.
Proof. unfold normalize_items. rewrite normalize_items_acc. unfold coef, side. rewrite lookup_empty. lia. Qed.

Lemma total_nonneg x l : (0 ≤ total x l)%Z.
Proof.
  induction l as [|it l IH]; [cbn; lia|]. change (total x (it :: l)) with (weight x it + total x l)%Z.
  destruct it as [s c|s]; cbn; repeat destruct (decide _); lia.
Qed.

(** a label is a key of the normalised side exactly when it received a positive count *)
Lemma normalize_items_lookup l x :
  normalize_items l !! x = if decide (0 < total x l)%Z then Some (Z.to_pos (total x l)) else None.
Proof.
  pose proof (coef_normalize_items l x) as H. pose proof (total_nonneg x l). unfold coef in H.
  destruct (normalize_items l !! x) as [p|] eqn:E.
  - rewrite decide_True by lia. rewrite <- H. by rewrite Pos2Z.id.
  - rewrite decide_False by lia. done.
Qed.

(** the pair form used by the old history language is the all-pairs case *)
Lemma normalize_as_items l : normalize l = normalize_items ((λ p, IPair p.1 p.2) <$> l).
Proof.
  unfold normalize, normalize_items. generalize (∅ : side).
  induction l as [|[s c] l IH]; intros acc; cbn; [done|]. rewrite <- IH. unfold bump. done.
Qed.

(** * 2. the invariant under every [op2] *)

(** replacing a stored reaction by one with the same rule and the same key sets *)
Lemma replace_same_keys_Inv s e rx rx' :
  Inv s → edges s !! e = Some rx →
  r_rule rx' = r_rule rx → dom (r_lhs rx') = dom (r_lhs rx) → dom (r_rhs rx') = dom (r_rhs rx) →
  Inv (Net (species s) (<[ e := rx' ]> (edges s)) (order s) (s_in s) (s_out s) (counters s) (mol s) (kept s)).
Proof.
  intros HI He Hr Hl Hrr.
  assert (Hlk : ∀ e0 r0, <[e := rx']> (edges s) !! e0 = Some r0 →
                 ∃ r1, edges s !! e0 = Some r1 ∧ r_rule r0 = r_rule r1 ∧
                       dom (r_lhs r0) = dom (r_lhs r1) ∧ dom (r_rhs r0) = dom (r_rhs r1)).
  { intros e0 r0. destruct (decide (e0 = e)) as [->|Hne].
    - rewrite lookup_insert. intros [= <-]. eauto.
    - rewrite lookup_insert_ne by done. eauto. }
  assert (Hlk' : ∀ e0 r1, edges s !! e0 = Some r1 →
                 ∃ r0, <[e := rx']> (edges s) !! e0 = Some r0 ∧ r_rule r0 = r_rule r1 ∧
                       dom (r_lhs r0) = dom (r_lhs r1) ∧ dom (r_rhs r0) = dom (r_rhs r1)).
  { intros e0 r1 H1. destruct (decide (e0 = e)) as [->|Hne].
    - rewrite lookup_insert. simplify_eq. eauto.
    - rewrite lookup_insert_ne by done. eauto. }
  split; cbn.
  - intros x. rewrite (inv_in _ HI). apply set_eq. intros e0. rewrite !elem_of_producers. split.
    + intros (r1 & H1 & Hx). destruct (Hlk' _ _ H1) as (r0 & ? & _ & _ & Hd). exists r0. by rewrite Hd.
    + intros (r0 & H0 & Hx). destruct (Hlk _ _ H0) as (r1 & ? & _ & _ & Hd). exists r1. by rewrite <- Hd.
  - intros x. rewrite (inv_out _ HI). apply set_eq. intros e0. rewrite !elem_of_consumers. split.
    + intros (r1 & H1 & Hx). destruct (Hlk' _ _ H1) as (r0 & ? & _ & Hd & _). exists r0. by rewrite Hd.
    + intros (r0 & H0 & Hx). destruct (Hlk _ _ H0) as (r1 & ? & _ & Hd & _). exists r1. by rewrite <- Hd.
  - intros x (e0 & r0 & H0 & Hx). destruct (Hlk _ _ H0) as (r1 & ? & _ & Hd1 & Hd2).
    apply (inv_occ _ HI). exists e0, r1. split; [done|]. unfold rxn_species in *. by rewrite <- Hd1, <- Hd2.
  - intros x Hx. destruct (inv_sp _ HI x Hx) as [(e0 & r1 & H1 & Hx')|?]; [|by right].
    left. destruct (Hlk' _ _ H1) as (r0 & ? & _ & Hd1 & Hd2). exists e0, r0. split; [done|].
    unfold rxn_species in *. by rewrite Hd1, Hd2.
  - apply HI.
  - apply HI.
  - intros e0. rewrite (inv_order _ HI). destruct (decide (e0 = e)) as [->|Hne].
    + rewrite lookup_insert, He. split; eauto.
    + by rewrite lookup_insert_ne.
  - intros e0 r0 H0. destruct (Hlk _ _ H0) as (r1 & H1 & _ & Hd1 & Hd2).
    pose proof (inv_nonempty _ HI _ _ H1) as Hne. apply rxn_empty_false in Hne. apply rxn_empty_false.
    unfold rxn_species in *. by rewrite Hd1, Hd2.
  - intros e0 r0 H0. destruct (Hlk _ _ H0) as (r1 & H1 & Hru & _). rewrite Hru. by eapply (inv_rule _ HI).
Qed.

Lemma side_set_g_dom sd x c : dom (side_set_g sd x c) = dom sd.
Proof.
  unfold side_set_g, side_set, coef_edit. destruct (decide _) as [[Hx Hc]|]; [|done].
  destruct (c <=? 0)%Z eqn:E; [apply Z.leb_le in E; lia|].
  unfold side in *. rewrite dom_insert_L. set_solver.
Qed.
Lemma side_incr_g_dom sd x b : dom (side_incr_g sd x b) = dom sd.
Proof.
  unfold side_incr_g, side_incr, side_set, coef_edit. destruct (decide _) as [[Hx Hc]|]; [|done].
  destruct (_ <=? 0)%Z eqn:E; [apply Z.leb_le in E; lia|].
  unfold side in *. rewrite dom_insert_L. set_solver.
Qed.

Lemma edit_side_Inv s e lhs f :
  (∀ sd, dom (f sd) = dom sd) → Inv s → Inv (edit_side s e lhs f).1.
Proof.
  intros Hf HI. unfold edit_side. destruct (edges s !! e) as [rx|] eqn:He; [|done]. cbn.
  apply (replace_same_keys_Inv s e rx); [done|done|..]; destruct lhs; cbn; try done; apply Hf.
Qed.

Lemma merge_raw_one_Inv prefix acc re : Inv acc.1 → Inv (merge_raw_one prefix acc re).1.
Proof.
  destruct acc as [s [er|]]; [done|]. cbn [fst]. intros HI. unfold merge_raw_one.
  destruct re as [[[eid rule] l] r]. destruct (prefix || _).
  - destruct (next_id _ _) as [[c e']|]; [|done].
    pose proof (add_Inv (set_counters s (<[rule:=c]> (counters s)))
                        (normalize_items l) (normalize_items r) rule (Some e')) as H.
    destruct (add _ _ _ _ _) as [[s2 er] ?]. cbn [fst] in *. by apply H, set_counters_Inv.
  - pose proof (add_Inv s (normalize_items l) (normalize_items r) rule eid) as H.
    destruct (add _ _ _ _ _) as [[s2 er] ?]. cbn [fst] in *. by apply H.
Qed.

Lemma merge_raw_Inv s es prefix : Inv s → Inv (merge_raw s es prefix).1.
Proof.
  intros HI. unfold merge_raw.
  assert (H : Inv (s, @None err).1) by done. revert H. generalize (s, @None err).
  induction es as [|p l IH]; intros acc H; cbn; [done|].
  apply IH, merge_raw_one_Inv, H.
Qed.

(** the old history language is embedded unchanged *)
Lemma step2_base w o : nets (step2 w (OBase o)).1.1 = (step (nets w) o).1 ∧ (step2 w (OBase o)).1.2 = (step (nets w) o).2
                       ∧ pool (step2 w (OBase o)).1.1 = pool w.
Proof.
  destruct o; cbn [step2 step].
  - destruct (add _ _ _ _ _) as [[s er] ?]. done.
  - destruct (remove_rxn _ _); done.
  - destruct (remove_species _ _ _); done.
  - destruct (merge _ _ _); done.
  - done.
  - destruct (assign_mol _ _ _); done.
  - destruct (set_mol_map _ _ _ _); done.
Qed.

Definition world_of (w : world2) (o : op2) : world2 := (step2 w o).1.1.

Lemma step2_Inv w o : Forall Inv (nets w) → Forall Inv (nets (step2 w o).1.1).
Proof.
  intros Hw. destruct o as [o|i l r rule eid|i j e rule eid|k l|k x c|i kl kr rule eid|i es p|i e lhs x c|i e lhs x b|i q|k' l'];
    [destruct (step2_base w o) as (-> & _); by apply step_Inv|cbn [step2]..].
  - pose proof (add_Inv (getn (nets w) i) (normalize_items l) (normalize_items r) rule eid (getn_Inv _ i Hw)) as H.
    destruct (add _ _ _ _ _) as [[s er] ?]. cbn. by apply Forall_insert.
  - destruct (edges (getn (nets w) j) !! e) as [rx|]; [|done].
    pose proof (add_Inv (getn (nets w) i) (r_lhs rx) (r_rhs rx) rule eid (getn_Inv _ i Hw)) as H.
    destruct (add _ _ _ _ _) as [[s er] ?]. cbn. by apply Forall_insert.
  - done.
  - done.
  - pose proof (add_Inv (getn (nets w) i) (getp (pool w) kl) (getp (pool w) kr) rule eid (getn_Inv _ i Hw)) as H.
    destruct (add _ _ _ _ _) as [[s er] ?]. cbn. by apply Forall_insert.
  - pose proof (merge_raw_Inv (getn (nets w) i) es p (getn_Inv _ i Hw)) as H.
    destruct (merge_raw _ _ _) as [s er]. cbn. by apply Forall_insert.
  - pose proof (edit_side_Inv (getn (nets w) i) e lhs (λ sd, side_set_g sd x c)
                  (λ sd, side_set_g_dom sd x c) (getn_Inv _ i Hw)) as H.
    destruct (edit_side _ _ _ _) as [s er]. cbn. by apply Forall_insert.
  - pose proof (edit_side_Inv (getn (nets w) i) e lhs (λ sd, side_incr_g sd x b)
                  (λ sd, side_incr_g_dom sd x b) (getn_Inv _ i Hw)) as H.
    destruct (edit_side _ _ _ _) as [s er]. cbn. by apply Forall_insert.
  - done.
  - done.
Qed.

Lemma run2_Inv ops : ∀ w, Forall Inv (nets w) → Forall Inv (nets (fold_left (λ w o, (step2 w o).1.1) ops w)).
Proof. induction ops as [|o ops IH]; intros w Hw; cbn; [done|]. by apply IH, step2_Inv. Qed.

Lemma reachable2_Inv n k ops :
  Forall Inv (nets (fold_left (λ w o, (step2 w o).1.1) ops (init_world2 n k))).
Proof. apply run2_Inv. cbn. apply init_world_Inv. Qed.

(** which network an [op2] may change; queries and edits of caller-held objects: none *)
Definition target2 (o : op2) : option nat :=
  match o with
  | OBase o' => Some (target o')
  | OAddItems i _ _ _ _ | OAddFrom i _ _ _ _ | OAddPool i _ _ _ _ | OMergeRaw i _ _
  | OSideSet i _ _ _ _ | OSideIncr i _ _ _ _ => Some i
  | OPoolNew _ _ | OPoolEdit _ _ _ | OQuery _ _ | OPoolUpdate _ _ => None
  end.

Lemma step2_frame w o k : target2 o ≠ Some k → getn (nets (step2 w o).1.1) k = getn (nets w) k.
Proof.
  intros Hk. destruct o as [o|i l r rule eid|i j e rule eid|k' l|k' x c|i kl kr rule eid|i es p|i e lhs x c|i e lhs x b|i q|k' l'];
    [destruct (step2_base w o) as (-> & _); apply step_frame; cbn in Hk; congruence|cbn [step2 target2] in *..].
  - destruct (add _ _ _ _ _) as [[s er] ?]. cbn. apply getn_setn_ne. congruence.
  - destruct (edges _ !! e); [|done]. destruct (add _ _ _ _ _) as [[s er] ?]. cbn. apply getn_setn_ne. congruence.
  - done.
  - done.
  - destruct (add _ _ _ _ _) as [[s er] ?]. cbn. apply getn_setn_ne. congruence.
  - destruct (merge_raw _ _ _) as [s er]. cbn. apply getn_setn_ne. congruence.
  - destruct (edit_side _ _ _ _) as [s er]. cbn. apply getn_setn_ne. congruence.
  - destruct (edit_side _ _ _ _) as [s er]. cbn. apply getn_setn_ne. congruence.
  - done.
  - done.
Qed.

(** a query returns the world it was asked in; an edit of a caller-held side
    object changes no network (the store owns copies of what it was given) *)
Lemma query_pure w i q : (step2 w (OQuery i q)).1.1 = w ∧ (step2 w (OQuery i q)).1.2 = None.
Proof. done. Qed.
Lemma pool_edit_pure w k x c : nets (step2 w (OPoolEdit k x c)).1.1 = nets w.
Proof. done. Qed.
Lemma pool_new_pure w k l : nets (step2 w (OPoolNew k l)).1.1 = nets w.
Proof. done. Qed.
Lemma pool_update_pure w k l : nets (step2 w (OPoolUpdate k l)).1.1 = nets w.
Proof. done. Qed.

(** RXNSide.update adds the normalised counts *)
Lemma coef_union_with (m1 m2 : gmap string positive) x :
  coef (union_with (λ p q, Some (p + q)%positive) m1 m2) x = (coef m1 x + coef m2 x)%Z.
Proof. unfold coef, side. rewrite lookup_union_with. destruct (m1 !! x), (m2 !! x); cbn; lia. Qed.
Lemma coef_side_update sd l x : coef (side_update sd l) x = (coef sd x + total x l)%Z.
Proof. unfold side_update. by rewrite coef_union_with, coef_normalize_items. Qed.

(** * 3. molecule labels *)

Definition same_store (s s' : net) : Prop :=
  species s' = species s ∧ edges s' = edges s ∧ order s' = order s ∧ s_in s' = s_in s ∧
  s_out s' = s_out s ∧ counters s' = counters s ∧ kept s' = kept s.

Lemma assign_mol_spec s x m s' er :
  assign_mol s x m = (s', er) →
  (er = None ∧ x ∈ species s ∧ same_store s s' ∧ mol s' = <[ x := m ]> (mol s)) ∨
  (er = Some KeyError ∧ x ∉ species s ∧ s' = s).
Proof.
  unfold assign_mol. destruct (decide _); intros [= <- <-]; [left|right]; done.
Qed.

(** the label table after a fold of set_mol_map: later entries win, entries for
    absent names are ignored *)
Lemma set_mol_fold (S : gset string) mp : ∀ m0 : gmap string string,
  foldl (λ acc p, if decide (p.1 ∈ S) then <[ p.1 := p.2 ]> acc else acc) m0 mp =
  list_to_map (reverse (filter (λ p, p.1 ∈ S) mp)) ∪ m0.
Proof.
  induction mp as [|p mp IH]; intros m0; cbn [foldl].
  - by rewrite filter_nil, reverse_nil, list_to_map_nil, (left_id_L ∅ (∪)).
  - rewrite IH. rewrite filter_cons. destruct (decide (p.1 ∈ S)) as [Hp|Hp]; [|done].
    rewrite reverse_cons, list_to_map_app. destruct p as [x m]. cbn [fst snd].
    rewrite list_to_map_cons, list_to_map_nil, insert_empty.
    rewrite insert_union_singleton_l. by rewrite (assoc_L (∪)).
Qed.

Lemma forallb_false_ex {A} (f : A → bool) l : forallb f l = false → ∃ x, x ∈ l ∧ f x = false.
Proof.
  induction l as [|a l IH]; cbn; [done|]. destruct (f a) eqn:E; cbn.
  - intros (x & ? & ?)%IH. exists x. split; [by right|done].
  - intros _. exists a. split; [by left|done].
Qed.
Lemma forallb_true_all {A} (f : A → bool) l : forallb f l = true → ∀ x, x ∈ l → f x = true.
Proof. rewrite forallb_forall. intros H x Hx. apply H. by apply elem_of_list_In. Qed.

Lemma set_mol_map_spec s mp strict clear s' er :
  set_mol_map s mp strict clear = (s', er) →
  (er = Some KeyError ∧ s' = s ∧ strict = true ∧ ∃ p, p ∈ mp ∧ p.1 ∉ species s) ∨
  (er = None ∧ (strict = true → ∀ p, p ∈ mp → p.1 ∈ species s) ∧ same_store s s' ∧
   mol s' = list_to_map (reverse (filter (λ p, p.1 ∈ species s) mp)) ∪ (if clear then ∅ else mol s)).
Proof.
  unfold set_mol_map. destruct (strict && _) eqn:Hb; intros [= <- <-].
  - left. apply andb_true_iff in Hb as [-> Hb]. split_and!; try done.
    apply negb_true_iff in Hb. apply forallb_false_ex in Hb as (p & Hin & Hp). exists p. split; [done|].
    by apply bool_decide_eq_false in Hp.
  - right. split_and!; try done.
    + intros ->. cbn in Hb. apply negb_false_iff in Hb.
      intros p Hp. pose proof (forallb_true_all _ _ Hb p Hp) as H. by apply bool_decide_eq_true in H.
    + cbn. apply set_mol_fold.
Qed.

(** pointwise reading: the label of [x] after set_mol_map *)
Lemma set_mol_map_lookup s mp strict clear s' x :
  set_mol_map s mp strict clear = (s', None) →
  mol s' !! x =
    match (list_to_map (reverse (filter (λ p, p.1 ∈ species s) mp)) : gmap string string) !! x with
    | Some m => Some m
    | None => if clear then None else mol s !! x
    end.
Proof.
  intros H. apply set_mol_map_spec in H as [(? & _)|(_ & _ & _ & ->)]; [done|].
  rewrite lookup_union. destruct (list_to_map _ !! x) as [m|]; cbn.
  - by destruct ((if clear then ∅ else mol s) !! x).
  - destruct clear; [by rewrite lookup_empty|]. by destruct (mol s !! x).
Qed.

(** labels are stored exactly for present species: a name that is not a present
    species — in particular the id of a stored reaction — never gets a label, and
    strict=True rejects it *)
Lemma set_mol_map_absent s mp strict clear s' er x :
  Inv s → set_mol_map s mp strict clear = (s', er) → x ∉ species s →
  mol s' !! x = None ∧ (strict = true → x ∈ mp.*1 → er = Some KeyError).
Proof.
  intros HI H Hx. pose proof (inv_mol _ HI) as Hm.
  assert (Hn : mol s !! x = None) by (apply not_elem_of_dom; set_solver).
  destruct (set_mol_map_spec _ _ _ _ _ _ H) as [(-> & -> & _)|(-> & Hall & _ & Hmol)].
  - done.
  - split.
    + rewrite Hmol, lookup_union.
      assert ((list_to_map (reverse (filter (λ p, p.1 ∈ species s) mp)) : gmap string string) !! x = None) as ->.
      { apply not_elem_of_list_to_map_1. rewrite elem_of_list_fmap. intros ([y m] & -> & Hin).
        apply elem_of_reverse, elem_of_list_filter in Hin as [? _]. done. }
      destruct clear; [by rewrite lookup_empty|by rewrite Hn].
    + intros -> Hin. apply elem_of_list_fmap in Hin as (p & -> & Hp). destruct Hx. by apply Hall.
Qed.

Lemma set_mol_map_present s mp strict clear s' x m :
  set_mol_map s mp strict clear = (s', None) → x ∈ species s →
  (∃ l1 l2, mp = (l1 ++ (x, m) :: l2)%list ∧ x ∉ l2.*1) → mol s' !! x = Some m.
Proof.
  intros H Hx (l1 & l2 & -> & Hl2). rewrite (set_mol_map_lookup _ _ _ _ _ x H).
  rewrite filter_app, filter_cons, decide_True by done. rewrite reverse_app, reverse_cons.
  rewrite <- (assoc_L (++)). cbn [app].
  assert ((list_to_map ((reverse (filter (λ p, p.1 ∈ species s) l2) ++ [(x, m)]) ++
                       reverse (filter (λ p, p.1 ∈ species s) l1)) : gmap string string) !! x = Some m) as Hl.
  { rewrite list_to_map_app, lookup_union, list_to_map_app, lookup_union.
    assert ((list_to_map (reverse (filter (λ p, p.1 ∈ species s) l2)) : gmap string string) !! x = None) as ->.
    { apply not_elem_of_list_to_map_1. rewrite elem_of_list_fmap. intros ([y m'] & -> & Hin).
      apply elem_of_reverse, elem_of_list_filter in Hin as [_ Hin]. apply Hl2.
      apply elem_of_list_fmap. by exists (y, m'). }
    cbn. rewrite lookup_insert. cbn. by destruct (_ !! x). }
  rewrite <- (assoc_L (++)) in Hl. cbn [app] in Hl. by rewrite Hl.
Qed.

Lemma get_mol_spec s x :
  match get_mol s x with
  | inr m => x ∈ species s ∧ mol s !! x = Some m
  | inl QKeyError => x ∉ species s
  | inl QNoLabel => x ∈ species s ∧ mol s !! x = None
  | inl QInternal => False
  end.
Proof. unfold get_mol. destruct (decide _); [|done]. by destruct (mol s !! x). Qed.

(** a label read back right after it was attached — whatever its value *)
Lemma get_after_assign s x m s' :
  assign_mol s x m = (s', None) → get_mol s' x = inr m.
Proof.
  intros H. apply assign_mol_spec in H as [(_ & Hx & (Hsp & _) & Hm)|(? & _)]; [|done].
  unfold get_mol. rewrite Hsp, decide_True by done. by rewrite Hm, lookup_insert.
Qed.

(** * 4. coefficient edits through a returned edge *)

Lemma coef_side_set_g sd x c y :
  coef (side_set_g sd x c) y = if decide (y = x ∧ coef_edit sd x c) then c else coef sd y.
Proof.
  unfold side_set_g, side_set. destruct (decide (coef_edit sd x c)) as [[Hx Hc]|Hno].
  - destruct (c <=? 0)%Z eqn:E; [apply Z.leb_le in E; lia|]. unfold coef, side in *.
    destruct (decide (y = x)) as [->|Hne].
    + rewrite decide_True by (split; [done|by split]). rewrite lookup_insert. by rewrite Z2Pos.id.
    + rewrite decide_False by (by intros [? _]). by rewrite lookup_insert_ne.
  - rewrite decide_False; [done|]. by intros [_ ?].
Qed.

Lemma coef_side_incr_g sd x b y :
  coef (side_incr_g sd x b) y =
  if decide (y = x ∧ coef_edit sd x (coef sd x + b)) then (coef sd x + b)%Z else coef sd y.
Proof.
  unfold side_incr_g, side_incr, side_set. destruct (decide (coef_edit sd x _)) as [[Hx Hc]|Hno].
  - destruct (_ <=? 0)%Z eqn:E; [apply Z.leb_le in E; lia|]. unfold coef, side in *.
    destruct (decide (y = x)) as [->|Hne].
    + rewrite decide_True by (split; [done|by split]). rewrite lookup_insert. by rewrite Z2Pos.id.
    + rewrite decide_False by (by intros [? _]). by rewrite lookup_insert_ne.
  - rewrite decide_False; [done|]. by intros [_ ?].
Qed.

Lemma edit_side_spec s e lhs f s' er :
  edit_side s e lhs f = (s', er) →
  (er = Some KeyError ∧ edges s !! e = None ∧ s' = s) ∨
  (er = None ∧ ∃ rx, edges s !! e = Some rx ∧
     edges s' = <[ e := if lhs then Rxn (r_rule rx) (f (r_lhs rx)) (r_rhs rx)
                        else Rxn (r_rule rx) (r_lhs rx) (f (r_rhs rx)) ]> (edges s) ∧
     species s' = species s ∧ order s' = order s ∧ s_in s' = s_in s ∧ s_out s' = s_out s ∧
     mol s' = mol s ∧ kept s' = kept s ∧ counters s' = counters s).
Proof.
  unfold edit_side. destruct (edges s !! e) as [rx|] eqn:He; intros [= <- <-]; [right|by left].
  split; [done|]. exists rx. by destruct lhs.
Qed.

(** * 5. stored reactions under [op2] *)

Lemma add_sub s l r rule eid : edges s ⊆ edges (add s l r rule eid).1.1.
Proof.
  destruct (add s l r rule eid) as [[s' er] e] eqn:Ha. cbn. apply add_spec in Ha as [_ Ha].
  destruct er as [er|].
  - by destruct Ha as (-> & _).
  - destruct Ha as (Hn & _ & -> & _). by apply insert_subseteq.
Qed.

Lemma merge_raw_one_sub prefix s re : edges s ⊆ edges (merge_raw_one prefix (s, None) re).1.
Proof.
  unfold merge_raw_one. destruct re as [[[eid rule] l] r]. destruct (prefix || _).
  - destruct (next_id _ _) as [[c e']|]; [|done].
    pose proof (add_sub (set_counters s (<[rule:=c]> (counters s))) (normalize_items l) (normalize_items r) rule (Some e')) as H.
    destruct (add _ _ _ _ _) as [[s2 er] ?]. done.
  - pose proof (add_sub s (normalize_items l) (normalize_items r) rule eid) as H.
    destruct (add _ _ _ _ _) as [[s2 er] ?]. done.
Qed.

Lemma merge_raw_sub s es prefix : edges s ⊆ edges (merge_raw s es prefix).1.
Proof.
  unfold merge_raw.
  assert (H : ∀ acc : net * option err, edges s ⊆ edges acc.1 → edges s ⊆ edges (foldl (merge_raw_one prefix) acc es).1).
  { induction es as [|re es IH]; intros acc Hacc; cbn [foldl]; [done|]. apply IH.
    destruct acc as [s0 [er|]]; [done|]. etrans; [exact Hacc|]. apply merge_raw_one_sub. }
  by apply H.
Qed.

Definition may_drop2 (o : op2) (k : nat) (e : string) (rx : rxn) : Prop :=
  match o with
  | OBase o' => may_drop o' k e rx
  | OSideSet i e' _ _ _ | OSideIncr i e' _ _ _ => i = k ∧ e' = e
  | _ => False
  end.

Lemma step2_stored_kept w o k e rx :
  Forall Inv (nets w) → edges (getn (nets w) k) !! e = Some rx → ¬ may_drop2 o k e rx →
  edges (getn (nets (step2 w o).1.1) k) !! e = Some rx.
Proof.
  intros Hw He Hnd.
  destruct (decide (target2 o = Some k)) as [Ht|Hne]; [|by rewrite step2_frame].
  destruct (decide (k < length (nets w))%nat) as [Hlt|Hge]; cycle 1.
  { rewrite getn_ge in He by lia. cbn in He. by rewrite lookup_empty in He. }
  destruct o as [o|i l r rule eid|i j e0 rule eid|k' l|k' x c|i kl kr rule eid|i es p|i e0 lhs x c|i e0 lhs x b|i q|k' l'];
    cbn [target2 may_drop2] in *; try done.
  - destruct (step2_base w o) as (-> & _). by apply step_stored_kept.
  - injection Ht as ->. cbn [step2].
    pose proof (add_sub (getn (nets w) k) (normalize_items l) (normalize_items r) rule eid) as H.
    destruct (add _ _ _ _ _) as [[s er] ?]. cbn [fst snd nets setnets] in *. rewrite getn_setn_eq by done. by eapply lookup_weaken.
  - injection Ht as ->. cbn [step2]. destruct (edges (getn (nets w) j) !! e0) as [rx0|]; [|done].
    pose proof (add_sub (getn (nets w) k) (r_lhs rx0) (r_rhs rx0) rule eid) as H.
    destruct (add _ _ _ _ _) as [[s er] ?]. cbn [fst snd nets setnets] in *. rewrite getn_setn_eq by done. by eapply lookup_weaken.
  - injection Ht as ->. cbn [step2].
    pose proof (add_sub (getn (nets w) k) (getp (pool w) kl) (getp (pool w) kr) rule eid) as H.
    destruct (add _ _ _ _ _) as [[s er] ?]. cbn [fst snd nets setnets] in *. rewrite getn_setn_eq by done. by eapply lookup_weaken.
  - injection Ht as ->. cbn [step2].
    pose proof (merge_raw_sub (getn (nets w) k) es p) as H.
    destruct (merge_raw _ _ _) as [s er]. cbn [fst snd nets setnets] in *. rewrite getn_setn_eq by done. by eapply lookup_weaken.
  - injection Ht as ->. cbn [step2].
    destruct (edit_side _ _ _ _) as [s er] eqn:Hed. cbn [fst snd nets setnets]. rewrite getn_setn_eq by done.
    apply edit_side_spec in Hed as [(_ & _ & ->)|(_ & rx0 & _ & -> & _)]; [done|].
    rewrite lookup_insert_ne; [done|]. intros ->. by apply Hnd.
  - injection Ht as ->. cbn [step2].
    destruct (edit_side _ _ _ _) as [s er] eqn:Hed. cbn [fst snd nets setnets]. rewrite getn_setn_eq by done.
    apply edit_side_spec in Hed as [(_ & _ & ->)|(_ & rx0 & _ & -> & _)]; [done|].
    rewrite lookup_insert_ne; [done|]. intros ->. by apply Hnd.
Qed.

(** * 6. labels are dropped only together with their species *)

(** [s'] has fewer species than [s] and the surviving ones kept their labels *)
Definition labels_le (s s' : net) : Prop :=
  species s' ⊆ species s ∧ ∀ x, x ∈ species s' → mol s' !! x = mol s !! x.

Lemma labels_le_refl s : labels_le s s.
Proof. done. Qed.
Lemma labels_le_trans s1 s2 s3 : labels_le s1 s2 → labels_le s2 s3 → labels_le s1 s3.
Proof.
  intros [H1 H1'] [H2 H2']. split; [set_solver|]. intros x Hx. rewrite H2' by done. apply H1'. set_solver.
Qed.

Lemma prune_orphan_labels x s : labels_le s (prune_orphan x s).
Proof.
  unfold prune_orphan. destruct (decide _); [|done]. split; cbn; [set_solver|].
  intros y Hy. rewrite lookup_delete_ne; [done|]. set_solver.
Qed.

Lemma fold_labels (f : string → net → net) s0 (D : gset string) :
  (∀ x acc, labels_le acc (f x acc)) → labels_le s0 (set_fold f s0 D).
Proof.
  intros Hf. revert D. apply (set_fold_ind_L (λ acc (_ : gset string), labels_le s0 acc)); [done|].
  intros x X acc _ IH. eapply labels_le_trans; [exact IH|apply Hf].
Qed.

Lemma remove_rxn_labels s e : labels_le s (remove_rxn s e).1.
Proof.
  unfold remove_rxn. destruct (edges s !! e) as [rx|]; [|done]. cbn [fst].
  eapply labels_le_trans; [eapply labels_le_trans|]; [|apply fold_labels..].
  - done.
  - intros x acc. eapply labels_le_trans; [|apply prune_orphan_labels]. done.
  - intros x acc. eapply labels_le_trans; [|apply prune_orphan_labels]. done.
Qed.

Lemma remove_species_labels s x prune : labels_le s (remove_species s x prune).1.
Proof.
  unfold remove_species. destruct (decide _); [|done]. destruct (decide _); [|done].
  destruct prune; cbn [fst]; [|done].
  eapply labels_le_trans; [|apply prune_orphan_labels]. done.
Qed.

Lemma add_mol s l r rule eid : mol (add s l r rule eid).1.1 = mol s ∧ species s ⊆ species (add s l r rule eid).1.1.
Proof.
  unfold add. destruct eid as [e|].
  - destruct (decide _); [done|]. destruct (rxn_empty _); [done|]. cbn. set_solver.
  - destruct (next_id _ _) as [[c e]|]; [|done]. destruct (rxn_empty _); [done|]. cbn. set_solver.
Qed.

Lemma merge_mol s o prefix : mol (merge s o prefix).1 = mol s ∧ species s ⊆ species (merge s o prefix).1.
Proof.
  unfold merge.
  assert (H : ∀ l (acc : net * option err), mol acc.1 = mol s ∧ species s ⊆ species acc.1 →
              mol (foldl (λ acc p, merge_one prefix acc p.1 p.2) acc l).1 = mol s ∧
              species s ⊆ species (foldl (λ acc p, merge_one prefix acc p.1 p.2) acc l).1).
  { induction l as [|[e rx] l IH]; intros acc Hacc; cbn [foldl]; [done|]. apply IH.
    destruct acc as [s0 [er|]]; [done|]. cbn [fst snd] in *. destruct Hacc as [Ha1 Ha2]. unfold merge_one.
    destruct (prefix || _).
    - destruct (next_id _ _) as [[c e']|]; [|done].
      pose proof (add_mol (set_counters s0 (<[r_rule rx:=c]> (counters s0))) (r_lhs rx) (r_rhs rx) (r_rule rx) (Some e')) as [H1 H2].
      destruct (add _ _ _ _ _) as [[s2 er] ?]. cbn in *. split; [by rewrite H1|set_solver].
    - pose proof (add_mol s0 (r_lhs rx) (r_rhs rx) (r_rule rx) (Some e)) as [H1 H2].
      destruct (add _ _ _ _ _) as [[s2 er] ?]. cbn in *. split; [by rewrite H1|set_solver]. }
  by apply H.
Qed.

Lemma merge_raw_mol s es prefix : mol (merge_raw s es prefix).1 = mol s ∧ species s ⊆ species (merge_raw s es prefix).1.
Proof.
  unfold merge_raw.
  assert (H : ∀ l (acc : net * option err), mol acc.1 = mol s ∧ species s ⊆ species acc.1 →
              mol (foldl (merge_raw_one prefix) acc l).1 = mol s ∧
              species s ⊆ species (foldl (merge_raw_one prefix) acc l).1).
  { induction l as [|[[[eid rule] l0] r0] l IH]; intros acc Hacc; cbn [foldl]; [done|]. apply IH.
    destruct acc as [s0 [er|]]; [done|]. cbn [fst snd] in *. destruct Hacc as [Ha1 Ha2]. unfold merge_raw_one.
    destruct (prefix || _).
    - destruct (next_id _ _) as [[c e']|]; [|done].
      pose proof (add_mol (set_counters s0 (<[rule:=c]> (counters s0))) (normalize_items l0) (normalize_items r0) rule (Some e')) as [H1 H2].
      destruct (add _ _ _ _ _) as [[s2 er] ?]. cbn in *. split; [by rewrite H1|set_solver].
    - pose proof (add_mol s0 (normalize_items l0) (normalize_items r0) rule eid) as [H1 H2].
      destruct (add _ _ _ _ _) as [[s2 er] ?]. cbn in *. split; [by rewrite H1|set_solver]. }
  by apply H.
Qed.

Lemma step2_length w o : length (nets (step2 w o).1.1) = length (nets w).
Proof.
  destruct o as [o|i l r rule eid|i j e0 rule eid|k' l|k' x0 c|i kl kr rule eid|i es p|i e0 lhs x0 c|i e0 lhs x0 b|i q|k' l'];
    [destruct (step2_base w o) as (-> & _); apply step_length|cbn [step2]..].
  - destruct (add _ _ _ _ _) as [[? ?] ?]. cbn. apply insert_length.
  - destruct (edges _ !! _); [|done]. destruct (add _ _ _ _ _) as [[? ?] ?]. cbn. apply insert_length.
  - done.
  - done.
  - destruct (add _ _ _ _ _) as [[? ?] ?]. cbn. apply insert_length.
  - destruct (merge_raw _ _ _). cbn. apply insert_length.
  - destruct (edit_side _ _ _ _). cbn. apply insert_length.
  - destruct (edit_side _ _ _ _). cbn. apply insert_length.
  - done.
  - done.
Qed.

(** the operations that (re)write labels of network [k] *)
Definition relabels (o : op2) (k : nat) (x : string) : Prop :=
  match o with
  | OBase (OAssignMol i x' _) => i = k ∧ x' = x
  | OBase (OSetMolMap i _ _ _) => i = k
  | OBase (OCopy _ j) => j = k
  | _ => False
  end.

Lemma step2_labels_kept w o k x :
  Forall Inv (nets w) → ¬ relabels o k x →
  mol (getn (nets (step2 w o).1.1) k) !! x =
    if decide (x ∈ species (getn (nets (step2 w o).1.1) k)) then mol (getn (nets w) k) !! x else None.
Proof.
  intros Hw Hnr.
  pose proof (getn_Inv _ k (step2_Inv w o Hw)) as HI'. pose proof (getn_Inv _ k Hw) as HI.
  destruct (decide (x ∈ species _)) as [Hx|Hx]; cycle 1.
  { apply not_elem_of_dom. pose proof (inv_mol _ HI'). set_solver. }
  destruct (decide (target2 o = Some k)) as [Ht|Hne]; [|by rewrite step2_frame].
  destruct (decide (k < length (nets w))%nat) as [Hlt|Hge]; cycle 1.
  { pose proof (step2_length w o) as Hl.
    rewrite getn_ge in Hx by lia. cbn in Hx. set_solver. }
  revert Hx. 
  destruct o as [o|i l r rule eid|i j e0 rule eid|k' l|k' x0 c|i kl kr rule eid|i es p|i e0 lhs x0 c|i e0 lhs x0 b|i q|k' l'];
    cbn [target2 relabels] in *; try done.
  - destruct (step2_base w o) as (-> & _).
    destruct o as [i l r rule eid|i e|i x0 p|i j p|i j|i x0 m|i mp st cl]; cbn [target step fst] in *; injection Ht as ->.
    + pose proof (add_mol (getn (nets w) k) (normalize l) (normalize r) rule eid) as [H1 _].
      destruct (add _ _ _ _ _) as [[s er] ?]. cbn [fst] in *. rewrite getn_setn_eq by done. by rewrite H1.
    + pose proof (remove_rxn_labels (getn (nets w) k) e) as [_ H1].
      destruct (remove_rxn _ _) as [s er]. cbn [fst] in *. rewrite getn_setn_eq by done. apply H1.
    + pose proof (remove_species_labels (getn (nets w) k) x0 p) as [_ H1].
      destruct (remove_species _ _ _) as [s er]. cbn [fst] in *. rewrite getn_setn_eq by done. apply H1.
    + pose proof (merge_mol (getn (nets w) k) (getn (nets w) j) p) as [H1 _].
      destruct (merge _ _ _) as [s er]. cbn [fst] in *. rewrite getn_setn_eq by done. by rewrite H1.
    + by destruct Hnr.
    + unfold assign_mol. destruct (decide _); cbn [fst]; rewrite getn_setn_eq by done; [|done].
      cbn. intros _. rewrite lookup_insert_ne; [done|]. intros ->. by apply Hnr.
    + by destruct Hnr.
  - injection Ht as ->. cbn [step2].
    pose proof (add_mol (getn (nets w) k) (normalize_items l) (normalize_items r) rule eid) as [H1 _].
    destruct (add _ _ _ _ _) as [[s er] ?]. cbn [fst snd nets setnets] in *. rewrite getn_setn_eq by done. by rewrite H1.
  - injection Ht as ->. cbn [step2]. destruct (edges (getn (nets w) j) !! e0) as [rx0|]; [|done].
    pose proof (add_mol (getn (nets w) k) (r_lhs rx0) (r_rhs rx0) rule eid) as [H1 _].
    destruct (add _ _ _ _ _) as [[s er] ?]. cbn [fst snd nets setnets] in *. rewrite getn_setn_eq by done. by rewrite H1.
  - injection Ht as ->. cbn [step2].
    pose proof (add_mol (getn (nets w) k) (getp (pool w) kl) (getp (pool w) kr) rule eid) as [H1 _].
    destruct (add _ _ _ _ _) as [[s er] ?]. cbn [fst snd nets setnets] in *. rewrite getn_setn_eq by done. by rewrite H1.
  - injection Ht as ->. cbn [step2].
    pose proof (merge_raw_mol (getn (nets w) k) es p) as [H1 _].
    destruct (merge_raw _ _ _) as [s er]. cbn [fst snd nets setnets] in *. rewrite getn_setn_eq by done. by rewrite H1.
  - injection Ht as ->. cbn [step2].
    destruct (edit_side _ _ _ _) as [s er] eqn:Hed. cbn [fst snd nets setnets]. rewrite getn_setn_eq by done.
    apply edit_side_spec in Hed as [(_ & _ & ->)|(_ & rx0 & _ & _ & _ & _ & _ & _ & -> & _)]; done.
  - injection Ht as ->. cbn [step2].
    destruct (edit_side _ _ _ _) as [s er] eqn:Hed. cbn [fst snd nets setnets]. rewrite getn_setn_eq by done.
    apply edit_side_spec in Hed as [(_ & _ & ->)|(_ & rx0 & _ & _ & _ & _ & _ & _ & -> & _)]; done.
Qed.

(** * 7. what an add through RXNSide objects stores: the VALUES at call time *)

Lemma add_stores s l r rule eid s' e :
  add s l r rule eid = (s', None, e) →
  edges s !! e = None ∧ edges s' !! e = Some (Rxn (norm_rule rule) l r) ∧ (∀ e0, eid = Some e0 → e = e0).
Proof.
  intros H. apply add_spec in H as (He & Hn & _ & -> & _). split; [done|]. split; [apply lookup_insert|done].
Qed.

Lemma add_pool_stores w i kl kr rule eid :
  (i < length (nets w))%nat → (step2 w (OAddPool i kl kr rule eid)).1.2 = None →
  ∃ e, edges (getn (nets w) i) !! e = None ∧
       edges (getn (nets (step2 w (OAddPool i kl kr rule eid)).1.1) i) !! e =
         Some (Rxn (norm_rule rule) (getp (pool w) kl) (getp (pool w) kr)) ∧
       pool (step2 w (OAddPool i kl kr rule eid)).1.1 = pool w.
Proof.
  intros Hi. cbn [step2]. destruct (add _ _ _ _ _) as [[s' er] e] eqn:Ha. cbn [fst snd nets setnets pool].
  intros ->. apply add_stores in Ha as (H1 & H2 & _). exists e. rewrite getn_setn_eq by done. done.
Qed.

Lemma add_from_stores w i j e0 rule eid rx :
  (i < length (nets w))%nat → edges (getn (nets w) j) !! e0 = Some rx →
  (step2 w (OAddFrom i j e0 rule eid)).1.2 = None →
  ∃ e, edges (getn (nets w) i) !! e = None ∧
       edges (getn (nets (step2 w (OAddFrom i j e0 rule eid)).1.1) i) !! e =
         Some (Rxn (norm_rule rule) (r_lhs rx) (r_rhs rx)).
Proof.
  intros Hi He0. cbn [step2]. rewrite He0. destruct (add _ _ _ _ _) as [[s' er] e] eqn:Ha.
  cbn [fst snd nets setnets pool]. intros ->. apply add_stores in Ha as (H1 & H2 & _). exists e.
  rewrite getn_setn_eq by done. done.
Qed.
