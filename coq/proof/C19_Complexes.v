(** C19 — the complex walk of model/C19_Model.v (complex_graph): the complex list is duplicate free and consists exactly
    of the reactant and product vectors of the reactions; the arcs join the index of each reaction's reactant complex to
    the index of its product complex.  Style: stdlib lists. *)
From Coq Require Import List NArith ZArith Bool Arith Lia Permutation.
From SK Require Import lib.Reach lib.C17_Farkas model.C17_Model model.C19_Model proof.C17_Proof.
Import ListNotations.
Local Open Scope nat_scope.

(* ------------------------------------------------------------------ vectors, index lookup *)

Lemma veqb_eq u : forall v, veqb u v = true <-> u = v.
Proof.
  induction u as [|x u IH]; intros [|y v]; simpl; split; try discriminate; auto.
  - intros H. apply andb_prop in H. destruct H as [H1 H2]. apply Z.eqb_eq in H1. apply IH in H2. congruence.
  - intros [= -> ->]. rewrite Z.eqb_refl. apply IH. reflexivity.
Qed.
Lemma veqb_refl u : veqb u u = true.
Proof. apply veqb_eq. reflexivity. Qed.

Lemma index_of_some v cs : forall k, index_of v cs = Some k -> nth_error cs k = Some v /\ k < length cs.
Proof.
  induction cs as [|c cs IH]; intros k H; simpl in H; [discriminate|].
  destruct (veqb c v) eqn:E.
  - inversion H; subst. apply veqb_eq in E. subst. simpl. split; auto. lia.
  - destruct (index_of v cs) as [j|]; [|discriminate]. inversion H; subst. destruct (IH j eq_refl). simpl. split; auto. lia.
Qed.
Lemma index_of_nth v cs k : index_of v cs = Some k -> nth k cs [] = v.
Proof. intros H. apply index_of_some in H. destruct H as [H _]. apply nth_error_nth with (d := []) in H. exact H. Qed.
Lemma index_of_none v cs : index_of v cs = None <-> ~ In v cs.
Proof.
  induction cs as [|c cs IH]; simpl; [tauto|].
  destruct (veqb c v) eqn:E.
  - apply veqb_eq in E. split; [discriminate|]. intros H. exfalso. apply H. auto.
  - destruct (index_of v cs) as [j|]; simpl.
    + split; [discriminate|]. intros H. exfalso. apply H. right.
      destruct (in_dec (list_eq_dec Z.eq_dec) v cs) as [I|N]; auto. apply IH in N. discriminate.
    + split; auto. intros _ [->|I]; [rewrite veqb_refl in E; discriminate|]. destruct IH as [IH _]. apply IH; auto.
Qed.
Lemma index_of_in v cs : In v cs -> exists k, index_of v cs = Some k.
Proof.
  intros I. destruct (index_of v cs) as [k|] eqn:E; [eauto|]. apply index_of_none in E. contradiction.
Qed.
Lemma index_of_app_l v cs cs' k : index_of v cs = Some k -> index_of v (cs ++ cs') = Some k.
Proof.
  revert k. induction cs as [|c cs IH]; intros k H; simpl in *; [discriminate|].
  destruct (veqb c v); auto. destruct (index_of v cs) as [j|]; [|discriminate]. rewrite (IH j eq_refl). exact H.
Qed.
Lemma index_of_app_new v cs : index_of v cs = None -> index_of v (cs ++ [v]) = Some (length cs).
Proof.
  induction cs as [|c cs IH]; intros H; simpl in *; [rewrite veqb_refl; reflexivity|].
  destruct (veqb c v); [discriminate|]. destruct (index_of v cs); [discriminate|]. rewrite IH; auto.
Qed.
(** in a duplicate-free list the index determines the element and conversely *)
Lemma index_of_nodup cs : NoDup cs -> forall k v, nth_error cs k = Some v -> index_of v cs = Some k.
Proof.
  induction 1 as [|c cs Hn ND IH]; intros k v H; [destruct k; discriminate|].
  destruct k as [|k]; simpl in *.
  - inversion H; subst. rewrite veqb_refl. reflexivity.
  - destruct (veqb c v) eqn:E.
    + apply veqb_eq in E. subst. exfalso. apply Hn. eapply nth_error_In; eauto.
    + rewrite (IH k v H). reflexivity.
Qed.

Lemma NoDup_app_snoc {A} (l : list A) x : NoDup l -> ~ In x l -> NoDup (l ++ [x]).
Proof.
  intros ND N. apply NoDup_rev in ND. rewrite <- (rev_involutive (l ++ [x])). apply NoDup_rev. rewrite rev_app_distr. simpl.
  constructor; auto. rewrite <- in_rev. exact N.
Qed.

Lemma arc_mem_spec a l : arc_mem a l = true <-> In a l.
Proof.
  unfold arc_mem. rewrite existsb_exists. split.
  - intros (b & I & E). apply andb_prop in E. destruct E as [E1 E2]. apply Nat.eqb_eq in E1, E2.
    destruct a, b; simpl in *; subst; auto.
  - intros I. exists a. rewrite !Nat.eqb_refl. auto.
Qed.

(* ------------------------------------------------------------------ the walk *)

Section WalkInv.
Variable vec : role -> rxn -> list Z.

Lemma add_complex_spec cs v : NoDup cs ->
  let '(cs', k) := add_complex cs v in
  NoDup cs' /\ (exists ext, cs' = cs ++ ext) /\ (forall w, In w cs' <-> In w cs \/ w = v) /\ index_of v cs' = Some k.
Proof.
  intros ND. unfold add_complex. destruct (index_of v cs) as [k|] eqn:E.
  - split; auto. split; [exists []; rewrite app_nil_r; reflexivity|]. split; auto.
    intros w. split; auto. intros [I| ->]; auto. apply index_of_some in E. destruct E as [E _]. eapply nth_error_In; eauto.
  - split; [|split; [eauto|split]].
    + apply NoDup_app_snoc. { exact ND. } apply index_of_none; exact E.
    + intros w. rewrite in_app_iff. simpl. intuition.
    + apply index_of_app_new; exact E.
Qed.

(** invariant of the walk after the reactions [done] *)
Definition walk_inv (done : list rxn) (st : list (list Z) * list (nat * nat)) : Prop :=
  let '(cs, arcs) := st in
  NoDup cs /\
  (forall v, In v cs <-> exists e, In e done /\ (v = vec Reactant e \/ v = vec Product e)) /\
  NoDup arcs /\
  (forall u v, In (u, v) arcs <->
     exists e, In e done /\ index_of (vec Reactant e) cs = Some u /\ index_of (vec Product e) cs = Some v).

Lemma cstep_inv done st e : walk_inv done st -> walk_inv (done ++ [e]) (cstep vec st e).
Proof.
  destruct st as [cs arcs]. intros (ND & Hin & NDa & Harc). unfold cstep.
  pose proof (add_complex_spec cs (vec Reactant e) ND) as A1.
  destruct (add_complex cs (vec Reactant e)) as [cs1 u]. destruct A1 as (ND1 & (x1 & E1) & In1 & Iu).
  pose proof (add_complex_spec cs1 (vec Product e) ND1) as A2.
  destruct (add_complex cs1 (vec Product e)) as [cs2 v]. destruct A2 as (ND2 & (x2 & E2) & In2 & Iv).
  assert (Iu2 : index_of (vec Reactant e) cs2 = Some u) by (subst cs2; apply index_of_app_l; exact Iu).
  assert (stable : forall w k, index_of w cs = Some k -> index_of w cs2 = Some k).
  { intros w k H. subst cs2 cs1. apply index_of_app_l, index_of_app_l. exact H. }
  assert (old : forall e', In e' done -> forall ro, exists k, index_of (vec ro e') cs = Some k).
  { intros e' I ro. apply index_of_in. apply Hin. exists e'. split; auto. destruct ro; auto. }
  assert (arcs_spec : forall a b, In (a, b) arcs <->
             exists e', In e' done /\ index_of (vec Reactant e') cs2 = Some a /\ index_of (vec Product e') cs2 = Some b).
  { intros a b. rewrite Harc. split; intros (e' & I & Ha & Hb); exists e'; (split; [exact I|]).
    - split; apply stable; assumption.
    - destruct (old e' I Reactant) as (a' & Ha'). destruct (old e' I Product) as (b' & Hb').
      rewrite (stable _ _ Ha') in Ha. rewrite (stable _ _ Hb') in Hb. split; congruence. }
  split; [exact ND2|]. split; [|split].
  - intros w. rewrite In2, In1, Hin. split.
    + intros [[(e' & I & H)| ->]| ->].
      * exists e'. split; auto. apply in_or_app; auto.
      * exists e. split; auto. apply in_or_app; simpl; auto.
      * exists e. split; auto. apply in_or_app; simpl; auto.
    + intros (e' & I & H). apply in_app_or in I. destruct I as [I|[<-|[]]].
      * left. left. eauto.
      * destruct H as [->| ->]; auto.
  - destruct (arc_mem (u, v) arcs) eqn:M; auto.
    apply NoDup_app_snoc; auto. intros I. apply arc_mem_spec in I. congruence.
  - intros a b.
    assert (new_or_old : In (a, b) (if arc_mem (u, v) arcs then arcs else arcs ++ [(u, v)]) <-> In (a, b) arcs \/ (a, b) = (u, v)).
    { destruct (arc_mem (u, v) arcs) eqn:M.
      - split; auto. intros [I|E]; auto. rewrite E. apply arc_mem_spec; exact M.
      - rewrite in_app_iff. simpl. intuition. }
    rewrite new_or_old, arcs_spec. split.
    + intros [(e' & I & H)|E].
      * exists e'. split; auto. apply in_or_app; auto.
      * inversion E; subst. exists e. split; [apply in_or_app; simpl; auto|]. auto.
    + intros (e' & I & Ha & Hb). apply in_app_or in I. destruct I as [I|[<-|[]]]; [left; eauto|].
      right. congruence.
Qed.

Lemma walk_fold es : forall done st, walk_inv done st -> walk_inv (done ++ es) (fold_left (cstep vec) es st).
Proof.
  induction es as [|e es IH]; intros done st H; simpl; [rewrite app_nil_r; exact H|].
  replace (done ++ e :: es) with ((done ++ [e]) ++ es) by (rewrite <- app_assoc; reflexivity).
  apply IH. apply cstep_inv. exact H.
Qed.

Lemma walk_correct es : walk_inv es (fold_left (cstep vec) es ([], [])).
Proof.
  apply (walk_fold es [] ([], [])). split; [constructor|]. split; [|split; [constructor|]].
  - intros v. split; [intros []|]. intros (e & [] & _).
  - intros u v. split; [intros []|]. intros (e & [] & _).
Qed.
End WalkInv.

(* ------------------------------------------------------------------ the model's complex graph *)

(** the multiset of a side as a vector over the species order; [amount s sd] (proof/C17_Proof.v) is the coefficient of s *)
Definition side_vec (net : list rxn) (iso : list str) (sd : side) : list Z :=
  map (fun s => amount s sd) (species_order net iso).
Definition side_of (ro : role) (e : rxn) : side := match ro with Reactant => rlhs e | Product => rrhs e end.

Lemma cvec_side net iso ro e : NoDup (map rid net) -> In e net -> cvec ro net iso e = side_vec net iso (side_of ro e).
Proof.
  intros ND I. unfold cvec, side_vec. apply map_ext. intros s. rewrite (entry_bip ro net s e ND I). destruct ro; reflexivity.
Qed.

Lemma amount_notin s sd : ~ In s (map fst sd) -> amount s sd = 0%Z.
Proof.
  unfold amount. induction sd as [|p sd IH]; simpl; auto. intros H.
  rewrite streqb_neq by (intros E; apply H; auto). apply IH. intros I. apply H. auto.
Qed.

Lemma side_species_in net iso ro e s : In e net -> In s (map fst (side_of ro e)) -> In s (species_order net iso).
Proof.
  intros I Hs. rewrite species_order_eq. apply species_set_in. left. exists e. split; auto.
  unfold rxn_species. apply in_or_app. destruct ro; auto.
Qed.

(** two sides give the same vector iff they are the same multiset (same coefficient for EVERY species) *)
Lemma side_vec_ext net iso ro1 e1 ro2 e2 : In e1 net -> In e2 net ->
  (side_vec net iso (side_of ro1 e1) = side_vec net iso (side_of ro2 e2) <->
   forall s, amount s (side_of ro1 e1) = amount s (side_of ro2 e2)).
Proof.
  intros I1 I2. unfold side_vec. split.
  - intros H s. destruct (in_dec (list_eq_dec N.eq_dec) s (species_order net iso)) as [I|NI].
    + apply (proj1 (@map_ext_in_iff _ _ _ _ _) H). exact I.
    + rewrite (amount_notin s (side_of ro1 e1)), (amount_notin s (side_of ro2 e2)); auto;
        intros Hs; apply NI; [exact (side_species_in net iso ro2 e2 s I2 Hs) | exact (side_species_in net iso ro1 e1 s I1 Hs)].
  - intros H. apply map_ext. exact H.
Qed.

Lemma complex_graph_inv net iso :
  walk_inv (fun ro e => cvec ro net iso e) (edges_sorted net) (complex_graph net iso).
Proof. apply walk_correct. Qed.

Lemma in_edges_sorted net e : In e (edges_sorted net) <-> In e net.
Proof.
  split; apply Permutation_in; [apply edges_sorted_perm | apply Permutation_sym, edges_sorted_perm].
Qed.

Theorem complexes_spec net iso : NoDup (map rid net) ->
  let cs := fst (complex_graph net iso) in
  NoDup cs /\
  (forall v, In v cs <-> exists e, In e net /\ (v = side_vec net iso (rlhs e) \/ v = side_vec net iso (rrhs e))) /\
  (forall ro1 e1 ro2 e2, In e1 net -> In e2 net ->
     (side_vec net iso (side_of ro1 e1) = side_vec net iso (side_of ro2 e2) <->
      forall s, amount s (side_of ro1 e1) = amount s (side_of ro2 e2))).
Proof.
  intros ND. pose proof (complex_graph_inv net iso) as H. destruct (complex_graph net iso) as [cs arcs]. simpl.
  destruct H as (NDc & Hin & _ & _). split; [exact NDc|]. split; [|intros; apply side_vec_ext; assumption].
  intros v. rewrite Hin. split; intros (e & I & H).
  - apply (proj1 (in_edges_sorted _ _)) in I. exists e. split; auto.
    rewrite (cvec_side net iso Reactant e ND I), (cvec_side net iso Product e ND I) in H. exact H.
  - exists e. split; [apply (proj2 (in_edges_sorted _ _)); exact I|].
    rewrite (cvec_side net iso Reactant e ND I), (cvec_side net iso Product e ND I). exact H.
Qed.

(** arcs of the complex graph: u -> v iff some reaction has reactant complex number u and product complex number v *)
Theorem complex_arcs_spec net iso : NoDup (map rid net) ->
  let cs := fst (complex_graph net iso) in
  let arcs := snd (complex_graph net iso) in
  NoDup arcs /\
  forall u v, In (u, v) arcs <->
    exists e, In e net /\ nth_error cs u = Some (side_vec net iso (rlhs e)) /\ nth_error cs v = Some (side_vec net iso (rrhs e)).
Proof.
  intros ND. pose proof (complex_graph_inv net iso) as H. destruct (complex_graph net iso) as [cs arcs]. simpl.
  destruct H as (NDc & _ & NDa & Harc). split; [exact NDa|]. intros u v. rewrite Harc.
  split; intros (e & I & Hu & Hv).
  - apply (proj1 (in_edges_sorted _ _)) in I. exists e. split; auto.
    rewrite (cvec_side net iso Reactant e ND I) in Hu. rewrite (cvec_side net iso Product e ND I) in Hv.
    split; [apply (index_of_some _ _ _ Hu) | apply (index_of_some _ _ _ Hv)].
  - exists e. split; [apply (proj2 (in_edges_sorted _ _)); exact I|].
    rewrite (cvec_side net iso Reactant e ND I), (cvec_side net iso Product e ND I).
    split; apply index_of_nodup; assumption.
Qed.

(** facts used by the linkage / rank proofs (no premise on the ids) *)
Definition arcs_ok (arcs : list (nat * nat)) (k : nat) : Prop := forall a, In a arcs -> fst a < k /\ snd a < k.

Lemma complex_graph_arcs_ok net iso : arcs_ok (snd (complex_graph net iso)) (length (fst (complex_graph net iso))).
Proof.
  pose proof (complex_graph_inv net iso) as H. destruct (complex_graph net iso) as [cs arcs]. simpl.
  destruct H as (_ & _ & _ & Harc). intros [u v] I. apply Harc in I. destruct I as (e & _ & Hu & Hv).
  simpl. split; [apply (index_of_some _ _ _ Hu) | apply (index_of_some _ _ _ Hv)].
Qed.

(** every reaction has its two complexes in the list and its arc in the graph *)
Lemma complex_graph_reaction_arc net iso e : In e net ->
  exists u v, index_of (cvec Reactant net iso e) (fst (complex_graph net iso)) = Some u /\
              index_of (cvec Product net iso e) (fst (complex_graph net iso)) = Some v /\
              In (u, v) (snd (complex_graph net iso)).
Proof.
  intros I. pose proof (complex_graph_inv net iso) as H. destruct (complex_graph net iso) as [cs arcs]. simpl.
  destruct H as (_ & Hin & _ & Harc). apply (proj2 (in_edges_sorted _ _)) in I.
  destruct (index_of_in (cvec Reactant net iso e) cs) as (u & Hu). { apply Hin. eauto. }
  destruct (index_of_in (cvec Product net iso e) cs) as (v & Hv). { apply Hin. eauto. }
  exists u, v. split; auto. split; auto. apply Harc. eauto.
Qed.

(* ------------------------------------------------------------------ non-vacuity: A + B <-> C, C -> 2 A *)
Definition sA : str := [65%N]. Definition sB : str := [66%N]. Definition sC : str := [67%N].
Definition ex_net : list rxn :=
  [ ([49%N], [114%N], [(sA, 1%Z); (sB, 1%Z)], [(sC, 1%Z)]);
    ([50%N], [114%N], [(sC, 1%Z)], [(sA, 1%Z); (sB, 1%Z)]);
    ([51%N], [114%N], [(sC, 1%Z)], [(sA, 2%Z)]) ].
Definition ex_cs := fst (complex_graph ex_net []).
Definition ex_arcs := snd (complex_graph ex_net []).
Example ex_complexes : ex_cs = [[1;1;0]; [0;0;1]; [2;0;0]]%Z /\ ex_arcs = [(0,1); (1,0); (1,2)] /\ NoDup (map rid ex_net).
Proof.
  split; [vm_compute; reflexivity|]. split; [vm_compute; reflexivity|].
  repeat constructor; simpl; intuition discriminate.
Qed.

(** the walk BEFORE the repair (G.edges(r) on a DiGraph = product arcs only) on A + B -> C, C -> A + B: every reactant
    complex collapses to the zero complex: 3 complexes instead of 2, and the zero vector is listed although no side is empty *)
Definition ex_rev : list rxn := firstn 2 ex_net.
Lemma outarcs_only_refuted :
  exists net, NoDup (map rid net) /\
    fst (complex_graph net []) = [[1;1;0]; [0;0;1]]%Z /\
    fst (complex_graph_outarcs_only net []) = [[0;0;0]; [0;0;1]; [1;1;0]]%Z /\
    ~ (forall v, In v (fst (complex_graph_outarcs_only net [])) ->
         exists e, In e net /\ (v = side_vec net [] (rlhs e) \/ v = side_vec net [] (rrhs e))).
Proof.
  exists ex_rev. split; [repeat constructor; simpl; intuition discriminate|].
  split; [vm_compute; reflexivity|]. split; [vm_compute; reflexivity|].
  intros H. destruct (H [0;0;0]%Z) as (e & I & E); [vm_compute; auto|].
  destruct I as [<-|[<-|[]]]; vm_compute in E; destruct E as [E|E]; discriminate.
Qed.

(** the conversion of an undirected input BEFORE the repair a58b70a: every coefficient is counted twice *)
Lemma cvec_undirected_doubled_eq ro net iso e :
  cvec_undirected_doubled ro net iso e = map (fun z => (2 * z)%Z) (cvec ro net iso e).
Proof.
  unfold cvec_undirected_doubled, cvec. rewrite map_map. apply map_ext. intros s. rewrite entry_app. lia.
Qed.

Lemma undirected_input_refuted :
  exists net, NoDup (map rid net) /\
    fst (complex_graph net []) = [[1;1;0]; [0;0;1]]%Z /\
    fst (complex_graph_undirected_doubled net []) = [[2;2;0]; [0;0;2]]%Z /\
    ~ (forall v, In v (fst (complex_graph_undirected_doubled net [])) ->
         exists e, In e net /\ (v = side_vec net [] (rlhs e) \/ v = side_vec net [] (rrhs e))).
Proof.
  exists ex_rev. split; [repeat constructor; simpl; intuition discriminate|].
  split; [vm_compute; reflexivity|]. split; [vm_compute; reflexivity|].
  intros H. destruct (H [2;2;0]%Z) as (e & I & E); [vm_compute; auto|].
  destruct I as [<-|[<-|[]]]; vm_compute in E; destruct E as [E|E]; discriminate.
Qed.
