(** C08 — NautyCanonicalizer with edge_attrs = ["order"] (standard_order not selected), modelled as the search on
    [strip_std g]: exact on the graphs with standard_order forgotten. *)
From Coq Require Import List NArith ZArith Bool Arith Lia Permutation.
From SK Require Import lib.LGraph lib.StrJoin.
From SK Require Import model.C08_Model proof.C08_Spec proof.C08_Sort proof.C08_Faithful proof.C08_Cov proof.C08_SigFun
                       proof.C08_Render proof.C08_Nauty proof.C08_Sound proof.C08_Invariant proof.C08_Value proof.C08_GraphSig.
Import ListNotations.

Definition strip1 (e : N * N * eattr) : N * N * eattr := let '(u, v, a) := e in (u, v, EA3 (eo a) None (et a)).

Lemma find_edge_strip_none u v (l : list (N * N * eattr)) : find_edge u v l = None -> find_edge u v (map strip1 l) = None.
Proof.
  induction l as [|[[a b] x] l IH]; simpl; auto.
  destruct ((N.eqb a u && N.eqb b v) || (N.eqb a v && N.eqb b u)); [discriminate|auto].
Qed.

Lemma wf_strip g : wf g -> wf (strip_std g).
Proof.
  intros (Hnd & Hend & Hu). split; [exact Hnd|]. split.
  - intros a b x I. unfold strip_std in I. cbn [gedges] in I. apply in_map_iff in I. destruct I as ([[c d] y] & E & I).
    inversion E; subst. apply (Hend _ _ _ I).
  - intros l1 a b x l2 E. unfold strip_std in E. cbn [gedges] in E. change (fun e : N * N * eattr => let '(u, v, a0) := e in (u, v, EA3 (eo a0) None (et a0))) with strip1 in E.
    apply map_eq_app in E. destruct E as (m1 & m2 & E0 & E1 & E2).
    destruct m2 as [|[[c d] y] m2]; [discriminate|]. simpl in E2. inversion E2 as [[Ea Eb Ex El]]. subst a b l1 l2.
    destruct (Hu _ _ _ _ _ E0) as [N1 N2]. split; apply find_edge_strip_none; auto.
Qed.
Lemma els_ok_strip g : els_ok g -> els_ok (strip_std g).
Proof. intros H p I. apply H. exact I. Qed.

Theorem nauty_order_only_exact (D : Type) (digest : str -> D) g h : wf g -> wf h -> els_ok g -> els_ok h ->
  (iso_cov (strip_std g) (strip_std h) -> geq_cov (canon_nauty (strip_std g)) (canon_nauty (strip_std h))) /\
  ((digest (graph_sig_label (strip_std g)) = digest (graph_sig_label (strip_std h)) ->
    graph_sig_label (strip_std g) = graph_sig_label (strip_std h)) ->
   (digest (graph_sig_label (strip_std g)) = digest (graph_sig_label (strip_std h)) <-> iso_cov (strip_std g) (strip_std h))).
Proof.
  intros Hg Hh Eg Eh. split.
  - intros Hi. apply (nauty_invariant (strip_std g) (strip_std h)); auto using wf_strip, els_ok_strip.
  - intros Hd. apply graph_signature_spec; auto using wf_strip, els_ok_strip.
Qed.
Print Assumptions nauty_order_only_exact.
