(** C04 — non-vacuity examples and the refutation witness (all by computation on closed terms). *)
From Coq Require Import List NArith ZArith Bool.
From SK Require Import lib.Tok lib.LGraph model.C03_Model model.C04_Model proof.C04_Glue proof.C04_Template proof.C04_Any proof.C04_Check proof.C04_Proof proof.C04_DefaultProof.
Import ListNotations.
Local Open Scope Z_scope.

(** methyl iodide + ammonia -> methylammonium + iodide, implicit hydrogens:
    [CH3:1][I:2].[NH3:3]>>[CH3:1][NH3+:3].[I-:2]   (C = 67, I = 73, N = 78) *)
Definition exG : hostg :=
  LG [(1%N, NA 67%N false 3 0 [73%N]); (2%N, NA 73%N false 0 0 [67%N]); (3%N, NA 78%N false 3 0 [])]
     [(1%N, 2%N, 2)].
Definition exH : hostg :=
  LG [(1%N, NA 67%N false 3 0 [78%N]); (3%N, NA 78%N false 3 1 [67%N]); (2%N, NA 73%N false 0 (-1) [])]
     [(1%N, 3%N, 2)].

Example ex_hyps : pair_wfb exG exH = true /\ no_explicit_H exG = true /\ centre_carries (its_construct exG exH) = true.
Proof. vm_compute. repeat split; reflexivity. Qed.
Example ex_centre_nonempty : length (gnodes (get_rc (its_construct exG exH))) = 3%nat.
Proof. vm_compute. reflexivity. Qed.
Definition ex_regen (core invert : bool) : bool :=
  match regenerate core invert exG exH with
  | Some T => regen_exact T (if invert then exH else exG) (if invert then exG else exH)
  | None => false
  end.
Example ex_regenerates : ex_regen true false = true /\ ex_regen false false = true /\ ex_regen true true = true /\ ex_regen false true = true.
Proof. vm_compute. repeat split; reflexivity. Qed.
Definition ex_match (core invert : bool) : bool :=
  match rule_of core invert exG exH with
  | Some (rc, l, r) => match_okb (substrate invert exG exH) (pattern_of l) (id_map (node_ids (pattern_of l)))
                       && match_rcb (substrate invert exG exH) rc (id_map (node_ids (pattern_of l)))
  | None => false
  end.
Example ex_matches : ex_match true false = true /\ ex_match false true = true.
Proof. vm_compute. repeat split; reflexivity. Qed.
(** the theorems' conclusions are not trivially true: a wrong partner graph is not "regenerated" *)
Example ex_regen_discriminates :
  match regenerate false false exG exH with Some T => regen_exact T exG exG | None => true end = false.
Proof. vm_compute. reflexivity. Qed.
Example ex_its_list : length (its_list true false exG exH [identity true false exG exH]) = 1%nat.
Proof. vm_compute. reflexivity. Qed.

(** the refutation witness: water + ammonia -> hydroxide + ammonium, [OH2:1].[NH3:2]>>[OH-:1].[NH4+:2] (O = 79):
    no bond changes, the centre is empty, the centre template leaves the substrate as it is *)
Definition wG : hostg := LG [(1%N, NA 79%N false 2 0 []); (2%N, NA 78%N false 3 0 [])] [].
Definition wH : hostg := LG [(1%N, NA 79%N false 1 (-1) []); (2%N, NA 78%N false 4 1 [])] [].
Definition w_regen : bool * bool :=
  match regenerate true false wG wH with
  | Some T => (regen_exact T wG wH, regen_folded T wG wH)
  | None => (true, true)
  end.
Lemma centre_refuted_witness :
  pair_wfb wG wH = true /\ no_explicit_H wG = true /\ consistent_H (its_construct wG wH) = true /\
  centre_carries (its_construct wG wH) = false /\
  (exists T, regenerate true false wG wH = Some T) /\ w_regen = (false, false).
Proof. vm_compute. repeat split; try reflexivity. eexists; reflexivity. Qed.
(** ... while the full ITS of the same reaction regenerates it *)
Example w_full_ok : match regenerate false false wG wH with Some T => regen_exact T wG wH | None => false end = true.
Proof. vm_compute. reflexivity. Qed.

Lemma centre_refuted : exists G H : hostg,
  pair_wfb G H = true /\ no_explicit_H G = true /\ consistent_H (its_construct G H) = true /\
  centre_carries (its_construct G H) = false /\
  exists T : its, regenerate true false G H = Some T /\ regen_exact T G H = false /\ regen_folded T G H = false.
Proof.
  exists wG, wH. destruct centre_refuted_witness as (H1 & H2 & H3 & H4 & (T & ET) & H5).
  repeat split; auto. exists T. split; [exact ET|]. unfold w_regen in H5. rewrite ET in H5. inversion H5. auto.
Qed.

(** non-vacuity of C04_centre_exact: the witness satisfies its hypotheses, backwards too *)
Example w_exact_bwd : match regenerate true true wG wH with Some T => regen_exact T wH wG | None => true end = false.
Proof. vm_compute. reflexivity. Qed.

(** non-vacuity of C04_identity_glue_any_rule, default (explicit-hydrogen) mode: bromoethane + water written with explicit
    centre hydrogens, [CH3:1][C:2]([H:5])([H:6])[Br:3].[O:4]([H:7])[H:8]>>[CH3:1][C:2]([H:5])([H:6])[O:4][H:8].[Br:3][H:7]
    (Br = 17010, O = 79): the rule prepared by _strip_explicit_h describes the pair of implicit-hydrogen sides *)
Definition eG : hostg :=
  LG [(1%N, NA 67%N false 3 0 []); (2%N, NA 67%N false 0 0 []); (5%N, NA 72%N false 0 0 []); (6%N, NA 72%N false 0 0 []);
      (3%N, NA 17010%N false 0 0 []); (4%N, NA 79%N false 0 0 []); (7%N, NA 72%N false 0 0 []); (8%N, NA 72%N false 0 0 [])]
     [(1%N, 2%N, 2); (2%N, 5%N, 2); (2%N, 6%N, 2); (2%N, 3%N, 2); (4%N, 7%N, 2); (4%N, 8%N, 2)].
Definition eH : hostg :=
  LG [(1%N, NA 67%N false 3 0 []); (2%N, NA 67%N false 0 0 []); (5%N, NA 72%N false 0 0 []); (6%N, NA 72%N false 0 0 []);
      (4%N, NA 79%N false 0 0 []); (8%N, NA 72%N false 0 0 []); (3%N, NA 17010%N false 0 0 []); (7%N, NA 72%N false 0 0 [])]
     [(1%N, 2%N, 2); (2%N, 5%N, 2); (2%N, 6%N, 2); (2%N, 4%N, 2); (4%N, 8%N, 2); (3%N, 7%N, 2)].
Definition e_rule : its := match rule_of true false eG eH with Some (rc, _, _) => rc | None => LG [] [] end.
Example e_mode : mode_E eG eH = true /\ consistent_H (its_construct eG eH) = true.
Proof. vm_compute. split; reflexivity. Qed.
Example e_describes :
  pair_wfb (substrate false eG eH) (h_to_implicit_host eH) = true /\
  describesb (substrate false eG eH) (h_to_implicit_host eH) e_rule = true /\ length (gnodes e_rule) = 3%nat.
Proof. vm_compute. repeat split; reflexivity. Qed.
Example e_regen_folded : match regenerate true false eG eH with Some T => regen_folded T eG eH | None => false end = true.
Proof. vm_compute. reflexivity. Qed.

(** non-vacuity of C04_in_results_symmetric / C04_identity_glue_any_rule_symmetric: dehydrogenation of ethane written with
    implicit hydrogens, [CH3:1][CH3:2]>>[CH2:1]=[CH2:2]; the rule is symmetric under the exchange of its two carbons *)
Definition sG : hostg := LG [(1%N, NA 67%N false 3 0 [67%N]); (2%N, NA 67%N false 3 0 [67%N])] [(1%N, 2%N, 2)].
Definition sH : hostg := LG [(1%N, NA 67%N false 2 0 [67%N]); (2%N, NA 67%N false 2 0 [67%N])] [(1%N, 2%N, 4)].
Definition swap12 (n : N) : N := if N.eqb n 1 then 2%N else if N.eqb n 2 then 1%N else n.
Example s_hyps : pair_wfb sG sH = true /\ no_explicit_H sG = true /\ centre_carries (its_construct sG sH) = true.
Proof. vm_compute. repeat split; reflexivity. Qed.
Example s_aut : rule_aut (template true false sG sH) swap12 swap12.
Proof.
  constructor.
  - intros n I. vm_compute in I. destruct I as [<-|[<-|[]]]; vm_compute; auto.
  - intros n a E. destruct (N.eq_dec n 1) as [->|N1]; [|destruct (N.eq_dec n 2) as [->|N2]].
    + vm_compute in E. inversion E; subst. eexists. split; [vm_compute; reflexivity|split; reflexivity].
    + vm_compute in E. inversion E; subst. eexists. split; [vm_compute; reflexivity|split; reflexivity].
    + exfalso. apply label_some_in in E. vm_compute in E. destruct E as [E|[E|[]]]; congruence.
  - intros u v x I. vm_compute in I. destruct I as [I|[]]. inversion I; subst. vm_compute. reflexivity.
  - intros u v x I. vm_compute in I. destruct I as [I|[]]. inversion I; subst. vm_compute. reflexivity.
Qed.
Example s_swapped_match_regenerates :
  aut_map (template true false sG sH) swap12 = [(1%N, 2%N); (2%N, 1%N)] /\
  match glue (substrate false sG sH) (template true false sG sH) [(1%N, 2%N); (2%N, 1%N)] with
  | Some T => regen_exact T sG sH | None => false end = true.
Proof. vm_compute. split; reflexivity. Qed.

(** non-vacuity of C04_identity_glue_default: bromoethane + water with the one migrating hydrogen explicit,
    [CH3:1][CH2:2][Br:3].[OH:4][H:7]>>[CH3:1][CH2:2][OH:4].[Br:3][H:7], satisfies its hypotheses for the centre and
    the full ITS, forwards and backwards *)
Definition dG : hostg :=
  LG [(1%N, NA 67%N false 3 0 []); (2%N, NA 67%N false 2 0 []); (3%N, NA 17010%N false 0 0 []); (4%N, NA 79%N false 1 0 []); (7%N, NA 72%N false 0 0 [])]
     [(1%N, 2%N, 2); (2%N, 3%N, 2); (4%N, 7%N, 2)].
Definition dH : hostg :=
  LG [(1%N, NA 67%N false 3 0 []); (2%N, NA 67%N false 2 0 []); (4%N, NA 79%N false 1 0 []); (3%N, NA 17010%N false 0 0 []); (7%N, NA 72%N false 0 0 [])]
     [(1%N, 2%N, 2); (2%N, 4%N, 2); (3%N, 7%N, 2)].
Example d_default_hyps :
  pair_wfb dG dH = true /\ mode_E dG dH = true /\ centre_carries (its_construct dG dH) = true /\
  default_okb dG dH (template true false dG dH) = true /\ default_okb dG dH (template false false dG dH) = true /\
  default_okb dH dG (template true true dG dH) = true /\ default_okb dH dG (template false true dG dH) = true.
Proof. vm_compute. repeat split; reflexivity. Qed.
(** spectator hydrogens written explicitly (eG / eH above: two on the carbon, one on the oxygen) are covered as well *)
Example e_default_scope : default_okb eG eH (template true false eG eH) = true /\ default_okb eG eH (template false false eG eH) = true /\
  default_okb eH eG (template true true eG eH) = true.
Proof. vm_compute. repeat split; reflexivity. Qed.

(** non-vacuity of C04_identity_among_raw: with C06's verified enumerator as [enum], on CH3I + NH3 (centre, forwards) the
    identity is found among the raw matches of the exhaustive strategy *)
From SK Require Import lib.Mono model.C06_Model lib.C06_Spec model.C04_Reactor proof.C04_Engine.
Definition ex_S : hostg := substrate false exG exH.
Definition ex_P : molg := match rule_of true false exG exH with Some (_, l, _) => pattern_of l | None => LG [] [] end.
Example ex_identity_found :
  existsb (fun m' => forallb (fun ph => existsb (fun qh => N.eqb (fst ph) (fst qh) && N.eqb (snd ph) (snd qh)) m') (id_map (node_ids ex_P))
                     && Nat.eqb (length m') (length (node_ids ex_P)))
          (C06_Model.find (monos_on (tr_host ex_S) (tr_pat ex_P)) (Cfg 0 0 100 true false) (tr_host ex_S) (tr_pat ex_P)) = true
  /\ forallb (fun p => 0 <=? m_hc (snd p)) (gnodes ex_P) = true
  /\ (lenN (monos_on (tr_host ex_S) (tr_pat ex_P) (node_ids (tr_host ex_S)) (node_ids (tr_pat ex_P))) <= 100)%N.
Proof. vm_compute. repeat split; try reflexivity. intros E; discriminate E. Qed.

(** non-vacuity of C04_pruned_results: the symmetric rule of ethane dehydrogenation (sG / sH above), raw = the two matches
    in the order that lists the swapped one first; faithful codes; the pruning keeps the swapped match only, and
    its_list on it regenerates the reaction *)
From SK Require Import model.C11_Model model.C04_Reactor proof.C04_Prune.
Definition s_cn (a : inode) : N := (a_el (iG a) + 100 * Z.to_N (a_hc (iG a)) + 10000 * Z.to_N (a_hc (iH a)))%N.
Definition s_ce (x : iedge) : N := (Z.to_N (C03_Model.eG x) + 100 * Z.to_N (C03_Model.eH x))%N.
Definition s_raw : list C03_Model.mapping := [[(1%N, 2%N); (2%N, 1%N)]; [(1%N, 1%N); (2%N, 2%N)]].
Example s_faithful : faithful s_cn s_ce (template true false sG sH).
Proof.
  split.
  - intros n a n' b I I'. vm_compute in I, I'. destruct I as [I|[I|[]]], I' as [I'|[I'|[]]]; inversion I; inversion I'; subst; intros _; split; reflexivity.
  - intros u v x u' v' z I I'. vm_compute in I, I'. destruct I as [I|[]], I' as [I'|[]]. inversion I; inversion I'; subst. reflexivity.
Qed.
Example s_pruned :
  C11_Model.prune (fun m : C03_Model.mapping => m) (tr_rule s_cn s_ce (template true false sG sH)) s_raw = [[(1%N, 2%N); (2%N, 1%N)]] /\
  existsb (fun f => match f with Some T => regen_exact T sG sH | None => false end)
          (its_list true false sG sH (C11_Model.prune (fun m : C03_Model.mapping => m) (tr_rule s_cn s_ce (template true false sG sH)) s_raw)) = true.
Proof. vm_compute. split; reflexivity. Qed.
