(** C08 — the nauty back-end: the model's search is the generic pruned search of C08_IR.v; its result is a
    permutation of the node set (faithful, onto 1..N); the canonical label is invariant under injective renumbering. *)
From Coq Require Import List NArith ZArith Bool Arith Lia Permutation.
From SK Require Import lib.LGraph lib.IRSortKeys lib.IRCore lib.IRSearch lib.StrJoin.
From SK Require Import model.C08_Model proof.C08_Spec proof.C08_Sort proof.C08_IR proof.C08_Faithful.
From SK Require lib.IRInst.
Import ListNotations.

(* ---------------- Python str order ---------------- *)
Lemma strleb_total a b : strleb a b = true \/ strleb b a = true.
Proof. apply IRInst.lexleb_total. Qed.
Lemma strleb_trans a b c : strleb a b = true -> strleb b c = true -> strleb a c = true.
Proof. apply IRInst.lexleb_trans. Qed.
Lemma map_ZofN_inj a : forall b, map Z.of_N a = map Z.of_N b -> a = b.
Proof.
  induction a as [|x a IH]; intros [|y b]; simpl; intros E; try discriminate; auto.
  inversion E. f_equal; auto. apply N2Z.inj. auto.
Qed.
Lemma strleb_antisym a b : strleb a b = true -> strleb b a = true -> a = b.
Proof. intros H1 H2. apply map_ZofN_inj. apply IRInst.lexleb_antisym; auto. Qed.

Lemma strleb_common s : forall t1 t2, strleb t1 t2 = true -> strleb (s ++ t1) (s ++ t2) = true.
Proof.
  unfold strleb. induction s as [|x s IH]; intros t1 t2 H; simpl; auto.
  rewrite Z.ltb_irrefl. apply IH. auto.
Qed.

(* ---------------- the model's search is the generic one ---------------- *)
Notation gs g := (gsearch _ lexleb (sigN g) (rfuel g) (children g) _ strleb (nlabel g) (npartial g)).
Notation lv g := (leaves2 _ lexleb (sigN g) (rfuel g) (children g)).

Lemma nsearch_gs g fuel : forall P pre a, nsearch g fuel P pre a = gs g fuel P pre a.
Proof.
  induction fuel as [|f IH]; intros P pre a; [reflexivity|].
  cbn [nsearch gsearch]. unfold nrefine, nvisit, npruned.
  destruct (first_big (refine lexleb (sigN g) (rfuel g) P)); [|reflexivity].
  apply fold_left_ext_in. intros a' v _. destruct (pruned strleb (npartial g) a' (pre ++ [v])); auto.
Qed.

Lemma nsearch_tr_fst g fuel : forall P pre s, fst (nsearch_tr g fuel P pre s) = nsearch g fuel P pre (fst s).
Proof.
  induction fuel as [|f IH]; intros P pre s; [reflexivity|].
  cbn [nsearch nsearch_tr].
  destruct (first_big (nrefine g P)) as [i|]; [|reflexivity].
  set (l := children g (nth i (nrefine g P) [])). clearbody l.
  change (fst s) with (fst (fst s, snd s ++ [(P, nrefine g P)])) at 2.
  generalize (fst s, snd s ++ [(P, nrefine g P)]). intros s0. revert s0.
  induction l as [|v l IHl]; intros s0; cbn [fold_left]; auto.
  rewrite IHl. f_equal. unfold trace in *.
  destruct (npruned g (fst s0) (pre ++ [v])); [reflexivity|apply IH].
Qed.

Lemma children_perm g c : Permutation (children g c) c.
Proof. apply sort_by_perm. Qed.

(* ---------------- labels: the partial label is a lower bound ---------------- *)
Lemma join_app sep xs ys : xs <> [] ->
  join sep (xs ++ ys) = join sep xs ++ match ys with [] => [] | _ => sep :: join sep ys end.
Proof.
  induction xs as [|x xs IH]; intros H; [congruence|].
  destruct xs as [|x2 xs].
  - simpl. destruct ys; [rewrite app_nil_r; reflexivity|reflexivity].
  - change (join sep ((x :: x2 :: xs) ++ ys)) with (x ++ sep :: join sep ((x2 :: xs) ++ ys)).
    rewrite IH by discriminate.
    change (join sep (x :: x2 :: xs)) with (x ++ sep :: join sep (x2 :: xs)).
    rewrite <- app_assoc. reflexivity.
Qed.

Lemma partial_lb_str g pre r : pre <> [] -> strleb (npartial g pre) (nlabel g (pre ++ r)) = true.
Proof.
  intros Hpre. unfold npartial, nlabel, node_seg. rewrite map_app, join_app by (destruct pre; simpl; congruence).
  rewrite <- app_assoc. apply strleb_common.
  change (repeat 123%N 1000) with (123%N :: repeat 123%N 999).
  destruct (map (node_str g) r); reflexivity.
Qed.

Lemma partial_lb g fuel P pre p : pre <> [] -> In p (lv g fuel P pre) -> strleb (npartial g pre) (nlabel g p) = true.
Proof.
  intros Hpre Hin. destruct (leaves2_prefix _ _ _ _ _ _ _ _ _ Hin) as (r & ->). apply partial_lb_str. auto.
Qed.

Theorem nsearch_is_fold g fuel P pre a :
  nsearch g fuel P pre a = fold_left (visit strleb (nlabel g)) (lv g fuel P pre) a.
Proof.
  rewrite nsearch_gs.
  apply (gsearch_is_fold _ lexleb (sigN g) (rfuel g) (children g) _ strleb strleb_total strleb_trans strleb_antisym
           (nlabel g) (npartial g)).
  intros. eapply partial_lb; eauto.
Qed.

(* ---------------- the initial partition is an ordered partition of the node set ---------------- *)
Lemma sorted_ids_perm g : Permutation (sorted_ids g) (node_ids g).
Proof. apply sort_by_perm. Qed.

Lemma init_vpart g : vpart (node_ids g) (init_partition g).
Proof.
  unfold init_partition. destruct (gnodes g) as [|p l] eqn:E.
  - unfold node_ids. rewrite E. split; simpl; auto.
  - split.
    + eapply perm_trans; [apply (split_cell_perm _ lexleb IRInst.lexleb_total IRInst.lexleb_trans IRInst.lexleb_antisym)|].
      apply sorted_ids_perm.
    + apply (split_cell_nonempty _ lexleb IRInst.lexleb_total IRInst.lexleb_antisym).
      intro H. pose proof (Permutation_length (sorted_ids_perm g)) as Hl. rewrite H in Hl.
      unfold node_ids in Hl. rewrite E in Hl. simpl in Hl. lia.
Qed.

(* ---------------- the best permutation is a leaf, hence a permutation of the nodes ---------------- *)
Lemma fold_visit_best (g : graph) l : forall a bl bp, fst (fold_left (visit strleb (nlabel g)) l a) = Some (bl, bp) ->
  (In bp l /\ bl = nlabel g bp) \/ fst a = Some (bl, bp).
Proof.
  induction l as [|p l IH]; intros a bl bp H; simpl in H; auto.
  destruct (IH _ _ _ H) as [[H1 H2]|H1]; [left; split; auto; right; auto|].
  unfold visit in H1. destruct (fst a) as [[bl0 bp0]|] eqn:Ea.
  - destruct (ltb strleb (nlabel g p) bl0); simpl in H1.
    + inversion H1; subst. left. split; auto. left; auto.
    + destruct (eqb strleb (nlabel g p) bl0); simpl in H1; right; congruence.
  - simpl in H1. inversion H1; subst. left. split; auto. left; auto.
Qed.

Theorem nauty_perm_leaf g : NoDup (node_ids g) ->
  In (nauty_perm g) (lv g (sfuel g) (init_partition g) []) /\ nauty_label g = Some (nlabel g (nauty_perm g)).
Proof.
  intros Hnd. unfold nauty_perm, nauty_label, nauty_acc.
  assert (Hf : fst (nsearch g (sfuel g) (init_partition g) [] (None, [])) <> None).
  { rewrite nsearch_gs.
    apply (gsearch_finds _ lexleb IRInst.lexleb_total IRInst.lexleb_trans IRInst.lexleb_antisym (sigN g) (rfuel g) (children g)
             (children_perm g) (node_ids g) Hnd); [apply init_vpart|].
    unfold sfuel, node_ids. rewrite map_length. lia. }
  destruct (fst (nsearch g (sfuel g) (init_partition g) [] (None, []))) as [[bl bp]|] eqn:E; [|congruence].
  rewrite nsearch_is_fold in E. apply fold_visit_best in E. simpl in E.
  destruct E as [[H1 H2]|H]; [|discriminate]. simpl. subst bl. auto.
Qed.

Theorem nauty_perm_perm g : NoDup (node_ids g) -> Permutation (nauty_perm g) (node_ids g).
Proof.
  intros Hnd. destruct (nauty_perm_leaf g Hnd) as [Hin _].
  apply (leaves2_perm _ lexleb IRInst.lexleb_total IRInst.lexleb_trans IRInst.lexleb_antisym (sigN g) (rfuel g) (children g)
           (children_perm g) (node_ids g) Hnd _ _ _ _ (init_vpart g)) in Hin; auto.
  split; [constructor|intros x []].
Qed.

(* ---------------- faithful / onto ---------------- *)
Theorem faithful_nauty g : NoDup (node_ids g) -> faithful g (canon_nauty g).
Proof.
  intros Hnd. pose proof (nauty_perm_perm g Hnd) as Hp.
  assert (Hndp : NoDup (nauty_perm g)) by (eapply Permutation_NoDup; [apply Permutation_sym; exact Hp|auto]).
  exists (apply_map (mapping_of (nauty_perm g))). split; [|split]; auto.
  apply inj_on_same. eapply inj_on_perm; [exact Hp|]. apply mapping_of_inj. auto.
Qed.

Theorem onto_nauty g : NoDup (node_ids g) -> onto_1N g (canon_nauty g).
Proof.
  intros Hnd. pose proof (nauty_perm_perm g Hnd) as Hp.
  assert (Hndp : NoDup (nauty_perm g)) by (eapply Permutation_NoDup; [apply Permutation_sym; exact Hp|auto]).
  unfold onto_1N, canon_nauty, node_ids, relabel. cbn [gnodes]. rewrite map_map. cbn [fst].
  change (map (fun x : N * nattr => apply_map (mapping_of (nauty_perm g)) (fst x)) (gnodes g))
    with (map (fun x : N * nattr => apply_map (mapping_of (nauty_perm g)) (fst x)) (gnodes g)).
  rewrite <- (map_map fst (apply_map (mapping_of (nauty_perm g)))).
  eapply perm_trans; [apply Permutation_map; apply Permutation_sym; exact Hp|].
  rewrite (mapping_of_map _ Hndp). rewrite (Permutation_length Hp). unfold node_ids. rewrite map_length. apply Permutation_refl.
Qed.

(* non-vacuity: C-O=C, two carbons with tied node keys told apart by the bond orders; the canonical ids are 1..3 *)
Example ex_nauty_ids : node_ids (canon_nauty ex_g) = [1%N; 3%N; 2%N] /\ NoDup (node_ids ex_g)
                       /\ length (snd (nauty_acc ex_g)) = 1.
Proof. split; [vm_compute; reflexivity|]. split; [repeat constructor; simpl; intuition discriminate|vm_compute; reflexivity]. Qed.

Print Assumptions faithful_nauty.
Print Assumptions onto_nauty.
