(** C13 -- proofs about model/C13_Trace.v: (1) the traced loops compute exactly what the loops of C13_Model.v compute (so every
    theorem about [gc_fit], [lib_check], [cluster], [fit] speaks about what the correspondence evaluates through [runx]);
    (2) what the traces contain; (3) the constructor contract; (4) the matchers on raw dictionaries. *)
From Coq Require Import List NArith ZArith Bool Arith Lia Permutation.
From SK Require Import lib.Tok lib.LGraph lib.Mono model.C13_Model model.C13_Trace proof.C13_Proof.
Import ListNotations.
Local Open Scope nat_scope.

Lemma nodup_app_intro {X} (a b : list X) : NoDup a -> NoDup b -> (forall x, In x a -> In x b -> False) -> NoDup (a ++ b).
Proof.
  induction a as [|x r IH]; intros Ha Hb Hd; simpl; [exact Hb|]. inversion Ha; subst. constructor.
  - intros Hin. apply in_app_or in Hin. destruct Hin as [Hin|Hin]; [contradiction|]. apply (Hd x); [now left|exact Hin].
  - apply IH; auto. intros y Hy. apply Hd. now right.
Qed.

Section Tr.
Variable iso : item -> item -> bool.
Variable mode : attr_mode.

(* ------------------------------------------------------------------ 1. projections *)
Lemma gc_inner_tr_fst i xi c rest : forall st tr,
  fst (gc_inner_tr iso mode i xi c rest st tr) = gc_inner iso mode xi c rest st.
Proof.
  induction rest as [|[j xj] r IH]; intros [[cl vis] rc] tr; simpl; [reflexivity|].
  destruct (zlist_eqb (gc_key mode xi) (gc_key mode xj) && negb (memb j vis)); [destruct (iso xi xj)|]; apply IH.
Qed.

Lemma gc_outer_tr_fst todo : forall visited clusters r2c tr,
  fst (gc_outer_tr iso mode todo visited clusters r2c tr) = gc_outer iso mode todo visited clusters r2c.
Proof.
  induction todo as [|[i xi] rest IH]; intros visited clusters r2c tr; simpl; [reflexivity|].
  destruct (memb i visited); [apply IH|].
  pose proof (gc_inner_tr_fst i xi (length clusters) rest ([i], i :: visited, r2c ++ [(i, length clusters)]) tr) as H.
  destruct (gc_inner_tr iso mode i xi (length clusters) rest ([i], i :: visited, r2c ++ [(i, length clusters)]) tr)
    as [[[cl vis] rc] tr'].
  simpl in H. rewrite <- H. apply IH.
Qed.

Lemma gc_iterative_tr_fst rules : fst (gc_iterative_tr iso mode rules) = gc_iterative iso mode rules.
Proof. apply gc_outer_tr_fst. Qed.

Lemma gc_fit_tr_fst data : fst (gc_fit_tr iso mode data) = gc_fit iso mode data.
Proof.
  unfold gc_fit_tr, gc_fit. rewrite <- gc_iterative_tr_fst.
  destruct (gc_iterative_tr iso mode data) as [[cl rc] tr]. reflexivity.
Qed.

Lemma find_tr_fst x sub : fst (find_tr iso x sub) = find (fun t => iso (fst t) x) sub.
Proof.
  induction sub as [|t r IH]; simpl; [reflexivity|]. destruct (iso (fst t) x); [reflexivity|].
  destruct (find_tr iso x r). exact IH.
Qed.

Lemma lib_check_tr_fst x ts : fst (lib_check_tr iso mode x ts) = lib_check iso mode x ts.
Proof.
  unfold lib_check_tr, lib_check.
  rewrite <- (find_tr_fst x (filter (fun t => zlist_eqb (bc_key mode (fst t)) (bc_key mode x)) ts)).
  destruct (find_tr iso x (filter (fun t => zlist_eqb (bc_key mode (fst t)) (bc_key mode x)) ts)) as [[t|] tested]; reflexivity.
Qed.

Lemma cluster_tr_fst data : forall ts, fst (cluster_tr iso mode data ts) = cluster iso mode data ts.
Proof.
  induction data as [|x r IH]; intros ts; simpl; [reflexivity|].
  pose proof (lib_check_tr_fst x ts) as H. destruct (lib_check_tr iso mode x ts) as [[c ts1] tested]. simpl in H. rewrite <- H.
  pose proof (IH ts1) as H2. destruct (cluster_tr iso mode r ts1) as [[cs ts2] tr]. simpl in H2. rewrite <- H2. reflexivity.
Qed.

Lemma cluster_batches_tr_fst batches : forall ts,
  fst (cluster_batches_tr iso mode batches ts) = cluster_batches iso mode batches ts.
Proof.
  induction batches as [|b r IH]; intros ts; simpl; [reflexivity|].
  pose proof (cluster_tr_fst b ts) as H. destruct (cluster_tr iso mode b ts) as [[cs ts1] tr]. simpl in H. rewrite <- H.
  pose proof (IH ts1) as H2. destruct (cluster_batches_tr iso mode r ts1) as [[cs' ts2] tr']. simpl in H2. rewrite <- H2. reflexivity.
Qed.

Theorem fit_tr_fst data ts bs picks : fst (fit_tr iso mode data ts bs picks) = fit iso mode data ts bs picks.
Proof.
  unfold fit_tr, fit. destruct (match bs with Some b => chunks b data | None => [data] end) as [|batch [|b2 rest]].
  - reflexivity.
  - destruct ts as [|t ts'].
    + pose proof (gc_fit_tr_fst batch) as H. destruct (gc_fit_tr iso mode batch) as [cls tr]. simpl in H. rewrite <- H. reflexivity.
    + apply cluster_tr_fst.
  - apply cluster_batches_tr_fst.
Qed.

(* ------------------------------------------------------------------ 2a. the trace of lib_check *)
(** the tested templates are the templates with the entry's attribute key, in library order, up to and including the first
    isomorphic one (all of them when none is isomorphic) *)
Lemma find_tr_spec x sub :
  match find_tr iso x sub with
  | (Some t, tested) =>
      exists pre post, sub = pre ++ t :: post /\ tested = pre ++ [t] /\ iso (fst t) x = true /\
                       forall u, In u pre -> iso (fst u) x = false
  | (None, tested) => tested = sub /\ forall u, In u sub -> iso (fst u) x = false
  end.
Proof.
  induction sub as [|t r IH]; simpl.
  - split; [reflexivity|intros u []].
  - destruct (iso (fst t) x) eqn:E.
    + exists [], r. repeat split; auto. intros u [].
    + destruct (find_tr iso x r) as [[t'|] tested].
      * destruct IH as (pre & post & -> & -> & Ht & Hpre). exists (t :: pre), post. repeat split; auto.
        intros u [<-|Hu]; [exact E|now apply Hpre].
      * destruct IH as (-> & Hall). split; [reflexivity|]. intros u [<-|Hu]; [exact E|now apply Hall].
Qed.

Theorem lib_check_trace x ts :
  let sub := filter (fun t => zlist_eqb (bc_key mode (fst t)) (bc_key mode x)) ts in
  let tested := snd (lib_check_tr iso mode x ts) in
  (forall u, In u tested -> In u ts /\ bc_key mode (fst u) = bc_key mode x) /\
  ((exists pre t post, sub = pre ++ t :: post /\ tested = pre ++ [t] /\ iso (fst t) x = true /\
                       (forall u, In u pre -> iso (fst u) x = false) /\
                       lib_check iso mode x ts = (snd t, ts)) \/
   (tested = sub /\ (forall u, In u sub -> iso (fst u) x = false) /\ snd (lib_check iso mode x ts) = ts ++ [(x, fst (lib_check iso mode x ts))])).
Proof.
  intros sub tested. rewrite <- (lib_check_tr_fst x ts). unfold tested, lib_check_tr. fold sub.
  pose proof (find_tr_spec x sub) as S. destruct (find_tr iso x sub) as [[t|] tst]; simpl.
  - destruct S as (pre & post & Es & -> & Ht & Hpre). split.
    + intros u Hu. assert (In u sub) as I.
      { rewrite Es. apply in_app_or in Hu. apply in_or_app. destruct Hu as [Hu|[<-|[]]]; [now left|right; now left]. }
      apply filter_In in I. destruct I as (I & K). split; [exact I|now apply zlist_eqb_eq].
    + left. exists pre, t, post. repeat split; auto.
  - destruct S as (-> & Hall). split.
    + intros u Hu. apply filter_In in Hu. destruct Hu as (I & K). split; [exact I|now apply zlist_eqb_eq].
    + right. repeat split; auto.
Qed.

(* ------------------------------------------------------------------ 2b. the trace of iterative_cluster *)
(** invariant of the inner loop: new entries are (i, j) with j from [rest], equal keys; old entries are kept in front *)
Lemma gc_inner_tr_app i xi c rest : forall st tr,
  exists added, snd (gc_inner_tr iso mode i xi c rest st tr) = tr ++ added /\
    (forall p, In p added -> fst p = i /\ exists xj, In (snd p, xj) rest /\ gc_key mode xi = gc_key mode xj) /\
    (NoDup (map fst rest) -> NoDup added).
Proof.
  induction rest as [|[j xj] r IH]; intros [[cl vis] rc] tr; simpl.
  - exists []. rewrite app_nil_r. split; [reflexivity|split; [intros p []|intros _; constructor]].
  - destruct (zlist_eqb (gc_key mode xi) (gc_key mode xj) && negb (memb j vis)) eqn:Ec.
    + apply andb_prop in Ec. destruct Ec as (Ek & _). apply zlist_eqb_eq in Ek.
      assert (forall st', exists added, snd (gc_inner_tr iso mode i xi c r st' (tr ++ [(i, j)])) = tr ++ added /\
                (forall p, In p added -> fst p = i /\ exists xj0, In (snd p, xj0) ((j, xj) :: r) /\ gc_key mode xi = gc_key mode xj0) /\
                (NoDup (map fst ((j, xj) :: r)) -> NoDup added)) as K.
      { intros st'. destruct (IH st' (tr ++ [(i, j)])) as (added & E & P & ND). exists ((i, j) :: added).
        split; [rewrite E, <- app_assoc; reflexivity|]. split.
        - intros p [<-|Hp]; [split; [reflexivity|exists xj; split; [now left|exact Ek]]|].
          destruct (P p Hp) as (F & xj0 & I0 & K0). split; [exact F|]. exists xj0. split; [now right|exact K0].
        - intros Hnd. simpl in Hnd. inversion Hnd as [|? ? Hnot Hnd']; subst. constructor; [|now apply ND].
          intros Hin. destruct (P _ Hin) as (_ & xj0 & I0 & _). simpl in I0. apply Hnot.
          change j with (fst (j, xj0)). now apply in_map. }
      destruct (iso xi xj); apply K.
    + destruct (IH (cl, vis, rc) tr) as (added & E & P & ND). exists added. split; [exact E|]. split.
      * intros p Hp. destruct (P p Hp) as (F & xj0 & I0 & K0). split; [exact F|]. exists xj0. split; [now right|exact K0].
      * intros Hnd. simpl in Hnd. inversion Hnd; subst. now apply ND.
Qed.

Lemma gc_outer_tr_trace todo : forall visited clusters r2c tr,
  NoDup (map fst todo) ->
  exists added, snd (gc_outer_tr iso mode todo visited clusters r2c tr) = tr ++ added /\
    (forall p, In p added -> exists xi xj rest1 rest2, todo = rest1 ++ (fst p, xi) :: rest2 /\ In (snd p, xj) rest2 /\
                                        gc_key mode xi = gc_key mode xj) /\
    NoDup added.
Proof.
  induction todo as [|[i xi] rest IH]; intros visited clusters r2c tr Hnd; simpl.
  - exists []. rewrite app_nil_r. split; [reflexivity|split; [intros p []|constructor]].
  - simpl in Hnd. inversion Hnd as [|? ? Hnot Hnd']; subst.
    assert (Lift : forall added, (forall p, In p added -> exists xi0 xj rest1 rest2, rest = rest1 ++ (fst p, xi0) :: rest2 /\ In (snd p, xj) rest2 /\
                                        gc_key mode xi0 = gc_key mode xj) ->
                   forall p, In p added -> exists xi0 xj rest1 rest2, (i, xi) :: rest = rest1 ++ (fst p, xi0) :: rest2 /\ In (snd p, xj) rest2 /\
                                        gc_key mode xi0 = gc_key mode xj).
    { intros added P p Hp. destruct (P p Hp) as (xi0 & xj & r1 & r2 & E & I2 & K). exists xi0, xj, ((i, xi) :: r1), r2.
      split; [now rewrite E|split; assumption]. }
    destruct (memb i visited).
    + destruct (IH visited clusters r2c tr Hnd') as (added & E & P & ND). exists added. split; [exact E|]. split; [now apply Lift|exact ND].
    + destruct (gc_inner_tr_app i xi (length clusters) rest ([i], i :: visited, r2c ++ [(i, length clusters)]) tr)
        as (a1 & E1 & P1 & ND1).
      destruct (gc_inner_tr iso mode i xi (length clusters) rest ([i], i :: visited, r2c ++ [(i, length clusters)]) tr)
        as [[[cl vis] rc] tr'] eqn:Ei. simpl in E1. subst tr'.
      destruct (IH vis (clusters ++ [cl]) rc (tr ++ a1) Hnd') as (a2 & E2 & P2 & ND2).
      exists (a1 ++ a2). split; [rewrite E2, app_assoc; reflexivity|]. split.
      * intros p Hp. apply in_app_or in Hp. destruct Hp as [Hp|Hp].
        -- destruct (P1 p Hp) as (F & xj & I2 & K). exists xi, xj, [], rest. split; [simpl; now rewrite F|split; assumption].
        -- now apply (Lift a2 P2).
      * apply nodup_app_intro; [now apply ND1|exact ND2|].
        intros p H1 H2. destruct (P1 p H1) as (F & _). destruct (P2 p H2) as (xi0 & xj & r1 & r2 & E & _).
        apply Hnot. rewrite E, map_app. apply in_or_app. right. simpl. left. exact F.
Qed.

End Tr.

(* ------------------------------------------------------------------ 2c. the trace of iterative_cluster, by list positions *)
Lemma enum_from_split {X} (l : list X) : forall s r1 i x r2,
  enum_from s l = r1 ++ (i, x) :: r2 ->
  i = s + length r1 /\ nth_error l (length r1) = Some x /\
  forall j xj, In (j, xj) r2 -> i < j /\ nth_error l (j - s) = Some xj /\ j < s + length l.
Proof.
  induction l as [|y l IH]; intros s r1 i x r2 E; simpl in E.
  - destruct r1; discriminate.
  - destruct r1 as [|p r1]; simpl in E.
    + injection E as <- <- <-. split; [simpl; lia|split; [reflexivity|]].
      intros j xj Hj. clear IH. revert s Hj. generalize l at 1 2 3. intros l0.
      assert (G : forall (l1 : list X) s0, In (j, xj) (enum_from s0 l1) -> s0 <= j /\ nth_error l1 (j - s0) = Some xj /\ j < s0 + length l1).
      { induction l1 as [|z l1 IH1]; intros s0 H; simpl in H; [destruct H|]. destruct H as [H|H].
        - injection H as <- <-. rewrite Nat.sub_diag. simpl. repeat split; lia.
        - destruct (IH1 (S s0) H) as (A & B & C). split; [lia|]. split; [|simpl; lia].
          replace (j - s0) with (S (j - S s0)) by lia. exact B. }
      intros s Hj. destruct (G l0 (S s) Hj) as (A & B & C). split; [lia|]. split; [|simpl; lia].
      replace (j - s) with (S (j - S s)) by lia. exact B.
    + injection E as _ E. destruct (IH (S s) r1 i x r2 E) as (A & B & C). split; [simpl; lia|]. split; [exact B|].
      intros j xj Hj. destruct (C j xj Hj) as (C1 & C2 & C3). split; [exact C1|]. split; [|simpl; lia].
      replace (j - s) with (S (j - S s)) by lia. exact C2.
Qed.

Fixpoint pairs_below (n : nat) : list (nat * nat) :=
  match n with
  | O => []
  | S m => pairs_below m ++ map (fun i => (i, m)) (seq 0 m)
  end.

Lemma pairs_below_in n : forall i j, i < j < n -> In (i, j) (pairs_below n).
Proof.
  induction n as [|m IH]; intros i j H; [lia|]. simpl. apply in_or_app.
  destruct (Nat.eq_dec j m) as [->|Hne].
  - right. apply in_map_iff. exists i. split; [reflexivity|]. apply in_seq. lia.
  - left. apply IH. lia.
Qed.

Lemma pairs_below_length n : 2 * length (pairs_below n) = n * (n - 1).
Proof.
  induction n as [|m IH]; [reflexivity|]. simpl pairs_below. rewrite app_length, map_length, seq_length.
  replace (S m - 1) with m by lia. destruct m as [|k]; [simpl; lia|]. replace (S k - 1) with k in IH by lia. nia.
Qed.

Section Tr2.
Variable iso : item -> item -> bool.
Variable mode : attr_mode.

(** every test of iterative_cluster compares an earlier position with a later one carrying the same normalised attribute;
    no pair of positions is tested twice; hence at most n(n-1)/2 tests *)
Theorem gc_trace data :
  let tr := snd (gc_iterative_tr iso mode data) in
  NoDup tr /\
  (forall i j, In (i, j) tr ->
     i < j < length data /\
     exists xi xj, nth_error data i = Some xi /\ nth_error data j = Some xj /\ gc_key mode xi = gc_key mode xj) /\
  2 * length tr <= length data * (length data - 1).
Proof.
  intros tr. unfold tr, gc_iterative_tr.
  assert (Hnd : NoDup (map fst (enum_from 0 data))) by (rewrite enum_from_fst; apply seq_NoDup).
  destruct (gc_outer_tr_trace iso mode (enum_from 0 data) [] [] [] [] Hnd) as (added & E & P & ND).
  rewrite E. simpl.
  assert (Q : forall i j, In (i, j) added -> i < j < length data /\
             exists xi xj, nth_error data i = Some xi /\ nth_error data j = Some xj /\ gc_key mode xi = gc_key mode xj).
  { intros i j H. destruct (P _ H) as (xi & xj & r1 & r2 & Es & I2 & K). simpl in Es, I2.
    destruct (enum_from_split data 0 r1 i xi r2 Es) as (A & B & C). destruct (C j xj I2) as (C1 & C2 & C3).
    simpl in A, C3. rewrite Nat.sub_0_r in C2. split; [lia|]. exists xi, xj. subst i. repeat split; assumption. }
  split; [exact ND|split; [exact Q|]].
  assert (LE : length added <= length (pairs_below (length data))).
  { apply NoDup_incl_length; [exact ND|]. intros [i j] H. apply pairs_below_in. exact (proj1 (Q i j H)). }
  pose proof (pairs_below_length (length data)) as PL. lia.
Qed.

(** the old two-slot entry point is the instance [star; zero] of the traced one: same library after every call *)
Theorem stepx_state star zero mo pool ts o :
  snd (stepx [star; zero] mo pool ts (OBase o)) = snd (step star zero mo pool ts o).
Proof.
  destruct o as [idxs labelled|idxs|l| |i|idxs|idxs bs picks]; simpl.
  - destruct (gc_iterative_tr (item_iso labelled [star; zero]) mo (map (pick pool) idxs)) as [[cl rc] tr].
    destruct (gc_iterative (item_iso labelled [star; zero]) mo (map (pick pool) idxs)). reflexivity.
  - destruct (gc_fit_tr (item_iso true [star; zero]) mo (map (pick pool) idxs)). reflexivity.
  - reflexivity.
  - reflexivity.
  - pose proof (lib_check_tr_fst (item_iso true [star; zero]) mo (pick pool i) ts) as H.
    destruct (lib_check_tr (item_iso true [star; zero]) mo (pick pool i) ts) as [[c ts'] tested].
    destruct (lib_check (item_iso true [star; zero]) mo (pick pool i) ts). simpl in H. now injection H.
  - pose proof (cluster_tr_fst (item_iso true [star; zero]) mo (map (pick pool) idxs) ts) as H.
    destruct (cluster_tr (item_iso true [star; zero]) mo (map (pick pool) idxs) ts) as [[cs ts'] tr].
    destruct (cluster (item_iso true [star; zero]) mo (map (pick pool) idxs) ts). simpl in H. now injection H.
  - pose proof (fit_tr_fst (item_iso true [star; zero]) mo (map (pick pool) idxs) ts bs picks) as H.
    destruct (fit_tr (item_iso true [star; zero]) mo (map (pick pool) idxs) ts bs picks) as [[cs ts'] tr].
    destruct (fit (item_iso true [star; zero]) mo (map (pick pool) idxs) ts bs picks). simpl in H. now injection H.
Qed.
End Tr2.

(* ------------------------------------------------------------------ 3. constructor contract *)
Theorem ctor_contract_spec gc inst nn nd b :
  (ctor_contract gc inst nn nd b = CtorOk <-> available gc inst b = true /\ nn = nd) /\
  (ctor_contract gc inst nn nd b = CtorImportError <->
     available gc inst b = false /\ ((gc = true /\ b = BMod) \/ (gc = false /\ b = BRule))) /\
  (available gc false b = true <-> b = BNx).
Proof.
  unfold ctor_contract.
  destruct gc, inst, b; simpl; destruct (Nat.eqb_spec nn nd) as [E|E]; simpl;
    (split; [|split]); split; intros H; try discriminate; try reflexivity; try tauto;
    try (destruct H as (H1 & H2); try discriminate; try contradiction);
    try (destruct H2 as [(A & B)|(A & B)]; discriminate).
Qed.

(* ------------------------------------------------------------------ 4. matchers on raw dictionaries *)
Lemma node_match_raw13_project names : forall defs h p, length defs = length names ->
  node_match_raw13 names defs h p =
  attrs_match defs (map (fun k => LGraph.assoc k h) names) (map (fun k => LGraph.assoc k p) names).
Proof.
  induction names as [|k ks IH]; intros [|d ds] h p E; simpl in *; try discriminate; [reflexivity|].
  rewrite IH by lia. reflexivity.
Qed.

Lemma edge_match_raw13_project k h p :
  edge_match_raw13 k h p = edge_match true (LGraph.assoc k h) (LGraph.assoc k p).
Proof. reflexivity. Qed.

Lemma project13_ids c g : node_ids (project13 c g) = node_ids g.
Proof. unfold node_ids, project13. simpl. rewrite map_map. apply map_ext. reflexivity. Qed.

Lemma project13_label c g u :
  label (project13 c g) u = option_map (fun a => map (fun k => LGraph.assoc k a) (cc_names c)) (label g u).
Proof.
  unfold label, project13. simpl. induction (gnodes g) as [|[k a] r IH]; simpl; [reflexivity|].
  destruct (N.eqb u k); [reflexivity|exact IH].
Qed.

Lemma project13_adj c g u v :
  LGraph.adj (project13 c g) u v = option_map (LGraph.assoc (cc_edge c)) (LGraph.adj g u v).
Proof.
  unfold LGraph.adj, project13. simpl. induction (gedges g) as [|[[a b] x] r IH]; simpl; [reflexivity|].
  destruct ((N.eqb a u && N.eqb b v) || (N.eqb a v && N.eqb b u)); [reflexivity|exact IH].
Qed.

(** on projected graphs the label test of graph_iso is the raw generic_node_match, the bond test the raw generic_edge_match *)
Theorem project13_matchers c (g1 g2 : rgraph13) u v u' v' : length (cc_defs c) = length (cc_names c) ->
  node_match true (cc_defs c) (label (project13 c g1) u) (label (project13 c g2) v) =
    match label g1 u, label g2 v with
    | Some a, Some b => node_match_raw13 (cc_names c) (cc_defs c) a b
    | _, _ => false
    end /\
  match LGraph.adj (project13 c g1) u u', LGraph.adj (project13 c g2) v v' with
  | Some a, Some b => edge_match true a b
  | _, _ => false
  end =
  match LGraph.adj g1 u u', LGraph.adj g2 v v' with
  | Some a, Some b => edge_match_raw13 (cc_edge c) a b
  | _, _ => false
  end.
Proof.
  intros EL. rewrite !project13_label, !project13_adj. split.
  - destruct (label g1 u), (label g2 v); simpl; try reflexivity. now rewrite node_match_raw13_project.
  - destruct (LGraph.adj g1 u u'), (LGraph.adj g2 v v'); reflexivity.
Qed.

(* ------------------------------------------------------------------ non-vacuity *)
Module Example_trace.
Local Open Scope nat_scope.
(** items: ids 0..3; graphs: single atoms C, C, O, C (element codes 1, 1, 2, 1); attribute lists: [7], [7], [7], [8] *)
Definition atom (e : N) : graph := LG [(1%N, [Some e; None])] [].
Definition pool : list item :=
  [MkItem 0 [7%Z] (atom 1); MkItem 1 [7%Z] (atom 1); MkItem 2 [7%Z] (atom 2); MkItem 3 [8%Z] (atom 1)].
Definition isoE := item_iso true [0%N; 0%N].
(** one-shot: 0 is tested against 1 (joined) and 2 (not), never against 3 (other key); then 2 has nobody left *)
Example gc_trace_example : gc_iterative_tr isoE AStr pool = ([[0; 1]; [2]; [3]], [(0, 0); (1, 0); (2, 1); (3, 2)], [(0, 1); (0, 2)]).
Proof. vm_compute. reflexivity. Qed.
(** incremental: item 1 against the library [2:5; 0:9; 3:4] is tested against 2 (no) and 0 (yes) and not against 3 *)
Example lib_trace_example :
  lib_check_tr isoE AStr (nth 1 pool dummy) [(nth 2 pool dummy, 5%Z); (nth 0 pool dummy, 9%Z); (nth 3 pool dummy, 4%Z)] =
  (9%Z, [(nth 2 pool dummy, 5%Z); (nth 0 pool dummy, 9%Z); (nth 3 pool dummy, 4%Z)], [(nth 2 pool dummy, 5%Z); (nth 0 pool dummy, 9%Z)]).
Proof. vm_compute. reflexivity. Qed.
Example ctor_examples :
  ctor_contract true false 2 2 BNx = CtorOk /\ ctor_contract true false 2 1 BNx = CtorValueError /\
  ctor_contract true false 2 1 BMod = CtorImportError /\ ctor_contract false false 2 2 BMod = CtorValueError /\
  ctor_contract false false 1 1 BRule = CtorImportError /\ ctor_contract true false 1 1 BOther = CtorValueError.
Proof. repeat split. Qed.
(** three labels (element, charge, hcount): the third label separates two otherwise equal atoms *)
Definition a3 (h : N) : graph := LG [(1%N, [Some 1%N; None; Some h])] [].
Example three_labels :
  item_iso true [0; 0; 0]%N (MkItem 0 [] (a3 1)) (MkItem 1 [] (a3 2)) = false /\
  item_iso true [0; 0]%N (MkItem 0 [] (a3 1)) (MkItem 1 [] (a3 2)) = true.
Proof. split; vm_compute; reflexivity. Qed.
(** raw dictionaries: keys 0 element, 1 charge, 2 hcount; edge key 0 order *)
Definition rg : rgraph13 := LG [(1%N, [(2%N, 5%N); (0%N, 1%N)]); (2%N, [(0%N, 2%N)])] [(1%N, 2%N, [(0%N, [4%Z])])].
Example project_example :
  project13 {| cc_names := [0; 1]%N; cc_defs := [0; 0]%N; cc_edge := 0%N |} rg =
  LG [(1%N, [Some 1%N; None]); (2%N, [Some 2%N; None])] [(1%N, 2%N, Some [4%Z])].
Proof. reflexivity. Qed.
End Example_trace.

(* ------------------------------------------------------------------ 2d. the tested earlier position is a cluster's first member *)
Section TrHeads.
Variable iso : item -> item -> bool.
Variable mode : attr_mode.

Lemma gc_inner_tr_cluster i xi c rest : forall cl vis rc tr,
  exists more, fst (fst (fst (gc_inner_tr iso mode i xi c rest (cl, vis, rc) tr))) = cl ++ more.
Proof.
  induction rest as [|[j xj] r IH]; intros cl vis rc tr; simpl.
  - exists []. now rewrite app_nil_r.
  - destruct (zlist_eqb (gc_key mode xi) (gc_key mode xj) && negb (memb j vis)); [destruct (iso xi xj)|]; try apply IH.
    destruct (IH (cl ++ [j]) (j :: vis) (rc ++ [(j, c)]) (tr ++ [(i, j)])) as (more & E).
    exists (j :: more). rewrite E, <- app_assoc. reflexivity.
Qed.

Lemma gc_outer_tr_heads todo : forall visited clusters r2c tr,
  exists cls_added tr_added,
    fst (fst (gc_outer_tr iso mode todo visited clusters r2c tr)) = clusters ++ cls_added /\
    snd (gc_outer_tr iso mode todo visited clusters r2c tr) = tr ++ tr_added /\
    forall p, In p tr_added -> exists cl, In (fst p :: cl) cls_added.
Proof.
  induction todo as [|[i xi] rest IH]; intros visited clusters r2c tr; simpl.
  - exists [], []. rewrite !app_nil_r. split; [reflexivity|split; [reflexivity|intros p []]].
  - destruct (memb i visited); [apply IH|].
    destruct (gc_inner_tr_app iso mode i xi (length clusters) rest ([i], i :: visited, r2c ++ [(i, length clusters)]) tr)
      as (a1 & E1 & P1 & _).
    destruct (gc_inner_tr_cluster i xi (length clusters) rest [i] (i :: visited) (r2c ++ [(i, length clusters)]) tr) as (more & Ec).
    destruct (gc_inner_tr iso mode i xi (length clusters) rest ([i], i :: visited, r2c ++ [(i, length clusters)]) tr)
      as [[[cl vis] rc] tr'] eqn:Ei. simpl in E1, Ec. subst tr' cl.
    destruct (IH vis (clusters ++ [i :: more]) rc (tr ++ a1)) as (ca & ta & Ecl & Etr & Hh).
    exists ((i :: more) :: ca), (a1 ++ ta). split; [rewrite Ecl, <- app_assoc; reflexivity|].
    split; [rewrite Etr, <- app_assoc; reflexivity|].
    intros p Hp. apply in_app_or in Hp. destruct Hp as [Hp|Hp].
    + destruct (P1 p Hp) as (F & _). exists more. left. simpl. now rewrite F.
    + destruct (Hh p Hp) as (cl & Hcl). exists cl. now right.
Qed.

(** every test of iterative_cluster has the FIRST member of some returned cluster as its first argument: an item is only ever
    compared with the representative of a class (the transitivity shortcut of the code, made visible) *)
Theorem gc_trace_heads data i j :
  In (i, j) (snd (gc_iterative_tr iso mode data)) ->
  exists cl, In (i :: cl) (fst (fst (gc_iterative_tr iso mode data))).
Proof.
  unfold gc_iterative_tr. intros H.
  destruct (gc_outer_tr_heads (enum_from 0 data) [] [] [] []) as (ca & ta & Ecl & Etr & Hh).
  rewrite Etr in H. simpl in H. rewrite Ecl. simpl. exact (Hh _ H).
Qed.

End TrHeads.

Theorem gc_trace_full (iso : item -> item -> bool) (mode : attr_mode) (data : list item) :
  let tr := snd (gc_iterative_tr iso mode data) in
  NoDup tr /\
  (forall i j, In (i, j) tr ->
     i < j < length data /\
     (exists xi xj, nth_error data i = Some xi /\ nth_error data j = Some xj /\ gc_key mode xi = gc_key mode xj) /\
     (exists cl, In (i :: cl) (fst (fst (gc_iterative_tr iso mode data))))) /\
  2 * length tr <= length data * (length data - 1).
Proof.
  intros tr. destruct (gc_trace iso mode data) as (A & B & C). split; [exact A|split; [|exact C]].
  intros i j H. destruct (B i j H) as (B1 & B2). split; [exact B1|split; [exact B2|exact (gc_trace_heads iso mode data i j H)]].
Qed.

(* ------------------------------------------------------------------ 5. graph_isomorphism: option handling *)
Lemma graph_iso2_diag b defs g1 g2 : graph_iso2 b b defs g1 g2 = graph_iso b defs g1 g2.
Proof. reflexivity. Qed.

(** both matchers given: the caller's configuration decides, use_defaults is irrelevant; no matcher and use_defaults: the
    function's defaults; no matcher, no defaults: topology only *)
Theorem iso_call_cases c cdef g1 g2 :
  (forall ud, iso_call c cdef true true ud g1 g2 = graph_iso true (cc_defs c) (project13 c g1) (project13 c g2)) /\
  iso_call c cdef false false true g1 g2 = graph_iso true (cc_defs cdef) (project13 cdef g1) (project13 cdef g2) /\
  iso_call c cdef false false false g1 g2 =
    graph_iso false [] (project13 {| cc_names := []; cc_defs := []; cc_edge := 0%N |} g1)
                       (project13 {| cc_names := []; cc_defs := []; cc_edge := 0%N |} g2) /\
  iso_call c cdef true false true g1 g2 =
    graph_iso true (cc_defs c) (project13 {| cc_names := cc_names c; cc_defs := cc_defs c; cc_edge := cc_edge cdef |} g1)
                               (project13 {| cc_names := cc_names c; cc_defs := cc_defs c; cc_edge := cc_edge cdef |} g2).
Proof.
  split; [intros ud; destruct c; reflexivity|]. split; [destruct cdef; reflexivity|]. split; reflexivity.
Qed.

Module Example_iso_call.
(** C(charge +1) against C(no charge): different for the caller's [element; charge] matcher, equal without node matcher *)
Definition cE : ccfg := {| cc_names := [0; 1]%N; cc_defs := [0; 9]%N; cc_edge := 0%N |}.
Definition gP : rgraph13 := LG [(1%N, [(0%N, 1%N); (1%N, 5%N)])] [].
Definition gQ : rgraph13 := LG [(2%N, [(0%N, 1%N)])] [].
Example iso_call_example :
  iso_call cE cE true true false gP gQ = false /\ iso_call cE cE false true false gP gQ = true /\
  iso_call cE cE false false true gP gQ = false.
Proof. repeat split; vm_compute; reflexivity. Qed.
End Example_iso_call.
