(** C05 — SynReactor(partial=True): the raw matches of the PartialMatcher engine ([partial_matches]: connected components
    of the pattern, per-component search with strict_cc_count = False, combinations of k = n, n-1, ..., 1 components,
    back-tracking over host-disjoint embeddings) and the matches kept by the symmetry pruning commute LITERALLY with
    any injective renumbering of substrate and rule — for every strategy and every embedding cap.  Nothing in the
    engine looks at the numbers. *)
From Coq Require Import List NArith ZArith Bool Arith Lia.
From SK Require Import lib.Tok lib.LGraph lib.Mono lib.Reach.
From SK Require model.C06_Model model.C11_Model.
From SK Require Import model.C03_Model model.C05_Model proof.C05_Proof proof.C05_Glue proof.C05_Pipe proof.C05_Comp.
Import ListNotations.

(** induced subgraphs commute with an injective renumbering *)
Lemma filter_map_comm {X Y} (f : X -> Y) (p : Y -> bool) (q : X -> bool) (l : list X) :
  (forall x, p (f x) = q x) -> filter p (map f l) = map f (filter q l).
Proof.
  intros E. induction l as [|x r IH]; simpl; [reflexivity|]. rewrite E. destruct (q x); simpl; rewrite IH; reflexivity.
Qed.

Lemma induced_relabel {A B} (f : N -> N) (Hf : inj f) (g : lgraph A B) (L : list N) :
  induced_sub (relabel f g) (map f L) = relabel f (induced_sub g L).
Proof.
  unfold induced_sub, relabel. simpl. f_equal.
  - apply filter_map_comm. intros [k a]. simpl. apply (lmem_map f Hf).
  - apply filter_map_comm. intros [[a b] x]. simpl. rewrite !(lmem_map f Hf). reflexivity.
Qed.

Lemma existsb_mem_map (f : N -> N) (Hf : inj f) (used l : list N) :
  existsb (fun h => LGraph.mem h (map f used)) (map f l) = existsb (fun h => LGraph.mem h used) l.
Proof. induction l as [|h r IH]; simpl; [reflexivity|]. rewrite (lmem_map f Hf), IH. reflexivity. Qed.

Section WithThr.
Context {TH : Thr}.

(** [find_subgraph_mappings] for every strategy and both values of strict_cc_count *)
Lemma find_relabel_gen strat maxr strict sg pi (Hs : inj sg) (Hp : inj pi) (H P : C06_Model.graph) :
  C06_Model.find (monos_on' (relabel pi H) (relabel sg P)) (C06_Model.Cfg strat maxr thr_val strict false) (relabel pi H) (relabel sg P)
  = map (mv sg pi) (C06_Model.find (monos_on' H P) (C06_Model.Cfg strat maxr thr_val strict false) H P).
Proof.
  assert (Henum : forall hn pn, monos_on' (relabel pi H) (relabel sg P) (map pi hn) (map sg pn) = map (mv sg pi) (monos_on' H P hn pn))
    by (intros; apply monos_on'_relabel; assumption).
  assert (Hall : C06_Model.find_all (monos_on' (relabel pi H) (relabel sg P)) maxr thr_val (relabel pi H) (relabel sg P)
                 = map (mv sg pi) (C06_Model.find_all (monos_on' H P) maxr thr_val H P)).
  { unfold C06_Model.find_all. rewrite !node_ids_relabel, Henum.
    apply (all_loop_map (mv sg pi) maxr thr_val _ [] 0%N). }
  assert (Hcomp : C06_Model.find_comp (monos_on' (relabel pi H) (relabel sg P)) maxr thr_val strict (relabel pi H) (relabel sg P)
                  = map (mv sg pi) (C06_Model.find_comp (monos_on' H P) maxr thr_val strict H P)).
  { unfold C06_Model.find_comp. rewrite (comps_relabel pi Hp H), (comps_relabel sg Hs P), !map_length.
    destruct (length (C06_Model.comps P) =? 0)%nat; [reflexivity|].
    destruct (length (C06_Model.comps H) <? length (C06_Model.comps P))%nat; [exact Hall|].
    destruct ((length (C06_Model.comps P) <? length (C06_Model.comps H))%nat && strict)%bool; [reflexivity|].
    rewrite (index_from_map (map pi) (C06_Model.comps H) 0).
    pose proof (per_cc_all_map sg pi (monos_on' H P) (monos_on' (relabel pi H) (relabel sg P)) Henum
                  (C06_Model.cc_cap maxr (length (C06_Model.comps P))) thr_val
                  (C06_Model.index_from 0 (C06_Model.comps H)) (C06_Model.comps P)) as Hper.
    unfold tagc in Hper. rewrite Hper.
    destruct (C06_Model.per_cc_all (monos_on' H P) _ thr_val _ (C06_Model.comps P)) as [per|]; simpl; [|reflexivity].
    rewrite (sort_len_map (tag sg pi) per).
    pose proof (bt_map sg pi Hs maxr thr_val (C06_Model.sort_len per) [] [] ([], 0%N)) as Hbt.
    unfold mapres in Hbt at 1. simpl (map (mv sg pi) (fst ([], 0%N))) in Hbt. simpl (mv sg pi []) in Hbt. simpl (snd ([], 0%N)) in Hbt.
    transitivity (rev (fst (mapres sg pi (C06_Model.bt maxr thr_val (C06_Model.sort_len per) [] [] ([], 0%N))))).
    - f_equal. f_equal. exact Hbt.
    - unfold mapres. cbn [fst]. rewrite map_rev. reflexivity. }
  unfold C06_Model.find; simpl.
  destruct strat as [|[s|s|]]; simpl.
  - rewrite Hall, lenN_map. destruct (thr_val <? _)%N; reflexivity.
  - unfold C06_Model.find_bt. rewrite Hcomp.
    destruct (C06_Model.find_comp (monos_on' H P) maxr thr_val strict H P) as [|m r] eqn:E; simpl.
    + rewrite Hall, lenN_map. destruct (thr_val <? _)%N; reflexivity.
    + change (mv sg pi m :: map (mv sg pi) r) with (map (mv sg pi) (m :: r)). rewrite lenN_map.
      destruct (thr_val <? _)%N; reflexivity.
  - unfold C06_Model.find_bt. rewrite Hcomp.
    destruct (C06_Model.find_comp (monos_on' H P) maxr thr_val strict H P) as [|m r] eqn:E; simpl.
    + rewrite Hall, lenN_map. destruct (thr_val <? _)%N; reflexivity.
    + change (mv sg pi m :: map (mv sg pi) r) with (map (mv sg pi) (m :: r)). rewrite lenN_map.
      destruct (thr_val <? _)%N; reflexivity.
  - rewrite Hcomp, lenN_map. destruct (thr_val <? _)%N; reflexivity.
Qed.

Lemma comp_embeddings_relabel strat sg pi (Hs : inj sg) (Hp : inj pi) (H P : C06_Model.graph) :
  comp_embeddings strat (relabel pi H) (relabel sg P) = map (map (mv sg pi)) (comp_embeddings strat H P).
Proof.
  unfold comp_embeddings. rewrite (comps_relabel sg Hs P), !map_map. apply map_ext. intros pc. cbv zeta.
  rewrite (induced_relabel sg Hs P pc). unfold pcfg_of. apply find_relabel_gen; assumption.
Qed.

Lemma combos_map {X Y} (f : X -> Y) k (l : list X) : combos k (map f l) = map (map f) (combos k l).
Proof.
  revert k. induction l as [|x r IH]; intros [|k]; simpl; try reflexivity.
  rewrite map_app, !IH, !map_map. reflexivity.
Qed.

Lemma pbt_map sg pi (Hp : inj pi) embs : forall used acc,
  pbt (map (map (mv sg pi)) embs) (map pi used) (mv sg pi acc) = map (mv sg pi) (pbt embs used acc).
Proof.
  induction embs as [|lvl rest IH]; intros used acc; [reflexivity|].
  cbn [map pbt]. rewrite flat_map_map', map_flat_map'. apply flat_map_ext. intros emb.
  assert (E : map snd (mv sg pi emb) = map pi (map snd emb)) by (unfold mv; rewrite !map_map; reflexivity).
  rewrite E.
  rewrite (existsb_mem_map pi Hp). destruct (existsb _ (map snd emb)); [reflexivity|].
  rewrite <- map_app.
  replace (mv sg pi acc ++ mv sg pi emb) with (mv sg pi (acc ++ emb)) by (unfold mv; rewrite map_app; reflexivity).
  apply IH.
Qed.

Lemma match_all_k_map sg pi (Hp : inj pi) embs :
  match_all_k (map (map (mv sg pi)) embs) = map (mv sg pi) (match_all_k embs).
Proof.
  unfold match_all_k. rewrite map_length, map_flat_map'. apply flat_map_ext. intros k.
  rewrite combos_map, flat_map_map', map_flat_map'. apply flat_map_ext. intros combo.
  apply (pbt_map sg pi Hp combo [] []).
Qed.

Lemma plimit_map {X Y} (f : X -> Y) (l : list X) : plimit (map f l) = map f (plimit l).
Proof. unfold plimit. destruct (pmax_val =? 0)%N; [reflexivity|]. apply firstn_map. Qed.

Theorem partial_matches_relabel strat sg pi (Hs : inj sg) (Hp : inj pi) (host : hostg) (pat : molg) :
  partial_matches strat (relabel pi host) (relabel sg pat) = option_map (map (mv sg pi)) (partial_matches strat host pat).
Proof.
  unfold partial_matches. rewrite host_c06_relabel, pat_c06_relabel, (comps_relabel sg Hs (pat_c06 pat)).
  destruct (C06_Model.comps (pat_c06 pat)) as [|c cs] eqn:E; [reflexivity|].
  cbn [map option_map]. f_equal.
  rewrite (comp_embeddings_relabel strat sg pi Hs Hp), (match_all_k_map sg pi Hp). apply plimit_map.
Qed.

(** raw and kept matches of SynReactor(partial=True).mappings *)
Theorem partial_kept_relabel strat sg pi (Hs : inj sg) (Hp : inj pi) (host : hostg) (p : prepared) :
  partial_matches strat (relabel pi host) (p_pat (relabel_prep sg p))
  = option_map (map (mv sg pi)) (partial_matches strat host (p_pat p)) /\
  forall raw, partial_matches strat host (p_pat p) = Some raw ->
    prune (p_rc (relabel_prep sg p)) (map (mv sg pi) raw) = map (mv sg pi) (prune (p_rc p) raw).
Proof.
  split.
  - destruct p as [rc l r flag pat]. simpl. apply partial_matches_relabel; assumption.
  - intros raw _. destruct p as [rc l r flag pat]. simpl. apply prune_relabel; assumption.
Qed.

End WithThr.

(** non-vacuity: thiol dimerisation  [C:1][SH:2].[C:3][SH:4]>>[C:1][S:2][S:4][C:3]  on CCS.CS — partial matching finds the
    full matches and the matches of one component alone *)
#[local] Instance default_thr : Thr := thr_of None.
Definition px_host : hostg := (LG [(1%N, (NA 67%N false (3)%Z (0)%Z [67%N])); (2%N, (NA 67%N false (2)%Z (0)%Z [67%N; 83%N])); (3%N, (NA 83%N false (1)%Z (0)%Z [67%N])); (4%N, (NA 67%N false (3)%Z (0)%Z [83%N])); (5%N, (NA 83%N false (1)%Z (0)%Z [67%N]))] [(1%N, 2%N, (2)%Z); (2%N, 3%N, (2)%Z); (4%N, 5%N, (2)%Z)]).
Definition px_tpl : its := (LG [(2%N, IN (NA 83%N false (1)%Z (0)%Z [67%N]) (NA 83%N false (0)%Z (0)%Z [67%N; 83%N]) 0%Z None); (4%N, IN (NA 83%N false (1)%Z (0)%Z [67%N]) (NA 83%N false (0)%Z (0)%Z [67%N; 83%N]) 0%Z None)] [(2%N, 4%N, ((0)%Z, (2)%Z, (-2)%Z))]).
Definition px_p : prepared :=
  match prepare false true px_tpl with Some p => p | None => Prep (LG [] []) (LG [] []) (LG [] []) false (LG [] []) end.
Definition px_raw : list mapping := match partial_matches 0%N px_host (p_pat px_p) with Some r => r | None => [] end.
Definition px_shift (n : N) : N := (n + 10)%N.

Example partial_examples :
  length px_raw = 6%nat /\ length (prune (p_rc px_p) px_raw) = 3%nat /\
  length (filter (fun m : mapping => Nat.eqb (length m) 2) px_raw) = 2%nat /\
  partial_matches 0%N (relabel px_shift px_host) (p_pat (relabel_prep px_shift px_p))
  = Some (map (mv px_shift px_shift) px_raw) /\
  partial_matches 1%N px_host (LG [] []) = None.
Proof. repeat split; vm_compute; reflexivity. Qed.
