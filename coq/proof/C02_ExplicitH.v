(** C02 (round 5) — rsmi_to_its(core=True, explicit_hydrogen=True): the reaction centre of the explicit-hydrogen ITS
    ([h_to_explicit_its], C01's model of synkit/Graph/Hyrogen/_misc.py h_to_explicit(its=True), imported read-only).
    Making hydrogens explicit does not change the bonds of the centre: the new heavy-atom-to-H bonds are unchanged single bonds,
    and they are H-H bonds only when a HYDROGEN atom carries implicit hydrogens on both sides (hypothesis, with a witness that
    it is needed).  The centre atoms keep their labels up to the hydrogen counts inside typesGH that h_to_explicit decrements. *)
From Coq Require Import List NArith ZArith Bool Lia.
From SK Require Import lib.LGraph lib.C01_GraphLemmas model.C01_Model model.C01_String model.C02_Model
                       proof.C01_StringEH proof.C01_StringEHwf proof.C02_Proof.
Import ListNotations.
Local Open Scope Z_scope.

(** every bond that h_to_explicit appends starts at an atom of the list it iterates over
    (own copies of the small fold lemmas: only the three theorems of C01 named below are relied upon) *)
Definition sedges (st : hx_state) : list (N * N * iedge) := snd (fst st).
Definition snodes (st : hx_state) : list (N * inode) := fst (fst st).
Definition smax (st : hx_state) : N := snd st.
Definition sstep_edges (st : hx_state) (h : N) : list (N * N * iedge) :=
  match assoc h (snodes st) with
  | None => []
  | Some b =>
      if hx_count b <=? 0 then []
      else map (fun n' => (h, n', IE 2 2 0)) (map (fun i => (smax st + N.of_nat i)%N) (seq 1 (Z.to_nat (hx_count b))))
  end.

Lemma sstep_edges_eq st h : sedges (hx_step st h) = sedges st ++ sstep_edges st h.
Proof.
  destruct st as [[ns es] mx]. unfold sstep_edges, sedges, snodes, smax, hx_step. cbn [fst snd].
  destruct (assoc h ns) as [b|]; [|cbn [fst snd]; rewrite app_nil_r; reflexivity].
  destruct (hx_count b <=? 0); cbn [fst snd]; [rewrite app_nil_r|]; reflexivity.
Qed.

Lemma sstep_edges_fst st h e : In e (sstep_edges st h) -> fst (fst e) = h.
Proof.
  unfold sstep_edges. destruct (assoc h (snodes st)) as [b|]; [|intros []]. destruct (hx_count b <=? 0); [intros []|].
  intros I. apply in_map_iff in I. destruct I as (n' & <- & _). reflexivity.
Qed.

Lemma hx_fold_edges_fst l : forall st, exists ne,
  sedges (fold_left hx_step l st) = sedges st ++ ne /\ Forall (fun e => In (fst (fst e)) l) ne.
Proof.
  induction l as [|h r IH]; intros st; cbn [fold_left].
  - exists []. rewrite app_nil_r. split; [reflexivity|constructor].
  - destruct (IH (hx_step st h)) as (ne & E & F). exists (sstep_edges st h ++ ne). split.
    + rewrite E, sstep_edges_eq, app_assoc. reflexivity.
    + apply Forall_app. split.
      * apply Forall_forall. intros e Ie. left. symmetry. apply (sstep_edges_fst st h e Ie).
      * eapply Forall_impl; [|exact F]. intros e Ie. right. exact Ie.
Qed.

Lemma gedges_hx (I : its) :
  gedges (fst (h_to_explicit_its I)) = sedges (fold_left hx_step (node_ids I) (gnodes I, gedges I, fold_left N.max (node_ids I) 0%N)).
Proof.
  unfold h_to_explicit_its. destruct (fold_left hx_step (node_ids I) (gnodes I, gedges I, fold_left N.max (node_ids I) 0%N)) as [[ns es] mx].
  reflexivity.
Qed.

Lemma hx_upd_el a : i_el (hx_upd a) = i_el a.
Proof. unfold hx_upd. destruct (hx_count a <=? 0); reflexivity. Qed.

Section ExplicitH.
Variable I : its.
Hypothesis W : wf I.
(** no hydrogen ATOM has implicit hydrogens common to both sides ([HH] written as one atom) *)
Hypothesis Hh : forall n a, label I n = Some a -> i_el a = EL_H -> hx_count a <= 0.
Let J := fst (h_to_explicit_its I).
Let mx0 := fold_left N.max (node_ids I) 0%N.

Lemma is_h_J n : In n (node_ids I) -> is_h J n = is_h I n.
Proof.
  intros In_. destruct (assoc_is_some n (gnodes I) In_) as (a & La). fold (label I n) in La.
  destruct (h_to_explicit_its_spec I W) as (HL & _). destruct (HL n a La) as [_ LJ]. fold J in LJ.
  unfold is_h. rewrite LJ, La, hx_upd_el. reflexivity.
Qed.

(** a bond of J that is not a bond of I joins a non-hydrogen atom of I to a new atom and is an unchanged single bond *)
Lemma new_edge_facts : exists ne, gedges J = gedges I ++ ne /\
  forall u v x, In (u, v, x) ne -> x = IE 2 2 0 /\ In u (node_ids I) /\ is_h J u = false.
Proof.
  destruct (h_to_explicit_its_spec I W) as (HL & _ & (ne & En & Fe) & _). fold J in En. exists ne. split; [exact En|].
  intros u v x Iu. rewrite Forall_forall in Fe. pose proof (Fe _ Iu) as [_ Hx]. split; [exact Hx|].
  assert (In u (node_ids I)) as Iu'.
  { unfold J in En. rewrite gedges_hx in En.
    destruct (hx_fold_edges_fst (node_ids I) (gnodes I, gedges I, fold_left N.max (node_ids I) 0%N)) as (ne' & E' & F').
    rewrite E' in En. unfold sedges in En. cbn [fst snd] in En. apply app_inv_head in En. subst ne'.
    rewrite Forall_forall in F'. exact (F' _ Iu). }
  split; [exact Iu'|].
  destruct (assoc_is_some u (gnodes I) Iu') as (a & La). fold (label I u) in La.
  destruct (h_to_explicit_count I W u a La) as (ne2 & E2 & C2 & _). fold J in E2. rewrite En in E2. apply app_inv_head in E2. subst ne2.
  assert (0 < hx_count a) as Hc.
  { destruct (Z.leb_spec (hx_count a) 0) as [Hle|]; [|assumption]. rewrite Z.max_l in C2 by lia. exfalso.
    assert (In (u, v, x) (filter (fun e : N * N * iedge => N.eqb (fst (fst e)) u) ne)) as F by (apply filter_In; split; [exact Iu|simpl; apply N.eqb_refl]).
    destruct (filter (fun e : N * N * iedge => N.eqb (fst (fst e)) u) ne); [destruct F|simpl in C2; discriminate]. }
  rewrite (is_h_J u Iu'). unfold is_h. rewrite La. destruct (N.eqb_spec (i_el a) EL_H) as [E|]; [|reflexivity].
  specialize (Hh u a La E). lia.
Qed.

Theorem rc_explicit_h_bonds u v e : adj (get_rc J) u v = Some e <-> adj (get_rc I) u v = Some e.
Proof.
  pose proof (h_to_explicit_its_wf I W) as WJ. fold J in WJ.
  destruct new_edge_facts as (ne & En & Fn).
  destruct (h_to_explicit_its_spec I W) as (_ & _ & _ & Hadj). fold J mx0 in Hadj.
  assert (forall h, In h (node_ids I) -> (h <= mx0)%N) as Hle by (intros h Ih; apply fold_max_ge; left; exact Ih).
  rewrite (rc_adj J WJ), (rc_adj I W). split.
  - intros [A Hs]. pose proof A as A0. apply (wf_adj_iff WJ) in A. rewrite En in A.
    assert (In (u, v, e) (gedges I) \/ In (v, u, e) (gedges I) \/ In (u, v, e) ne \/ In (v, u, e) ne) as Cases
      by (destruct A as [A|A]; apply in_app_iff in A; tauto).
    destruct Cases as [A1|[A1|[A1|A1]]].
    + destruct (wf_edge_nodes W A1) as (Pu & Pv & _). split; [apply (wf_adj_iff W); auto|].
      unfold is_hh in *. rewrite <- (is_h_J u Pu), <- (is_h_J v Pv). exact Hs.
    + destruct (wf_edge_nodes W A1) as (Pv & Pu & _). split; [apply (wf_adj_iff W); auto|].
      unfold is_hh in *. rewrite <- (is_h_J u Pu), <- (is_h_J v Pv). exact Hs.
    + exfalso. destruct (Fn u v e A1) as (-> & _ & Hu). unfold is_hh in Hs. rewrite Hu in Hs. destruct Hs as [Hs|Hs]; discriminate.
    + exfalso. destruct (Fn v u e A1) as (-> & _ & Hv). unfold is_hh in Hs. rewrite Hv, andb_false_r in Hs. destruct Hs as [Hs|Hs]; discriminate.
  - intros [A Hs]. pose proof A as A0. apply (wf_adj_iff W) in A0.
    assert (In u (node_ids I) /\ In v (node_ids I)) as [Pu Pv] by (destruct A0 as [A0|A0]; destruct (wf_edge_nodes W A0) as (P & Q & _); auto).
    split; [rewrite (Hadj u v (Hle u Pu) (Hle v Pv)); exact A|].
    unfold is_hh in *. rewrite (is_h_J u Pu), (is_h_J v Pv). exact Hs.
Qed.

Theorem rc_explicit_h_atoms n b :
  label (get_rc J) n = Some b <->
  exists a, label I n = Some a /\ b = rc_attr (hx_upd a) /\ exists v e, adj (get_rc I) n v = Some e.
Proof.
  pose proof (h_to_explicit_its_wf I W) as WJ. fold J in WJ.
  destruct (h_to_explicit_its_spec I W) as (HL & _). fold J in HL.
  rewrite (rc_nodes J WJ). split.
  - intros [(a' & La' & ->) (v & e & A)]. apply rc_explicit_h_bonds in A.
    assert (In n (node_ids I)) as Pn.
    { pose proof A as A1. apply (rc_adj I W) in A1. destruct A1 as [A1 _]. apply (wf_adj_iff W) in A1.
      destruct A1 as [A1|A1]; destruct (wf_edge_nodes W A1) as (P & Q & _); auto. }
    destruct (assoc_is_some n (gnodes I) Pn) as (a & La). fold (label I n) in La.
    destruct (HL n a La) as [_ LJ]. rewrite LJ in La'. injection La' as <-.
    exists a. split; [exact La|]. split; [reflexivity|]. exists v, e. exact A.
  - intros (a & La & -> & v & e & A). destruct (HL n a La) as [_ LJ]. split; [exists (hx_upd a); auto|].
    exists v, e. apply rc_explicit_h_bonds. exact A.
Qed.
End ExplicitH.

(** the hypothesis is needed: a hydrogen ATOM with one common implicit hydrogen ("[HH]") gets an explicit H neighbour, and that
    new H-H bond enters the centre *)
Definition hh_implicit : its :=
  LG [(1%N, IN EL_H 0 1 (Some (false, 1, [])) (NA EL_H false 1 0 []) (NA EL_H false 1 0 []))] [].
Theorem rc_explicit_h_needs_hypothesis :
  wf hh_implicit /\ gedges (get_rc hh_implicit) = [] /\
  gedges (get_rc (fst (h_to_explicit_its hh_implicit))) = [(1%N, 2%N, IE 2 2 0)].
Proof.
  split; [|vm_compute; split; reflexivity]. apply wf_intro; simpl; [repeat constructor; intros []|intros a b x []|constructor].
Qed.

(** non-vacuity: ex_eh of proof/C01_StringEH.v (CH3-OH -> CH3-OH2+) extended by a changed bond *)
Definition ex_eh2 : its :=
  LG [(1%N, IN 70%N 0 1 (Some (false, 3, [82%N])) (NA 70%N false 3 0 [82%N]) (NA 70%N false 3 0 [82%N]));
      (2%N, IN 82%N 0 2 (Some (false, 1, [70%N])) (NA 82%N false 1 0 [70%N]) (NA 82%N false 2 1 [70%N]))]
     [(1%N, 2%N, IE 2 4 (-2))].
Example C02_explicit_h_nonvacuous :
  wf ex_eh2 /\ (forall n a, label ex_eh2 n = Some a -> i_el a = EL_H -> hx_count a <= 0) /\
  length (gnodes (fst (h_to_explicit_its ex_eh2))) = 6%nat /\
  node_ids (get_rc (fst (h_to_explicit_its ex_eh2))) = [1%N; 2%N] /\
  option_map (fun b => a_hc (i_G b)) (label (get_rc (fst (h_to_explicit_its ex_eh2))) 1%N) = Some 0 /\
  option_map (fun b => a_hc (i_G b)) (label (get_rc ex_eh2) 1%N) = Some 3.
Proof.
  split; [|split; [|vm_compute; repeat split; reflexivity]].
  - apply wf_intro; simpl.
    + repeat constructor; simpl; intuition discriminate.
    + intros a b x [E|[]]. inversion E; subst. simpl. intuition discriminate.
    + repeat constructor.
  - intros n a L. unfold label in L. simpl in L.
    destruct (N.eqb n 1); [injection L as <-; discriminate|]. destruct (N.eqb n 2); [injection L as <-; discriminate|discriminate].
Qed.
