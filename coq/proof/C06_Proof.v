(** C06 — proofs about model/C06_Model.v (stdlib lists). *)
From Coq Require Import List NArith Bool Arith Lia Permutation.
From SK Require Import lib.LGraph lib.Mono lib.Reach model.C06_Model.
Import ListNotations.

Lemma capped_0 n : capped 0 n = false.
Proof. reflexivity. Qed.
