(** C10 — proofs, part 15: from the reaction string (after RDKit) to the rule and back: for an atom-balanced pair of
    molecule graphs the centre of ITSGraph(r, p) is in the domain of the GML round trip, so the rule written by
    smart_to_gml reads back as that centre. *)
From Coq Require Import String List NArith ZArith Bool Lia.
From SK Require Import lib.Tok lib.LGraph lib.StrJoin model.C10_Model proof.C10_Proof proof.C10_Views proof.C10_Build
  proof.C10_Copy proof.C10_GmlRead proof.C10_GmlWrite proof.C10_Centre proof.C10_Routes proof.C10_Routes2.
Import ListNotations.
Local Open Scope Z_scope.

Lemma NoDup_app_intro {A} (l1 l2 : list A) :
  NoDup l1 -> NoDup l2 -> (forall k, In k l1 -> In k l2 -> False) -> NoDup (l1 ++ l2).
Proof.
  induction 1 as [|x r Hx Hr IH]; intros H2 Hd; [exact H2|]. simpl. constructor.
  - rewrite in_app_iff. intros [Hin|Hin]; [contradiction|]. apply (Hd x); [left; reflexivity|exact Hin].
  - apply IH; [exact H2|]. intros k Hk1 Hk2. apply (Hd k); [right; exact Hk1|exact Hk2].
Qed.

Lemma pair_in_pmatch u v eo : pair_in u v eo = pmatch u v eo.
Proof. reflexivity. Qed.

(** ** what mol_ok / balanced give *)
Lemma mol_ok_gwf g : mol_ok g = true -> gwf g.
Proof.
  unfold mol_ok. rewrite !andb_true_iff. intros [[[H1 H2] _] H4]. split; [apply nodupb_NoDup; exact H1|exact H2|].
  intros a b x Hin. rewrite forallb_forall in H4. specialize (H4 _ Hin). unfold mol_edge_ok in H4.
  rewrite !andb_true_iff in H4. tauto.
Qed.
Lemma mol_ok_node g n a : mol_ok g = true -> label g n = Some a ->
  exists e q, a_el a = Some e /\ a_ch a = Some q /\ elem_str e.
Proof.
  unfold mol_ok. rewrite !andb_true_iff. intros [[_ H3] _] L. apply assoc_in in L. rewrite forallb_forall in H3.
  specialize (H3 _ L). simpl in H3. unfold mol_node_ok in H3.
  destruct (a_el a) as [e|]; [|discriminate]. destruct (a_ch a) as [q|]; [|discriminate]. exists e, q. repeat split.
  - unfold elem_ok in H3. destruct e; discriminate.
  - unfold elem_ok in H3. destruct e; [discriminate|]. apply Forall_forall. rewrite forallb_forall in H3. exact H3.
Qed.
Lemma mol_ok_edge g u v x : mol_ok g = true -> adj g u v = Some x ->
  exists o, e_ord x = Some (OS o) /\ (o = 2 \/ o = 3 \/ o = 4 \/ o = 6).
Proof.
  intros Hok A. unfold adj in A. apply find_some_in in A. destruct A as (a0 & b0 & Hin & _).
  unfold mol_ok in Hok. rewrite !andb_true_iff in Hok. destruct Hok as [_ H4]. rewrite forallb_forall in H4.
  specialize (H4 _ Hin). unfold mol_edge_ok in H4. rewrite !andb_true_iff in H4. destruct H4 as [_ H4].
  destruct (e_ord x) as [[o|? ?]|]; try discriminate. exists o. split; [reflexivity|].
  rewrite !orb_true_iff, !Z.eqb_eq in H4. tauto.
Qed.
Lemma scal_order_cases g u v : mol_ok g = true ->
  (adj g u v = None /\ scal_order g u v = 0) \/
  (adj g u v <> None /\ (scal_order g u v = 2 \/ scal_order g u v = 3 \/ scal_order g u v = 4 \/ scal_order g u v = 6)).
Proof.
  intros Hok. unfold scal_order. destruct (adj g u v) as [x|] eqn:A; [right|left; auto].
  destruct (mol_ok_edge g u v x Hok A) as (o & -> & Ho). split; [discriminate|exact Ho].
Qed.

Section Smart.
Variables G H : gr.
Hypothesis HG : mol_ok G = true.
Hypothesis HH : mol_ok H = true.
Hypothesis Hbal : balanced G H = true.
Variable eo : list (N * N).
Hypothesis Heo : forall u v, pair_in u v eo = has_edge G u v || has_edge H u v.
Let WG := mol_ok_gwf G HG.
Let WH := mol_ok_gwf H HH.
Let I := its_construct G H eo.

Lemma bal_GH n a : label G n = Some a -> exists b, label H n = Some b /\ dflt (a_el a) s_star = dflt (a_el b) s_star.
Proof.
  intros L. unfold balanced in Hbal. apply andb_true_iff in Hbal. destruct Hbal as [B _]. rewrite forallb_forall in B.
  apply assoc_in in L. specialize (B _ L). simpl in B. destruct (label H n) as [b|]; [|discriminate].
  exists b. split; [reflexivity|]. apply str_eqb_eq. exact B.
Qed.
Lemma bal_HG n : has_node H n = true -> has_node G n = true.
Proof.
  intros Hn. unfold balanced in Hbal. apply andb_true_iff in Hbal. destruct Hbal as [_ B]. rewrite forallb_forall in B.
  apply has_node_label in Hn. destruct Hn as [b Lb]. apply assoc_in in Lb. apply (B _ Lb).
Qed.

(** nodes of the ITS = nodes of G, each with typesGH from both sides *)
Lemma its_nodes_label n : assoc n (its_nodes G H) = match label G n with Some a => Some (dflt (assoc n (its_nodes G H)) a) | None => None end.
Proof.
  rewrite its_nodes_assoc. cbv zeta. destruct (label G n) as [a|] eqn:La.
  - destruct (bal_GH n a La) as (b & Lb & _). destruct (_ <=? _)%nat; rewrite ?La, ?Lb; reflexivity.
  - assert (label H n = None) as Lb.
    { apply has_node_false. apply not_true_is_false. intros Hn. apply bal_HG, has_node_label in Hn. destruct Hn; congruence. }
    destruct (_ <=? _)%nat; rewrite ?La, ?Lb; reflexivity.
Qed.

Lemma I_fold : I = fold_left (estep (its_d G H)) eo (its_g0 G H).
Proof. apply its_construct_fold. Qed.

Lemma g0_NoDup : NoDup (map fst (its_nodes G H)).
Proof.
  unfold its_nodes. cbv zeta. set (base := if (_ <=? _)%nat then G else H). set (other := if (_ <=? _)%nat then H else G).
  assert (gwf base /\ gwf other) as [Wb Wo] by (unfold base, other; destruct (_ <=? _)%nat; auto).
  rewrite map_app. apply NoDup_app_intro.
  - apply (gwf_nd _ Wb).
  - pose proof (gwf_nd _ Wo) as Hnd. unfold node_ids in Hnd. induction (gnodes other) as [|[k a] r IH]; [constructor|].
    simpl in *. inversion Hnd as [|? ? Hnot Hnd']; subst. destruct (has_node base k); simpl; [apply IH; exact Hnd'|].
    constructor; [|apply IH; exact Hnd']. intros Hin. apply Hnot. apply in_map_iff in Hin. destruct Hin as (p & E & Hp).
    apply filter_In in Hp. apply in_map_iff. exists p. tauto.
  - intros k Hk1 Hk2. apply in_map_iff in Hk2. destruct Hk2 as ([k' a] & E & Hp). simpl in E. subst k'.
    apply filter_In in Hp. destruct Hp as [_ Hp]. simpl in Hp. apply negb_true_iff in Hp.
    fold (node_ids base) in Hk1. apply has_node_in in Hk1. congruence.
Qed.

Lemma g0_gwf : gwf (its_g0 G H).
Proof.
  split.
  - unfold node_ids, its_g0. simpl. rewrite map_map. simpl. exact g0_NoDup.
  - reflexivity.
  - intros a b x [].
Qed.
Lemma I_gwf : gwf I.
Proof. rewrite I_fold. apply fold_estep_gwf, g0_gwf. Qed.

Lemma edge_ends_G u v : has_edge G u v || has_edge H u v = true -> has_node G u = true /\ has_node G v = true.
Proof.
  intros E. apply orb_true_iff in E. destruct E as [E|E]; unfold has_edge in E.
  - destruct (adj G u v) as [x|] eqn:A; [|discriminate]. apply find_some_in in A. destruct A as (a & b & Hin & P).
    destruct (gwf_cl G WG a b x Hin). apply pair_eqb_spec in P. destruct P as [[<- <-]|[<- <-]]; auto.
  - destruct (adj H u v) as [x|] eqn:A; [|discriminate]. apply find_some_in in A. destruct A as (a & b & Hin & P).
    destruct (gwf_cl H WH a b x Hin). apply pair_eqb_spec in P. destruct P as [[<- <-]|[<- <-]]; split; apply bal_HG; assumption.
Qed.
Lemma g0_has n : has_node G n = true -> has_node (its_g0 G H) n = true.
Proof.
  intros Hn. apply has_node_label in Hn. destruct Hn as [a La]. unfold has_node, label, its_g0. simpl.
  rewrite (assoc_map_val (its_node G H)), its_nodes_label, La. reflexivity.
Qed.
Lemma I_gnodes : gnodes I = gnodes (its_g0 G H).
Proof.
  rewrite I_fold. apply fold_estep_node_ids. intros [u v] He.
  assert (pair_in u v eo = true) as PI.
  { unfold pair_in. apply existsb_exists. exists (u, v). split; [exact He|]. simpl. rewrite !N.eqb_refl. reflexivity. }
  rewrite Heo in PI. destruct (edge_ends_G u v PI). simpl. split; apply g0_has; assumption.
Qed.
Lemma I_label n : label I n =
  match label G n with Some a => option_map (its_node G H n) (assoc n (its_nodes G H)) | None => None end.
Proof.
  unfold label at 1. rewrite I_gnodes. unfold its_g0. simpl. rewrite (assoc_map_val (its_node G H)), its_nodes_label.
  destruct (label G n); reflexivity.
Qed.
Lemma I_adj u v : adj I u v = if has_edge G u v || has_edge H u v then its_d G H u v else None.
Proof.
  rewrite I_fold, (fold_estep_adj (its_d G H) (its_d_sym G H)); [|left; reflexivity].
  rewrite <- pair_in_pmatch, Heo. reflexivity.
Qed.
Lemma I_is_ok : is_ok I.
Proof.
  split; [exact I_gwf|]. intros n a L. rewrite I_label in L. destruct (label G n); [|discriminate].
  destruct (assoc n (its_nodes G H)) as [b|]; [|discriminate]. simpl in L. injection L as <-.
  unfold its_node. destruct (tg_of G n) as [[[e ar] h] c]. simpl. discriminate.
Qed.

Lemma tg_of_G n a : label G n = Some a -> exists e q ar h, tg_of G n = (e, ar, h, q) /\ a_el a = Some e /\ elem_str e.
Proof.
  intros L. destruct (mol_ok_node G n a HG L) as (e & q & E1 & E2 & E3). unfold tg_of. rewrite L, E1, E2. simpl.
  exists e, q, (dflt (a_ar a) false), (dflt (a_hc a) 0). auto.
Qed.

Theorem centre_IOK : IOK (get_rc I).
Proof.
  pose proof I_is_ok as HI. split; [apply get_rc_gwf; exact HI|split].
  - intros n b L. rewrite (get_rc_label I n HI) in L. destruct (touched I n) eqn:T; [|discriminate]. injection L as <-.
    unfold rca. rewrite I_label. destruct (label G n) as [a|] eqn:La.
    + destruct (bal_GH n a La) as (a' & Lb & Eel).
      assert (exists b0, assoc n (its_nodes G H) = Some b0) as [b0 Eb] by (rewrite its_nodes_label, La; eauto).
      rewrite Eb. simpl.
      destruct (mol_ok_node G n a HG La) as (e & q & E1 & E2 & E3). destruct (mol_ok_node H n a' HH Lb) as (e' & q' & E1' & E2' & _).
      rewrite E1, E1' in Eel. simpl in Eel. subst e'.
      unfold its_node, tg_of. rewrite La, Lb, E1, E2, E1', E2'. simpl.
      exists e, (dflt (a_ar a) false), (dflt (a_hc a) 0), q, (dflt (a_ar a') false), (dflt (a_hc a') 0), q'. auto.
    + (* a touched node is a node of G *) simpl.
      exfalso. apply (touched_spec I n I_gwf) in T. destruct T as (w & x & A & _). rewrite I_adj in A.
      destruct (has_edge G n w || has_edge H n w) eqn:E; [|discriminate]. destruct (edge_ends_G n w E) as [Hn _].
      apply has_node_label in Hn. destruct Hn. congruence.
  - intros u v x A. destruct (rc_adj_some I HI u v x A) as [AI _]. rewrite I_adj in AI.
    destruct (has_edge G u v || has_edge H u v) eqn:E; [|discriminate]. unfold its_d in AI. injection AI as <-.
    exists (scal_order G u v), (scal_order H u v).
    destruct (scal_order_cases G u v HG) as [[A1 S1]|[A1 S1]]; destruct (scal_order_cases H u v HH) as [[A2 S2]|[A2 S2]].
    + exfalso. unfold has_edge in E. rewrite A1, A2 in E. discriminate.
    + rewrite S1. repeat split; auto.
      * unfold ord_ok. destruct S2 as [->|[->|[->| ->]]]; reflexivity.
      * right. destruct S2 as [->|[->|[->| ->]]]; discriminate.
      * apply find_some_in in A. destruct A as (a & b & Hin & P). destruct (gwf_cl _ (get_rc_gwf I HI) a b _ Hin).
        apply pair_eqb_spec in P. destruct P as [[<- <-]|[<- <-]]; assumption.
      * apply find_some_in in A. destruct A as (a & b & Hin & P). destruct (gwf_cl _ (get_rc_gwf I HI) a b _ Hin).
        apply pair_eqb_spec in P. destruct P as [[<- <-]|[<- <-]]; assumption.
    + rewrite S2. repeat split; auto.
      * unfold ord_ok. destruct S1 as [->|[->|[->| ->]]]; reflexivity.
      * left. destruct S1 as [->|[->|[->| ->]]]; discriminate.
      * apply find_some_in in A. destruct A as (a & b & Hin & P). destruct (gwf_cl _ (get_rc_gwf I HI) a b _ Hin).
        apply pair_eqb_spec in P. destruct P as [[<- <-]|[<- <-]]; assumption.
      * apply find_some_in in A. destruct A as (a & b & Hin & P). destruct (gwf_cl _ (get_rc_gwf I HI) a b _ Hin).
        apply pair_eqb_spec in P. destruct P as [[<- <-]|[<- <-]]; assumption.
    + repeat split; auto.
      * unfold ord_ok. destruct S1 as [->|[->|[->| ->]]]; reflexivity.
      * unfold ord_ok. destruct S2 as [->|[->|[->| ->]]]; reflexivity.
      * left. destruct S1 as [->|[->|[->| ->]]]; discriminate.
      * apply find_some_in in A. destruct A as (a & b & Hin & P). destruct (gwf_cl _ (get_rc_gwf I HI) a b _ Hin).
        apply pair_eqb_spec in P. destruct P as [[<- <-]|[<- <-]]; assumption.
      * apply find_some_in in A. destruct A as (a & b & Hin & P). destruct (gwf_cl _ (get_rc_gwf I HI) a b _ Hin).
        apply pair_eqb_spec in P. destruct P as [[<- <-]|[<- <-]]; assumption.
Qed.
End Smart.

Theorem smart_roundtrip (r p : gr) (eo : list (N * N)) :
  mol_ok r = true -> mol_ok p = true -> balanced r p = true ->
  (forall u v, pair_in u v eo = has_edge r u v || has_edge p u v) ->
  let c := get_rc (its_construct r p eo) in
  let I' := gml_to_its (smart_to_gml r p eo true false false) in
  (forall n, has_node I' n = has_node c n) /\
  (forall n a, label c n = Some a ->
     label I' n = Some (gml_node n (tg_el (tG_of a)) (tg_ch (tG_of a)) (tg_ch (tH_of a)))) /\
  (forall u v, adj I' u v = adj c u v).
Proof.
  intros Hr Hp Hb He c I'. unfold I'. rewrite two_routes_string_its, its_core_is_centre_export.
  apply gml_roundtrip_iok. apply (centre_IOK r p Hr Hp Hb eo He).
Qed.

(** the boolean form of the premise on [eo] *)
Lemma eo_covers_spec G H eo : eo_covers G H eo = true -> forall u v, pair_in u v eo = has_edge G u v || has_edge H u v.
Proof.
  unfold eo_covers. rewrite !andb_true_iff, !forallb_forall. intros [[H1 H2] H3] u v. apply eq_true_iff_eq. split.
  - unfold pair_in. rewrite existsb_exists. intros ([a b] & Hin & P). specialize (H1 _ Hin). simpl in *.
    fold (pair_eqb a b u v) in P. unfold has_edge in *. rewrite <- (adj_pair G _ _ _ _ P), <- (adj_pair H _ _ _ _ P). exact H1.
  - intros E. apply orb_true_iff in E. unfold has_edge in E. destruct E as [E|E].
    + destruct (adj G u v) as [x|] eqn:A; [|discriminate]. apply find_some_in in A. destruct A as (a & b & Hin & P).
      specialize (H2 _ Hin). simpl in H2. rewrite pair_in_pmatch in *. unfold pmatch in *. rewrite existsb_exists in *.
      destruct H2 as ([a' b'] & Hin' & P'). exists (a', b'). split; [exact Hin'|]. simpl in *.
      rewrite (pair_eqb_trans _ _ _ _ u v P'). exact P.
    + destruct (adj H u v) as [x|] eqn:A; [|discriminate]. apply find_some_in in A. destruct A as (a & b & Hin & P).
      specialize (H3 _ Hin). simpl in H3. rewrite pair_in_pmatch in *. unfold pmatch in *. rewrite existsb_exists in *.
      destruct H3 as ([a' b'] & Hin' & P'). exists (a', b'). split; [exact Hin'|]. simpl in *.
      rewrite (pair_eqb_trans _ _ _ _ u v P'). exact P.
Qed.

(** non-vacuity: C-O + N -> C-N + O with charge changes on O and N *)
Local Open Scope string_scope.
Definition mkq (el : string) (hc q : Z) : natt := NA (Some (s2l el)) (Some false) (Some hc) (Some q) (Some 0) None.
Definition ex_r : gr := LG [(1%N, mkq "C" 3 0); (2%N, mkq "O" 1 0); (3%N, mkq "N" 2 0); (4%N, mkq "C" 3 0)]
                           [(1%N, 2%N, EA (Some (OS 2)) None); (3%N, 4%N, EA (Some (OS 2)) None)].
Definition ex_p : gr := LG [(1%N, mkq "C" 3 0); (2%N, mkq "O" 1 (-1)); (3%N, mkq "N" 2 1); (4%N, mkq "C" 3 0)]
                           [(1%N, 3%N, EA (Some (OS 2)) None); (4%N, 3%N, EA (Some (OS 2)) None)].
Example smart_roundtrip_ex :
  mol_ok ex_r = true /\ mol_ok ex_p = true /\ balanced ex_r ex_p = true /\ eo_covers ex_r ex_p (union_pairs ex_r ex_p) = true /\
  node_ids (get_rc (its_construct ex_r ex_p (union_pairs ex_r ex_p))) = [1; 2; 3]%N /\
  adj (gml_to_its (smart_to_gml ex_r ex_p (union_pairs ex_r ex_p) true false false)) 1%N 3%N = Some (EA (Some (OP 0 2)) (Some (-2))).
Proof. vm_compute. repeat split. Qed.

(** non-vacuity of the literal route equality (proof/C10_Routes.v) and of the reindexed centre routes on the same reaction *)
Example two_routes_string_its_ex :
  smart_to_gml ex_r ex_p (union_pairs ex_r ex_p) true true false
  = its_to_gml (its_construct ex_r ex_p (union_pairs ex_r ex_p)) true true false /\
  List.length (flat_map snd (smart_to_gml ex_r ex_p (union_pairs ex_r ex_p) true true false)) = 7%nat.
Proof. split; [apply two_routes_string_its|vm_compute; reflexivity]. Qed.
Definition ex_I : gr := its_construct ex_r ex_p (union_pairs ex_r ex_p).
Example two_routes_centre_reindex_ex :
  gwfb ex_I = true /\ all_tgh ex_I = true /\ its_ok (get_rc ex_I) = true /\
  map (mapget (enum_from 1%N (node_ids (get_rc ex_I)))) (node_ids (get_rc ex_I)) = [1; 2; 3]%N /\
  has_node ex_I 4 = true /\ has_node (gml_to_its (its_to_gml ex_I true true false)) 4 = false.
Proof. vm_compute. repeat split. Qed.
