(** C18 — clause 4: the minimal leaves of the search are a duplicate-free enumeration of the structure-preserving
    self-maps of the view (q <-> the map sending the best permutation position-wise to q). *)
From Coq Require Import List NArith ZArith Bool Arith Lia Permutation.
From SK Require Import lib.IRSortKeys lib.IRCore lib.IRSearch lib.StrJoin lib.C18_IRValid lib.C18_IRLeaves model.C18_Model
  proof.C18_Order proof.C18_Spec proof.C18_Graph proof.C18_Canon proof.C18_Equiv proof.C18_Label proof.C18_Aut
  proof.C18_Invariant.
From SK Require lib.IRInst.
Import ListNotations.

(* ---------------- the list of minimal leaves kept by [visit] ---------------- *)
Section FoldFilter.
Variable L : Type.
Variable leb : L -> L -> bool.
Hypothesis leb_total : forall a b, leb a b = true \/ leb b a = true.
Hypothesis leb_trans : forall a b c, leb a b = true -> leb b c = true -> leb a c = true.
Hypothesis leb_antisym : forall a b, leb a b = true -> leb b a = true -> a = b.
Variable label : list N -> L.

Definition St (a : acc L) (seen : list (list N)) : Prop :=
  match fst a with
  | None => seen = [] /\ snd a = []
  | Some (bl, bp) => (forall p, In p seen -> leb bl (label p) = true) /\
                     snd a = filter (fun p => eqb leb (label p) bl) seen
  end.

Lemma filter_none {A} (f : A -> bool) l : (forall x, In x l -> f x = false) -> filter f l = [].
Proof. induction l as [|x l IH]; simpl; intros H; auto. rewrite H by auto. apply IH. auto. Qed.

Lemma St_visit a seen p : St a seen -> St (visit leb label a p) (seen ++ [p]).
Proof.
  unfold St, visit. destruct (fst a) as [[bl bp]|] eqn:Ea.
  - intros [Hle Hs]. destruct (ltb leb (label p) bl) eqn:E1.
    + simpl. apply (ltb_spec leb leb_total leb_antisym) in E1. destruct E1 as [E1 Ene]. split.
      * intros q Hq. apply in_app_or in Hq. destruct Hq as [Hq|[<-|[]]]; [eauto|apply (leb_refl leb leb_total)].
      * rewrite filter_app. rewrite filter_none.
        -- simpl. rewrite (proj2 (eqb_eq leb leb_total leb_antisym _ _) eq_refl). reflexivity.
        -- intros q Hq. destruct (eqb leb (label q) (label p)) eqn:E; auto.
           apply (eqb_eq leb leb_total leb_antisym) in E. exfalso. apply Ene. apply leb_antisym; auto. rewrite <- E. auto.
    + destruct (eqb leb (label p) bl) eqn:E2; simpl; rewrite ?Ea.
      * apply (eqb_eq leb leb_total leb_antisym) in E2. split.
        -- intros q Hq. apply in_app_or in Hq. destruct Hq as [Hq|[<-|[]]]; auto. rewrite E2. apply (leb_refl leb leb_total).
        -- rewrite filter_app, Hs. simpl. rewrite E2, (proj2 (eqb_eq leb leb_total leb_antisym _ _) eq_refl). reflexivity.
      * split.
        -- intros q Hq. apply in_app_or in Hq. destruct Hq as [Hq|[<-|[]]]; auto.
           destruct (leb_total bl (label p)) as [H|H]; auto.
           unfold ltb in E1. rewrite H in E1. simpl in E1. apply negb_false_iff in E1. auto.
        -- rewrite filter_app, Hs. simpl. rewrite E2. rewrite app_nil_r. reflexivity.
  - intros [-> Hs]. simpl. split.
    + intros q [<-|[]]. apply (leb_refl leb leb_total).
    + rewrite (proj2 (eqb_eq leb leb_total leb_antisym _ _) eq_refl). reflexivity.
Qed.

Lemma St_fold l : forall a seen, St a seen -> St (fold_left (visit leb label) l a) (seen ++ l).
Proof.
  induction l as [|p l IH]; intros a seen H; simpl; [rewrite app_nil_r; auto|].
  replace (seen ++ p :: l) with ((seen ++ [p]) ++ l) by (rewrite <- app_assoc; reflexivity).
  apply IH. apply St_visit. auto.
Qed.

Lemma fold_min_leaves l bl bp : fst (fold_left (visit leb label) l (None, [])) = Some (bl, bp) ->
  snd (fold_left (visit leb label) l (None, [])) = filter (fun p => eqb leb (label p) bl) l.
Proof.
  intros E. pose proof (St_fold l (None, []) [] (conj eq_refl eq_refl)) as H. unfold St in H. rewrite E in H. apply H.
Qed.
End FoldFilter.

Lemma min_leaves_filter g lab p : fst (canon_search g) = Some (lab, p) ->
  min_leaves g = filter (fun q => eqb lexlebN (label g q) lab) (leaves_of g).
Proof.
  unfold min_leaves. rewrite canon_search_fold. apply (fold_min_leaves _ lexlebN lexlebN_total lexlebN_trans lexlebN_antisym).
Qed.

(* ---------------- an automorphism, extended by the identity, is an injective renaming ---------------- *)
Definition ext_aut (g : vgraph) (s : N -> N) (v : N) : N := if memN v (node_ids g) then s v else v.

Lemma ext_aut_inj g s : is_aut g s -> forall x y, ext_aut g s x = ext_aut g s y -> x = y.
Proof.
  intros (Hinj & Hin & _) x y. unfold ext_aut.
  destruct (memN x (node_ids g)) eqn:Ex, (memN y (node_ids g)) eqn:Ey; intros E; auto.
  - apply memN_spec in Ex, Ey. auto.
  - apply memN_spec in Ex. apply Hin in Ex. rewrite E in Ex. apply memN_spec in Ex. congruence.
  - apply memN_spec in Ey. apply Hin in Ey. rewrite <- E in Ey. apply memN_spec in Ey. congruence.
Qed.
Lemma ext_aut_on g s v : In v (node_ids g) -> ext_aut g s v = s v.
Proof. intros H. unfold ext_aut. apply memN_spec in H. rewrite H. reflexivity. Qed.

Lemma aut_leaf g s p : wf g -> is_aut g s -> In p (leaves_of g) -> In (map s p) (leaves_of g) /\ label g (map s p) = label g p.
Proof.
  intros Hw Ha Hp.
  assert (Hg : geq g (relabel (ext_aut g s) g)).
  { apply geq_sym. rewrite (relabel_ext _ s g Hw) by (intros; apply ext_aut_on; auto). apply aut_geq; auto. }
  assert (Em : map s p = map (ext_aut g s) p).
  { destruct (leaves_of_keys g p Hw Hp) as (pre & r & -> & Hr & _ & Ipre).
    apply map_ext_in. intros v Hv. symmetry. apply ext_aut_on. apply in_app_or in Hv.
    destruct Hv as [Hv|Hv]; [apply Ipre; auto|apply (Permutation_in _ Hr Hv)]. }
  rewrite Em. split.
  - apply (Permutation_in _ (leaves_of_rel _ (ext_aut_inj g s Ha) g g Hw Hg)). apply in_map. auto.
  - apply (label_rel _ (ext_aut_inj g s Ha) g g p Hw Hg).
Qed.

(* ---------------- clause 4 ---------------- *)
Theorem aut_count g lab p : wf g -> kinds_ok g -> arcs_ok g -> fst (canon_search g) = Some (lab, p) ->
  NoDup (min_leaves g) /\
  (forall q, In q (min_leaves g) <-> exists s, is_aut g s /\ q = map s p) /\
  (forall s s', is_aut g s -> is_aut g s' -> map s p = map s' p -> forall v, In v (node_ids g) -> s v = s' v).
Proof.
  intros Hw Hk Hka Hb. destruct (best_is_leaf g lab p Hb) as [El Hp].
  pose proof (init_part_vpart g (proj1 Hw)) as Hvp.
  rewrite (min_leaves_filter g lab p Hb).
  split; [|split].
  - apply NoDup_filter. unfold leaves_of.
    apply (leaves_nodup _ IRInst.lexleb IRInst.lexleb_total (fun a b c H1 H2 => IRInst.lexleb_trans a b c H1 H2)
             IRInst.lexleb_antisym (sig g) _ (node_ids g) (proj1 Hw)). auto.
  - intros q. rewrite filter_In. split.
    + intros [Hq Elq]. apply (eqb_eq lexlebN lexlebN_total lexlebN_antisym) in Elq.
      assert (E : label g p = label g q) by congruence.
      destruct (same_label_aut g p q Hw Hk Hka Hp Hq E) as (pre & r & pre' & r' & -> & -> & Hlp & Hnd & Hnd' & Hr & Hr' & Haut).
      assert (Hl : length r = length r') by (rewrite (Permutation_length Hr), (Permutation_length Hr'); auto).
      exists (seqmap r r'). split; auto.
      destruct (aut_leaf g (seqmap r r') (pre ++ r) Hw Haut Hp) as [Hq2 _].
      rewrite map_app, (map_seqmap r r' Hnd Hl) in *.
      unfold leaves_of in Hq, Hq2.
      apply (leaves_tail_inj _ IRInst.lexleb IRInst.lexleb_total (fun a b c H1 H2 => IRInst.lexleb_trans a b c H1 H2)
               IRInst.lexleb_antisym (sig g) _ (node_ids g) (proj1 Hw) _ _ _ _ _ Hvp Hq Hq2).
      exists pre', (map (seqmap r r') pre), r'. repeat split; auto. apply (Permutation_length Hr').
    + intros (s & Hs & ->). destruct (aut_leaf g s p Hw Hs Hp) as [H1 H2]. split; auto.
      apply (eqb_eq lexlebN lexlebN_total lexlebN_antisym). congruence.
  - intros s s' _ _ E v Hv.
    destruct (leaves_of_keys g p Hw Hp) as (pre & r & -> & Hr & _).
    apply (Permutation_in _ (Permutation_sym Hr)) in Hv.
    assert (G : forall l, map s l = map s' l -> In v l -> s v = s' v).
    { induction l as [|x l IH]; simpl; intros E' I; [contradiction|]. inversion E'. destruct I as [<-|I]; auto. }
    apply (G (pre ++ r)); auto. apply in_or_app. auto.
Qed.

(** exchangeable nodes, read off the minimal leaves: u can be mapped to v by a structure-preserving self-map iff some
    minimal leaf carries v at a position where the best permutation carries u *)
Theorem orbit_pairs g lab p u v : wf g -> kinds_ok g -> arcs_ok g -> fst (canon_search g) = Some (lab, p) ->
  In u (node_ids g) ->
  ((exists s, is_aut g s /\ s u = v) <->
   (exists q i, In q (min_leaves g) /\ i < length p /\ nth i p 0%N = u /\ nth i q 0%N = v)).
Proof.
  intros Hw Hk Hka Hb Hu. destruct (aut_count g lab p Hw Hk Hka Hb) as (_ & Hiff & _).
  destruct (best_is_leaf g lab p Hb) as [_ Hp].
  split.
  - intros (s & Hs & <-). exists (map s p).
    destruct (leaves_of_keys g p Hw Hp) as (pre & r & E & Hr & _).
    assert (Iu : In u p) by (rewrite E; apply in_or_app; right; apply (Permutation_in _ (Permutation_sym Hr) Hu)).
    destruct (In_nth p u 0%N Iu) as (i & Hi & Ei). exists i. split; [apply Hiff; eauto|]. split; auto. split; auto.
    rewrite (nth_indep _ 0%N (s 0%N)) by (rewrite map_length; auto). rewrite map_nth. congruence.
  - intros (q & i & Hq & Hi & Eu & Ev). apply Hiff in Hq. destruct Hq as (s & Hs & ->). exists s. split; auto.
    rewrite (nth_indep _ 0%N (s 0%N)) in Ev by (rewrite map_length; auto). rewrite map_nth in Ev. congruence.
Qed.
