(** C03 — proofs about the model of rule application (model/C03_Model.v). *)
From Coq Require Import List NArith ZArith Bool Lia.
From SK Require Import lib.Tok lib.LGraph model.C03_Model.
Import ListNotations.
Local Open Scope Z_scope.

(** the reactant tuple of a glued node is the host's tuple *)
Lemma node_glue_left hn pn : iG (node_glue hn pn) = iG hn.
Proof. reflexivity. Qed.
