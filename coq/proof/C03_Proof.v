(** C03 — proofs about the model of rule application (model/C03_Model.v): gluing a rule onto a host along a match.
    Stdlib lists only. *)
From Coq Require Import List NArith ZArith Bool Lia Permutation.
From SK Require Import lib.Tok lib.LGraph model.C03_Model.
From SK Require Export proof.C03_Spec.
Import ListNotations.
Local Open Scope Z_scope.

(** * Boolean helpers *)
Lemma nodupb_NoDup l : nodupb l = true -> NoDup l.
Proof.
  induction l as [|x r IH]; simpl; intros H; [constructor|].
  apply andb_prop in H. destruct H as [H1 H2]. constructor; [|auto].
  intro I. apply mem_spec in I. rewrite I in H1. discriminate.
Qed.

Ltac eqb_cases :=
  repeat match goal with
         | |- context [N.eqb ?x ?y] => destruct (N.eqb_spec x y)
         | H : context [N.eqb ?x ?y] |- _ => destruct (N.eqb_spec x y)
         end; subst; simpl in *; try congruence; try discriminate; auto.

Lemma peq_sym1 a b u v : peq a b u v = peq b a u v.
Proof. unfold peq. eqb_cases. Qed.
Lemma peq_sym2 a b u v : peq a b u v = peq a b v u.
Proof. unfold peq. eqb_cases. Qed.
Lemma peq_swap a b u v : peq a b u v = peq u v a b.
Proof. unfold peq. eqb_cases. Qed.
Lemma peq_trans a b u v c d : peq a b u v = true -> peq a b c d = true -> peq u v c d = true.
Proof. unfold peq. intros H1 H2. eqb_cases. Qed.
Lemma peq_refl a b : peq a b a b = true.
Proof. unfold peq. rewrite !N.eqb_refl. reflexivity. Qed.

(** * Association lists and node updates *)
Lemma assoc_upd {V} (l : list (N * V)) n (f : V -> V) k :
  assoc k (map (fun p => if N.eqb (fst p) n then (fst p, f (snd p)) else p) l)
  = if N.eqb k n then option_map f (assoc k l) else assoc k l.
Proof.
  induction l as [|[k' v] r IH]; simpl.
  - destruct (N.eqb k n); reflexivity.
  - destruct (N.eqb_spec k' n); simpl.
    + subst. destruct (N.eqb_spec k n); simpl; [reflexivity|]. rewrite IH.
      destruct (N.eqb_spec k n); [contradiction|reflexivity].
    + destruct (N.eqb_spec k k'); simpl.
      * subst. destruct (N.eqb_spec k' n); [contradiction|reflexivity].
      * exact IH.
Qed.

Section Upd.
  Context {A B : Type}.
  Implicit Type g : lgraph A B.
  Lemma label_upd g n f k : label (upd_node g n f) k = if N.eqb k n then option_map f (label g k) else label g k.
  Proof. unfold label, upd_node; simpl. apply assoc_upd. Qed.
  Lemma ids_upd g n f : node_ids (upd_node g n f) = node_ids g.
  Proof.
    unfold node_ids, upd_node; simpl. rewrite map_map. apply map_ext. intros [k v]; simpl. destruct (N.eqb k n); reflexivity.
  Qed.
  Lemma edges_upd g n f : gedges (upd_node g n f) = gedges g.
  Proof. reflexivity. Qed.
  Lemma has_node_label g n : has_node g n = true <-> exists a, label g n = Some a.
  Proof. unfold has_node. destruct (label g n); split; intros H; eauto; try discriminate. destruct H; discriminate. Qed.
End Upd.

(** * Unordered-pair lookups *)
Section Edges.
  Context {B : Type}.
  Implicit Type es : list (N * N * B).

  Lemma find_edge_peq es a b u v : peq a b u v = true -> find_edge a b es = find_edge u v es.
  Proof.
    intros H. induction es as [|[[x y] z] r IH]; simpl; [reflexivity|]. rewrite IH.
    change ((N.eqb x a && N.eqb y b) || (N.eqb x b && N.eqb y a)) with (peq x y a b).
    change ((N.eqb x u && N.eqb y v) || (N.eqb x v && N.eqb y u)) with (peq x y u v).
    destruct (peq x y a b) eqn:E1, (peq x y u v) eqn:E2; try reflexivity.
    - rewrite (peq_trans _ _ _ _ _ _ (eq_trans (peq_swap a b x y) E1) H) in E2. discriminate.
    - assert (peq u v a b = true) by (rewrite peq_swap; exact H).
      rewrite (peq_trans _ _ _ _ _ _ (eq_trans (peq_swap u v x y) E2) H0) in E1. discriminate.
  Qed.

  Lemma find_edge_app es1 es2 a b :
    find_edge a b (es1 ++ es2) = match find_edge a b es1 with Some x => Some x | None => find_edge a b es2 end.
  Proof.
    induction es1 as [|[[x y] z] r IH]; simpl; [reflexivity|].
    destruct ((N.eqb x a && N.eqb y b) || (N.eqb x b && N.eqb y a)); [reflexivity|exact IH].
  Qed.

  Lemma find_edge_one a b u v (x : B) : find_edge a b [(u, v, x)] = if peq u v a b then Some x else None.
  Proof. reflexivity. Qed.

  Lemma find_edge_set es a b u v (x : B) :
    find_edge a b (map (fun e => let '(p, q, y) := e in if peq p q u v then (p, q, x) else e) es)
    = if peq u v a b then option_map (fun _ => x) (find_edge a b es) else find_edge a b es.
  Proof.
    induction es as [|[[p q] y] r IH]; simpl.
    - destruct (peq u v a b); reflexivity.
    - change ((N.eqb p a && N.eqb q b) || (N.eqb p b && N.eqb q a)) with (peq p q a b).
      destruct (peq p q u v) eqn:E1; simpl;
        change ((N.eqb p a && N.eqb q b) || (N.eqb p b && N.eqb q a)) with (peq p q a b).
      + destruct (peq p q a b) eqn:E2.
        * rewrite (peq_trans _ _ _ _ _ _ E1 E2). reflexivity.
        * rewrite IH. reflexivity.
      + destruct (peq p q a b) eqn:E2.
        * destruct (peq u v a b) eqn:E3; [|reflexivity].
          assert (peq a b u v = true) by (rewrite peq_swap; exact E3).
          rewrite (peq_trans _ _ _ _ _ _ (eq_trans (peq_swap a b p q) E2) H) in E1. discriminate.
        * exact IH.
  Qed.

  Lemma find_edge_in es a b x : find_edge a b es = Some x -> exists p q, In (p, q, x) es /\ peq p q a b = true.
  Proof.
    induction es as [|[[p q] y] r IH]; simpl; [discriminate|].
    change ((N.eqb p a && N.eqb q b) || (N.eqb p b && N.eqb q a)) with (peq p q a b).
    destruct (peq p q a b) eqn:E.
    - intros [= ->]. exists p, q. auto.
    - intros H. destruct (IH H) as (p' & q' & I & E'). exists p', q'. auto.
  Qed.

  Lemma find_edge_none_in es a b p q x : find_edge a b es = None -> In (p, q, x) es -> peq p q a b = false.
  Proof.
    induction es as [|[[p' q'] y] r IH]; simpl; [intros _ []|].
    change ((N.eqb p' a && N.eqb q' b) || (N.eqb p' b && N.eqb q' a)) with (peq p' q' a b).
    destruct (peq p' q' a b) eqn:E; [discriminate|].
    intros H [I|I]; [inversion I; subst; exact E|auto].
  Qed.
End Edges.

Lemma find_edge_map {B C} (f : B -> C) (es : list (N * N * B)) a b :
  find_edge a b (map (fun e => let '(u, v, o) := e in (u, v, f o)) es) = option_map f (find_edge a b es).
Proof.
  induction es as [|[[u v] o] r IH]; simpl; [reflexivity|].
  destruct ((N.eqb u a && N.eqb v b) || (N.eqb u b && N.eqb v a)); [reflexivity|exact IH].
Qed.

(** * The host lifted to an ITS *)
Lemma adj_its_of_host host a b : adj (its_of_host host) a b = option_map lift (adj host a b).
Proof. unfold adj, its_of_host; simpl. apply (find_edge_map lift). Qed.
Lemma label_its_of_host host n : label (its_of_host host) n = option_map (fun t => IN t t 0 None) (label host n).
Proof.
  unfold label, its_of_host; simpl. induction (gnodes host) as [|[k v] r IH]; simpl; [reflexivity|].
  destruct (N.eqb n k); [reflexivity|exact IH].
Qed.
Lemma ids_its_of_host host : node_ids (its_of_host host) = node_ids host.
Proof. unfold node_ids, its_of_host; simpl. rewrite map_map. reflexivity. Qed.

(** * Node gluing *)
Lemma glue_nodes_edges T rc m : gedges (glue_nodes T rc m) = gedges T.
Proof.
  revert T. induction m as [|[p h] r IH]; intros T; simpl; [reflexivity|].
  unfold glue_nodes in *. simpl. destruct (label rc p); [|apply IH].
  destruct (has_node T h); rewrite IH; reflexivity.
Qed.
Lemma glue_nodes_ids T rc m : node_ids (glue_nodes T rc m) = node_ids T.
Proof.
  revert T. induction m as [|[p h] r IH]; intros T; simpl; [reflexivity|].
  unfold glue_nodes in *. simpl. destruct (label rc p); [|apply IH].
  destruct (has_node T h); rewrite IH; [apply ids_upd|reflexivity].
Qed.
Lemma glue_nodes_iG T rc m n : option_map iG (label (glue_nodes T rc m) n) = option_map iG (label T n).
Proof.
  revert T. induction m as [|[p h] r IH]; intros T; simpl; [reflexivity|].
  unfold glue_nodes in *. simpl. destruct (label rc p) as [pn|]; [|apply IH].
  destruct (has_node T h); rewrite IH; [|reflexivity].
  rewrite label_upd. destruct (N.eqb n h); [|reflexivity]. destruct (label T n); reflexivity.
Qed.
Lemma glue_nodes_other T rc m n : ~ In n (map snd m) -> label (glue_nodes T rc m) n = label T n.
Proof.
  revert T. induction m as [|[p h] r IH]; intros T Hn; simpl; [reflexivity|].
  unfold glue_nodes in *. simpl in *. destruct (label rc p) as [pn|]; [|apply IH; tauto].
  destruct (has_node T h); rewrite IH by tauto; [|reflexivity].
  rewrite label_upd. destruct (N.eqb_spec n h); [subst; tauto|reflexivity].
Qed.
Lemma glue_nodes_at T rc m p h pn hn :
  NoDup (map snd m) -> In (p, h) m -> NoDup (map fst m) -> label rc p = Some pn -> label T h = Some hn ->
  label (glue_nodes T rc m) h = Some (node_glue hn pn).
Proof.
  revert T. induction m as [|[p0 h0] r IH]; intros T Hs Hin Hf Hp Hh; [destruct Hin|].
  simpl in Hs, Hf. inversion Hs as [|? ? Hs1 Hs2]; subst. inversion Hf as [|? ? Hf1 Hf2]; subst.
  unfold glue_nodes in *. simpl. destruct Hin as [E|Hin].
  - inversion E; subst. rewrite Hp.
    assert (Hhn : has_node T h = true) by (apply has_node_label; eauto). rewrite Hhn.
    fold (glue_nodes (upd_node T h (fun hn0 => node_glue hn0 pn)) rc r).
    rewrite glue_nodes_other by exact Hs1. rewrite label_upd, N.eqb_refl, Hh. reflexivity.
  - assert (h <> h0) by (intro; subst; apply Hs1; change h0 with (snd (p, h0)); apply in_map; exact Hin).
    destruct (label rc p0) as [pn0|]; [|apply IH; auto].
    destruct (has_node T h0); apply IH; auto.
    rewrite label_upd. destruct (N.eqb_spec h h0); [contradiction|exact Hh].
Qed.

(** * Edge merging: pointwise characterisation *)
Definition img (m : mapping) (e : N * N * iedge) : option (N * N) :=
  let '(u, v, _) := e in match mget m u, mget m v with Some hu, Some hv => Some (hu, hv) | _, _ => None end.
Definition hits (m : mapping) (e : N * N * iedge) (a b : N) : bool :=
  match img m e with Some (hu, hv) => peq hu hv a b | None => false end.
Fixpoint find_hit (m : mapping) (es : list (N * N * iedge)) (a b : N) : option iedge :=
  match es with
  | [] => None
  | e :: r => if hits m e a b then Some (snd e) else find_hit m r a b
  end.

(** what one template edge does to the current bond [cur] of its image pair; outer None = no ITS produced *)
Definition merge (cur : option iedge) (x : iedge) : option iedge :=
  match cur with
  | None => Some x
  | Some y => if Z.eqb (eG x) 0
              then if Z.odd (eH y + eH x) then None else Some (eG y, eH y + eH x, eS y + eS x)
              else Some x
  end.

(** no two edges of the list are mapped onto the same host pair *)
Fixpoint distinct_images (m : mapping) (es : list (N * N * iedge)) : Prop :=
  match es with
  | [] => True
  | e :: r => (forall a b, hits m e a b = true -> find_hit m r a b = None) /\ distinct_images m r
  end.

Lemma fold_glue_none m es : fold_left (glue_edge m) es None = None.
Proof. induction es; simpl; auto. Qed.

Lemma glue_edge_nodes m T e T' : glue_edge m (Some T) e = Some T' -> gnodes T' = gnodes T.
Proof.
  destruct e as [[u v] x]. simpl. destruct (mget m u) as [hu|]; [|intros [= <-]; reflexivity].
  destruct (mget m v) as [hv|]; [|intros [= <-]; reflexivity].
  destruct (adj T hu hv) as [y|]; [|intros [= <-]; reflexivity].
  destruct (Z.eqb (eG x) 0); [destruct (Z.odd _); [discriminate|]|]; intros [= <-]; reflexivity.
Qed.
Lemma fold_glue_nodes m es T T' : fold_left (glue_edge m) es (Some T) = Some T' -> gnodes T' = gnodes T.
Proof.
  revert T. induction es as [|e r IH]; cbn [fold_left]; intros T H; [inversion H; reflexivity|].
  destruct (glue_edge m (Some T) e) as [T1|] eqn:E; [|rewrite fold_glue_none in H; discriminate].
  rewrite (IH _ H). eapply glue_edge_nodes; eauto.
Qed.

Lemma adj_set_edge (T : its) u v x a b :
  adj (set_edge T u v x) a b = if peq u v a b then option_map (fun _ => x) (adj T a b) else adj T a b.
Proof. unfold adj, set_edge; simpl. apply (find_edge_set (gedges T) a b u v x). Qed.

(** one step *)
Lemma glue_edge_step m T e T' a b :
  glue_edge m (Some T) e = Some T' ->
  if hits m e a b then exists r, merge (adj T a b) (snd e) = Some r /\ adj T' a b = Some r
  else adj T' a b = adj T a b.
Proof.
  destruct e as [[u v] x]. unfold hits, img. simpl.
  destruct (mget m u) as [hu|]; [|intros [= <-]; reflexivity].
  destruct (mget m v) as [hv|]; [|intros [= <-]; reflexivity].
  destruct (adj T hu hv) as [y|] eqn:Ea.
  - destruct (Z.eqb (eG x) 0) eqn:E0.
    + destruct (Z.odd (eH y + eH x)) eqn:Eo; [discriminate|]. intros [= <-].
      rewrite adj_set_edge. destruct (peq hu hv a b) eqn:Ep; [|reflexivity].
      unfold adj in *. rewrite <- (find_edge_peq (gedges T) _ _ _ _ Ep), Ea. simpl. rewrite E0, Eo. eauto.
    + intros [= <-]. rewrite adj_set_edge. destruct (peq hu hv a b) eqn:Ep; [|reflexivity].
      unfold adj in *. rewrite <- (find_edge_peq (gedges T) _ _ _ _ Ep), Ea. simpl. rewrite E0. eauto.
  - intros [= <-]. unfold adj in *. simpl. rewrite find_edge_app, find_edge_one.
    destruct (peq hu hv a b) eqn:Ep.
    + rewrite <- (find_edge_peq (gedges T) _ _ _ _ Ep), Ea. simpl. eauto.
    + destruct (find_edge a b (gedges T)); reflexivity.
Qed.

(** the whole fold: every host pair is either untouched or carries the merge of its original bond with the one
    template edge mapped onto it *)
Lemma fold_glue_spec m es : forall T T', distinct_images m es ->
  fold_left (glue_edge m) es (Some T) = Some T' ->
  forall a b, match find_hit m es a b with
              | Some x => exists r, merge (adj T a b) x = Some r /\ adj T' a b = Some r
              | None => adj T' a b = adj T a b
              end.
Proof.
  induction es as [|e r IH]; cbn [fold_left find_hit distinct_images]; intros T T' Hd H a b.
  - inversion H; reflexivity.
  - destruct Hd as [Hd1 Hd2].
    destruct (glue_edge m (Some T) e) as [T1|] eqn:E; [|rewrite fold_glue_none in H; discriminate].
    pose proof (glue_edge_step m T e T1 a b E) as Hs. specialize (IH T1 T' Hd2 H a b).
    destruct (hits m e a b) eqn:Eh.
    + rewrite (Hd1 a b Eh) in IH. destruct Hs as (r0 & Hm & Ha). exists r0. split; [exact Hm|]. rewrite IH. exact Ha.
    + rewrite Hs in IH. exact IH.
Qed.

Lemma find_hit_in m es a b x : find_hit m es a b = Some x -> exists e, In e es /\ hits m e a b = true /\ snd e = x.
Proof.
  induction es as [|e r IH]; simpl; [discriminate|]. destruct (hits m e a b) eqn:E.
  - intros [= <-]. exists e. auto.
  - intros H. destruct (IH H) as (e' & I & Hh & Hx). exists e'. auto.
Qed.
Lemma find_hit_none_in m es a b e : find_hit m es a b = None -> In e es -> hits m e a b = false.
Proof.
  induction es as [|e0 r IH]; simpl; [intros _ []|]. destruct (hits m e0 a b) eqn:E; [discriminate|].
  intros H [<-|I]; auto.
Qed.
Lemma find_hit_first m es a b e : distinct_images m es -> In e es -> hits m e a b = true -> find_hit m es a b = Some (snd e).
Proof.
  induction es as [|e0 r IH]; simpl; [intros _ []|]. intros [Hd1 Hd2] [<-|I] Hh.
  - rewrite Hh. reflexivity.
  - destruct (hits m e0 a b) eqn:E; [|auto].
    rewrite (find_hit_none_in m r a b e (Hd1 a b E) I) in Hh. discriminate.
Qed.

(** * The hypotheses, as propositions *)

(** injective lookup *)
Lemma mget_inj m u u' h : NoDup (map snd m) -> mget m u = Some h -> mget m u' = Some h -> u = u'.
Proof.
  unfold mget. intros Hnd H1 H2. apply assoc_in in H1. apply assoc_in in H2.
  induction m as [|[p q] r IH]; [destruct H1|]. simpl in Hnd. inversion Hnd as [|? ? Hn1 Hn2]; subst.
  destruct H1 as [E1|I1], H2 as [E2|I2].
  - congruence.
  - inversion E1; subst. exfalso. apply Hn1. change h with (snd (u', h)). apply in_map. exact I2.
  - inversion E2; subst. exfalso. apply Hn1. change h with (snd (u, h)). apply in_map. exact I1.
  - auto.
Qed.

Lemma simple_edgesb_spec {B} (es : list (N * N * B)) : simple_edgesb es = true ->
  forall l1 a b x l2, es = l1 ++ (a, b, x) :: l2 -> a <> b /\ forall u v y, In (u, v, y) l2 -> peq u v a b = false.
Proof.
  induction es as [|[[a0 b0] x0] r IH]; intros H l1 a b x l2 E.
  - destruct l1; discriminate.
  - simpl in H. apply andb_prop in H. destruct H as [H H3]. apply andb_prop in H. destruct H as [H1 H2].
    destruct l1 as [|e1 l1]; simpl in E; inversion E; subst.
    + split.
      * intro; subst. rewrite N.eqb_refl in H1. discriminate.
      * intros u v y I. apply negb_true_iff in H2.
        destruct (peq u v a b) eqn:Ep; [|reflexivity].
        rewrite <- H2. symmetry. apply existsb_exists. exists (u, v, y). auto.
    + eapply IH; eauto.
Qed.

Lemma distinct_images_of m (es : list (N * N * iedge)) :
  NoDup (map snd m) -> simple_edgesb es = true -> distinct_images m es.
Proof.
  intros Hm. induction es as [|[[u v] x] r IH]; [simpl; auto|]. intros H.
  pose proof (simple_edgesb_spec _ H [] u v x r eq_refl) as [Hne Hr].
  simpl in H. apply andb_prop in H. destruct H as [_ H3]. cbn [distinct_images]. split; [|auto].
  intros a b Hh. destruct (find_hit m r a b) as [x'|] eqn:Ef; [|reflexivity]. exfalso.
  apply find_hit_in in Ef. destruct Ef as ([[u' v'] y] & I & Hh' & _).
  specialize (Hr u' v' y I).
  unfold hits, img in Hh, Hh'.
  destruct (mget m u) as [hu|] eqn:E1; [|discriminate]. destruct (mget m v) as [hv|] eqn:E2; [|discriminate].
  destruct (mget m u') as [hu'|] eqn:E3; [|discriminate]. destruct (mget m v') as [hv'|] eqn:E4; [|discriminate].
  assert (Hp : peq hu' hv' hu hv = true).
  { rewrite peq_swap in Hh. rewrite peq_swap in Hh'. rewrite peq_swap. exact (peq_trans _ _ _ _ _ _ Hh Hh'). }
  unfold peq in Hp, Hr. apply orb_prop in Hp. destruct Hp as [Hp|Hp]; apply andb_prop in Hp; destruct Hp as [Hp1 Hp2];
    apply N.eqb_eq in Hp1; apply N.eqb_eq in Hp2; subst.
  - rewrite (mget_inj m u' u hu Hm E3 E1), (mget_inj m v' v hv Hm E4 E2), !N.eqb_refl in Hr. discriminate.
  - rewrite (mget_inj m u' v hv Hm E3 E2), (mget_inj m v' u hu Hm E4 E1), !N.eqb_refl in Hr. simpl in Hr.
    rewrite orb_true_r in Hr. discriminate.
Qed.

(** * Sums over node lists *)

Lemma map_upd_notin {V} (l : list (N * V)) n (f : V -> V) :
  ~ In n (map fst l) -> map (fun p => if N.eqb (fst p) n then (fst p, f (snd p)) else p) l = l.
Proof.
  induction l as [|[k v] r IH]; simpl; intros H; [reflexivity|].
  destruct (N.eqb_spec k n); [subst; tauto|]. rewrite IH by tauto. reflexivity.
Qed.

Lemma sumL_upd {V} (w : V -> Z) (l : list (N * V)) n f a :
  NoDup (map fst l) -> assoc n l = Some a ->
  sumL w (map (fun p => if N.eqb (fst p) n then (fst p, f (snd p)) else p) l) = sumL w l - w a + w (f a).
Proof.
  induction l as [|[k v] r IH]; simpl; [discriminate|]. intros Hnd Ha. inversion Hnd as [|? ? Hn1 Hn2]; subst.
  destruct (N.eqb_spec n k).
  - subst. inversion Ha; subst. rewrite N.eqb_refl. simpl. rewrite map_upd_notin by exact Hn1. lia.
  - destruct (N.eqb_spec k n); [subst; contradiction|]. simpl. rewrite (IH Hn2 Ha). lia.
Qed.

Lemma sumZ_upd w (T : its) n f a :
  NoDup (node_ids T) -> label T n = Some a -> sumZ w (upd_node T n f) = sumZ w T - w a + w (f a).
Proof. intros. unfold sumZ, upd_node; simpl. apply sumL_upd; assumption. Qed.

Lemma sumF_perm G l l' : Permutation l l' -> sumF G l = sumF G l'.
Proof. induction 1; simpl; lia. Qed.

Lemma sumF_ids {V} (w : V -> Z) (l : list (N * V)) :
  NoDup (map fst l) -> sumF (fun p => match assoc p l with Some a => w a | None => 0 end) (map fst l) = sumL w l.
Proof.
  intros Hnd.
  assert (H : forall l0, (forall k v, In (k, v) l0 -> assoc k l = Some v) ->
            sumF (fun p => match assoc p l with Some a => w a | None => 0 end) (map fst l0) = sumL w l0).
  { induction l0 as [|[k v] r IH]; simpl; intros Hin; [reflexivity|].
    rewrite (Hin k v) by auto. rewrite IH; [reflexivity|]. intros; apply Hin; auto. }
  apply H. intros k v I. apply assoc_nodup_in; assumption.
Qed.

Definition sum_m (rc : its) (w' : inode -> Z) (m : mapping) : Z :=
  sumF (fun p => match label rc p with Some pn => w' pn | None => 0 end) (map fst m).

Lemma glue_nodes_sum rc w w' m : forall T,
  NoDup (node_ids T) -> NoDup (map snd m) ->
  (forall p h, In (p, h) m -> exists pn hn, label rc p = Some pn /\ label T h = Some hn /\ w (node_glue hn pn) = w hn + w' pn) ->
  sumZ w (glue_nodes T rc m) = sumZ w T + sum_m rc w' m.
Proof.
  induction m as [|[p h] r IH]; intros T HT Hs Hall.
  - unfold sum_m; simpl. lia.
  - simpl in Hs. inversion Hs as [|? ? Hs1 Hs2]; subst.
    destruct (Hall p h (or_introl eq_refl)) as (pn & hn & Hp & Hh & Hw).
    unfold glue_nodes. simpl. rewrite Hp.
    assert (Hhn : has_node T h = true) by (apply has_node_label; eauto). rewrite Hhn.
    fold (glue_nodes (upd_node T h (fun hn0 => node_glue hn0 pn)) rc r).
    rewrite IH.
    + rewrite (sumZ_upd w T h _ hn HT Hh). unfold sum_m. simpl. rewrite Hp. fold (sum_m rc w' r). unfold sum_m. lia.
    + rewrite ids_upd. exact HT.
    + exact Hs2.
    + intros p' h' I. destruct (Hall p' h' (or_intror I)) as (pn' & hn' & Hp' & Hh' & Hw').
      exists pn', hn'. split; [exact Hp'|]. split; [|exact Hw'].
      rewrite label_upd. destruct (N.eqb_spec h' h); [|exact Hh'].
      subst. exfalso. apply Hs1. change h with (snd (p', h)). apply in_map. exact I.
Qed.

(** * The match hypothesis as a proposition, and soundness of its boolean form *)
Record match_ok (host : hostg) (rc : its) (m : mapping) : Prop := {
  mo_keys : NoDup (map fst m);
  mo_vals : NoDup (map snd m);
  mo_perm : Permutation (node_ids rc) (map fst m);
  mo_nodes : forall p pn, In (p, pn) (gnodes rc) -> exists h hn, mget m p = Some h /\ label host h = Some hn
                /\ a_el hn = a_el (iG pn) /\ a_ch hn = a_ch (iG pn) /\ a_hc (iG pn) <= a_hc hn;
  mo_edges : forall u v x, In (u, v, x) (gedges rc) -> exists hu hv, mget m u = Some hu /\ mget m v = Some hv /\
                (0 < eG x -> adj host hu hv = Some (eG x)) }.

Lemma match_rcb_sound host rc m : NoDup (node_ids rc) -> match_rcb host rc m = true -> match_ok host rc m.
Proof.
  intros Hnd H. unfold match_rcb in H.
  apply andb_prop in H. destruct H as [H H5]. apply andb_prop in H. destruct H as [H H4].
  apply andb_prop in H. destruct H as [H H3]. apply andb_prop in H. destruct H as [H1 H2].
  rewrite forallb_forall in H4, H5.
  assert (Hn : forall p pn, In (p, pn) (gnodes rc) -> exists h hn, mget m p = Some h /\ label host h = Some hn
                /\ a_el hn = a_el (iG pn) /\ a_ch hn = a_ch (iG pn) /\ a_hc (iG pn) <= a_hc hn).
  { intros p pn I. specialize (H4 _ I). unfold rc_node_okb in H4. simpl in H4.
    destruct (mget m p) as [h|]; [|discriminate]. destruct (label host h) as [hn|] eqn:El; [|discriminate].
    apply andb_prop in H4. destruct H4 as [H4 Hc]. apply andb_prop in H4. destruct H4 as [Ha Hb].
    exists h, hn. split; [reflexivity|]. split; [exact El|]. split; [apply N.eqb_eq; exact Ha|].
    split; [apply Z.eqb_eq; exact Hb|apply Z.leb_le; exact Hc]. }
  constructor.
  - apply nodupb_NoDup; exact H1.
  - apply nodupb_NoDup; exact H2.
  - apply NoDup_Permutation_bis; [exact Hnd| |].
    + apply Nat.eqb_eq in H3. unfold node_ids. rewrite !map_length. lia.
    + intros p I. unfold node_ids in I. apply in_map_iff in I. destruct I as ([p' pn] & E & I). simpl in E; subst.
      destruct (Hn _ _ I) as (h & _ & Hh & _). unfold mget in Hh. apply assoc_in in Hh.
      change p with (fst (p, h)). apply in_map. exact Hh.
  - exact Hn.
  - intros u v x I. specialize (H5 _ I). unfold rc_edge_okb in H5.
    destruct (mget m u) as [hu|]; [|discriminate]. destruct (mget m v) as [hv|]; [|discriminate].
    exists hu, hv. repeat split; auto. intros Hpos. apply Z.ltb_lt in Hpos. rewrite Hpos in H5.
    destruct (adj host hu hv) as [o|]; [|discriminate]. apply Z.eqb_eq in H5. subst. reflexivity.
Qed.

Lemma wf_host_pos host a b o : wf_hostb host = true -> adj host a b = Some o -> 0 < o.
Proof.
  unfold wf_hostb. intros H Ha. apply andb_prop in H. destruct H as [_ H]. rewrite forallb_forall in H.
  unfold adj in Ha. apply find_edge_in in Ha. destruct Ha as (p & q & I & _). specialize (H _ I). simpl in H.
  apply Z.ltb_lt. exact H.
Qed.
Lemma wf_host_nodup host : wf_hostb host = true -> NoDup (node_ids host).
Proof. unfold wf_hostb. intros H. apply andb_prop in H. destruct H as [H _]. apply andb_prop in H. destruct H as [H _]. apply nodupb_NoDup; exact H. Qed.
Lemma wf_rc_nodup rc : wf_rcb rc = true -> NoDup (node_ids rc).
Proof. unfold wf_rcb. intros H. apply andb_prop in H. destruct H as [H _]. apply andb_prop in H. destruct H as [H _]. apply nodupb_NoDup; exact H. Qed.
Lemma wf_rc_simple rc : wf_rcb rc = true -> simple_edgesb (gedges rc) = true.
Proof. unfold wf_rcb. intros H. apply andb_prop in H. destruct H as [H _]. apply andb_prop in H. destruct H as [_ H]. exact H. Qed.
Lemma wf_rc_nonneg rc u v x : wf_rcb rc = true -> In (u, v, x) (gedges rc) -> 0 <= eG x /\ 0 <= eH x.
Proof.
  unfold wf_rcb. intros H I. apply andb_prop in H. destruct H as [_ H]. rewrite forallb_forall in H.
  specialize (H _ I). simpl in H. apply andb_prop in H. destruct H as [H1 H2]. split; apply Z.leb_le; assumption.
Qed.

(** * The glue theorems *)

Section Glue.
  Variables (host : hostg) (rc : its) (m : mapping) (T : its).
  Hypothesis Hwh : wf_hostb host = true.
  Hypothesis Hwr : wf_rcb rc = true.
  Hypothesis Hm : match_rcb host rc m = true.
  Hypothesis Hg : glue host rc m = Some T.

  Let T0 := glue_nodes (its_of_host host) rc m.
  Let MO : match_ok host rc m := match_rcb_sound host rc m (wf_rc_nodup rc Hwr) Hm.
  Let DI : distinct_images m (gedges rc) := distinct_images_of m (gedges rc) (mo_vals _ _ _ MO) (wf_rc_simple rc Hwr).

  Lemma glue_gnodes : gnodes T = gnodes T0.
  Proof. unfold glue in Hg. apply (fold_glue_nodes m (gedges rc) T0 T Hg). Qed.
  Lemma glue_label n : label T n = label T0 n.
  Proof. unfold label. rewrite glue_gnodes. reflexivity. Qed.
  Lemma adj_T0 a b : adj T0 a b = option_map lift (adj host a b).
  Proof. unfold T0, adj. rewrite glue_nodes_edges. apply adj_its_of_host. Qed.

  Lemma glue_adj a b :
    match find_hit m (gedges rc) a b with
    | Some x => exists r, merge (option_map lift (adj host a b)) x = Some r /\ adj T a b = Some r
    | None => adj T a b = option_map lift (adj host a b)
    end.
  Proof. pose proof (fold_glue_spec m (gedges rc) T0 T DI Hg a b) as H. rewrite adj_T0 in H. exact H. Qed.

  (** an rc edge, its image pair *)
  Lemma edge_image u v x : In (u, v, x) (gedges rc) ->
    exists hu hv, mget m u = Some hu /\ mget m v = Some hv /\ find_hit m (gedges rc) hu hv = Some x
                  /\ (0 < eG x -> adj host hu hv = Some (eG x)).
  Proof.
    intros I. destruct (mo_edges _ _ _ MO u v x I) as (hu & hv & E1 & E2 & E3).
    exists hu, hv. repeat split; auto.
    apply (find_hit_first m (gedges rc) hu hv (u, v, x) DI I). unfold hits, img. rewrite E1, E2. apply peq_refl.
  Qed.
  Lemma hit_edge a b x : find_hit m (gedges rc) a b = Some x ->
    exists u v hu hv, In (u, v, x) (gedges rc) /\ mget m u = Some hu /\ mget m v = Some hv /\ peq hu hv a b = true
                      /\ (0 < eG x -> adj host a b = Some (eG x)).
  Proof.
    intros H. apply find_hit_in in H. destruct H as ([[u v] x'] & I & Hh & E). simpl in E; subst.
    destruct (mo_edges _ _ _ MO u v x I) as (hu & hv & E1 & E2 & E3).
    unfold hits, img in Hh. rewrite E1, E2 in Hh. exists u, v, hu, hv. repeat split; auto.
    intros Hp. unfold adj in *. rewrite <- (find_edge_peq (gedges host) _ _ _ _ Hh). auto.
  Qed.

  (** ** (a) the reactant side of the glued ITS is the host *)
  Theorem left_is_host :
    node_ids T = node_ids host /\ (forall n, option_map iG (label T n) = label host n) /\ (forall a b, bondG T a b = adj host a b).
  Proof.
    split; [|split].
    - unfold node_ids. rewrite glue_gnodes. fold (node_ids T0). unfold T0. rewrite glue_nodes_ids. apply ids_its_of_host.
    - intros n. rewrite glue_label. unfold T0. rewrite glue_nodes_iG, label_its_of_host. destruct (label host n); reflexivity.
    - intros a b. unfold bondG. pose proof (glue_adj a b) as H.
      destruct (find_hit m (gedges rc) a b) as [x|] eqn:Ef.
      + destruct H as (r & Hmr & Ha). rewrite Ha.
        destruct (hit_edge a b x Ef) as (u & v & hu & hv & I & _ & _ & _ & Hpos).
        destruct (wf_rc_nonneg rc u v x Hwr I) as [Hg0 _].
        destruct (adj host a b) as [o|] eqn:Eo; simpl in Hmr.
        * pose proof (wf_host_pos host a b o Hwh Eo) as Ho.
          destruct (Z.eqb_spec (eG x) 0) as [E0|E0].
          -- destruct (Z.odd (eH (lift o) + eH x)); [discriminate|]. inversion Hmr; subst. unfold lift, eG; simpl.
             destruct (Z.ltb_spec 0 o); [reflexivity|lia].
          -- inversion Hmr; subst. assert (Hp : 0 < eG r) by lia. specialize (Hpos Hp). inversion Hpos; subst.
             destruct (Z.ltb_spec 0 (eG r)); [reflexivity|lia].
        * inversion Hmr; subst. destruct (Z.ltb_spec 0 (eG r)) as [Hp|]; [|reflexivity].
          specialize (Hpos Hp). discriminate.
      + rewrite H. destruct (adj host a b) as [o|] eqn:Eo; simpl; [|reflexivity].
        pose proof (wf_host_pos host a b o Hwh Eo). unfold lift, eG; simpl. destruct (Z.ltb_spec 0 o); [reflexivity|lia].
  Qed.

  (** ** node labels of the result *)
  Lemma glued_node p h pn : mget m p = Some h -> In (p, pn) (gnodes rc) ->
    exists hn, label host h = Some hn /\
      label T h = Some (IN hn (NA (a_el hn) (a_aro hn) (a_hc hn - (a_hc (iG pn) - a_hc (iH pn))) (a_ch (iH pn)) (a_nb hn)) 0
                           (match i_hp pn with Some l => Some l | None => None end)).
  Proof.
    intros E I. destruct (mo_nodes _ _ _ MO p pn I) as (h' & hn & E' & Hh & _). rewrite E in E'. inversion E'; subst h'.
    exists hn. split; [exact Hh|]. rewrite glue_label. unfold T0.
    rewrite (glue_nodes_at (its_of_host host) rc m p h pn (IN hn hn 0 None)); [reflexivity| | | | |].
    - exact (mo_vals _ _ _ MO). - unfold mget in E. apply assoc_in in E. exact E. - exact (mo_keys _ _ _ MO).
    - apply assoc_nodup_in; [exact (wf_rc_nodup rc Hwr)|exact I].
    - rewrite label_its_of_host, Hh. reflexivity.
  Qed.
  Lemma unglued_node h : ~ In h (map snd m) -> label T h = option_map (fun t => IN t t 0 None) (label host h).
  Proof. intros H. rewrite glue_label. unfold T0. rewrite glue_nodes_other by exact H. apply label_its_of_host. Qed.

  (** ** (b) hydrogen and charge totals change exactly as in the rule; elements never change *)
  Lemma sum_m_rc w' : sum_m rc w' m = sumZ w' rc.
  Proof.
    unfold sum_m. rewrite <- (sumF_perm _ _ _ (mo_perm _ _ _ MO)). unfold sumZ, label, node_ids.
    apply sumF_ids. exact (wf_rc_nodup rc Hwr).
  Qed.

  Lemma sum_glued w w' :
    (forall t, w (IN t t 0 None) = 0) ->
    (forall p h pn hn, In (p, h) m -> In (p, pn) (gnodes rc) -> label host h = Some hn ->
                       w (node_glue (IN hn hn 0 None) pn) = w' pn) ->
    sumZ w T = sumZ w' rc.
  Proof.
    intros Hclean Hw. unfold sumZ at 1. rewrite glue_gnodes. fold (sumZ w T0). unfold T0.
    rewrite (glue_nodes_sum rc w w' m).
    - rewrite sum_m_rc. assert (E : sumZ w (its_of_host host) = 0); [|lia].
      unfold sumZ, its_of_host; simpl. induction (gnodes host) as [|[k v] r IH]; simpl; [reflexivity|]. rewrite Hclean, IH. reflexivity.
    - rewrite ids_its_of_host. exact (wf_host_nodup host Hwh).
    - exact (mo_vals _ _ _ MO).
    - intros p h I.
      assert (Ip : In p (node_ids rc)).
      { apply (Permutation_in _ (Permutation_sym (mo_perm _ _ _ MO))). change p with (fst (p, h)). apply in_map. exact I. }
      unfold node_ids in Ip. apply in_map_iff in Ip. destruct Ip as ([p' pn] & E & Ip). simpl in E; subst p'.
      destruct (mo_nodes _ _ _ MO p pn Ip) as (h' & hn & E' & Hh & _).
      assert (h' = h).
      { unfold mget in E'. apply assoc_in in E'.
        pose proof (mo_keys _ _ _ MO) as Hk. clear - E' I Hk.
        induction m as [|[a b] r IH]; [destruct I|]. simpl in Hk. inversion Hk as [|? ? K1 K2]; subst.
        destruct I as [I|I], E' as [E|E].
        - congruence.
        - inversion I; subst. exfalso. apply K1. change p with (fst (p, h')). apply in_map. exact E.
        - inversion E; subst. exfalso. apply K1. change p with (fst (p, h)). apply in_map. exact I.
        - auto. }
      subst h'. exists pn, (IN hn hn 0 None). split; [|split].
      + apply assoc_nodup_in; [exact (wf_rc_nodup rc Hwr)|exact Ip].
      + rewrite label_its_of_host, Hh. reflexivity.
      + rewrite Hclean. rewrite (Hw p h pn hn I Ip Hh). lia.
  Qed.

  Theorem conserve :
    sumZ dH T = sumZ dH rc /\ sumZ dQ T = sumZ dQ rc /\ (forall n a, label T n = Some a -> a_el (iH a) = a_el (iG a)).
  Proof.
    split; [|split].
    - apply sum_glued.
      + intros t. unfold dH; simpl. lia.
      + intros p h pn hn _ _ _. unfold dH, node_glue; simpl. lia.
    - apply sum_glued.
      + intros t. unfold dQ; simpl. lia.
      + intros p h pn hn I Ip Hh. unfold dQ, node_glue; simpl.
        destruct (mo_nodes _ _ _ MO p pn Ip) as (h' & hn' & E' & Hh' & _ & Hc & _).
        assert (In (p, h') m) by (unfold mget in E'; apply assoc_in in E'; exact E').
        assert (h' = h).
        { pose proof (mo_keys _ _ _ MO) as Hk. clear - H I Hk.
          induction m as [|[a b] r IH]; [destruct I|]. simpl in Hk. inversion Hk as [|? ? K1 K2]; subst.
          destruct I as [I|I], H as [E|E].
          - congruence.
          - inversion I; subst. exfalso. apply K1. change p with (fst (p, h')). apply in_map. exact E.
          - inversion E; subst. exfalso. apply K1. change p with (fst (p, h)). apply in_map. exact I.
          - auto. }
        subst h'. rewrite Hh in Hh'. inversion Hh'; subst. lia.
    - intros n a Ha. destruct (in_dec N.eq_dec n (map snd m)) as [I|NI].
      + apply in_map_iff in I. destruct I as ([p h] & E & I). simpl in E; subst h.
        assert (Ip : In p (node_ids rc)).
        { apply (Permutation_in _ (Permutation_sym (mo_perm _ _ _ MO))). change p with (fst (p, n)). apply in_map. exact I. }
        unfold node_ids in Ip. apply in_map_iff in Ip. destruct Ip as ([p' pn] & E & Ip). simpl in E; subst p'.
        assert (Eg : mget m p = Some n) by (apply assoc_nodup_in; [exact (mo_keys _ _ _ MO)|exact I]).
        destruct (glued_node p n pn Eg Ip) as (hn & _ & Hl). rewrite Hl in Ha. inversion Ha; subst. reflexivity.
      + rewrite (unglued_node n NI) in Ha. destruct (label host n); inversion Ha; subst. reflexivity.
  Qed.

  (** ** (c) the changed bonds of the result are the image of the rule's changed bonds, with equal order changes *)
  Theorem unchanged_elsewhere a b : find_hit m (gedges rc) a b = None -> adj T a b = option_map lift (adj host a b).
  Proof. intros H. pose proof (glue_adj a b) as G. rewrite H in G. exact G. Qed.

  Lemma merged_delta cur x r : (forall y, cur = Some y -> eG y = eH y) -> merge cur x = Some r -> eH r - eG r = eH x - eG x.
  Proof.
    intros Hc. destruct cur as [y|]; simpl.
    - destruct (Z.eqb_spec (eG x) 0).
      + destruct (Z.odd _); [discriminate|]. intros [= <-]. specialize (Hc y eq_refl). unfold eG, eH in *; simpl in *. lia.
      + intros [= <-]. reflexivity.
    - intros [= <-]. reflexivity.
  Qed.

  Theorem changes_image u v x : In (u, v, x) (gedges rc) ->
    exists hu hv y, mget m u = Some hu /\ mget m v = Some hv /\ adj T hu hv = Some y /\ eH y - eG y = eH x - eG x.
  Proof.
    intros I. destruct (edge_image u v x I) as (hu & hv & E1 & E2 & Ef & _).
    pose proof (glue_adj hu hv) as G. rewrite Ef in G. destruct G as (r & Hmr & Ha).
    exists hu, hv, r. repeat split; auto. eapply merged_delta; [|exact Hmr].
    intros y Hy. destruct (adj host hu hv); inversion Hy; subst. reflexivity.
  Qed.

  Theorem changes_only a b y : adj T a b = Some y -> eG y <> eH y ->
    exists u v x, In (u, v, x) (gedges rc) /\ hits m (u, v, x) a b = true /\ eH y - eG y = eH x - eG x.
  Proof.
    intros Ha Hne. pose proof (glue_adj a b) as G. destruct (find_hit m (gedges rc) a b) as [x|] eqn:Ef.
    - destruct G as (r & Hmr & Ha'). rewrite Ha in Ha'. inversion Ha'; subst r.
      apply find_hit_in in Ef. destruct Ef as ([[u v] x'] & I & Hh & E). simpl in E; subst x'.
      exists u, v, x. repeat split; auto. eapply merged_delta; [|exact Hmr].
      intros y0 Hy. destruct (adj host a b); inversion Hy; subst. reflexivity.
    - rewrite Ha in G. destruct (adj host a b); inversion G; subst. exfalso. apply Hne. reflexivity.
  Qed.

  (** ** the additive branch, exactly: no rounding; an odd half-unit sum produces no ITS at all *)
  Theorem additive u v x hu hv o : In (u, v, x) (gedges rc) -> eG x = 0 ->
    mget m u = Some hu -> mget m v = Some hv -> adj host hu hv = Some o ->
    adj T hu hv = Some (o, o + eH x, eS x) /\ Z.odd (o + eH x) = false.
  Proof.
    intros I E0 E1 E2 Eo. destruct (edge_image u v x I) as (hu' & hv' & E1' & E2' & Ef & _).
    rewrite E1 in E1'. rewrite E2 in E2'. inversion E1'; inversion E2'; subst hu' hv'.
    pose proof (glue_adj hu hv) as G. rewrite Ef, Eo in G. destruct G as (r & Hmr & Ha). simpl in Hmr.
    rewrite E0 in Hmr. simpl in Hmr. unfold lift, eH, eS, eG in *; simpl in *.
    destruct (Z.odd (o + snd (fst x))) eqn:Eodd; [discriminate|]. inversion Hmr; subst. split; [|reflexivity].
    rewrite Ha. f_equal.
  Qed.

  (** ** standard_order stays order_G - order_H (the premise C02 needs for glued ITS graphs) *)
  Theorem std_consistent_glue :
    (forall u v x, In (u, v, x) (gedges rc) -> eS x = eG x - eH x) ->
    forall a b y, adj T a b = Some y -> eS y = eG y - eH y.
  Proof.
    intros Hrc a b y Ha. pose proof (glue_adj a b) as G. destruct (find_hit m (gedges rc) a b) as [x|] eqn:Ef.
    - destruct G as (r & Hmr & Ha'). rewrite Ha in Ha'. inversion Ha'; subst r.
      apply find_hit_in in Ef. destruct Ef as ([[u v] x'] & I & _ & E). simpl in E; subst x'.
      specialize (Hrc u v x I). destruct (adj host a b) as [o|]; simpl in Hmr.
      + destruct (Z.eqb_spec (eG x) 0).
        * destruct (Z.odd _); [discriminate|]. inversion Hmr; subst. unfold lift, eG, eH, eS in *; simpl in *. lia.
        * inversion Hmr; subst. exact Hrc.
      + inversion Hmr; subst. exact Hrc.
    - rewrite Ha in G. destruct (adj host a b); inversion G; subst. unfold lift, eG, eH, eS; simpl. lia.
  Qed.
End Glue.
