(** C18 — WLCanonicalizer (model/C18_WLModel.v): the colour cells never split a class of exchangeable nodes.
    For every attribute selection and every combination of the options n_iter / include_in_neighbors / include_out_neighbors,
    a self-map of the view that preserves the SELECTED node attributes, adjacency (both directions, loops) and the SELECTED
    edge attributes preserves every WL colour; so every true orbit lies inside one colour cell (the "sound half" the code's
    documentation promises for its approximate orbits). *)
From Coq Require Import List NArith ZArith Bool Arith Lia Permutation.
From SK Require Import lib.IRSortKeys lib.IRCore lib.IRSearch lib.StrJoin model.C18_Model model.C18_AttrModel model.C18_WLModel
  proof.C18_Spec proof.C18_Graph.
From SK Require lib.IRInst.
Import ListNotations.

(** a self-map preserving the selected attributes *)
Definition is_autA (g : vgraph) (t : ltab) (nk : list nsel) (ek : list esel) (s : N -> N) : Prop :=
  inj_on s (node_ids g) /\ (forall v, In v (node_ids g) -> In (s v) (node_ids g)) /\
  (forall v, In v (node_ids g) -> nkey g t nk (s v) = nkey g t nk v) /\
  (forall u v, In u (node_ids g) -> In v (node_ids g) ->
     option_map (ekey ek) (find_arc g (s u) (s v)) = option_map (ekey ek) (find_arc g u v)).

(* ---------------- insertion sort of tuples (duplicates kept) is permutation invariant ---------------- *)
Lemma lexleb_false a b : lexleb a b = false -> lexleb b a = true.
Proof. intros H. destruct (IRInst.lexleb_total a b); congruence. Qed.

Lemma ins_tuple_comm x y l : ins_tuple x (ins_tuple y l) = ins_tuple y (ins_tuple x l).
Proof.
  induction l as [|z l IH]; simpl.
  - destruct (lexleb x y) eqn:Exy, (lexleb y x) eqn:Eyx; auto.
    + rewrite (IRInst.lexleb_antisym _ _ Exy Eyx). reflexivity.
    + apply lexleb_false in Exy. congruence.
  - destruct (lexleb y z) eqn:Eyz, (lexleb x z) eqn:Exz; simpl; rewrite ?Eyz, ?Exz.
    + destruct (lexleb x y) eqn:Exy, (lexleb y x) eqn:Eyx; simpl; rewrite ?Eyz, ?Exz; auto.
      * rewrite (IRInst.lexleb_antisym _ _ Exy Eyx). reflexivity.
      * apply lexleb_false in Exy. congruence.
    + destruct (lexleb x y) eqn:Exy; simpl; rewrite ?Eyz, ?Exz; auto.
      rewrite (IRInst.lexleb_trans _ _ _ Exy Eyz) in Exz. discriminate.
    + destruct (lexleb y x) eqn:Eyx; simpl; rewrite ?Eyz, ?Exz; auto.
      rewrite (IRInst.lexleb_trans _ _ _ Eyx Exz) in Eyz. discriminate.
    + rewrite IH. reflexivity.
Qed.
Lemma sort_tuples_perm l l' : Permutation l l' -> sort_tuples l = sort_tuples l'.
Proof. unfold sort_tuples. induction 1; simpl; auto; try congruence. apply ins_tuple_comm. Qed.

(* ---------------- arcs into / out of a node, listed along the node list ---------------- *)
Lemma NoDup_flat_map {A B} (f : A -> list B) l :
  NoDup l -> (forall a, In a l -> NoDup (f a)) -> (forall a b x, In a l -> In b l -> In x (f a) -> In x (f b) -> a = b) ->
  NoDup (flat_map f l).
Proof.
  induction l as [|a l IH]; simpl; intros Hnd Hf Hd; [constructor|]. inversion Hnd; subst.
  assert (Hrest : NoDup (flat_map f l)) by (apply IH; auto; intros; eapply Hd; eauto).
  revert Hrest. generalize (Hf a (or_introl eq_refl)).
  assert (Hdis : forall x, In x (f a) -> ~ In x (flat_map f l)).
  { intros x Hx Hin. apply in_flat_map in Hin. destruct Hin as (b & Hb & Hxb).
    assert (a = b) by (eapply Hd; eauto). subst. contradiction. }
  revert Hdis. generalize (f a) as fa. induction fa as [|x fa IHf]; simpl; intros Hdis Hna Hr; auto.
  inversion Hna; subst. constructor.
  - rewrite in_app_iff. intros [H|H]; [contradiction|]. eapply Hdis; eauto.
  - apply IHf; auto.
Qed.

Definition arc_in (g : vgraph) (v u : N) : list arc := match find_arc g u v with Some a => [(u, v, a)] | None => [] end.
Definition arc_out (g : vgraph) (v u : N) : list arc := match find_arc g v u with Some a => [(v, u, a)] | None => [] end.

Lemma in_arcs_perm g v : wf g ->
  Permutation (filter (fun e => N.eqb (adst e) v) (varcs g)) (flat_map (arc_in g v) (node_ids g)).
Proof.
  intros Hw. destruct Hw as (Hn & Ha & Hends). apply NoDup_Permutation.
  - apply NoDup_filter. apply (NoDup_map_inv akey). exact Ha.
  - apply NoDup_flat_map; auto.
    + intros a _. unfold arc_in. destruct (find_arc g a v); repeat constructor; auto.
    + intros a b x _ _. unfold arc_in. destruct (find_arc g a v), (find_arc g b v); simpl; try tauto.
      intros [<-|[]] [E|[]]. congruence.
  - intros [[u w] a]. rewrite filter_In, in_flat_map. unfold adst, arc_in. simpl. split.
    + intros [Hin E]. apply N.eqb_eq in E. subst w. exists u. split; [apply (Hends _ Hin)|].
      unfold find_arc. rewrite (find_arc_l_in _ _ _ _ Ha Hin). left. reflexivity.
    + intros (u' & Hu' & Hx). unfold find_arc in Hx. destruct (find_arc_l (varcs g) u' v) eqn:E; [|contradiction].
      destruct Hx as [Hx|[]]. inversion Hx; subst. split; [apply find_arc_l_some; auto|apply N.eqb_refl].
Qed.
Lemma out_arcs_perm g v : wf g ->
  Permutation (filter (fun e => N.eqb (asrc e) v) (varcs g)) (flat_map (arc_out g v) (node_ids g)).
Proof.
  intros Hw. destruct Hw as (Hn & Ha & Hends). apply NoDup_Permutation.
  - apply NoDup_filter. apply (NoDup_map_inv akey). exact Ha.
  - apply NoDup_flat_map; auto.
    + intros a _. unfold arc_out. destruct (find_arc g v a); repeat constructor; auto.
    + intros a b x _ _. unfold arc_out. destruct (find_arc g v a), (find_arc g v b); simpl; try tauto.
      intros [<-|[]] [E|[]]. congruence.
  - intros [[w u] a]. rewrite filter_In, in_flat_map. unfold asrc, arc_out. simpl. split.
    + intros [Hin E]. apply N.eqb_eq in E. subst w. exists u. split; [apply (Hends _ Hin)|].
      unfold find_arc. rewrite (find_arc_l_in _ _ _ _ Ha Hin). left. reflexivity.
    + intros (u' & Hu' & Hx). unfold find_arc in Hx. destruct (find_arc_l (varcs g) v u') eqn:E; [|contradiction].
      destruct Hx as [Hx|[]]. inversion Hx; subst. split; [apply find_arc_l_some; auto|apply N.eqb_refl].
Qed.

Lemma flat_map_map {A B C} (f : A -> B) (h : B -> list C) l : flat_map h (map f l) = flat_map (fun x => h (f x)) l.
Proof. induction l; simpl; auto. rewrite IHl. reflexivity. Qed.
Lemma map_flat_map {A B C} (f : B -> C) (h : A -> list B) l : map f (flat_map h l) = flat_map (fun x => map f (h x)) l.
Proof. induction l; simpl; auto. rewrite map_app, IHl. reflexivity. Qed.
Lemma flat_map_ext_in' {A B} (f h : A -> list B) l : (forall x, In x l -> f x = h x) -> flat_map f l = flat_map h l.
Proof. induction l; simpl; intros H; auto. rewrite H, IHl; auto. Qed.
Lemma perm_flat_map {A B} (f : A -> list B) l l' : Permutation l l' -> Permutation (flat_map f l) (flat_map f l').
Proof.
  induction 1; simpl; auto.
  - apply Permutation_app_head. auto.
  - rewrite !app_assoc. apply Permutation_app_tail. apply Permutation_app_comm.
  - eapply perm_trans; eauto.
Qed.

Section Aut.
Variables (g : vgraph) (t : ltab) (nk : list nsel) (ek : list esel) (s : N -> N).
Hypothesis Hw : wf g.
Hypothesis Hs : is_autA g t nk ek s.

Lemma aut_nodes_perm : Permutation (map s (node_ids g)) (node_ids g).
Proof.
  destruct Hs as (Hi & Hc & _). destruct Hw as (Hn & _).
  apply NoDup_Permutation_bis.
  - apply NoDup_map_inj_on; auto.
  - rewrite map_length. lia.
  - intros x Hx. apply in_map_iff in Hx. destruct Hx as (v & <- & Hv). auto.
Qed.

(** a colouring that the self-map preserves *)
Definition cinv (c : coloring) : Prop := forall v, In v (node_ids g) -> col_get c (s v) = col_get c v.

Definition itemF (c : coloring) (sel : arc -> N) (e : arc) : list Z := col_get c (sel e) :: ekey ek (aattr e).

Lemma in_items_aut c v : cinv c -> In v (node_ids g) ->
  Permutation (map (itemF c asrc) (filter (fun e => N.eqb (adst e) (s v)) (varcs g)))
              (map (itemF c asrc) (filter (fun e => N.eqb (adst e) v) (varcs g))).
Proof.
  intros Hc Hv. destruct Hs as (Hi & Hcl & Hk & He).
  eapply perm_trans; [apply Permutation_map; apply in_arcs_perm; auto|].
  eapply perm_trans; [|apply Permutation_sym; apply Permutation_map; apply in_arcs_perm; auto].
  rewrite !map_flat_map.
  eapply perm_trans; [apply perm_flat_map; apply Permutation_sym; apply aut_nodes_perm|].
  rewrite flat_map_map. rewrite (flat_map_ext_in' _ (fun x => map (itemF c asrc) (arc_in g v x))); auto.
  intros u Hu. unfold arc_in. specialize (He u v Hu Hv).
  destruct (find_arc g (s u) (s v)) as [a|], (find_arc g u v) as [b|]; simpl in *; try discriminate; auto.
  unfold itemF, asrc, aattr. simpl. rewrite Hc by auto. inversion He. reflexivity.
Qed.
Lemma out_items_aut c v : cinv c -> In v (node_ids g) ->
  Permutation (map (itemF c adst) (filter (fun e => N.eqb (asrc e) (s v)) (varcs g)))
              (map (itemF c adst) (filter (fun e => N.eqb (asrc e) v) (varcs g))).
Proof.
  intros Hc Hv. destruct Hs as (Hi & Hcl & Hk & He).
  eapply perm_trans; [apply Permutation_map; apply out_arcs_perm; auto|].
  eapply perm_trans; [|apply Permutation_sym; apply Permutation_map; apply out_arcs_perm; auto].
  rewrite !map_flat_map.
  eapply perm_trans; [apply perm_flat_map; apply Permutation_sym; apply aut_nodes_perm|].
  rewrite flat_map_map. rewrite (flat_map_ext_in' _ (fun x => map (itemF c adst) (arc_out g v x))); auto.
  intros u Hu. unfold arc_out. specialize (He v u Hv Hu).
  destruct (find_arc g (s v) (s u)) as [a|], (find_arc g v u) as [b|]; simpl in *; try discriminate; auto.
  unfold itemF, adst, aattr. simpl. rewrite Hc by auto. inversion He. reflexivity.
Qed.

Lemma cinv_nil : cinv [].
Proof. intros v _. reflexivity. Qed.

Lemma indeg_aut v : In v (node_ids g) -> indeg g (s v) = indeg g v.
Proof.
  intros Hv. unfold indeg. pose proof (Permutation_length (in_items_aut [] v cinv_nil Hv)) as H.
  rewrite !map_length in H. exact H.
Qed.
Lemma outdeg_aut v : In v (node_ids g) -> outdeg g (s v) = outdeg g v.
Proof.
  intros Hv. unfold outdeg. pose proof (Permutation_length (out_items_aut [] v cinv_nil Hv)) as H.
  rewrite !map_length in H. exact H.
Qed.

Lemma wl_seed_aut v : In v (node_ids g) -> wl_seed g t nk (s v) = wl_seed g t nk v.
Proof.
  intros Hv. unfold wl_seed. rewrite indeg_aut, outdeg_aut by auto.
  destruct Hs as (_ & _ & Hk & _). rewrite Hk by auto. reflexivity.
Qed.

Lemma wl_sig_aut inb outb c v : cinv c -> In v (node_ids g) -> wl_sig g ek inb outb c (s v) = wl_sig g ek inb outb c v.
Proof.
  intros Hc Hv. unfold wl_sig, in_items, out_items.
  change (fun e : arc => col_get c (asrc e) :: ekey ek (aattr e)) with (itemF c asrc).
  change (fun e : arc => col_get c (adst e) :: ekey ek (aattr e)) with (itemF c adst).
  rewrite (sort_tuples_perm _ _ (in_items_aut c v Hc Hv)), (sort_tuples_perm _ _ (out_items_aut c v Hc Hv)), Hc by auto.
  reflexivity.
Qed.

Lemma col_get_recolor nodes sg v : In v nodes ->
  col_get (recolor nodes sg) v = rank_in (sort_dedup lexleb (map sg nodes)) (sg v) 0%Z.
Proof.
  unfold recolor. generalize (sort_dedup lexleb (map sg nodes)) as keys. intros keys.
  induction nodes as [|u nodes IH]; simpl; [tauto|]. intros Hin.
  destruct (N.eqb_spec u v) as [->|Hne]; [reflexivity|]. destruct Hin as [E|Hin]; [congruence|auto].
Qed.

Lemma recolor_cinv sg : (forall v, In v (node_ids g) -> sg (s v) = sg v) -> cinv (recolor (node_ids g) sg).
Proof.
  intros Hsg v Hv. destruct Hs as (_ & Hcl & _). rewrite !col_get_recolor by auto. rewrite Hsg by auto. reflexivity.
Qed.

Lemma wl_rounds_cinv inb outb n : forall c, cinv c -> cinv (wl_rounds g ek inb outb n c).
Proof.
  induction n as [|n IH]; intros c Hc; simpl; auto.
  apply IH. apply recolor_cinv. intros v Hv. apply wl_sig_aut; auto.
Qed.

Theorem wl_colors_aut inb outb n_iter v : In v (node_ids g) ->
  col_get (wl_colors g t nk ek inb outb n_iter) (s v) = col_get (wl_colors g t nk ek inb outb n_iter) v.
Proof.
  revert v. change (cinv (wl_colors g t nk ek inb outb n_iter)). unfold wl_colors.
  apply wl_rounds_cinv. apply recolor_cinv. intros v Hv. apply wl_seed_aut; auto.
Qed.
End Aut.

(** the reported cells: a node and its image lie in the same cell *)
Theorem wl_cells_aut g t nk ek s inb outb n_iter : wf g -> is_autA g t nk ek s ->
  forall c, In c (wl_cells g (wl_colors g t nk ek inb outb n_iter)) ->
  forall v, In v (node_ids g) -> (In v c <-> In (s v) c).
Proof.
  intros Hw Hs c Hc v Hv. unfold wl_cells in Hc. apply in_map_iff in Hc. destruct Hc as (k & <- & _).
  rewrite !filter_In. rewrite (wl_colors_aut g t nk ek s Hw Hs) by auto.
  destruct Hs as (_ & Hcl & _). intuition.
Qed.

(** every node is in exactly the cell of its colour: the cells cover the nodes and are pairwise disjoint *)
Theorem wl_cells_cover g c v : In v (node_ids g) -> In v (map fst c) -> exists cell, In cell (wl_cells g c) /\ In v cell.
Proof.
  intros Hv Hc. unfold wl_cells. exists (filter (fun u => Z.eqb (col_get c u) (col_get c v)) (node_ids g)). split.
  - apply in_map_iff. exists (col_get c v). split; auto.
    apply (sort_dedup_in Z.leb). { intros a b H1 H2. apply Z.leb_le in H1, H2. lia. }
    clear Hv. induction c as [|[u k] c IH]; simpl in *; [tauto|]. destruct (N.eqb_spec u v); auto. destruct Hc; [congruence|auto].
  - apply filter_In. split; auto. apply Z.eqb_refl.
Qed.
Theorem wl_cells_disjoint g c c1 c2 v : In c1 (wl_cells g c) -> In c2 (wl_cells g c) -> In v c1 -> In v c2 -> c1 = c2.
Proof.
  unfold wl_cells. intros H1 H2. apply in_map_iff in H1, H2. destruct H1 as (k1 & <- & _), H2 as (k2 & <- & _).
  rewrite !filter_In. intros [_ E1] [_ E2]. apply Z.eqb_eq in E1, E2. assert (k1 = k2) by congruence. subst. reflexivity.
Qed.

(** the default canonicaliser's notion of a structure-preserving self-map is one for every selection without 'label' *)
Lemma is_aut_is_autA g t nk ek s : Forall (fun x => x <> NLabel) nk -> is_aut g s -> is_autA g t nk ek s.
Proof.
  intros Hnk (Hi & Hcl & Hk & He). repeat split; auto.
  - intros v Hv. unfold nkey. apply map_ext_in. intros x Hx. rewrite Forall_forall in Hnk. specialize (Hnk x Hx).
    destruct x; simpl; try congruence; rewrite Hk by auto; reflexivity.
  - intros u v Hu Hv. rewrite He by auto. reflexivity.
Qed.

Theorem wl_never_splits_orbit g s inb outb n_iter : wf g -> is_aut g s ->
  forall c, In c (wl_cells g (wl_colors g [] [NKind] [ERole; EStoich] inb outb n_iter)) ->
  forall v, In v (node_ids g) -> (In v c <-> In (s v) c).
Proof.
  intros Hw Hs. apply wl_cells_aut; auto. apply is_aut_is_autA; auto. repeat constructor; discriminate.
Qed.

(** the approximate orbits are unions of exact ones: two nodes that the canonicaliser reports in one orbit set have the same WL
    colour (via C18_orbits: they are exchanged by a structure-preserving self-map) *)
From SK Require Import proof.C18_Label proof.C18_Count proof.C18_Orbits proof.C18_OrbCanon.
Theorem wl_coarser_than_orbits g lab p inb outb n_iter : wf g -> kinds_ok g -> arcs_ok g -> fst (canon_search g) = Some (lab, p) ->
  forall c u v, In c (orbits_from_perms (min_leaves g)) -> In u c -> In v c -> In u (node_ids g) ->
    col_get (wl_colors g [] [NKind] [ERole; EStoich] inb outb n_iter) u = col_get (wl_colors g [] [NKind] [ERole; EStoich] inb outb n_iter) v.
Proof.
  intros Hw Hk Ha Hb c u v Hc Hu Hv Hun.
  destruct (proj1 (canon_orbits g lab p Hw Hk Ha Hb u v Hun)) as (s & Hs & <-); [exists c; auto|].
  symmetry. apply (wl_colors_aut g [] [NKind] [ERole; EStoich] s Hw); auto.
  apply is_aut_is_autA; auto. repeat constructor; discriminate.
Qed.
