(** C12 -- component-wise mode on the caller's graphs: find_rc_mapping(..., component=True) after any history stores ONE mapping,
    reported G1 -> G2, that is valid ([raw_valid]) for the two sides the facade selects -- injective and bond-preserving also ACROSS
    components --, and the other direction is its inverse, valid for the exchanged sides. *)
From Coq Require Import List NArith ZArith Bool Arith Lia Permutation.
From SK Require Import lib.Tok lib.LGraph lib.Mono model.C12_Model model.C12_State
     proof.C12_Search proof.C12_Proof proof.C12_Prune proof.C12_Component proof.C12_State proof.C12_StateRaw.
Import ListNotations.
Local Open Scope nat_scope.

(** every bond of the raw graph joins two of its atoms (guaranteed by networkx) *)
Definition raw_wfe (g : rgraph) : Prop := forall a b x, In (a, b, x) (gedges g) -> In a (node_ids g) /\ In b (node_ids g).

Lemma project_wfe cfg g : raw_wfe g -> wfe (project cfg g).
Proof.
  intros H a b x I. unfold project in I. simpl in I. apply in_map_iff in I. destruct I as ([[a' b'] x'] & E & I).
  simpl in E. inversion E; subst. rewrite project_ids. exact (H a b x' I).
Qed.

Theorem history_component_valid_raw a cfg st ops x sd mcs ga gb rds :
  mk_config a = Some cfg -> pick_sides x sd = Some (ga, gb) ->
  NoDup (node_ids ga) -> NoDup (node_ids gb) -> raw_wfe ga -> raw_wfe gb -> forallb is_read rds = true ->
  let stf := m_run cfg st (ops ++ MRc x sd mcs true :: rds) in
  exists m, m_get stf D12 = Some [m] /\ m_get stf D21 = Some [invert_mapping m] /\ m_get stf DP2H = Some [m] /\
    s_flag stf = Some true /\ s_last stf = length m /\
    raw_valid cfg ga gb m /\ raw_valid cfg gb ga (invert_mapping m).
Proof.
  intros Ea Ep N1 N2 W1 W2 Hr stf.
  assert (EL : length (c_defs cfg) = length (c_names cfg)).
  { pose proof (mk_config_spec a) as S. rewrite Ea in S. exact (proj1 (proj2 S)). }
  destruct (history_component_valid cfg st ops x sd mcs ga gb rds Ep N1 N2 (project_wfe cfg ga W1) (project_wfe cfg gb W2) Hr)
    as (m & E12 & E21 & Ep2 & Ef & El & C1 & C2).
  exists m. fold stf in E12, E21, Ep2, Ef, El.
  split; [exact E12|split; [exact E21|split; [exact Ep2|split; [exact Ef|split; [exact El|split]]]]].
  - now apply (pruned_ci_raw cfg ga gb m EL N1 N2).
  - now apply (pruned_ci_raw cfg gb ga (invert_mapping m) EL N2 N1).
Qed.
