(** C03 — the default mode, TOTAL: for a template that satisfies the (evaluated) template hypotheses, a well-formed substrate
    and a matcher that keeps its contract, the reactor never raises, every script of reads returns the values the inputs
    determine, and every graph returned is a balanced instance of the prepared rule — forwards and backwards.
    Stdlib lists only. *)
From Coq Require Import List NArith ZArith Bool Lia Permutation.
From SK Require Import lib.Tok lib.LGraph model.C03_Model model.C03_Order model.C03_Reactor proof.C03_Proof proof.C03_Glue
                       proof.C03_Backward proof.C03_Ord proof.C03_ReactorProof proof.C03_ReactorSpec proof.C03_Capstone
                       proof.C03_LinkDefault proof.C03_LinkImplicit proof.C03_LinkBackward proof.C03_NoCrash.
Import ListNotations.
Local Open Scope Z_scope.

Lemma explicit_all_some gs :
  (forall T tbl, In (T, tbl) gs -> explicit_h_ord (ord_of tbl) T <> None) -> explicit_all gs <> None.
Proof.
  induction gs as [|[T tbl] r IH]; intros H; [discriminate|]. cbn [explicit_all].
  destruct (explicit_h_ord (ord_of tbl) T) as [[g' ms]|] eqn:E; [|exfalso; exact (H T tbl (or_introl eq_refl) E)].
  destruct (explicit_all r) as [r'|] eqn:Er; [discriminate|].
  exfalso. apply IH; [intros T0 tbl0 I; apply H; right; exact I|reflexivity].
Qed.

(** the glued graphs of a reactor come from valid matches on well-formed base graphs *)
Lemma spec_glued_valid inp rc l r T tbl :
  i_rule inp = Some (rc, l, r) -> wf_hostb (i_host inp) = true ->
  forallb (call_okb (has_XH l) (i_host inp) rc) (i_calls inp) = true ->
  In (T, tbl) (spec_glued inp) ->
  exists hb x, wf_hostb hb = true /\ match_rcb hb rc x = true /\ glue hb rc x = Some T.
Proof.
  intros Er Hwh Hc I. unfold spec_glued, spec_flag in I. rewrite Er in I.
  destruct (glue_all_in _ _ _ _ _ _ _ I) as (c & hb & x & Ic & Eg & R).
  rewrite forallb_forall in Hc. specialize (Hc c Ic). unfold call_okb in Hc.
  exists hb, x. destruct R as [(Ef & -> & ->)|(Ef & rs & Es & Ix & ->)]; rewrite Ef in Hc.
  - auto.
  - rewrite Es in Hc. cbn zeta in Hc. apply andb_prop in Hc. destruct Hc as [H1 H2]. rewrite forallb_forall in H2. auto.
Qed.

Theorem default_nocrash inp tpl rc l r :
  i_rule inp = Some (rc, l, r) -> synrule tpl true = Some (rc, l, r) ->
  nodupb (node_ids tpl) = true -> (forall k a, In (k, a) (gnodes tpl) -> a_el (iH a) = a_el (iG a)) ->
  simple_edgesb (gedges tpl) = true -> tpl_condition tpl ->
  wf_hostb (i_host inp) = true -> wf_rcb rc = true ->
  forallb (call_okb (has_XH l) (i_host inp) rc) (i_calls inp) = true ->
  nocrash inp.
Proof.
  intros Er Es Hnd Hel Hsi Hcond Hwh Hwr Hc _. apply explicit_all_some. intros T tbl I.
  destruct (spec_glued_valid inp rc l r T tbl Er Hwh Hc I) as (hb & x & Kw & Km & Eg).
  exact (proj2 (proj2 (default_glued_exact tpl rc l r hb x T Hnd Hel Hsi Es Hcond Hwr Km Eg)) (ord_of tbl) (ord_of_in tbl) (ord_of_nodup tbl)).
Qed.

Theorem default_reactor_total (invert : bool) inp tpl rc l r :
  default_tpl_okb tpl = true ->
  i_rule inp = synrule (if invert then invert_template tpl else tpl) true ->
  synrule (if invert then invert_template tpl else tpl) true = Some (rc, l, r) ->
  wf_hostb (i_host inp) = true -> forallb (call_okm (i_host inp) l) (i_calls inp) = true ->
  nocrash inp /\
  (forall ops, run_ops inp rs0 ops = map (spec_val inp) ops) /\
  (exists gs, spec_its inp = Some gs) /\
  (forall gs g, spec_its inp = Some gs -> In g gs ->
     instance_of (i_host inp) rc g /\
     (forall e, elem_count e (fst (its_decompose g)) = elem_count e (snd (its_decompose g))) /\
     total_charge (fst (its_decompose g)) = total_charge (snd (its_decompose g))).
Proof.
  intros Hb Ei Es Hwh Hcalls. destruct (default_tpl_okb_sound tpl Hb) as (Hel & Hw & Hc & Hcond).
  set (tpl' := if invert then invert_template tpl else tpl) in *.
  assert (Hs : simple_edgesb (gedges tpl) = true).
  { unfold wf_rcb in Hw. apply andb_prop in Hw. destruct Hw as [Hw' _]. apply andb_prop in Hw'. exact (proj2 Hw'). }
  assert (Hel' : forall k a, In (k, a) (gnodes tpl') -> a_el (iH a) = a_el (iG a)) by (unfold tpl'; destruct invert; [apply Hel_invert|]; exact Hel).
  assert (Hw' : wf_rcb tpl' = true) by (unfold tpl'; destruct invert; [apply invert_wf|]; exact Hw).
  assert (Hc' : edges_closedb tpl' = true) by (unfold tpl'; destruct invert; [apply invert_edges_closedb|]; exact Hc).
  assert (Hcond' : tpl_condition tpl') by (unfold tpl'; destruct invert; [apply tpl_condition_invert; assumption|exact Hcond]).
  assert (Hnd' : nodupb (node_ids tpl') = true /\ simple_edgesb (gedges tpl') = true).
  { unfold wf_rcb in Hw'. apply andb_prop in Hw'. destruct Hw' as [X _]. apply andb_prop in X. exact X. }
  destruct (default_rule_hyps tpl' rc l r Hel' Hw' Hc' Es) as (R1 & R2 & R3).
  rewrite Es in Ei.
  assert (Hcb : forallb (call_okb (has_XH l) (i_host inp) rc) (i_calls inp) = true).
  { rewrite forallb_forall in Hcalls. apply forallb_forall. intros c Ic. exact (call_okm_okb _ rc l c R2 R3 (Hcalls c Ic)). }
  pose proof (default_nocrash inp tpl' rc l r Ei Es (proj1 Hnd') Hel' (proj2 Hnd') Hcond' Hwh R1 Hcb) as Hnc.
  split; [exact Hnc|]. split; [intros ops; exact (reads_stable inp ops Hnc)|]. split.
  - unfold spec_its. rewrite Ei. destruct (i_explicit inp) eqn:Ex; [|eauto].
    destruct (explicit_all (spec_glued inp)) as [gs|] eqn:Ea; [eauto|exfalso; exact (Hnc Ex Ea)].
  - intros gs g Hits Ig.
    exact (its_list_default_end_to_end inp tpl' rc l r gs (eq_trans Ei (eq_sym Es)) Es Hel' Hw' Hc' Hcond' Hwh Hcalls Hits g Ig).
Qed.
