(** C03 — the default mode, TOTAL: for a template that satisfies the (evaluated) template hypotheses, a well-formed substrate
    and a matcher that keeps its contract, the reactor never raises, every script of reads returns the values the inputs
    determine, and every graph returned is a balanced instance of the prepared rule — forwards and backwards.
    Stdlib lists only. *)
From Coq Require Import List NArith ZArith Bool Lia Permutation.
From SK Require Import lib.Tok lib.LGraph model.C03_Model model.C03_Order model.C03_Reactor proof.C03_Proof proof.C03_Glue
                       proof.C03_Backward proof.C03_Ord proof.C03_ReactorProof proof.C03_ReactorSpec proof.C03_Capstone
                       proof.C03_LinkDefault proof.C03_LinkImplicit proof.C03_LinkBackward proof.C03_NoCrash proof.C03_PairIds.
Import ListNotations.
Local Open Scope Z_scope.

Lemma explicit_all_some gs :
  (forall T tbl, In (T, tbl) gs -> explicit_h_ord (ord_of tbl) T <> None) -> explicit_all gs <> None.
Proof.
  induction gs as [|[T tbl] r IH]; intros H; [discriminate|]. cbn [explicit_all].
  destruct (explicit_h_ord (ord_of tbl) T) as [[g' ms]|] eqn:E; [|exfalso; exact (H T tbl (or_introl eq_refl) E)].
  destruct (explicit_all r) as [r'|] eqn:Er; [discriminate|].
  exfalso. apply IH; [intros T0 tbl0 I; apply H; right; exact I|reflexivity].
Qed.

(** the glued graphs of a reactor come from valid matches on well-formed base graphs *)
Lemma spec_glued_valid inp rc l r T tbl :
  i_rule inp = Some (rc, l, r) -> wf_hostb (i_host inp) = true ->
  forallb (call_okb (has_XH l) (i_host inp) rc) (i_calls inp) = true ->
  In (T, tbl) (spec_glued inp) ->
  exists hb x, wf_hostb hb = true /\ match_rcb hb rc x = true /\ glue hb rc x = Some T.
Proof.
  intros Er Hwh Hc I. unfold spec_glued, spec_flag in I. rewrite Er in I.
  destruct (glue_all_in _ _ _ _ _ _ _ I) as (c & hb & x & Ic & Eg & R).
  rewrite forallb_forall in Hc. specialize (Hc c Ic). unfold call_okb in Hc.
  exists hb, x. destruct R as [(Ef & -> & ->)|(Ef & rs & Es & Ix & ->)]; rewrite Ef in Hc.
  - auto.
  - rewrite Es in Hc. cbn zeta in Hc. apply andb_prop in Hc. destruct Hc as [H1 H2]. rewrite forallb_forall in H2. auto.
Qed.

Theorem default_nocrash inp tpl rc l r :
  i_rule inp = Some (rc, l, r) -> synrule tpl true = Some (rc, l, r) ->
  nodupb (node_ids tpl) = true -> (forall k a, In (k, a) (gnodes tpl) -> a_el (iH a) = a_el (iG a)) ->
  simple_edgesb (gedges tpl) = true -> tpl_condition tpl ->
  wf_hostb (i_host inp) = true -> wf_rcb rc = true ->
  forallb (call_okb (has_XH l) (i_host inp) rc) (i_calls inp) = true ->
  nocrash inp.
Proof.
  intros Er Es Hnd Hel Hsi Hcond Hwh Hwr Hc _. apply explicit_all_some. intros T tbl I.
  destruct (spec_glued_valid inp rc l r T tbl Er Hwh Hc I) as (hb & x & Kw & Km & Eg).
  exact (proj2 (proj2 (default_glued_exact tpl rc l r hb x T Hnd Hel Hsi Es Hcond Hwr Km Eg)) (ord_of tbl) (ord_of_in tbl) (ord_of_nodup tbl)).
Qed.

Theorem default_reactor_total (invert : bool) inp tpl rc l r :
  default_tpl_okb tpl = true ->
  i_rule inp = synrule (if invert then invert_template tpl else tpl) true ->
  synrule (if invert then invert_template tpl else tpl) true = Some (rc, l, r) ->
  wf_hostb (i_host inp) = true -> forallb (call_okm (i_host inp) l) (i_calls inp) = true ->
  nocrash inp /\
  (forall ops, run_ops inp rs0 ops = map (spec_val inp) ops) /\
  (exists gs, spec_its inp = Some gs) /\
  (forall gs g, spec_its inp = Some gs -> In g gs ->
     instance_of (i_host inp) rc g /\
     (forall e, elem_count e (fst (its_decompose g)) = elem_count e (snd (its_decompose g))) /\
     total_charge (fst (its_decompose g)) = total_charge (snd (its_decompose g))).
Proof.
  intros Hb Ei Es Hwh Hcalls. destruct (default_tpl_okb_sound tpl Hb) as (Hel & Hw & Hc & Hcond).
  set (tpl' := if invert then invert_template tpl else tpl) in *.
  assert (Hs : simple_edgesb (gedges tpl) = true).
  { unfold wf_rcb in Hw. apply andb_prop in Hw. destruct Hw as [Hw' _]. apply andb_prop in Hw'. exact (proj2 Hw'). }
  assert (Hel' : forall k a, In (k, a) (gnodes tpl') -> a_el (iH a) = a_el (iG a)) by (unfold tpl'; destruct invert; [apply Hel_invert|]; exact Hel).
  assert (Hw' : wf_rcb tpl' = true) by (unfold tpl'; destruct invert; [apply invert_wf|]; exact Hw).
  assert (Hc' : edges_closedb tpl' = true) by (unfold tpl'; destruct invert; [apply invert_edges_closedb|]; exact Hc).
  assert (Hcond' : tpl_condition tpl') by (unfold tpl'; destruct invert; [apply tpl_condition_invert; assumption|exact Hcond]).
  assert (Hnd' : nodupb (node_ids tpl') = true /\ simple_edgesb (gedges tpl') = true).
  { unfold wf_rcb in Hw'. apply andb_prop in Hw'. destruct Hw' as [X _]. apply andb_prop in X. exact X. }
  destruct (default_rule_hyps tpl' rc l r Hel' Hw' Hc' Es) as (R1 & R2 & R3).
  rewrite Es in Ei.
  assert (Hcb : forallb (call_okb (has_XH l) (i_host inp) rc) (i_calls inp) = true).
  { rewrite forallb_forall in Hcalls. apply forallb_forall. intros c Ic. exact (call_okm_okb _ rc l c R2 R3 (Hcalls c Ic)). }
  pose proof (default_nocrash inp tpl' rc l r Ei Es (proj1 Hnd') Hel' (proj2 Hnd') Hcond' Hwh R1 Hcb) as Hnc.
  split; [exact Hnc|]. split; [intros ops; exact (reads_stable inp ops Hnc)|]. split.
  - unfold spec_its. rewrite Ei. destruct (i_explicit inp) eqn:Ex; [|eauto].
    destruct (explicit_all (spec_glued inp)) as [gs|] eqn:Ea; [eauto|exfalso; exact (Hnc Ex Ea)].
  - intros gs g Hits Ig.
    exact (its_list_default_end_to_end inp tpl' rc l r gs (eq_trans Ei (eq_sym Es)) Es Hel' Hw' Hc' Hcond' Hwh Hcalls Hits g Ig).
Qed.

(** * no pair ids, no migration: on a graph none of whose atoms carries a pair id _explicit_h changes nothing (rules without
    h_pairs: inverted templates and inverted prepared rules — SynRule objects applied backwards — move hydrogens as counts) *)
Lemma pair_to_nodes_nil T : (forall k a, In (k, a) (gnodes T) -> hp_of a = []) -> pair_to_nodes T = [].
Proof.
  unfold pair_to_nodes. generalize (gnodes T). intros ns H.
  assert (G : forall pt, fold_left (fun pt (p : N * inode) =>
               fold_left (fun pt' pid => pt_add pt' pid (fst p)) (match i_hp (snd p) with Some l => l | None => [] end) pt) ns pt = pt).
  { induction ns as [|[k a] r IH]; intros pt; [reflexivity|]. cbn [fold_left fst snd].
    change (match i_hp a with Some l => l | None => [] end) with (hp_of a). rewrite (H k a (or_introl eq_refl)). cbn [fold_left].
    apply IH. intros k' a' I. apply (H k' a'). right. exact I. }
  apply G.
Qed.

Theorem explicit_h_no_pairs ord T : (forall k a, In (k, a) (gnodes T) -> hp_of a = []) -> explicit_h_ord ord T = Some (T, []).
Proof.
  intros H. unfold explicit_h_ord, all_migrations_ord. rewrite (pair_to_nodes_nil T H). cbn [components fold_left].
  unfold apply_migrations. cbn [fold_left]. reflexivity.
Qed.

(** gluing a rule without pair ids gives a graph without pair ids *)
Lemma glued_no_pairs host rc m T :
  wf_hostb host = true -> wf_rcb rc = true -> match_rcb host rc m = true -> glue host rc m = Some T ->
  (forall k a, In (k, a) (gnodes rc) -> hp_of a = []) -> forall k a, In (k, a) (gnodes T) -> hp_of a = [].
Proof.
  intros Hwh Hwr Hm Hg Hrc k a I.
  destruct (hp_of a) as [|p ps] eqn:E; [reflexivity|]. exfalso.
  assert (Sp : share_pair T k k) by (exists p, a, a; rewrite E; simpl; auto).
  destruct (glue_share_pair host rc m T k k Hwh Hwr Hm Hg Sp) as (x & y & X & Y & q & _ & _ & IX & _ & PX & _).
  rewrite (Hrc x X IX) in PX. destruct PX.
Qed.

Theorem no_pairs_nocrash inp rc l r :
  i_rule inp = Some (rc, l, r) -> wf_hostb (i_host inp) = true -> wf_rcb rc = true ->
  forallb (call_okb (has_XH l) (i_host inp) rc) (i_calls inp) = true ->
  (forall k a, In (k, a) (gnodes rc) -> hp_of a = []) ->
  nocrash inp /\ (i_explicit inp = true -> spec_its inp = Some (map fst (spec_glued inp))).
Proof.
  intros Er Hwh Hwr Hc Hrc.
  assert (K : forall T tbl, In (T, tbl) (spec_glued inp) -> explicit_h_ord (ord_of tbl) T = Some (T, [])).
  { intros T tbl I. destruct (spec_glued_valid inp rc l r T tbl Er Hwh Hc I) as (hb & x & Kw & Km & Eg).
    apply explicit_h_no_pairs. exact (glued_no_pairs hb rc x T Kw Hwr Km Eg Hrc). }
  assert (E : explicit_all (spec_glued inp) = Some (map fst (spec_glued inp))).
  { revert K. generalize (spec_glued inp). induction l0 as [|[T tbl] r0 IH]; intros K; [reflexivity|]. cbn [explicit_all map fst].
    rewrite (K T tbl (or_introl eq_refl)), IH by (intros; apply K; right; assumption). reflexivity. }
  split.
  - intros _. rewrite E. discriminate.
  - intros Ex. unfold spec_its. rewrite Er, Ex. exact E.
Qed.

Lemma invert_no_pairs T k a : In (k, a) (gnodes (invert_template T)) -> hp_of a = [].
Proof. rewrite invert_gnodes. intros I. apply in_map_iff in I. destruct I as ([k0 a0] & E & _). inversion E; subst. reflexivity. Qed.

(** a SynRule object applied backwards, TOTAL: the inverted prepared rule carries no pair ids, so the explicit-hydrogen stage
    changes nothing, nothing raises, every read returns the specified value *)
Theorem synrule_object_backward_total (implicit_temp : bool) inp tpl rc0 l0 r0 :
  synrule tpl true = Some (rc0, l0, r0) ->
  i_rule inp = wrap_template_rule true implicit_temp (rc0, l0, r0) ->
  (forall k a, In (k, a) (gnodes tpl) -> a_el (iH a) = a_el (iG a)) ->
  wf_rcb tpl = true -> edges_closedb tpl = true ->
  wf_hostb (i_host inp) = true ->
  forallb (call_okm (i_host inp) (fst (its_decompose (invert_template rc0)))) (i_calls inp) = true ->
  nocrash inp /\ (forall ops, run_ops inp rs0 ops = map (spec_val inp) ops) /\ spec_its inp = Some (map fst (spec_glued inp)).
Proof.
  intros Es Ei Hel Hw Hc Hwh Hcalls.
  destruct (default_rule_hyps tpl rc0 l0 r0 Hel Hw Hc Es) as (R1 & R2 & _).
  unfold wrap_template_rule in Ei. cbn [fst] in Ei.
  pose proof (invert_wf rc0 R1) as W'. pose proof (invert_edges_closedb rc0 R2) as C'.
  assert (Hnd : nodupb (node_ids (invert_template rc0)) = true).
  { unfold wf_rcb in W'. apply andb_prop in W'. destruct W' as [X _]. apply andb_prop in X. exact (proj1 X). }
  rewrite (synrule_implicit _ Hnd) in Ei.
  assert (Hcb : forallb (call_okb (has_XH (fst (its_decompose (invert_template rc0)))) (i_host inp) (invert_template rc0)) (i_calls inp) = true).
  { rewrite forallb_forall in Hcalls. apply forallb_forall. intros c Ic.
    exact (call_okm_okb _ _ _ c C' (left_of_rcb_dec _ (nodupb_NoDup _ Hnd)) (Hcalls c Ic)). }
  destruct (no_pairs_nocrash inp _ _ _ Ei Hwh W' Hcb (invert_no_pairs rc0)) as [Hnc Hi].
  split; [exact Hnc|]. split; [intros ops; exact (reads_stable inp ops Hnc)|].
  unfold spec_its. rewrite Ei. destruct (i_explicit inp) eqn:Ex; [|reflexivity].
  specialize (Hi eq_refl). unfold spec_its in Hi. rewrite Ei, Ex in Hi. exact Hi.
Qed.

(** * the implicit-template mode (the explicit-hydrogen stage is off) *)
Lemma no_explicit_nocrash inp : i_explicit inp = false -> nocrash inp.
Proof. intros H C. congruence. Qed.

(** the implicit-template mode (explicit_h is off), TOTAL, forwards and backwards *)
Theorem implicit_reactor_total (invert : bool) inp tpl :
  i_explicit inp = false ->
  i_rule inp = synrule (if invert then invert_template tpl else tpl) false ->
  wf_rcb tpl = true -> edges_closedb tpl = true ->
  wf_hostb (i_host inp) = true ->
  forallb (call_okm (i_host inp) (fst (its_decompose (if invert then invert_template tpl else tpl)))) (i_calls inp) = true ->
  nocrash inp /\
  (forall ops, run_ops inp rs0 ops = map (spec_val inp) ops) /\
  (exists gs, spec_its inp = Some gs) /\
  (forall gs g, spec_its inp = Some gs -> In g gs ->
     instance_of (i_host inp) (if invert then invert_template tpl else tpl) g /\
     (balancedb tpl = true ->
        (forall e, elem_count e (fst (its_decompose g)) = elem_count e (snd (its_decompose g))) /\
        total_charge (fst (its_decompose g)) = total_charge (snd (its_decompose g)))).
Proof.
  intros Ex Ei Hw Hc Hwh Hcalls. pose proof (no_explicit_nocrash inp Ex) as Hnc.
  split; [exact Hnc|]. split; [intros ops; exact (reads_stable inp ops Hnc)|]. split.
  - set (tpl' := if invert then invert_template tpl else tpl) in *.
    assert (Hw' : wf_rcb tpl' = true) by (unfold tpl'; destruct invert; [apply invert_wf|]; exact Hw).
    assert (Hnd : nodupb (node_ids tpl') = true).
    { unfold wf_rcb in Hw'. apply andb_prop in Hw'. destruct Hw' as [X _]. apply andb_prop in X. exact (proj1 X). }
    rewrite (synrule_implicit tpl' Hnd) in Ei. unfold spec_its. rewrite Ei, Ex. eauto.
  - intros gs g Hits Ig. exact (its_list_implicit_end_to_end invert inp tpl gs Ei Hw Hc Hwh Hcalls Hits g Ig).
Qed.
