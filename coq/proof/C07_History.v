(** C07 — the WL-histogram cache never changes an answer (state-machine theorem).
    Invariant: every cache entry (graph index, node_attrs) holds the histogram [wl1_hash node_attrs graph].
    Under the invariant every query answers like its cache-free ("pure") version; every step preserves the invariant;
    the empty cache satisfies it.  No assumption on VF2 is needed.  Stdlib lists. *)
From Coq Require Import List NArith Bool Arith Lia.
From SK Require Import lib.Tok lib.LGraph lib.Mono model.C07_Model.
Import ListNotations.

Definition cache_inv (gs : list graph) (c : cache) : Prop :=
  forall gi na h, cache_get (gi, na) c = Some h -> h = wl1_hash na (gnth gs gi).

Lemma ln_eqb_eq a : forall b, ln_eqb a b = true <-> a = b.
Proof.
  induction a as [|x a IH]; intros [|y b]; simpl; split; try discriminate; auto.
  - intros E. apply andb_prop in E. destruct E as [E1 E2]. apply N.eqb_eq in E1. apply IH in E2. congruence.
  - intros [= -> ->]. rewrite N.eqb_refl. apply IH. reflexivity.
Qed.

Lemma ckey_eqb_eq a b : ckey_eqb a b = true <-> a = b.
Proof.
  destruct a as [i l], b as [j k]. unfold ckey_eqb; simpl. rewrite andb_true_iff, Nat.eqb_eq, ln_eqb_eq.
  split; [intros [-> ->]; reflexivity | intros [= -> ->]; auto].
Qed.

Lemma cache_inv_nil gs : cache_inv gs [].
Proof. intros gi na h. simpl. discriminate. Qed.

Lemma wl_cached_pure gs na gi c : cache_inv gs c ->
  exists c', wl_cached na gi (gnth gs gi) c = (wl1_hash na (gnth gs gi), c') /\ cache_inv gs c'.
Proof.
  intros Hc. unfold wl_cached. destruct (cache_get (gi, na) c) as [h|] eqn:E.
  - exists c. rewrite (Hc _ _ _ E). auto.
  - eexists. split; [reflexivity|]. intros gj nb h. simpl.
    destruct (ckey_eqb (gj, nb) (gi, na)) eqn:K.
    + apply ckey_eqb_eq in K. inversion K; subst. intros [= <-]. reflexivity.
    + apply Hc.
Qed.

(** cache-free versions *)
Definition pre_check_p (e : engine) (H P : graph) : bool :=
  if (n_nodes H <? n_nodes P) || (n_edges H <? n_edges P) then false
  else if negb (e_wl e) || negb (n_nodes H =? n_nodes P) then true
  else hist_contained (wl1_hash (e_na e) P) (wl1_hash (e_na e) H).

Section WithVF2.
Variable vf2b : bool -> (attrs -> attrs -> bool) -> (attrs -> attrs -> bool) -> graph -> graph -> bool.
Variable enum : (attrs -> attrs -> bool) -> (attrs -> attrs -> bool) -> graph -> graph -> list mapping.

Definition isomorphic_p (e : engine) (g1 g2 : graph) : bool :=
  let '(ga, gb) := if n_nodes g2 <? n_nodes g1 then (g2, g1) else (g1, g2) in
  if negb (pre_check_p e gb ga) then false
  else if n_nodes ga =? n_nodes gb then is_isomorphic vf2b (nm_eng e) (em_eng e) ga gb
       else vf2b true (nm_eng e) (em_eng e) ga gb.

Definition get_mappings_p (e : engine) (H P : graph) : list mapping :=
  if negb (pre_check_p e H P) then []
  else if (n_nodes P =? n_nodes H) && (n_edges P =? n_edges H) then
         (if is_isomorphic vf2b (nm_eng e) (em_eng e) H P
          then match enum (nm_eng e) (em_eng e) H P with m :: _ => [m] | [] => [] end
          else [])
       else take (e_mm e) (enum (nm_eng e) (em_eng e) H P).

(** cache-free versions of the intermediate values *)
Definition iso_trace_p (e : engine) (i : nat) (g1 : graph) (j : nat) (g2 : graph) : list N :=
  let '(a, ga, b, gb) := if n_nodes g2 <? n_nodes g1 then (j, g2, i, g1) else (i, g1, j, g2) in
  let ok := pre_check_p e gb ga in
  [N.of_nat b; N.of_nat a; if ok then 1%N else 0%N;
   if ok then (if n_nodes ga =? n_nodes gb then 1%N else 2%N) else 0%N].
Definition maps_trace_p (e : engine) (H P : graph) : list N :=
  let ok := pre_check_p e H P in
  [if ok then 1%N else 0%N;
   if ok then (if (n_nodes P =? n_nodes H) && (n_edges P =? n_edges H) then 1%N else 3%N) else 0%N].

Definition step_p (gs : list graph) (es : list engine) (q : query) : tok :=
  match q with
  | QIso e i j => L [tbool (isomorphic_p (enth es e) (gnth gs i) (gnth gs j)); tlist tN (iso_trace_p (enth es e) i (gnth gs i) j (gnth gs j))]
  | QPre e h p => tbool (pre_check_p (enth es e) (gnth gs h) (gnth gs p))
  | QMaps e h p =>
      let l := get_mappings_p (enth es e) (gnth gs h) (gnth gs p) in
      L [tnat (length l); tset tmapping (if determined (enth es e) (gnth gs h) (gnth gs p) then l else []);
         tlist tN (maps_trace_p (enth es e) (gnth gs h) (gnth gs p))]
  | QSub _ ch pa f ind nc ec names eattr => tbool (sub_iso vf2b f ind nc ec names eattr (gnth gs ch) (gnth gs pa))
  | QGiso i j a b d => tbool (giso vf2b a b d (gnth gs i) (gnth gs j))
  | QGiso0 i j => tbool (giso0 vf2b (gnth gs i) (gnth gs j))
  | QFgi i j ud fa a b d =>
      match fgi_map vf2b enum ud fa a b d (gnth gs i) (gnth gs j) with
      | Some m => L [tbool true; tnat (length m); tbool (negb (fa && negb (fgi_fast (gnth gs i) (gnth gs j))))]
      | None => L [tbool false; tnat 0; tbool (negb (fa && negb (fgi_fast (gnth gs i) (gnth gs j))))]
      end
  | QEntry fn ch pa o => L [tres (sub_entry vf2b fn o (gnth gs ch) (gnth gs pa)); tN (entry_trace fn o (gnth gs ch) (gnth gs pa))]
  | QCtor r => tctor r
  | QObj maps e i j =>
      match i, j with
      | Some i', Some j' =>
          if maps then tnat (length (get_mappings_p (enth es e) (gnth gs i') (gnth gs j')))
          else tbool (isomorphic_p (enth es e) (gnth gs i') (gnth gs j'))
      | _, _ => L [tN 99; tN 1]
      end
  | QFgiT t1 t2 i j ud fa a b d =>
      if N.eqb t1 t2 then (if fgi vf2b ud fa a b d (gnth gs i) (gnth gs j) then tbool true else tbool false) else tbool false
  | QQpf h p na ea thr =>
      L [tbool (quick_pre_filter na (gnth gs h) (gnth gs p) thr); tnat (length (find_all na ea thr false (gnth gs h) (gnth gs p)));
         tnat (length (find_all na ea thr true (gnth gs h) (gnth gs p)))]
  end.

Lemma pre_check_pure gs e hi pi c : cache_inv gs c ->
  exists c', pre_check e hi (gnth gs hi) pi (gnth gs pi) c = (pre_check_p e (gnth gs hi) (gnth gs pi), c') /\ cache_inv gs c'.
Proof.
  intros Hc. unfold pre_check, pre_check_p.
  destruct ((n_nodes (gnth gs hi) <? n_nodes (gnth gs pi)) || (n_edges (gnth gs hi) <? n_edges (gnth gs pi))); [exists c; auto|].
  destruct (negb (e_wl e) || negb (n_nodes (gnth gs hi) =? n_nodes (gnth gs pi))); [exists c; auto|].
  destruct (wl_cached_pure gs (e_na e) hi c Hc) as (c1 & E1 & H1). rewrite E1.
  destruct (wl_cached_pure gs (e_na e) pi c1 H1) as (c2 & E2 & H2). rewrite E2.
  exists c2. auto.
Qed.

Lemma isomorphic_pure gs e i j c : cache_inv gs c ->
  exists c', isomorphic vf2b e i (gnth gs i) j (gnth gs j) c = (isomorphic_p e (gnth gs i) (gnth gs j), c') /\ cache_inv gs c'.
Proof.
  intros Hc. unfold isomorphic, isomorphic_p.
  destruct (n_nodes (gnth gs j) <? n_nodes (gnth gs i)).
  - destruct (pre_check_pure gs e i j c Hc) as (c' & E & H'). rewrite E. exists c'. split; auto.
    destruct (negb (pre_check_p e (gnth gs i) (gnth gs j))); reflexivity.
  - destruct (pre_check_pure gs e j i c Hc) as (c' & E & H'). rewrite E. exists c'. split; auto.
    destruct (negb (pre_check_p e (gnth gs j) (gnth gs i))); reflexivity.
Qed.

Lemma get_mappings_pure gs e hi pi c : cache_inv gs c ->
  exists c', get_mappings vf2b enum e hi (gnth gs hi) pi (gnth gs pi) c = (get_mappings_p e (gnth gs hi) (gnth gs pi), c') /\ cache_inv gs c'.
Proof.
  intros Hc. unfold get_mappings, get_mappings_p.
  destruct (pre_check_pure gs e hi pi c Hc) as (c' & E & H'). rewrite E. exists c'. split; auto.
  destruct (negb (pre_check_p e (gnth gs hi) (gnth gs pi))); [reflexivity|].
  destruct ((n_nodes (gnth gs pi) =? n_nodes (gnth gs hi)) && (n_edges (gnth gs pi) =? n_edges (gnth gs hi))); reflexivity.
Qed.

Lemma iso_trace_pure gs e i j c : cache_inv gs c ->
  iso_trace e i (gnth gs i) j (gnth gs j) c = iso_trace_p e i (gnth gs i) j (gnth gs j).
Proof.
  intros Hc. unfold iso_trace, iso_trace_p. destruct (n_nodes (gnth gs j) <? n_nodes (gnth gs i)).
  - destruct (pre_check_pure gs e i j c Hc) as (c' & E & _). rewrite E. reflexivity.
  - destruct (pre_check_pure gs e j i c Hc) as (c' & E & _). rewrite E. reflexivity.
Qed.

Lemma maps_trace_pure gs e hi pi c : cache_inv gs c ->
  maps_trace e hi (gnth gs hi) pi (gnth gs pi) c = maps_trace_p e (gnth gs hi) (gnth gs pi).
Proof.
  intros Hc. unfold maps_trace, maps_trace_p. destruct (pre_check_pure gs e hi pi c Hc) as (c' & E & _). rewrite E. reflexivity.
Qed.

Lemma step_pure gs es q c : cache_inv gs c ->
  exists c', step vf2b enum gs es q c = (step_p gs es q, c') /\ cache_inv gs c'.
Proof.
  intros Hc. destruct q as [e i j|e h p|e h p|gm ch pa f ind nc ec names eattr|i j a b d|i j|i j ud fa a b d|fn ch pa o|r|mp e [i|] [j|]|t1 t2 i j ud fa a b d|h p na ea thr]; simpl.
  - destruct (isomorphic_pure gs (enth es e) i j c Hc) as (c' & E & H'). rewrite E, (iso_trace_pure gs (enth es e) i j c Hc). exists c'. auto.
  - destruct (get_mappings_pure gs (enth es e) h p c Hc) as (c' & E & H'). rewrite E, (maps_trace_pure gs (enth es e) h p c Hc). exists c'. auto.
  - destruct (pre_check_pure gs (enth es e) h p c Hc) as (c' & E & H'). rewrite E. exists c'. auto.
  - exists c. auto.
  - exists c. auto.
  - exists c. auto.
  - exists c. auto.
  - exists c. auto.
  - exists c. auto.
  - destruct mp.
    + destruct (get_mappings_pure gs (enth es e) i j c Hc) as (c' & E & H'). rewrite E. exists c'. auto.
    + destruct (isomorphic_pure gs (enth es e) i j c Hc) as (c' & E & H'). rewrite E. exists c'. auto.
  - exists c. auto.
  - exists c. auto.
  - exists c. auto.
  - exists c. auto.
  - exists c. auto.
Qed.

Lemma run_from_pure gs es qs : forall c, cache_inv gs c -> run_from vf2b enum gs es qs c = map (step_p gs es) qs.
Proof.
  induction qs as [|q qs IH]; intros c Hc; simpl; [reflexivity|].
  destruct (step_pure gs es q c Hc) as (c' & E & H'). rewrite E. f_equal. apply IH. exact H'.
Qed.

(** the answer a fresh engine (empty cache) gives to one query *)
Definition fresh_answer gs es q : tok := fst (step vf2b enum gs es q []).

Lemma fresh_answer_pure gs es q : fresh_answer gs es q = step_p gs es q.
Proof. unfold fresh_answer. destruct (step_pure gs es q [] (cache_inv_nil gs)) as (c' & E & _). rewrite E. reflexivity. Qed.

(** for every history of queries (any engines, any attribute selections, any graph objects of the case), from ANY cache
    state reachable under the invariant — in particular the empty one — each answer is the fresh engine's answer *)
Theorem no_history gs es qs c : cache_inv gs c -> run_from vf2b enum gs es qs c = map (fresh_answer gs es) qs.
Proof.
  intros Hc. rewrite (run_from_pure gs es qs c Hc). apply map_ext. intros q. symmetry. apply fresh_answer_pure.
Qed.

(** the invariant is preserved, so histories can be continued *)
Theorem cache_inv_step gs es q c : cache_inv gs c -> cache_inv gs (snd (step vf2b enum gs es q c)).
Proof. intros Hc. destruct (step_pure gs es q c Hc) as (c' & E & H'). rewrite E. exact H'. Qed.

(** the cache observed at the end of a history holds the true histograms *)
Theorem end_cache_inv gs es qs : forall c, cache_inv gs c -> cache_inv gs (end_cache vf2b enum gs es qs c).
Proof.
  induction qs as [|q qs IH]; intros c Hc; simpl; [exact Hc|]. apply IH. apply cache_inv_step. exact Hc.
Qed.
End WithVF2.
