(** C07 — the property theorems about the functions the correspondence evaluates ([isomorphic], [get_mappings],
    [pre_check], [sub_iso], [giso], [step], [run_from] of model/C07_Model.v, WITH the cache), obtained from the
    cache-free lemmas of C07_Main / C07_Relabel through the cache invariant of C07_History; the WL necessity
    hypothesis is discharged with C07_WL.  Stdlib lists. *)
From Coq Require Import List NArith Bool Arith Lia.
From SK Require Import lib.Tok lib.LGraph lib.Mono model.C07_Model
  proof.C07_Spec proof.C07_History proof.C07_Filters proof.C07_Main proof.C07_WL proof.C07_Relabel.
Import ListNotations.

Section Final.
Variable vf2b : bool -> (attrs -> attrs -> bool) -> (attrs -> attrs -> bool) -> graph -> graph -> bool.
Variable enum : (attrs -> attrs -> bool) -> (attrs -> attrs -> bool) -> graph -> graph -> list mapping.

Lemma iso_fst gs e i j c : cache_inv gs c ->
  fst (isomorphic vf2b e i (gnth gs i) j (gnth gs j) c) = isomorphic_p vf2b e (gnth gs i) (gnth gs j).
Proof. intros Hc. destruct (isomorphic_pure vf2b gs e i j c Hc) as (c' & E & _). rewrite E. reflexivity. Qed.

Lemma maps_fst gs e hi pi c : cache_inv gs c ->
  fst (get_mappings vf2b enum e hi (gnth gs hi) pi (gnth gs pi) c) = get_mappings_p vf2b enum e (gnth gs hi) (gnth gs pi).
Proof. intros Hc. destruct (get_mappings_pure vf2b enum gs e hi pi c Hc) as (c' & E & _). rewrite E. reflexivity. Qed.

Lemma pre_fst gs e hi pi c : cache_inv gs c ->
  fst (pre_check e hi (gnth gs hi) pi (gnth gs pi) c) = pre_check_p e (gnth gs hi) (gnth gs pi).
Proof. intros Hc. destruct (pre_check_pure gs e hi pi c Hc) as (c' & E & _). rewrite E. reflexivity. Qed.

(** (1) *)
Theorem iso_verdict : vf2b_contract vf2b ->
  forall gs e i j c, cache_inv gs c -> gwf (gnth gs i) -> gwf (gnth gs j) ->
    (fst (isomorphic vf2b e i (gnth gs i) j (gnth gs j) c) = true <->
     exists f, iso_map (nm_eng e) (em_eng e) (gnth gs i) (gnth gs j) f).
Proof. intros VB gs e i j c Hc Wi Wj. rewrite iso_fst; auto. apply (isomorphic_spec wl_necessary_holds vf2b VB); auto. Qed.

Theorem comparators e h p :
  (nm_eng e h p = true <-> (forall k, In k (e_na e) -> get k h = get k p) /\ (hc p <= hc h)%N) /\
  (em_eng e h p = true <-> (forall k, In k (e_ea e) -> get k h = get k p)).
Proof. split; [apply nm_eng_spec | apply em_eng_spec]. Qed.

Theorem giso_verdict : vf2b_contract vf2b ->
  forall dstar dzero done g1 g2, gwf g1 -> gwf g2 ->
    (giso vf2b dstar dzero done g1 g2 = true <->
     exists f, iso_map (nm_sub [(1%N, dstar); (2%N, dzero)]) (fun h p => N.eqb (getd 4 done h) (getd 4 done p)) g1 g2 f).
Proof. intros VB dstar dzero done g1 g2 W1 W2. apply giso_spec; auto. Qed.

(** (2) *)
Theorem relabel_invariant : vf2b_contract vf2b ->
  forall e r gs gs' i j c c', cache_inv gs c -> cache_inv gs' c' -> gwf (gnth gs i) -> gwf (gnth gs j) ->
    (gnth gs' i = grelabel r (gnth gs i) /\ inj_on r (node_ids (gnth gs i)) /\ gnth gs' j = gnth gs j) \/
    (gnth gs' j = grelabel r (gnth gs j) /\ inj_on r (node_ids (gnth gs j)) /\ gnth gs' i = gnth gs i) ->
    fst (isomorphic vf2b e i (gnth gs' i) j (gnth gs' j) c') = fst (isomorphic vf2b e i (gnth gs i) j (gnth gs j) c).
Proof.
  intros VB e r gs gs' i j c c' Hc Hc' Wi Wj D. rewrite !iso_fst; auto.
  destruct D as [(E1 & Ri & E2)|(E1 & Ri & E2)]; rewrite E1, E2.
  - apply (isomorphic_relabel_1 wl_necessary_holds vf2b VB); auto.
  - apply (isomorphic_relabel_2 wl_necessary_holds vf2b VB); auto.
Qed.

Theorem symmetric : vf2b_contract vf2b ->
  forall e gs i j c c' k, cache_inv gs c -> cache_inv gs c' -> gwf (gnth gs i) -> gwf (gnth gs j) ->
    hc_all k (gnth gs i) -> hc_all k (gnth gs j) ->
    fst (isomorphic vf2b e i (gnth gs i) j (gnth gs j) c) = fst (isomorphic vf2b e j (gnth gs j) i (gnth gs i) c').
Proof.
  intros VB e gs i j c c' k Hc Hc' Wi Wj Hi Hj. rewrite !iso_fst; auto.
  apply (isomorphic_symmetric wl_necessary_holds vf2b VB e k); auto.
Qed.

(** (3) *)
Theorem subgraph_bool : vf2b_contract vf2b ->
  forall use_filter induced nc ec names eattr child parent, gwf child -> gwf parent ->
    (sub_iso vf2b use_filter induced nc ec names eattr child parent = true <->
     contained induced (nm_subc nc names) (em_subc ec eattr) parent child).
Proof. intros VB uf ind nc ec names eattr child parent WC WP. apply sub_iso_spec; auto. Qed.

(** (4) *)
Theorem embeddings : vf2b_contract vf2b -> enum_contract enum ->
  forall gs e hi pi c, cache_inv gs c -> gwf (gnth gs hi) -> gwf (gnth gs pi) ->
    (forall m, In m (fst (get_mappings vf2b enum e hi (gnth gs hi) pi (gnth gs pi) c)) ->
               mapping_valid true (nm_eng e) (em_eng e) (gnth gs hi) (gnth gs pi) m) /\
    (contained true (nm_eng e) (em_eng e) (gnth gs hi) (gnth gs pi) -> e_mm e <> Some 0%N ->
     fst (get_mappings vf2b enum e hi (gnth gs hi) pi (gnth gs pi) c) <> []).
Proof.
  intros VB EN gs e hi pi c Hc WH WP. rewrite maps_fst; auto. split.
  - intros m I. eapply get_mappings_valid; eauto.
  - intros C Hmm. apply (get_mappings_nonempty wl_necessary_holds vf2b enum VB EN); auto.
Qed.

(** (5) every filter is a necessary condition ... *)
Theorem filters_necessary :
  (forall gs e hi pi c, cache_inv gs c -> gwf (gnth gs hi) -> gwf (gnth gs pi) ->
     contained true (nm_eng e) (em_eng e) (gnth gs hi) (gnth gs pi) ->
     fst (pre_check e hi (gnth gs hi) pi (gnth gs pi) c) = true) /\
  (forall induced nc ec names eattr child parent, gwf child -> gwf parent ->
     contained induced (nm_subc nc names) (em_subc ec eattr) parent child -> sub_filter nc ec names eattr child parent = true).
Proof.
  split.
  - intros gs e hi pi c Hc WH WP C. rewrite pre_fst; auto.
    apply (pre_check_necessary wl_necessary_holds e _ _ _ _ WH WP (nm_eng_respects e) C).
  - intros. eapply sub_filter_necessary; eauto.
Qed.

(** ... hence switching it on or off changes no verdict and no result list *)
Theorem filters_transparent : vf2b_contract vf2b -> enum_contract enum ->
  (forall gs e b i j c c', cache_inv gs c -> cache_inv gs c' -> gwf (gnth gs i) -> gwf (gnth gs j) ->
     fst (isomorphic vf2b (set_wl e b) i (gnth gs i) j (gnth gs j) c') = fst (isomorphic vf2b e i (gnth gs i) j (gnth gs j) c)) /\
  (forall gs e b hi pi c c', cache_inv gs c -> cache_inv gs c' -> gwf (gnth gs hi) -> gwf (gnth gs pi) ->
     fst (get_mappings vf2b enum (set_wl e b) hi (gnth gs hi) pi (gnth gs pi) c') =
     fst (get_mappings vf2b enum e hi (gnth gs hi) pi (gnth gs pi) c)) /\
  (forall induced nc ec names eattr child parent, gwf child -> gwf parent ->
     sub_iso vf2b true induced nc ec names eattr child parent = sub_iso vf2b false induced nc ec names eattr child parent).
Proof.
  intros VB EN. split; [|split].
  - intros gs e b i j c c' Hc Hc' Wi Wj. rewrite !iso_fst; auto.
    apply (isomorphic_filter_transparent wl_necessary_holds vf2b VB); auto.
  - intros gs e b hi pi c c' Hc Hc' WH WP. rewrite !maps_fst; auto.
    apply (get_mappings_filter_transparent wl_necessary_holds vf2b enum EN); auto.
  - intros. apply sub_iso_filter_transparent; auto.
Qed.

(** (6) *)
Theorem no_history_fresh gs es qs :
  run_from vf2b enum gs es qs [] = map (fun q => fst (step vf2b enum gs es q [])) qs.
Proof. apply (no_history vf2b enum gs es qs [] (cache_inv_nil gs)). Qed.

Theorem no_history_any gs es qs c : cache_inv gs c ->
  run_from vf2b enum gs es qs c = map (fun q => fst (step vf2b enum gs es q [])) qs /\
  (forall q, cache_inv gs (snd (step vf2b enum gs es q c))).
Proof.
  intros Hc. split; [apply (no_history vf2b enum gs es qs c Hc) | intros q; apply cache_inv_step; exact Hc].
Qed.

Theorem cache_consistent gs es qs gi na h :
  cache_get (gi, na) (end_cache vf2b enum gs es qs []) = Some h -> h = wl1_hash na (gnth gs gi).
Proof. apply (end_cache_inv vf2b enum gs es qs [] (cache_inv_nil gs)). Qed.
End Final.
