(** C20 — the Petri-net DEFINITIONS the property refers to, stated on the reaction list / edge list
    itself (no graph, no search).  Definitions only; used by the theorem statements in props/C20.v. *)
From Coq Require Import ZArith NArith List Bool Arith.
Import ListNotations.
From SK Require Import model.C20_Model.
Local Open Scope nat_scope.

(** ** Siphons and traps of a reaction network over species 0..n-1 *)

Definition in_range (n : nat) (X : list nat) : Prop := forall i, In i X -> i < n.

Definition wf_net (n : nat) (rs : list rxn) : Prop :=
  forall r, In r rs -> forall ic, In ic (fst r ++ snd r) -> fst ic < n.

Definition consumes (r : rxn) (i : nat) : Prop := exists c, In (i, c) (fst r) /\ (0 < c)%Z.
Definition produces (r : rxn) (i : nat) : Prop := exists c, In (i, c) (snd r) /\ (0 < c)%Z.

(** every reaction producing a member also consumes a member *)
Definition siphon (rs : list rxn) (X : list nat) : Prop :=
  X <> [] /\ forall r, In r rs -> (exists i, In i X /\ produces r i) -> (exists i, In i X /\ consumes r i).

(** every reaction consuming a member also produces a member *)
Definition trap (rs : list rxn) (X : list nat) : Prop :=
  X <> [] /\ forall r, In r rs -> (exists i, In i X /\ consumes r i) -> (exists i, In i X /\ produces r i).

(** X is inclusion-minimal among the sets satisfying P (sets are lists up to [incl] both ways) *)
Definition minimal_among (P : list nat -> Prop) (X : list nat) : Prop :=
  P X /\ forall Y, P Y -> incl Y X -> incl X Y.

Definition same_set (X Y : list nat) : Prop := incl X Y /\ incl Y X.

(** no reported set is contained in another reported set (in particular: no set is reported twice) *)
Definition antichain (out : list (list nat)) : Prop :=
  ForallOrdPairs (fun X Y => ~ incl X Y /\ ~ incl Y X) out.

(** ** Firing rule *)

(** total weight a dict-as-list gives to a place (Python dicts have unique keys, then this is [get]) *)
Fixpoint weight (d : dict) (p : N) : Z :=
  match d with
  | [] => 0%Z
  | (q, c) :: d' => ((if N.eqb q p then c else 0) + weight d' p)%Z
  end.

(** ** Pathways: an integer flow on a list of edges (tail, head) and an ordering of its firings *)

Definition smarking := N -> Z.                       (* species |-> count *)

Definition covers (m : smarking) (d : dict) : Prop :=
  forall s w, In (s, w) d -> (0 < w)%Z -> (w <= m s)%Z.

(** weight of species s in the effective (positive) part of a side *)
Definition pweight (d : dict) (s : N) : Z := weight (filter (fun sw => (0 <? snd sw)%Z) d) s.

Definition fire_edge (e : edge) (m : smarking) : smarking :=
  fun s => (m s - pweight (fst e) s + pweight (snd e) s)%Z.

(** [ordering edges m sq m']: firing the edges with indices [sq] one after the other from [m] is
    possible at every step (the marking covers the reactants — so no count ever becomes negative
    when [m] is non-negative) and ends in [m'] *)
Inductive ordering (edges : list edge) : smarking -> list N -> smarking -> Prop :=
| ord_nil m m' : (forall s, m s = m' s) -> ordering edges m [] m'
| ord_cons m j e sq m' :
    nth_error edges (N.to_nat j) = Some e ->
    covers m (fst e) ->
    ordering edges (fire_edge e m) sq m' ->
    ordering edges m (j :: sq) m'.

Definition count (j : N) (sq : list N) : Z := Z.of_nat (count_occ N.eq_dec sq j).

Definition zero : smarking := fun _ => 0%Z.

(** the sequence fires each reaction exactly flow times, never drives a count negative (every step is
    covered, starting from zero) and returns every species count to zero *)
Definition realizes (edges : list edge) (flow : list Z) (sq : list N) : Prop :=
  ordering edges zero sq zero /\
  (forall j, (N.to_nat j < length edges) -> count j sq = nth (N.to_nat j) flow 0%Z) /\
  (forall j, In j sq -> N.to_nat j < length edges).

(** every intermediate marking of an ordering that starts non-negative is non-negative *)
Definition nonneg (m : smarking) : Prop := forall s, (0 <= m s)%Z.

(** the markings passed through when the edges [sq] are fired one after the other from [m] *)
Fixpoint markings_along (edges : list edge) (m : smarking) (sq : list N) : list smarking :=
  match sq with
  | [] => [m]
  | j :: sq' =>
      m :: markings_along edges
             (match nth_error edges (N.to_nat j) with Some e => fire_edge e m | None => m end) sq'
  end.
