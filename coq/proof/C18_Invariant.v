(** C18 — clause 2: a renamed, re-ordered view receives the identical canonical graph.
    Ingredients: the leaf enumerations correspond (proof/C18_Equiv.v), equal labels give position-wise equal kinds and
    arcs between distinct positions (proof/C18_Label.v); self-loops are not part of the label, they are recovered from
    the partition-independent part of the signature (kind, degrees, sorted out-edge attributes), which is the same at
    every position of every leaf because the first refinement already separates it. *)
From Coq Require Import List NArith ZArith Bool Arith Lia Permutation.
From SK Require Import lib.IRSortKeys lib.IRCore lib.IRSearch lib.StrJoin lib.C18_IRValid model.C18_Model
  proof.C18_Order proof.C18_Spec proof.C18_Graph proof.C18_Canon proof.C18_Equiv proof.C18_Label proof.C18_Aut.
From SK Require lib.IRInst.
Import ListNotations.

(* ---------------- the partition-independent part of the signature ---------------- *)
Definition vkey (g : vgraph) (v : N) : Z * nat * nat * list eattr :=
  (kind_of g v, indeg g v, outdeg g v, sort_attrs (out_attrs g v)).

Lemma flat_attrs_inj l : forall l', flat_attrs l = flat_attrs l' -> l = l'.
Proof.
  induction l as [|[a b] l IH]; intros [|[a' b'] l'] E; simpl in E; try discriminate; auto.
  inversion E; subst. f_equal. auto.
Qed.

Lemma sig_vkey g P v w : sig g P v = sig g P w -> vkey g v = vkey g w.
Proof.
  unfold sig, vkey. intros E. simpl in E. inversion E as [[E1 E2 E3 E4]].
  apply Nat2Z.inj in E2, E3.
  destruct (app_inv_length _ _ _ _ (eq_trans (map_length _ _) (eq_sym (map_length _ _))) E4) as [_ E5].
  apply flat_attrs_inj in E5. congruence.
Qed.

Definition leaf_keys (g : vgraph) : list (Z * nat * nat * list eattr) :=
  kseq _ (vkey g) (refine IRInst.lexleb (sig g) (S (length (vnodes g))) (init_part g)).

Lemma leaves_of_keys g p : wf g -> In p (leaves_of g) ->
  exists pre r, p = pre ++ r /\ Permutation r (node_ids g) /\ map (vkey g) r = leaf_keys g /\ incl pre (node_ids g).
Proof.
  intros (Hnd & _) Hin. unfold leaves_of in Hin.
  destruct (leaves_kseq_top _ IRInst.lexleb IRInst.lexleb_total
              (fun a b c H1 H2 => IRInst.lexleb_trans a b c H1 H2) IRInst.lexleb_antisym
              (sig g) _ (vkey g) (sig_vkey g) (node_ids g) Hnd _ _ _ _ _ (init_part_vpart g Hnd) Hin) as (ext & r & -> & Hr & Hk & Hi).
  exists ext, r. auto.
Qed.

(* ---------------- out-arcs grouped by destination ---------------- *)
Definition oarc (g : vgraph) (u v : N) : list arc := match find_arc g u v with Some a => [(u, v, a)] | None => [] end.
Definition oattr (g : vgraph) (u v : N) : list eattr := match find_arc g u v with Some a => [a] | None => [] end.

Lemma NoDup_flat_map_dst g u r : NoDup r -> NoDup (flat_map (oarc g u) r).
Proof.
  induction 1 as [|v r Hv Hr IH]; simpl; [constructor|].
  apply NoDup_app_intro; auto.
  - unfold oarc. destruct (find_arc g u v); constructor; auto. constructor.
  - intros x H1 H2. unfold oarc in H1. destruct (find_arc g u v); [|contradiction]. destruct H1 as [<-|[]].
    apply in_flat_map in H2. destruct H2 as (w & Hw & H2). unfold oarc in H2.
    destruct (find_arc g u w); [|contradiction]. destruct H2 as [E|[]]. inversion E; subst. auto.
Qed.

Lemma out_arcs_grouped g u r : wf g -> NoDup r -> Permutation r (node_ids g) ->
  Permutation (out_attrs g u) (flat_map (oattr g u) r).
Proof.
  intros Hw Hnd Hp.
  assert (E : flat_map (oattr g u) r = map aattr (flat_map (oarc g u) r)).
  { rewrite map_flat_map. apply flat_map_ext. intros v. unfold oattr, oarc. destruct (find_arc g u v); reflexivity. }
  rewrite E. unfold out_attrs. apply Permutation_map.
  apply NoDup_Permutation.
  - apply NoDup_filter. apply wf_nodup_arcs. auto.
  - apply NoDup_flat_map_dst. auto.
  - intros [[s d] a]. rewrite filter_In, in_flat_map. unfold asrc; simpl. split.
    + intros [I Es]. apply N.eqb_eq in Es. subst s. exists d. split.
      * apply (Permutation_in _ (Permutation_sym Hp)). destruct Hw as (_ & _ & He). apply (He _ I).
      * unfold oarc. unfold find_arc. rewrite (find_arc_l_in _ u d a); [left; auto|apply Hw|auto].
    + intros (v & Hv & I). unfold oarc in I. destruct (find_arc g u v) as [a'|] eqn:Ef; [|contradiction].
      destruct I as [I|[]]. inversion I; subst. split; [apply find_arc_l_some; auto|apply N.eqb_refl].
Qed.

Lemma ins_attr_perm x l : Permutation (ins_attr x l) (x :: l).
Proof.
  induction l as [|y l IH]; simpl; auto. destruct (attr_leb x y); auto.
  eapply perm_trans; [apply perm_skip; exact IH|apply perm_swap].
Qed.
Lemma sort_attrs_is_perm l : Permutation (sort_attrs l) l.
Proof. induction l as [|x l IH]; simpl; auto. eapply perm_trans; [apply ins_attr_perm|auto]. Qed.

Lemma flat_map_pos {A B} (F F' : A -> list B) d : forall l l', length l = length l' ->
  (forall j, j < length l -> F (nth j l d) = F' (nth j l' d)) -> flat_map F l = flat_map F' l'.
Proof.
  induction l as [|x l IH]; intros [|x' l'] Hl H; simpl in *; try discriminate; auto.
  rewrite (H 0 ltac:(lia)). f_equal. apply IH; [lia|]. intros j Hj. apply (H (S j)). lia.
Qed.

Lemma flat_map_hole {A B} (F F' : A -> list B) d : forall l l' i, length l = length l' -> i < length l ->
  (forall j, j < length l -> j <> i -> F (nth j l d) = F' (nth j l' d)) ->
  Permutation (flat_map F l) (flat_map F' l') -> Permutation (F (nth i l d)) (F' (nth i l' d)).
Proof.
  induction l as [|x l IH]; intros [|x' l'] i Hl Hi H HP; simpl in *; try discriminate; try lia.
  destruct i as [|i].
  - rewrite (flat_map_pos F F' d l l') in HP; [|lia|].
    + apply Permutation_app_inv_r in HP. auto.
    + intros j Hj. apply (H (S j)); lia.
  - rewrite (H 0 ltac:(lia) ltac:(lia)) in HP. apply Permutation_app_inv_l in HP.
    apply IH; auto; try lia. intros j Hj Hne. apply (H (S j)); lia.
Qed.

(** a self-loop is determined by the key and the arcs to the other positions *)
Lemma loop_from_key g r r' i : wf g -> NoDup r -> NoDup r' ->
  Permutation r (node_ids g) -> Permutation r' (node_ids g) -> i < length r ->
  vkey g (nth i r 0%N) = vkey g (nth i r' 0%N) ->
  (forall j, j < length r -> j <> i -> find_arc g (nth i r 0%N) (nth j r 0%N) = find_arc g (nth i r' 0%N) (nth j r' 0%N)) ->
  find_arc g (nth i r 0%N) (nth i r 0%N) = find_arc g (nth i r' 0%N) (nth i r' 0%N).
Proof.
  intros Hw Hnd Hnd' Hp Hp' Hi Hk Ha.
  assert (Hl : length r = length r') by (rewrite (Permutation_length Hp), (Permutation_length Hp'); auto).
  set (u := nth i r 0%N) in *. set (u' := nth i r' 0%N) in *.
  assert (Hs : Permutation (out_attrs g u) (out_attrs g u')).
  { unfold vkey in Hk. inversion Hk as [[E1 E2 E3 E]].
    eapply perm_trans; [apply Permutation_sym, sort_attrs_is_perm|]. rewrite E. apply sort_attrs_is_perm. }
  assert (HP : Permutation (flat_map (oattr g u) r) (flat_map (oattr g u') r')).
  { eapply perm_trans; [apply Permutation_sym, out_arcs_grouped; auto|].
    eapply perm_trans; [exact Hs|]. apply out_arcs_grouped; auto. }
  apply (flat_map_hole (oattr g u) (oattr g u') 0%N r r' i Hl Hi) in HP.
  - fold u u' in HP. unfold oattr in HP.
    destruct (find_arc g u u) as [a|], (find_arc g u' u') as [a'|]; auto.
    + apply Permutation_length_1 in HP. congruence.
    + apply Permutation_sym, Permutation_nil in HP. discriminate.
    + apply Permutation_nil in HP. discriminate.
  - intros j Hj Hne. unfold oattr. rewrite (Ha j Hj Hne). reflexivity.
Qed.

(* ---------------- two leaves with the same label ---------------- *)
Lemma nth_app_r {A} (l1 l2 : list A) i d : nth (length l1 + i) (l1 ++ l2) d = nth i l2 d.
Proof. rewrite app_nth2 by lia. f_equal. lia. Qed.

Theorem same_label_aut g p q : wf g -> kinds_ok g -> arcs_ok g ->
  In p (leaves_of g) -> In q (leaves_of g) -> label g p = label g q ->
  exists pre r pre' r', p = pre ++ r /\ q = pre' ++ r' /\ length pre = length pre' /\
    NoDup r /\ NoDup r' /\ Permutation r (node_ids g) /\ Permutation r' (node_ids g) /\
    is_aut g (seqmap r r').
Proof.
  intros Hw Hk Ha Hp Hq E.
  destruct (leaves_of_keys g p Hw Hp) as (pre & r & -> & Hr & Kr & Ipre).
  destruct (leaves_of_keys g q Hw Hq) as (pre' & r' & -> & Hr' & Kr' & Ipre').
  assert (Hnd : NoDup r) by (eapply Permutation_NoDup; [apply Permutation_sym; exact Hr|apply Hw]).
  assert (Hnd' : NoDup r') by (eapply Permutation_NoDup; [apply Permutation_sym; exact Hr'|apply Hw]).
  assert (Hl : length r = length r') by (rewrite (Permutation_length Hr), (Permutation_length Hr'); auto).
  assert (Ip : incl (pre ++ r) (node_ids g)).
  { intros x Hx. apply in_app_or in Hx. destruct Hx as [Hx|Hx]; [apply Ipre; auto|apply (Permutation_in _ Hr Hx)]. }
  assert (Iq : incl (pre' ++ r') (node_ids g)).
  { intros x Hx. apply in_app_or in Hx. destruct Hx as [Hx|Hx]; [apply Ipre'; auto|apply (Permutation_in _ Hr' Hx)]. }
  destruct (label_read g _ _ Hk Ha Ip Iq E) as (Hlen & Hkind & Harc).
  rewrite !app_length in Hlen. assert (Hlp : length pre = length pre') by lia.
  exists pre, r, pre', r'. split; [reflexivity|]. split; [reflexivity|]. split; [exact Hlp|]. split; [exact Hnd|].
  split; [exact Hnd'|]. split; [exact Hr|]. split; [exact Hr'|].
  assert (Hkind' : forall i, i < length r -> kind_of g (nth i r 0%N) = kind_of g (nth i r' 0%N)).
  { intros i Hi. specialize (Hkind (length pre + i)). rewrite app_length in Hkind. specialize (Hkind ltac:(lia)).
    rewrite nth_app_r in Hkind. rewrite Hlp, nth_app_r in Hkind. exact Hkind. }
  assert (Harc' : forall i j, i < length r -> j < length r -> i <> j ->
            find_arc g (nth i r 0%N) (nth j r 0%N) = find_arc g (nth i r' 0%N) (nth j r' 0%N)).
  { intros i j Hi Hj Hij. specialize (Harc (length pre + i) (length pre + j)). rewrite app_length in Harc.
    specialize (Harc ltac:(lia) ltac:(lia) ltac:(lia)).
    rewrite !nth_app_r in Harc. rewrite Hlp, !nth_app_r in Harc. exact Harc. }
  apply seq_aut; auto.
  intros i j Hi Hj. destruct (Nat.eq_dec i j) as [->|Hij]; [|apply Harc'; auto].
  apply loop_from_key; auto.
  pose proof (f_equal (fun l => nth j l (vkey g 0%N)) Kr) as K1. pose proof (f_equal (fun l => nth j l (vkey g 0%N)) Kr') as K2.
  simpl in K1, K2. rewrite map_nth in K1, K2. congruence.
Qed.

(* ---------------- the canonical graph does not depend on which minimal leaf is used ---------------- *)
Lemma cid_nth_tail pre r i : NoDup r -> i < length r -> cid (pre ++ r) (nth i r 0%N) = N.of_nat (S (length pre) + i).
Proof.
  intros Hnd Hi. pose proof (cid_tail pre r Hnd) as E.
  pose proof (f_equal (fun l => nth i l (cid (pre ++ r) 0%N)) E) as En. simpl in En.
  rewrite map_nth in En. rewrite En.
  rewrite (nth_indep _ _ (N.of_nat 0)) by (rewrite map_length, seq_length; auto).
  rewrite map_nth, seq_nth; auto.
Qed.

Theorem same_label_canon g p q : wf g -> kinds_ok g -> arcs_ok g ->
  In p (leaves_of g) -> In q (leaves_of g) -> label g p = label g q ->
  geq (canon_graph g p) (canon_graph g q).
Proof.
  intros Hw Hk Ha Hp Hq E.
  destruct (same_label_aut g p q Hw Hk Ha Hp Hq E) as (pre & r & pre' & r' & -> & -> & Hlp & Hnd & Hnd' & Hr & Hr' & Haut).
  assert (Hl : length r = length r') by (rewrite (Permutation_length Hr), (Permutation_length Hr'); auto).
  change (geq (relabel (cid (pre ++ r)) g) (relabel (cid (pre' ++ r')) g)).
  rewrite (relabel_ext (cid (pre ++ r)) (fun v => cid (pre' ++ r') (seqmap r r' v)) g Hw).
  - rewrite <- relabel_comp. apply geq_relabel. apply aut_geq; auto.
  - intros v Hv. apply (Permutation_in _ (Permutation_sym Hr)) in Hv. destruct (idx_in _ _ Hv) as [Hi <-].
    rewrite seqmap_nth; auto. rewrite !cid_nth_tail; auto; try lia.
Qed.

(* ---------------- clause 2 ---------------- *)
Lemma cid_map f (f_inj : forall x y : N, f x = f y -> x = y) p v : cid (map f p) (f v) = cid p v.
Proof.
  unfold cid. f_equal. generalize 0 at 2 4. generalize 0.
  induction p as [|w p IH]; intros i cur; simpl; auto. rewrite (eqb_f f f_inj). apply IH.
Qed.

Theorem canon_invariant f (f_inj : forall x y : N, f x = f y -> x = y) g g' lab p lab' p' :
  wf g -> kinds_ok g -> arcs_ok g -> geq g' (relabel f g) ->
  fst (canon_search g) = Some (lab, p) -> fst (canon_search g') = Some (lab', p') ->
  lab' = lab /\ geq (canon_graph g' p') (canon_graph g p).
Proof.
  intros Hw Hk Ha Hg Hb Hb'.
  destruct (best_is_leaf g lab p Hb) as [El Hp]. destruct (best_is_leaf g' lab' p' Hb') as [El' Hp'].
  pose proof (best_label_rel f f_inj g g' Hw Hg) as Ebl. unfold best_label in Ebl. rewrite Hb, Hb' in Ebl. simpl in Ebl.
  inversion Ebl as [Elab]. split; auto.
  apply (Permutation_in _ (Permutation_sym (leaves_of_rel f f_inj g g' Hw Hg))) in Hp'.
  apply in_map_iff in Hp'. destruct Hp' as (q & <- & Hq).
  assert (Elq : label g q = label g p).
  { rewrite <- (label_rel f f_inj g g' q Hw Hg). congruence. }
  eapply geq_trans; [|apply (same_label_canon g q p Hw Hk Ha Hq Hp Elq)].
  change (geq (relabel (cid (map f q)) g') (relabel (cid q) g)).
  eapply geq_trans; [apply geq_relabel; exact Hg|].
  rewrite relabel_comp. rewrite (relabel_ext _ (cid q) g Hw); [apply geq_refl|].
  intros v _. apply cid_map; auto.
Qed.

(* ---------------- clause 2 for a renaming that is only injective on the nodes of the view ---------------- *)
Lemma kinds_ok_relabel f g : kinds_ok g -> kinds_ok (relabel f g).
Proof. intros H p I. unfold relabel in I; simpl in I. apply in_map_iff in I. destruct I as (q & <- & I). apply (H q I). Qed.
Lemma arcs_ok_relabel f g : arcs_ok g -> arcs_ok (relabel f g).
Proof. intros H e I. unfold relabel in I; simpl in I. apply in_map_iff in I. destruct I as (q & <- & I). apply (H q I). Qed.
Lemma kinds_ok_geq g h : geq g h -> kinds_ok g -> kinds_ok h.
Proof. intros [H1 _] H p I. apply H. apply (Permutation_in _ (Permutation_sym H1) I). Qed.
Lemma arcs_ok_geq g h : geq g h -> arcs_ok g -> arcs_ok h.
Proof. intros [_ H2] H e I. apply H. apply (Permutation_in _ (Permutation_sym H2) I). Qed.

Definition dbl (x : N) : N := (2 * x)%N.
Definition ext_inj (l : list N) (f : N -> N) (x : N) : N := if memN x l then (2 * f x)%N else (2 * x + 1)%N.
Lemma dbl_inj x y : dbl x = dbl y -> x = y.
Proof. unfold dbl. lia. Qed.
Lemma ext_inj_inj l f : inj_on f l -> forall x y, ext_inj l f x = ext_inj l f y -> x = y.
Proof.
  intros Hf x y. unfold ext_inj. destruct (memN x l) eqn:Ex, (memN y l) eqn:Ey; intros E; try lia.
  apply memN_spec in Ex, Ey. apply Hf; auto. lia.
Qed.

Theorem canon_invariant_on f g g' lab p lab' p' :
  inj_on f (node_ids g) -> wf g -> kinds_ok g -> arcs_ok g -> geq g' (relabel f g) ->
  fst (canon_search g) = Some (lab, p) -> fst (canon_search g') = Some (lab', p') ->
  lab' = lab /\ geq (canon_graph g' p') (canon_graph g p).
Proof.
  intros Hf Hw Hk Ha Hg Hb Hb'.
  set (f2 := ext_inj (node_ids g) f).
  set (gm := relabel f2 g).
  assert (Egm : gm = relabel dbl (relabel f g)).
  { unfold gm. rewrite relabel_comp. apply relabel_ext; auto. intros v Hv. unfold f2, ext_inj, dbl.
    apply memN_spec in Hv. rewrite Hv. reflexivity. }
  assert (Hwm : wf gm) by (apply wf_relabel; auto; intros x y _ _; apply ext_inj_inj; auto).
  destruct (fst (canon_search gm)) as [[labm pm]|] eqn:Hbm; [|exfalso; apply (canon_found gm Hwm); auto].
  destruct (canon_invariant f2 (ext_inj_inj _ f Hf) g gm lab p labm pm Hw Hk Ha (geq_refl _) Hb Hbm) as [E1 G1].
  assert (Hwf : wf (relabel f g)) by (apply wf_relabel; auto).
  assert (Hw' : wf g') by (apply (geq_wf (relabel f g)); [apply geq_sym; auto|auto]).
  assert (Hk' : kinds_ok g') by (apply (kinds_ok_geq (relabel f g)); [apply geq_sym; auto|apply kinds_ok_relabel; auto]).
  assert (Ha' : arcs_ok g') by (apply (arcs_ok_geq (relabel f g)); [apply geq_sym; auto|apply arcs_ok_relabel; auto]).
  assert (Hgm : geq gm (relabel dbl g')) by (rewrite Egm; apply geq_relabel; apply geq_sym; auto).
  destruct (canon_invariant dbl dbl_inj g' gm lab' p' labm pm Hw' Hk' Ha' Hgm Hb' Hbm) as [E2 G2].
  split; [congruence|]. eapply geq_trans; [apply geq_sym; exact G2|exact G1].
Qed.

(* ---------------- clauses 2 + 3 together: a complete invariant ---------------- *)
Theorem canon_complete_invariant g1 g2 l1 p1 l2 p2 :
  wf g1 -> kinds_ok g1 -> arcs_ok g1 -> wf g2 ->
  fst (canon_search g1) = Some (l1, p1) -> fst (canon_search g2) = Some (l2, p2) ->
  (iso g1 g2 <-> geq (canon_graph g1 p1) (canon_graph g2 p2)).
Proof.
  intros W1 K1 A1 W2 B1 B2. split.
  - intros (f & Hf & Hg). apply geq_sym.
    apply (canon_invariant_on f g1 g2 l1 p1 l2 p2 Hf W1 K1 A1 (geq_sym _ _ Hg) B1 B2).
  - apply (canon_complete g1 g2 l1 p1 l2 p2 W1 W2 B1 B2).
Qed.
