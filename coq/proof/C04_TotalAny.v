(** C04 — _explicit_h does not raise on the ITS glued from a default-mode rule along ANY valid match onto ANY substrate, if the
    template's hydrogens satisfy [valence_okb]: _explicit_h only looks at the matched atoms, which carry the rule's hydrogen
    changes and pair ids whatever the substrate is.  Generalises proof/C04_TotalDefault.v (identity match on the own substrate). *)
From Coq Require Import List NArith ZArith Bool Arith Lia Permutation.
From SK Require Import lib.Tok lib.LGraph model.C03_Model model.C03_Order proof.C03_Ord model.C04_Model model.C04_Reactor proof.C03_Proof proof.C03_Glue proof.C03_Spec proof.C03_StripCounts
                       proof.C03_StripExact proof.C03_StripCor proof.C03_PairIdsComplete proof.C03_ExplicitTotal
                       proof.C04_Glue proof.C04_Template proof.C04_Fold proof.C04_Default proof.C04_DefaultProof proof.C04_Total proof.C04_TotalDefault.
Import ListNotations.
Local Open Scope Z_scope.

Lemma sumF_map (g : N -> Z) (f : N -> N) (l : list N) : sumF g (map f l) = sumF (fun p => g (f p)) l.
Proof. induction l as [|x r IH]; simpl; [reflexivity|]. rewrite IH. reflexivity. Qed.

Lemma nodup_map_inj' {X Y} (f : X -> Y) (l : list X) : NoDup l -> (forall a b, In a l -> In b l -> f a = f b -> a = b) -> NoDup (map f l).
Proof.
  induction l as [|x r IH]; intros Hn Hi; simpl; [constructor|]. inversion Hn as [|? ? H1 H2]; subst. constructor.
  - intros I. apply in_map_iff in I. destruct I as (z & E & Iz). assert (z = x) by (apply Hi; [right; exact Iz|left; reflexivity|exact E]). subst z. contradiction.
  - apply IH; [exact H2|]. intros a b Ia Ib. apply Hi; right; assumption.
Qed.
Lemma pair_snd_inj (m : list (N * N)) p q n : NoDup (map snd m) -> In (p, n) m -> In (q, n) m -> p = q.
Proof.
  induction m as [|[a b] t IH]; intros Hv Ep Eq; [destruct Ep|]. simpl in Hv. inversion Hv as [|? ? H1 H2]; subst.
  destruct Ep as [Ep|Ep], Eq as [Eq|Eq].
  - congruence.
  - inversion Ep; subst. exfalso. apply H1. change n with (snd (q, n)). apply in_map. exact Eq.
  - inversion Eq; subst. exfalso. apply H1. change n with (snd (p, n)). apply in_map. exact Ep.
  - exact (IH H2 Ep Eq).
Qed.

Section TotalAny.
  Variables (A B : hostg) (tpl rc : its) (l r : molg) (host : hostg) (y : mapping) (T : its).
  Hypothesis PW : pair_wf A B.
  Hypothesis D : describes A B tpl.
  Hypothesis OK : default_okb A B tpl = true.
  Hypothesis Es : synrule tpl true = Some (rc, l, r).
  Hypothesis Hwr : wf_rcb rc = true.
  Hypothesis Hy : match_rcb host rc y = true.
  Hypothesis Hg : glue host rc y = Some T.
  Hypothesis VAL : valence_okb tpl rc = true.

  Let EG := gedges (side0 iG eG tpl).
  Let EH := gedges (side0 iH eH tpl).
  Let Hnd0 : nodupb (node_ids tpl) = true := tpl_nodupb A B tpl D.
  Let Hel := tpl_el A B tpl PW D.
  Let Nrc : NoDup (node_ids rc) := wf_rc_nodup rc Hwr.
  Let MO : match_ok host rc y := match_rcb_sound host rc y Nrc Hy.

  (** the match as a function, and the rule atom glued onto a substrate atom *)
  Definition yf (p : N) : N := match mget y p with Some h => h | None => 0%N end.
  Definition yinv (n : N) : option N := find (fun p => N.eqb (yf p) n) (node_ids rc).

  Lemma y_total p : In p (node_ids rc) -> mget y p = Some (yf p).
  Proof.
    intros I. destruct (in_ids_label rc p I) as [pn Ep]. destruct (mo_nodes _ _ _ MO p pn (assoc_in p (gnodes rc) Ep)) as (h & _ & E & _).
    unfold yf. rewrite E. reflexivity.
  Qed.
  Lemma y_inj p q : In p (node_ids rc) -> In q (node_ids rc) -> yf p = yf q -> p = q.
  Proof.
    intros Ip Iq E. pose proof (y_total p Ip) as Ep. pose proof (y_total q Iq) as Eq. rewrite E in Ep.
    unfold mget in Ep, Eq. apply assoc_in in Ep, Eq.
    exact (pair_snd_inj y p q (yf q) (mo_vals _ _ _ MO) Ep Eq).
  Qed.
  Lemma yinv_some n p : yinv n = Some p -> In p (node_ids rc) /\ yf p = n.
  Proof. unfold yinv. intros E. apply find_some in E. destruct E as [I E]. apply N.eqb_eq in E. auto. Qed.
  Lemma yinv_of p : In p (node_ids rc) -> yinv (yf p) = Some p.
  Proof.
    intros I. unfold yinv. destruct (find (fun q => N.eqb (yf q) (yf p)) (node_ids rc)) as [q|] eqn:E.
    - apply find_some in E. destruct E as [Iq E]. apply N.eqb_eq in E. f_equal. exact (y_inj q p Iq I E).
    - exfalso. pose proof (find_none _ _ E p I) as K. simpl in K. rewrite N.eqb_refl in K. discriminate.
  Qed.
  Lemma yinv_none n : yinv n = None -> ~ In n (map snd y).
  Proof.
    intros E I. apply in_map_iff in I. destruct I as ([p h] & Eh & I). simpl in Eh. subst h.
    assert (Ip : In p (node_ids rc)).
    { apply (Permutation_in _ (Permutation_sym (mo_perm _ _ _ MO))). change p with (fst (p, n)). apply in_map. exact I. }
    assert (Em : mget y p = Some n) by (unfold mget; apply assoc_nodup_in; [exact (mo_keys _ _ _ MO)|exact I]).
    pose proof (y_total p Ip) as Et. rewrite Em in Et. inversion Et as [En].
    pose proof (find_none _ _ E p Ip) as K. simpl in K. rewrite <- En, N.eqb_refl in K. discriminate.
  Qed.

  Theorem any_match_balanced : pairs_okb T = true.
  Proof.
    pose proof (nodupb_NoDup _ Hnd0) as Hnd.
    destruct (synrule_default_pointwise tpl rc l r Hnd0 Hel Es) as (R & RN & RH & Ri & _ & _ & _ & _ & RCa & _).
    assert (AllH : forall h, is_H_i tpl h = true -> In h R).
    { intros h Hh. apply RH. destruct (all_H_strippable A B tpl OK h Hh). auto. }
    assert (RinH : forall h, In h R -> is_H_i tpl h = true) by (intros h I; exact (proj1 (proj1 (RH h) I))).
    assert (RCi : forall k, In k (node_ids rc) <-> In k (node_ids tpl) /\ ~ In k R).
    { intros k. rewrite Ri, filter_In. split; intros [I K]; (split; [exact I|]).
      - apply negb_true_iff in K. intros J. apply mem_spec in J. congruence.
      - apply negb_true_iff. destruct (mem k R) eqn:E; [apply mem_spec in E; contradiction|reflexivity]. }
    assert (Delta : forall k a, label rc k = Some a -> a_hc (iG a) - a_hc (iH a) = sumX (fun h => cnt EG h k - cnt EH h k) R).
    { intros k a Ea. destruct (proj1 (RCi k) (label_some_in rc k a Ea)) as [Ik NR].
      destruct (in_ids_label tpl k Ik) as [a0 Ea0]. destruct (RCa k a0 Ea0 NR) as (a' & Ea' & _ & _ & C1 & C2).
      rewrite Ea in Ea'. inversion Ea'; subst a'.
      assert (NH : N.eqb (a_el (iG a0)) EL_H = false).
      { destruct (N.eqb (a_el (iG a0)) EL_H) eqn:Eh; [|reflexivity]. exfalso. apply NR. apply AllH. unfold is_H_i. rewrite Ea0. exact Eh. }
      rewrite NH in C1, C2. rewrite C1, C2, sumX_sub. reflexivity. }
    assert (Tin : forall k a, label rc k = Some a -> exists hn, label T (yf k) = Some (IN hn (NA (a_el hn) (a_aro hn) (a_hc hn - (a_hc (iG a) - a_hc (iH a))) (a_ch (iH a)) (a_nb hn)) 0
                                  (match i_hp a with Some l0 => Some l0 | None => None end))).
    { intros k a Ea. destruct (glued_node host rc y T Hwr Hy Hg k (yf k) a) as (hn & _ & Hl).
      - exact (y_total k (label_some_in rc k a Ea)).
      - exact (assoc_in k (gnodes rc) Ea).
      - exists hn. exact Hl. }
    set (f := fun (h k : N) => cnt EG h k - cnt EH h k).
    apply (balanced_components T N R (fun h n => match yinv n with Some p => f h p | None => 0 end)).
    - intros n. destruct (yinv n) as [p|] eqn:Ei.
      + destruct (yinv_some n p Ei) as [Ip <-]. destruct (in_ids_label rc p Ip) as [a Ea]. destruct (Tin p a Ea) as (hn & Hl).
        unfold dl_of. rewrite Hl. unfold delta_h, f. cbn [iG iH a_hc]. rewrite <- (Delta p a Ea). lia.
      + rewrite sumX_zero by (intros; reflexivity). unfold dl_of. rewrite (unglued_node host rc y T Hg n (yinv_none n Ei)).
        destruct (label host n); simpl; [unfold delta_h; simpl; lia|reflexivity].
    - intros h Ih. pose proof (RinH h Ih) as Hh. destruct (all_H_strippable A B tpl OK h Hh) as [S1 S2].
      destruct (synrule_default_pairs_complete tpl rc l r Hnd0 Hel Es h Hh S1 S2) as (pid & Hp). exists pid. intros n Wn.
      destruct (yinv n) as [p|] eqn:Ei; [|exfalso; apply Wn; reflexivity]. destruct (yinv_some n p Ei) as [Ip <-].
      destruct (proj1 (RCi p) Ip) as [In_ NR].
      assert (Hne : h <> p) by (intros ->; contradiction).
      assert (Inb : In p (nbrs tpl h)).
      { unfold f in Wn. destruct (Z.eq_dec (cnt EG h p) 0) as [Z1|Z1].
        - assert (Z2 : cnt EH h p <> 0) by lia. exact (cnt_side_nbr iH eH tpl h p Z2 Hne).
        - exact (cnt_side_nbr iG eG tpl h p Z1 Hne). }
      assert (NHn : is_H_i tpl p = false).
      { destruct (is_H_i tpl p) eqn:E; [|reflexivity]. exfalso. apply NR. apply AllH. exact E. }
      assert (Hasn : has_node tpl p = true).
      { destruct (in_ids_label tpl p In_) as [a0 Ea0]. unfold has_node. rewrite Ea0. reflexivity. }
      destruct (Hp p Inb NHn Hasn) as (An & EAn & PAn). destruct (Tin p An EAn) as (hn & Hl).
      eexists. split; [exact (assoc_in (yf p) (gnodes T) Hl)|]. unfold hp_of in *. cbn [i_hp]. destruct (i_hp An); exact PAn.
    - intros h c Ih Hc Hsup.
      set (img := map yf (node_ids rc)).
      assert (Nimg : NoDup img).
      { unfold img. apply nodup_map_inj'; [exact Nrc|]. intros a b Ia Ib E. exact (y_inj a b Ia Ib E). }
      set (g := fun n => match yinv n with Some p => f h p | None => 0 end).
      assert (E1 : sumF g c = sumF (fun n => if mem n img then g n else 0) c).
      { apply sumF_ext. intros n _. destruct (mem n img) eqn:Em; [reflexivity|]. unfold g. destruct (yinv n) as [p|] eqn:Ei; [|reflexivity].
        destruct (yinv_some n p Ei) as [Ip <-]. exfalso. assert (mem (yf p) img = true); [|congruence]. apply mem_spec. unfold img. apply in_map. exact Ip. }
      fold g. rewrite E1, (double_count g c img Hc Nimg).
      assert (E2 : sumF (fun k => if mem k c then g k else 0) img = sumF g img).
      { apply sumF_ext. intros n _. destruct (mem n c) eqn:Em; [reflexivity|]. destruct (Z.eq_dec (g n) 0) as [Z0|Z0]; [symmetry; exact Z0|].
        exfalso. assert (In n c); [apply Hsup; exact Z0|]. apply mem_spec in H. congruence. }
      rewrite E2. unfold img. rewrite sumF_map.
      rewrite (sumF_ext _ (f h) (node_ids rc)) by (intros p Ip; unfold g; rewrite (yinv_of p Ip); reflexivity).
      unfold valence_okb in VAL. rewrite forallb_forall in VAL.
      specialize (VAL h (proj2 (h_nodes_i_spec tpl h Hnd) (RinH h Ih))). apply Z.leb_le in VAL. exact VAL.
  Qed.

  Theorem any_match_total : explicit_h T <> None.
  Proof. intros E. apply explicit_h_crash_iff in E. rewrite any_match_balanced in E. discriminate. Qed.
  Theorem any_match_total_ord (ord : list N -> list N) :
    (forall l0 x, In x (ord l0) <-> In x l0) -> (forall l0, NoDup l0 -> NoDup (ord l0)) -> explicit_h_ord ord T <> None.
  Proof. intros O1 O2 E. apply (explicit_h_ord_crash_iff ord O1 O2) in E. rewrite any_match_balanced in E. discriminate. Qed.
End TotalAny.
