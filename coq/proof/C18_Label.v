(** C18 — the label string determines what it was computed from: decimal rendering, role / stoichiometry bits,
    the two '|'-joined segments.  Equal labels of two node sequences give equal lengths, position-wise equal kinds and
    position-wise equal arcs between distinct positions. *)
From Coq Require Import List NArith ZArith Bool Arith Lia Permutation.
From Coq Require String Ascii.
From SK Require Import lib.IRSortKeys lib.IRCore lib.IRSearch lib.StrJoin model.C18_Model proof.C18_Spec proof.C18_Graph.
Import ListNotations.

(* ---------------- decimal digits ---------------- *)
Definition stepR (c : N) (vw : N * N) : N * N := ((fst vw + (c - 48) * snd vw)%N, (10 * snd vw)%N).
Definition rval (l : list N) : N * N := fold_right stepR (0%N, 1%N) l.

Lemma digits_rval fuel : forall n acc, (n < 10 ^ N.of_nat fuel)%N ->
  fst (rval (digits fuel n acc)) = (fst (rval acc) + n * snd (rval acc))%N.
Proof.
  induction fuel as [|f IH]; intros n acc Hn.
  - simpl in *. assert (n = 0%N) by lia. subst. lia.
  - cbn [digits]. cbv zeta.
    assert (Hd : rval ((48 + n mod 10)%N :: acc) = ((fst (rval acc) + (n mod 10) * snd (rval acc))%N, (10 * snd (rval acc))%N)).
    { change (rval ((48 + n mod 10)%N :: acc)) with (stepR (48 + n mod 10)%N (rval acc)). unfold stepR.
      rewrite (N.add_comm 48), N.add_sub. reflexivity. }
    pose proof (N.div_mod n 10 ltac:(lia)) as Hdm.
    pose proof (N.mod_upper_bound n 10 ltac:(lia)) as Hm.
    rewrite Nat2N.inj_succ, N.pow_succ_r' in Hn.
    remember (n mod 10)%N as m. remember (n / 10)%N as d. remember (10 ^ N.of_nat f)%N as B.
    destruct (N.eqb_spec d 0) as [E|E].
    + rewrite Hd. cbn [fst snd]. subst d. rewrite E in Hdm. replace m with n by lia. reflexivity.
    + rewrite IH.
      * rewrite Hd. cbn [fst snd]. set (w := snd (rval acc)) in *. set (v := fst (rval acc)) in *. rewrite Hdm. ring.
      * lia.
Qed.

Lemma dec_fuel n : (n < 10 ^ N.of_nat (S (N.to_nat (N.log2 n))))%N.
Proof.
  rewrite Nat2N.inj_succ, N2Nat.id.
  destruct (N.eq_dec n 0) as [->|Hn]; [simpl; lia|].
  destruct (N.log2_spec n ltac:(lia)) as [_ H].
  eapply N.lt_le_trans; [exact H|]. apply N.pow_le_mono_l. lia.
Qed.
Lemma dec_rval n : fst (rval (dec n)) = n.
Proof. unfold dec. rewrite digits_rval; [simpl; lia|apply dec_fuel]. Qed.
Lemma dec_inj n m : dec n = dec m -> n = m.
Proof. intros E. rewrite <- (dec_rval n), <- (dec_rval m), E. reflexivity. Qed.

Definition digitc (c : N) : Prop := (48 <= c < 58)%N.
Lemma digits_props fuel : forall n acc, Forall digitc acc ->
  Forall digitc (digits fuel n acc) /\ length acc <= length (digits fuel n acc) /\
  (fuel <> 0 -> length acc < length (digits fuel n acc)).
Proof.
  induction fuel as [|f IH]; intros n acc Ha; simpl; [repeat split; auto; lia|].
  assert (Ha' : Forall digitc ((48 + n mod 10)%N :: acc)).
  { constructor; auto. unfold digitc. pose proof (N.mod_upper_bound n 10 ltac:(lia)) as Hm. remember (n mod 10)%N as m. lia. }
  destruct (N.eqb (n / 10) 0).
  - repeat split; auto; simpl; lia.
  - destruct (IH (n / 10)%N _ Ha') as (H1 & H2 & _). simpl in H2. repeat split; auto; lia.
Qed.
Lemma dec_digits n : Forall digitc (dec n).
Proof. apply digits_props. constructor. Qed.
Lemma dec_nonnil n : dec n <> [].
Proof.
  unfold dec. destruct (digits_props (S (N.to_nat (N.log2 n))) n [] (Forall_nil _)) as (_ & _ & H).
  intro E. rewrite E in H. simpl in H. specialize (H ltac:(discriminate)). lia.
Qed.

(* ---------------- one bit ---------------- *)
Definition attr_ok (a : eattr) : Prop := (fst a = -1 \/ fst a = 0 \/ fst a = 1)%Z /\ (-1 <= snd a)%Z.

Lemma st_str_inj s s' : (-1 <= s)%Z -> (-1 <= s')%Z -> st_str s = st_str s' -> s = s'.
Proof.
  unfold st_str. intros H H'. destruct (Z.ltb_spec s 0), (Z.ltb_spec s' 0); intros E.
  - lia.
  - exfalso. symmetry in E. apply dec_nonnil in E. auto.
  - exfalso. apply dec_nonnil in E. auto.
  - apply dec_inj in E. lia.
Qed.

Lemma role_product : role_str 0 = [112;114;111;100;117;99;116]%N. Proof. reflexivity. Qed.
Lemma role_reactant : role_str 1 = [114;101;97;99;116;97;110;116]%N. Proof. reflexivity. Qed.
Lemma role_none : role_str (-1) = []. Proof. reflexivity. Qed.

Lemma attr_str_inj a b : attr_ok a -> attr_ok b ->
  role_str (fst a) ++ [COLON] ++ st_str (snd a) = role_str (fst b) ++ [COLON] ++ st_str (snd b) -> a = b.
Proof.
  destruct a as [r s], b as [r' s']. unfold attr_ok. simpl. intros [Hr Hs] [Hr' Hs'] E.
  destruct Hr as [-> | [-> | ->]], Hr' as [-> | [-> | ->]];
    rewrite ?role_product, ?role_reactant, ?role_none in E; simpl in E; try discriminate;
    f_equal; apply st_str_inj; auto; congruence.
Qed.

Definition arcs_ok (g : vgraph) : Prop := forall e, In e (varcs g) -> attr_ok (aattr e).
Definition kinds_ok (g : vgraph) : Prop := forall p, In p (vnodes g) -> snd p = KREACTION \/ snd p = KSPECIES.

Lemma find_arc_ok g u v a : arcs_ok g -> find_arc g u v = Some a -> attr_ok a.
Proof. intros H E. apply find_arc_l_some in E. apply (H _ E). Qed.

Lemma bit_inj g a b a' b' : arcs_ok g -> bit g a b = bit g a' b' -> find_arc g a b = find_arc g a' b'.
Proof.
  intros Hok. unfold bit.
  destruct (find_arc g a b) as [[r s]|] eqn:E1, (find_arc g a' b') as [[r' s']|] eqn:E2; simpl; intros E; try discriminate; auto.
  f_equal. inversion E as [E']. apply (attr_str_inj (r, s) (r', s')); auto.
  - eapply find_arc_ok; eauto.
  - eapply find_arc_ok; eauto.
Qed.

Lemma codes_nosep (s : String.string) : forallb (fun c => negb (N.eqb c BAR)) (codes s) = true -> nosep BAR (codes s).
Proof.
  intros H I. rewrite forallb_forall in H. specialize (H _ I). rewrite N.eqb_refl in H. discriminate.
Qed.
Lemma digit_nosep l : Forall digitc l -> nosep BAR l.
Proof. intros H I. rewrite Forall_forall in H. specialize (H _ I). unfold digitc, BAR in H. lia. Qed.
Lemma st_str_nosep s : nosep BAR (st_str s).
Proof. unfold st_str. destruct (Z.ltb s 0); [intros []|]. apply digit_nosep. apply dec_digits. Qed.
Lemma role_str_nosep r : nosep BAR (role_str r).
Proof.
  unfold role_str. destruct (Z.eqb r RPRODUCT); [apply codes_nosep; reflexivity|].
  destruct (Z.eqb r RREACTANT); [apply codes_nosep; reflexivity|intros []].
Qed.
Lemma nosep_app sep a b : nosep sep a -> nosep sep b -> nosep sep (a ++ b).
Proof. unfold nosep. intros Ha Hb I. apply in_app_or in I. tauto. Qed.
Lemma bit_nosep g a b : nosep BAR (bit g a b).
Proof.
  unfold bit. destruct (find_arc g a b) as [[r s]|].
  - apply (nosep_app BAR [49%N; COLON]); [intros [E|[E|[]]]; discriminate|].
    apply nosep_app; [apply role_str_nosep|]. apply (nosep_app BAR [COLON]); [intros [E|[]]; discriminate|apply st_str_nosep].
  - intros [E|[E|[E|[]]]]; discriminate.
Qed.
Lemma bit_nonnil g a b : bit g a b <> [].
Proof. unfold bit. destruct (find_arc g a b) as [[r s]|]; discriminate. Qed.

Lemma kind_str_inj k k' : (k = KREACTION \/ k = KSPECIES) -> (k' = KREACTION \/ k' = KSPECIES) -> kind_str k = kind_str k' -> k = k'.
Proof. intros [-> | ->] [-> | ->]; auto; intros E; vm_compute in E; discriminate. Qed.
Lemma kind_str_nosep k : nosep BAR (kind_str k).
Proof.
  unfold kind_str. destruct (Z.eqb k KREACTION); [apply codes_nosep; reflexivity|].
  destruct (Z.eqb k KSPECIES); [apply codes_nosep; reflexivity|intros []].
Qed.
Lemma kind_str_nonnil k : (k = KREACTION \/ k = KSPECIES) -> kind_str k <> [].
Proof. intros [-> | ->]; vm_compute; discriminate. Qed.

(* ---------------- the two segments ---------------- *)
Definition piece (x : list N) : Prop := nosep BAR x /\ x <> [].

Lemma join_head sep (y : list N) ys : exists t, join sep (y :: ys) = y ++ t.
Proof. destruct ys as [|y2 ys]; [exists []; simpl; rewrite app_nil_r; auto|exists (sep :: join sep (y2 :: ys)); reflexivity]. Qed.

Lemma piece_not_bar y t b : piece y -> (BAR :: b = y ++ t) -> False.
Proof.
  intros [Hn Hne] E. destruct y as [|c y]; [congruence|]. simpl in E. inversion E; subst. apply Hn. left. reflexivity.
Qed.

Definition rtail (xs : list (list N)) (b : list N) : list N :=
  match xs with [] => BAR :: b | _ => join BAR xs ++ [BAR; BAR] ++ b end.
Lemma seg_cons x xs b : join BAR (x :: xs) ++ [BAR; BAR] ++ b = x ++ BAR :: rtail xs b.
Proof. destruct xs as [|x2 xs]; simpl; auto. rewrite <- app_assoc. reflexivity. Qed.

Lemma rtail_inj xs : forall ys b b', Forall piece xs -> Forall piece ys -> rtail xs b = rtail ys b' -> xs = ys /\ b = b'.
Proof.
  induction xs as [|x xs IH]; intros [|y ys] b b' Hx Hy E.
  - simpl in E. inversion E. auto.
  - exfalso. unfold rtail in E. pose proof (Forall_inv Hy) as Py. destruct (join_head BAR y ys) as (t & Et). rewrite Et, <- app_assoc in E.
    eapply piece_not_bar; eauto.
  - exfalso. unfold rtail in E. pose proof (Forall_inv Hx) as Px. destruct (join_head BAR x xs) as (t & Et). rewrite Et, <- app_assoc in E.
    symmetry in E. eapply piece_not_bar; eauto.
  - pose proof (Forall_inv Hx) as Px. pose proof (Forall_inv Hy) as Py.
    pose proof (Forall_inv_tail Hx) as Hx'. pose proof (Forall_inv_tail Hy) as Hy'.
    change (rtail (x :: xs) b) with (join BAR (x :: xs) ++ [BAR; BAR] ++ b) in E.
    change (rtail (y :: ys) b') with (join BAR (y :: ys) ++ [BAR; BAR] ++ b') in E.
    rewrite !seg_cons in E. pose proof (f_equal (split1 BAR) E) as E'.
    rewrite (split1_app _ (proj1 Px)), (split1_app _ (proj1 Py)) in E'. inversion E' as [[Exy Er]]. subst y.
    destruct (IH ys b b' Hx' Hy' Er) as [-> ->]. auto.
Qed.

Lemma seg_split xs ys b b' : Forall piece xs -> Forall piece ys ->
  join BAR xs ++ [BAR; BAR] ++ b = join BAR ys ++ [BAR; BAR] ++ b' -> xs = ys /\ b = b'.
Proof.
  intros Hx Hy E. destruct xs as [|x xs], ys as [|y ys].
  - simpl in E. inversion E. auto.
  - exfalso. pose proof (Forall_inv Hy) as Py. destruct (join_head BAR y ys) as (t & Et). rewrite Et, <- app_assoc in E.
    simpl in E. eapply piece_not_bar; eauto.
  - exfalso. pose proof (Forall_inv Hx) as Px. destruct (join_head BAR x xs) as (t & Et). rewrite Et, <- app_assoc in E.
    simpl in E. symmetry in E. eapply piece_not_bar; eauto.
  - apply (rtail_inj (x :: xs) (y :: ys) b b' Hx Hy). exact E.
Qed.

Lemma join_inj_pieces xs ys : Forall piece xs -> Forall piece ys -> join BAR xs = join BAR ys -> xs = ys.
Proof.
  intros Hx Hy E. destruct xs as [|x xs], ys as [|y ys]; auto.
  - exfalso. inversion Hy; subst. destruct (join_head BAR y ys) as (t & Et). rewrite Et in E. simpl in E.
    destruct y; [apply (proj2 H1); auto|discriminate].
  - exfalso. inversion Hx; subst. destruct (join_head BAR x xs) as (t & Et). rewrite Et in E. simpl in E.
    destruct x; [apply (proj2 H1); auto|discriminate].
  - apply (join_inj (sep := BAR)); auto; try discriminate.
    + eapply Forall_impl; [|exact Hx]. intros a [Ha _]. exact Ha.
    + eapply Forall_impl; [|exact Hy]. intros a [Ha _]. exact Ha.
Qed.

(* ---------------- position-wise reading of flat_map equalities ---------------- *)
Lemma app_inv_length {A} (a a' b b' : list A) : length a = length a' -> a ++ b = a' ++ b' -> a = a' /\ b = b'.
Proof.
  revert a'. induction a as [|x a IH]; intros [|x' a'] Hl E; simpl in *; try discriminate; auto.
  inversion E; subst. destruct (IH a' ltac:(lia) H1) as [-> ->]. auto.
Qed.

Lemma flat_map_inj2 {X X' Y} (F : X -> list Y) (F' : X' -> list Y) l l' :
  Forall2 (fun x x' => length (F x) = length (F' x')) l l' -> flat_map F l = flat_map F' l' ->
  Forall2 (fun x x' => F x = F' x') l l'.
Proof.
  induction 1 as [|x x' l l' Hl HF IH]; simpl; intros E; [constructor|].
  destruct (app_inv_length _ _ _ _ Hl E) as [E1 E2]. constructor; auto.
Qed.

Lemma Forall2_impl' {A B} (R R' : A -> B -> Prop) l l' : (forall a b, R a b -> R' a b) -> Forall2 R l l' -> Forall2 R' l l'.
Proof. intros H. induction 1; constructor; auto. Qed.

Lemma Forall2_fst_combine {A B} (s : list nat) (p : list A) (q : list B) : length p = length q ->
  Forall2 (fun a b => fst a = fst b) (combine s p) (combine s q).
Proof.
  revert p q. induction s as [|i s IH]; intros [|x p] [|y q] Hl; simpl in *; try discriminate; constructor; auto.
Qed.

Lemma Forall2_combine_nth {A B} (R : nat * A -> nat * B -> Prop) (p : list A) (q : list B) dA dB : forall a,
  length p = length q -> Forall2 R (combine (seq a (length p)) p) (combine (seq a (length p)) q) ->
  forall i, i < length p -> R (a + i, nth i p dA) (a + i, nth i q dB).
Proof.
  revert q. induction p as [|x p IH]; intros [|y q] a Hl HF i Hi; simpl in *; try lia; try discriminate.
  inversion HF; subst. destruct i as [|i].
  - rewrite Nat.add_0_r. auto.
  - replace (a + S i) with (S a + i) by lia. apply IH; auto; lia.
Qed.

Lemma row_length {A B} (i : nat) (F : nat * A -> list N) (G : nat * B -> list N) (l : list (nat * A)) (l' : list (nat * B)) :
  Forall2 (fun a b => fst a = fst b) l l' ->
  length (flat_map (fun jw => if Nat.eqb i (fst jw) then [] else [F jw]) l)
  = length (flat_map (fun jw => if Nat.eqb i (fst jw) then [] else [G jw]) l').
Proof.
  induction 1 as [|a b l l' E HF IH]; simpl; auto. rewrite !app_length, IH, E.
  destruct (Nat.eqb i (fst b)); reflexivity.
Qed.

Lemma kind_of_l_dom l v : (forall p, In p l -> snd p = KREACTION \/ snd p = KSPECIES) -> In v (map fst l) ->
  kind_of_l l v = KREACTION \/ kind_of_l l v = KSPECIES.
Proof.
  induction l as [|[u k] l IH]; simpl; intros Hk Hv; [contradiction|].
  destruct (N.eqb_spec u v) as [->|Hne].
  - apply (Hk (v, k)). left. reflexivity.
  - apply IH; [intros p I; apply Hk; right; auto|]. destruct Hv as [Hv|Hv]; [congruence|auto].
Qed.

(* ---------------- reading a label ---------------- *)
Theorem label_read g p q : kinds_ok g -> arcs_ok g -> incl p (node_ids g) -> incl q (node_ids g) ->
  label g p = label g q ->
  length p = length q /\
  (forall i, i < length p -> kind_of g (nth i p 0%N) = kind_of g (nth i q 0%N)) /\
  (forall i j, i < length p -> j < length p -> i <> j ->
     find_arc g (nth i p 0%N) (nth j p 0%N) = find_arc g (nth i q 0%N) (nth j q 0%N)).
Proof.
  intros Hk Ha Hp Hq E. unfold label in E.
  assert (Hkind : forall v, In v (node_ids g) -> kind_of g v = KREACTION \/ kind_of g v = KSPECIES).
  { intros v Hv. apply kind_of_l_dom; auto. }
  assert (Pp : forall l, incl l (node_ids g) -> Forall piece (map (fun v => kind_str (kind_of g v)) l)).
  { intros l Hl. apply Forall_forall. intros x Hx. apply in_map_iff in Hx. destruct Hx as (v & <- & Hv).
    split; [apply kind_str_nosep|apply kind_str_nonnil; apply Hkind; apply Hl; auto]. }
  assert (Pb : forall l, Forall piece (edge_bits g l)).
  { intros l. apply Forall_forall. intros x Hx. unfold edge_bits in Hx.
    apply in_flat_map in Hx. destruct Hx as (iv & _ & Hx). apply in_flat_map in Hx. destruct Hx as (jw & _ & Hx).
    destruct (Nat.eqb (fst iv) (fst jw)); [contradiction|]. destruct Hx as [<-|[]]. split; [apply bit_nosep|apply bit_nonnil]. }
  destruct (seg_split _ _ _ _ (Pp p Hp) (Pp q Hq) E) as [E1 E2].
  apply (join_inj_pieces _ _ (Pb p) (Pb q)) in E2.
  assert (Hl : length p = length q).
  { rewrite <- (map_length (fun v => kind_str (kind_of g v)) p), E1, map_length. reflexivity. }
  split; [exact Hl|]. split.
  - intros i Hi. apply kind_str_inj.
    + apply Hkind. apply Hp. apply nth_In. auto.
    + apply Hkind. apply Hq. apply nth_In. lia.
    + pose proof (f_equal (fun l => nth i l []) E1) as En. simpl in En.
      rewrite (nth_indep _ [] (kind_str (kind_of g 0%N))) in En by (rewrite map_length; auto).
      rewrite (nth_indep (map _ q) [] (kind_str (kind_of g 0%N))) in En by (rewrite map_length; lia).
      rewrite !(map_nth (fun v => kind_str (kind_of g v))) in En. exact En.
  - unfold edge_bits, indexed in E2. rewrite <- Hl in E2.
    pose proof (Forall2_fst_combine (seq 0 (length p)) p q Hl) as HF.
    set (ip := combine (seq 0 (length p)) p) in *. set (iq := combine (seq 0 (length p)) q) in *.
    assert (Rows : Forall2 (fun iv iv' =>
              flat_map (fun jw => if Nat.eqb (fst iv) (fst jw) then [] else [bit g (snd iv) (snd jw)]) ip
              = flat_map (fun jw => if Nat.eqb (fst iv') (fst jw) then [] else [bit g (snd iv') (snd jw)]) iq) ip iq).
    { apply flat_map_inj2; auto. eapply Forall2_impl'; [|exact HF]. intros iv iv' Efst. simpl in Efst. rewrite Efst.
      apply row_length. exact HF. }
    intros i j Hi Hj Hij.
    pose proof (Forall2_combine_nth _ p q 0%N 0%N 0 Hl Rows i Hi) as Ri. cbn [fst snd plus] in Ri.
    assert (Cells : Forall2 (fun jw jw' =>
              (if Nat.eqb i (fst jw) then [] else [bit g (nth i p 0%N) (snd jw)])
              = (if Nat.eqb i (fst jw') then [] else [bit g (nth i q 0%N) (snd jw')])) ip iq).
    { apply flat_map_inj2; auto. eapply Forall2_impl'; [|exact HF]. intros jw jw' Efst. simpl in Efst. rewrite Efst.
      destruct (Nat.eqb i (fst jw')); reflexivity. }
    pose proof (Forall2_combine_nth _ p q 0%N 0%N 0 Hl Cells j Hj) as Cj. cbn [fst snd plus] in Cj.
    destruct (Nat.eqb_spec i j) as [->|_]; [congruence|]. inversion Cj as [Eb].
    apply (bit_inj g _ _ _ _ Ha Eb).
Qed.
