(** C03 — clause (b) end to end in the default mode: from conditions on the TEMPLATE alone to conservation in every
    reaction proposed through the explicit-hydrogen path.  Stdlib lists only. *)
From Coq Require Import List NArith ZArith Bool Lia Permutation.
From SK Require Import lib.Tok lib.LGraph model.C03_Model proof.C03_Proof proof.C03_Glue proof.C03_Backward proof.C03_Skeleton
                       proof.C03_StripCounts proof.C03_WiringCount proof.C03_StripExact proof.C03_StripCor proof.C03_DefaultBalance
                       proof.C03_ExplicitH proof.C03_Expand.
Import ListNotations.
Local Open Scope Z_scope.

(** the charge change of the prepared rule is the template's, taken over the kept atoms *)
Theorem default_rule_dQ (tpl rc : its) (l r : molg) :
  nodupb (node_ids tpl) = true -> (forall k a, In (k, a) (gnodes tpl) -> a_el (iH a) = a_el (iG a)) ->
  synrule tpl true = Some (rc, l, r) ->
  exists R : list N,
    (forall h, In h R <-> is_H_i tpl h = true /\ heavy_nbr (side0 iG eG tpl) h = true /\ heavy_nbr (side0 iH eH tpl) h = true) /\
    sumZ dQ rc = sumL dQ (filter (keepn R) (gnodes tpl)).
Proof.
  intros Hnd0 Hel H. destruct (synrule_default_exact tpl rc l r Hnd0 Hel H) as (R & Memb & (KK & _) & _).
  exists R. split; [exact Memb|]. unfold sumZ. clear - KK. induction KK as [|p q l1 l2 (E1 & E2 & E3) _ IH]; [reflexivity|].
  cbn [sumL fold_right]. fold (sumL dQ l1). fold (sumL dQ l2). rewrite IH. f_equal. unfold dQ.
  assert (a_ch (iG (snd p)) = a_ch (iG (snd q))) by (destruct (iG (snd p)), (iG (snd q)); inversion E2; reflexivity).
  assert (a_ch (iH (snd p)) = a_ch (iH (snd q))) by (destruct (iH (snd p)), (iH (snd q)); inversion E3; reflexivity). lia.
Qed.

Theorem default_rule_balanced (tpl rc : its) (l r : molg) :
  nodupb (node_ids tpl) = true -> (forall k a, In (k, a) (gnodes tpl) -> a_el (iH a) = a_el (iG a)) ->
  simple_edgesb (gedges tpl) = true -> synrule tpl true = Some (rc, l, r) -> tpl_condition tpl -> balancedb rc = true.
Proof.
  intros Hnd0 Hel Hs H Hcond.
  destruct (default_rule_H_balanced tpl rc l r Hnd0 Hel Hs H) as (R & K & NR & NK & Memb & HK & HB).
  destruct (default_rule_dQ tpl rc l r Hnd0 Hel H) as (R' & Memb' & HQ).
  destruct (Hcond R K NR NK Memb HK) as [Hval HQ0].
  assert (ER : sumL dQ (filter (keepn R') (gnodes tpl)) = sumL dQ (filter (keepn R) (gnodes tpl))).
  { f_equal. apply filter_ext_all. intros p. unfold keepn. f_equal.
    destruct (mem (fst p) R') eqn:E1, (mem (fst p) R) eqn:E2; try reflexivity.
    - apply mem_spec in E1. apply Memb' in E1. apply Memb in E1. apply mem_spec in E1. congruence.
    - apply mem_spec in E2. apply Memb in E2. apply Memb' in E2. apply mem_spec in E2. congruence. }
  unfold balancedb. rewrite (HB Hval), HQ, ER, HQ0. reflexivity.
Qed.

(** end to end, the two routes of the default mode.  Direct route (the prepared pattern has no explicit hydrogen left, the
    usual case): glue on the substrate, then _explicit_h. *)
Theorem default_end_to_end_direct tpl rc l r host m T T' ms :
  nodupb (node_ids tpl) = true -> (forall k a, In (k, a) (gnodes tpl) -> a_el (iH a) = a_el (iG a)) ->
  simple_edgesb (gedges tpl) = true -> synrule tpl true = Some (rc, l, r) -> tpl_condition tpl ->
  wf_hostb host = true -> wf_rcb rc = true -> match_rcb host rc m = true -> glue host rc m = Some T ->
  explicit_h T = Some (T', ms) ->
  (forall e, elem_count e (fst (its_decompose T')) = elem_count e (snd (its_decompose T'))) /\
  total_charge (fst (its_decompose T')) = total_charge (snd (its_decompose T')) /\
  (forall e, elem_count e (fst (its_decompose T')) = elem_count e (mol_of_host host)) /\
  (forall a b, In a (node_ids host) -> In b (node_ids host) -> bondG T' a b = adj host a b).
Proof.
  intros Hnd0 Hel Hs H Hcond Hwh Hwr Hm Hg He.
  exact (explicit_h_conserve host rc m T T' ms Hwh Hwr Hm Hg (default_rule_balanced tpl rc l r Hnd0 Hel Hs H Hcond) He).
Qed.

(** Expanded route (the prepared pattern keeps explicit hydrogens): expand the matched atoms, glue along a re-match, _explicit_h. *)
Theorem default_end_to_end_expanded tpl rc l r host nodes m T T' ms :
  nodupb (node_ids tpl) = true -> (forall k a, In (k, a) (gnodes tpl) -> a_el (iH a) = a_el (iG a)) ->
  simple_edgesb (gedges tpl) = true -> synrule tpl true = Some (rc, l, r) -> tpl_condition tpl ->
  wf_hostb host = true -> wf_hostb (h_to_explicit host nodes) = true -> wf_rcb rc = true ->
  match_rcb (h_to_explicit host nodes) rc m = true -> glue (h_to_explicit host nodes) rc m = Some T ->
  explicit_h T = Some (T', ms) ->
  (forall e, elem_count e (fst (its_decompose T')) = elem_count e (snd (its_decompose T'))) /\
  total_charge (fst (its_decompose T')) = total_charge (snd (its_decompose T')) /\
  (forall e, elem_count e (fst (its_decompose T')) = elem_count e (mol_of_host host)) /\
  (forall a b, In a (node_ids host) -> In b (node_ids host) -> bondG T' a b = adj host a b).
Proof.
  intros Hnd0 Hel Hs H Hcond Hwh Hwx Hwr Hm Hg He.
  destruct (explicit_path host nodes rc m T T' ms Hwh Hwx Hwr Hm Hg He) as (A & B & C & D).
  destruct (D (default_rule_balanced tpl rc l r Hnd0 Hel Hs H Hcond)) as [D1 D2]. auto.
Qed.
