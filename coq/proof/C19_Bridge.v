(** C19 — facts about the model that the MathComp rank proofs (proof/C19_Rank.v) consume, stated with plain nat indices:
    every column of build_S is (product complex) - (reactant complex) of the reaction's arc in the complex graph, and
    class membership is constant along arcs, with one representative per class.  Style: stdlib lists. *)
From Coq Require Import List NArith ZArith Bool Arith Lia Permutation.
From SK Require Import lib.Reach lib.C17_Farkas model.C17_Model model.C19_Model proof.C17_Proof proof.C19_Complexes proof.C19_Linkage.
Import ListNotations.
Local Open Scope nat_scope.

Definition dummy_rxn : rxn := ([], [], [], []).
Definition col_rxn (net : list rxn) (j : nat) : rxn := nth j (reaction_order net) dummy_rxn.
Definition idx0 (v : list Z) (cs : list (list Z)) : nat := match index_of v cs with Some u => u | None => 0 end.
(** the arc (reactant complex number, product complex number) of the reaction in column j of build_S *)
Definition arc_u (net : list rxn) (iso : list str) (j : nat) : nat :=
  idx0 (cvec Reactant net iso (col_rxn net j)) (fst (complex_graph net iso)).
Definition arc_v (net : list rxn) (iso : list str) (j : nat) : nat :=
  idx0 (cvec Product net iso (col_rxn net j)) (fst (complex_graph net iso)).

Lemma col_rxn_in net j : j < length (reaction_order net) -> In (col_rxn net j) net.
Proof.
  intros H. eapply Permutation_in; [apply reaction_order_perm|]. apply nth_In. exact H.
Qed.

Lemma arc_uv_spec net iso j : j < length (reaction_order net) ->
  let cs := fst (complex_graph net iso) in
  arc_u net iso j < length cs /\ arc_v net iso j < length cs /\
  In (arc_u net iso j, arc_v net iso j) (snd (complex_graph net iso)) /\
  nth (arc_u net iso j) cs [] = cvec Reactant net iso (col_rxn net j) /\
  nth (arc_v net iso j) cs [] = cvec Product net iso (col_rxn net j).
Proof.
  intros H cs. destruct (complex_graph_reaction_arc net iso _ (col_rxn_in net j H)) as (u & v & Hu & Hv & I).
  unfold arc_u, arc_v, idx0. fold cs in Hu, Hv |- *. rewrite Hu, Hv.
  split; [apply (index_of_some _ _ _ Hu)|]. split; [apply (index_of_some _ _ _ Hv)|]. split; [exact I|].
  split; apply index_of_nth; assumption.
Qed.

Lemma cvec_nth ro net iso e i : i < length (species_order net iso) ->
  nth i (cvec ro net iso e) 0%Z = entry ro (bip_arcs net) (nth i (species_order net iso) []) (rid e).
Proof.
  intros H. unfold cvec. apply nth_error_nth.
  apply (map_nth_error (fun s => entry ro (bip_arcs net) s (rid e))). apply nth_error_nth'. exact H.
Qed.

(** column j of the stoichiometric matrix = product complex - reactant complex of the reaction's arc *)
Lemma S_entry_complexes net iso i j :
  i < length (species_order net iso) -> j < length (reaction_order net) ->
  let cs := fst (complex_graph net iso) in
  nth j (nth i (build_S net iso) []) 0%Z = (nth i (nth (arc_v net iso j) cs []) 0 - nth i (nth (arc_u net iso j) cs []) 0)%Z.
Proof.
  intros Hi Hj cs. destruct (arc_uv_spec net iso j Hj) as (_ & _ & _ & Eu & Ev). fold cs in Eu, Ev. rewrite Eu, Ev.
  rewrite !cvec_nth by exact Hi. rewrite build_S_eq.
  apply (@nth_map2 str rxn (fun s e => (entry Product (bip_arcs net) s (rid e) - entry Reactant (bip_arcs net) s (rid e))%Z)).
  - apply nth_error_nth'. exact Hi.
  - unfold col_rxn. apply nth_error_nth'. exact Hj.
Qed.

(* ------------------------------------------------------------------ classes *)

Definition cls (L : list (list N)) (c i : nat) : bool := mem (nn i) (nth c L []).
Definition rep (L : list (list N)) (c : nat) : nat := N.to_nat (hd 0%N (nth c L [])).

Lemma NoDup_app_disjoint {A} (l1 l2 : list A) x : NoDup (l1 ++ l2) -> In x l1 -> In x l2 -> False.
Proof.
  induction l1 as [|a l1 IH]; simpl; intros ND I1 I2; [destruct I1|]. inversion ND; subst.
  destruct I1 as [->|I1]; [|eauto]. apply H1. apply in_or_app. auto.
Qed.
Lemma NoDup_app_tail {A} (l1 l2 : list A) : NoDup (l1 ++ l2) -> NoDup l2.
Proof. induction l1 as [|a l1 IH]; simpl; auto. intros ND. inversion ND; auto. Qed.
Lemma NoDup_concat_disjoint {A} (L : list (list A)) : NoDup (concat L) ->
  forall c c' x, c < c' -> c' < length L -> In x (nth c L []) -> In x (nth c' L []) -> False.
Proof.
  induction L as [|a L IH]; intros ND c c' x Hc Hl I1 I2; simpl in *; [lia|].
  destruct c' as [|c']; [lia|]. destruct c as [|c].
  - apply (NoDup_app_disjoint _ _ x ND I1). apply in_concat. exists (nth c' L []). split; auto. apply nth_In. lia.
  - apply (IH (NoDup_app_tail _ _ ND) c c' x); auto; lia.
Qed.

Section Classes.
Variable arcs : list (nat * nat).
Variable k : nat.
Hypothesis OK : arcs_ok arcs k.
Let L := linkage_classes arcs k.

Lemma cls_arc c u v : c < length L -> In (u, v) arcs -> cls L c u = cls L c v.
Proof.
  intros Hc I. unfold cls. assert (Ic : In (nth c L []) L) by (apply nth_In; exact Hc).
  destruct (linkage_spec arcs k OK) as (_ & _ & _ & Q4). fold L in Q4.
  assert (P : upath arcs u v) by (eapply up_step; [constructor|left; exact I]).
  destruct (mem (nn u) (nth c L [])) eqn:Mu; destruct (mem (nn v) (nth c L [])) eqn:Mv; auto; exfalso.
  - apply mem_spec in Mu. apply (Q4 _ Ic u Mu v) in P. apply mem_spec in P. congruence.
  - apply mem_spec in Mv. apply upath_sym in P. apply (Q4 _ Ic v Mv u) in P. apply mem_spec in P. congruence.
Qed.

Lemma rep_spec c : c < length L -> rep L c < k /\ In (nn (rep L c)) (nth c L []).
Proof.
  intros Hc. assert (Ic : In (nth c L []) L) by (apply nth_In; exact Hc).
  destruct (linkage_spec arcs k OK) as (_ & _ & Q3 & _). fold L in Q3. destruct (Q3 _ Ic) as (_ & NE).
  unfold rep. destruct (nth c L []) as [|h t] eqn:E; [exfalso; apply NE; reflexivity|]. simpl.
  destruct (class_members arcs k OK _ Ic h) as (i & Hi & ->); [left; reflexivity|].
  unfold nn. rewrite Nat2N.id. split; auto.
Qed.

Lemma cls_rep c c' : c < length L -> c' < length L -> cls L c (rep L c') = (c =? c').
Proof.
  intros Hc Hc'. destruct (rep_spec c' Hc') as (_ & I). unfold cls.
  destruct (linkage_spec arcs k OK) as (ND & _ & _ & _). fold L in ND.
  destruct (Nat.eqb_spec c c') as [->|NE].
  - apply mem_spec. exact I.
  - destruct (mem (nn (rep L c')) (nth c L [])) eqn:M; auto. exfalso. apply mem_spec in M.
    destruct (Nat.lt_total c c') as [Lt|[E|Lt]]; [|contradiction|].
    + exact (NoDup_concat_disjoint L ND c c' _ Lt Hc' M I).
    + exact (NoDup_concat_disjoint L ND c' c _ Lt Hc I M).
Qed.
End Classes.

(* ------------------------------------------------------------------ linkage-class deficiencies *)

Lemma cvec_length ro net iso e : length (cvec ro net iso e) = length (species_order net iso).
Proof. unfold cvec. apply map_length. Qed.

Lemma complexes_length net iso v : In v (fst (complex_graph net iso)) -> length v = length (species_order net iso).
Proof.
  pose proof (complex_graph_inv net iso) as H. destruct (complex_graph net iso) as [cs arcs]. simpl.
  destruct H as (_ & Hin & _ & _). intros I. apply Hin in I. destruct I as (e & _ & [-> | ->]); apply cvec_length.
Qed.

Lemma vsub_nth a b i : length a = length b -> nth i (vsub a b) 0%Z = (nth i a 0 - nth i b 0)%Z.
Proof.
  intros E. unfold vsub.
  change 0%Z with ((fun p : Z * Z => (fst p - snd p)%Z) (0%Z, 0%Z)) at 1. rewrite map_nth, combine_nth by exact E. reflexivity.
Qed.

Lemma is_zero_vec_nth d i : is_zero_vec d = true -> nth i d 0%Z = 0%Z.
Proof.
  unfold is_zero_vec. rewrite forallb_forall. intros H.
  destruct (Nat.lt_ge_cases i (length d)) as [Lt|Ge]; [|apply nth_overflow; exact Ge].
  apply Z.eqb_eq. apply H. apply nth_In. exact Lt.
Qed.

(** the difference vectors of the class with number c *)
Definition cdiffs (net : list rxn) (iso : list str) (c : nat) : list (list Z) :=
  let cs := fst (complex_graph net iso) in
  let arcs := snd (complex_graph net iso) in
  class_diffs cs arcs (nth c (linkage_classes arcs (length cs)) []).

(** every column of build_S is zero or one of the difference vectors of some linkage class *)
Lemma column_in_class_diffs net iso j : j < length (reaction_order net) ->
  let m := length (species_order net iso) in
  let L := linkage_classes (snd (complex_graph net iso)) (length (fst (complex_graph net iso))) in
  (forall i, i < m -> nth j (nth i (build_S net iso) []) 0%Z = 0%Z) \/
  exists c t, c < length L /\ t < length (cdiffs net iso c) /\
    forall i, i < m -> nth j (nth i (build_S net iso) []) 0%Z = nth i (nth t (cdiffs net iso c) []) 0%Z.
Proof.
  intros Hj m L. unfold cdiffs. fold L.
  set (cs := fst (complex_graph net iso)) in *. set (arcs := snd (complex_graph net iso)) in *.
  pose proof (complex_graph_arcs_ok net iso) as OK. fold cs arcs in OK.
  destruct (arc_uv_spec net iso j Hj) as (Hu & Hv & Ia & _). fold cs arcs in Hu, Hv, Ia.
  set (u := arc_u net iso j) in *. set (v := arc_v net iso j) in *.
  set (d := vsub (nth v cs []) (nth u cs [])).
  assert (Ed : forall i, i < m -> nth j (nth i (build_S net iso) []) 0%Z = nth i d 0%Z).
  { intros i Hi. rewrite (S_entry_complexes net iso i j Hi Hj). fold cs u v. unfold d. rewrite vsub_nth; auto.
    rewrite !(complexes_length net iso) by (apply nth_In; assumption). reflexivity. }
  destruct (is_zero_vec d) eqn:Z0.
  - left. intros i Hi. rewrite (Ed i Hi). apply is_zero_vec_nth. exact Z0.
  - right. destruct (linkage_spec arcs (length cs) OK) as (_ & Q2 & _ & _). fold L in Q2.
    assert (X : In (nn u) (concat L)) by (apply Q2; eauto).
    apply in_concat in X. destruct X as (cl & Icl & Iu).
    destruct (In_nth L cl [] Icl) as (c & Hc & Ec). exists c.
    assert (Mu : mem (nn u) (nth c L []) = true) by (apply mem_spec; rewrite Ec; exact Iu).
    assert (Mv : mem (nn v) (nth c L []) = true).
    { pose proof (cls_arc arcs (length cs) OK c u v Hc Ia) as E. unfold cls in E. fold L in E. congruence. }
    assert (Id : In d (class_diffs cs arcs (nth c L []))).
    { unfold class_diffs. apply in_flat_map. exists (u, v). split; [exact Ia|]. simpl. rewrite Mu, Mv. simpl.
      fold d. rewrite Z0. left. reflexivity. }
    destruct (In_nth _ _ [] Id) as (t & Ht & Et). exists t. split; auto. split; auto.
    intros i Hi. rewrite Et. apply Ed. exact Hi.
Qed.

(** sum of the class deficiencies *)
Lemma zsum_linkage_deficiencies L : forall ranks, length ranks = length L ->
  zsum (linkage_deficiencies L ranks) = (Z.of_nat (length (concat L)) - Z.of_nat (length L) - Z.of_nat (list_sum ranks))%Z.
Proof.
  unfold linkage_deficiencies. induction L as [|c L IH]; intros [|r ranks] E; simpl in *; try discriminate; auto.
  rewrite IH by lia. rewrite app_length. lia.
Qed.

Lemma NoDup_nodes k : NoDup (nodes k).
Proof. unfold nodes. apply FinFun.Injective_map_NoDup; [intros a b; apply nn_inj | apply seq_NoDup]. Qed.

Lemma concat_classes_length net iso :
  let cs := fst (complex_graph net iso) in
  length (concat (linkage_classes (snd (complex_graph net iso)) (length cs))) = length cs.
Proof.
  intros cs. pose proof (complex_graph_arcs_ok net iso) as OK. fold cs in OK.
  destruct (linkage_spec _ _ OK) as (ND & Q2 & _ & _).
  transitivity (length (nodes (length cs))); [|apply nodes_length]. apply Permutation_length. apply NoDup_Permutation; auto; [apply NoDup_nodes|].
  intros y. rewrite Q2, nodes_in. reflexivity.
Qed.

Definition dummy_cert : rcert := RCert 0 [] [] [] [] 0%Z.

(** what an accepted certificate bundle says *)
Lemma certs_ok_spec net iso rc ccs : certs_ok net iso rc ccs = true ->
  let m := length (species_order net iso) in
  let L := linkage_classes (snd (complex_graph net iso)) (length (fst (complex_graph net iso))) in
  rank_checked m (length (reaction_order net)) (build_S net iso) rc = true /\
  length ccs = length L /\
  forall c, c < length L -> rank_checked (length (cdiffs net iso c)) m (cdiffs net iso c) (nth c ccs dummy_cert) = true.
Proof.
  unfold certs_ok, cdiffs. destruct (complex_graph net iso) as [cs arcs]. simpl.
  intros H. apply andb_prop in H. destruct H as [H H3]. apply andb_prop in H. destruct H as [H1 H2].
  apply Nat.eqb_eq in H2. split; auto. split; auto. intros c Hc.
  rewrite forallb_forall in H3.
  specialize (H3 (nth c (combine (linkage_classes arcs (length cs)) ccs) ([], dummy_cert))).
  rewrite combine_nth in H3 by (symmetry; exact H2). simpl in H3. apply H3.
  rewrite <- combine_nth by (symmetry; exact H2). apply nth_In. rewrite combine_length. lia.
Qed.
