(** C09 — the graph-level core of NormalizeAAM.fit (model/C09_Normalize.v), from C01's theorem about implicit_hydrogen
    (read-only): the hydrogens of the reaction centre stay explicit atoms on both sides, every other atom keeps its element,
    charge, aromaticity, atom_map and its TOTAL number of hydrogens (hcount + explicit hydrogen neighbours). *)
From Coq Require Import List NArith ZArith Bool.
From SK Require Import lib.LGraph model.C01_Model model.C02_Model model.C01_String model.C09_Normalize proof.C01_StringHyd.
Import ListNotations.
Local Open Scope Z_scope.

Theorem normalize_side_spec (X : mgraph) (lh : list Z) : wf X ->
  (* hydrogens whose atom map is in the list stay, unchanged *)
  (forall h a, label X h = Some a -> is_H a = true -> memZ (g_amap a) lh = true -> label (implicit_hydrogen X lh) h = Some a) /\
  (* a hydrogen that is not in the list disappears exactly when it has a non-hydrogen neighbour *)
  (forall h a, label X h = Some a -> is_H a = true -> memZ (g_amap a) lh = false ->
     label (implicit_hydrogen X lh) h = if has_heavy X h then None else Some a) /\
  (* every other atom stays with its element, aromaticity, charge, neighbours, atom_map and hydrogen total *)
  (forall n a, label X n = Some a -> is_H a = false ->
     exists a', label (implicit_hydrogen X lh) n = Some a' /\
       g_hc a' + count_h (implicit_hydrogen X lh) n = g_hc a + count_h X n /\
       g_el a' = g_el a /\ g_arom a' = g_arom a /\ g_ch a' = g_ch a /\ g_nb a' = g_nb a /\ g_amap a' = g_amap a).
Proof.
  intros W. destruct (implicit_hydrogen_spec X lh W) as (HL & _ & HK). split; [|split; [|exact HK]].
  - intros h a L Ha Hm. rewrite HL, L, Ha.
    assert (I : In h (preserved X lh)) by (apply (preserved_spec X lh h W); exists a; auto).
    apply mem_spec in I. rewrite I. reflexivity.
  - intros h a L Ha Hm. rewrite HL, L, Ha.
    assert (I : mem h (preserved X lh) = false).
    { destruct (mem h (preserved X lh)) eqn:E; [|reflexivity]. apply mem_spec in E. apply (preserved_spec X lh h W) in E.
      destruct E as (b & Lb & _ & Mb). rewrite L in Lb. injection Lb as <-. congruence. }
    rewrite I. cbn [orb]. destruct (has_heavy X h); reflexivity.
Qed.

(** NormalizeAAM.fit, graph level: both sides are treated with the SAME list - the hydrogens of the reaction centre *)
Theorem normalize_core_spec (G H : mgraph) : wf G -> wf H ->
  fst (normalize_core G H) = implicit_hydrogen G (list_hydrogen G H) /\
  snd (normalize_core G H) = implicit_hydrogen H (list_hydrogen G H) /\
  (forall z, In z (list_hydrogen G H) <->
     exists n a, In (n, a) (gnodes (get_rc (its_construct G H))) /\ i_el a = EL_H /\ z = i_amap a).
Proof.
  intros WG WH. split; [reflexivity|]. split; [reflexivity|].
  intros z. unfold list_hydrogen, rc_hydrogens. rewrite in_map_iff. split.
  - intros ([n a] & <- & I). apply filter_In in I. destruct I as [I E]. cbn [snd] in *. apply N.eqb_eq in E. exists n, a. auto.
  - intros (n & a & I & E & ->). exists (n, a). split; [reflexivity|]. apply filter_In. split; [exact I|]. cbn [snd]. apply N.eqb_eq. exact E.
Qed.

(** non-vacuity: CH2(H:3)(H:4) + X-X -> CH2(X)(H:4) + H:3-X with the reacting hydrogen H:3 and the spectator hydrogen H:4 explicit *)
Definition ex_NG : mgraph :=
  LG [(1%N, GN 70%N false 2 0 None 1); (3%N, GN EL_H false 0 0 None 3); (4%N, GN EL_H false 0 0 None 4);
      (5%N, GN 19519%N false 0 0 None 5); (6%N, GN 19519%N false 0 0 None 6)]
     [(1%N, 3%N, 2%Z); (1%N, 4%N, 2%Z); (5%N, 6%N, 2%Z)].
Definition ex_NH : mgraph :=
  LG [(1%N, GN 70%N false 2 0 None 1); (3%N, GN EL_H false 0 0 None 3); (4%N, GN EL_H false 0 0 None 4);
      (5%N, GN 19519%N false 0 0 None 5); (6%N, GN 19519%N false 0 0 None 6)]
     [(1%N, 5%N, 2%Z); (1%N, 4%N, 2%Z); (3%N, 6%N, 2%Z)].
Example ex_normalize :
  list_hydrogen ex_NG ex_NH = [3] /\ node_ids (fst (normalize_core ex_NG ex_NH)) = [1%N; 3%N; 5%N; 6%N] /\
  option_map g_hc (label (fst (normalize_core ex_NG ex_NH)) 1%N) = Some 3.
Proof. vm_compute. repeat split. Qed.
