(** C08 — directed inputs: the exact back-end is invariant on DiGraphs (after repair R5b): digraphs that are isomorphic
    AS DIGRAPHS on the covered attributes, however numbered and in whatever order nodes and arcs were inserted, get the
    same canonical digraph and the same serialisation, hence the same signature; together with soundness the signature
    of the exact back-end is equal exactly for isomorphic digraphs.  Mirrors C08_Invariant.v: equality of the minimal
    labels (C08_DEquiv.v), injectivity of the label string that reads BOTH triangles of the matrix ([dnlabel_inj]: two
    leaves with the same label differ by an automorphism of the digraph), [dserialise_dgeq_cov]. *)
From Coq Require Import String List NArith ZArith Bool Arith Lia Permutation.
From SK Require Import lib.LGraph lib.IRSortKeys lib.IRCore lib.IRSearch lib.StrJoin.
From SK Require Import model.C08_Model model.C08_Digraph proof.C08_Spec proof.C08_DSpec proof.C08_Sort proof.C08_Faithful proof.C08_Cov
                       proof.C08_SigFun proof.C08_Render proof.C08_IR proof.C08_Nauty proof.C08_Sound proof.C08_Equiv proof.C08_Invariant
                       proof.C08_DSer proof.C08_DNauty proof.C08_DEquiv.
From SK Require lib.IRInst.
Import ListNotations.

Notation ix p := (apply_map (mapping_of p)).

Lemma drelabel_ext_on f f' (g : graph) : dwf g -> (forall x, In x (node_ids g) -> f x = f' x) -> relabel f g = relabel f' g.
Proof.
  intros (_ & Hend & _) H. unfold relabel. f_equal.
  - apply map_ext_in. intros [k a] I. cbn [fst snd]. rewrite H; auto.
    unfold node_ids. change k with (fst (k, a)). apply in_map. exact I.
  - apply map_ext_in. intros [[a b] x] I. destruct (Hend _ _ _ I) as (Ha & Hb & _). rewrite !H; auto.
Qed.

(* ---------------- two lists walked in lockstep ---------------- *)
Lemma combine_fun_l {A B} (p : list A) : forall (q : list B) a y y', NoDup p ->
  In (a, y) (combine p q) -> In (a, y') (combine p q) -> y = y'.
Proof.
  induction p as [|x p IH]; intros [|z q] a y y' Hn I I'; simpl in *; try contradiction.
  inversion Hn as [|? ? Hx Hn']; subst. destruct I as [E|I], I' as [E'|I'].
  - congruence.
  - inversion E; subst. exfalso. apply Hx. eapply in_combine_l; eauto.
  - inversion E'; subst. exfalso. apply Hx. eapply in_combine_l; eauto.
  - eapply IH; eauto.
Qed.
Lemma combine_fun_r {A B} (p : list A) : forall (q : list B) x x' b, NoDup q ->
  In (x, b) (combine p q) -> In (x', b) (combine p q) -> x = x'.
Proof.
  induction p as [|z p IH]; intros [|y q] x x' b Hn I I'; simpl in *; try contradiction.
  inversion Hn as [|? ? Hy Hn']; subst. destruct I as [E|I], I' as [E'|I'].
  - congruence.
  - inversion E; subst. exfalso. apply Hy. eapply in_combine_r; eauto.
  - inversion E'; subst. exfalso. apply Hy. eapply in_combine_r; eauto.
  - eapply IH; eauto.
Qed.
Lemma filter_lockstep {A B} (P : A -> bool) (Q : B -> bool) (p : list A) : forall (q : list B),
  (forall x y, In (x, y) (combine p q) -> P x = Q y) -> length p = length q ->
  combine (filter P p) (filter Q q) = filter (fun xy => P (fst xy)) (combine p q) /\ length (filter P p) = length (filter Q q).
Proof.
  induction p as [|x p IH]; intros [|y q] H Hl; simpl in *; try discriminate; auto.
  assert (E : P x = Q y) by (apply H; auto).
  destruct (IH q) as [E1 E2]; [intros; apply H; auto|lia|].
  rewrite <- E. destruct (P x); simpl; [rewrite E1; split; [reflexivity|lia]|auto].
Qed.
Lemma in_combine_flat_map {A A' B B'} (f : A -> list B) (f' : A' -> list B') (p : list A) : forall (p' : list A'),
  (forall x x', In (x, x') (combine p p') -> length (f x) = length (f' x')) ->
  forall x x' y y', In (x, x') (combine p p') -> In (y, y') (combine (f x) (f' x')) ->
  In (y, y') (combine (flat_map f p) (flat_map f' p')).
Proof.
  induction p as [|z p IH]; intros [|z' p'] H x x' y y' I J; simpl in *; try contradiction.
  rewrite combine_app_eq by (apply H; auto). apply in_or_app. destruct I as [E|I].
  - inversion E; subst. left. exact J.
  - right. apply (IH p') with (x := x) (x' := x'); auto.
Qed.

Lemma dpairs_combine (p p' : list N) : NoDup p -> NoDup p' -> length p = length p' ->
  forall a a' b b', In (a, a') (combine p p') -> In (b, b') (combine p p') -> a <> b ->
  In ((a, b), (a', b')) (combine (dpairs p) (dpairs p')).
Proof.
  intros Hn Hn' Hl a a' b b' Ia Ib Hne. unfold dpairs.
  assert (LS : forall x x', In (x, x') (combine p p') -> forall y y', In (y, y') (combine p p') ->
                negb (N.eqb y x) = negb (N.eqb y' x')).
  { intros x x' Ix y y' Iy. f_equal. destruct (N.eqb_spec y x) as [->|H1], (N.eqb_spec y' x') as [->|H2]; auto.
    - exfalso. apply H2. eapply (combine_fun_l p p'); eauto.
    - exfalso. apply H1. eapply (combine_fun_r p p'); eauto. }
  apply (in_combine_flat_map (fun x => map (pair x) (filter (fun y => negb (N.eqb y x)) p))
                             (fun x => map (pair x) (filter (fun y => negb (N.eqb y x)) p')) p p') with (x := a) (x' := a').
  - intros x x' Ix. rewrite !map_length. apply (filter_lockstep _ _ p p' (LS x x' Ix) Hl).
  - exact Ia.
  - rewrite combine_map_pair. apply in_map_iff. exists (b, b'). split; [reflexivity|].
    rewrite (proj1 (filter_lockstep _ _ p p' (LS a a' Ia) Hl)). apply filter_In. split; auto.
    cbn [fst]. destruct (N.eqb_spec b a); [congruence|reflexivity].
Qed.

(* ---------------- the label string determines the position-indexed covered digraph ---------------- *)
Lemma dedge_bit_inj g h ab cd : dedge_bit g ab = dedge_bit h cd ->
  option_map ecov (arc g (fst ab) (snd ab)) = option_map ecov (arc h (fst cd) (snd cd)).
Proof. intros E. rewrite !dedge_bit_cov in E. apply EB_inj. exact E. Qed.

Theorem dnlabel_inj g h p q : length p = length q ->
  (forall v, In v p -> el_ok (el (attr_of g v))) -> (forall v, In v q -> el_ok (el (attr_of h v))) ->
  dnlabel g p = dnlabel h q ->
  map (fun v => ncov (attr_of g v)) p = map (fun v => ncov (attr_of h v)) q /\
  map (fun ab => option_map ecov (arc g (fst ab) (snd ab))) (dpairs p)
  = map (fun ab => option_map ecov (arc h (fst ab) (snd ab))) (dpairs q).
Proof.
  intros Hl Hp Hq E.
  destruct p as [|p0 p]; [destruct q; [auto|discriminate]|]. destruct q as [|q0 q]; [discriminate|].
  unfold dnlabel, node_seg in E. change (lit "||"%string) with [124%N; 124%N] in E. cbn [app] in E.
  apply join_prefix_inj in E.
  - destruct E as [E1 E2]. split.
    + revert E1. apply map_transfer. intros x y Hx Hy. apply node_str_inj; auto.
    + inversion E2 as [E3]. clear E2. apply join_inj0 in E3.
      * revert E3. apply map_transfer. intros x y _ _. apply dedge_bit_inj.
      * apply Forall_forall. intros x I. apply in_map_iff in I. destruct I as (c & <- & _). rewrite dedge_bit_cov. apply EB_nosep.
      * apply Forall_forall. intros x I. apply in_map_iff in I. destruct I as (c & <- & _). rewrite dedge_bit_cov. apply EB_nosep.
      * apply Forall_forall. intros x I. apply in_map_iff in I. destruct I as (c & <- & _). rewrite dedge_bit_cov. apply EB_not_nil.
      * apply Forall_forall. intros x I. apply in_map_iff in I. destruct I as (c & <- & _). rewrite dedge_bit_cov. apply EB_not_nil.
  - rewrite !map_length. exact Hl.
  - discriminate.
  - apply Forall_forall. intros x I. apply in_map_iff in I. destruct I as (c & <- & I). rewrite node_str_cov. apply NS_nosep.
    unfold ncov. cbn [fst]. apply Hp. exact I.
  - apply Forall_forall. intros x I. apply in_map_iff in I. destruct I as (c & <- & I). rewrite node_str_cov. apply NS_nosep.
    unfold ncov. cbn [fst]. apply Hq. exact I.
Qed.

Lemma find_arc_in a b (l : list (N * N * eattr)) y : find_arc a b l = Some y -> In (a, b, y) l.
Proof.
  induction l as [|[[c d] x] l IH]; simpl; [discriminate|].
  destruct (N.eqb_spec c a) as [->|H1], (N.eqb_spec d b) as [->|H2]; simpl; try (intros H; right; apply IH; exact H).
  intros [= ->]. left. reflexivity.
Qed.
Lemma find_arc_first a b x (l : list (N * N * eattr)) : NoDup (map (fun e : N * N * eattr => fst e) l) -> In (a, b, x) l -> find_arc a b l = Some x.
Proof.
  induction l as [|[[c d] y] l IH]; simpl; intros Hn I; [contradiction|]. inversion Hn as [|? ? Hk Hn']; subst.
  destruct I as [E|I].
  - inversion E; subst. rewrite !N.eqb_refl. reflexivity.
  - destruct (N.eqb_spec c a) as [->|H1], (N.eqb_spec d b) as [->|H2]; simpl; try (apply IH; auto).
    exfalso. apply Hk. change (a, b) with (fst (a, b, x)). apply (in_map (fun e : N * N * eattr => fst e)). exact I.
Qed.
Lemma in_dcov_edges (g : graph) c : In c (dcov_edges g) <-> exists a b x, In (a, b, x) (gedges g) /\ c = (a, b, ecov x).
Proof.
  unfold dcov_edges. rewrite in_map_iff. split.
  - intros ([[a b] x] & E & I). exists a, b, x. auto.
  - intros (a & b & x & I & E). exists (a, b, x). auto.
Qed.

(* ---------------- two leaves with the same label give the same covered canonical digraph ---------------- *)
Section DSameLabel.
Variable g : graph.
Hypothesis Hg : dwf g.
Hypothesis Eg : els_ok g.

Lemma dwf_arc a b x : In (a, b, x) (gedges g) -> arc g a b = Some x.
Proof. intros I. unfold arc. apply find_arc_first; auto. apply Hg. Qed.

Definition dzrel (p p' : list N) : Prop :=
  (forall a a', In (a, a') (combine p p') -> ncov (attr_of g a) = ncov (attr_of g a')) /\
  (forall a a' b b', In (a, a') (combine p p') -> In (b, b') (combine p p') -> a <> b ->
     option_map ecov (arc g a b) = option_map ecov (arc g a' b')).

Lemma dlabel_zrel p p' : NoDup p -> NoDup p' -> length p = length p' -> dnlabel g p = dnlabel g p' -> dzrel p p'.
Proof.
  intros Hn Hn' Hl E.
  destruct (dnlabel_inj g g p p' Hl (fun v _ => attr_el_ok g Eg v) (fun v _ => attr_el_ok g Eg v) E) as [E1 E2]. split.
  - intros a a' I. exact (map_eq_combine _ _ _ _ E1 a a' I).
  - intros a a' b b' Ia Ib Hne.
    exact (map_eq_combine _ _ _ _ E2 _ _ (dpairs_combine p p' Hn Hn' Hl a a' b b' Ia Ib Hne)).
Qed.

Lemma dhalf p p' : Permutation p (node_ids g) -> Permutation p' (node_ids g) -> dzrel p p' ->
  (forall c, In c (cov_nodes (relabel (ix p) g)) -> In c (cov_nodes (relabel (ix p') g))) /\
  (forall c, In c (dcov_edges (relabel (ix p) g)) -> In c (dcov_edges (relabel (ix p') g))).
Proof.
  intros Hp Hp' [Z1 Z2].
  pose proof (proj1 Hg) as Hnd.
  assert (Hn : NoDup p) by (eapply Permutation_NoDup; [apply Permutation_sym; exact Hp|exact Hnd]).
  assert (Hn' : NoDup p') by (eapply Permutation_NoDup; [apply Permutation_sym; exact Hp'|exact Hnd]).
  assert (Hl : length p = length p') by (rewrite (Permutation_length Hp), (Permutation_length Hp'); reflexivity).
  assert (Hex : forall a, In a (node_ids g) -> exists a', In (a, a') (combine p p') /\ In a' (node_ids g) /\ ix p a = ix p' a').
  { intros a Ia. apply (Permutation_in _ (Permutation_sym Hp)) in Ia. destruct (in_combine_ex p p' a Hl Ia) as (a' & I).
    exists a'. split; auto. split; [apply (Permutation_in _ Hp'); eapply in_combine_r; eauto|apply ix_combine; auto]. }
  split.
  - intros c I. rewrite cov_nodes_relabel in *. apply in_map_iff in I. destruct I as (d & <- & I).
    unfold cov_nodes in I. apply in_map_iff in I. destruct I as ([a att] & <- & I).
    assert (Ia : In a (node_ids g)) by (unfold node_ids; change a with (fst (a, att)); apply in_map; exact I).
    destruct (Hex a Ia) as (a' & Iz & Ia' & Ei).
    unfold node_ids in Ia'. apply in_map_iff in Ia'. destruct Ia' as ([a2 att'] & E2 & I'). cbn [fst] in E2. subst a2.
    apply in_map_iff. exists (covn (a', att')). split.
    + unfold rn, covn. cbn [fst snd]. rewrite <- Ei. f_equal.
      pose proof (Z1 a a' Iz) as H.
      pose proof (attr_of_in g (a, att) Hnd I) as H1. pose proof (attr_of_in g (a', att') Hnd I') as H2.
      cbn [fst snd] in H1, H2. rewrite H1, H2 in H. symmetry. exact H.
    + unfold cov_nodes. apply in_map. exact I'.
  - intros c I. apply in_dcov_edges in I. destruct I as (u & v & x & I & ->).
    unfold relabel in I. cbn [gedges] in I. apply in_map_iff in I. destruct I as ([[a b] x0] & E & I). inversion E; subst. clear E.
    destruct Hg as (_ & Hend & _). destruct (Hend _ _ _ I) as (Ia & Ib & Hne).
    destruct (Hex a Ia) as (a' & Iza & Ia' & Eia). destruct (Hex b Ib) as (b' & Izb & Ib' & Eib).
    pose proof (Z2 a a' b b' Iza Izb Hne) as H. rewrite (dwf_arc a b x I) in H. cbn [option_map] in H.
    destruct (arc g a' b') as [y|] eqn:Ey; [|discriminate]. cbn [option_map] in H. assert (Hxy : ecov x = ecov y) by congruence.
    unfold arc in Ey. apply find_arc_in in Ey.
    apply in_dcov_edges. exists (ix p' a'), (ix p' b'), y. split.
    + unfold relabel. cbn [gedges]. apply in_map_iff. exists (a', b', y). auto.
    + rewrite Eia, Eib, Hxy. reflexivity.
Qed.

Theorem dsame_label_dgeq_cov p p' : Permutation p (node_ids g) -> Permutation p' (node_ids g) ->
  dnlabel g p = dnlabel g p' -> dgeq_cov (relabel (ix p) g) (relabel (ix p') g).
Proof.
  intros Hp Hp' E.
  pose proof (proj1 Hg) as Hnd.
  assert (Hn : NoDup p) by (eapply Permutation_NoDup; [apply Permutation_sym; exact Hp|exact Hnd]).
  assert (Hn' : NoDup p') by (eapply Permutation_NoDup; [apply Permutation_sym; exact Hp'|exact Hnd]).
  assert (Hl : length p = length p') by (rewrite (Permutation_length Hp), (Permutation_length Hp'); reflexivity).
  destruct (dhalf p p' Hp Hp' (dlabel_zrel p p' Hn Hn' Hl E)) as [A1 A2].
  destruct (dhalf p' p Hp' Hp (dlabel_zrel p' p Hn' Hn (eq_sym Hl) (eq_sym E))) as [B1 B2].
  assert (S1 : dsimple (relabel (ix p) g)).
  { apply dsimple_relabel; auto. apply inj_on_same. eapply inj_on_perm; [exact Hp|]. apply mapping_of_inj. exact Hn. }
  assert (S2 : dsimple (relabel (ix p') g)).
  { apply dsimple_relabel; auto. apply inj_on_same. eapply inj_on_perm; [exact Hp'|]. apply mapping_of_inj. exact Hn'. }
  split; apply NoDup_Permutation.
  - apply (NoDup_map_inv fst). rewrite <- node_ids_cov. apply S1.
  - apply (NoDup_map_inv fst). rewrite <- node_ids_cov. apply S2.
  - intros c. split; auto.
  - apply (NoDup_map_inv fst). apply S1.
  - apply (NoDup_map_inv fst). apply S2.
  - intros c. split; auto.
Qed.
End DSameLabel.

Notation dlvs k := (leaves2 _ lexleb (dsigN k) (rfuel k) (children k) (sfuel k) (init_partition k) []).
Lemma dleaf_perm (k : graph) p : NoDup (node_ids k) -> In p (dlvs k) -> Permutation p (node_ids k).
Proof.
  intros Hnd Hin.
  apply (leaves2_perm _ lexleb IRInst.lexleb_total IRInst.lexleb_trans IRInst.lexleb_antisym (dsigN k) (rfuel k) (children k)
           (children_perm k) (node_ids k) Hnd _ _ _ _ (init_vpart k)) in Hin; auto.
  split; [constructor|intros x []].
Qed.

(* ---------------- the invariance theorem for digraphs ---------------- *)
Theorem dnauty_invariant g h : dwf g -> dwf h -> els_ok g -> diso_cov g h ->
  dgeq_cov (dcanon_nauty g) (dcanon_nauty h) /\ dserialise (dcanon_nauty g) = dserialise (dcanon_nauty h).
Proof.
  intros Hg Hh Eg (f & Hf & Hq0).
  set (pi := extend f (node_ids g)).
  assert (pi_inj : forall x y, pi x = pi y -> x = y) by (apply extend_inj; exact Hf).
  assert (Hq : dgeq_cov (relabel pi g) h).
  { rewrite (drelabel_ext_on pi f g Hg); auto. intros x I. apply extend_on. exact I. }
  pose proof (proj1 Hg) as Ng. pose proof (proj1 Hh) as Nh.
  destruct (dnauty_perm_leaf g Ng) as [Lp Ep]. destruct (dnauty_perm_leaf h Nh) as [Lq Eq].
  pose proof (dnauty_label_rel pi pi_inj g h Hg Hq) as El. rewrite Ep, Eq in El. inversion El as [El'].
  pose proof (dleaves_rel pi pi_inj g h Hg Hq) as HL.
  apply (Permutation_in _ (Permutation_sym HL)) in Lq. apply in_map_iff in Lq. destruct Lq as (p' & Eq' & Lp').
  set (p := dnauty_perm g) in *. set (q := dnauty_perm h) in *.
  assert (Elab : dnlabel g p = dnlabel g p') by (rewrite <- El', <- Eq'; apply (dnlabel_rel pi pi_inj g h Hg Hq)).
  pose proof (dleaf_perm g p Ng Lp) as Pp. pose proof (dleaf_perm g p' Ng Lp') as Pp'.
  assert (C : dgeq_cov (dcanon_nauty g) (dcanon_nauty h)).
  { unfold dcanon_nauty. fold p q.
    eapply dgeq_cov_trans; [apply (dsame_label_dgeq_cov g Hg Eg p p' Pp Pp' Elab)|].
    apply dgeq_cov_sym.
    eapply dgeq_cov_trans; [apply relabel_dgeq_cov; apply dgeq_cov_sym; exact Hq|].
    rewrite relabel_compose. rewrite (drelabel_ext_on _ (ix p') g Hg); [apply dgeq_cov_refl|].
    intros x _. rewrite <- Eq'. apply ix_map. exact pi_inj. }
  split; [exact C|].
  apply dserialise_dgeq_cov; [|exact C].
  unfold dcanon_nauty. apply dsimple_relabel; auto.
  apply inj_on_same. eapply inj_on_perm; [exact Pp|]. apply mapping_of_inj.
  eapply Permutation_NoDup; [apply Permutation_sym; exact Pp|exact Ng].
Qed.

Theorem dsignature_invariant_nauty (D : Type) (digest : str -> D) g h : dwf g -> dwf h -> els_ok g -> diso_cov g h ->
  dgeq_cov (dcanon_nauty g) (dcanon_nauty h) /\ digest (dserialise (dcanon_nauty g)) = digest (dserialise (dcanon_nauty h)).
Proof. intros Hg Hh Eg Hi. destruct (dnauty_invariant g h Hg Hh Eg Hi) as [H1 H2]. split; auto. f_equal. exact H2. Qed.

Theorem dsignature_sound_nauty (D : Type) (digest : str -> D) g h : dwf g -> dwf h -> els_ok g -> els_ok h ->
  (digest (dserialise (dcanon_nauty g)) = digest (dserialise (dcanon_nauty h)) ->
   dserialise (dcanon_nauty g) = dserialise (dcanon_nauty h)) ->
  digest (dserialise (dcanon_nauty g)) = digest (dserialise (dcanon_nauty h)) -> diso_cov g h.
Proof.
  intros Hg Hh Eg Eh Hd E. apply (dsound_faithful g h (dcanon_nauty g) (dcanon_nauty h)); auto.
  - apply faithful_dnauty. apply Hg.
  - apply faithful_dnauty. apply Hh.
Qed.

(* the signature of the exact back-end on digraphs: equal exactly for isomorphic digraphs (what SynGraph / CanonicalGraph compare) *)
Theorem dsignature_exact_nauty (D : Type) (digest : str -> D) g h : dwf g -> dwf h -> els_ok g -> els_ok h ->
  (digest (dser_nauty g) = digest (dser_nauty h) -> dser_nauty g = dser_nauty h) ->
  (digest (dser_nauty g) = digest (dser_nauty h) <-> diso_cov g h).
Proof.
  intros Hg Hh Eg Eh Hd. split.
  - intros E. apply (dsignature_sound_nauty D digest g h); auto.
  - intros Hi. apply (dsignature_invariant_nauty D digest g h); auto.
Qed.

(* non-vacuity: dn_h (C08_DNauty.v) is dn_g with 3 and 4 exchanged and re-inserted - the witness of repair R5b; the
   transposed digraph is NOT isomorphic to it (one source of out-degree 2 against one sink of in-degree 2) *)
Definition dn_f (x : N) : N := if N.eqb x 3 then 4%N else if N.eqb x 4 then 3%N else x.
Definition dn_t : graph :=
  LG (gnodes dn_g) [(2%N, 1%N, EA 2 None); (4%N, 1%N, EA 2 None); (3%N, 2%N, EA 2 None)].
Ltac dwf_small :=
  split; [repeat constructor; simpl; intuition discriminate|]; split;
  [ intros a b x I; simpl in I; repeat (destruct I as [I|I]; [inversion I; subst; simpl; intuition discriminate|]); contradiction
  | repeat constructor; simpl; intuition discriminate ].
Example dinv_ex : dwf dn_g /\ dwf dn_h /\ els_ok dn_g /\ diso_cov dn_g dn_h
                  /\ dser_nauty dn_g = dser_nauty dn_h /\ dser_nauty dn_g <> dser_nauty dn_t.
Proof.
  split; [dwf_small|]. split; [dwf_small|]. split; [intros p [<-|[<-|[<-|[<-|[]]]]]; reflexivity|]. split; [|split].
  - exists dn_f. split.
    + intros x y Hx Hy. simpl in Hx, Hy.
      destruct Hx as [<-|[<-|[<-|[<-|[]]]]], Hy as [<-|[<-|[<-|[<-|[]]]]]; vm_compute; intros E; try reflexivity; discriminate.
    + split; vm_compute; apply Permutation_refl.
  - vm_compute. reflexivity.
  - vm_compute. discriminate.
Qed.

(* why repair R5b was needed: the label before the repair read only the arcs p_i -> p_j with i < j.  Two orderings of
   dn_g with the same such label (no arc points forwards in either) give different canonical digraphs *)
Definition old_dlabel (g : graph) (p : list N) : str :=
  node_seg g p ++ lit "||"%string ++ join 124%N (map (dedge_bit g) (pairs p)).
Example old_label_blind :
  old_dlabel dn_g [3%N; 4%N; 2%N; 1%N] = old_dlabel dn_g [4%N; 3%N; 2%N; 1%N]
  /\ dserialise (relabel (ix [3%N; 4%N; 2%N; 1%N]) dn_g) <> dserialise (relabel (ix [4%N; 3%N; 2%N; 1%N]) dn_g)
  /\ dnlabel dn_g [3%N; 4%N; 2%N; 1%N] <> dnlabel dn_g [4%N; 3%N; 2%N; 1%N].
Proof. split; [vm_compute; reflexivity|]. split; vm_compute; discriminate. Qed.

Print Assumptions dnauty_invariant.
Print Assumptions dsignature_exact_nauty.
