(** C16 — reaction strings: printing a network and parsing the lines back gives the same multiset of reactions. *)
From stdpp Require Import gmap strings sets pretty sorting.
From Coq Require Import Ascii.
From SK Require Import lib.Tok model.C15_Model proof.C15_Proof model.C16_Model proof.C16_Defs proof.C16_Chars.
Local Open Scope string_scope.
Local Open Scope list_scope.

(** * more text lemmas *)
Lemma split_first_app P x a y : Forall (λ c, P c = false) x → P a = true → split_first P (x ++ a :: y) = (x, y).
Proof. induction 1 as [|c x Hc _ IH]; intros Ha; simpl; [by rewrite Ha|]. by rewrite Hc, IH. Qed.

Lemma split_arrow_cons a b t :
  split_arrow (a :: b :: t) = if is_char ">" a && is_char ">" b then Some ([], t)
                              else (λ p : chars * chars, (a :: p.1, p.2)) <$> split_arrow (b :: t).
Proof. reflexivity. Qed.
Lemma split_arrow_app x y : Forall (λ c, is_char ">" c = false) x →
  split_arrow (x ++ ">"%char :: ">"%char :: y) = Some (x, y).
Proof.
  induction 1 as [|c x Hc Hx IH]; [done|].
  change ((c :: x) ++ ">"%char :: ">"%char :: y) with (c :: (x ++ ">"%char :: ">"%char :: y)).
  destruct (x ++ ">"%char :: ">"%char :: y) as [|b t] eqn:E; [by destruct x|].
  rewrite split_arrow_cons, Hc. cbn [andb]. rewrite IH. done.
Qed.

Lemma edge_clean_app x m y : edge_clean x → edge_clean y → edge_clean (x ++ m ++ y).
Proof.
  intros [(a & t & -> & Ha) _] [_ (t' & b & -> & Hb)]. split.
  - by exists a, (t ++ m ++ t' ++ [b]).
  - exists ((a :: t) ++ m ++ t'), b. split; [|done]. by rewrite <-!(assoc_L (++)).
Qed.

Lemma rule_search_hit l g : rule_at l = Some g → rule_search l = Some g.
Proof.
  intros Hg. destruct l as [|a l]; [done|].
  change (rule_search (a :: l)) with (match rule_at (a :: l) with Some g => Some g | None => rule_search l end).
  by rewrite Hg.
Qed.

(** * one printed line *)
Definition arrow_sep : chars := to_chars " >> ".
Definition id_tail (ii : bool) (e : string) : chars := if ii then to_chars " id=" ++ to_chars e else [].
Definition line_chars (ii : bool) (e : string) (rx : rxn) : chars :=
  side_chars (r_lhs rx) ++ arrow_sep ++ side_chars (r_rhs rx) ++ to_chars " | " ++ to_chars "rule=" ++ to_chars (r_rule rx)
  ++ id_tail ii e.

Lemma fmt_line_chars ii e rx : r_rule rx ≠ "" → to_chars (fmt_line true ii e rx) = line_chars ii e rx.
Proof.
  intros Hr. unfold fmt_line, line_chars, id_tail, side_chars, arrow_sep.
  rewrite bool_decide_eq_false_2 by done. simpl negb. cbn [andb]. cbv iota.
  destruct ii; cbn [app]; rewrite !to_chars_app, to_of_chars; cbn [fmap list_fmap join]; rewrite !to_chars_app;
    rewrite <-?(assoc_L (++)); try done.
  by rewrite app_nil_r.
Qed.

Definition rxn_ok (rx : rxn) : Prop :=
  valid_rule (r_rule rx) = true ∧ side_labels_ok (r_lhs rx) = true ∧ side_labels_ok (r_rhs rx) = true ∧
  rxn_empty rx = false.

Lemma valid_rule_chars r : valid_rule r = true →
  ∃ t b, to_chars r = t ++ [b] ∧ Forall (λ a, negb (py_space a) = true) (t ++ [b]) ∧ r ≠ "".
Proof.
  unfold valid_rule. intros Hall.
  assert (to_chars r ≠ []) as Hne by (by destruct (to_chars r)).
  assert (Forall (λ a, negb (py_space a) = true) (to_chars r)) as HF.
  { apply Forall_forall. intros c Hc. destruct (to_chars r); [done|].
    rewrite forallb_forall in Hall. apply elem_of_list_In, Hall in Hc. by apply andb_true_iff in Hc as [_ ?]. }
  destruct (exists_last Hne) as (t & b & E). exists t, b. rewrite <-E. split_and!; [done|done|].
  intros ->. done.
Qed.

Lemma rule_search_meta ii e r : valid_rule r = true →
  rule_search (strip ([" "%char] ++ to_chars "rule=" ++ to_chars r ++ id_tail ii e)) = Some (to_chars r).
Proof.
  intros (t & b & Hr & Hns & _)%valid_rule_chars. apply rule_search_hit.
  assert (py_space b = false) as Hb.
  { apply Forall_app in Hns as [_ Hb]. apply Forall_inv in Hb. by apply negb_true_iff. }
  assert (∃ z, strip ([" "%char] ++ to_chars "rule=" ++ to_chars r ++ id_tail ii e)
               = to_chars "rule=" ++ (t ++ [b]) ++ z ∧ (z = [] ∨ ∃ z', z = " "%char :: z')) as (z & -> & Hz).
  { unfold strip, lstrip. simpl drop_while. rewrite Hr.
    change ("r"%char :: "u"%char :: "l"%char :: "e"%char :: "="%char :: (t ++ [b]) ++ id_tail ii e)
      with (to_chars "rule=" ++ (t ++ [b]) ++ id_tail ii e).
    rewrite <-(assoc_L (++) t [b]). rewrite (assoc_L (++) (to_chars "rule=") t). simpl ([b] ++ _).
    rewrite rstrip_app_nonspace by done. destruct ii; unfold id_tail.
    - change (to_chars " id=" ++ to_chars e) with (to_chars " id" ++ "="%char :: to_chars e).
      rewrite rstrip_app_nonspace by done. eexists. split.
      + rewrite <-!(assoc_L (++)). simpl. reflexivity.
      + right. by eexists.
    - exists []. split; [|by left]. unfold rstrip. simpl. by rewrite <-!(assoc_L (++)).  }
  simpl. rewrite <-(assoc_L (++)).
  assert (take_while (λ a, negb (py_space a)) (t ++ [b] ++ z) = t ++ [b]) as Htw.
  { rewrite (assoc_L (++)). destruct Hz as [->|[z' ->]].
    - rewrite app_nil_r. by apply take_while_all.
    - by apply take_while_app. }
  assert (∃ a0 l0, t ++ [b] ++ z = a0 :: l0 ∧ py_space a0 = false) as (a0 & l0 & E0 & Ha0).
  { destruct t as [|a0 t]; simpl; [by eauto|]. eexists _, _. split; [done|].
    apply Forall_inv in Hns. by apply negb_true_iff. }
  rewrite E0. simpl. rewrite Ha0. rewrite <-E0, Htw. rewrite Hr. by destruct t.
Qed.

Lemma add_generated_ok s l r rule : rxn_empty (Rxn (norm_rule rule) l r) = false →
  ∃ s' e, add s l r rule None = (s', None, e) ∧ edges s !! e = None ∧
          edges s' = <[ e := Rxn (norm_rule rule) l r ]> (edges s).
Proof.
  intros Hem. unfold add. destruct (next_id s (norm_rule rule)) as [[c e]|] eqn:Hid; [|by apply next_id_total in Hid].
  rewrite Hem. eexists _, e. split; [done|]. split; [by eapply next_id_fresh|done].
Qed.

Lemma add_from_str_line s ii e rx : rxn_ok rx →
  ∃ s' e', add_from_str s (of_chars (line_chars ii e rx)) None true = (s', None) ∧ edges s !! e' = None ∧
           edges s' = <[ e' := rx ]> (edges s).
Proof.
  intros (Hrule & Hl & Hr & Hem).
  pose proof (side_chars_edge_clean _ Hl) as HLc. pose proof (side_chars_edge_clean _ Hr) as HRc.
  pose proof (side_chars_bar_gt_free _ Hl) as HLf. pose proof (side_chars_bar_gt_free _ Hr) as HRf.
  destruct (valid_rule_chars _ Hrule) as (_ & _ & _ & _ & Hrne).
  unfold add_from_str. rewrite to_of_chars. cbn [andb].
  set (X := side_chars (r_lhs rx) ++ arrow_sep ++ side_chars (r_rhs rx)).
  assert (line_chars ii e rx = (X ++ [" "%char]) ++ "|"%char :: ([" "%char] ++ to_chars "rule=" ++ to_chars (r_rule rx) ++ id_tail ii e)) as ->.
  { unfold line_chars, X. rewrite <-!(assoc_L (++)). done. }
  rewrite bool_decide_eq_true_2 by (apply elem_of_app; right; left).
  rewrite split_first_app; [| |done].
  2:{ unfold X. rewrite !Forall_app. split_and!.
      - eapply Forall_impl; [exact HLf|]. by intros a [? _].
      - by repeat constructor.
      - eapply Forall_impl; [exact HRf|]. by intros a [? _].
      - by repeat constructor. }
  rewrite rule_search_meta by done. cbn [fmap option_fmap option_map]. rewrite of_to_chars.
  replace (strip (X ++ [" "%char])) with X.
  2:{ symmetry. apply (strip_pad [] X [" "%char]); [constructor|by repeat constructor|]. by apply edge_clean_app. }
  unfold X, arrow_sep.
  change (to_chars " >> ") with ([" "%char] ++ ">"%char :: ">"%char :: [" "%char]).
  replace (side_chars (r_lhs rx) ++ ([" "%char] ++ ">"%char :: ">"%char :: [" "%char]) ++ side_chars (r_rhs rx))
    with ((side_chars (r_lhs rx) ++ [" "%char]) ++ ">"%char :: ">"%char :: ([" "%char] ++ side_chars (r_rhs rx))).
  2:{ rewrite <-!(assoc_L (++)). done. }
  rewrite split_arrow_app.
  2:{ rewrite Forall_app. split; [|by repeat constructor]. eapply Forall_impl; [exact HLf|]. by intros a [_ ?]. }
  pose proof (from_chars_side _ [] [" "%char] Hl ltac:(constructor) ltac:(by repeat constructor)) as HL.
  rewrite app_nil_l in HL. rewrite HL.
  pose proof (from_chars_side _ [" "%char] [] Hr ltac:(by repeat constructor) ltac:(constructor)) as HR.
  rewrite app_nil_r in HR. rewrite HR. cbn [default].
  unfold id. destruct (add_generated_ok s (r_lhs rx) (r_rhs rx) (r_rule rx)) as (s' & e' & -> & Hfresh & Hedges).
  { by destruct rx. }
  exists s', e'. split; [done|]. split; [done|]. rewrite Hedges, norm_rule_id by done. by destruct rx.
Qed.

(** a printed line carries its rule in the suffix: parse_rxns does not fall back to its default rule *)
Lemma suffix_rule_line ii e rx : rxn_ok rx → suffix_rule (of_chars (line_chars ii e rx)) = Some (to_chars (r_rule rx)).
Proof.
  intros (Hrule & Hl & Hr & Hem).
  pose proof (side_chars_bar_gt_free _ Hl) as HLf. pose proof (side_chars_bar_gt_free _ Hr) as HRf.
  unfold suffix_rule. rewrite to_of_chars. cbv zeta.
  set (X := side_chars (r_lhs rx) ++ arrow_sep ++ side_chars (r_rhs rx)).
  assert (line_chars ii e rx = (X ++ [" "%char]) ++ "|"%char :: ([" "%char] ++ to_chars "rule=" ++ to_chars (r_rule rx) ++ id_tail ii e)) as ->.
  { unfold line_chars, X. rewrite <-!(assoc_L (++)). done. }
  rewrite bool_decide_eq_true_2 by (apply elem_of_app; right; left).
  rewrite split_first_app; [| |done].
  2:{ unfold X. rewrite !Forall_app. split_and!.
      - eapply Forall_impl; [exact HLf|]. by intros a [? _].
      - by repeat constructor.
      - eapply Forall_impl; [exact HRf|]. by intros a [? _].
      - by repeat constructor. }
  cbn [snd]. by apply rule_search_meta.
Qed.
Lemma rule_or_default_line ii e rx dr : rxn_ok rx → rule_or_default (of_chars (line_chars ii e rx)) dr = None.
Proof. intros Hok. unfold rule_or_default. by rewrite (suffix_rule_line ii e rx Hok). Qed.

(** * the whole network *)
Lemma parse_printed_items ii (items : list (string * rxn)) : Forall (λ p, rxn_ok p.2) items → ∀ s dr pf,
  ∃ s', parse_rxns s ((λ p, of_chars (line_chars ii p.1 p.2)) <$> items) dr true pf = (s', None) ∧
        rxns_of s' ≡ₚ items.*2 ++ rxns_of s.
Proof.
  induction 1 as [|[e rx] items Hok _ IH]; intros s dr pf.
  - exists s. done.
  - unfold parse_rxns. cbn [fmap list_fmap foldl].
    destruct (add_from_str_line s ii e rx Hok) as (s1 & e1 & Hadd & Hfresh & Hedges). cbn [fst snd].
    rewrite (rule_or_default_line ii e rx dr Hok), Hadd.
    destruct (IH s1 dr pf) as (s' & Hparse & Hperm). exists s'. split; [exact Hparse|].
    rewrite Hperm. unfold rxns_of at 1. rewrite Hedges, map_to_list_insert by done. simpl.
    unfold rxns_of. by rewrite Permutation_middle.
Qed.

Lemma edge_seq_perm H : wf_order H → edge_seq H ≡ₚ map_to_list (edges H).
Proof.
  intros [Hnd Hdom].
  assert (∀ e, e ∈ order H → is_Some (edges H !! e)) as Hall.
  { intros e He. apply elem_of_dom. rewrite <-Hdom. by apply elem_of_list_to_set. }
  apply NoDup_Permutation.
  - apply (NoDup_fmap_1 fst). by rewrite edge_seq_fst.
  - apply NoDup_map_to_list.
  - intros [e rx]. rewrite elem_of_edge_seq, elem_of_map_to_list. split; [by intros [_ ?]|].
    intros He. split; [|done].
    assert (e ∈ (list_to_set (order H) : gset string)) as Hin by (rewrite Hdom; by apply elem_of_dom).
    by apply elem_of_list_to_set in Hin.
Qed.

Lemma strings_roundtrip (H : net) (include_id sort prefer_suffix : bool) (default_rule : string) :
  wf16 H → strings_domain H = true →
  (rxns_to_hypergraph (hypergraph_to_rxn_strings H true include_id sort) default_rule true prefer_suffix).2 = None ∧
  rxns_of (rxns_to_hypergraph (hypergraph_to_rxn_strings H true include_id sort) default_rule true prefer_suffix).1
    ≡ₚ rxns_of H.
Proof.
  intros (Hwf & _ & Hord & _) Hdom. unfold strings_domain in Hdom. rewrite bool_decide_eq_true in Hdom.
  unfold rxns_to_hypergraph, hypergraph_to_rxn_strings.
  set (items := if sort then sort_by_key (map_to_list (edges H)) else edge_seq H).
  assert (items ≡ₚ map_to_list (edges H)) as Hperm.
  { unfold items. destruct sort; [apply merge_sort_Permutation|by apply edge_seq_perm]. }
  assert (Forall (λ p, rxn_ok p.2) items) as Hok.
  { apply Forall_forall. intros [e rx] Hin. rewrite Hperm in Hin. apply elem_of_map_to_list in Hin.
    destruct (Hdom e rx Hin) as (? & ? & ?). destruct (Hwf e rx Hin) as [? _]. done. }
  assert ((λ p : string * rxn, fmt_line true include_id p.1 p.2) <$> items
          = (λ p, of_chars (line_chars include_id p.1 p.2)) <$> items) as ->.
  { apply Forall_fmap_ext. apply Forall_forall. intros [e rx] Hin. rewrite Hperm in Hin. apply elem_of_map_to_list in Hin.
    destruct (Hwf e rx Hin) as [_ Hr]. simpl. by rewrite <-fmt_line_chars, of_to_chars. }
  destruct (parse_printed_items include_id items Hok empty_net default_rule prefer_suffix) as (s' & -> & Hp).
  split; [done|]. simpl. rewrite Hp. unfold rxns_of at 1. simpl. rewrite map_to_list_empty. simpl.
  rewrite app_nil_r. unfold rxns_of. by rewrite Hperm.
Qed.

(** * non-vacuity *)
Definition ex_str_net : net :=
  mk_net ["K"] [(None, "r", [("A", 2%Z)], [("B", 1%Z); ("A", 1%Z)]); (None, "q", [("B", 1%Z)], [("CC(=O)O", 12%Z)]);
                (Some "x", "r", [], [("C_1", 1%Z)]); (None, "q", [("B", 1%Z)], [("CC(=O)O", 12%Z)])] [("A", "CCO")].
Definition ex_str_lines : list string := hypergraph_to_rxn_strings ex_str_net true true false.
Example ex_str_domain : bool_decide (wf16 ex_str_net) = true ∧ strings_domain ex_str_net = true ∧ length (rxns_of ex_str_net) = 4%nat.
Proof. by vm_compute. Qed.
Example ex_str_printed :
  ex_str_lines = ["2A >> A + B | rule=r id=r_1"; "B >> 12CC(=O)O | rule=q id=q_1"; sb [226; 136; 133]%N +:+ " >> C_1 | rule=r id=x";
                  "B >> 12CC(=O)O | rule=q id=q_2"].
Proof. by vm_compute. Qed.
Example ex_side_parse : bool_decide (from_str "12Cl2 + A + 3 B + 2*C_1 + 2Fe(OH)3" =
  Some {[ "Cl2" := 12%positive; "A" := 1%positive; "B" := 3%positive; "C_1" := 2%positive; "Fe(OH)3" := 2%positive ]}) = true.
Proof. by vm_compute. Qed.
(** SMILES-like and formula labels are in the domain; labels that do not start with a letter or contain + * | > or blanks are not *)
Example ex_label_domain :
  forallb valid_label ["CC(=O)O"; "C#C"; "Fe(OH)3"; "c1ccccc1"; "C[C@H](N)C(=O)O"; "H2O"; "k_1"; "A-B.C"] = true ∧
  forallb (λ s, negb (valid_label s)) ["_x"; "2A"; "[OH-]"; "Na+"; "A B"; "A*"; "x|y"; "a>>b"; ""] = true.
Proof. by vm_compute. Qed.
(** a SMILES-like label that does not start with a letter: coefficient 2 on "[OH-]" prints "2[OH-]", read back as ONE new species *)
Definition ex_str_bracket : net := mk_net [] [(None, "r", [("[OH-]", 2%Z)], [("O", 1%Z)])] [].
Definition ex_str_bracket_back : net := (rxns_to_hypergraph (hypergraph_to_rxn_strings ex_str_bracket true false true) "r" true false).1.
Example ex_bracket_label_outside :
  strings_domain ex_str_bracket = false ∧ bool_decide (species ex_str_bracket_back = {[ "2[OH-]"; "O" ]}) = true.
Proof. by vm_compute. Qed.
