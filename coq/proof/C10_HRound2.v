(** C10 — proofs, part 34 (round 6): the hydrogen round trip on graphs that DO contain hydrogen atoms, as long as every hydrogen atom
    is "bare": it carries no implicit hydrogens of its own and all its neighbours are hydrogens (H2, H+, H-, a lone H — the atoms
    h_to_implicit keeps since repairs 7497a0b / 3ba7a77).  For every networkx graph of that shape, any node list, either mode:
    h_to_implicit (h_to_explicit g nodes its) has the nodes of g in the same order (every added hydrogen is gone again, the bare
    hydrogens stay), at every node the dictionary of g except the typesGH halves h_to_explicit lowered ([h_restore_gen]; hcount IS
    restored), and the bond dictionaries of g up to the normalisation [fin_edge] of the ITS mode.
    The explicit direction is that of proof/C10_HRoundIts.v (no assumption about hydrogens); new here is the implicit direction when
    old hydrogen atoms are among the nodes: they are visited first and left alone, then the added ones are folded as before. *)
From Coq Require Import String List NArith ZArith Bool Lia.
From SK Require Import lib.Tok lib.LGraph lib.StrJoin model.C10_Model model.C10_Rxn proof.C10_Views proof.C10_Build proof.C10_Copy
  proof.C10_Hydrogen proof.C10_HRound proof.C10_HRoundIts.
Import ListNotations.
Local Open Scope Z_scope.

(** every hydrogen atom is bare *)
Definition bare_H (g : gr) : Prop :=
  forall n a, label g n = Some a -> el_is_H a = true -> dflt (a_hc a) 0 <= 0 /\ forall w, adj g n w <> None -> is_H g w = true.
Definition bare_Hb (g : gr) : bool :=
  forallb (fun p : N * natt => negb (el_is_H (snd p)) || ((dflt (a_hc (snd p)) 0 <=? 0) && forallb (is_H g) (nbrs g (fst p)))) (gnodes g).
Lemma bare_Hb_spec g : bare_Hb g = true -> bare_H g.
Proof.
  unfold bare_Hb, bare_H. rewrite forallb_forall. intros H n a La Ha. apply assoc_in in La. specialize (H _ La). simpl in H.
  rewrite Ha in H. simpl in H. apply andb_true_iff in H. destruct H as [H1 H2]. split; [apply Z.leb_le, H1|].
  intros w Hw. rewrite forallb_forall in H2. apply H2. apply in_nbrs_adj. exact Hw.
Qed.

Lemma hexp_count_le its a : dflt (a_hc a) 0 <= 0 -> cvi its a <= 0.
Proof.
  unfold cvi, hexp_count. destruct its; [|auto]. destruct (a_tgh a) as [[t1 [[[e2 a2] h2] q2]]|]; [|auto]. intros H. lia.
Qed.

Section Implicit2.
Variable g : gr.
Hypothesis W : gwf g.
Let ids := node_ids g.
Variable base : N -> natt -> natt.
Hypothesis base_el : forall n a, el_is_H (base n a) = el_is_H a.

(** one added hydrogen (h, m) folded back; the parent m is not a hydrogen *)
Lemma himp_at2 G Pd h m Pr : IInv g base G Pd ((h, m) :: Pr) -> P_ok g ((h, m) :: Pr) ->
  (forall a, label g m = Some a -> el_is_H a = false) ->
  himp_step G h = fold1 G m h /\ IInv g base (fold1 G m h) ((h, m) :: Pd) Pr.
Proof.
  intros I [Hnd Hp] Hpar. destruct (Hp h m (or_introl eq_refl)) as [Hh Hm].
  assert (P_ok g Pr) as HPr.
  { split; [inversion Hnd; assumption|]. intros h' m' Hin. apply Hp. right. exact Hin. }
  assert (~ In h (map fst Pr)) as Hhr by (inversion Hnd; assumption).
  assert (forall w, padj Pr h w = false /\ padj Pr w h = false) as Hpadj.
  { intros w. split.
    - destruct (padj Pr h w) eqn:E; [|reflexivity]. exfalso. apply Hhr.
      apply (in_map fst _ _ (padj_with_h g Pr h w HPr Hh E)).
    - destruct (padj Pr w h) eqn:E; [|reflexivity]. exfalso. apply Hhr.
      unfold padj in E. apply existsb_exists in E. destruct E as ([h' m'] & Hin & Pq). simpl in Pq.
      rewrite pair_eqb_swap in Pq. fold (pair_eqb h' m' h w) in Pq.
      assert (padj Pr h w = true) as E' by (unfold padj; apply existsb_exists; exists (h', m'); auto).
      apply (in_map fst _ _ (padj_with_h g Pr h w HPr Hh E')). }
  assert (nbrs G h = [m]) as Hn.
  { apply singleton_list; [apply NoDup_nbrs, (ii_uq _ _ _ _ _ I)|]. intros w. rewrite in_nbrs_adj, (ii_adj _ _ _ _ _ I).
    simpl. fold (padj Pr h w). rewrite (proj1 (Hpadj w)), orb_false_r.
    rewrite (adj_g_notin g W h w) by (left; exact Hh). split.
    - destruct (pair_eqb h m h w) eqn:Pq; [|congruence]. intros _. apply pair_eqb_spec in Pq.
      destruct Pq as [[_ ->]|[-> <-]]; reflexivity.
    - intros ->. rewrite pair_eqb_refl. discriminate. }
  assert (is_H G m = false) as HmH.
  { unfold is_H. rewrite (ii_lab _ _ _ _ _ I m Hm). destruct (label g m) as [a|] eqn:La; [|reflexivity]. simpl.
    rewrite el_iter_inc, base_el. apply (Hpar a eq_refl). }
  split.
  { apply himp_step_single. unfold heavy_nbrs. rewrite Hn. simpl. rewrite HmH. reflexivity. }
  assert (m <> h) as Hmh by (intros ->; contradiction).
  split.
  - unfold fold1. rewrite node_ids_remove_node, node_ids_set_node, (ii_ids _ _ _ _ _ I). simpl map.
    rewrite filter_app. simpl. rewrite N.eqb_refl. simpl. rewrite !filter_ne_notin by assumption. reflexivity.
  - intros n Hn'. unfold fold1. rewrite label_remove_node. destruct (N.eqb_spec n h) as [->|]; [contradiction|].
    rewrite label_set_node, (ii_lab _ _ _ _ _ I n Hn'), cnt_cons. simpl snd. rewrite (N.eqb_sym n m).
    destruct (N.eqb m n); destruct (label g n); reflexivity.
  - intros h' m' Hin. destruct (Hp h' m' (or_intror Hin)) as [Hh' _].
    unfold fold1. rewrite label_remove_node.
    destruct (N.eqb_spec h' h) as [->|]; [exfalso; apply Hhr, (in_map fst _ _ Hin)|].
    rewrite label_set_node. destruct (N.eqb_spec h' m) as [->|]; [contradiction|].
    apply (ii_h _ _ _ _ _ I h' m'). right. exact Hin.
  - intros u v. unfold fold1. rewrite adj_remove_node, adj_set_node, (ii_adj _ _ _ _ _ I). simpl. fold (padj Pr u v).
    destruct (N.eqb_spec u h) as [->|Hu]; simpl.
    + rewrite (proj1 (Hpadj v)), (adj_g_notin g W h v) by (left; exact Hh). reflexivity.
    + destruct (N.eqb_spec v h) as [->|Hv]; simpl.
      * rewrite (proj2 (Hpadj u)), (adj_g_notin g W u h) by (right; exact Hh). reflexivity.
      * assert (pair_eqb h m u v = false) as ->; [|reflexivity].
        destruct (pair_eqb h m u v) eqn:Pq; [|reflexivity]. apply pair_eqb_spec in Pq. destruct Pq as [[? ?]|[? ?]]; congruence.
  - unfold fold1, remove_node. simpl. apply uniq_filter. exact (ii_uq _ _ _ _ _ I).
Qed.

Lemma himp_fold_round2 Pr : forall G Pd, IInv g base G Pd Pr -> P_ok g Pr ->
  (forall h m a, In (h, m) Pr -> label g m = Some a -> el_is_H a = false) ->
  let F := fold_left himp_step (map fst Pr) G in
  node_ids F = ids /\
  (forall n, In n ids -> label F n = option_map (fun a => iter_inc (cnt n Pr + cnt n Pd) (base n a)) (label g n)) /\
  (forall u v, adj F u v = adj g u v).
Proof.
  induction Pr as [|[h m] Pr IH]; intros G Pd I HP Hpar; cbn [map fold_left fst].
  - cbv zeta. split; [rewrite (ii_ids _ _ _ _ _ I); apply app_nil_r|split].
    + intros n Hn. apply (ii_lab _ _ _ _ _ I n Hn).
    + intros u v. rewrite (ii_adj _ _ _ _ _ I). reflexivity.
  - destruct (himp_at2 G Pd h m Pr I HP (fun a La => Hpar h m a (or_introl eq_refl) La)) as [E I']. rewrite E.
    assert (P_ok g Pr) as HPr.
    { destruct HP as [Hnd Hp]. split; [inversion Hnd; assumption|]. intros h' m' Hin. apply Hp. right. exact Hin. }
    destruct (IH _ _ I' HPr) as (A & B & C); [intros h' m' a Hin; apply (Hpar h' m' a); right; exact Hin|].
    cbv zeta. split; [exact A|split; [|exact C]].
    intros n Hn. rewrite (B n Hn), !cnt_cons. simpl snd.
    replace (cnt n Pr + ((if N.eqb m n then 1 else 0) + cnt n Pd))%nat with ((if N.eqb m n then 1 else 0) + cnt n Pr + cnt n Pd)%nat by lia.
    reflexivity.
Qed.
End Implicit2.

Lemma fold_himp_id l : forall G : gr, (forall h, In h l -> heavy_nbrs G h = []) -> fold_left himp_step l G = G.
Proof.
  induction l as [|h t IH]; intros G H; [reflexivity|]. cbn [fold_left]. rewrite (himp_step_none G h (H h (or_introl eq_refl))).
  apply IH. intros h' Hh'. apply H. right. exact Hh'.
Qed.

Lemma cnt_pos_in n P : (0 < cnt n P)%nat -> exists h, In (h, n) P.
Proof.
  unfold cnt. induction P as [|[h m] t IH]; simpl; [lia|]. destruct (N.eqb_spec m n) as [->|]; simpl; [intros _; exists h; auto|].
  intros H. destruct (IH H) as [h' Hh']. exists h'. auto.
Qed.
Lemma in_cnt_pos h n P : In (h, n) P -> (0 < cnt n P)%nat.
Proof.
  unfold cnt. induction P as [|[h' m] t IH]; simpl; [intros []|]. intros [E|Hin].
  - inversion E; subst. rewrite N.eqb_refl. simpl. lia.
  - specialize (IH Hin). destruct (N.eqb m n); simpl; lia.
Qed.

Theorem h_roundtrip_bare (g : gr) (nodes : option (list N)) (its : bool) : gwfb g = true -> bare_H g ->
  let g' := h_to_implicit (h_to_explicit g nodes its) in
  node_ids g' = node_ids g /\
  (forall n a, label g n = Some a ->
     label g' n = Some (if mem n (exp_nodes g nodes) then h_restore_gen its a else a)) /\
  (forall u v, adj g' u v = option_map (fin_edge its) (adj g u v)).
Proof.
  intros Hw Hbare. pose proof (gwfb_gwf g Hw) as W.
  assert (lab_oki its g (copy g) []) as L0.
  { intros n _. rewrite label_copy. destruct (label g n); reflexivity. }
  assert (cnt_oki its g [] []) as C0 by (intros n a _; reflexivity).
  set (ns := exp_nodes g nodes).
  destruct (hexp_gen_fold its g W ns (copy g) (max_id g) [] [] (EInv0 g W) L0 C0) as (P & IE & LE & CE).
  cbv zeta in IE, LE, CE. intros g'. unfold g'. rewrite h_to_explicit_gen, fin_graph_emap, h_to_implicit_emap. fold ns.
  set (E := fst (fold_left (hexp_step_gen its) ns (copy g, max_id g))) in *.
  set (base := fun (n : N) (a : natt) => if mem n (rev ns ++ []) then updi its a else a).
  assert (forall n a, el_is_H (base n a) = el_is_H a) as base_el.
  { intros n a. unfold base. destruct (mem n _); [apply el_updi|reflexivity]. }
  assert (P_ok g P) as HP.
  { split; [exact (ei_nd _ _ _ _ IE)|]. intros h m Hin. split; [|apply (ei_h _ _ _ _ IE h m Hin)].
    intros Hh. apply (bounded_max_id g) in Hh. pose proof (ei_rng _ _ _ _ IE h (in_map fst _ _ Hin)) as R. simpl in R. lia. }
  (* hydrogens of g are never expanded: they are parents of no added hydrogen *)
  assert (forall n a, label g n = Some a -> el_is_H a = true -> cnt n P = O) as HnoP.
  { intros n a La Ha. rewrite (CE n a La). destruct (mem n _); [|reflexivity].
    pose proof (hexp_count_le its a (proj1 (Hbare n a La Ha))) as Hc. destruct (cvi its a); try reflexivity; lia. }
  assert (forall h m a, In (h, m) P -> label g m = Some a -> el_is_H a = false) as Hpar.
  { intros h m a Hin La. destruct (el_is_H a) eqn:Ha; [|reflexivity]. pose proof (in_cnt_pos h m P Hin). rewrite (HnoP m a La Ha) in H. lia. }
  assert (IInv g base (copy E) [] P) as II.
  { split.
    - exact (ei_ids _ _ _ _ IE).
    - intros n Hn. rewrite label_copy, (LE n Hn). destruct (label g n); reflexivity.
    - intros h m Hin. rewrite label_copy. apply (ei_h _ _ _ _ IE h m Hin).
    - intros u v. rewrite adj_copy by exact (ei_wf _ _ _ _ IE). apply (ei_adj _ _ _ _ IE).
    - apply (gwf_uq _ (gwf_copy E (ei_wf _ _ _ _ IE))). }
  (* is_H on the explicit graph *)
  assert (forall n, In n (node_ids g) -> is_H (copy E) n = is_H g n) as HisH.
  { intros n Hn. unfold is_H. rewrite label_copy, (LE n Hn). destruct (label g n) as [a|]; [|reflexivity]. simpl.
    fold (base n a). apply base_el. }
  (* the hydrogens visited: the old ones in node order, then the added ones *)
  assert (filter (is_H (copy E)) (node_ids (copy E)) = filter (is_H g) (node_ids g) ++ map fst P) as Hhs.
  { change (node_ids (copy E)) with (node_ids E). rewrite (ei_ids _ _ _ _ IE), filter_app. f_equal.
    - apply filter_ext_in. intros n Hn. apply HisH, Hn.
    - apply filter_all. intros h Hh. apply in_map_iff in Hh. destruct Hh as ([h' m] & <- & Hin). simpl fst. unfold is_H. rewrite label_copy.
      rewrite (proj1 (ei_h _ _ _ _ IE h' m Hin)). reflexivity. }
  unfold h_to_implicit. cbv zeta. rewrite Hhs, fold_left_app.
  (* old hydrogens are left alone *)
  assert (fold_left himp_step (filter (is_H g) (node_ids g)) (copy E) = copy E) as Hold.
  { apply fold_himp_id. intros h Hh. apply filter_In in Hh. destruct Hh as [Hh HH].
    unfold heavy_nbrs. apply filter_none. intros w Hw0. apply negb_false_iff.
    apply in_nbrs_adj in Hw0. rewrite adj_copy in Hw0 by exact (ei_wf _ _ _ _ IE). rewrite (ei_adj _ _ _ _ IE) in Hw0.
    assert (exists a, label g h = Some a /\ el_is_H a = true) as (a & La & Ha).
    { unfold is_H in HH. destruct (label g h) as [a|]; [|discriminate]. eauto. }
    destruct (padj P h w) eqn:Pa.
    - exfalso. unfold padj in Pa. apply existsb_exists in Pa. destruct Pa as ([h' m'] & Hin & Pq). simpl in Pq.
      destruct (proj2 HP h' m' Hin) as [Hh' _]. apply pair_eqb_spec in Pq. destruct Pq as [[E1 E2]|[E1 E2]].
      + apply Hh'. rewrite E1. exact Hh.
      + rewrite E2 in Hin. pose proof (in_cnt_pos h' h P Hin) as Hc. rewrite (HnoP h a La Ha) in Hc. lia.
    - pose proof (proj2 (Hbare h a La Ha) w Hw0) as HwH.
      assert (In w (node_ids g)) as Hwn.
      { unfold is_H in HwH. apply has_node_in, has_node_label. destruct (label g w); [eauto|discriminate]. }
      rewrite (HisH w Hwn). exact HwH. }
  rewrite Hold.
  destruct (himp_fold_round2 g W base base_el P (copy E) [] II HP Hpar) as (A & B & C). cbv zeta in A, B, C.
  split; [exact A|split].
  - intros n a La. assert (In n (node_ids g)) as Hn by (apply has_node_in, has_node_label; eauto).
    rewrite label_emap, (B n Hn), La. simpl. rewrite Nat.add_0_r, (CE n a La). unfold base. rewrite mem_rev_nil.
    destruct (mem n ns); [rewrite iter_updi|]; reflexivity.
  - intros u v. rewrite adj_emap, C. reflexivity.
Qed.

(** ... in boolean form, and the whole-graph instances *)
Theorem h_roundtrip_bareb (g : gr) (nodes : option (list N)) (its : bool) : gwfb g = true -> bare_Hb g = true ->
  let g' := h_to_implicit (h_to_explicit g nodes its) in
  node_ids g' = node_ids g /\
  (forall n a, label g n = Some a ->
     label g' n = Some (if mem n (exp_nodes g nodes) then h_restore_gen its a else a)) /\
  (forall u v, adj g' u v = option_map (fin_edge its) (adj g u v)).
Proof. intros Hw Hb. apply h_roundtrip_bare; [exact Hw|apply bare_Hb_spec, Hb]. Qed.

(** molecule graphs (no typesGH), its=False: every dictionary restored exactly *)
Corollary h_roundtrip_bare_mol (g : gr) (nodes : option (list N)) : gwfb g = true -> bare_H g -> no_tgh g = true ->
  let g' := h_to_implicit (h_to_explicit g nodes false) in
  node_ids g' = node_ids g /\ (forall n, label g' n = label g n) /\ (forall u v, adj g' u v = adj g u v).
Proof.
  intros Hw Hb Ht. destruct (h_roundtrip_bare g nodes false Hw Hb) as (A & B & C). cbv zeta in *. split; [exact A|split].
  - intros n. destruct (label g n) as [a|] eqn:La.
    + rewrite (B n a La). f_equal. destruct (mem n (exp_nodes g nodes)); [|reflexivity].
      unfold h_restore_gen. apply assoc_in in La. unfold no_tgh in Ht. rewrite forallb_forall in Ht. specialize (Ht _ La). simpl in Ht.
      destruct a as [el ar hc ch am [t|]]; [discriminate|]. simpl. destruct (0 <? _); reflexivity.
    + apply has_node_false in La. apply has_node_false. apply not_true_is_false. intros E.
      apply has_node_in in E. rewrite A in E. apply has_node_in in E. congruence.
  - intros u v. rewrite C. unfold fin_edge. destruct (adj g u v); reflexivity.
Qed.

(** non-vacuity: methanol next to molecular hydrogen and a proton — C(h3)-O(h1), H-H, H+ : five atoms, three of them hydrogens *)
Definition mkh (el : string) (hc q : Z) : natt := NA (Some (s2l el)) (Some false) (Some hc) (Some q) (Some 0) None.
Definition ex_bare : gr :=
  LG [(1%N, mkh "C" 3 0); (2%N, mkh "H" 0 0); (3%N, mkh "O" 1 0); (4%N, mkh "H" 0 0); (7%N, mkh "H" 0 1)]
     [(1%N, 3%N, EA (Some (OS 2)) None); (4%N, 2%N, EA (Some (OS 2)) None)].
Example h_roundtrip_bare_ex :
  gwfb ex_bare = true /\ bare_Hb ex_bare = true /\ no_H ex_bare = false /\ no_tgh ex_bare = true /\
  node_ids (h_to_explicit ex_bare None false) = [1; 2; 3; 4; 7; 8; 9; 10; 11]%N /\
  h_to_implicit (h_to_explicit ex_bare None false) = copy ex_bare /\
  node_ids (h_to_implicit (h_to_explicit ex_bare None true)) = [1; 2; 3; 4; 7]%N /\
  adj (h_to_implicit (h_to_explicit ex_bare None true)) 2%N 4%N = Some (EA (Some (OP 2 2)) (Some 0)) /\
  label (h_to_implicit (h_to_explicit ex_bare None true)) 7%N = Some (mkh "H" 0 1).
Proof. vm_compute. repeat split. Qed.
(** the domain is needed: a hydrogen bonded to a heavy atom is folded into it (the graph is not restored, the count is) *)
Example h_roundtrip_bare_needed :
  let g := LG [(1%N, mkh "C" 2 0); (2%N, mkh "H" 0 0)] [(1%N, 2%N, EA (Some (OS 2)) None)] in
  bare_Hb g = false /\ node_ids (h_to_implicit (h_to_explicit g None false)) = [1%N].
Proof. vm_compute. split; reflexivity. Qed.
