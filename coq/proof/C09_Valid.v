(** C09 — AAMValidator at graph level: the matcher [is_isomorphic] the correspondence runs answers true exactly
    when a label-preserving isomorphism exists (bridge to the verified enumerator lib/Mono.v), hence accepts every
    renumbering and rejects exactly the mappings whose ITS / centre is not isomorphic. *)
From Coq Require Import List NArith ZArith Bool Arith Lia.
From SK Require Import lib.LGraph lib.Mono lib.C01_GraphLemmas model.C01_Model model.C02_Model model.C09_Model.
Import ListNotations.

(** [its_emb g1 g2 f]: f maps the nodes of g2 injectively into g1, keeps both halves of typesGH (node_match) and
    carries bonds to bonds with the same order pair and non-bonds to non-bonds (edge_match, induced) *)
Definition its_emb (g1 g2 : its) (f : N -> N) : Prop :=
  (forall u, In u (node_ids g2) -> In (f u) (node_ids g1) /\ node_match (lbl g1 (f u)) (lbl g2 u) = true) /\
  (forall u v, In u (node_ids g2) -> In v (node_ids g2) -> f u = f v -> u = v) /\
  (forall u v, In u (node_ids g2) -> In v (node_ids g2) -> u <> v ->
     match LGraph.adj g2 u v, LGraph.adj g1 (f u) (f v) with
     | Some b, Some b' => edge_match b' b = true
     | None, None => True
     | _, _ => False
     end).
(** isomorphic: equally many nodes and bonds and such a map (an injection between equinumerous duplicate-free node
    lists is a bijection) *)
Definition its_isomorphic (g1 g2 : its) : Prop :=
  length (gnodes g1) = length (gnodes g2) /\ length (gedges g1) = length (gedges g2) /\ exists f, its_emb g1 g2 f.

(* ------------------------------------------------------------------ small list facts *)
Lemma combine_map_self (f : N -> N) l : combine l (map f l) = map (fun u => (u, f u)) l.
Proof. induction l; simpl; congruence. Qed.
Lemma map_fst_combine (l : list N) : forall hs : list N, length hs = length l -> map fst (combine l hs) = l.
Proof. induction l; intros [|h hs] E; simpl in *; try discriminate; auto. f_equal. apply IHl. lia. Qed.
Lemma in_two_split {X} (a b : X) m : In a m -> In b m -> a <> b ->
  (exists l1 l2 l3, m = l1 ++ a :: l2 ++ b :: l3) \/ (exists l1 l2 l3, m = l1 ++ b :: l2 ++ a :: l3).
Proof.
  intros Ia Ib Hne. apply in_split in Ia. destruct Ia as (l1 & r & ->).
  apply in_app_or in Ib. destruct Ib as [Ib|[Ib|Ib]]; [|congruence|].
  - right. apply in_split in Ib. destruct Ib as (k1 & k2 & ->). exists k1, k2, r. rewrite <- app_assoc. reflexivity.
  - left. apply in_split in Ib. destruct Ib as (k1 & k2 & ->). exists l1, k1, k2. reflexivity.
Qed.
Definition mfun (m : mapping) (u : N) : N := match assoc u m with Some h => h | None => 0%N end.
Lemma nodup_snd_inj (m : mapping) u v h : NoDup (map snd m) -> In (u, h) m -> In (v, h) m -> u = v.
Proof.
  induction m as [|[a b] m IH]; simpl; [intros _ []|]. intros Hnd. inversion Hnd as [|? ? Hn Hnd']; subst.
  intros [E1|I1] [E2|I2].
  - congruence.
  - inversion E1; subst. exfalso. apply Hn. change h with (snd (v, h)). apply in_map. exact I2.
  - inversion E2; subst. exfalso. apply Hn. change h with (snd (u, h)). apply in_map. exact I1.
  - auto.
Qed.
Lemma mfun_in (m : mapping) u : NoDup (map fst m) -> In u (map fst m) -> In (u, mfun m u) m.
Proof.
  intros Hnd I. apply in_map_iff in I. destruct I as ([a h] & E & I). simpl in E. subst a.
  unfold mfun. rewrite (assoc_nodup_in u m h Hnd I). exact I.
Qed.
Lemma any_spec {X} (f : X -> bool) l : any f l = true <-> exists x, In x l /\ f x = true.
Proof.
  induction l as [|x l IH]; simpl.
  - split; [discriminate|intros (x & [] & _)].
  - destruct (f x) eqn:E.
    + split; auto. intros _. exists x. auto.
    + rewrite IH. split; intros (y & I & Hy); [exists y; auto|]. destruct I as [->|I]; [congruence|exists y; auto].
Qed.

(* ------------------------------------------------------------------ bridge to lib/Mono.v *)
Section Bridge.
Variables g1 g2 : its.     (* host g1, pattern g2 *)

Definition mvalid := valid (node_ids g1) (lbl g2) (lbl g1) (LGraph.adj g2) (LGraph.adj g1) node_match edge_match true.
Definition mextend := extend (node_ids g1) (lbl g2) (lbl g1) (LGraph.adj g2) (LGraph.adj g1) node_match edge_match true.

Lemma edge_ok_emb u v hu hv :
  edge_ok (LGraph.adj g2) (LGraph.adj g1) edge_match true u hu (v, hv) = true <->
  match LGraph.adj g2 u v, LGraph.adj g1 hu hv with
  | Some b, Some b' => edge_match b' b = true
  | None, None => True
  | _, _ => False
  end.
Proof.
  unfold edge_ok; simpl. destruct (LGraph.adj g2 u v), (LGraph.adj g1 hu hv); try tauto; split; try discriminate; tauto.
Qed.

Lemma emb_valid_list f : its_emb g1 g2 f ->
  forall l, NoDup l -> incl l (node_ids g2) -> mvalid (map (fun u => (u, f u)) l).
Proof.
  intros (E1 & E2 & E3). induction l as [|p l IH]; intros Hnd Hin; simpl; [constructor|].
  inversion Hnd as [|? ? Hp Hnd']; subst.
  assert (Ip : In p (node_ids g2)) by (apply Hin; left; reflexivity).
  assert (Hl : incl l (node_ids g2)) by (intros x Ix; apply Hin; right; exact Ix).
  constructor; [apply IH; auto | apply E1; auto |].
  unfold ok. rewrite (proj2 (E1 p Ip)). simpl. apply andb_true_intro. split.
  - apply fresh_spec. rewrite map_map. simpl. intros I. apply in_map_iff in I. destruct I as (v & Ev & Iv).
    apply Hp. rewrite <- (E2 v p (Hl v Iv) Ip Ev). exact Iv.
  - apply forallb_forall. intros [v hv] I. apply in_map_iff in I. destruct I as (w & Ew & Iw). inversion Ew; subst.
    apply edge_ok_emb. apply E3; auto. intros ->. contradiction.
Qed.

Lemma emb_valid f : NoDup (node_ids g2) -> its_emb g1 g2 f -> mvalid (rev (combine (node_ids g2) (map f (node_ids g2)))).
Proof.
  intros Hnd He. rewrite combine_map_self, <- map_rev. apply emb_valid_list; auto.
  - apply NoDup_rev. exact Hnd.
  - intros x I. apply in_rev. exact I.
Qed.

Lemma valid_emb m : mvalid m -> NoDup (map fst m) -> (forall u, In u (map fst m) <-> In u (node_ids g2)) -> its_emb g1 g2 (mfun m).
Proof.
  intros Hv Hnd Hdom. destruct (valid_pointwise Hv) as (V1 & V2 & V3).
  assert (Hin : forall u, In u (node_ids g2) -> In (u, mfun m u) m) by (intros u Iu; apply mfun_in; auto; apply Hdom; exact Iu).
  split; [|split].
  - intros u Iu. apply (V1 u (mfun m u)). auto.
  - intros u v Iu Iv E. apply (nodup_snd_inj m u v (mfun m u) V2); auto. rewrite E. auto.
  - intros u v Iu Iv Hne. apply edge_ok_emb.
    destruct (in_two_split (u, mfun m u) (v, mfun m v) m (Hin u Iu) (Hin v Iv)) as [(l1 & l2 & l3 & E)|(l1 & l2 & l3 & E)].
    + congruence.
    + eapply V3. exact E.
    + rewrite edge_ok_sym; [eapply V3; exact E | apply adj_sym | apply adj_sym].
Qed.

Lemma ext_any_spec ps : forall acc, ext_any g2 g1 ps acc = true <-> exists m, In m (mextend ps acc).
Proof.
  unfold mextend. induction ps as [|p ps IH]; intros acc; simpl.
  - split; auto. intros _. exists acc. left. reflexivity.
  - rewrite any_spec. split.
    + intros (h & Ih & Hh). destruct (node_match (lbl g1 h) (lbl g2 p)) eqn:En; [|discriminate].
      destruct (ok _ _ _ _ _ _ _ p h acc) eqn:Eo; [|discriminate].
      apply IH in Hh. destruct Hh as (m & Im). exists m. apply in_flat_map. exists h. split; auto. rewrite Eo. exact Im.
    + intros (m & Im). apply in_flat_map in Im. destruct Im as (h & Ih & Im). exists h. split; auto.
      destruct (ok _ _ _ _ _ _ _ p h acc) eqn:Eo; [|destruct Im].
      assert (En : node_match (lbl g1 h) (lbl g2 p) = true).
      { unfold ok in Eo. apply andb_prop in Eo. destruct Eo as [Eo _]. apply andb_prop in Eo. destruct Eo as [Eo _]. exact Eo. }
      rewrite En. apply IH. exists m. exact Im.
Qed.

Theorem ext_any_iff : NoDup (node_ids g2) -> (ext_any g2 g1 (node_ids g2) [] = true <-> exists f, its_emb g1 g2 f).
Proof.
  intros Hnd. rewrite ext_any_spec. split.
  - intros (m & I). exists (mfun m). unfold mextend in I.
    assert (Hv : mvalid m) by (eapply extend_sound; [constructor | exact I]).
    apply extend_shape in I. destruct I as (hs & Hl & E). rewrite app_nil_r in E. subst m.
    assert (Ef : map fst (rev (combine (node_ids g2) hs)) = rev (node_ids g2)) by (rewrite map_rev, map_fst_combine; auto).
    apply valid_emb; auto.
    + rewrite Ef. apply NoDup_rev. exact Hnd.
    + intros u. rewrite Ef. symmetry. apply in_rev.
  - intros (f & He). exists (rev (combine (node_ids g2) (map f (node_ids g2)))).
    rewrite <- (app_nil_r (rev _)). apply extend_complete; [apply map_length|]. rewrite app_nil_r. apply emb_valid; auto.
Qed.
End Bridge.

(** nx.is_isomorphic as modelled = existence of a label-preserving isomorphism *)
Theorem is_isomorphic_iff (g1 g2 : its) : NoDup (node_ids g2) -> (is_isomorphic g1 g2 = true <-> its_isomorphic g1 g2).
Proof.
  intros Hnd. unfold is_isomorphic, its_isomorphic. rewrite !andb_true_iff, !Nat.eqb_eq, (ext_any_iff g1 g2 Hnd). tauto.
Qed.

(* ------------------------------------------------------------------ renumbering *)
Lemma lbl_relabel (f : N -> N) (Hinj : forall a b, f a = f b -> a = b) (g : its) n : lbl (relabel f g) (f n) = lbl g n.
Proof. unfold lbl. rewrite label_relabel; auto. Qed.

Lemma nattr_eqb_refl a : nattr_eqb a a = true.
Proof.
  unfold nattr_eqb. rewrite N.eqb_refl, Bool.eqb_reflx, !Z.eqb_refl. simpl.
  induction (a_nb a) as [|x l IH]; simpl; auto. rewrite N.eqb_refl. exact IH.
Qed.
Lemma node_match_refl a : node_match a a = true.
Proof. unfold node_match. rewrite !nattr_eqb_refl. reflexivity. Qed.
Lemma edge_match_refl x : edge_match x x = true.
Proof. unfold edge_match. rewrite !Z.eqb_refl. reflexivity. Qed.

(** every injective renumbering of an ITS is isomorphic to it *)
Theorem relabel_isomorphic (f : N -> N) (Hinj : forall a b, f a = f b -> a = b) (g : its) :
  its_isomorphic (relabel f g) g.
Proof.
  split; [|split].
  - unfold relabel. simpl. apply map_length.
  - unfold relabel. simpl. apply map_length.
  - exists f. split; [|split].
    + intros u Iu. split.
      * rewrite node_ids_relabel. apply in_map. exact Iu.
      * rewrite lbl_relabel by auto. apply node_match_refl.
    + intros u v _ _ E. apply Hinj. exact E.
    + intros u v _ _ _. rewrite adj_relabel by auto. destruct (LGraph.adj g u v); auto. apply edge_match_refl.
Qed.
