(** C14 — parallel = serial from the pool's CONTRACT alone (model/C14_PoolModel.v). *)
From Coq Require Import NArith List Bool Arith Lia.
Import ListNotations.
From SK Require Import lib.Tok model.C14_CrnModel model.C14_PoolModel proof.C14_Crn.

(** the pool of model/C14_CrnModel.v satisfies the contract *)
Theorem par_map_contract : pool_contract (@par_map).
Proof. intros A B c f l. apply par_map_eq_map. Qed.

(** the [_with] functions at that pool ARE the functions the correspondence evaluates *)
Lemma run_tasks_instance parallel workers t tasks :
  run_tasks_with (@par_map) parallel workers t tasks = run_tasks parallel workers t tasks.
Proof. reflexivity. Qed.

(** (the two fixpoints have the same body once the pool is instantiated: they are convertible) *)
Lemma build_loop_instance c parallel workers t n step st frontier ntasks :
  build_loop_with (@par_map) c parallel workers t n step st frontier ntasks = build_loop c parallel workers t n step st frontier ntasks.
Proof. reflexivity. Qed.

Lemma build_from_instance c parallel workers t st0 seeds :
  build_from_with (@par_map) c parallel workers t st0 seeds = build_from c parallel workers t st0 seeds.
Proof. reflexivity. Qed.

Theorem builds_from_instance c parallel workers t calls st0 :
  builds_from_with (@par_map) c parallel workers t st0 calls = builds_from c parallel workers t st0 calls.
Proof. reflexivity. Qed.

Theorem rows_instances {A} n_jobs (check : A -> bool) rows :
  validate_column_with (@par_map) n_jobs check rows = validate_column n_jobs check rows /\
  balance_split_with (@par_map) n_jobs check rows = balance_split n_jobs check rows.
Proof. split; reflexivity. Qed.

Section Contract.
  Variable pm : pool_map.
  Hypothesis Hpm : pool_contract pm.

  Lemma run_tasks_with_eq parallel workers t tasks :
    run_tasks_with pm parallel workers t tasks = map (apply_rule_worker t) tasks.
  Proof. unfold run_tasks_with. destruct (parallel && (1 <? length tasks)); [apply Hpm|reflexivity]. Qed.

  Lemma build_loop_with_serial c parallel workers t n : forall step st frontier ntasks,
    build_loop_with pm c parallel workers t n step st frontier ntasks =
    build_loop_with pm c false 0 t n step st frontier ntasks.
  Proof.
    induction n as [|n IH]; intros step st frontier ntasks; simpl; auto.
    destruct (cc_use_frontier c && match frontier with [] => true | _ => false end); auto.
    destruct (tasks_of_rules c (s_index st) (s_pool st) frontier 0 (cc_rules c) (s_seen st) (cc_max_tasks c) []) as [seen' tasks].
    destruct tasks as [|tk tasks]; auto.
    rewrite !run_tasks_with_eq.
    destruct (fold_left (integrate_result c step) (map (apply_rule_worker t) (tk :: tasks)) (with_seen st seen', [])) as [st1 nf].
    apply IH.
  Qed.

  (** network expansion: for EVERY pool that returns one result per task in submission order *)
  Theorem builds_with_parallel_equals_serial c parallel workers t calls : forall st0,
    builds_from_with pm c parallel workers t st0 calls = builds_from_with pm c false 0 t st0 calls.
  Proof.
    induction calls as [|seeds calls IH]; intros st0; simpl; auto.
    assert (E : build_from_with pm c parallel workers t st0 seeds = build_from_with pm c false 0 t st0 seeds).
    { unfold build_from_with. destruct (s_pool (init_pool st0 seeds)); auto. apply build_loop_with_serial. }
    rewrite E. destruct (build_from_with pm c false 0 t st0 seeds) as [st1 n1]. now rewrite IH.
  Qed.

  Lemma rows_parallel_with_eq {A B} n_jobs (f : A -> B) rows : rows_parallel_with pm n_jobs f rows = map f rows.
  Proof. unfold rows_parallel_with. destruct (1 <? n_jobs); [apply Hpm|reflexivity]. Qed.

  Theorem validate_with_workers {A} n_jobs (check : A -> bool) rows :
    validate_column_with pm n_jobs check rows = validate_column_with pm 1 check rows /\
    fst (validate_column_with pm n_jobs check rows) = map check rows.
  Proof. unfold validate_column_with. rewrite !rows_parallel_with_eq. split; reflexivity. Qed.

  Theorem balance_with_workers {A} n_jobs (check : A -> bool) rows :
    balance_split_with pm n_jobs check rows = (filter check rows, filter (fun r => negb (check r)) rows).
  Proof.
    unfold balance_split_with. rewrite rows_parallel_with_eq. f_equal.
    - induction rows as [|r rows IH]; simpl; auto. destruct (check r); simpl; now rewrite IH.
    - induction rows as [|r rows IH]; simpl; auto. destruct (check r); simpl; now rewrite IH.
  Qed.
End Contract.

(** non-vacuity: a pool that maps the list back to front and reverses the result also satisfies the contract (any evaluation order
    is allowed); one that drops an item does not *)
Definition rev_pool : pool_map := fun A B _ f l => rev (map f (rev l)).
Definition lossy_pool : pool_map := fun A B _ f l => map f (tl l).
Example pool_contract_examples : pool_contract rev_pool /\ ~ pool_contract lossy_pool.
Proof.
  split.
  - intros A B c f l. unfold rev_pool. now rewrite map_rev, rev_involutive.
  - intros H. specialize (H nat nat 0%nat (fun x => x) [1%nat]). discriminate.
Qed.
