(** C14 — proofs about the heap+cache machine (model/C14_Model.v): cache transparency for the
    pinned key discipline under every allocator / collector / cache size, and the refutation for the
    unpinned discipline. *)
From Coq Require Import NArith List Bool Arith Lia.
Import ListNotations.
From SK Require Import lib.Tok model.C14_Model.
Local Open Scope N_scope.

(* ------------------------------------------------------------------ small list facts *)

Lemma Forall_tl {A} (P : A -> Prop) l : Forall P l -> Forall P (tl l).
Proof. destruct l; simpl; auto. intro H; inversion H; auto. Qed.

Lemma Forall_filter {A} (P : A -> Prop) f l : Forall P l -> Forall P (filter f l).
Proof.
  induction 1; simpl; auto. destruct (f x); auto.
Qed.

Section Transparent.
  Variable R : Type.
  Variable execute : N -> N -> bool -> R.
  Variable cache_on : bool.
  Variable cmax : nat.

  Notation applyP := (apply R execute true cache_on cmax).
  Notation stepP := (step R execute true cache_on cmax).
  Notation runP := (run R execute true cache_on cmax).

  Definition cont_of (cs : list N) (o : N) : N := nth (N.to_nat o) cs 0.

  Definition entry_ok (cs : list N) (e : centry R) : Prop :=
    e_res e = execute (cont_of cs (e_ps e)) (cont_of cs (e_pr e)) (e_kinv e)
    /\ (N.to_nat (e_ps e) < length cs)%nat /\ (N.to_nat (e_pr e) < length cs)%nat.

  Definition obj_ok (cs : list N) (x : obj) : Prop :=
    (N.to_nat (o_id x) < length cs)%nat /\ cont_of cs (o_id x) = o_cont x.

  (** The invariant: identities are allocation serial numbers, every live object carries the content
      it was allocated with, and every cache entry holds the result of executing the rule on the
      contents of the objects it pins.  Addresses do not occur in it. *)
  Definition Inv (cs : list N) (s : state R) : Prop :=
    next s = N.of_nat (length cs) /\ Forall (obj_ok cs) (heap s) /\ Forall (entry_ok cs) (cache s).

  Lemma cont_of_ext cs l o : (N.to_nat o < length cs)%nat -> cont_of (cs ++ l) o = cont_of cs o.
  Proof. intro H. unfold cont_of. apply app_nth1; auto. Qed.

  Lemma obj_ok_ext cs l x : obj_ok cs x -> obj_ok (cs ++ l) x.
  Proof.
    intros [H1 H2]. split.
    - rewrite app_length; lia.
    - rewrite cont_of_ext; auto.
  Qed.

  Lemma entry_ok_ext cs l e : entry_ok cs e -> entry_ok (cs ++ l) e.
  Proof.
    intros (H1 & H2 & H3). repeat split; try (rewrite app_length; lia).
    rewrite !cont_of_ext; auto.
  Qed.

  Lemma find_obj_some o h x : find_obj o h = Some x -> In x h /\ o_id x = o.
  Proof.
    unfold find_obj. intro H. apply find_some in H. destruct H as [H1 H2].
    split; auto. apply N.eqb_eq; auto.
  Qed.

  Lemma upsert_Forall (P : centry R -> Prop) e c : P e -> Forall P c -> Forall P (upsert R e c).
  Proof.
    intros He. induction 1; simpl.
    - constructor; auto.
    - destruct (key_is R (e_ks e) (e_kr e) (e_kinv e) x); constructor; auto.
  Qed.

  Lemma lookup_some a b inv c e :
    lookup R a b inv c = Some e -> In e c /\ e_ks e = a /\ e_kr e = b /\ e_kinv e = inv.
  Proof.
    unfold lookup. intro H. apply find_some in H. destruct H as [H1 H2].
    unfold key_is in H2. apply andb_true_iff in H2. destruct H2 as [H2 H3].
    apply andb_true_iff in H2. destruct H2 as [H2 H4].
    apply N.eqb_eq in H2. apply N.eqb_eq in H4. apply eqb_prop in H3. auto.
  Qed.

  (** _RuleApplier.__call__ answers with execute(contents) and keeps the invariant. *)
  Lemma apply_ok cs s x y inv s' h res :
    Inv cs s -> obj_ok cs x -> obj_ok cs y ->
    applyP s x y inv = (s', (h, res)) ->
    res = execute (o_cont x) (o_cont y) inv /\ Inv cs s'.
  Proof.
    intros (Hn & Hh & Hc) [Hx1 Hx2] [Hy1 Hy2]. unfold apply.
    destruct cache_on; simpl.
    2:{ intro H; inversion H; subst. split; auto. repeat split; auto. }
    destruct (lookup R (o_addr x) (o_addr y) inv (cache s)) as [e|] eqn:El.
    - destruct ((e_ps e =? o_id x) && (e_pr e =? o_id y)) eqn:Eid.
      + intro H; inversion H; subst. split; [|repeat split; auto].
        apply lookup_some in El. destruct El as (Hin & _ & _ & Hinv).
        apply andb_true_iff in Eid. destruct Eid as [E1 E2].
        apply N.eqb_eq in E1. apply N.eqb_eq in E2.
        rewrite Forall_forall in Hc. destruct (Hc _ Hin) as (Hr & _ & _).
        rewrite Hr, E1, E2, Hinv, Hx2, Hy2. reflexivity.
      + intro H; inversion H; subst. split; auto. repeat split; auto. simpl.
        apply upsert_Forall.
        * repeat split; simpl; auto. rewrite Hx2, Hy2. reflexivity.
        * destruct (cmax <=? length (cache s))%nat; auto using Forall_tl.
    - intro H; inversion H; subst. split; auto. repeat split; auto. simpl.
      apply upsert_Forall.
      * repeat split; simpl; auto. rewrite Hx2, Hy2. reflexivity.
      * destruct (cmax <=? length (cache s))%nat; auto using Forall_tl.
  Qed.

  Lemma set_released_ok cs o h : Forall (obj_ok cs) h -> Forall (obj_ok cs) (set_released o h).
  Proof.
    unfold set_released. induction 1; simpl; constructor; auto.
    destruct (o_id x =? o); auto.
  Qed.

  (** Main induction: along every legal trace the answers are the specification's. *)
  Lemma run_ok tr : forall cs s outs fin,
    Inv cs s -> runP s tr = (true, outs, fin) -> map snd outs = spec execute cs tr.
  Proof.
    induction tr as [|ev tr IH]; intros cs s outs fin HI Hrun; simpl in Hrun.
    - inversion Hrun; reflexivity.
    - destruct (stepP s ev) as [[s' out]|] eqn:Es; [|discriminate].
      destruct (runP s' tr) as [[ok' outs'] fin'] eqn:Er.
      inversion Hrun; subst ok' fin'. clear Hrun.
      destruct HI as (Hn & Hh & Hc).
      destruct ev as [a c|so ro inv|o|o]; unfold step in Es.
      + (* EAlloc *)
        destruct (addr_live a (heap s)); [discriminate|]. inversion Es; subst s' out. clear Es.
        simpl. subst outs. apply (IH (cs ++ [c]) _ _ _) in Er; auto.
        repeat split; simpl.
        * rewrite app_length, Hn. simpl. lia.
        * apply Forall_app. split.
          -- eapply Forall_impl; [|exact Hh]. intros; apply obj_ok_ext; auto.
          -- constructor; auto. split; simpl.
             ++ rewrite Hn, Nat2N.id, app_length. simpl. lia.
             ++ unfold cont_of. rewrite Hn, Nat2N.id. rewrite app_nth2; [|lia].
                rewrite Nat.sub_diag. reflexivity.
        * eapply Forall_impl; [|exact Hc]. intros; apply entry_ok_ext; auto.
      + (* EApply *)
        destruct (find_obj so (heap s)) as [x|] eqn:Ex; [|discriminate].
        destruct (find_obj ro (heap s)) as [y|] eqn:Ey; [|discriminate].
        destruct (o_held x && o_held y); [|discriminate].
        destruct (applyP s x y inv) as [s'' [h res]] eqn:Ea.
        inversion Es; subst s' out. clear Es.
        apply find_obj_some in Ex. destruct Ex as [Hx Hxi].
        apply find_obj_some in Ey. destruct Ey as [Hy Hyi].
        rewrite Forall_forall in Hh. pose proof (Hh _ Hx) as Hox. pose proof (Hh _ Hy) as Hoy.
        destruct (apply_ok cs s x y inv s'' h res) as [Hres HI']; auto.
        { repeat split; auto. rewrite Forall_forall; auto. }
        subst outs. simpl. f_equal.
        * rewrite Hres. destruct Hox as [_ Hox]. destruct Hoy as [_ Hoy].
          unfold cont_of in *. rewrite <- Hox, <- Hoy, Hxi, Hyi. reflexivity.
        * eapply IH; eauto.
      + (* ERelease *)
        destruct (find_obj o (heap s)) as [x|]; [|discriminate].
        destruct (o_held x); [|discriminate]. inversion Es; subst s' out. clear Es.
        subst outs. eapply IH; [|exact Er]. repeat split; simpl; auto using set_released_ok.
      + (* ECollect *)
        destruct (find_obj o (heap s)) as [x|]; [|discriminate].
        destruct (o_held x || (true && pins R o (cache s))); [discriminate|].
        inversion Es; subst s' out. clear Es.
        subst outs. eapply IH; [|exact Er]. repeat split; simpl; auto.
        unfold remove_obj. apply Forall_filter; auto.
  Qed.

  Lemma init_Inv : Inv [] (init R).
  Proof. repeat split; simpl; auto. Qed.

  Theorem cache_transparent tr outs fin :
    runP (init R) tr = (true, outs, fin) -> map snd outs = spec execute [] tr.
  Proof. intro H. eapply run_ok; eauto using init_Inv. Qed.

  (** The same from any state satisfying the invariant — in particular from a cache whose KEYS are
      meaningless in this process (a pickled copy shipped to a worker process): the identity check,
      not the key, is what makes a hit sound. *)
  Theorem cache_transparent_from cs s tr outs fin :
    Inv cs s -> runP s tr = (true, outs, fin) -> map snd outs = spec execute cs tr.
  Proof. intros; eapply run_ok; eauto. Qed.
End Transparent.

(** With the cache switched off the machine computes the specification as well, so "cache on" and
    "cache off" agree on every trace that is legal for both. *)
Corollary cache_on_equals_off R execute cmax tr outs1 fin1 outs2 fin2 :
  run R execute true true cmax (init R) tr = (true, outs1, fin1) ->
  run R execute true false cmax (init R) tr = (true, outs2, fin2) ->
  map snd outs1 = map snd outs2.
Proof.
  intros H1 H2. rewrite (cache_transparent _ _ _ _ _ _ _ H1), (cache_transparent _ _ _ _ _ _ _ H2). reflexivity.
Qed.

(* ------------------------------------------------------------------ non-vacuity of cache_transparent *)

(** A legal trace with cache size 1 in which the allocator reuses the address of a collected
    substrate after its entry was evicted, with one genuine hit (same objects) and evictions. *)
Definition nv_exec (s r : N) (inv : bool) : list N := [s; r; if inv then 1 else 0].
Definition nv_trace : list event :=
  [EAlloc 7 100; EAlloc 8 200; EApply 0 1 false; EApply 0 1 false; EAlloc 9 101; EApply 2 1 false;
   ERelease 0; ECollect 0; EAlloc 7 102; EApply 3 1 false; EApply 3 1 true; EApply 2 1 false].

Example cache_transparent_nonvacuous :
  let '(ok, outs, fin) := run (list N) nv_exec true true 1 (init _) nv_trace in
  ok = true /\ map fst outs = [false; true; false; false; false; false]
  /\ map snd outs = spec nv_exec [] nv_trace
  /\ map snd outs = [[100; 200; 0]; [100; 200; 0]; [101; 200; 0]; [102; 200; 0]; [102; 200; 1]; [101; 200; 0]]
  /\ length (cache fin) = 1%nat.
Proof. vm_compute. repeat split; reflexivity. Qed.

(** While the entry pins the substrate the collector may not free it (so its address cannot be reused). *)
Example pinned_object_not_collectable :
  fst (fst (run (list N) nv_exec true true 8 (init _)
              [EAlloc 7 100; EAlloc 8 200; EApply 0 1 false; ERelease 0; ECollect 0])) = false.
Proof. vm_compute. reflexivity. Qed.

(* ------------------------------------------------------------------ the unpinned discipline *)

(** The unpinned key discipline (the code before the repair) is not transparent: a two-entry
    history in which the allocator hands the first substrate's address to the second. *)
Definition refute_exec (s r : N) (inv : bool) : list N := [s].
Definition refute_trace : list event :=
  [EAlloc 1 10; EAlloc 2 20; EApply 0 1 false; ERelease 0; ECollect 0; EAlloc 1 11; EApply 2 1 false].

Lemma cache_transparent_unpinned_refuted :
  exists (execute : N -> N -> bool -> list N) (tr : list event) (cmax : nat) outs fin,
    (1 <= cmax)%nat /\
    run (list N) execute false true cmax (init _) tr = (true, outs, fin) /\
    client_view tr = [CAlloc 10; CAlloc 20; CApply 0 1 false; CRelease 0; CAlloc 11; CApply 2 1 false] /\
    map snd outs <> spec execute [] tr.
Proof.
  exists refute_exec, refute_trace, 8%nat. eexists. eexists. split; [lia|].
  split; [vm_compute; reflexivity|]. split; [reflexivity|].
  vm_compute. congruence.
Qed.
