(** C14 — proofs about the heap+cache machine (model/C14_Model.v). *)
From Coq Require Import NArith List Bool Arith Lia.
Import ListNotations.
From SK Require Import lib.Tok model.C14_Model.
Local Open Scope N_scope.

(** The unpinned key discipline (the code before the repair) is not transparent: a two-entry
    history in which the allocator hands the first substrate's address to the second. *)
Definition refute_exec (s r : N) (inv : bool) : list N := [s].
Definition refute_trace : list event :=
  [EAlloc 1 10; EAlloc 2 20; EApply 0 1 false; ERelease 0; ECollect 0; EAlloc 1 11; EApply 2 1 false].

Lemma cache_transparent_unpinned_refuted :
  exists (execute : N -> N -> bool -> list N) (tr : list event) (cmax : nat),
    (1 <= cmax)%nat /\
    let '(ok, outs, _) := run (list N) execute false true cmax (init _) tr in
    ok = true /\ client_view tr = [CAlloc 10; CAlloc 20; CApply 0 1 false; CRelease 0; CAlloc 11; CApply 2 1 false] /\
    nth 1 outs (false, []) = (true, execute 10 20 false) /\ execute 10 20 false <> execute 11 20 false.
Proof.
  exists refute_exec, refute_trace, 8%nat. split; [lia|].
  vm_compute. repeat split; congruence.
Qed.
