(** C11 (round 3) — the pruning step keeps exactly the FIRST match of every class of matches that differ by an
    automorphism of the rule centre: with C11_prune_complete this characterises its output completely
    (one representative per class, the earliest, in input order).  Stdlib lists. *)
From Coq Require Import List NArith ZArith Bool Arith Lia.
From SK Require Import lib.LGraph lib.Mono lib.Reach model.C11_Model proof.C11_Aut proof.C11_Dedup proof.C11_Main.
Import ListNotations.

Section Cls.
Variable X : Type.
Variable key : X -> mapping.
Variable A : list mapping.

(** [m] has the items of [m'], or the items of [m'] with the pattern side moved by a member of [A] *)
Definition rel1 (m m' : mapping) : Prop :=
  set_eqb m m' = true \/ exists s, In s A /\ set_eqb m (act s m') = true.

Variable D : mapping -> Prop.
Hypothesis rel1_trans : forall a b c, D a -> D b -> D c -> rel1 a b -> rel1 b c -> rel1 a c.

Definition seen_ok (seen : list mapping) (ys : list X) : Prop :=
  forall m, existsb (set_eqb m) seen = true <-> exists y, In y ys /\ rel1 m (key y).

Definition first_cls (xs : list X) (x : X) : Prop :=
  forall l1 l2, xs = l1 ++ x :: l2 -> forall z, In z l1 -> ~ rel1 (key x) (key z).

Lemma seen_ok_step seen ys x : seen_ok seen ys ->
  seen_ok (key x :: map (fun s => act s (key x)) A ++ seen) (x :: ys).
Proof.
  intros H m. simpl. rewrite orb_true_iff, existsb_app, orb_true_iff, (H m). split.
  - intros [E|[E|(y & Hy & R)]].
    + exists x. split; [left; reflexivity | left; exact E].
    + apply existsb_exists in E. destruct E as (m' & Hm' & E). apply in_map_iff in Hm'. destruct Hm' as (s & <- & Hs).
      exists x. split; [left; reflexivity | right; eauto].
    + exists y. split; [right; exact Hy | exact R].
  - intros (y & [<-|Hy] & R).
    + destruct R as [E|(s & Hs & E)]; [left; exact E|]. right. left. apply existsb_exists.
      exists (act s (key x)). split; [apply in_map_iff; eauto | exact E].
    + right. right. eauto.
Qed.

Lemma go_first xs : forall seen ys, NoDup xs ->
  (forall x, In x xs -> D (key x)) -> (forall y, In y ys -> D (key y)) -> seen_ok seen ys ->
  forall x, In x (dedup_aut_go key A xs seen) <->
            (In x xs /\ first_cls xs x /\ forall y, In y ys -> ~ rel1 (key x) (key y)).
Proof.
  induction xs as [|h r IH]; intros seen ys Hnd HD HDy Hok x; simpl; [tauto|].
  inversion Hnd as [|? ? Hh Hr]; subst.
  assert (HDr : forall x, In x r -> D (key x)) by (intros; apply HD; right; assumption).
  assert (Hsplit : forall y l1 l2, In y r -> h :: r = l1 ++ y :: l2 -> exists l1', l1 = h :: l1' /\ r = l1' ++ y :: l2).
  { intros y l1 l2 Hy E. destruct l1 as [|a l1]; simpl in E; inversion E; subst; [contradiction | eauto]. }
  destruct (existsb (set_eqb (key h)) seen) eqn:Eh.
  - apply (Hok (key h)) in Eh. destruct Eh as (y0 & Hy0 & R0).
    rewrite (IH seen ys Hr HDr HDy Hok x). split.
    + intros (Hx & Hf & Hy). split; [right; exact Hx|]. split; [|exact Hy].
      intros l1 l2 E z Hz. destruct (Hsplit x l1 l2 Hx E) as (l1' & -> & E').
      destruct Hz as [<-|Hz]; [|apply (Hf l1' l2 E' z Hz)].
      intros R. apply (Hy y0 Hy0). apply (rel1_trans (key x) (key h) (key y0)); auto. apply HD. left. reflexivity.
    + intros ([<-|Hx] & Hf & Hy); [exfalso; exact (Hy y0 Hy0 R0)|].
      split; [exact Hx|]. split; [|exact Hy].
      intros l1 l2 E z Hz. apply (Hf (h :: l1) l2); [rewrite E; reflexivity | right; exact Hz].
  - assert (Hmiss : forall y, In y ys -> ~ rel1 (key h) (key y)).
    { intros y Hy R. assert (existsb (set_eqb (key h)) seen = true) by (apply Hok; eauto). congruence. }
    simpl.
    assert (HDy' : forall y, In y (h :: ys) -> D (key y)) by (intros y [<-|Hy]; [apply HD; left; reflexivity | auto]).
    rewrite (IH _ (h :: ys) Hr HDr HDy' (seen_ok_step seen ys h Hok) x). split.
    + intros [<-|(Hx & Hf & Hy)].
      * split; [left; reflexivity|]. split; [|exact Hmiss].
        intros l1 l2 E z Hz. destruct l1 as [|a l1]; [destruct Hz|].
        simpl in E. inversion E; subst. exfalso. apply Hh. apply in_or_app. right. left. reflexivity.
      * split; [right; exact Hx|]. split.
        -- intros l1 l2 E z Hz. destruct (Hsplit x l1 l2 Hx E) as (l1' & -> & E').
           destruct Hz as [<-|Hz]; [apply Hy; left; reflexivity | apply (Hf l1' l2 E' z Hz)].
        -- intros y Hyin. apply Hy. right. exact Hyin.
    + intros ([<-|Hx] & Hf & Hy); [left; reflexivity|]. right.
      split; [exact Hx|]. split.
      * intros l1 l2 E z Hz. apply (Hf (h :: l1) l2); [rewrite E; reflexivity | right; exact Hz].
      * intros y [<-|Hyin]; [|apply Hy; exact Hyin].
        destruct (in_split _ _ Hx) as (l1 & l2 & E).
        apply (Hf (h :: l1) l2); [rewrite E; reflexivity | left; reflexivity].
Qed.

Lemma dedup_aut_first xs : NoDup xs -> (forall x, In x xs -> D (key x)) ->
  forall x, In x (dedup_aut key A xs) <-> (In x xs /\ first_cls xs x).
Proof.
  intros Hnd HD x. unfold dedup_aut.
  rewrite (go_first xs [] [] Hnd HD (fun y H => match H with end)).
  - split; [intros (a & b & _); auto | intros (a & b); split; [exact a | split; [exact b | intros y []]]].
  - intros m. simpl. split; [discriminate | intros (y & [] & _)].
Qed.
End Cls.

(** ---------- the rule automorphisms: [rel1] is transitive on matches that live on the nodes of the rule centre ---------- *)
Definition on_nodes (rc : graph) (m : mapping) : Prop := forall p h, In (p, h) m -> In p (node_ids rc).

Lemma set_eqb_trans a b c : set_eqb a b = true -> set_eqb b c = true -> set_eqb a c = true.
Proof. rewrite !set_eqb_spec. intros H1 H2 x. rewrite (H1 x). apply H2. Qed.

Lemma act_set_eq s a b : set_eqb a b = true -> set_eqb (act s a) (act s b) = true.
Proof.
  rewrite !set_eqb_spec. intros H [p h]. rewrite !in_act.
  split; intros (p' & Hin & E); exists p'; (split; [apply H; exact Hin | exact E]).
Qed.

Lemma act_compose (rc : graph) (s t : N -> N) (c : mapping) :
  simple_graph rc -> is_automorphism n_full e_full rc t -> on_nodes rc c ->
  set_eqb (act (aut_pairs rc s) (act (aut_pairs rc t) c)) (act (aut_pairs rc (fun u => s (t u))) c) = true.
Proof.
  intros Hg Ht Hc. apply set_eqb_spec. intros [p h]. rewrite !in_act. split.
  - intros (p' & Hin & ->). apply in_act in Hin. destruct Hin as (p'' & Hin & ->).
    exists p''. split; [exact Hin|].
    pose proof (Hc p'' h Hin) as Hp.
    rewrite (app_map_aut_pairs rc t p'' (proj1 Hg) Hp).
    rewrite (app_map_aut_pairs rc s (t p'') (proj1 Hg)) by (apply Ht; exact Hp).
    rewrite (app_map_aut_pairs rc (fun u => s (t u)) p'' (proj1 Hg) Hp). reflexivity.
  - intros (p'' & Hin & ->). pose proof (Hc p'' h Hin) as Hp.
    exists (t p''). split.
    + apply in_act. exists p''. split; [exact Hin|]. symmetry. apply app_map_aut_pairs; [apply Hg | exact Hp].
    + rewrite (app_map_aut_pairs rc (fun u => s (t u)) p'' (proj1 Hg) Hp).
      rewrite (app_map_aut_pairs rc s (t p'') (proj1 Hg)) by (apply Ht; exact Hp). reflexivity.
Qed.

Lemma rel1_rule_trans (rc : graph) : simple_graph rc ->
  forall a b c, on_nodes rc a -> on_nodes rc b -> on_nodes rc c ->
    rel1 (rule_auts rc) a b -> rel1 (rule_auts rc) b c -> rel1 (rule_auts rc) a c.
Proof.
  intros Hg a b c _ _ Hc [E1|(s & Hs & E1)] [E2|(t & Ht & E2)].
  - left. eapply set_eqb_trans; eauto.
  - right. exists t. split; [exact Ht|]. eapply set_eqb_trans; eauto.
  - right. exists s. split; [exact Hs|]. eapply set_eqb_trans; [exact E1|]. apply act_set_eq. exact E2.
  - right. unfold rule_auts in *.
    apply (auts_listing n_full e_full rc Hg) in Hs. destruct Hs as (fs & Hfs & ->).
    apply (auts_listing n_full e_full rc Hg) in Ht. destruct Ht as (ft & Hft & ->).
    exists (aut_pairs rc (fun u => fs (ft u))). split.
    + apply (auts_listing n_full e_full rc Hg). exists (fun u => fs (ft u)). split; [|reflexivity].
      apply isaut_comp; assumption.
    + eapply set_eqb_trans; [exact E1|]. eapply set_eqb_trans; [apply act_set_eq; exact E2|].
      apply act_compose; assumption.
Qed.

(** [rel1] in terms of functions: m = m' o sigma^-1 for an automorphism sigma of the rule centre *)
Lemma rel1_fun (rc : graph) (m m' : mapping) : simple_graph rc -> on_nodes rc m' ->
  (rel1 (rule_auts rc) m m' <->
   exists s, is_automorphism n_full e_full rc s /\
             forall p h, In (p, h) m <-> exists p', In (p', h) m' /\ p = s p').
Proof.
  intros Hg Hm'. split.
  - intros [E|(t & Ht & E)].
    + exists (fun u => u). split; [apply isaut_id|]. rewrite set_eqb_spec in E. intros p h. rewrite (E (p, h)).
      split; [intros H; exists p; auto | intros (p' & H & ->); exact H].
    + apply (auts_listing n_full e_full rc Hg) in Ht. destruct Ht as (s & Hs & ->). exists s. split; [exact Hs|].
      rewrite set_eqb_spec in E. intros p h. rewrite (E (p, h)), in_act.
      split; intros (p' & H & ->); exists p'; (split; [exact H|]);
        [|symmetry]; apply app_map_aut_pairs; try apply Hg; eapply Hm'; eauto.
  - intros (s & Hs & H). right. exists (aut_pairs rc s). split.
    + apply (auts_listing n_full e_full rc Hg). eauto.
    + apply set_eqb_spec. intros [p h]. rewrite (H p h), in_act.
      split; intros (p' & Hin & ->); exists p'; (split; [exact Hin|]);
        [symmetry|]; apply app_map_aut_pairs; try apply Hg; eapply Hm'; eauto.
Qed.

Lemma prune_first_of_class (X : Type) (key : X -> mapping) (rc : graph) (raw : list X) :
  simple_graph rc -> NoDup raw -> (forall x, In x raw -> on_nodes rc (key x)) ->
  forall x, In x (prune key rc raw) <->
    (In x raw /\
     forall l1 l2, raw = l1 ++ x :: l2 -> forall z, In z l1 ->
       ~ exists s, is_automorphism n_full e_full rc s /\
                   forall p h, In (p, h) (key x) <-> exists p', In (p', h) (key z) /\ p = s p').
Proof.
  intros Hg Hnd HD x.
  assert (Hconv : forall z, In z raw ->
            (rel1 (rule_auts rc) (key x) (key z) <->
             exists s, is_automorphism n_full e_full rc s /\
                       forall p h, In (p, h) (key x) <-> exists p', In (p', h) (key z) /\ p = s p')).
  { intros z Hz. apply rel1_fun; [exact Hg | apply HD; exact Hz]. }
  unfold prune. destruct (1 <? length raw)%nat eqn:El.
  - rewrite (dedup_aut_first X key (rule_auts rc) (on_nodes rc) (rel1_rule_trans rc Hg) raw Hnd HD x).
    unfold first_cls. split; intros (Hx & Hf); (split; [exact Hx|]); intros l1 l2 E z Hz.
    + rewrite <- Hconv; [apply (Hf l1 l2 E z Hz)|]. rewrite E. apply in_or_app. left. exact Hz.
    + rewrite Hconv; [apply (Hf l1 l2 E z Hz)|]. rewrite E. apply in_or_app. left. exact Hz.
  - apply Nat.ltb_ge in El. split; [|tauto]. intros Hx. split; [exact Hx|].
    intros l1 l2 E z Hz. exfalso. rewrite E, app_length in El. simpl in El.
    destruct l1; [destruct Hz | simpl in El; lia].
Qed.

(** non-vacuity: on the example of C11_Main the first and the third match are the first of their classes *)
Example ex_first_of_class :
  NoDup ex_raw /\ (forall x, In x ex_raw -> on_nodes ex_path x) /\
  prune (fun m : mapping => m) ex_path ex_raw = [[(1, 7); (2, 8); (3, 9)]; [(1, 7); (2, 8); (3, 6)]]%N.
Proof.
  split; [|split; [|vm_compute; reflexivity]].
  - unfold ex_raw. repeat constructor; simpl; intuition discriminate.
  - intros x Hx p h Hin. simpl in Hx.
    destruct Hx as [<-|[<-|[<-|[]]]]; simpl in Hin;
      repeat (destruct Hin as [Hin|Hin]; [inversion Hin; subst; simpl; tauto|]); destruct Hin.
Qed.
