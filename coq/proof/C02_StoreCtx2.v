(** C02 (round 5) — (a) extract_k on pair-/absent-label graphs commutes with renumbering for EVERY option value (n_knn = -1 through
    the skeleton); (b) the way the ITS stores its labels does not change the contexts either: the flattened radius-k context of a
    store=True ITS is the radius-k context of its store=False twin. *)
From Coq Require Import List NArith ZArith Bool Lia.
From SK Require Import lib.LGraph lib.Reach lib.C01_GraphLemmas model.C01_Model model.C01_Opts model.C02_Model
                       proof.C02_Proof proof.C02_Opts proof.C02_OptsEquiv proof.C02_CtxEquiv proof.C02_LreEquiv
                       proof.C02_Lre proof.C02_Store proof.C02_StoreCtx proof.C02_StoreEquiv proof.C02_StoreNest.
From SK Require Import proof.C01_OptsProof.
From SK Require Import model.C02_Store.
Import ListNotations.
Local Open Scope Z_scope.

(** * (a) *)
Lemma skel_relabel {A} (f : N -> N) (g : lgraph A xedge) : skel (relabel f g) = relabel f (skel g).
Proof.
  unfold skel, gmap, relabel. simpl. rewrite !map_map. f_equal. apply map_ext. intros [[u v] x]. reflexivity.
Qed.

Theorem ctxS_z_equivariant (f : N -> N) (Hinj : forall a b, f a = f b -> a = b) (g : sits) (k : Z) : wf g ->
  extract_k_S_z (relabel f g) k = relabel f (extract_k_S_z g k).
Proof.
  intros W. unfold extract_k_S_z. destruct (k =? 0); [apply (rcS_equivariant f Hinj); exact W|].
  rewrite (rcS_equivariant f Hinj K_default false false g W), (node_ids_relabel f). destruct (k =? -1).
  - rewrite skel_relabel, (lre_relabel f Hinj), map_length. apply (ball_sub_equivariant f Hinj).
  - apply (ball_sub_equivariant f Hinj).
Qed.

(** * (b) *)
Lemma nbrs_gmap {A A' B B'} (fn : A -> A') (fe : B -> B') (g : lgraph A B) u : nbrs (gmap fn fe g) u = nbrs g u.
Proof.
  unfold nbrs, gmap. simpl. induction (gedges g) as [|[[a b] x] r IH]; simpl; [reflexivity|]. rewrite IH. reflexivity.
Qed.

Lemma step_gmap {A A' B B'} (fn : A -> A') (fe : B -> B') (g : lgraph A B) S : Reach.step (nbrs (gmap fn fe g)) S = Reach.step (nbrs g) S.
Proof. unfold Reach.step. f_equal. apply flat_map_ext. intros u. apply nbrs_gmap. Qed.

Lemma knn_g_gmap {A A' B B'} (fn : A -> A') (fe : B -> B') (g : lgraph A B) S k : knn_g (gmap fn fe g) S k = knn_g g S k.
Proof. unfold knn_g. induction k as [|k IH]; simpl; [reflexivity|]. rewrite IH. apply step_gmap. Qed.

Lemma induced_gmap {A A' B B'} (fn : A -> A') (fe : B -> B') (g : lgraph A B) L : gmap fn fe (induced_sub g L) = induced_sub (gmap fn fe g) L.
Proof.
  unfold induced_sub, gmap. simpl. f_equal.
  - induction (gnodes g) as [|[n a] r IH]; simpl; [reflexivity|]. destruct (LGraph.mem n L); simpl; rewrite IH; reflexivity.
  - induction (gedges g) as [|[[a b] x] r IH]; simpl; [reflexivity|]. destruct (LGraph.mem a L && LGraph.mem b L); simpl; rewrite IH; reflexivity.
Qed.

Theorem ctxS_twin (g : itsS) (k : nat) : el_same g -> (1 <= k)%nat ->
  gmapn flat (extract_k_S (emb_S g) k) = emb (extract_k (gmap twin (fun e : iedge => e) g) k).
Proof.
  intros Hs Hk. destruct k as [|j]; [lia|]. set (T := gmap twin (fun e : iedge => e) g).
  change (extract_k_S (emb_S g) (S j)) with (ball_sub (emb_S g) (node_ids (get_rc_S K_default false false (emb_S g))) (S j)).
  rewrite ball_sub_gmapn, (flat_emb_S g Hs). fold T.
  assert (node_ids (get_rc_S K_default false false (emb_S g)) = node_ids (get_rc T)) as ->.
  { rewrite <- (node_ids_gmapn flat), (rcS_twin K_default false false g Hs). fold T. rewrite rcx_default_emb.
    unfold node_ids, gmap. simpl. rewrite map_map. reflexivity. }
  rewrite C02_Proof.extract_k_S. unfold emb. rewrite induced_gmap. unfold ball_sub.
  rewrite (knn_g_gmap xn_of (fun e : iedge => (e, @None bool)) T). reflexivity.
Qed.

(** end to end: the radius-k context of construct(G, H, store=True), flattened, is the radius-k context of construct(G, H, store=False) *)
Theorem ctxS_construct o G H (k : nat) : el_same (its_construct_S o G H) -> (1 <= k)%nat ->
  gmapn flat (extract_k_S (emb_S (its_construct_S o G H)) k) = emb (extract_k (its_construct_o o G H) k).
Proof. intros Hs Hk. rewrite (ctxS_twin _ k Hs Hk), twin_construct. reflexivity. Qed.

Example C02_ctxS_twin_nonvacuous :
  el_same ctxS_ex /\ gmapn flat (extract_k_S (emb_S ctxS_ex) 1) = emb (extract_k (gmap twin (fun e : iedge => e) ctxS_ex) 1) /\
  length (gnodes (extract_k (gmap twin (fun e : iedge => e) ctxS_ex) 1)) = 5%nat /\
  extract_k_S_z (relabel (N.add 10) (emb_S ctxS_ex)) (-1) = relabel (N.add 10) (extract_k_S_z (emb_S ctxS_ex) (-1)).
Proof.
  assert (el_same ctxS_ex) as Hs by (intros n a I; repeat (destruct I as [I|I]; [inversion I; reflexivity|]); destruct I).
  split; [exact Hs|]. split; [apply ctxS_twin; [exact Hs|lia]|]. split; [reflexivity|].
  apply ctxS_z_equivariant; [intros a b; apply N.add_cancel_l|exact (proj1 C02_ctxS_nonvacuous)].
Qed.

(** * theorem 8 (which atoms, with which labels) and theorem 11 (default centre within every variant) for every label shape *)
Definition inc_end_S (m : bool) (g : sits) (n : N) : Prop := exists v x, adj g n v = Some x /\ include_x m x = true.
Definition hh_end_S (g : sits) (n : N) : Prop := exists v x, adj g n v = Some x /\ is_hh_g ish_S g n v = true.

Lemma inc_end_flat m (g : sits) n : inc_end m (gmapn flat g) n <-> inc_end_S m g n.
Proof. unfold inc_end, inc_end_S. change (adj (gmapn flat g)) with (adj g). tauto. Qed.

Lemma hh_end_flat (g : sits) n : hh_end (gmapn flat g) n <-> hh_end_S g n.
Proof.
  unfold hh_end, hh_end_S. change (adj (gmapn flat g)) with (adj g).
  split; intros (v & x & A & P); exists v, x; (split; [exact A|]);
    [rewrite <- (is_hh_fmap snode ish_S flat flat_ish g n v)|rewrite (is_hh_fmap snode ish_S flat flat_ish g n v)]; exact P.
Qed.

Lemma flat_sel_inj K a b : flat (selS K a) = flat b -> (b = selS K a \/ b = selS_hh K a) -> b = selS K a.
Proof.
  intros F [->| ->]; [reflexivity|]. pose proof (f_equal x_gh F) as G. destruct a as [el ch am ar hc nb gh].
  unfold selS, selS_hh, flat in *. simpl in *. rewrite G. reflexivity.
Qed.
Lemma flat_selhh_inj K a b : flat (selS_hh K a) = flat b -> (b = selS K a \/ b = selS_hh K a) -> b = selS_hh K a.
Proof.
  intros F [->| ->]; [|reflexivity]. pose proof (f_equal x_gh F) as G. destruct a as [el ch am ar hc nb gh].
  unfold selS, selS_hh, flat in *. simpl in *. rewrite <- G. reflexivity.
Qed.

Theorem rcS_nodes K d m (g : sits) : wf g -> forall n b,
  label (get_rc_S K d m g) n = Some b <->
  exists a, label g n = Some a /\
    ((inc_end_S m g n /\ b = selS K a) \/
     (~ inc_end_S m g n /\ hh_end_S g n /\ b = selS_hh K a) \/
     (~ inc_end_S m g n /\ ~ hh_end_S g n /\ d = true /\ cc_S a = true /\ b = selS K a)).
Proof.
  intros W n b. pose proof (wf_gmapn flat g W) as Wf.
  assert (forall c, label (get_rc_S K d m g) n = Some c -> label (get_rc_x K d m (gmapn flat g)) n = Some (flat c)) as ToX.
  { intros c L. rewrite <- rcS_flat, label_gmapn, L. reflexivity. }
  split.
  - intros L. destruct (@labels_get_rc_g snode (selS K) (selS_hh K) ish_S cc_S d m g (proj1 W) n b L) as (a & La & Hb).
    exists a. split; [exact La|]. pose proof (ToX b L) as LX. apply (rcx_nodes K d m (gmapn flat g) Wf) in LX.
    destruct LX as (a' & La' & Cases). rewrite label_gmapn, La in La'. simpl in La'. injection La' as <-.
    rewrite !inc_end_flat, !hh_end_flat in Cases. destruct Cases as [(I & E)|[(NI & Hh & E)|(NI & NH & D & C & E)]].
    + left. split; [exact I|]. apply flat_sel_inj; [rewrite flat_sel; symmetry; exact E|exact Hb].
    + right. left. split; [exact NI|]. split; [exact Hh|]. apply flat_selhh_inj; [rewrite flat_sel_hh; symmetry; exact E|exact Hb].
    + right. right. repeat split; auto. apply flat_sel_inj; [rewrite flat_sel; symmetry; exact E|exact Hb].
  - intros (a & La & Cases).
    assert (label (get_rc_x K d m (gmapn flat g)) n = Some (flat b)) as LX.
    { apply (rcx_nodes K d m (gmapn flat g) Wf). exists (flat a). split; [rewrite label_gmapn, La; reflexivity|].
      rewrite !inc_end_flat, !hh_end_flat. destruct Cases as [(I & ->)|[(NI & Hh & ->)|(NI & NH & D & C & ->)]].
      - left. split; [exact I|apply flat_sel].
      - right. left. repeat split; auto. apply flat_sel_hh.
      - right. right. repeat split; auto. apply flat_sel. }
    rewrite <- rcS_flat, label_gmapn in LX. destruct (label (get_rc_S K d m g) n) as [c|] eqn:Lc; [|discriminate]. simpl in LX.
    f_equal. assert (flat c = flat b) as Fc by congruence.
    destruct (@labels_get_rc_g snode (selS K) (selS_hh K) ish_S cc_S d m g (proj1 W) n c Lc) as (a' & La' & Hc).
    rewrite La in La'. injection La' as <-.
    destruct Cases as [(I & ->)|[(NI & Hh & ->)|(NI & NH & D & C & ->)]].
    + apply flat_sel_inj; [symmetry; exact Fc|exact Hc].
    + apply flat_selhh_inj; [symmetry; exact Fc|exact Hc].
    + apply flat_sel_inj; [symmetry; exact Fc|exact Hc].
Qed.

Theorem rcS_default_sub K d m (g : sits) : wf g ->
  (forall n, In n (node_ids (get_rc_S K false false g)) -> In n (node_ids (get_rc_S K d m g))) /\
  (forall u v y, adj (get_rc_S K false false g) u v = Some y -> adj (get_rc_S K d m g) u v = Some y).
Proof.
  intros W. destruct (rcx_default_sub K d m (gmapn flat g) (wf_gmapn flat g W)) as [HN HA]. rewrite <- !rcS_flat in HN, HA.
  rewrite !node_ids_gmapn in HN. split; [exact HN|exact HA].
Qed.

Example C02_rcS_nodes_nonvacuous :
  wf (emb_S exS) /\ inc_end_S false (emb_S exS) 1%N /\ label (get_rc_S K_default false false (emb_S exS)) 1%N = option_map (selS K_default) (label (emb_S exS) 1%N) /\
  label (emb_S exS) 1%N <> None.
Proof.
  split; [exact (proj1 C02_store_nonvacuous)|]. split; [exists 2%N, (IE 4 2 2, None); split; reflexivity|]. split; [reflexivity|vm_compute; discriminate].
Qed.

(** * clause 1 of the property, verbatim, on graphs of any label shape: with standard_order = order difference a bond is in the
    centre iff its two orders differ or both atoms are hydrogens ("H" or ("H","H")); with the ignore_aromaticity rule: iff they
    differ by at least 1 *)
Definition std_consistent_S (g : sits) : Prop := forall u v x, In (u, v, x) (gedges g) -> e_std (fst x) = e_G (fst x) - e_H (fst x).
Definition ia_consistent_S (g : sits) : Prop :=
  forall u v x, In (u, v, x) (gedges g) -> e_std (fst x) = if Z.abs (e_G (fst x) - e_H (fst x)) <? 2 then 0 else e_G (fst x) - e_H (fst x).

Theorem rcS_edges_std (g : sits) : wf g -> std_consistent_S g -> forall u v y,
  adj (get_rc_S K_default false false g) u v = Some y <->
  exists x, adj g u v = Some x /\ (e_G (fst x) <> e_H (fst x) \/ is_hh_g ish_S g u v = true) /\ y = out_edge x.
Proof.
  intros W Hs u v y. rewrite (rcS_edges K_default false false g W).
  assert (forall x, adj g u v = Some x -> (include_x false x = true <-> e_G (fst x) <> e_H (fst x))) as Eq.
  { intros x A. apply (wf_adj_iff W) in A. assert (e_std (fst x) = e_G (fst x) - e_H (fst x)) as E by (destruct A as [A|A]; eapply Hs; eauto).
    unfold include_x, changed. simpl. rewrite orb_false_r, negb_true_iff, Z.eqb_neq, E. lia. }
  split.
  - intros (x & A & [[[I|Hh] ->]|(_ & _ & C & _)]); [| |discriminate]; exists x; (split; [exact A|]); (split; [|reflexivity]).
    + left. apply (Eq x A). exact I.
    + right. exact Hh.
  - intros (x & A & [D|Hh] & ->); exists x; (split; [exact A|]); left; (split; [|reflexivity]).
    + left. apply (Eq x A). exact D.
    + right. exact Hh.
Qed.

Theorem rcS_edges_ia (g : sits) : wf g -> ia_consistent_S g -> forall u v y,
  adj (get_rc_S K_default false false g) u v = Some y <->
  exists x, adj g u v = Some x /\ (2 <= Z.abs (e_G (fst x) - e_H (fst x)) \/ is_hh_g ish_S g u v = true) /\ y = out_edge x.
Proof.
  intros W Hs u v y. rewrite (rcS_edges K_default false false g W).
  assert (forall x, adj g u v = Some x -> (include_x false x = true <-> 2 <= Z.abs (e_G (fst x) - e_H (fst x)))) as Eq.
  { intros x A. apply (wf_adj_iff W) in A.
    assert (e_std (fst x) = if Z.abs (e_G (fst x) - e_H (fst x)) <? 2 then 0 else e_G (fst x) - e_H (fst x)) as E by (destruct A as [A|A]; eapply Hs; eauto).
    unfold include_x, changed. simpl. rewrite orb_false_r, negb_true_iff, Z.eqb_neq, E.
    destruct (Z.ltb_spec (Z.abs (e_G (fst x) - e_H (fst x))) 2); lia. }
  split.
  - intros (x & A & [[[I|Hh] ->]|(_ & _ & C & _)]); [| |discriminate]; exists x; (split; [exact A|]); (split; [|reflexivity]).
    + left. apply (Eq x A). exact I.
    + right. exact Hh.
  - intros (x & A & [D|Hh] & ->); exists x; (split; [exact A|]); left; (split; [|reflexivity]).
    + left. apply (Eq x A). exact D.
    + right. exact Hh.
Qed.

(** every ITS that ITSConstruction builds with store=True is consistent in the sense its options say *)
Lemma construct_S_consistent o G H :
  (o_ia o = false -> std_consistent_S (emb_S (its_construct_S o G H))) /\ (o_ia o = true -> ia_consistent_S (emb_S (its_construct_S o G H))).
Proof.
  split; intros Ho u v x I; unfold emb_S, gmap, its_construct_S, its_construct_gen in I; simpl in I;
    apply in_map_iff in I; destruct I as ([[a b] e] & E & I); inversion E; subst; simpl;
    apply in_app_iff in I; destruct I as [I|I]; apply in_map_iff in I; destruct I as ([[a' b'] z] & E' & _); inversion E'; subst;
    unfold mk_iedge_o, std_of; simpl; rewrite Ho; simpl; reflexivity.
Qed.

Example C02_rcS_edges_std_nonvacuous :
  wf (emb_S ctxS_ex) /\ std_consistent_S (emb_S ctxS_ex) /\
  adj (get_rc_S K_default false false (emb_S ctxS_ex)) 1%N 2%N = Some (IE 2 2 0, Some false) /\ is_hh_g ish_S (emb_S ctxS_ex) 1%N 2%N = true /\
  adj (get_rc_S K_default false false (emb_S ctxS_ex)) 3%N 4%N = Some (IE 4 2 2, Some false).
Proof.
  split; [exact (proj1 C02_ctxS_nonvacuous)|]. split; [|vm_compute; repeat split; reflexivity].
  intros u v x I. vm_compute in I. repeat (destruct I as [I|I]; [inversion I; reflexivity|]). destruct I.
Qed.

(** * the renumbering clause at the level of the REACTION (the pair of molecule graphs): renumbering the atoms of both sides
    renumbers the centre and every context of the ITS that ITSConstruction builds, for every option value
    (C01's equivariance of the construction composed with theorems 4, 39 and 31) *)
Theorem reaction_renumbering (f : N -> N) (Hinj : forall a b, f a = f b -> a = b) (o : copts) (G H : mgraph) :
  get_rc (its_construct_o o (relabel f G) (relabel f H)) = relabel f (get_rc (its_construct_o o G H)) /\
  (forall k : Z, extract_k_z (its_construct_o o (relabel f G) (relabel f H)) k = relabel f (extract_k_z (its_construct_o o G H) k)) /\
  (forall K d m, wf G -> wf H ->
     get_rc_S K d m (emb_S (its_construct_S o (relabel f G) (relabel f H))) = relabel f (get_rc_S K d m (emb_S (its_construct_S o G H)))).
Proof.
  destruct (C01_OptsProof.equivariant_opts f Hinj o G H (LG [] [])) as (E1 & E2 & _).
  split; [rewrite E1; apply (rc_equivariant f Hinj)|]. split.
  - intros k. rewrite E1. apply (extract_k_z_equivariant f Hinj).
  - intros K d m WG WH. assert (wf (emb_S (its_construct_S o G H))) as W by (apply wf_gmap; apply C01_OptsProof.gen_wf; assumption).
    rewrite E2.
    assert (emb_S (relabel f (its_construct_S o G H)) = relabel f (emb_S (its_construct_S o G H))) as ->.
    { unfold emb_S, gmap, relabel. simpl. rewrite !map_map. f_equal. apply map_ext. intros [[u v] x]. reflexivity. }
    apply (rcS_equivariant f Hinj). exact W.
Qed.

(** * get_rc commutes with every map of label VALUES that commutes with the attribute selection and keeps "is a hydrogen" and
    "charge changes" — e.g. renumbering the atom_map labels (what renumbering a reaction does besides renumbering the node ids) *)
Definition ish_x (a : xnode) : bool := match x_el a with Some e => N.eqb e EL_H | None => false end.

Lemma get_rc_x_is_generic K d m (g : xits) : get_rc_x K d m g = get_rc_g (sel_attr K) (sel_attr_hh K) ish_x charge_changed d m g.
Proof. reflexivity. Qed.

Theorem rcx_label_map (h : xnode -> xnode) K d m (g : xits) :
  (forall a, h (sel_attr K a) = sel_attr K (h a)) -> (forall a, h (sel_attr_hh K a) = sel_attr_hh K (h a)) ->
  (forall a, ish_x (h a) = ish_x a) -> (forall a, charge_changed (h a) = charge_changed a) ->
  gmapn h (get_rc_x K d m g) = get_rc_x K d m (gmapn h g).
Proof.
  intros H1 H2 H3 H4. rewrite get_rc_x_is_generic.
  apply (get_rc_g_flat xnode (sel_attr K) (sel_attr_hh K) ish_x charge_changed h K H1 H2); [|intros a; symmetry; apply H4].
  intros a. rewrite <- (H3 a). reflexivity.
Qed.

(** renumbering the atom_map labels by any function on integers *)
Definition map_amap (fz : Z -> Z) (a : xnode) : xnode :=
  XN (x_el a) (x_ch a) (option_map fz (x_amap a)) (x_arom a) (x_hc a) (x_nb a) (x_gh a).

Corollary rcx_amap_renumbering (fz : Z -> Z) K d m (g : xits) :
  get_rc_x K d m (gmapn (map_amap fz) g) = gmapn (map_amap fz) (get_rc_x K d m g).
Proof.
  symmetry. apply rcx_label_map; intros [el ch am ar hc nb gh]; unfold map_amap, sel_attr, sel_attr_hh, ish_x, charge_changed; simpl;
    rewrite ?pick_map; reflexivity.
Qed.

(** both at once: node ids by an injective f, atom_map labels by fz — the centre of the renumbered ITS is the renumbered centre *)
Corollary rcx_full_renumbering (f : N -> N) (Hinj : forall a b, f a = f b -> a = b) (fz : Z -> Z) K d m (g : xits) :
  get_rc_x K d m (relabel f (gmapn (map_amap fz) g)) = relabel f (gmapn (map_amap fz) (get_rc_x K d m g)).
Proof. rewrite (rcx_equivariant f Hinj), rcx_amap_renumbering. reflexivity. Qed.

Example C02_amap_renumbering_nonvacuous :
  get_rc_x K_default true true (relabel (N.add 10) (gmapn (map_amap (Z.add 10)) (emb ex_its))) =
    relabel (N.add 10) (gmapn (map_amap (Z.add 10)) (get_rc_x K_default true true (emb ex_its))) /\
  gmapn (map_amap (Z.add 10)) (emb ex_its) <> emb ex_its /\ gnodes (get_rc_x K_default true true (emb ex_its)) <> [].
Proof.
  split; [apply rcx_full_renumbering; intros a b; apply N.add_cancel_l|]. split; vm_compute; discriminate.
Qed.

(** * non-vacuity of the remaining round-5 theorems, on the reaction  H-H + C=C -> H-H + C-C  (sv_G, sv_H of proof/C02_StoreEquiv.v)
    and on an aromatic bond that becomes single (ignore_aromaticity) *)
Definition ar_G : mgraph := LG [(1%N, GN 70%N true 1 0 (Some []) 1); (2%N, GN 70%N true 1 0 (Some []) 2); (3%N, GN 82%N false 1 0 (Some []) 3)] [(1%N, 2%N, 3); (2%N, 3%N, 2)].
Definition ar_H : mgraph := LG [(1%N, GN 70%N false 2 0 (Some []) 1); (2%N, GN 70%N false 1 0 (Some []) 2); (3%N, GN 82%N false 0 0 (Some []) 3)] [(1%N, 2%N, 2); (2%N, 3%N, 4)].
Example C02_round5_more_nonvacuous :
  (* unequalS_sub_centre *)
  unequal_nodes_g (emb_S (its_construct_S (CO false true dflt_nattr) sv_G sv_H)) = [4%N; 3%N] /\
  (* rcS_edges_ia / construct_S_consistent: the 1.5 -> 1 bond is zeroed and not in the centre, the 1 -> 2 bond is *)
  ia_consistent_S (emb_S (its_construct_S (CO true false dflt_nattr) ar_G ar_H)) /\
  adj (get_rc_S K_default false false (emb_S (its_construct_S (CO true false dflt_nattr) ar_G ar_H))) 1%N 2%N = None /\
  adj (get_rc_S K_default false false (emb_S (its_construct_S (CO true false dflt_nattr) ar_G ar_H))) 2%N 3%N = Some (IE 2 4 (-2), Some false) /\
  adj (emb_S (its_construct_S (CO true false dflt_nattr) ar_G ar_H)) 1%N 2%N = Some (IE 3 2 0, None) /\
  (* reaction_renumbering *)
  wf sv_G /\ wf sv_H /\
  get_rc_S K_default true true (emb_S (its_construct_S (CO false true dflt_nattr) (relabel (N.add 10) sv_G) (relabel (N.add 10) sv_H))) =
    relabel (N.add 10) (get_rc_S K_default true true (emb_S (its_construct_S (CO false true dflt_nattr) sv_G sv_H))) /\
  node_ids (get_rc (its_construct_o (CO false true dflt_nattr) (relabel (N.add 10) sv_G) (relabel (N.add 10) sv_H))) = [13%N; 14%N; 11%N; 12%N] /\
  (* ctxS_construct *)
  gmapn flat (extract_k_S (emb_S (its_construct_S (CO false true dflt_nattr) sv_G sv_H)) 1) = emb (extract_k (its_construct_o (CO false true dflt_nattr) sv_G sv_H) 1).
Proof.
  assert (forall G : mgraph, gnodes G <> [] -> simple (gedges G) -> NoDup (node_ids G) ->
          (forall a b x, In (a, b, x) (gedges G) -> In a (node_ids G) /\ In b (node_ids G) /\ a <> b) -> wf G) as Wf by (intros; apply wf_intro; assumption).
  assert (wf sv_G) as WG.
  { apply wf_intro; simpl; [repeat constructor; simpl; intuition discriminate| |repeat constructor].
    intros a b x H. repeat (destruct H as [H|H]; [inversion H; subst; simpl; intuition discriminate|]). destruct H. }
  assert (wf sv_H) as WH.
  { apply wf_intro; simpl; [repeat constructor; simpl; intuition discriminate| |repeat constructor].
    intros a b x H. repeat (destruct H as [H|H]; [inversion H; subst; simpl; intuition discriminate|]). destruct H. }
  split; [vm_compute; reflexivity|]. split; [apply construct_S_consistent; reflexivity|].
  do 3 (split; [vm_compute; reflexivity|]). split; [exact WG|]. split; [exact WH|].
  split; [apply (reaction_renumbering (N.add 10) (fun a b => proj1 (N.add_cancel_l a b 10%N))); assumption|].
  split; [vm_compute; reflexivity|]. apply ctxS_construct; [|lia]. exact (proj1 C02_sides_store_true_nonvacuous).
Qed.

(** * two facts about balls, generic in the node and bond types
    (a) inside the radius-k context every atom keeps its distance to the start atoms: a walk of length <= k from a start atom stays
        in the ball, so the context is CONNECTED to its centre — no atom of a context is cut off from the centre inside the context;
    (b) radii add up: the radius-(j+k) ball is the radius-k ball around the radius-j ball (what an incremental, HierContext-style
        extraction relies on). *)
Section BallFacts.
Context {A B : Type}.
Variable g : lgraph A B.
Hypothesis W : wf g.
Variable S : list N.
Hypothesis HS : forall s, In s S -> In s (node_ids g).

Lemma walk_into_ball k s n j : In s S -> walk_g g s n j -> (j <= k)%nat -> walk_g (ball_sub g S k) s n j.
Proof.
  intros Is Wk. induction Wk as [s|s u n j Wk IH Ad]; intros Hj; [constructor|].
  econstructor; [apply IH; [exact Is|lia]|].
  destruct (ball_sub_spec g S k W HS) as (_ & _ & A1).
  destruct (adj g u n) as [e|] eqn:E; [|congruence].
  assert (adj (ball_sub g S k) u n = Some e) as ->; [|discriminate].
  apply A1. split; [exact E|]. split.
  - exists s, j. repeat split; [exact Is|lia|exact Wk].
  - exists s, (Datatypes.S j). repeat split; [exact Is|lia|]. econstructor; [exact Wk|congruence].
Qed.

Lemma walk_from_ball k s n j : walk_g (ball_sub g S k) s n j -> walk_g g s n j.
Proof.
  intros Wk. induction Wk as [s|s u n j Wk IH Ad]; [constructor|]. econstructor; [exact IH|].
  destruct (ball_sub_spec g S k W HS) as (_ & _ & A1).
  destruct (adj (ball_sub g S k) u n) as [e|] eqn:E; [|congruence]. apply A1 in E. destruct E as [E _]. congruence.
Qed.

Theorem ball_distances_preserved k j n : (j <= k)%nat -> (dist_le_g (ball_sub g S k) S j n <-> dist_le_g g S j n).
Proof.
  intros Hj. split; intros (s & i & Is & Hi & Wk); exists s, i; repeat split; auto.
  - apply (walk_from_ball k). exact Wk.
  - apply walk_into_ball; [exact Is|exact Wk|lia].
Qed.

(** every atom of the context is reached from a start atom by a walk of at most k bonds INSIDE the context *)
Corollary ball_connected_to_seeds k n : In n (node_ids (ball_sub g S k)) -> dist_le_g (ball_sub g S k) S k n.
Proof. intros I. apply (ball_distances_preserved k k n (le_n _)). apply (proj1 (ball_sub_spec g S k W HS)). exact I. Qed.

Lemma walk_g_app s u n i j : walk_g g s u i -> walk_g g u n j -> walk_g g s n (i + j).
Proof.
  intros W1 W2. induction W2 as [u|u v n j W2 IH Ad]; [rewrite Nat.add_0_r; exact W1|].
  rewrite Nat.add_succ_r. econstructor; [apply IH; exact W1|exact Ad].
Qed.

Lemma walk_g_split s n i j : walk_g g s n (i + j) -> exists u, walk_g g s u i /\ walk_g g u n j.
Proof.
  revert n. induction j as [|j IH]; intros n Wk.
  - rewrite Nat.add_0_r in Wk. exists n. split; [exact Wk|constructor].
  - rewrite Nat.add_succ_r in Wk. inversion Wk as [|s' u' n' m' Wk' Ad]; subst.
    destruct (IH u' Wk') as (u & W1 & W2). exists u. split; [exact W1|]. econstructor; [exact W2|exact Ad].
Qed.

Theorem ball_radii_add j k n : dist_le_g g S (j + k) n <-> dist_le_g g (knn_g g S j) k n.
Proof.
  split.
  - intros (s & i & Is & Hi & Wk). destruct (Nat.le_gt_cases i j) as [Hij|Hij].
    + exists n, O. repeat split; [|lia|constructor]. apply knn_g_spec. exists s, i. auto.
    + replace i with (j + (i - j))%nat in Wk by lia. destruct (walk_g_split s n j (i - j) Wk) as (u & W1 & W2).
      exists u, (i - j)%nat. repeat split; [|lia|exact W2]. apply knn_g_spec. exists s, j. auto.
  - intros (u & i & Iu & Hi & Wk). apply knn_g_spec in Iu. destruct Iu as (s & i0 & Is & Hi0 & W1).
    exists s, (i0 + i)%nat. repeat split; [exact Is|lia|]. apply (walk_g_app s u n); assumption.
Qed.
End BallFacts.

Example C02_ball_facts_nonvacuous :
  dist_le_g (ball_sub (emb_S ctxS_ex) [3%N] 2) [3%N] 2 5%N /\ ~ In 6%N (node_ids (ball_sub (emb_S ctxS_ex) [3%N] 2)) /\
  knn_g (emb_S ctxS_ex) (knn_g (emb_S ctxS_ex) [3%N] 1) 2 = [6%N; 5%N; 3%N; 4%N].
Proof.
  split; [|split; [vm_compute; intuition discriminate|vm_compute; reflexivity]].
  apply ball_connected_to_seeds; [exact (proj1 C02_ctxS_nonvacuous)| |vm_compute; auto].
  intros s [<-|[]]. vm_compute. auto.
Qed.

(** * the property text as ONE statement for ITS graphs of ANY label shape (pair labels of ITSConstruction.construct, absent labels) whose
    standard_order is the order difference: theorems 42, 41, 31, 28 assembled *)
Theorem property_statement_S (g : sits) : wf g -> std_consistent_S g ->
  (forall u v y, adj (get_rc_S K_default false false g) u v = Some y <->
                 exists x, adj g u v = Some x /\ (e_G (fst x) <> e_H (fst x) \/ is_hh_g ish_S g u v = true) /\ y = out_edge x) /\
  (forall n b, label (get_rc_S K_default false false g) n = Some b <->
               exists a, label g n = Some a /\
                 ((inc_end_S false g n /\ b = selS K_default a) \/ (~ inc_end_S false g n /\ hh_end_S g n /\ b = selS_hh K_default a))) /\
  geq (get_rc_S K_default false false (get_rc_S K_default false false g)) (get_rc_S K_default false false g) /\
  (forall f : N -> N, (forall a b, f a = f b -> a = b) ->
     get_rc_S K_default false false (relabel f g) = relabel f (get_rc_S K_default false false g) /\
     forall k : Z, extract_k_S_z (relabel f g) k = relabel f (extract_k_S_z g k)) /\
  (forall k, (1 <= k)%nat ->
     let Bk := dist_le_g g (node_ids (get_rc_S K_default false false g)) k in
     (forall n, In n (node_ids (extract_k_S g k)) <-> Bk n) /\
     (forall n a, label (extract_k_S g k) n = Some a <-> label g n = Some a /\ Bk n) /\
     (forall u v e, adj (extract_k_S g k) u v = Some e <-> adj g u v = Some e /\ Bk u /\ Bk v)) /\
  (forall k k', (k <= k')%nat ->
     extract_k_S g 0 = get_rc_S K_default false false g /\
     (forall n, In n (node_ids (extract_k_S g k)) -> In n (node_ids (extract_k_S g k'))) /\
     (forall u v, adj (extract_k_S g k) u v <> None -> adj (extract_k_S g k') u v <> None) /\
     (forall n, In n (node_ids (extract_k_S g k')) -> In n (node_ids g)) /\
     (forall u v, adj (extract_k_S g k') u v <> None -> adj g u v <> None)).
Proof.
  intros W Hs. split; [apply rcS_edges_std; assumption|]. split.
  - intros n b. rewrite (rcS_nodes K_default false false g W n b). split; intros (a & La & Cases); exists a; (split; [exact La|]).
    + destruct Cases as [C|[C|(_ & _ & D & _)]]; [left; exact C|right; exact C|discriminate].
    + destruct Cases as [C|C]; [left; exact C|right; left; exact C].
  - split; [apply rcS_idem; [reflexivity|reflexivity|exact W]|]. split.
    + intros f Hinj. split; [apply (rcS_equivariant f Hinj); exact W|intros k; apply (ctxS_z_equivariant f Hinj); exact W].
    + split; [intros k Hk; exact (ctxS_spec g W k Hk)|].
      intros k k' Hk. destruct (ctxS_chain g W k k' Hk) as (C0 & C1 & C2 & _ & C4 & C5). auto.
Qed.

(** * theorems 9 / 10 for every label shape: what disconnected = True adds *)
Theorem rcS_disconnected K m (g : sits) : wf g ->
  let R := get_rc_S K true m g in
  (forall n, In n (node_ids R) <->
             In n (node_ids (get_rc_S K false m g)) \/ (exists a, label g n = Some a /\ cc_S a = true)) /\
  (forall u v e, (exists y, adj R u v = Some y /\ fst y = e) <->
                 (exists x, adj g u v = Some x /\ fst x = e) /\ In u (node_ids R) /\ In v (node_ids R)).
Proof.
  intros W R. destruct (rcx_disconnected K m (gmapn flat g) (wf_gmapn flat g W)) as [HN HA].
  assert (forall d, node_ids (get_rc_x K d m (gmapn flat g)) = node_ids (get_rc_S K d m g)) as En
    by (intros d; rewrite <- rcS_flat, node_ids_gmapn; reflexivity).
  assert (forall u v, adj (get_rc_x K true m (gmapn flat g)) u v = adj (get_rc_S K true m g) u v) as Ea
    by (intros u v; rewrite <- rcS_flat; reflexivity).
  cbv zeta in HN, HA. rewrite ?(En true), ?(En false) in HN, HA. subst R. split.
  - intros n. rewrite (HN n). split; (intros [L|(a & La & C)]; [left; first [rewrite <- (En false); exact L|rewrite (En false); exact L|exact L]|right]).
    + rewrite label_gmapn in La. destruct (label g n) as [a0|]; [|discriminate]. simpl in La. injection La as <-. exists a0. auto.
    + exists (flat a). split; [rewrite label_gmapn, La; reflexivity|exact C].
  - intros u v e. rewrite <- Ea. exact (HA u v e).
Qed.

(** * the maximum-radius context of a graph of any label shape contains its extension path *)
Lemma zchain_skel_walk {A} (g : lgraph A xedge) : forall ext n x, zchain (skel g) n ext -> In x ext ->
  exists j, (1 <= j <= length ext)%nat /\ walk_g g n x j.
Proof.
  induction ext as [|v r IH]; intros n x Z I; [destruct I|]. simpl in Z. destruct Z as [Sd Z].
  assert (adj g n v <> None) as Ad by (rewrite std0_skel in Sd; destruct (adj g n v); [discriminate|discriminate]).
  destruct I as [<-|I].
  - exists 1%nat. split; [simpl; lia|]. econstructor; [constructor|exact Ad].
  - destruct (IH v x Z I) as (j & Hj & Wk). exists (Datatypes.S j). split; [simpl; lia|].
    clear -Wk Ad. induction Wk as [s|s u y j Wk IHw A0]; [econstructor; [constructor|exact Ad]|]. econstructor; [apply IHw; exact Ad|exact A0].
Qed.

Theorem lre_path_in_context_S (g : sits) : wf g ->
  forall x, In x (lre (skel g) (node_ids (get_rc_S K_default false false g))) -> In x (node_ids (extract_k_S_z g (-1))).
Proof.
  intros W x I. destruct (extract_k_S_z_minus1 g W) as (_ & HN & HP). apply HN. clear HN.
  destruct HP as [E|(n & ext & In_ & E & Z & Nd)]; [rewrite E in I; destruct I|].
  rewrite E in *. destruct I as [<-|I].
  - exists n, O. repeat split; [exact In_|simpl; lia|constructor].
  - destruct (zchain_skel_walk g ext n x Z I) as (j & Hj & Wk). exists n, j. repeat split; [exact In_|simpl; lia|exact Wk].
Qed.
