(** C11 — the WL-1 colour refinement of AutoEst is equivariant: a label-preserving automorphism preserves the
    colour of every node after every number of rounds, so the estimated orbits (colour classes) never separate
    two nodes of one true orbit (clause 2 of the property, second sentence).  Stdlib lists. *)
From Coq Require Import List NArith ZArith Bool Arith Lia Permutation.
From SK Require Import lib.LGraph lib.Mono lib.Reach model.C11_Model proof.C11_Aut.
Import ListNotations.

(** ---------- the palette: a label gets the index of its first occurrence among the distinct labels ---------- *)
Section Pal.
Variable X : Type.
Variable xeqb : X -> X -> bool.
Hypothesis xeqb_refl : forall x, xeqb x x = true.

(** the list of distinct labels after the sweep *)
Fixpoint final (labels seen : list X) : list X :=
  match labels with
  | [] => seen
  | x :: r => match index_of xeqb x seen 0%N with Some _ => final r seen | None => final r (seen ++ [x]) end
  end.

Definition idx (l : list X) (x : X) : N :=
  match index_of xeqb x l 0%N with Some i => i | None => 0%N end.

Lemma index_of_app_some x seen t : forall k i, index_of xeqb x seen k = Some i -> index_of xeqb x (seen ++ t) k = Some i.
Proof.
  induction seen as [|y r IH]; simpl; intros k i H; [discriminate|].
  destruct (xeqb x y); [exact H | apply IH; exact H].
Qed.

Lemma index_of_app_none x seen t : forall k, index_of xeqb x seen k = None ->
  index_of xeqb x (seen ++ t) k = index_of xeqb x t (k + N.of_nat (length seen))%N.
Proof.
  induction seen as [|y r IH]; simpl; intros k H.
  - rewrite N.add_0_r. reflexivity.
  - destruct (xeqb x y); [discriminate|]. rewrite IH by exact H. f_equal. lia.
Qed.

Lemma final_prefix labels : forall seen, exists t, final labels seen = seen ++ t.
Proof.
  induction labels as [|x r IH]; intros seen; simpl.
  - exists []. rewrite app_nil_r. reflexivity.
  - destruct (index_of xeqb x seen 0%N); [apply IH|].
    destruct (IH (seen ++ [x])) as (t & E). exists ([x] ++ t). rewrite E, app_assoc. reflexivity.
Qed.

(** the colours are a function of the label alone *)
Lemma assign_map labels : forall seen, assign xeqb labels seen = map (idx (final labels seen)) labels.
Proof.
  induction labels as [|x r IH]; intros seen; simpl; [reflexivity|].
  destruct (index_of xeqb x seen 0%N) as [i|] eqn:E.
  - rewrite IH. f_equal. unfold idx. destruct (final_prefix r seen) as (t & ->).
    rewrite (index_of_app_some x seen t 0%N i E). reflexivity.
  - rewrite IH. f_equal. unfold idx. destruct (final_prefix r (seen ++ [x])) as (t & ->).
    rewrite <- app_assoc. rewrite (index_of_app_none x seen ([x] ++ t) 0%N E). simpl.
    rewrite xeqb_refl. reflexivity.
Qed.
End Pal.
Arguments idx {X}.
Arguments final {X}.

Lemma pair_eqb_refl x : pair_eqb x x = true.
Proof. unfold pair_eqb. rewrite !N.eqb_refl. reflexivity. Qed.
Lemma lpeqb_refl l : lpeqb l l = true.
Proof. induction l; simpl; [reflexivity|]. rewrite pair_eqb_refl. exact IHl. Qed.
Lemma rl_eqb_refl x : rl_eqb x x = true.
Proof. unfold rl_eqb. rewrite N.eqb_refl, lpeqb_refl. reflexivity. Qed.

(** ---------- sorting neighbour signatures: the result depends only on the multiset ---------- *)
Lemma pair_leb_spec a b : pair_leb a b = true <-> (fst a < fst b \/ (fst a = fst b /\ snd a <= snd b))%N.
Proof.
  unfold pair_leb. destruct (N.ltb_spec (fst a) (fst b)); [split; auto|].
  destruct (N.eqb_spec (fst a) (fst b)).
  - rewrite N.leb_le. split; [auto | intros [?|[_ ?]]; [lia | assumption]].
  - split; [discriminate | lia].
Qed.
Lemma pair_leb_false a b : pair_leb a b = false <-> (fst b < fst a \/ (fst a = fst b /\ snd b < snd a))%N.
Proof.
  rewrite <- not_true_iff_false, pair_leb_spec. lia.
Qed.

Ltac pl_facts :=
  repeat match goal with
         | H : pair_leb _ _ = true |- _ => apply pair_leb_spec in H
         | H : pair_leb _ _ = false |- _ => apply pair_leb_false in H
         end.

Lemma pair_leb_antisym a b : pair_leb a b = true -> pair_leb b a = true -> a = b.
Proof. intros H1 H2. pl_facts. destruct a, b; simpl in *. f_equal; lia. Qed.

Lemma insP_comm x y l : insP x (insP y l) = insP y (insP x l).
Proof.
  induction l as [|z r IH]; simpl.
  - destruct (pair_leb x y) eqn:E1, (pair_leb y x) eqn:E2; try reflexivity.
    + rewrite (pair_leb_antisym x y E1 E2). reflexivity.
    + exfalso. pl_facts. lia.
  - destruct (pair_leb y z) eqn:Eyz, (pair_leb x z) eqn:Exz; simpl;
      destruct (pair_leb x y) eqn:Exy, (pair_leb y x) eqn:Eyx; simpl; rewrite ?Eyz, ?Exz; simpl;
        try reflexivity;
        try (f_equal; apply IH);
        try (rewrite (pair_leb_antisym x y Exy Eyx); reflexivity);
        try (exfalso; pl_facts; lia).
Qed.

Lemma sortP_perm l l' : Permutation l l' -> sortP l = sortP l'.
Proof.
  induction 1; simpl.
  - reflexivity.
  - f_equal. assumption.
  - apply insP_comm.
  - congruence.
Qed.

(** ---------- neighbours of a well-formed graph ---------- *)
Definition nbrs_es (es : list (N * N * elab)) (u : N) : list N :=
  flat_map (fun e => let '(a, b, _) := e in if N.eqb a u then [b] else if N.eqb b u then [a] else []) es.

Lemma nbrs_unfold (g : graph) u : nbrs g u = nbrs_es (gedges g) u.
Proof. reflexivity. Qed.

Lemma in_nbrs_es es u v :
  In v (nbrs_es es u) <-> exists a b x, In (a, b, x) es /\ ((a = u /\ b = v) \/ (a <> u /\ b = u /\ a = v)).
Proof.
  unfold nbrs_es. rewrite in_flat_map. split.
  - intros ([[a b] x] & Hin & Hv). exists a, b, x. split; [exact Hin|].
    destruct (N.eqb_spec a u) as [->|Hne].
    + destruct Hv as [<-|[]]. left. auto.
    + destruct (N.eqb_spec b u) as [->|Hne']; [|destruct Hv]. destruct Hv as [<-|[]]. right. auto.
  - intros (a & b & x & Hin & Hc). exists (a, b, x). split; [exact Hin|].
    destruct Hc as [[-> ->]|(Hne & -> & ->)].
    + rewrite N.eqb_refl. left. reflexivity.
    + destruct (N.eqb_spec v u) as [E|_]; [contradiction|]. rewrite N.eqb_refl. left. reflexivity.
Qed.

Lemma find_edge_in {B} a b (x : B) es : In (a, b, x) es -> find_edge a b es <> None.
Proof.
  induction es as [|[[a' b'] y] r IH]; simpl; [tauto|].
  intros [E|Hin].
  - inversion E; subst. rewrite !N.eqb_refl. simpl. discriminate.
  - destruct ((N.eqb a' a && N.eqb b' b) || (N.eqb a' b && N.eqb b' a)); [discriminate | auto].
Qed.

Lemma in_nbrs_adj es u v : (forall a b x, In (a, b, x) es -> a <> b) ->
  (In v (nbrs_es es u) <-> find_edge u v es <> None).
Proof.
  intros Hloop. rewrite in_nbrs_es. split.
  - intros (a & b & x & Hin & [[<- <-]|(_ & <- & <-)]).
    + eapply find_edge_in; eauto.
    + rewrite find_edge_sym. eapply find_edge_in; eauto.
  - intros H. destruct (find_edge u v es) as [x|] eqn:E; [|congruence].
    apply find_edge_some in E. destruct E as (a & b & Hin & [[-> ->]|[-> ->]]).
    + exists u, v, x. auto.
    + exists v, u, x. split; [exact Hin|]. right. split; [|auto]. intros ->. exact (Hloop _ _ _ Hin eq_refl).
Qed.

Lemma nbrs_es_nodup es u :
  (forall a b x, In (a, b, x) es -> a <> b) ->
  (forall l1 a b x l2, es = l1 ++ (a, b, x) :: l2 -> find_edge a b l2 = None) ->
  NoDup (nbrs_es es u).
Proof.
  induction es as [|[[a b] x] r IH]; intros Hloop Huniq; [constructor|].
  assert (Hr : NoDup (nbrs_es r u)).
  { apply IH.
    - intros a' b' x' Hin. apply (Hloop a' b' x'). right. exact Hin.
    - intros l1 a' b' x' l2 E. apply (Huniq ((a, b, x) :: l1) a' b' x' l2). rewrite E. reflexivity. }
  assert (Hloop' : forall a' b' x', In (a', b', x') r -> a' <> b') by (intros a' b' x' Hin; apply (Hloop a' b' x'); right; exact Hin).
  pose proof (Huniq [] a b x r eq_refl) as Hnone.
  change (nbrs_es ((a, b, x) :: r) u) with ((if N.eqb a u then [b] else if N.eqb b u then [a] else []) ++ nbrs_es r u).
  destruct (N.eqb_spec a u) as [->|Hne].
  - simpl. constructor; [|exact Hr]. intros Hin. apply (in_nbrs_adj r u b Hloop') in Hin. congruence.
  - destruct (N.eqb_spec b u) as [->|Hne']; [|exact Hr].
    simpl. constructor; [|exact Hr]. intros Hin. apply (in_nbrs_adj r u a Hloop') in Hin.
    rewrite find_edge_sym in Hin. congruence.
Qed.

Section WL.
Variable fn : nlab -> N.
Variable fe : elab -> N.
Variable g : graph.
Hypothesis Hwf : wf g.
Variable s : N -> N.
Hypothesis Hs : is_automorphism fn fe g s.

Lemma Hsimple : simple_graph g.
Proof. apply wf_simple. exact Hwf. Qed.

Lemma loopfree : forall a b x, In (a, b, x) (gedges g) -> a <> b.
Proof. intros a b x Hin. destruct Hwf as (_ & H & _). apply (H a b x Hin). Qed.

Lemma nbrs_adj u v : In v (nbrs g u) <-> LGraph.adj g u v <> None.
Proof. rewrite nbrs_unfold. apply in_nbrs_adj. exact loopfree. Qed.

Lemma nbrs_nodup u : NoDup (nbrs g u).
Proof.
  rewrite nbrs_unfold. apply nbrs_es_nodup; [exact loopfree|].
  intros l1 a b x l2 E. destruct Hwf as (_ & _ & H). apply (H l1 a b x l2 E).
Qed.

Lemma nbrs_nodes u v : In v (nbrs g u) -> In v (node_ids g).
Proof.
  rewrite nbrs_unfold, in_nbrs_es. intros (a & b & x & Hin & Hc).
  destruct Hwf as (_ & H & _). destruct (H a b x Hin) as (Ha & Hb & _).
  destruct Hc as [[-> ->]|(_ & -> & ->)]; assumption.
Qed.

Lemma adj_none_iff u v : In u (node_ids g) -> In v (node_ids g) ->
  (LGraph.adj g (s u) (s v) <> None <-> LGraph.adj g u v <> None).
Proof.
  intros Hu Hv. destruct Hs as (_ & _ & _ & H4). specialize (H4 u v Hu Hv). unfold adj_of in H4.
  destruct (LGraph.adj g (s u) (s v)), (LGraph.adj g u v); simpl in H4; try discriminate; split; congruence.
Qed.

Lemma s_surj v : In v (node_ids g) -> exists u, In u (node_ids g) /\ s u = v.
Proof. apply (isaut_surj (node_ids g) (lab_of fn g) (adj_of fe g) (proj1 Hsimple) s Hs). Qed.

(** the neighbours of the image are the images of the neighbours *)
Lemma nbrs_image u : In u (node_ids g) -> Permutation (nbrs g (s u)) (map s (nbrs g u)).
Proof.
  intros Hu. apply NoDup_Permutation.
  - apply nbrs_nodup.
  - apply inj_in_NoDup_map; [apply nbrs_nodup|].
    intros x y Hx Hy. destruct Hs as (_ & H2 & _). apply H2; eapply nbrs_nodes; eauto.
  - intros w. rewrite in_map_iff. split.
    + intros Hw. destruct (s_surj w (nbrs_nodes _ _ Hw)) as (w' & Hw' & <-).
      exists w'. split; [reflexivity|]. apply nbrs_adj. apply adj_none_iff; auto. apply nbrs_adj. exact Hw.
    + intros (w' & <- & Hw'). apply nbrs_adj. apply adj_none_iff; auto; [eapply nbrs_nodes; eauto|].
      apply nbrs_adj. exact Hw'.
Qed.

(** a colouring that the automorphism preserves *)
Definition invariant (cs : colouring) : Prop := forall u, In u (node_ids g) -> col cs (s u) = col cs u.

Lemma col_combine (F : N -> N) u : In u (node_ids g) -> col (combine (node_ids g) (map F (node_ids g))) u = F u.
Proof. intros Hu. unfold col. rewrite assoc_combine_map by exact Hu. reflexivity. Qed.

Lemma s_nodes u : In u (node_ids g) -> In (s u) (node_ids g).
Proof. destruct Hs as (H1 & _). apply H1. Qed.

Lemma rlabel_invariant cs u : invariant cs -> In u (node_ids g) -> rlabel fe g cs (s u) = rlabel fe g cs u.
Proof.
  intros Hinv Hu. unfold rlabel. f_equal; [apply Hinv; exact Hu|].
  apply sortP_perm.
  eapply Permutation_trans; [apply Permutation_map; apply nbrs_image; exact Hu|].
  rewrite map_map.
  assert (E : map (fun w => nsig fe g cs (s u) (s w)) (nbrs g u) = map (nsig fe g cs u) (nbrs g u)).
  { apply map_ext_in. intros w Hw. pose proof (nbrs_nodes _ _ Hw) as Hwn. unfold nsig.
    rewrite (Hinv w Hwn). f_equal.
    destruct Hs as (_ & _ & _ & H4). specialize (H4 u w Hu Hwn). unfold adj_of in H4.
    destruct (LGraph.adj g (s u) (s w)), (LGraph.adj g u w); simpl in H4; congruence. }
  rewrite E. apply Permutation_refl.
Qed.

Lemma refine_once_colour cs u : In u (node_ids g) ->
  col (fst (refine_once fe g cs)) u =
  idx rl_eqb (final rl_eqb (map (rlabel fe g cs) (node_ids g)) []) (rlabel fe g cs u).
Proof.
  intros Hu. unfold refine_once. simpl. rewrite (assign_map _ rl_eqb rl_eqb_refl), map_map.
  apply (col_combine (fun v => idx rl_eqb (final rl_eqb (map (rlabel fe g cs) (node_ids g)) []) (rlabel fe g cs v))).
  exact Hu.
Qed.

Lemma refine_once_invariant cs : invariant cs -> invariant (fst (refine_once fe g cs)).
Proof.
  intros Hinv u Hu. rewrite !refine_once_colour by (try apply s_nodes; exact Hu).
  rewrite rlabel_invariant by assumption. reflexivity.
Qed.

Lemma refine_invariant k : forall cs, invariant cs -> invariant (refine fe g k cs).
Proof.
  induction k as [|k IH]; intros cs Hinv; [exact Hinv|].
  change (invariant (let '(cs', ch) := refine_once fe g cs in if ch then refine fe g k cs' else cs')).
  pose proof (refine_once_invariant cs Hinv) as H.
  destruct (refine_once fe g cs) as [cs' ch]. simpl in H. destruct ch; [apply IH; exact H | exact H].
Qed.

Lemma assoc_combine_fst {V} (G : N * V -> N) (l : list (N * V)) u a :
  assoc u l = Some a -> assoc u (combine (map fst l) (map G l)) = Some (G (u, a)).
Proof.
  induction l as [|[k v] r IH]; simpl; [discriminate|].
  destruct (N.eqb_spec u k) as [->|Hne]; [intros [= ->]; reflexivity | exact IH].
Qed.

Lemma assoc_some_in {V} u (l : list (N * V)) : In u (map fst l) -> exists a, assoc u l = Some a.
Proof.
  induction l as [|[k v] r IH]; simpl; [tauto|].
  intros H. destruct (N.eqb_spec u k) as [->|Hne]; [eauto|].
  destruct H as [E|H]; [congruence | auto].
Qed.

Lemma wl_init_invariant : invariant (wl_init fn g).
Proof.
  intros u Hu. unfold wl_init. rewrite (assign_map _ pair_eqb pair_eqb_refl), map_map.
  set (F := fun p : N * nlab => idx pair_eqb _ (N.of_nat (length (nbrs g (fst p))), fn (snd p))).
  destruct (assoc_some_in u (gnodes g) Hu) as (a & Ea).
  destruct (assoc_some_in (s u) (gnodes g) (s_nodes u Hu)) as (a' & Ea').
  unfold col, node_ids. rewrite (assoc_combine_fst F _ _ _ Ea), (assoc_combine_fst F _ _ _ Ea').
  unfold F. simpl. f_equal. f_equal.
  - f_equal. rewrite (Permutation_length (nbrs_image u Hu)). apply map_length.
  - destruct Hs as (_ & _ & H3 & _). specialize (H3 u Hu). unfold lab_of, label in H3.
    rewrite Ea, Ea' in H3. simpl in H3. congruence.
Qed.

Theorem wl_invariant k : invariant (wl fn fe g k).
Proof. unfold wl. apply refine_invariant. apply wl_init_invariant. Qed.

End WL.

(** list form: a listed automorphism never maps a node to a node of another WL colour *)
Lemma wl_never_splits_listed fn fe g k m u v :
  wf g -> In m (auts fn fe g) -> In (u, v) m -> col (wl fn fe g k) v = col (wl fn fe g k) u.
Proof.
  intros Hwf Hm Hin. apply (auts_listing fn fe g (wf_simple g Hwf)) in Hm. destruct Hm as (s & Hs & ->).
  unfold aut_pairs in Hin. rewrite <- in_rev in Hin.
  apply in_map_iff in Hin. destruct Hin as (x & E & Hx). inversion E; subst.
  apply (wl_invariant fn fe g Hwf s Hs k u Hx).
Qed.
