(** C13 -- the isomorphism test of the model ([graph_iso]: equal node counts + the verified enumerator Mono.monos,
    induced) IS an equivalence relation, and it decides exactly "there is a bijection of the nodes preserving
    element, charge and bond order (presence and order of every bond, both ways)".
    This discharges the premises [iso_refl / iso_sym / iso_trans] of the clustering theorems for the relation the
    correspondence actually evaluates; what remains trusted is that networkx VF2 computes the same verdicts
    (monitored on every run). *)
From Coq Require Import List NArith ZArith Bool Arith Lia Permutation.
From SK Require Import lib.LGraph lib.Mono lib.C12_MonoPw lib.C13_Partition model.C13_Model proof.C13_Proof proof.C13_More.
Import ListNotations.

(* ------------------------------------------------------------------ list facts *)
Lemma map_fst_combine' (c hs : list N) : length hs = length c -> map fst (combine c hs) = c.
Proof.
  revert hs. induction c as [|x r IH]; intros [|h hs] H; simpl in *; try discriminate; [reflexivity|].
  f_equal. apply IH. lia.
Qed.

Lemma combine_map_self (f : N -> N) l : combine l (map f l) = map (fun u => (u, f u)) l.
Proof. induction l as [|x r IH]; simpl; [reflexivity|now rewrite IH]. Qed.

Definition assocd (u : N) (l : list (N * N)) : N := match assoc u l with Some h => h | None => 0%N end.

Lemma assoc_list_as_map (l : list (N * N)) : NoDup (map fst l) ->
  map (fun u => (u, assocd u l)) (map fst l) = l.
Proof.
  induction l as [|[k v] r IH]; simpl; intros H; [reflexivity|].
  inversion H as [|? ? Hk Hr]; subst. f_equal.
  - unfold assocd. simpl. now rewrite N.eqb_refl.
  - rewrite <- (IH Hr) at 2. apply map_ext_in. intros u Hu. unfold assocd. simpl.
    destruct (N.eqb_spec u k) as [->|Hne]; [contradiction|reflexivity].
Qed.

Lemma NoDup_map_inj {X Y} (f : X -> Y) l a b : NoDup (map f l) -> In a l -> In b l -> f a = f b -> a = b.
Proof.
  induction l as [|x r IH]; simpl; intros H Ia Ib E; [destruct Ia|].
  inversion H as [|? ? Hx Hr]; subst.
  destruct Ia as [<-|Ia], Ib as [<-|Ib].
  - reflexivity.
  - exfalso. apply Hx. rewrite E. now apply in_map.
  - exfalso. apply Hx. rewrite <- E. now apply in_map.
  - now apply IH.
Qed.

(* ------------------------------------------------------------------ the matchers are equivalences on values *)
Section Iso.
Variable labelled : bool.
Variable defs : list N.
Notation nm := (node_match labelled defs).
Notation em := (edge_match labelled).

Lemma attrs_match_refl a : length defs <= length a -> attrs_match defs a a = true.
Proof.
  revert a. induction defs as [|d ds IH]; intros [|x a] H; simpl in *; try reflexivity; [lia|].
  rewrite N.eqb_refl. apply IH. lia.
Qed.

Lemma attrs_match_sym : forall a b, attrs_match defs a b = attrs_match defs b a.
Proof.
  induction defs as [|d ds IH]; intros [|x a] [|y b]; simpl; try reflexivity. now rewrite N.eqb_sym, IH.
Qed.

Lemma attrs_match_trans : forall a b c, attrs_match defs a b = true -> attrs_match defs b c = true -> attrs_match defs a c = true.
Proof.
  induction defs as [|d ds IH]; intros [|x a] [|y b] [|z c]; simpl; try discriminate; try reflexivity.
  intros H1 H2. apply andb_prop in H1, H2. destruct H1 as [E1 H1], H2 as [E2 H2].
  apply N.eqb_eq in E1, E2. rewrite E1, E2, N.eqb_refl. simpl. eapply IH; eauto.
Qed.

Lemma nm_sym x y : nm x y = nm y x.
Proof. destruct x, y; simpl; try reflexivity. destruct labelled; [apply attrs_match_sym|reflexivity]. Qed.

Lemma nm_trans x y z : nm x y = true -> nm y z = true -> nm x z = true.
Proof.
  destruct x, y, z; simpl; try discriminate. destruct labelled; [apply attrs_match_trans|reflexivity].
Qed.

Lemma em_refl b : em b b = true.
Proof. unfold edge_match. destruct labelled; [apply zlist_eqb_refl|reflexivity]. Qed.

Lemma em_sym a b : em a b = em b a.
Proof.
  unfold edge_match. destruct labelled; [|reflexivity].
  destruct (zlist_eqb (order_or_default a) (order_or_default b)) eqn:E1, (zlist_eqb (order_or_default b) (order_or_default a)) eqn:E2;
    try reflexivity.
  - apply zlist_eqb_eq in E1. rewrite E1, zlist_eqb_refl in E2. discriminate.
  - apply zlist_eqb_eq in E2. rewrite E2, zlist_eqb_refl in E1. discriminate.
Qed.

Lemma em_trans a b c : em a b = true -> em b c = true -> em a c = true.
Proof.
  unfold edge_match. destruct labelled; [|reflexivity]. intros H1 H2. apply zlist_eqb_eq in H1, H2.
  rewrite H1, H2. apply zlist_eqb_refl.
Qed.

(* ------------------------------------------------------------------ the specification *)
(** bond between u and v in the pattern [ga] against the bond between their images in the host [gb] *)
Definition eok (ga gb : graph) (f : N -> N) (u v : N) : bool :=
  edge_ok (LGraph.adj ga) (LGraph.adj gb) em true u (f u) (v, f v).

(** [f] maps the nodes of g2 bijectively (given equal node counts) onto the nodes of g1, preserving labels and bonds *)
Definition fiso (g1 g2 : graph) (f : N -> N) : Prop :=
  NoDup (map f (node_ids g2)) /\ incl (map f (node_ids g2)) (node_ids g1) /\
  (forall u, In u (node_ids g2) -> nm (label g1 (f u)) (label g2 u) = true) /\
  (forall u v, In u (node_ids g2) -> In v (node_ids g2) -> u <> v -> eok g2 g1 f u v = true).

Definition isomorphic (g1 g2 : graph) : Prop :=
  length (gnodes g1) = length (gnodes g2) /\ exists f, fiso g1 g2 f.

Notation PW g1 g2 := (pw (node_ids g1) (label g2) (label g1) (LGraph.adj g2) (LGraph.adj g1) nm em true).

Lemma pw_fiso g1 g2 f : PW g1 g2 (map (fun u => (u, f u)) (node_ids g2)) <-> fiso g1 g2 f.
Proof.
  unfold pw, fiso. rewrite map_map. simpl. split.
  - intros (P1 & P2 & P3). split; [exact P2|]. split; [|split].
    + intros h Hh. apply in_map_iff in Hh. destruct Hh as (u & <- & Hu).
      apply (P1 u (f u)). apply in_map_iff. eauto.
    + intros u Hu. apply (P1 u (f u)). apply in_map_iff. eauto.
    + intros u v Hu Hv Hne. unfold eok.
      apply (P3 (u, f u) (v, f v)); [apply in_map_iff; eauto|apply in_map_iff; eauto|congruence].
  - intros (F1 & F2 & F3 & F4). split; [|split; [exact F1|]].
    + intros p h I. apply in_map_iff in I. destruct I as (u & E & Hu). inversion E; subst.
      split; [apply F2; now apply in_map|now apply F3].
    + intros x y Ix Iy Hne. apply in_map_iff in Ix, Iy. destruct Ix as (u & <- & Hu), Iy as (v & <- & Hv).
      simpl. apply (F4 u v Hu Hv). congruence.
Qed.

Theorem graph_iso_spec g1 g2 : NoDup (node_ids g2) ->
  (graph_iso labelled defs g1 g2 = true <-> isomorphic g1 g2).
Proof.
  intros N2. unfold graph_iso, isomorphic. rewrite andb_true_iff, Nat.eqb_eq.
  set (ms := monos (node_ids g2) (node_ids g1) (label g2) (label g1) (LGraph.adj g2) (LGraph.adj g1) nm em true).
  split; intros (Hlen & H); (split; [exact Hlen|]).
  - destruct ms as [|m0 r] eqn:Em; [discriminate|].
    assert (I : In m0 ms) by (rewrite Em; now left).
    destruct (monos_only_such _ _ _ _ _ _ _ _ _ _ I) as (hs & Hl & E & Hv).
    apply (valid_pw _ _ _ _ _ _ _ _ (adj_sym g2) (adj_sym g1)) in Hv.
    set (l := combine (node_ids g2) hs).
    assert (Hfst : map fst l = node_ids g2) by (now apply map_fst_combine').
    exists (fun u => assocd u l). apply pw_fiso.
    rewrite <- Hfst at 1. rewrite assoc_list_as_map by (now rewrite Hfst).
    eapply pw_perm; [|exact Hv]. rewrite E. apply Permutation_sym, Permutation_rev.
  - destruct H as (f & Hf). apply pw_fiso in Hf. rewrite <- combine_map_self in Hf.
    assert (I : In (rev (combine (node_ids g2) (map f (node_ids g2)))) ms).
    { apply monos_spec; [now rewrite map_length|]. apply pw_valid. eapply pw_perm; [apply Permutation_rev|exact Hf]. }
    destruct ms; [destruct I|reflexivity].
Qed.

(* ------------------------------------------------------------------ equivalence at the level of the specification *)
(** labels can only be compared when every node carries the configured attributes *)
Definition wf_graph (g : graph) : Prop :=
  NoDup (node_ids g) /\ forall u a, In (u, a) (gnodes g) -> length defs <= length a.

Lemma fiso_refl g : wf_graph g -> fiso g g (fun u => u).
Proof.
  intros (Hn & Ha). split; [now rewrite map_id|]. split; [rewrite map_id; apply incl_refl|]. split.
  - intros u Hu. apply in_map_iff in Hu. destruct Hu as ([u' a] & <- & I). simpl.
    unfold label. rewrite (assoc_nodup_in _ _ _ Hn I). simpl.
    destruct labelled; [apply attrs_match_refl; eauto|reflexivity].
  - intros u v _ _ _. unfold eok, edge_ok. simpl. destruct (LGraph.adj g u v); [apply em_refl|reflexivity].
Qed.

Lemma fiso_trans g1 g2 g3 f f' : fiso g1 g2 f -> fiso g2 g3 f' -> fiso g1 g3 (fun u => f (f' u)).
Proof.
  intros (F1 & F2 & F3 & F4) (G1 & G2 & G3 & G4).
  assert (Hin : forall u, In u (node_ids g3) -> In (f' u) (node_ids g2)) by (intros u Hu; apply G2; now apply in_map).
  split; [|split; [|split]].
  - rewrite <- (map_map f' f). apply NoDup_map_inj_in; [|exact G1].
    intros a b Ia Ib. apply (NoDup_map_inj f (node_ids g2)); auto.
  - intros h Hh. apply in_map_iff in Hh. destruct Hh as (u & <- & Hu). apply F2. apply in_map. auto.
  - intros u Hu. eapply nm_trans; [apply F3; auto|apply G3; exact Hu].
  - intros u v Hu Hv Hne.
    assert (Hne' : f' u <> f' v) by (intros E; apply Hne; eapply (NoDup_map_inj f' (node_ids g3)); eauto).
    pose proof (F4 (f' u) (f' v) (Hin u Hu) (Hin v Hv) Hne') as E12. pose proof (G4 u v Hu Hv Hne) as E23.
    unfold eok, edge_ok in *. simpl in *.
    destruct (LGraph.adj g3 u v), (LGraph.adj g2 (f' u) (f' v)), (LGraph.adj g1 (f (f' u)) (f (f' v)));
      simpl in *; try discriminate; try reflexivity.
    eapply em_trans; eauto.
Qed.

Lemma fiso_sym g1 g2 f : NoDup (node_ids g1) -> length (node_ids g1) = length (node_ids g2) ->
  fiso g1 g2 f -> exists g, fiso g2 g1 g.
Proof.
  intros N1 Hlen (F1 & F2 & F3 & F4).
  assert (P : Permutation (map f (node_ids g2)) (node_ids g1)).
  { apply NoDup_Permutation_bis; [exact F1|rewrite map_length; lia|exact F2]. }
  set (g := fun u => match find (fun v => N.eqb (f v) u) (node_ids g2) with Some v => v | None => 0%N end).
  assert (Hg : forall u, In u (node_ids g1) -> In (g u) (node_ids g2) /\ f (g u) = u).
  { intros u Hu. unfold g. destruct (find (fun v => N.eqb (f v) u) (node_ids g2)) as [v|] eqn:Ef.
    - apply find_some in Ef. destruct Ef as (Hv & E). apply N.eqb_eq in E. auto.
    - exfalso. apply (Permutation_in _ (Permutation_sym P)) in Hu. apply in_map_iff in Hu. destruct Hu as (v & E & Hv).
      pose proof (find_none _ _ Ef v Hv) as Hf. simpl in Hf. rewrite E, N.eqb_refl in Hf. discriminate. }
  exists g. split; [|split; [|split]].
  - apply NoDup_map_inj_in; [|exact N1]. intros a b Ia Ib E.
    destruct (Hg a Ia) as (_ & <-). destruct (Hg b Ib) as (_ & <-). now rewrite E.
  - intros v Hv. apply in_map_iff in Hv. destruct Hv as (u & <- & Hu). now apply Hg.
  - intros u Hu. destruct (Hg u Hu) as (Hv & E). rewrite nm_sym. rewrite <- E at 1. now apply F3.
  - intros u v Hu Hv Hne. destruct (Hg u Hu) as (Hu' & Eu). destruct (Hg v Hv) as (Hv' & Ev).
    assert (Hne' : g u <> g v) by (intros E; apply Hne; rewrite <- Eu, <- Ev; now rewrite E).
    pose proof (F4 (g u) (g v) Hu' Hv' Hne') as E21. unfold eok, edge_ok in *. simpl in *. rewrite Eu, Ev in E21.
    destruct (LGraph.adj g1 u v), (LGraph.adj g2 (g u) (g v)); simpl in *; try discriminate; try reflexivity.
    now rewrite em_sym.
Qed.

Lemma n_ids (g : graph) : length (node_ids g) = length (gnodes g).
Proof. apply map_length. Qed.

Theorem isomorphic_refl g : wf_graph g -> isomorphic g g.
Proof. intros H. split; [reflexivity|]. exists (fun u => u). now apply fiso_refl. Qed.

Theorem isomorphic_sym g1 g2 : NoDup (node_ids g1) -> isomorphic g1 g2 -> isomorphic g2 g1.
Proof.
  intros N1 (Hl & f & Hf). split; [now symmetry|]. apply (fiso_sym g1 g2 f N1); [now rewrite !n_ids|exact Hf].
Qed.

Theorem isomorphic_trans g1 g2 g3 : isomorphic g1 g2 -> isomorphic g2 g3 -> isomorphic g1 g3.
Proof.
  intros (Hl & f & Hf) (Hl' & f' & Hf'). split; [congruence|]. exists (fun u => f (f' u)). eapply fiso_trans; eauto.
Qed.

(* ------------------------------------------------------------------ ... and of the boolean test on items *)
Definition wf_item (x : item) : Prop := wf_graph (it_graph x).

Theorem item_iso_refl x : wf_item x -> item_iso labelled defs x x = true.
Proof. intros H. unfold item_iso. apply graph_iso_spec; [apply H|]. now apply isomorphic_refl. Qed.

Theorem item_iso_sym x y : wf_item x -> wf_item y -> item_iso labelled defs x y = true -> item_iso labelled defs y x = true.
Proof.
  intros Hx Hy. unfold item_iso. rewrite (graph_iso_spec _ _ (proj1 Hy)), (graph_iso_spec _ _ (proj1 Hx)).
  apply isomorphic_sym. apply Hx.
Qed.

Theorem item_iso_trans x y z : wf_item x -> wf_item y -> wf_item z ->
  item_iso labelled defs x y = true -> item_iso labelled defs y z = true -> item_iso labelled defs x z = true.
Proof.
  intros Hx Hy Hz. unfold item_iso.
  rewrite (graph_iso_spec _ _ (proj1 Hy)), !(graph_iso_spec _ _ (proj1 Hz)). apply isomorphic_trans.
Qed.

End Iso.

(* ------------------------------------------------------------------ the specification, written without helper definitions *)
Lemma eok_prop labelled (ga gb : graph) f u v :
  eok labelled ga gb f u v = true <->
  match LGraph.adj ga u v, LGraph.adj gb (f u) (f v) with
  | Some b, Some b' => edge_match labelled b' b = true
  | None, None => True
  | _, _ => False
  end.
Proof.
  unfold eok, edge_ok. simpl. destruct (LGraph.adj ga u v), (LGraph.adj gb (f u) (f v)); simpl; split; auto; discriminate.
Qed.

Theorem isomorphic_meaning labelled defs (g1 g2 : graph) :
  isomorphic labelled defs g1 g2 <->
  length (gnodes g1) = length (gnodes g2) /\
  exists f : N -> N,
    NoDup (map f (node_ids g2)) /\ incl (map f (node_ids g2)) (node_ids g1) /\
    (forall u, In u (node_ids g2) -> node_match labelled defs (label g1 (f u)) (label g2 u) = true) /\
    (forall u v, In u (node_ids g2) -> In v (node_ids g2) -> u <> v ->
       match LGraph.adj g2 u v, LGraph.adj g1 (f u) (f v) with
       | Some b, Some b' => edge_match labelled b' b = true
       | None, None => True
       | _, _ => False
       end).
Proof.
  unfold isomorphic, fiso. split; intros (Hl & f & F1 & F2 & F3 & F4); (split; [exact Hl|]); exists f;
    (split; [exact F1|]); (split; [exact F2|]); (split; [exact F3|]); intros u v Hu Hv Hne;
    apply eok_prop; now apply F4.
Qed.

(* ------------------------------------------------------------------ the clustering theorems for THIS relation *)
Section Instance.
Variable labelled : bool.
Variable defs : list N.
Variable mode : attr_mode.
Notation iso := (item_iso labelled defs).
Notation D := (wf_item defs).

(** the pre-grouping attribute is invariant under isomorphism (premise on the DATA; nothing to assume for mode ANone) *)
Definition attr_invariant : Prop :=
  forall x y, D x -> D y -> isomorphic labelled defs (it_graph x) (it_graph y) -> gc_key mode x = gc_key mode y.

Lemma attr_invariant_iso : attr_invariant -> forall x y, D x -> D y -> iso x y = true -> gc_key mode x = gc_key mode y.
Proof.
  intros H x y Dx Dy E. apply H; auto. unfold item_iso in E. now apply (graph_iso_spec labelled defs _ _ (proj1 Dy)).
Qed.

Theorem partition_graphs data : attr_invariant -> Forall D data ->
  length (gc_fit iso mode data) = length data /\
  forall i j x y, nth_error data i = Some x -> nth_error data j = Some y ->
  exists ci cj,
    nth_error (gc_fit iso mode data) i = Some (Some ci) /\
    nth_error (gc_fit iso mode data) j = Some (Some cj) /\
    ci < length (fst (gc_iterative iso mode data)) /\
    (ci = cj <-> isomorphic labelled defs (it_graph x) (it_graph y)).
Proof.
  intros Ha HD.
  destruct (partition_full iso mode D (item_iso_refl labelled defs) (item_iso_sym labelled defs)
              (item_iso_trans labelled defs) (attr_invariant_iso Ha) data HD) as (Hlen & Hall).
  split; [exact Hlen|]. intros i j x y Hx Hy. destruct (Hall i j x y Hx Hy) as (ci & cj & Ei & Ej & Hb & _ & Hiff).
  exists ci, cj. split; [exact Ei|]. split; [exact Ej|]. split; [exact Hb|].
  rewrite Hiff. unfold item_iso. apply graph_iso_spec.
  rewrite Forall_forall in HD. apply (HD y). eapply nth_error_In; eauto.
Qed.

Theorem batch_any_order_graphs data data' bs picks : attr_invariant -> Permutation data data' -> Forall D data ->
  valid_batch_size bs ->
  forall i j i' j' x y,
    nth_error data i = Some x -> nth_error data j = Some y ->
    nth_error data' i' = Some x -> nth_error data' j' = Some y ->
    (nth_error (fst (fit iso mode data' [] bs picks)) i' = nth_error (fst (fit iso mode data' [] bs picks)) j' <->
     isomorphic labelled defs (it_graph x) (it_graph y)).
Proof.
  intros Ha P HD Hbs i j i' j' x y Hx Hy Hx' Hy'.
  rewrite <- (batch_any_order iso mode D (item_iso_refl labelled defs) (item_iso_sym labelled defs)
                (item_iso_trans labelled defs) (attr_invariant_iso Ha) data data' bs picks P HD Hbs i j i' j' x y Hx Hy Hx' Hy').
  destruct (proj2 (partition_graphs data Ha HD) i j x y Hx Hy) as (ci & cj & Ei & Ej & _ & Hiff).
  rewrite Ei, Ej, <- Hiff. split; [intros E; now inversion E|intros ->; reflexivity].
Qed.

End Instance.

Lemma attr_invariant_none labelled defs : attr_invariant labelled defs ANone.
Proof. intros x y _ _ _. reflexivity. Qed.

(* ------------------------------------------------------------------ non-vacuity *)
Module Example_iso.
Import Example_graphs.
(** g1 = C-N single, g3 = relabelled copy (charge missing on one node: default 0), g2 = C-N with another order *)
Lemma wf1 : wf_item [9; 0]%N (MkItem 0 [] g1).
Proof. split; [vm_compute; repeat constructor; simpl; intuition discriminate|]. intros u a [E|[E|[]]]; inversion E; simpl; lia. Qed.
Lemma wf2 : wf_item [9; 0]%N (MkItem 1 [] g2).
Proof. split; [vm_compute; repeat constructor; simpl; intuition discriminate|]. intros u a [E|[E|[]]]; inversion E; simpl; lia. Qed.
Lemma wf3 : wf_item [9; 0]%N (MkItem 2 [] g3).
Proof. split; [vm_compute; repeat constructor; simpl; intuition discriminate|]. intros u a [E|[E|[]]]; inversion E; simpl; lia. Qed.

Example iso_spec_nonvacuous :
  isomorphic true [9; 0]%N g1 g3 /\ ~ isomorphic true [9; 0]%N g1 g2 /\ isomorphic false [9; 0]%N g1 g2.
Proof.
  split; [|split].
  - apply (graph_iso_spec true [9; 0]%N g1 g3 (proj1 wf3)). vm_compute. reflexivity.
  - intros H. apply (graph_iso_spec true [9; 0]%N g1 g2 (proj1 wf2)) in H. vm_compute in H. discriminate.
  - apply (graph_iso_spec false [9; 0]%N g1 g2 (proj1 wf2)). vm_compute. reflexivity.
Qed.

Example partition_graphs_nonvacuous :
  exists ci cj, nth_error (gc_fit (item_iso true [9; 0]%N) ANone pool) 0 = Some (Some ci) /\
                nth_error (gc_fit (item_iso true [9; 0]%N) ANone pool) 2 = Some (Some cj) /\
                ci < length (fst (gc_iterative (item_iso true [9; 0]%N) ANone pool)) /\
                (ci = cj <-> isomorphic true [9; 0]%N g1 g3).
Proof.
  assert (HD : Forall (wf_item [9; 0]%N) pool) by (constructor; [apply wf1|constructor; [apply wf2|constructor; [apply wf3|constructor]]]).
  exact (proj2 (partition_graphs true [9; 0]%N ANone pool (attr_invariant_none _ _) HD) 0 2 _ _ eq_refl eq_refl).
Qed.
End Example_iso.
