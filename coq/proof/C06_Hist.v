(** C06 — histories (model/C06_Hist.v): a search reads the two objects only through their projections
    onto the selections, so an in-place edit of an attribute that is not selected (and is not hcount)
    changes no answer of the next search; an edit of a selected attribute, or of the bonds, is seen. *)
From Coq Require Import List NArith Bool Arith Lia.
From SK Require Import lib.Tok lib.LGraph lib.Mono lib.Reach model.C06_Model model.C06_Attrs model.C06_Trace model.C06_Hist
  proof.C06_Attrs proof.C06_AttrsSpec.
Import ListNotations.

(** two enumeration oracles that agree on parts of the two graphs give the same trace *)
Section TraceExt.
Variables (e1 e2 : list N -> list N -> list mapping) (G Q : graph).
Hypothesis Hm : forall hn pn, incl hn (node_ids G) -> incl pn (node_ids Q) -> e1 hn pn = e2 hn pn.

Lemma cc_outer_calls_ext cap thr pc : incl pc (node_ids Q) -> forall cands n,
  (forall ih, In ih cands -> incl (snd ih) (node_ids G)) ->
  cc_outer_calls e1 cap thr pc cands n = cc_outer_calls e2 cap thr pc cands n.
Proof.
  intros Hpc. induction cands as [|[i hc] l IHl]; intros n Hc; cbn [cc_outer_calls]; [reflexivity|].
  rewrite (Hm hc pc) by (try exact Hpc; apply (Hc (i, hc)); left; reflexivity).
  rewrite IHl by (intros ih Hi; apply Hc; right; exact Hi). reflexivity.
Qed.

Lemma per_cc_calls_ext cap thr hcs : (forall ih, In ih hcs -> incl (snd ih) (node_ids G)) ->
  forall pcs, (forall pc, In pc pcs -> incl pc (node_ids Q)) ->
  per_cc_calls e1 cap thr hcs pcs = per_cc_calls e2 cap thr hcs pcs.
Proof.
  intros Hh. induction pcs as [|pc r IH]; intros Hp; cbn [per_cc_calls]; [reflexivity|].
  assert (Hpc : incl pc (node_ids Q)) by (apply Hp; left; reflexivity).
  assert (Hc : forall ih, In ih (filter (fun ih => length pc <=? length (snd ih)) hcs) -> incl (snd ih) (node_ids G)).
  { intros ih Hi. apply filter_In in Hi. apply Hh. exact (proj1 Hi). }
  destruct (filter (fun ih => length pc <=? length (snd ih)) hcs) as [|x cand] eqn:Ec; [reflexivity|].
  rewrite (cc_outer_enum_ext e1 e2 G Q Hm cap thr pc Hpc (x :: cand) [] 0%N Hc).
  rewrite IH by (intros pc' Hi; apply Hp; right; exact Hi).
  rewrite (cc_outer_calls_ext cap thr pc Hpc (x :: cand) 0%N Hc). reflexivity.
Qed.

Lemma trace_enum_ext c : trace e1 c G Q = trace e2 c G Q.
Proof.
  unfold trace, trace_bt, trace_comp, trace_all.
  rewrite (find_comp_enum_ext e1 e2 G Q Hm).
  rewrite (Hm (node_ids G) (node_ids Q) (incl_refl _) (incl_refl _)).
  rewrite per_cc_calls_ext.
  - reflexivity.
  - intros ih Hin. apply comps_incl. exact (index_from_snd _ _ _ Hin).
  - intros pc Hin. apply comps_incl. exact Hin.
Qed.
End TraceExt.

(** everything a search step answers is a function of the two projections *)
Theorem run_tr_set_reads_projection na ea (H H' P P' : rgraph) cfgs :
  project na ea H = project na ea H' -> project na ea P = project na ea P' ->
  run_tr_set na ea H' P' cfgs = run_tr_set na ea H P cfgs.
Proof.
  intros EH EP.
  assert (Ef : forall c, find_sel (monos_sel na ea H' P') c na ea H' P' = find_sel (monos_sel na ea H P) c na ea H P)
    by (intros c; rewrite !find_sel_project, EH, EP; reflexivity).
  assert (Eq : forall thr, quick_pre_filter_sel na H' P' thr = quick_pre_filter_sel na H P thr)
    by (intros thr; rewrite !(quick_pre_filter_sel_project na ea), EH, EP; reflexivity).
  assert (Et : forall c, trace (monos_sel na ea H' P') c (project na ea H') (project na ea P') =
                         trace (monos_sel na ea H P) c (project na ea H) (project na ea P)).
  { intros c. rewrite <- EH, <- EP. apply trace_enum_ext. intros hn pn Hh Hp.
    rewrite node_ids_project in Hh, Hp.
    rewrite <- (monos_sel_project na ea H P hn pn Hh Hp).
    assert (Hh' : incl hn (node_ids H')) by (rewrite <- (node_ids_project na ea H'), <- EH, node_ids_project; exact Hh).
    assert (Hp' : incl pn (node_ids P')) by (rewrite <- (node_ids_project na ea P'), <- EP, node_ids_project; exact Hp).
    rewrite <- (monos_sel_project na ea H' P' hn pn Hh' Hp'), <- EH, <- EP. reflexivity. }
  unfold run_tr_set. rewrite <- EH, <- EP. unfold tlist.
  rewrite (map_ext _ (fun c => L [tbool (quick_pre_filter_sel na H P (c_thr c));
                                   tset tmapping (find_sel (monos_sel na ea H P) c na ea H P);
                                   L (map tcallt (trace (monos_sel na ea H P) c (project na ea H) (project na ea P)))])).
  - reflexivity.
  - intros c. rewrite Ef, Eq. rewrite <- EH, <- EP in Et. rewrite Et. reflexivity.
Qed.

(** ---------- dictionaries ---------- *)
Lemma aget_dict_set_other k v d k' : k' <> k -> aget k' (dict_set k v d) = aget k' d.
Proof.
  intros Hne. unfold aget. induction d as [|[k0 v0] r IH]; simpl.
  - destruct (N.eqb_spec k' k); [contradiction|reflexivity].
  - destruct (N.eqb_spec k0 k) as [->|Hk0]; simpl.
    + destruct (N.eqb_spec k' k); [contradiction|reflexivity].
    + destruct (N.eqb_spec k' k0); [reflexivity|exact IH].
Qed.

Lemma aget_dict_set_same k v d : aget k (dict_set k v d) = v.
Proof.
  unfold aget. induction d as [|[k0 v0] r IH]; simpl.
  - rewrite N.eqb_refl. reflexivity.
  - destruct (N.eqb_spec k0 k) as [->|Hk0]; simpl.
    + rewrite N.eqb_refl. reflexivity.
    + destruct (N.eqb_spec k k0) as [E|_]; [symmetry in E; contradiction|exact IH].
Qed.

Lemma aget_dict_del_other k d k' : k' <> k -> aget k' (dict_del k d) = aget k' d.
Proof.
  intros Hne. unfold aget. induction d as [|[k0 v0] r IH]; simpl; [reflexivity|].
  destruct (N.eqb_spec k0 k) as [->|Hk0]; simpl.
  - destruct (N.eqb_spec k' k); [contradiction|reflexivity].
  - destruct (N.eqb_spec k' k0); [reflexivity|exact IH].
Qed.

Lemma map_aget_ext sel (d d' : rattrs) : (forall k', In k' sel -> aget k' d' = aget k' d) ->
  map (fun k' => aget k' d') sel = map (fun k' => aget k' d) sel.
Proof. intros E. apply map_ext_in. exact E. Qed.

(** ---------- the three attribute edits, not selected ---------- *)
Lemma project_map_node na ea g u f :
  (forall l, proj_n na (f l) = proj_n na l) -> project na ea (map_node u f g) = project na ea g.
Proof.
  intros Hf. unfold project, map_node. simpl. f_equal. rewrite map_map. apply map_ext. intros [x l]. simpl.
  destruct (N.eqb x u); simpl; [rewrite Hf|]; reflexivity.
Qed.

Lemma project_map_edge na ea g a b f :
  (forall d, proj_e ea (f d) = proj_e ea d) -> project na ea (map_edge a b f g) = project na ea g.
Proof.
  intros Hf. unfold project, map_edge. simpl. f_equal. rewrite map_map. apply map_ext. intros [[x y] d].
  destruct (joins a b x y); [rewrite Hf|]; reflexivity.
Qed.

Definition invisible (na ea : list N) (e : edit) : Prop :=
  match e with
  | ESetNodeAttr _ k _ _ | EDelNodeAttr _ k => ~ In k na /\ k <> HCOUNT_KEY
  | ESetEdgeAttr _ _ k _ => ~ In k ea
  | _ => False
  end.

Lemma project_invisible na ea e g : invisible na ea e -> project na ea (apply_edit e g) = project na ea g.
Proof.
  destruct e as [u k v n|u k|a b k v|a b d|a b|u l|u]; simpl; try (intros Hf; exact (False_rect _ Hf)).
  - intros [Hn Hk]. apply project_map_node. intros [d h]. unfold proj_n, lab_set, hc. simpl.
    destruct (N.eqb_spec k HCOUNT_KEY); [contradiction|]. f_equal.
    apply map_aget_ext. intros k' Hin. apply aget_dict_set_other. intros ->. exact (Hn Hin).
  - intros [Hn Hk]. apply project_map_node. intros [d h]. unfold proj_n, lab_del, hc. simpl.
    destruct (N.eqb_spec k HCOUNT_KEY); [contradiction|]. f_equal.
    apply map_aget_ext. intros k' Hin. apply aget_dict_del_other. intros ->. exact (Hn Hin).
  - intros Hn. apply project_map_edge. intros d. unfold proj_e.
    apply map_aget_ext. intros k' Hin. apply aget_dict_set_other. intros ->. exact (Hn Hin).
Qed.

(** a search right after an in-place edit of a non-selected attribute (of either object) answers as if
    the edit had not happened: result, pre-filter verdict, components, VF2 calls *)
Theorem hist_edit_invisible na ea e host_side swap c (H P : rgraph) rest :
  invisible na ea e ->
  hd_error (run_hist H P (HEdit host_side e :: HSearch swap na ea c :: rest)) =
  hd_error (run_hist H P (HSearch swap na ea c :: rest)).
Proof.
  intros Hi. destruct host_side; cbn [run_hist hd_error]; f_equal; destruct swap;
    apply run_tr_set_reads_projection; try reflexivity; symmetry; apply project_invisible; exact Hi.
Qed.

(** results are values: a caller-side mutation of an earlier result changes nothing *)
Theorem hist_mutate_result_noop (H P : rgraph) rest : run_hist H P (HMutateResult :: rest) = run_hist H P rest.
Proof. reflexivity. Qed.

(** searches do not change the state: a repeated request gives the same answer *)
Theorem hist_search_pure swap na ea c (H P : rgraph) rest :
  run_hist H P (HSearch swap na ea c :: HSearch swap na ea c :: rest) =
  (if swap then run_tr_set na ea P H [c] else run_tr_set na ea H P [c]) :: run_hist H P (HSearch swap na ea c :: rest).
Proof. reflexivity. Qed.

(** ---------- non-vacuity: what IS seen ---------- *)
From SK Require Import proof.C06_AttrsEx.
Local Open Scope N_scope.

(** names: 1 hcount, 2 element, 3 order; values: 1 "C", 2 = 1 (order).  Host: chain 0-1-2 and a lone carbon 3; pattern: 10-11
    and a lone carbon 12 (the demo of the seeded change C06-w3-1).  The bond 1-2 is moved to 2-3 in place: node and edge
    counts unchanged, components {0,1,2},{3} -> {0,1},{2,3}.  Component-aware answers: 4 -> 4 but different maps. *)
Definition Hh : rgraph :=
  LG [ (0, ([(2, 1)], None)); (1, ([(2, 1)], None)); (2, ([(2, 1)], None)); (3, ([(2, 1)], None)) ]
     [ (0, 1, [(3, 2)]); (1, 2, [(3, 2)]) ].
Definition Ph : rgraph :=
  LG [ (10, ([(2, 1)], None)); (11, ([(2, 1)], None)); (12, ([(2, 1)], None)) ] [ (10, 11, [(3, 2)]) ].
Definition comp_cfg := Cfg 1 0 5000 false false.
Definition moved := apply_edit (EAddEdge 2 3 [(3, 2)]) (apply_edit (ERemoveEdge 1 2) Hh).

Example ex_hist_bond_moved :
  run_hist Hh Ph [HSearch false [2] [3] comp_cfg; HEdit true (ERemoveEdge 1 2); HEdit true (EAddEdge 2 3 [(3, 2)]);
                  HSearch false [2] [3] comp_cfg] =
  [run_tr_set [2] [3] Hh Ph [comp_cfg]; run_tr_set [2] [3] moved Ph [comp_cfg]] /\
  length (gnodes moved) = length (gnodes Hh) /\ length (gedges moved) = length (gedges Hh) /\
  comps (project [2] [3] Hh) = [[0; 1; 2]; [3]] /\ comps (project [2] [3] moved) = [[0; 1]; [2; 3]] /\
  find_sel (monos_sel [2] [3] Hh Ph) comp_cfg [2] [3] Hh Ph <> find_sel (monos_sel [2] [3] moved Ph) comp_cfg [2] [3] moved Ph.
Proof. vm_compute. repeat split; try reflexivity. discriminate. Qed.

Example ex_invisible : invisible [2] [3] (ESetNodeAttr 1 7 9 0) /\ ~ invisible [2] [3] (ESetNodeAttr 1 2 9 0).
Proof.
  split.
  - split; [simpl; intros [E|[]]; discriminate|discriminate].
  - intros [Hn _]. apply Hn. left. reflexivity.
Qed.

(** a selected attribute edited in place IS seen: element of host node 3 set to another value: the lone carbon is gone *)
Example ex_hist_edit_seen :
  hd_error (run_hist Hh Ph [HEdit true (ESetNodeAttr 3 2 9 0); HSearch false [2] [3] comp_cfg]) <>
  hd_error (run_hist Hh Ph [HSearch false [2] [3] comp_cfg]).
Proof. vm_compute. discriminate. Qed.
