(** C08 — compute_orbits returns the orbits of the automorphism group: two nodes lie in one class of [nauty_orbits]
    exactly when an automorphism of the covered graph carries one to the other.  From C08_Orbits (the classes are generated
    by the pairs (best_i, q_i), q a reported permutation), C08_Auts (every such pair is the image of a node under an
    automorphism; every automorphism contributes its pairs) and the group structure of the automorphisms. *)
From Coq Require Import List NArith ZArith Bool Arith Lia Permutation Relations.
From SK Require Import lib.LGraph lib.StrJoin.
From SK Require Import model.C08_Model proof.C08_Spec proof.C08_Sort proof.C08_Faithful proof.C08_Cov proof.C08_SigFun
                       proof.C08_Render proof.C08_Nauty proof.C08_Sound proof.C08_Invariant proof.C08_Auts proof.C08_Orbits.
Import ListNotations.

Notation ix p := (apply_map (mapping_of p)).

(** an automorphism of [g] on the covered attributes *)
Definition aut (g : graph) (s : N -> N) : Prop := C08_Spec.inj_on s (node_ids g) /\ geq_cov (relabel s g) g.
Definition same_orbit (g : graph) (x y : N) : Prop := exists s, aut g s /\ s x = y.

Lemma aut_image g s x : aut g s -> In x (node_ids g) -> In (s x) (node_ids g).
Proof.
  intros [_ Hq] I. apply (Permutation_in _ (geq_cov_ids _ _ Hq)). rewrite node_ids_relabel. apply in_map. exact I.
Qed.
Lemma aut_onto g s y : aut g s -> In y (node_ids g) -> exists x, In x (node_ids g) /\ s x = y.
Proof.
  intros [_ Hq] I. apply (Permutation_in _ (Permutation_sym (geq_cov_ids _ _ Hq))) in I.
  rewrite node_ids_relabel in I. apply in_map_iff in I. destruct I as (x & E & I). exists x. auto.
Qed.
Lemma aut_id g : wf g -> aut g (fun x => x).
Proof.
  intros Hg. split; [intros x y _ _ E; exact E|]. rewrite (relabel_id_on (fun x => x) g Hg); auto. apply geq_cov_refl.
Qed.
Lemma aut_comp g s t : aut g s -> aut g t -> aut g (fun x => t (s x)).
Proof.
  intros Hs Ht. split.
  - intros x y Hx Hy E. apply (proj1 Hs); auto. apply (proj1 Ht); auto; apply (aut_image g s); auto.
  - rewrite <- (relabel_compose s t g). eapply geq_cov_trans; [apply relabel_geq_cov; exact (proj2 Hs)|exact (proj2 Ht)].
Qed.
Lemma aut_inv g s : wf g -> aut g s ->
  aut g (inv_on s (node_ids g)) /\ forall x, In x (node_ids g) -> inv_on s (node_ids g) (s x) = x.
Proof.
  intros Hg Hs. pose proof Hs as [Hi Hq]. split; [split|].
  - intros y1 y2 I1 I2 E.
    destruct (aut_onto g s y1 Hs I1) as (x1 & J1 & <-). destruct (aut_onto g s y2 Hs I2) as (x2 & J2 & <-).
    rewrite !inv_on_spec in E by auto. subst. reflexivity.
  - apply geq_cov_sym.
    pose proof (relabel_geq_cov (inv_on s (node_ids g)) _ _ Hq) as H. rewrite relabel_compose in H.
    rewrite (relabel_id_on _ g Hg) in H; [exact H|]. intros x I. apply inv_on_spec; auto.
  - intros x I. apply inv_on_spec; auto.
Qed.

(* the map that carries one canonical numbering to another with the same covered canonical graph *)
Lemma common_form_map g f f' : wf g -> C08_Spec.inj_on f (node_ids g) -> C08_Spec.inj_on f' (node_ids g) ->
  geq_cov (relabel f g) (relabel f' g) -> aut g (fun x => inv_on f' (node_ids g) (f x)).
Proof.
  intros Hg Hi Hi' Hq. set (iv := inv_on f' (node_ids g)). split.
  - intros x y Hx Hy E.
    pose proof (geq_cov_ids _ _ Hq) as Hp. rewrite !node_ids_relabel in Hp.
    assert (Ix : In (f x) (map f' (node_ids g))) by (apply (Permutation_in _ Hp); apply in_map; auto).
    assert (Iy : In (f y) (map f' (node_ids g))) by (apply (Permutation_in _ Hp); apply in_map; auto).
    apply in_map_iff in Ix, Iy. destruct Ix as (x' & Ex & Ix), Iy as (y' & Ey & Iy).
    rewrite <- Ex, <- Ey in E. unfold iv in E. rewrite !inv_on_spec in E by auto. subst y'.
    apply Hi; auto. congruence.
  - rewrite <- (relabel_compose f iv g).
    eapply geq_cov_trans; [apply relabel_geq_cov; exact Hq|].
    rewrite relabel_compose. rewrite relabel_id_on; auto; [apply geq_cov_refl|].
    intros x Hx. apply inv_on_spec; auto.
Qed.

Lemma in_combine_map {A B} (f : A -> B) (l : list A) x : In x l -> In (x, f x) (combine l (map f l)).
Proof. induction l as [|a l IH]; simpl; [tauto|]. intros [->|I]; [left; reflexivity|right; auto]. Qed.

Section Orb.
Variable g : graph.
Hypothesis Hg : wf g.
Hypothesis Eg : els_ok g.

Lemma same_orbit_refl x : same_orbit g x x.
Proof. exists (fun z => z). split; [apply aut_id; exact Hg|reflexivity]. Qed.
Lemma same_orbit_sym x y : In x (node_ids g) -> same_orbit g x y -> same_orbit g y x.
Proof.
  intros I (s & Hs & <-). destruct (aut_inv g s Hg Hs) as [Ha Hv]. exists (inv_on s (node_ids g)). split; auto.
Qed.
Lemma same_orbit_trans x y z : same_orbit g x y -> same_orbit g y z -> same_orbit g x z.
Proof. intros (s & Hs & <-) (t & Ht & <-). exists (fun u => t (s u)). split; [apply aut_comp; auto|reflexivity]. Qed.

(* every generating pair (best_i, q_i) is a node and its image under an automorphism *)
Lemma pair_same_orbit a b : pairs_rel (nauty_perm g) (snd (nauty_acc g)) a b ->
  In a (node_ids g) /\ In b (node_ids g) /\ same_orbit g a b.
Proof.
  intros (q & Iq & Iab). pose proof (proj1 Hg) as Ng.
  destruct (nauty_auts_sound g Hg Eg q Iq) as (Pq & _ & Hq).
  pose proof (nauty_perm_perm g Ng) as Pp. set (p := nauty_perm g) in *.
  assert (Np : NoDup p) by (eapply Permutation_NoDup; [apply Permutation_sym; exact Pp|exact Ng]).
  assert (Nq : NoDup q) by (eapply Permutation_NoDup; [apply Permutation_sym; exact Pq|exact Ng]).
  assert (Hl : length p = length q) by (rewrite (Permutation_length Pp), (Permutation_length Pq); reflexivity).
  assert (Ia : In a (node_ids g)) by (apply (Permutation_in _ Pp); eapply in_combine_l; eauto).
  assert (Ib : In b (node_ids g)) by (apply (Permutation_in _ Pq); eapply in_combine_r; eauto).
  assert (Ip : C08_Spec.inj_on (ix p) (node_ids g)) by (apply inj_on_same; eapply inj_on_perm; [exact Pp|apply mapping_of_inj; auto]).
  assert (Iqq : C08_Spec.inj_on (ix q) (node_ids g)) by (apply inj_on_same; eapply inj_on_perm; [exact Pq|apply mapping_of_inj; auto]).
  split; [exact Ia|]. split; [exact Ib|].
  exists (fun x => inv_on (ix q) (node_ids g) (ix p x)). split.
  - apply common_form_map; auto.
  - rewrite (ix_combine p q a b Np Nq Hl Iab). apply inv_on_spec; auto.
Qed.

Theorem nauty_orbits_aut x y : In x (node_ids g) -> In y (node_ids g) ->
  ((exists c, In c (nauty_orbits g) /\ In x c /\ In y c) <-> same_orbit g x y).
Proof.
  intros Ix Iy. pose proof (proj1 Hg) as Ng. destruct (nauty_orbits_spec g Ng) as (_ & H2 & H3). split.
  - intros (c & Ic & Ixc & Iyc). pose proof (H2 c x y Ic Ixc Iyc) as Hc. clear -Hc Hg Eg.
    assert (K : (In x (node_ids g) /\ In y (node_ids g) /\ same_orbit g x y) \/ x = y).
    { unfold eqv in Hc. induction Hc as [a b R|a|a b _ IH|a b c0 _ IH1 _ IH2].
      - left. apply pair_same_orbit. exact R.
      - right. reflexivity.
      - destruct IH as [(A & B & S) | ->]; [left|right; reflexivity]. split; [exact B|]. split; [exact A|]. apply same_orbit_sym; auto.
      - destruct IH1 as [(A & B & S) | ->]; [|exact IH2]. destruct IH2 as [(B' & C & S') | <-]; [|left; auto].
        left. split; [exact A|]. split; [exact C|]. eapply same_orbit_trans; eauto. }
    destruct K as [(_ & _ & S) | ->]; [exact S|apply same_orbit_refl].
  - intros (s & Hs & <-). apply H3; auto. apply rst_step.
    set (pi := extend s (node_ids g)).
    assert (pi_inj : forall u v, pi u = pi v -> u = v) by (apply extend_inj; exact (proj1 Hs)).
    assert (Hq : geq_cov (relabel pi g) g).
    { rewrite (relabel_ext_on pi s g Hg); [exact (proj2 Hs)|]. intros u I. apply extend_on. exact I. }
    exists (map pi (nauty_perm g)). split; [apply nauty_auts_complete; auto|].
    assert (Ixp : In x (nauty_perm g)) by (apply (Permutation_in _ (Permutation_sym (nauty_perm_perm g Ng))); exact Ix).
    rewrite <- (extend_on s (node_ids g) x Ix). apply in_combine_map. exact Ixp.
Qed.
End Orb.

(* non-vacuity: C4 with equal bonds: one orbit, and the rotation by one position is an automorphism carrying 1 to 2 *)
Definition oa_g : graph :=
  LG [(1%N, NA [67%N] false 0 0 None); (2%N, NA [67%N] false 0 0 None); (3%N, NA [67%N] false 0 0 None); (4%N, NA [67%N] false 0 0 None)]
     [(1%N, 2%N, EA 2 None); (2%N, 3%N, EA 2 None); (3%N, 4%N, EA 2 None); (4%N, 1%N, EA 2 None)].
Definition oa_rot (x : N) : N := if N.eqb x 4 then 1%N else (x + 1)%N.
Example oa_ex : length (nauty_orbits oa_g) = 1 /\ aut oa_g oa_rot /\ oa_rot 1 = 2%N.
Proof.
  split; [vm_compute; reflexivity|]. split; [|reflexivity]. split.
  - intros x y Hx Hy. simpl in Hx, Hy.
    destruct Hx as [<-|[<-|[<-|[<-|[]]]]], Hy as [<-|[<-|[<-|[<-|[]]]]]; vm_compute; intros E; try reflexivity; discriminate.
  - split; vm_compute.
    + apply Permutation_sym. apply (Permutation_cons_app [_; _; _] []). apply Permutation_refl.
    + apply Permutation_sym. apply (Permutation_cons_app [_; _; _] []). apply Permutation_refl.
Qed.

Print Assumptions nauty_orbits_aut.
