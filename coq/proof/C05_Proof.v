(** C05 — lemmas about the composed pipeline (model/C05_Model.v), part 1:
    the lazy enumerator is Mono's enumerator; relabelling lemmas for list graphs; the verified
    enumerator commutes with relabelling of pattern and host (literal, list level). Stdlib lists. *)
From Coq Require Import List NArith ZArith Bool Arith Lia.
From SK Require Import lib.Tok lib.LGraph lib.Mono.
From SK Require model.C06_Model model.C11_Model.
From SK Require Import model.C03_Model model.C05_Model.
Import ListNotations.

Section WithThr.
Context {TH : Thr}.


(** ** the pipeline is a function *)
Lemma pipeline_repeat inv imp ex s (h h' : hostg) (t t' : its) :
  h = h' -> t = t' -> pipeline inv imp ex s h t = pipeline inv imp ex s h' t'.
Proof. intros -> ->. reflexivity. Qed.

(** ** [extend'] = [Mono.extend] *)
Section FastEq.
  Variables A B : Type.
  Variable hn : list N.
  Variable pl hl : N -> A.
  Variable pe he : N -> N -> option B.
  Variable nm : A -> A -> bool.
  Variable em : B -> B -> bool.
  Variable induced : bool.

  Lemma ok'_eq p h acc : ok' A B pl hl pe he nm em induced p h acc = ok pl hl pe he nm em induced p h acc.
  Proof. unfold ok', ok. destruct (nm (hl h) (pl p)); simpl; [|reflexivity]. destruct (fresh h acc); reflexivity. Qed.

  Lemma extend'_eq ps : forall acc,
    extend' A B hn pl hl pe he nm em induced ps acc = extend hn pl hl pe he nm em induced ps acc.
  Proof.
    induction ps as [|p ps IH]; intros acc; simpl; [reflexivity|].
    apply flat_map_ext. intros h. rewrite ok'_eq. destruct (ok _ _ _ _ _ _ _ _ _ _); [apply IH | reflexivity].
  Qed.
End FastEq.

Lemma monos'_eq A B pn hn (pl hl : N -> A) (pe he : N -> N -> option B) nm em induced :
  monos' pn hn pl hl pe he nm em induced = monos pn hn pl hl pe he nm em induced.
Proof. unfold monos', monos. apply extend'_eq. Qed.

Lemma monos_on'_eq H P hn pn : monos_on' H P hn pn = C06_Model.monos_on H P hn pn.
Proof. unfold monos_on', C06_Model.monos_on. apply monos'_eq. Qed.

(** ** relabelling of list graphs by an injective function *)
Definition inj (f : N -> N) : Prop := forall a b, f a = f b -> a = b.

Lemma inj_eqb f a b : inj f -> N.eqb (f a) (f b) = N.eqb a b.
Proof.
  intros Hf. destruct (N.eqb_spec a b) as [->|Hne]; [apply N.eqb_refl|].
  apply N.eqb_neq. intros E. apply Hne, Hf, E.
Qed.

Section Relabel.
  Variables A B : Type.
  Variable f : N -> N.
  Hypothesis Hf : inj f.

  Lemma assoc_relabel {V} (l : list (N * V)) u : assoc (f u) (map (fun p => (f (fst p), snd p)) l) = assoc u l.
  Proof.
    induction l as [|[k v] r IH]; simpl; [reflexivity|].
    rewrite (inj_eqb f u k Hf). destruct (N.eqb u k); [reflexivity | apply IH].
  Qed.

  Lemma label_relabel (g : lgraph A B) u : label (relabel f g) (f u) = label g u.
  Proof. unfold label, relabel; simpl. apply assoc_relabel. Qed.

  Lemma has_node_relabel (g : lgraph A B) u : has_node (relabel f g) (f u) = has_node g u.
  Proof. unfold has_node. rewrite label_relabel. reflexivity. Qed.

  Lemma find_edge_relabel (es : list (N * N * B)) u v :
    find_edge (f u) (f v) (map (fun e => let '(a, b, x) := e in (f a, f b, x)) es) = find_edge u v es.
  Proof.
    induction es as [|[[a b] x] r IH]; simpl; [reflexivity|].
    rewrite !(inj_eqb f _ _ Hf). destruct ((N.eqb a u && N.eqb b v) || (N.eqb a v && N.eqb b u)); [reflexivity | apply IH].
  Qed.

  Lemma adj_relabel (g : lgraph A B) u v : LGraph.adj (relabel f g) (f u) (f v) = LGraph.adj g u v.
  Proof. unfold LGraph.adj, relabel; simpl. apply find_edge_relabel. Qed.

  Lemma node_ids_relabel (g : lgraph A B) : node_ids (relabel f g) = map f (node_ids g).
  Proof. unfold node_ids, relabel; simpl. rewrite !map_map. reflexivity. Qed.
End Relabel.

Lemma flat_map_map' {X Y Z} (f : Y -> list Z) (g : X -> Y) l : flat_map f (map g l) = flat_map (fun x => f (g x)) l.
Proof. induction l as [|x r IH]; simpl; [reflexivity | rewrite IH; reflexivity]. Qed.
Lemma map_flat_map' {X Y Z} (h : Y -> Z) (f : X -> list Y) l : map h (flat_map f l) = flat_map (fun x => map h (f x)) l.
Proof. induction l as [|x r IH]; simpl; [reflexivity | rewrite map_app, IH; reflexivity]. Qed.

(** ** the enumerator commutes with relabelling *)
Definition mv (sg pi : N -> N) (m : list (N * N)) : list (N * N) := map (fun ph => (sg (fst ph), pi (snd ph))) m.

Section MonoEquiv.
  Variables A B : Type.
  Variables sg pi : N -> N.
  Hypothesis pi_inj : inj pi.
  Variable hn : list N.
  Variables pl hl pl' hl' : N -> A.
  Variables pe he pe' he' : N -> N -> option B.
  Variable nm : A -> A -> bool.
  Variable em : B -> B -> bool.
  Variable induced : bool.
  Hypothesis Hpl : forall p, pl' (sg p) = pl p.
  Hypothesis Hhl : forall h, hl' (pi h) = hl h.
  Hypothesis Hpe : forall p q, pe' (sg p) (sg q) = pe p q.
  Hypothesis Hhe : forall h k, he' (pi h) (pi k) = he h k.

  Lemma fresh_equiv h acc : fresh (pi h) (mv sg pi acc) = fresh h acc.
  Proof.
    unfold fresh, mv. f_equal. induction acc as [|[p' h'] r IH]; simpl; [reflexivity|].
    rewrite (inj_eqb pi h' h pi_inj), IH. reflexivity.
  Qed.

  Lemma edge_ok_equiv p h ph :
    edge_ok pe' he' em induced (sg p) (pi h) (sg (fst ph), pi (snd ph)) = edge_ok pe he em induced p h ph.
  Proof. unfold edge_ok; simpl. rewrite Hpe, Hhe. reflexivity. Qed.

  Lemma ok_equiv p h acc :
    ok pl' hl' pe' he' nm em induced (sg p) (pi h) (mv sg pi acc) = ok pl hl pe he nm em induced p h acc.
  Proof.
    unfold ok. rewrite Hpl, Hhl, fresh_equiv. f_equal.
    unfold mv. induction acc as [|ph r IH]; simpl; [reflexivity|]. rewrite edge_ok_equiv, IH. reflexivity.
  Qed.

  Lemma extend_equiv ps : forall acc,
    extend (map pi hn) pl' hl' pe' he' nm em induced (map sg ps) (mv sg pi acc)
    = map (mv sg pi) (extend hn pl hl pe he nm em induced ps acc).
  Proof.
    induction ps as [|p ps IH]; intros acc; simpl; [reflexivity|].
    rewrite flat_map_map', map_flat_map'.
    apply flat_map_ext. intros h. rewrite ok_equiv.
    destruct (ok pl hl pe he nm em induced p h acc); [|reflexivity].
    apply (IH ((p, h) :: acc)).
  Qed.

  (** the raw match list of the relabelled problem is the relabelled raw match list (same order) *)
  Lemma monos_equiv pn :
    monos (map sg pn) (map pi hn) pl' hl' pe' he' nm em induced = map (mv sg pi) (monos pn hn pl hl pe he nm em induced).
  Proof. unfold monos. apply (extend_equiv pn []). Qed.
End MonoEquiv.

End WithThr.
