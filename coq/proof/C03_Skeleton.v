(** C03 — rule preparation in the default mode, general templates (explicit hydrogens allowed): whatever
    _strip_explicit_h decides, the rule it returns is the template with SOME explicit hydrogen atoms removed — the
    remaining atoms in the same order with the same element, aromaticity, charge and neighbors on both sides (only
    hydrogen counts, hcount and h_pairs are rewritten), and exactly the template's bonds that touch no removed atom,
    unchanged.  So the heavy-atom skeleton of the rule, and every changed bond between heavy atoms, is the template's.
    Stdlib lists only. *)
From Coq Require Import List NArith ZArith Bool Lia.
From SK Require Import lib.Tok lib.LGraph model.C03_Model proof.C03_Proof proof.C03_Glue proof.C03_Backward.
Import ListNotations.
Local Open Scope Z_scope.

Record skel (T0 g : its) (removed : list N) : Prop := {
  sk_H : forall h, In h removed -> is_H_i T0 h = true;
  sk_nodes : Forall2 same_core (gnodes g) (filter (keepn removed) (gnodes T0));
  sk_edges : gedges g = filter (keepe removed) (gedges T0) }.

(** * list lemmas *)
Lemma Forall2_map_l {A B} (R : A -> B -> Prop) (f : A -> A) l1 l2 :
  (forall p q, R p q -> R (f p) q) -> Forall2 R l1 l2 -> Forall2 R (map f l1) l2.
Proof. intros H. induction 1; simpl; constructor; auto. Qed.
Lemma Forall2_filter {A B} (R : A -> B -> Prop) (c1 : A -> bool) (c2 : B -> bool) l1 l2 :
  (forall p q, R p q -> c1 p = c2 q) -> Forall2 R l1 l2 -> Forall2 R (filter c1 l1) (filter c2 l2).
Proof.
  intros H. induction 1 as [|p q l1 l2 Hpq _ IH]; simpl; [constructor|].
  rewrite (H p q Hpq). destruct (c2 q); [constructor|]; auto.
Qed.
Lemma filter_filter {A} (f g : A -> bool) l : filter f (filter g l) = filter (fun x => g x && f x) l.
Proof. induction l as [|x r IH]; simpl; [reflexivity|]. destruct (g x); simpl; [destruct (f x)|]; rewrite ?IH; reflexivity. Qed.
Lemma filter_ext_all {A} (f g : A -> bool) l : (forall x, f x = g x) -> filter f l = filter g l.
Proof. intros H. induction l as [|x r IH]; simpl; [reflexivity|]. rewrite H, IH. reflexivity. Qed.
Lemma Forall2_refl_map {A} (R : A -> A -> Prop) (f : A -> A) l : (forall x, R (f x) x) -> Forall2 R (map f l) l.
Proof. intros H. induction l; simpl; constructor; auto. Qed.
Lemma Forall2_trans' {A} (R : A -> A -> Prop) l1 l2 l3 :
  (forall x y z, R x y -> R y z -> R x z) -> Forall2 R l1 l2 -> Forall2 R l2 l3 -> Forall2 R l1 l3.
Proof.
  intros Ht H. revert l3. induction H as [|x y l1 l2 Hxy _ IH]; intros l3 H3; inversion H3; subst; constructor; eauto.
Qed.
Lemma same_core_trans x y z : same_core x y -> same_core y z -> same_core x z.
Proof. unfold same_core. intros (A & B & C) (D & E & F). split; [|split]; etransitivity; eassumption. Qed.

Lemma Forall2_in_l {A B} (R : A -> B -> Prop) l1 l2 p : Forall2 R l1 l2 -> In p l1 -> exists q, In q l2 /\ R p q.
Proof. induction 1 as [|x y l1 l2 Hxy _ IH]; intros I; [destruct I|]. destruct I as [<-|I]; [eauto using in_eq|]. destruct (IH I) as (q & Iq & Rq). eauto using in_cons. Qed.

(** * graph operations preserve the skeleton *)
Lemma skel_upd T0 g removed n f :
  (forall a, set_hc (iG (f a)) 0 = set_hc (iG a) 0 /\ set_hc (iH (f a)) 0 = set_hc (iH a) 0) ->
  skel T0 g removed -> skel T0 (upd_node g n f) removed.
Proof.
  intros Hf [S1 S2 S3]. constructor; [exact S1| |exact S3].
  unfold upd_node; cbn [gnodes]. apply Forall2_map_l; [|exact S2].
  intros [k a] q (E1 & E2 & E3). destruct (N.eqb (fst (k, a)) n); [|repeat split; assumption].
  unfold same_core. cbn [fst snd] in *. destruct (Hf a) as [F1 F2]. split; [exact E1|]. split; [rewrite F1; exact E2|rewrite F2; exact E3].
Qed.

Lemma skel_remove T0 g removed h : is_H_i T0 h = true -> skel T0 g removed -> skel T0 (remove_node g h) (h :: removed).
Proof.
  intros Hh [S1 S2 S3]. constructor.
  - intros x [<-|I]; auto.
  - unfold remove_node; cbn [gnodes].
    replace (filter (keepn (h :: removed)) (gnodes T0))
      with (filter (fun p : N * inode => negb (N.eqb (fst p) h)) (filter (keepn removed) (gnodes T0))).
    + apply Forall2_filter; [|exact S2]. intros p q (E & _). rewrite E. reflexivity.
    + rewrite filter_filter. apply filter_ext_all. intros p. unfold keepn. simpl.
      destruct (N.eqb (fst p) h), (mem (fst p) removed); reflexivity.
  - unfold remove_node; cbn [gedges]. rewrite S3, filter_filter. apply filter_ext_all. intros [[a b] x]. unfold keepe. simpl.
    destruct (N.eqb a h), (N.eqb b h), (mem a removed), (mem b removed); reflexivity.
Qed.

Lemma bump_i_core pid a : set_hc (iG (bump_i pid a)) 0 = set_hc (iG a) 0 /\ set_hc (iH (bump_i pid a)) 0 = set_hc (iH a) 0.
Proof. split; reflexivity. Qed.

Lemma skel_strip_i T0 g removed h pid : is_H_i T0 h = true -> skel T0 g removed ->
  exists removed', skel T0 (strip_i g h pid) removed'.
Proof.
  intros Hh S. unfold strip_i. destruct (has_node g h); [|eauto].
  exists (h :: removed). apply skel_remove; [exact Hh|].
  generalize (nbrs g h). intros l. revert g S. induction l as [|x r IH]; intros g S; [exact S|].
  cbn [fold_left]. apply IH. destruct (is_H_i g x); [exact S|]. apply skel_upd; [apply bump_i_core|exact S].
Qed.

(** * the hydrogens the code strips are hydrogen atoms of the template *)
Lemma skel_H_transfer T0 g removed h : NoDup (node_ids T0) -> skel T0 g removed -> is_H_i g h = true -> is_H_i T0 h = true.
Proof.
  intros Hnd [_ S2 _] H. unfold is_H_i in *. destruct (label g h) as [a|] eqn:El; [|discriminate].
  unfold label in El. apply assoc_in in El. destruct (Forall2_in_l _ _ _ _ S2 El) as ([k a0] & I & (E1 & E2 & _)).
  cbn [fst snd] in *. subst k. apply filter_In in I. destruct I as [I _].
  unfold label. rewrite (assoc_nodup_in h (gnodes T0) a0 Hnd I).
  assert (a_el (iG a0) = a_el (iG a)) by (destruct (iG a0), (iG a); inversion E2; reflexivity). congruence.
Qed.

Lemma in_insert_sorted x y l : In y (insert_sorted x l) -> x = y \/ In y l.
Proof.
  induction l as [|z r IH]; simpl; [tauto|]. destruct (N.leb x z); simpl; [tauto|]. intros [->|I]; [auto|]. destruct (IH I); auto.
Qed.
Lemma in_sort_N y l : In y (sort_N l) -> In y l.
Proof.
  unfold sort_N. induction l as [|x r IH]; simpl; [tauto|]. intros I. apply in_insert_sorted in I. destruct I; auto.
Qed.

Lemma shared_h_incl l r hs : shared_h l r = Some hs -> incl hs (h_nodes_m l).
Proof.
  unfold shared_h. generalize (h_nodes_m l). intros ns. revert hs. induction ns as [|n ns IH]; cbn [fold_right]; intros hs H.
  - inversion H; subst. intros x [].
  - destruct (fold_right _ (Some []) ns) as [acc|] eqn:E; [|discriminate].
    specialize (IH acc eq_refl).
    destruct (has_node r n).
    + destruct (fully_removable l r n) as [[|]|]; inversion H; subst; intros x I; [destruct I as [<-|I]; [left; reflexivity|]|]; right; apply IH; assumption.
    + inversion H; subst. intros x I. right. apply IH. exact I.
Qed.

(** * the folds of _strip_explicit_h, rc component *)
Lemma skel_strip_shared T0 hs : (forall h, In h hs -> is_H_i T0 h = true) ->
  forall (t : triple) pid removed, skel T0 (fst (fst t)) removed ->
  exists removed', skel T0 (fst (fst (fst (fold_left (fun (st : triple * N) h =>
         let '(rc, l, r, pid) := st in
         (strip_i rc h (Some pid), strip_m l h (Some pid), strip_m r h (Some pid), N.succ pid)) hs (t, pid))))) removed'.
Proof.
  induction hs as [|h r IH]; intros Hall t pid removed S; [cbn [fold_left fst]; eauto|].
  cbn [fold_left]. destruct t as [[rc l] rr]. cbn [fst] in S.
  destruct (skel_strip_i T0 rc removed h (Some pid) (Hall h (or_introl eq_refl)) S) as (removed1 & S1).
  apply (IH (fun x I => Hall x (or_intror I)) (strip_i rc h (Some pid), strip_m l h (Some pid), strip_m rr h (Some pid)) (N.succ pid) removed1).
  exact S1.
Qed.

Lemma skel_step3_rc T0 hs : (forall h, In h hs -> is_H_i T0 h = true) ->
  forall (t t' : triple) removed, skel T0 (fst (fst t)) removed ->
  fold_left (fun (st : option triple) h =>
      match st with
      | None => None
      | Some (rc, l, r) => match fully_removable l r h with
                           | Some true => Some (strip_i rc h None, l, r) | Some false => st | None => None end
      end) hs (Some t) = Some t' ->
  exists removed', skel T0 (fst (fst t')) removed'.
Proof.
  induction hs as [|h r IH]; intros Hall t t' removed S H.
  - simpl in H. inversion H; subst. eauto.
  - cbn [fold_left] in H. destruct t as [[rc l] rr]. cbn [fst] in S.
    destruct (fully_removable l rr h) as [[|]|].
    + destruct (skel_strip_i T0 rc removed h None (Hall h (or_introl eq_refl)) S) as (removed1 & S1).
      exact (IH (fun x I => Hall x (or_intror I)) (strip_i rc h None, l, rr) t' removed1 S1 H).
    + exact (IH (fun x I => Hall x (or_intror I)) (rc, l, rr) t' removed S H).
    + exfalso. clear - H. induction r as [|x r IH]; simpl in H; [discriminate|auto].
Qed.

Lemma step3_l_rc hs : forall (t t' : triple),
  fold_left (fun (st : option triple) h =>
      match st with
      | None => None
      | Some (rc, l, r) => match fully_removable l r h with
                           | Some true => Some (rc, strip_m l h None, r) | Some false => st | None => None end
      end) hs (Some t) = Some t' -> fst (fst t') = fst (fst t).
Proof.
  induction hs as [|h r IH]; intros t t' H; [simpl in H; inversion H; reflexivity|].
  cbn [fold_left] in H. destruct t as [[rc l] rr]. destruct (fully_removable l rr h) as [[|]|].
  - rewrite (IH _ _ H). reflexivity.
  - rewrite (IH _ _ H). reflexivity.
  - exfalso. clear - H. induction r as [|x r IH]; simpl in H; [discriminate|auto].
Qed.
Lemma step3_r_rc hs : forall (t t' : triple),
  fold_left (fun (st : option triple) h =>
      match st with
      | None => None
      | Some (rc, l, r) => match fully_removable l r h with
                           | Some true => Some (rc, l, strip_m r h None) | Some false => st | None => None end
      end) hs (Some t) = Some t' -> fst (fst t') = fst (fst t).
Proof.
  induction hs as [|h r IH]; intros t t' H; [simpl in H; inversion H; reflexivity|].
  cbn [fold_left] in H. destruct t as [[rc l] rr]. destruct (fully_removable l rr h) as [[|]|].
  - rewrite (IH _ _ H). reflexivity.
  - rewrite (IH _ _ H). reflexivity.
  - exfalso. clear - H. induction r as [|x r IH]; simpl in H; [discriminate|auto].
Qed.

(** * refresh_types only rewrites hydrogen counts *)
Lemma refresh_types_core rc l r rc' : refresh_types rc l r = Some rc' ->
  Forall2 same_core (gnodes rc') (gnodes rc) /\ gedges rc' = gedges rc.
Proof.
  unfold refresh_types.
  match goal with |- context [fold_right ?f _ _] => set (F := f) end.
  destruct (fold_right F (Some []) (gnodes rc)) as [ns|] eqn:E; [|discriminate]. intros H. inversion H; subst. cbn [gnodes gedges].
  split; [|reflexivity]. clear H. revert ns E. induction (gnodes rc) as [|[k a] r0 IH]; intros ns E.
  - simpl in E. inversion E. constructor.
  - cbn [fold_right] in E. destruct (fold_right F (Some []) r0) as [ns0|]; [|unfold F in E; discriminate].
    unfold F at 1 in E. cbn [fst snd] in E.
    destruct (label l k); [|discriminate]. destruct (label r k); [|discriminate]. inversion E; subst.
    constructor; [repeat split|apply IH; reflexivity].
Qed.

(** * the theorem *)
Theorem synrule_default_skeleton (tpl rc : its) (l r : molg) :
  nodupb (node_ids tpl) = true -> synrule tpl true = Some (rc, l, r) ->
  exists removed,
    (forall h, In h removed -> is_H_i tpl h = true) /\
    Forall2 same_core (gnodes rc) (filter (keepn removed) (gnodes tpl)) /\
    gedges rc = filter (keepe removed) (gedges tpl).
Proof.
  intros Hnd H. apply nodupb_NoDup in Hnd. unfold synrule in H. cbn [negb] in H.
  set (rc0 := standardize_hydrogen tpl) in H. unfold its_decompose in H.
  set (l0 := dec_side iG eG rc0) in H. set (r0 := dec_side iH eH rc0) in H.
  destruct (strip_explicit_h rc0 l0 r0) as [[[rc1 l1] r1]|] eqn:Es; [|discriminate].
  destruct (refresh_types rc1 l1 r1) as [rc'|] eqn:Er; [|discriminate]. inversion H; subst rc' l1 r1. clear H.
  (* initial skeleton *)
  assert (S0 : skel tpl (init_i rc0) []).
  { constructor; [intros h []| |].
    - unfold init_i, rc0, standardize_hydrogen, map_nodes; cbn [gnodes]. rewrite map_map. cbn [fst snd].
      rewrite (filter_ext_all (keepn []) (fun _ => true)) by reflexivity.
      replace (filter (fun _ : N * inode => true) (gnodes tpl)) with (gnodes tpl) by (induction (gnodes tpl) as [|x r2 IH]; simpl; [reflexivity|rewrite <- IH; reflexivity]).
      apply Forall2_refl_map. intros [k a]. repeat split.
    - unfold init_i, rc0, standardize_hydrogen, map_nodes; cbn [gedges].
      rewrite (filter_ext_all (keepe []) (fun _ => true)) by reflexivity.
      induction (gedges tpl) as [|x r2 IH]; simpl; [reflexivity|rewrite <- IH; reflexivity]. }
  unfold strip_explicit_h in Es. cbn [fst snd] in Es.
  destruct (shared_h (init_m l0) (init_m r0)) as [hs|] eqn:Eh; [|discriminate].
  (* shared hydrogens are hydrogens of the template *)
  assert (HsH : forall h, In h (sort_N hs) -> is_H_i tpl h = true).
  { intros h I. apply in_sort_N in I. apply (shared_h_incl _ _ _ Eh) in I.
    unfold h_nodes_m in I. apply in_map_iff in I. destruct I as ([k a] & <- & I). apply filter_In in I. destruct I as [I Ea].
    cbn [fst snd] in *. unfold init_m, map_nodes, l0, dec_side, rc0, standardize_hydrogen, map_nodes in I. cbn [gnodes] in I.
    rewrite !map_map in I. apply in_map_iff in I. destruct I as ([k0 a0] & E & I). cbn [fst snd] in E. inversion E; subst k a. clear E.
    cbn [m_el dec_node std_h_node iG set_hc a_el] in Ea.
    unfold is_H_i, label. rewrite (assoc_nodup_in k0 (gnodes tpl) a0 Hnd I). exact Ea. }
  unfold strip_shared in Es.
  destruct (skel_strip_shared tpl (sort_N hs) HsH (init_i rc0, init_m l0, init_m r0) 1%N [] S0) as (removed2 & S2).
  match type of Es with context [step3_rc ?x] => set (t2 := x) in * end.
  destruct (step3_rc t2) as [t3|] eqn:E3; [|discriminate].
  destruct (step3_l t3) as [t4|] eqn:E4; [|discriminate].
  unfold step3_rc in E3.
  assert (H3 : forall h, In h (h_nodes_i (fst (fst t2))) -> is_H_i tpl h = true).
  { intros h I. apply (skel_H_transfer tpl (fst (fst t2)) removed2 h Hnd S2).
    unfold h_nodes_i in I. apply in_map_iff in I. destruct I as ([k a] & <- & I). apply filter_In in I. destruct I as [I Ea].
    cbn [fst snd] in *. unfold is_H_i, label.
    (* the first entry with id k in the current rc is also a hydrogen: ids are distinct there too *)
    destruct S2 as [_ S2n _].
    assert (Hids : map fst (gnodes (fst (fst t2))) = map fst (filter (keepn removed2) (gnodes tpl))).
    { clear - S2n. induction S2n as [|p q l1 l2 (E & _) _ IH]; simpl; [reflexivity|]. rewrite E, IH. reflexivity. }
    assert (Hnd2 : NoDup (map fst (gnodes (fst (fst t2))))).
    { rewrite Hids. clear - Hnd. unfold node_ids in Hnd. induction (gnodes tpl) as [|x r2 IH]; simpl; [constructor|].
      inversion Hnd as [|? ? N1 N2]; subst. destruct (keepn removed2 x); simpl; [constructor|]; auto.
      intros I. apply N1. apply in_map_iff in I. destruct I as (y & E & I). apply filter_In in I. apply in_map_iff. exists y. tauto. }
    rewrite (assoc_nodup_in k _ a Hnd2 I). exact Ea. }
  destruct (skel_step3_rc tpl _ H3 t2 t3 removed2 S2 E3) as (removed3 & S3).
  pose proof (step3_l_rc _ _ _ E4) as R4. pose proof (step3_r_rc _ _ _ Es) as R5. cbn [fst] in R5.
  rewrite R4 in R5. rewrite <- R5 in S3.
  destruct (refresh_types_core _ _ _ _ Er) as [F1 F2]. destruct S3 as [K1 K2 K3].
  exists removed3. split; [exact K1|]. split.
  - eapply Forall2_trans'; [exact same_core_trans|exact F1|exact K2].
  - rewrite F2. exact K3.
Qed.

(** * default mode end to end, heavy-atom part of clause (c): the changed bonds of a reaction proposed with the rule
      prepared from [tpl] are the images of the template's changed bonds that touch no stripped hydrogen *)
From SK Require Import proof.C03_Iso.
From Coq Require Import Permutation.
Theorem default_changed_bonds tpl rc l r host m T :
  nodupb (node_ids tpl) = true -> synrule tpl true = Some (rc, l, r) ->
  wf_hostb host = true -> wf_rcb rc = true -> match_rcb host rc m = true -> glue host rc m = Some T ->
  exists removed,
    (forall h, In h removed -> is_H_i tpl h = true) /\
    Permutation (changed_bonds T) (flat_map (image_key m) (filter is_changed (filter (keepe removed) (gedges tpl)))).
Proof.
  intros Hnd Hs Hwh Hwr Hm Hg. destruct (synrule_default_skeleton tpl rc l r Hnd Hs) as (removed & H1 & _ & H3).
  exists removed. split; [exact H1|]. rewrite <- H3. exact (changed_bonds_perm host rc m T Hwh Hwr Hm Hg).
Qed.
