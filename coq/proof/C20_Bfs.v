(** C20 — the bounded breadth-first search of [is_realizable], at the level of marking tuples:
    soundness (a returned sequence is a firing sequence from the start tuple to the target tuple),
    completeness within the bounds, and sufficiency of the fuel. *)
From Coq Require Import ZArith NArith List Bool Arith Lia.
Import ListNotations.
From SK Require Import model.C20_Model proof.C20_Spec proof.C20_Petri.
Local Open Scope nat_scope.

Lemma tuple_eqb_spec a : forall b, tuple_eqb a b = true <-> a = b.
Proof.
  induction a as [|x a IH]; intros [|y b]; simpl; split; try congruence; try discriminate.
  - intros H. apply andb_true_iff in H as [H1 H2]. apply Z.eqb_eq in H1. apply IH in H2. congruence.
  - intros H. inversion H; subst. rewrite Z.eqb_refl. simpl. apply IH. reflexivity.
Qed.

Lemma tmem_spec t vs : tmem t vs = true <-> In t vs.
Proof.
  unfold tmem. rewrite existsb_exists. split.
  - intros [y [H1 H2]]. apply tuple_eqb_spec in H2. now subst.
  - intros H. exists t. split; auto. now apply tuple_eqb_spec.
Qed.

Section BFS.
Variable net : petri.
Variables start target : tuple.
Variables max_states max_depth : N.

(** one firing at the level of tuples, exactly as the loop body computes it *)
Definition tstep (t : transition) (mt : tuple) : option tuple :=
  if enabled_t t (combine (pn_places net) mt)
  then Some (marking_to_tuple net (fire_t t (combine (pn_places net) mt)))
  else None.

Inductive path : tuple -> list N -> tuple -> Prop :=
| path_nil m : path m [] m
| path_cons m t m1 s m' :
    In t (pn_trans net) -> tstep t m = Some m1 -> path m1 s m' -> path m (t_id t :: s) m'.

Lemma path_snoc m s m1 t m2 :
  path m s m1 -> In t (pn_trans net) -> tstep t m1 = Some m2 -> path m (s ++ [t_id t]) m2.
Proof.
  induction 1; intros Ht Hs; simpl.
  - econstructor; eauto. constructor.
  - econstructor; eauto.
Qed.

(** ** Soundness *)

Lemma expand_sound ts : forall mt sq visited news nen nfire,
  incl ts (pn_trans net) -> path start sq mt ->
  (forall m s, In (m, s) news -> path start s m) ->
  match expand net ts (combine (pn_places net) mt) sq target visited news nen nfire with
  | SFound s _ _ => path start s target
  | SCont _ news' _ _ => forall m s, In (m, s) news' -> path start s m
  end.
Proof.
  induction ts as [|t ts IH]; intros mt sq visited news nen nfire Hincl Hp Hnews; simpl; auto.
  assert (Ht : In t (pn_trans net)) by (apply Hincl; simpl; auto).
  assert (Hincl' : incl ts (pn_trans net)) by (intros x Hx; apply Hincl; simpl; auto).
  destruct (enabled_t t (combine (pn_places net) mt)) eqn:En; [|apply IH; auto].
  assert (Hstep : tstep t mt = Some (marking_to_tuple net (fire_t t (combine (pn_places net) mt))))
    by (unfold tstep; now rewrite En).
  destruct (tuple_eqb _ target) eqn:Et.
  - apply tuple_eqb_spec in Et. rewrite <- Et. eapply path_snoc; eauto.
  - destruct (tmem _ visited); apply IH; auto.
    intros m s Hin. apply in_app_iff in Hin as [Hin|[Hin|[]]]; auto.
    inversion Hin; subst. eapply path_snoc; eauto.
Qed.

Lemma bfs_sound fuel : forall q visited states nen nfire s,
  (forall m sq, In (m, sq) q -> path start sq m) ->
  bo_verdict (bfs fuel net target max_states max_depth q visited states nen nfire) = Found s ->
  path start s target.
Proof.
  induction fuel as [|fuel IH]; intros q visited states nen nfire s Hq; simpl; [discriminate|].
  destruct q as [|[mt sq] q']; simpl; [discriminate|].
  destruct (max_states <? states + 1)%N; simpl; [discriminate|].
  assert (Hq' : forall m sq0, In (m, sq0) q' -> path start sq0 m) by (intros; apply Hq; simpl; auto).
  destruct (max_depth <? N.of_nat (length sq))%N; [apply IH; auto|].
  pose proof (expand_sound (pn_trans net) mt sq visited [] nen nfire (incl_refl _)
                (Hq mt sq (or_introl eq_refl))) as He.
  destruct (expand net (pn_trans net) (combine (pn_places net) mt) sq target visited [] nen nfire)
    as [s' ne nf|v' news' ne nf]; simpl.
  - intros H. inversion H; subst. apply He. simpl; tauto.
  - apply IH. intros m sq0 Hin. apply in_app_iff in Hin as [Hin|Hin]; auto.
    apply He; auto. simpl; tauto.
Qed.

(** ** The fuel never runs out *)

Lemma bfs_fuel fuel : forall q visited states nen nfire,
  (N.to_nat states <= N.to_nat max_states) ->
  fuel + N.to_nat states = S (N.to_nat max_states) ->
  bo_verdict (bfs fuel net target max_states max_depth q visited states nen nfire) <> OutOfFuel.
Proof.
  induction fuel as [|fuel IH]; intros q visited states nen nfire Hle Hf; simpl; [lia|].
  destruct q as [|[mt sq] q']; simpl; [discriminate|].
  destruct (max_states <? states + 1)%N eqn:E; simpl; [discriminate|].
  apply N.ltb_ge in E.
  destruct (max_depth <? N.of_nat (length sq))%N; [apply IH; lia|].
  destruct (expand net (pn_trans net) (combine (pn_places net) mt) sq target visited [] nen nfire);
    simpl; [discriminate|]. apply IH; lia.
Qed.

(** ** Completeness within the bounds *)

Definition handled (v : list tuple) (mt : tuple) (ts : list transition) : Prop :=
  forall t m1, In t ts -> tstep t mt = Some m1 -> m1 <> target /\ In m1 v.

Ltac split7 := split; [|split; [|split; [|split; [|split; [|split]]]]].

Lemma expand_complete ts : forall mt sq visited news nen nfire v' news' ne nf,
  expand net ts (combine (pn_places net) mt) sq target visited news nen nfire = SCont v' news' ne nf ->
  NoDup visited -> ~ In target visited ->
  NoDup v' /\ ~ In target v' /\ incl visited v' /\
  length v' + length news = length visited + length news' /\
  incl news news' /\
  (forall m, In m v' -> In m visited \/ exists s, In (m, s) news') /\
  handled v' mt ts.
Proof.
  induction ts as [|t ts IH]; intros mt sq visited news nen nfire v' news' ne nf; simpl.
  - intros H Hnd Hnt. inversion H; subst.
    assert (P7 : handled v' mt []) by (intros t m1 []).
    split7; auto using incl_refl.
  - destruct (enabled_t t (combine (pn_places net) mt)) eqn:En.
    + set (new := marking_to_tuple net (fire_t t (combine (pn_places net) mt))).
      assert (Hstep : tstep t mt = Some new) by (unfold tstep; now rewrite En).
      destruct (tuple_eqb new target) eqn:Et; [discriminate|].
      assert (Hnew : new <> target).
      { intros E. apply tuple_eqb_spec in E. congruence. }
      destruct (tmem new visited) eqn:Em.
      * apply tmem_spec in Em. intros H Hnd Hnt.
        destruct (IH _ _ _ _ _ _ _ _ _ _ H Hnd Hnt) as (P1 & P2 & P3 & P4 & P5 & P6 & P7).
        assert (P7' : handled v' mt (t :: ts)).
        { intros t0 m1 [<-|Ht0] Hs; [|apply (P7 _ _ Ht0 Hs)].
          rewrite Hstep in Hs. inversion Hs; subst; auto. }
        split7; auto.
      * assert (Hni : ~ In new visited).
        { intros Hi. apply tmem_spec in Hi. congruence. }
        intros H Hnd Hnt.
        assert (Hnd1 : NoDup (new :: visited)) by (constructor; auto).
        assert (Hnt1 : ~ In target (new :: visited)) by (simpl; intros [E|E]; auto).
        destruct (IH _ _ _ _ _ _ _ _ _ _ H Hnd1 Hnt1) as (P1 & P2 & P3 & P4 & P5 & P6 & P7).
        assert (Hnews : In (new, sq ++ [t_id t]) news') by (apply P5, in_app_iff; right; simpl; auto).
        assert (P7' : handled v' mt (t :: ts)).
        { intros t0 m1 [<-|Ht0] Hs; [|apply (P7 _ _ Ht0 Hs)].
          rewrite Hstep in Hs. inversion Hs; subst. split; auto. apply P3. simpl; auto. }
        assert (P3' : incl visited v') by (intros x Hx; apply P3; simpl; auto).
        assert (P4' : length v' + length news = length visited + length news')
          by (rewrite app_length in P4; simpl in P4; lia).
        assert (P5' : incl news news') by (intros x Hx; apply P5, in_app_iff; auto).
        assert (P6' : forall m, In m v' -> In m visited \/ exists s, In (m, s) news').
        { intros m Hm. destruct (P6 m Hm) as [[<-|Hv]|He]; eauto. }
        split7; auto.
    + intros H Hnd Hnt.
      destruct (IH _ _ _ _ _ _ _ _ _ _ H Hnd Hnt) as (P1 & P2 & P3 & P4 & P5 & P6 & P7).
      assert (P7' : handled v' mt (t :: ts)).
      { intros t0 m1 [<-|Ht0] Hs; [|apply (P7 _ _ Ht0 Hs)].
        unfold tstep in Hs. rewrite En in Hs. discriminate. }
      split7; auto.
Qed.

Definition closed (v : list tuple) (m : tuple) : Prop := handled v m (pn_trans net).

Lemma closed_mono v v' m : incl v v' -> closed v m -> closed v' m.
Proof. intros Hi Hc t m1 Ht Hs. destruct (Hc t m1 Ht Hs). auto. Qed.

Lemma closed_all_reach v :
  (forall m, In m v -> closed v m) ->
  forall m s m', path m s m' -> In m v -> In m' v.
Proof.
  intros Hc m s m' Hp. induction Hp; intros Hin; auto.
  apply IHHp. destruct (Hc m Hin t m1 H H0). auto.
Qed.

Section Complete.
Hypothesis Hne : start <> target.
Hypothesis Hgoal : exists s, path start s target.
Variable R : list tuple.
Hypothesis HR : forall s m, path start s m -> In m R.
Hypothesis HRlen : (N.of_nat (length R) <= max_states)%N.
Hypothesis Hdepth : forall s m, path start s m -> (N.of_nat (length s) <= max_depth)%N.

Lemma bfs_complete_inv fuel : forall q visited states nen nfire,
  (forall m sq, In (m, sq) q -> path start sq m) ->
  (forall m, In m visited -> exists s, path start s m) ->
  NoDup visited -> ~ In target visited -> In start visited ->
  length visited = N.to_nat states + length q ->
  (forall m, In m visited -> (exists s, In (m, s) q) \/ closed visited m) ->
  fuel + N.to_nat states = S (N.to_nat max_states) ->
  exists s, bo_verdict (bfs fuel net target max_states max_depth q visited states nen nfire) = Found s.
Proof.
  induction fuel as [|fuel IH]; intros q visited states nen nfire I1 I2 Hnd Hnt Hst Hlen I5 Hfuel.
  - exfalso. assert (length visited <= length R).
    { apply NoDup_incl_length; auto. intros m Hm. destruct (I2 m Hm) as [s Hs]. eapply HR; eauto. }
    lia.
  - assert (HlenR : length visited <= length R).
    { apply NoDup_incl_length; auto. intros m Hm. destruct (I2 m Hm) as [s Hs]. eapply HR; eauto. }
    destruct q as [|[mt sq] q']; simpl.
    + exfalso. destruct Hgoal as [s Hs]. apply Hnt.
      apply (closed_all_reach visited) with (m := start) (s := s); auto.
      intros m Hm. destruct (I5 m Hm) as [[s' []]|Hc]; auto.
    + simpl in Hlen.
      destruct (max_states <? states + 1)%N eqn:E; [apply N.ltb_lt in E; lia|].
      pose proof (I1 mt sq (or_introl eq_refl)) as Hp.
      destruct (max_depth <? N.of_nat (length sq))%N eqn:Ed.
      { apply N.ltb_lt in Ed. specialize (Hdepth _ _ Hp). lia. }
      pose proof (expand_sound (pn_trans net) mt sq visited [] nen nfire (incl_refl _) Hp) as He.
      destruct (expand net (pn_trans net) (combine (pn_places net) mt) sq target visited [] nen nfire)
        as [s' ne nf|v' news' ne nf] eqn:Ex; simpl.
      * eauto.
      * assert (He' : forall m s, In (m, s) news' -> path start s m) by (apply He; simpl; tauto).
        destruct (expand_complete _ _ _ _ _ _ _ _ _ _ _ Ex Hnd Hnt) as (P1 & P2 & P3 & P4 & P5 & P6 & P7).
        apply IH; auto.
        -- intros m sq0 Hin. apply in_app_iff in Hin as [Hin|Hin]; auto. apply I1. simpl; auto.
        -- intros m Hm. destruct (P6 m Hm) as [Hv|[s Hs]]; eauto.
        -- rewrite app_length. simpl in P4. lia.
        -- intros m Hm. destruct (P6 m Hm) as [Hv|[s Hs]].
           ++ destruct (I5 m Hv) as [[s [Hs|Hs]]|Hc].
              ** inversion Hs; subst. right. exact P7.
              ** left. exists s. apply in_app_iff. auto.
              ** right. eapply closed_mono; eauto.
           ++ left. exists s. apply in_app_iff. auto.
        -- lia.
Qed.

Lemma bfs_complete :
  exists s, bo_verdict (bfs (S (N.to_nat max_states)) net target max_states max_depth
                            [(start, [])] [start] 0 0 0) = Found s.
Proof.
  apply bfs_complete_inv; simpl; auto.
  - intros m sq [H|[]]. inversion H; subst. constructor.
  - intros m [<-|[]]. exists []. constructor.
  - constructor; [simpl; tauto|constructor].
  - intros [H|[]]. auto.
  - intros m [<-|[]]. left. exists []. simpl; auto.
Qed.
End Complete.
End BFS.
