(** C02 — longest_radius_extension, all centre atoms: the search as a trace of (start atom, atoms excluded at that
    moment, path found); the result is the first longest path of the trace, and every path of the trace is a longest
    simple chain of unchanged bonds from its start atom among those avoiding the excluded atoms. *)
From Coq Require Import List NArith ZArith Bool Lia.
From SK Require Import lib.LGraph lib.C01_GraphLemmas model.C01_Model model.C02_Model proof.C02_Proof proof.C02_Lre.
Import ListNotations.
Local Open Scope Z_scope.

Definition lre_fuel (g : its) : nat := S (length (gnodes g)).

(** the loop of longest_radius_extension over rc_nodes, recording every dfs call *)
Fixpoint lre_trace (g : its) (rcn vis : list N) : list (N * list N * list N) :=
  match rcn with
  | [] => []
  | n :: r =>
      if LGraph.mem n vis then lre_trace g r vis
      else let p := lre_dfs g (lre_fuel g) n vis [n] in (n, vis, p) :: lre_trace g r (p ++ vis)
  end.

Definition first_longest (ps : list (list N)) (best : list N) : list N :=
  fold_left (fun best p => if (length best <? length p)%nat then p else best) ps best.

Lemma lre_fold_trace (g : its) rcn : forall vis best,
  snd (fold_left (fun (st : list N * list N) n =>
                    let '(vis, best) := st in
                    if LGraph.mem n vis then st
                    else let p := lre_dfs g (S (length (gnodes g))) n vis [n] in
                         (p ++ vis, if (length best <? length p)%nat then p else best)) rcn (vis, best)) =
  first_longest (map snd (lre_trace g rcn vis)) best.
Proof.
  induction rcn as [|n r IH]; intros vis best; [reflexivity|]. cbn [fold_left lre_trace].
  destruct (LGraph.mem n vis); [apply IH|]. cbn [map snd first_longest fold_left]. unfold lre_fuel. rewrite IH. reflexivity.
Qed.

Theorem lre_is_first_longest (g : its) rcn : lre g rcn = first_longest (map snd (lre_trace g rcn [])) [].
Proof. unfold lre. apply lre_fold_trace. Qed.

Lemma first_longest_ge ps : forall best p, In p ps \/ p = best -> (length p <= length (first_longest ps best))%nat.
Proof.
  induction ps as [|q ps IH]; intros best p H; simpl.
  - destruct H as [[]| ->]. lia.
  - unfold first_longest in *. simpl. destruct (Nat.ltb_spec (length best) (length q)).
    + destruct H as [[<-|I]| ->].
      * apply IH. right. reflexivity.
      * apply IH. left. exact I.
      * etransitivity; [|apply (IH q q); right; reflexivity]. lia.
    + destruct H as [[<-|I]| ->].
      * etransitivity; [|apply (IH best best); right; reflexivity]. lia.
      * apply IH. left. exact I.
      * apply IH. right. reflexivity.
Qed.

(** every recorded call starts in a centre atom that is not excluded, and the excluded atoms are the atoms of the paths
    recorded before *)
Lemma lre_trace_entries (g : its) rcn : forall vis n v p, In (n, v, p) (lre_trace g rcn vis) ->
  In n rcn /\ ~ In n v /\ p = lre_dfs g (lre_fuel g) n v [n] /\ (forall x, In x vis -> In x v).
Proof.
  induction rcn as [|m r IH]; intros vis n v p I; [destruct I|]. cbn [lre_trace] in I.
  destruct (LGraph.mem m vis) eqn:M.
  - destruct (IH vis n v p I) as (A & B & C & D). repeat split; auto. right. exact A.
  - destruct I as [E|I].
    + inversion E; subst. repeat split; auto; [left; reflexivity|]. intros J. apply LGraph.mem_spec in J. congruence.
    + destruct (IH _ n v p I) as (A & B & C & D). repeat split; auto; [right; exact A|].
      intros x J. apply D, in_or_app. right. exact J.
Qed.

(** a centre atom that starts no recorded call was already on an earlier path *)
Lemma lre_trace_covers (g : its) rcn : forall vis n, In n rcn ->
  In n vis \/ exists v p, In (n, v, p) (lre_trace g rcn vis) \/
                          (exists m v' p', In (m, v', p') (lre_trace g rcn vis) /\ In n p').
Proof.
  induction rcn as [|m r IH]; intros vis n I; [destruct I|]. cbn [lre_trace].
  destruct (LGraph.mem m vis) eqn:M.
  - destruct I as [<-|I]; [left; apply LGraph.mem_spec; exact M|].
    destruct (IH vis n I) as [J|(v & p & H)]; [left; exact J|right; exists v, p; exact H].
  - destruct I as [<-|I].
    + right. exists vis, (lre_dfs g (lre_fuel g) m vis [m]). left. left. reflexivity.
    + destruct (IH (lre_dfs g (lre_fuel g) m vis [m] ++ vis) n I) as [J|(v & p & [H|(m' & v' & p' & H & Hp)])].
      * apply in_app_iff in J. destruct J as [J|J]; [|left; exact J].
        right. exists vis, (lre_dfs g (lre_fuel g) m vis [m]). right. exists m, vis, (lre_dfs g (lre_fuel g) m vis [m]).
        split; [left; reflexivity|exact J].
      * right. exists v, p. left. right. exact H.
      * right. exists v', p'. right. exists m', v', p'. split; [right; exact H|exact Hp].
Qed.

(** the main statement: each recorded path is a longest simple chain of unchanged bonds from its start atom that avoids
    the atoms excluded at that moment, and the result is at least as long as every recorded path *)
Theorem lre_trace_longest (g : its) (rcn : list N) : wf g -> (forall n, In n rcn -> In n (node_ids g)) ->
  forall n v p, In (n, v, p) (lre_trace g rcn []) ->
  (length p <= length (lre g rcn))%nat /\
  forall ext, zchain g n ext -> NoDup (n :: ext) -> (forall x, In x ext -> ~ In x v) ->
              (length (n :: ext) <= length p)%nat.
Proof.
  intros W Hin n v p I. split.
  - rewrite lre_is_first_longest. apply first_longest_ge. left. apply in_map_iff. exists (n, v, p). auto.
  - intros ext Hz Hnd Hdis. destruct (lre_trace_entries g rcn [] n v p I) as (In_ & Hnv & -> & _).
    inversion Hnd as [|? ? Hni Hnd']; subst.
    assert (length (n :: ext) <= length (gnodes g))%nat as Hlen.
    { rewrite <- (map_length fst (gnodes g)). apply NoDup_incl_length; [exact Hnd|].
      intros x [<-|J]; [apply Hin; exact In_|]. exact (zchain_nodes g W ext n (Hin n In_) Hz x J). }
    change (length (n :: ext)) with (length [n] + length ext)%nat. apply lre_dfs_len_ge; auto.
    + intros x J [<-|K]; [contradiction|]. exact (Hdis x J K).
    + unfold lre_fuel. simpl in Hlen. lia.
Qed.

(** non-vacuity: ex_its, centre atoms [1;2;3;4;8]: atom 1 finds 1-5-6-7; 2 and 3 find only themselves; 4 finds 4-8;
    8 is then excluded and starts no call *)
Example C02_lre_trace_nonvacuous :
  map (fun e => (fst (fst e), snd e)) (lre_trace ex_its (node_ids (get_rc ex_its)) []) =
  [(1, [1; 5; 6; 7]); (2, [2]); (3, [3]); (4, [4; 8])]%N /\
  lre ex_its (node_ids (get_rc ex_its)) = [1; 5; 6; 7]%N.
Proof. vm_compute. split; reflexivity. Qed.
