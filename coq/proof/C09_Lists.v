(** C09 — list-level facts about the dictionary / relabelling idioms of CanonRSMI.canonicalise
    (dict comprehensions, sorted key intersections, nx.relabel_nodes). *)
From Coq Require Import List NArith ZArith Bool Arith Lia Permutation.
From SK Require Import lib.LGraph lib.C01_GraphLemmas model.C01_Model model.C09_Model.
Import ListNotations.
Local Open Scope Z_scope.

(* ------------------------------------------------------------------ set_val: dict assignment *)
Lemma set_val_new {V} (k : N) (v : V) l : ~ In k (map fst l) -> set_val k v l = l ++ [(k, v)].
Proof.
  induction l as [|[k' v'] r IH]; simpl; intros Hn; [reflexivity|].
  destruct (N.eqb_spec k k') as [->|Hne]; [exfalso; apply Hn; left; reflexivity|].
  rewrite IH; [reflexivity|]. intros I. apply Hn. right. exact I.
Qed.

Lemma fold_set_val {X V} (key : X -> N) (val : X -> V) (l : list X) : forall acc,
  NoDup (map fst acc ++ map key l) ->
  fold_left (fun a x => set_val (key x) (val x) a) l acc = acc ++ map (fun x => (key x, val x)) l.
Proof.
  induction l as [|x l IH]; intros acc Hnd; simpl; [rewrite app_nil_r; reflexivity|].
  assert (Hx : ~ In (key x) (map fst acc)).
  { simpl in Hnd. apply NoDup_remove_2 in Hnd. intros I. apply Hnd. apply in_or_app. left. exact I. }
  rewrite (set_val_new _ _ _ Hx). rewrite IH.
  - rewrite <- app_assoc. reflexivity.
  - rewrite map_app. simpl. rewrite <- app_assoc. simpl. exact Hnd.
Qed.

(* ------------------------------------------------------------------ nx.relabel_nodes by an injective map = relabel *)
Lemma set_edge_new {B} (u v : N) (x : B) es : find_edge u v es = None -> set_edge u v x es = es ++ [(u, v, x)].
Proof.
  induction es as [|[[a b] y] r IH]; simpl; [reflexivity|].
  destruct ((N.eqb a u && N.eqb b v) || (N.eqb a v && N.eqb b u)); [discriminate|].
  intros H. rewrite IH by exact H. reflexivity.
Qed.

Section NxRelabel.
Variable f : N -> N.
Hypothesis Hinj : forall a b, f a = f b -> a = b.

Lemma nx_relabel_nodes (ns : list (N * gnode)) : NoDup (map fst ns) ->
  fold_left (fun acc (p : N * gnode) => set_val (f (fst p)) (snd p) acc) ns [] = map (fun p => (f (fst p), snd p)) ns.
Proof.
  intros Hnd. rewrite (fold_set_val (fun p : N * gnode => f (fst p)) (fun p => snd p)); [reflexivity|].
  simpl. rewrite <- (map_map fst f). apply FinFun.Injective_map_NoDup; [exact Hinj|exact Hnd].
Qed.

Lemma nx_relabel_edges (es : list (N * N * Z)) :
  (forall l1 a b x l2, es = l1 ++ (a, b, x) :: l2 -> find_edge a b l1 = None) ->
  forall l1 l2, es = l1 ++ l2 ->
  fold_left (fun acc (e : N * N * Z) => let '(a, b, x) := e in set_edge (f a) (f b) x acc) l2
            (map (fun e : N * N * Z => let '(a, b, x) := e in (f a, f b, x)) l1)
  = map (fun e : N * N * Z => let '(a, b, x) := e in (f a, f b, x)) es.
Proof.
  intros Hs l1 l2. revert l1. induction l2 as [|[[a b] x] r IH]; intros l1 E; simpl.
  - rewrite app_nil_r in E. subst. reflexivity.
  - rewrite set_edge_new.
    + specialize (IH (l1 ++ [(a, b, x)])). rewrite map_app in IH. simpl in IH. apply IH.
      rewrite <- app_assoc. exact E.
    + rewrite (find_edge_relabel Hinj). eapply Hs. exact E.
Qed.

Theorem nx_relabel_inj (g : mgraph) : wf g -> nx_relabel f g = relabel f g.
Proof.
  intros (W1 & W2 & W3). unfold nx_relabel, relabel. f_equal.
  - apply nx_relabel_nodes. exact W1.
  - apply (nx_relabel_edges (gedges g)) with (l1 := []); [|reflexivity].
    intros l1 a b x l2 E. apply (W3 l1 a b x l2 E).
Qed.
End NxRelabel.

(** only the values on the nodes and edge endpoints matter *)
Lemma nx_relabel_ext (f g : N -> N) (G : mgraph) :
  (forall n, In n (node_ids G) -> f n = g n) ->
  (forall a b x, In (a, b, x) (gedges G) -> f a = g a /\ f b = g b) ->
  nx_relabel f G = nx_relabel g G.
Proof.
  intros Hn He. unfold nx_relabel. f_equal.
  - unfold node_ids in Hn. generalize (@nil (N * gnode)). induction (gnodes G) as [|p l IH]; intros acc; simpl; [reflexivity|].
    rewrite (Hn (fst p)) by (left; reflexivity). apply IH. intros n I. apply Hn. right. exact I.
  - generalize (@nil (N * N * Z)). induction (gedges G) as [|[[a b] x] l IH]; intros acc; simpl; [reflexivity|].
    destruct (He a b x (or_introl eq_refl)) as [-> ->]. apply IH. intros a' b' x' I. apply (He a' b' x'). right. exact I.
Qed.

Lemma relabel_ext {A B} (f g : N -> N) (G : lgraph A B) :
  (forall n, In n (node_ids G) -> f n = g n) ->
  (forall a b x, In (a, b, x) (gedges G) -> f a = g a /\ f b = g b) ->
  relabel f G = relabel g G.
Proof.
  intros Hn He. unfold relabel. f_equal.
  - apply map_ext_in. intros p I. rewrite Hn; [reflexivity|]. unfold node_ids. apply in_map. exact I.
  - apply map_ext_in. intros [[a b] x] I. destruct (He a b x I) as [-> ->]. reflexivity.
Qed.
