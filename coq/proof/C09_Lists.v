(** C09 — list-level facts about the dictionary / relabelling idioms of CanonRSMI.canonicalise
    (dict comprehensions, sorted key intersections, nx.relabel_nodes). *)
From Coq Require Import List NArith ZArith Bool Arith Lia Permutation.
From SK Require Import lib.LGraph lib.C01_GraphLemmas model.C01_Model model.C09_Model.
Import ListNotations.
Local Open Scope Z_scope.

(* ------------------------------------------------------------------ set_val: dict assignment *)
Lemma set_val_new {V} (k : N) (v : V) l : ~ In k (map fst l) -> set_val k v l = l ++ [(k, v)].
Proof.
  induction l as [|[k' v'] r IH]; simpl; intros Hn; [reflexivity|].
  destruct (N.eqb_spec k k') as [->|Hne]; [exfalso; apply Hn; left; reflexivity|].
  rewrite IH; [reflexivity|]. intros I. apply Hn. right. exact I.
Qed.

Lemma fold_set_val {X V} (key : X -> N) (val : X -> V) (l : list X) : forall acc,
  NoDup (map fst acc ++ map key l) ->
  fold_left (fun a x => set_val (key x) (val x) a) l acc = acc ++ map (fun x => (key x, val x)) l.
Proof.
  induction l as [|x l IH]; intros acc Hnd; simpl; [rewrite app_nil_r; reflexivity|].
  assert (Hx : ~ In (key x) (map fst acc)).
  { simpl in Hnd. apply NoDup_remove_2 in Hnd. intros I. apply Hnd. apply in_or_app. left. exact I. }
  rewrite (set_val_new _ _ _ Hx). rewrite IH.
  - rewrite <- app_assoc. reflexivity.
  - rewrite map_app. simpl. rewrite <- app_assoc. simpl. exact Hnd.
Qed.

(* ------------------------------------------------------------------ nx.relabel_nodes by an injective map = relabel *)
Lemma set_edge_new {B} (u v : N) (x : B) es : find_edge u v es = None -> set_edge u v x es = es ++ [(u, v, x)].
Proof.
  induction es as [|[[a b] y] r IH]; simpl; [reflexivity|].
  destruct ((N.eqb a u && N.eqb b v) || (N.eqb a v && N.eqb b u)); [discriminate|].
  intros H. rewrite IH by exact H. reflexivity.
Qed.

Section NxRelabel.
Variable f : N -> N.
Hypothesis Hinj : forall a b, f a = f b -> a = b.

Lemma nx_relabel_nodes (ns : list (N * gnode)) : NoDup (map fst ns) ->
  fold_left (fun acc (p : N * gnode) => set_val (f (fst p)) (snd p) acc) ns [] = map (fun p => (f (fst p), snd p)) ns.
Proof.
  intros Hnd. rewrite (fold_set_val (fun p : N * gnode => f (fst p)) (fun p => snd p)); [reflexivity|].
  simpl. rewrite <- (map_map fst f). apply FinFun.Injective_map_NoDup; [exact Hinj|exact Hnd].
Qed.

Lemma nx_relabel_edges (es : list (N * N * Z)) :
  (forall l1 a b x l2, es = l1 ++ (a, b, x) :: l2 -> find_edge a b l1 = None) ->
  forall l1 l2, es = l1 ++ l2 ->
  fold_left (fun acc (e : N * N * Z) => let '(a, b, x) := e in set_edge (f a) (f b) x acc) l2
            (map (fun e : N * N * Z => let '(a, b, x) := e in (f a, f b, x)) l1)
  = map (fun e : N * N * Z => let '(a, b, x) := e in (f a, f b, x)) es.
Proof.
  intros Hs l1 l2. revert l1. induction l2 as [|[[a b] x] r IH]; intros l1 E; simpl.
  - rewrite app_nil_r in E. subst. reflexivity.
  - rewrite set_edge_new.
    + specialize (IH (l1 ++ [(a, b, x)])). rewrite map_app in IH. simpl in IH. apply IH.
      rewrite <- app_assoc. exact E.
    + rewrite (find_edge_relabel Hinj). eapply Hs. exact E.
Qed.

Theorem nx_relabel_inj (g : mgraph) : wf g -> nx_relabel f g = relabel f g.
Proof.
  intros (W1 & W2 & W3). unfold nx_relabel, relabel. f_equal.
  - apply nx_relabel_nodes. exact W1.
  - apply (nx_relabel_edges (gedges g)) with (l1 := []); [|reflexivity].
    intros l1 a b x l2 E. apply (W3 l1 a b x l2 E).
Qed.
End NxRelabel.

(** only the values on the nodes and edge endpoints matter *)
Lemma nx_relabel_ext (f g : N -> N) (G : mgraph) :
  (forall n, In n (node_ids G) -> f n = g n) ->
  (forall a b x, In (a, b, x) (gedges G) -> f a = g a /\ f b = g b) ->
  nx_relabel f G = nx_relabel g G.
Proof.
  intros Hn He. unfold nx_relabel. f_equal.
  - unfold node_ids in Hn. generalize (@nil (N * gnode)). induction (gnodes G) as [|p l IH]; intros acc; simpl; [reflexivity|].
    rewrite (Hn (fst p)) by (left; reflexivity). apply IH. intros n I. apply Hn. right. exact I.
  - generalize (@nil (N * N * Z)). induction (gedges G) as [|[[a b] x] l IH]; intros acc; simpl; [reflexivity|].
    destruct (He a b x (or_introl eq_refl)) as [-> ->]. apply IH. intros a' b' x' I. apply (He a' b' x'). right. exact I.
Qed.

Lemma relabel_ext {A B} (f g : N -> N) (G : lgraph A B) :
  (forall n, In n (node_ids G) -> f n = g n) ->
  (forall a b x, In (a, b, x) (gedges G) -> f a = g a /\ f b = g b) ->
  relabel f G = relabel g G.
Proof.
  intros Hn He. unfold relabel. f_equal.
  - apply map_ext_in. intros p I. rewrite Hn; [reflexivity|]. unfold node_ids. apply in_map. exact I.
  - apply map_ext_in. intros [[a b] x] I. destruct (He a b x I) as [-> ->]. reflexivity.
Qed.

(* ------------------------------------------------------------------ zset / zassoc / zsort: the atom-map dictionaries *)
Lemma zset_new {V} (k : Z) (v : V) l : ~ In k (map fst l) -> zset k v l = l ++ [(k, v)].
Proof.
  induction l as [|[k' v'] r IH]; simpl; intros Hn; [reflexivity|].
  destruct (Z.eqb_spec k k') as [->|Hne]; [exfalso; apply Hn; left; reflexivity|].
  rewrite IH; [reflexivity|]. intros I. apply Hn. right. exact I.
Qed.

Lemma amap_table_spec (g : mgraph) :
  (forall p, In p (gnodes g) -> 0 < g_amap (snd p)) -> NoDup (map (fun p : N * gnode => g_amap (snd p)) (gnodes g)) ->
  amap_table g = map (fun p : N * gnode => (g_amap (snd p), fst p)) (gnodes g).
Proof.
  unfold amap_table. intros Hpos Hnd.
  assert (G : forall l acc, (forall p, In p l -> 0 < g_amap (snd p)) ->
             NoDup (map fst acc ++ map (fun p : N * gnode => g_amap (snd p)) l) ->
             fold_left (fun a (p : N * gnode) => if 0 <? g_amap (snd p) then zset (g_amap (snd p)) (fst p) a else a) l acc
             = acc ++ map (fun p : N * gnode => (g_amap (snd p), fst p)) l).
  { induction l as [|x l IH]; intros acc Hp Hn; simpl; [rewrite app_nil_r; reflexivity|].
    assert (Hx : 0 <? g_amap (snd x) = true) by (apply Z.ltb_lt; apply Hp; left; reflexivity). rewrite Hx.
    assert (Hk : ~ In (g_amap (snd x)) (map fst acc)).
    { simpl in Hn. apply NoDup_remove_2 in Hn. intros I. apply Hn. apply in_or_app. left. exact I. }
    rewrite (zset_new _ _ _ Hk). rewrite IH.
    - rewrite <- app_assoc. reflexivity.
    - intros p I. apply Hp. right. exact I.
    - rewrite map_app. simpl. rewrite <- app_assoc. simpl. exact Hn. }
  apply (G (gnodes g) []); auto.
Qed.

Lemma zassoc_in {V} k (l : list (Z * V)) v : zassoc k l = Some v -> In (k, v) l.
Proof.
  induction l as [|[k' v'] r IH]; simpl; [discriminate|].
  destruct (Z.eqb_spec k k') as [->|Hne]; [intros [= ->]; left; reflexivity|]. intros H. right. apply IH. exact H.
Qed.
Lemma zassoc_nodup_in {V} k (l : list (Z * V)) v : NoDup (map fst l) -> In (k, v) l -> zassoc k l = Some v.
Proof.
  induction l as [|[k' v'] r IH]; simpl; [intros _ []|].
  intros Hnd Hin. inversion Hnd as [|? ? Hnotin Hnd']; subst.
  destruct Hin as [E|Hin].
  - inversion E; subst. rewrite Z.eqb_refl. reflexivity.
  - destruct (Z.eqb_spec k k') as [->|Hne].
    + exfalso. apply Hnotin. change k' with (fst (k', v)). apply in_map. exact Hin.
    + apply IH; assumption.
Qed.

Fixpoint zsorted (l : list Z) : Prop :=
  match l with [] => True | x :: r => (forall y, In y r -> x < y) /\ zsorted r end.
Lemma zinsert_in k l x : In x (zinsert k l) <-> x = k \/ In x l.
Proof.
  induction l as [|y r IH]; simpl; [intuition|].
  destruct (k <? y); simpl; [intuition|]. destruct (Z.eqb_spec k y) as [->|Hne]; simpl; [intuition|].
  rewrite IH. intuition.
Qed.
Lemma zinsert_sorted k l : zsorted l -> zsorted (zinsert k l).
Proof.
  induction l as [|y r IH]; simpl; [intuition|]. intros [H1 H2].
  destruct (Z.ltb_spec k y) as [Hlt|Hge]; simpl.
  - split; [|split; auto]. intros z [<-|I]; [exact Hlt|]. specialize (H1 z I). lia.
  - destruct (Z.eqb_spec k y) as [->|Hne]; simpl; [split; auto|].
    split; [|apply IH; exact H2]. intros z I. apply zinsert_in in I. destruct I as [->|I]; [lia|apply H1; exact I].
Qed.
Lemma zsort_in l x : In x (zsort l) <-> In x l.
Proof. induction l as [|y r IH]; simpl; [tauto|]. rewrite zinsert_in, IH. intuition. Qed.
Lemma zsort_sorted l : zsorted (zsort l).
Proof. induction l; simpl; [exact I|apply zinsert_sorted; assumption]. Qed.
Lemma zsorted_nodup l : zsorted l -> NoDup l.
Proof.
  induction l as [|x r IH]; simpl; [constructor|]. intros [H1 H2]. constructor; [|apply IH; exact H2].
  intros I. specialize (H1 x I). lia.
Qed.

(** get_aam_pairwise_indices *)
Lemma aam_pairs_in (G H : mgraph) a b :
  In (a, b) (aam_pairs G H) <-> exists k, zassoc k (amap_table G) = Some a /\ zassoc k (amap_table H) = Some b.
Proof.
  unfold aam_pairs. rewrite in_flat_map. split.
  - intros (k & _ & I). exists k. destruct (zassoc k (amap_table G)), (zassoc k (amap_table H)); try (destruct I; fail).
    destruct I as [E|[]]. inversion E; subst. auto.
  - intros (k & E1 & E2). exists k. split.
    + apply zsort_in. apply zassoc_in in E1. change k with (fst (k, a)). apply in_map. exact E1.
    + rewrite E1, E2. left. reflexivity.
Qed.

Lemma map_flat_map {X Y W} (g : Y -> W) (F : X -> list Y) l : map g (flat_map F l) = flat_map (fun x => map g (F x)) l.
Proof. induction l; simpl; [reflexivity|]. rewrite map_app. congruence. Qed.

Lemma aam_pairs_snd_nodup (G H : mgraph) :
  (forall k k' b, zassoc k (amap_table H) = Some b -> zassoc k' (amap_table H) = Some b -> k = k') ->
  NoDup (map snd (aam_pairs G H)).
Proof.
  intros Hinj. unfold aam_pairs. rewrite map_flat_map. apply Mono.NoDup_flat_map.
  - apply zsorted_nodup. apply zsort_sorted.
  - intros k _. destruct (zassoc k (amap_table G)), (zassoc k (amap_table H)); simpl; repeat constructor; intros [].
  - intros k k' y _ _ I I'.
    destruct (zassoc k (amap_table G)); [|destruct I]. destruct (zassoc k (amap_table H)) eqn:E1; [|destruct I].
    destruct (zassoc k' (amap_table G)); [|destruct I']. destruct (zassoc k' (amap_table H)) eqn:E2; [|destruct I'].
    simpl in I, I'. destruct I as [<-|[]]. destruct I' as [E|[]]. subst. eapply Hinj; eauto.
Qed.

(** mapping = {old: new for new, old in node_map} *)
Definition swap (p : N * N) : N * N := (snd p, fst p).
Lemma remap_mapping_spec (l : list (N * N)) : NoDup (map snd l) -> remap_mapping l = map swap l.
Proof.
  intros Hnd. unfold remap_mapping. rewrite (fold_set_val (fun p : N * N => snd p) (fun p => fst p)); [reflexivity|exact Hnd].
Qed.

(** sorted(...) of node ids *)
Lemma ninsert_perm k l : Permutation (ninsert k l) (k :: l).
Proof.
  induction l as [|x r IH]; simpl; [apply Permutation_refl|]. destruct (N.leb k x); [apply Permutation_refl|].
  eapply Permutation_trans; [apply perm_skip; exact IH|apply perm_swap].
Qed.
Lemma nsort_perm l : Permutation (nsort l) l.
Proof. induction l; simpl; [constructor|]. eapply Permutation_trans; [apply ninsert_perm|apply perm_skip; assumption]. Qed.

Lemma map_snd_combine {X Y} (l1 : list X) : forall l2 : list Y, length l1 = length l2 -> map snd (combine l1 l2) = l2.
Proof. induction l1; intros [|y l2] E; simpl in *; try discriminate; auto. f_equal. apply IHl1. lia. Qed.
Lemma map_fst_combine' {X Y} (l1 : list X) : forall l2 : list Y, length l1 = length l2 -> map fst (combine l1 l2) = l1.
Proof. induction l1; intros [|y l2] E; simpl in *; try discriminate; auto. f_equal. apply IHl1. lia. Qed.
