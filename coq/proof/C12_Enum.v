(** C12 -- the trusted premise about networkx VF2, made explicit.
    [search_subgraphs_with enum] is MCSMatcher._search_subgraphs with an ARBITRARY enumerator [enum nodes] in the place
    of "GraphMatcher(host, pattern.subgraph(nodes)).subgraph_isomorphisms_iter(), each result inverted and keyed by its
    sorted items"; the model's [search_subgraphs] is the instance [enum := sub_isos] (the verified Mono.monos).
    Theorem [search_enum_indep]: the search uses the enumerator only through the SET of its results per k-subset:
    any enumerator that returns, for every k-subset of the pattern's nodes, the same set as the verified one (in any
    order, with or without repetitions) yields the same set of mappings, the same [last_size] and the same number of
    matcher objects.  So all theorems of props/C12.v hold for the search run with such an enumerator -- this is
    exactly what is assumed about VF2 (and monitored: the ordered result lists are compared on every case). *)
From Coq Require Import List NArith ZArith Bool Arith Lia Permutation.
From SK Require Import lib.LGraph lib.Mono model.C12_Model proof.C12_Search proof.C12_Proof.
Import ListNotations.

Section With.
Variable enum : list N -> list mapping.

Definition level_with (pattern : graph) (k : nat) : list mapping :=
  flat_map enum (combs (node_ids pattern) k).

Fixpoint search_loop_with (mcs : bool) (pattern : graph) (k : nat)
         (acc : list mapping) (best tried : nat) : list mapping * nat * nat :=
  match k with
  | O => (acc, best, tried)
  | S k' =>
      if mcs && negb (best =? 0)%nat && (k <? best)%nat then (acc, best, tried)
      else
        let tried' := (tried + length (combs (node_ids pattern) k))%nat in
        let '(acc', level_found) := add_new acc (level_with pattern k) in
        if level_found then
          if mcs then (acc', k, tried')
          else search_loop_with mcs pattern k' acc' k tried'
        else search_loop_with mcs pattern k' acc' best tried'
  end.

Definition search_subgraphs_with (pattern host : graph) (mcs : bool) : list mapping * nat * nat :=
  let max_k := Nat.min (n_nodes pattern) (n_nodes host) in
  let '(maps, best, tried) := search_loop_with mcs pattern max_k [] 0 0 in
  let maps1 := if mcs && negb (best =? 0)%nat then filter (fun m => (length m =? best)%nat) maps else maps in
  let maps2 := sort_results maps1 in
  let last := if negb (best =? 0)%nat then best else match maps2 with m :: _ => length m | [] => O end in
  (maps2, last, tried).
End With.

(** the model is the instance with the verified enumerator *)
Lemma search_loop_is_with nm em mcs pattern host k : forall acc best tried,
  search_loop nm em mcs pattern host k acc best tried =
  search_loop_with (sub_isos nm em pattern host) mcs pattern k acc best tried.
Proof.
  induction k as [|k' IH]; intros acc best tried; [reflexivity|].
  cbn [search_loop search_loop_with]. unfold level_with, level.
  destruct (mcs && negb (best =? 0) && (S k' <? best)); [reflexivity|].
  destruct (add_new acc (flat_map (sub_isos nm em pattern host) (combs (node_ids pattern) (S k')))) as [acc' f].
  destruct f; [destruct mcs; [reflexivity|apply IH]|apply IH].
Qed.

Lemma search_subgraphs_is_with nm em pattern host mcs :
  search_subgraphs nm em pattern host mcs = search_subgraphs_with (sub_isos nm em pattern host) pattern host mcs.
Proof. unfold search_subgraphs, search_subgraphs_with. now rewrite search_loop_is_with. Qed.

(* ------------------------------------------------------------------ dependence on the enumerator: only through sets *)
Definition same_set (a b : list mapping) : Prop := forall m, In m a <-> In m b.

Lemma add_new_notfound cands : forall acc acc', add_new acc cands = (acc', false) -> acc' = acc.
Proof.
  induction cands as [|m r IH]; intros acc acc' E; simpl in E; [now inversion E|].
  destruct (seen m acc); [now apply IH|].
  destruct (add_new (acc ++ [m]) r). discriminate.
Qed.

Lemma add_new_same acc1 acc2 c1 c2 a1 f1 a2 f2 : same_set acc1 acc2 -> same_set c1 c2 ->
  add_new acc1 c1 = (a1, f1) -> add_new acc2 c2 = (a2, f2) -> same_set a1 a2 /\ f1 = f2.
Proof.
  intros Ha Hc E1 E2. destruct (add_new_spec _ _ _ _ E1) as (A1 & F1). destruct (add_new_spec _ _ _ _ E2) as (A2 & F2).
  split.
  - intros m. rewrite A1, A2, (Ha m), (Hc m). reflexivity.
  - assert (Hiff : f1 = true <-> f2 = true).
    { rewrite F1, F2. split; intros (m & Hm & Hn); exists m; (split; [now apply Hc|]); intros I; apply Hn; now apply Ha. }
    destruct f1, f2; try reflexivity; [destruct Hiff as [H _]; now rewrite H|destruct Hiff as [_ H]; now rewrite H].
Qed.

Section Indep.
Variables e1 e2 : list N -> list mapping.
Variable pattern : graph.
Hypothesis same : forall k c, In c (combs (node_ids pattern) k) -> same_set (e1 c) (e2 c).

Lemma level_same k : same_set (level_with e1 pattern k) (level_with e2 pattern k).
Proof.
  intros m. unfold level_with. rewrite !in_flat_map.
  split; intros (c & Hc & Hm); exists c; (split; [exact Hc|]); now apply (same k c Hc).
Qed.

Lemma search_loop_same mcs k : forall acc1 acc2 best tried a1 b1 t1 a2 b2 t2,
  same_set acc1 acc2 -> (best = 0 -> acc1 = [] /\ acc2 = []) ->
  search_loop_with e1 mcs pattern k acc1 best tried = (a1, b1, t1) ->
  search_loop_with e2 mcs pattern k acc2 best tried = (a2, b2, t2) ->
  same_set a1 a2 /\ b1 = b2 /\ t1 = t2 /\ (b1 = 0 -> a1 = [] /\ a2 = []).
Proof.
  induction k as [|k' IH]; intros acc1 acc2 best tried a1 b1 t1 a2 b2 t2 Ha Hb E1 E2.
  - simpl in E1, E2. inversion E1; inversion E2; subst. auto.
  - cbn [search_loop_with] in E1, E2.
    destruct (mcs && negb (best =? 0) && (S k' <? best)).
    + inversion E1; inversion E2; subst. auto.
    + destruct (add_new acc1 (level_with e1 pattern (S k'))) as [x1 f1] eqn:N1.
      destruct (add_new acc2 (level_with e2 pattern (S k'))) as [x2 f2] eqn:N2.
      destruct (add_new_same _ _ _ _ _ _ _ _ Ha (level_same (S k')) N1 N2) as (Hx & Hf). subst f2.
      destruct f1.
      * destruct mcs.
        -- inversion E1; inversion E2; subst. split; [exact Hx|]. split; [reflexivity|]. split; [reflexivity|intros H0; discriminate H0].
        -- refine (IH _ _ (S k') _ _ _ _ _ _ _ Hx _ E1 E2). intros H0; discriminate H0.
      * apply add_new_notfound in N1. apply add_new_notfound in N2. subst x1 x2.
        eapply IH; [exact Ha|exact Hb|exact E1|exact E2].
Qed.

Theorem search_enum_indep host mcs :
  same_set (fst (fst (search_subgraphs_with e1 pattern host mcs))) (fst (fst (search_subgraphs_with e2 pattern host mcs))) /\
  snd (fst (search_subgraphs_with e1 pattern host mcs)) = snd (fst (search_subgraphs_with e2 pattern host mcs)) /\
  snd (search_subgraphs_with e1 pattern host mcs) = snd (search_subgraphs_with e2 pattern host mcs).
Proof.
  unfold search_subgraphs_with. set (max_k := Nat.min (n_nodes pattern) (n_nodes host)).
  destruct (search_loop_with e1 mcs pattern max_k [] 0 0) as [[a1 b1] t1] eqn:E1.
  destruct (search_loop_with e2 mcs pattern max_k [] 0 0) as [[a2 b2] t2] eqn:E2.
  destruct (search_loop_same mcs max_k [] [] 0 0 a1 b1 t1 a2 b2 t2 (fun m => iff_refl _) (fun _ => conj eq_refl eq_refl) E1 E2)
    as (Ha & <- & <- & Hz).
  cbn [fst snd].
  assert (Hm : same_set (if mcs && negb (b1 =? 0) then filter (fun m => length m =? b1) a1 else a1)
                        (if mcs && negb (b1 =? 0) then filter (fun m => length m =? b1) a2 else a2)).
  { destruct (mcs && negb (b1 =? 0)); [|exact Ha]. intros m. rewrite !filter_In, (Ha m). reflexivity. }
  split; [intros m; rewrite !sort_results_in; apply Hm|]. split; [|reflexivity].
  destruct b1 as [|b]; [|reflexivity]. destruct (Hz eq_refl) as (-> & ->). reflexivity.
Qed.

End Indep.

(** the statement used by props/C12.v: any enumerator that agrees with the verified one as a set per k-subset *)
Theorem vf2_premise nm em (pattern host : graph) mcs (vf2 : list N -> list mapping) :
  (forall k c, In c (combs (node_ids pattern) k) -> forall m, In m (vf2 c) <-> In m (sub_isos nm em pattern host c)) ->
  (forall m, In m (fst (fst (search_subgraphs_with vf2 pattern host mcs))) <->
             In m (fst (fst (search_subgraphs nm em pattern host mcs)))) /\
  snd (fst (search_subgraphs_with vf2 pattern host mcs)) = snd (fst (search_subgraphs nm em pattern host mcs)) /\
  snd (search_subgraphs_with vf2 pattern host mcs) = snd (search_subgraphs nm em pattern host mcs).
Proof.
  intros H. rewrite search_subgraphs_is_with. exact (search_enum_indep vf2 (sub_isos nm em pattern host) pattern H host mcs).
Qed.

(* ------------------------------------------------------------------ non-vacuity *)
Module Example_enum.
Open Scope N_scope.
Definition nd (i e : N) : N * nattr := (i, (Some e, [Some e])).
Definition ga : graph := LG [nd 1 1; nd 2 1; nd 3 2] [((1,2), [Some 2%Z]); ((2,3), [Some 4%Z])].
Definition gb : graph := LG [nd 10 2; nd 11 1; nd 12 1] [((10,11), [Some 4%Z]); ((11,12), [Some 2%Z])].
(** an enumerator with another order and repetitions: the verified results reversed and doubled *)
Definition vf2' (c : list N) : list mapping :=
  rev (sub_isos (node_match [9]) edge_match ga gb c) ++ sub_isos (node_match [9]) edge_match ga gb c.
Example vf2_premise_nonvacuous :
  search_subgraphs_with vf2' ga gb false = search_subgraphs (node_match [9]) edge_match ga gb false /\
  length (level_with vf2' ga 1) = 10%nat /\ length (level (node_match [9]) edge_match ga gb 1) = 5%nat /\
  snd (fst (search_subgraphs_with vf2' ga gb true)) = snd (fst (search_subgraphs (node_match [9]) edge_match ga gb true)).
Proof.
  split; [vm_compute; reflexivity|]. split; [vm_compute; reflexivity|]. split; [vm_compute; reflexivity|].
  apply (vf2_premise (node_match [9]) edge_match ga gb true vf2').
  intros k c _ m. unfold vf2'. rewrite in_app_iff, <- in_rev. tauto.
Qed.
End Example_enum.

(* ------------------------------------------------------------------ no mapping is returned twice *)
Lemma add_new_nodup cands : forall acc acc' f, NoDup acc -> add_new acc cands = (acc', f) -> NoDup acc'.
Proof.
  induction cands as [|m r IH]; intros acc acc' f Hn E; simpl in E; [inversion E; now subst|].
  destruct (seen m acc) eqn:Es; [eapply IH; eauto|].
  destruct (add_new (acc ++ [m]) r) as [a f'] eqn:Er. inversion E; subst a f.
  eapply IH; [|exact Er].
  assert (Hm : ~ In m acc) by (intros I; apply seen_spec in I; congruence).
  clear -Hn Hm. induction Hn as [|y l Hy Hl IHl]; simpl; [constructor; [intros []|constructor]|].
  constructor.
  - intros I. apply in_app_or in I. destruct I as [I|[<-|[]]]; [contradiction|]. apply Hm. now left.
  - apply IHl. intros I. apply Hm. now right.
Qed.

Lemma search_loop_nodup nm em mcs pattern host k : forall acc best tried acc' best' tried',
  NoDup acc -> search_loop nm em mcs pattern host k acc best tried = (acc', best', tried') -> NoDup acc'.
Proof.
  induction k as [|k' IH]; intros acc best tried acc' best' tried' Hn E; [simpl in E; inversion E; now subst|].
  cbn [search_loop] in E.
  destruct (mcs && negb (best =? 0) && (S k' <? best)); [inversion E; now subst|].
  destruct (add_new acc (level nm em pattern host (S k'))) as [a f] eqn:Ea.
  pose proof (add_new_nodup _ _ _ _ Hn Ea) as Hna.
  destruct f; [destruct mcs; [inversion E; now subst|eapply IH; eauto]|eapply IH; eauto].
Qed.

Theorem search_results_nodup nm em pattern host mcs : NoDup (fst (fst (search_subgraphs nm em pattern host mcs))).
Proof.
  unfold search_subgraphs.
  destruct (search_loop nm em mcs pattern host (Nat.min (n_nodes pattern) (n_nodes host)) [] 0 0) as [[acc best] tr] eqn:E.
  cbn [fst]. pose proof (search_loop_nodup _ _ _ _ _ _ _ _ _ _ _ _ (NoDup_nil _) E) as Hn.
  eapply Permutation_NoDup; [apply Permutation_sym, sort_results_perm|].
  destruct (mcs && negb (best =? 0)); [now apply NoDup_filter|exact Hn].
Qed.

Lemma map_invert_nodup (l : list mapping) : NoDup l -> NoDup (map invert_mapping l).
Proof.
  induction 1 as [|m l Hm Hl IH]; simpl; constructor; [|exact IH].
  intros I. apply in_map_iff in I. destruct I as (m' & E & I'). apply Hm.
  rewrite <- (invert_involutive m), <- E, invert_involutive. exact I'.
Qed.

Theorem get_mappings_nodup defs prune wc (g1 g2 : graph) mcs d :
  NoDup (get_mappings d (find_common_subgraph defs prune wc g1 g2 mcs)).
Proof.
  destruct (n_nodes (prune_graph prune wc g1) <=? n_nodes (prune_graph prune wc g2)) eqn:Eo.
  - rewrite (fcs_le defs prune wc g1 g2 mcs Eo). destruct d; cbn [get_mappings r_maps r_pattern_is_g1];
      try apply map_invert_nodup; apply search_results_nodup.
  - rewrite (fcs_gt defs prune wc g1 g2 mcs Eo). destruct d; cbn [get_mappings r_maps r_pattern_is_g1];
      try apply map_invert_nodup; apply search_results_nodup.
Qed.

Module Example_nodup.
Import Example_enum.
(** the level enumerates the mapping {1->12, 2->11} etc. once per k-subset; with the doubled enumerator every mapping is
    produced twice and the [seen] set removes the copies *)
Example no_duplicates_nonvacuous :
  length (get_mappings G1toG2 (find_common_subgraph [9] false 9 ga gb false)) = 10%nat /\
  NoDup (get_mappings G1toG2 (find_common_subgraph [9] false 9 ga gb false)) /\
  length (fst (fst (search_subgraphs_with vf2' ga gb false))) = 10%nat.
Proof. split; [vm_compute; reflexivity|]. split; [apply get_mappings_nodup|vm_compute; reflexivity]. Qed.
End Example_nodup.
