(** C01 — the string round trip for reactions WITH explicit hydrogens under the default writer *)
From Coq Require Import List NArith ZArith Bool Lia Arith Permutation.
From SK Require Import lib.LGraph lib.C01_GraphLemmas model.C01_Model model.C02_Model model.C01_String
  proof.C01_Proof proof.C02_Proof proof.C01_StringProof proof.C01_StringHyd proof.C01_StringHydExt proof.C01_StringPipe proof.C01_RenumWrite.
Import ListNotations.
Local Open Scope Z_scope.

(** the labels the property talks about, plus the atom map *)
Definition sel5 (a : gnode) : N * bool * Z * Z * Z := (g_el a, g_arom a, g_hc a, g_ch a, g_amap a).
Definition geq5 (g1 g2 : mgraph) : Prop :=
  (forall n, option_map sel5 (label g1 n) = option_map sel5 (label g2 n)) /\ (forall u v, adj g1 u v = adj g2 u v).

Lemma geq5_sym g1 g2 : geq5 g1 g2 -> geq5 g2 g1.
Proof. intros [A B]. split; intros; symmetry; auto. Qed.
Lemma geq5_geq_sel g1 g2 : geq5 g1 g2 -> geq_sel g1 g2.
Proof.
  intros [A B]. split; [|exact B]. intros n. specialize (A n).
  destruct (label g1 n) as [a|], (label g2 n) as [b|]; cbn in *; try discriminate; [|reflexivity].
  inversion A. unfold sel4. congruence.
Qed.
Lemma geq_sel_amap_geq5 g1 g2 : geq_sel g1 g2 -> amap_id g1 -> amap_id g2 -> geq5 g1 g2.
Proof.
  intros [A B] A1 A2. split; [|exact B]. intros n. specialize (A n).
  destruct (label g1 n) as [a|] eqn:L1, (label g2 n) as [b|] eqn:L2; cbn in *; try discriminate; [|reflexivity].
  inversion A. unfold sel5. rewrite (A1 n a L1), (A2 n b L2). congruence.
Qed.

(** * implicit_hydrogen respects geq5 *)
Section Ext5.
Variables g1 g2 : mgraph.
Hypothesis W1 : wf g1.
Hypothesis W2 : wf g2.
Hypothesis E : geq5 g1 g2.

Lemma lab5 n : match label g1 n, label g2 n with
               | Some a, Some b => sel5 a = sel5 b
               | None, None => True
               | _, _ => False
               end.
Proof. destruct E as [A _]. specialize (A n). destruct (label g1 n), (label g2 n); cbn in *; try discriminate; auto. congruence. Qed.

Lemma is_Hn_5 n : is_Hn g1 n = is_Hn g2 n.
Proof. unfold is_Hn. pose proof (lab5 n) as H. destruct (label g1 n), (label g2 n); try contradiction; [|reflexivity]. inversion H. congruence. Qed.

Lemma nbrs_members5 u x : In x (nbrs g1 u) <-> In x (nbrs g2 u).
Proof. rewrite !in_nbrs. destruct E as [_ B]. rewrite B. reflexivity. Qed.

Lemma mem_nbrs_5 u x : mem x (nbrs g1 u) = mem x (nbrs g2 u).
Proof.
  destruct (mem x (nbrs g1 u)) eqn:E1, (mem x (nbrs g2 u)) eqn:E2; try reflexivity; exfalso.
  - apply mem_spec, nbrs_members5, mem_spec in E1. congruence.
  - apply mem_spec, nbrs_members5, mem_spec in E2. congruence.
Qed.

Lemma count_h_5 n : count_h g1 n = count_h g2 n.
Proof.
  unfold count_h. f_equal. rewrite (filter_ext (is_Hn g1) (is_Hn g2)) by apply is_Hn_5.
  apply filter_length_same_members; [apply nbrs_nodup; exact W1|apply nbrs_nodup; exact W2|apply nbrs_members5].
Qed.

Lemma preserved_members5 pres h : In h (preserved g1 pres) <-> In h (preserved g2 pres).
Proof.
  rewrite (preserved_spec g1 pres h W1), (preserved_spec g2 pres h W2). pose proof (lab5 h) as H.
  destruct (label g1 h) as [a|], (label g2 h) as [b|]; try contradiction.
  - inversion H as [[E1 E2 E3 E4 E5]]. unfold is_H. split.
    + intros (c & L & Hc & Hm). inversion L; subst c. exists b. split; [reflexivity|]. rewrite <- E1, <- E5. auto.
    + intros (c & L & Hc & Hm). inversion L; subst c. exists a. split; [reflexivity|]. rewrite E1, E5. auto.
  - split; intros (c & L & _); discriminate.
Qed.

Lemma mem_preserved_5 pres n : mem n (preserved g1 pres) = mem n (preserved g2 pres).
Proof.
  destruct (mem n (preserved g1 pres)) eqn:E1, (mem n (preserved g2 pres)) eqn:E2; try reflexivity; exfalso.
  - apply mem_spec, preserved_members5, mem_spec in E1. congruence.
  - apply mem_spec, preserved_members5, mem_spec in E2. congruence.
Qed.

Lemma count_pres_5 pres n : count_pres g1 pres n = count_pres g2 pres n.
Proof.
  unfold count_pres. f_equal.
  rewrite (filter_ext (fun h => mem n (nbrs g1 h)) (fun h => mem n (nbrs g2 h))) by (intros h; apply mem_nbrs_5).
  apply filter_length_same_members; [apply preserved_nodup; exact W1|apply preserved_nodup; exact W2|apply preserved_members5].
Qed.

Lemma has_heavy_5 n : has_heavy g1 n = has_heavy g2 n.
Proof.
  destruct (has_heavy g1 n) eqn:E1, (has_heavy g2 n) eqn:E2; try reflexivity; exfalso.
  - apply has_heavy_spec in E1. destruct E1 as (m & I & H). rewrite is_Hn_5 in H. apply nbrs_members5 in I.
    assert (has_heavy g2 n = true) by (apply has_heavy_spec; eauto). congruence.
  - apply has_heavy_spec in E2. destruct E2 as (m & I & H). rewrite <- is_Hn_5 in H. apply nbrs_members5 in I.
    assert (has_heavy g1 n = true) by (apply has_heavy_spec; eauto). congruence.
Qed.

Lemma ih_removed_5 pres n : ih_removed g1 pres n = ih_removed g2 pres n.
Proof. unfold ih_removed. rewrite is_Hn_5, mem_preserved_5, has_heavy_5. reflexivity. Qed.

Theorem implicit_hydrogen_geq5 pres : geq5 (implicit_hydrogen g1 pres) (implicit_hydrogen g2 pres).
Proof.
  destruct (implicit_hydrogen_spec g1 pres W1) as (L1 & A1 & _).
  destruct (implicit_hydrogen_spec g2 pres W2) as (L2 & A2 & _).
  split.
  - intros n. rewrite L1, L2. pose proof (lab5 n) as H.
    destruct (label g1 n) as [a|], (label g2 n) as [b|]; try contradiction; [|reflexivity].
    inversion H as [[E1 E2 E3 E4 E5]]. unfold is_H. rewrite E1. destruct (N.eqb (g_el b) EL_H).
    + rewrite mem_preserved_5, has_heavy_5. destruct (mem n (preserved g2 pres) || negb (has_heavy g2 n)); cbn; [rewrite H|]; reflexivity.
    + cbn. unfold sel5. cbn. rewrite count_h_5, count_pres_5, E1, E2, E3, E4, E5. reflexivity.
  - intros u v. rewrite A1, A2, !ih_removed_5. destruct E as [_ B]. rewrite B. reflexivity.
Qed.
End Ext5.

(** * implicit_hydrogen keeps well-formedness and atom_map = id *)
Lemma ih_node_ids (g : mgraph) pres :
  node_ids (implicit_hydrogen g pres) = filter (fun n => negb (ih_removed g pres n)) (node_ids g).
Proof.
  unfold node_ids, implicit_hydrogen. cbn [gnodes]. rewrite pass2_flat.
  set (ns := fold_left (fun ns n => dec_hc n ns) (decs g (preserved g pres)) (ih_pass1 g)).
  assert (map fst ns = map fst (gnodes g)) as Ek by (unfold ns; rewrite decs_keys, pass1_keys; reflexivity).
  revert Ek. generalize ns. clear ns. intros ns. generalize (gnodes g). induction ns as [|[k a] r IH]; intros l Ek.
  - destruct l; [reflexivity|discriminate].
  - destruct l as [|[k' a'] l']; [discriminate|]. cbn in Ek. inversion Ek; subst k'. cbn [filter map fst].
    destruct (ih_removed g pres k); cbn [negb map fst]; [apply IH; assumption|]. f_equal. apply IH. assumption.
Qed.

Lemma ih_wf (g : mgraph) pres : wf g -> wf (implicit_hydrogen g pres).
Proof.
  intros W. apply wf_intro.
  - rewrite ih_node_ids. apply NoDup_filter. apply W.
  - intros a b x I. unfold implicit_hydrogen in I. cbn [gedges] in I. apply filter_In in I. destruct I as [I K].
    apply andb_true_iff in K. destruct K as [Ka Kb]. destruct (wf_edge_nodes W I) as (Ha & Hb & Hab).
    rewrite !ih_node_ids, !filter_In. auto.
  - unfold implicit_hydrogen. cbn [gedges]. apply simple_filter. apply wf_simple. exact W.
Qed.

Lemma ih_amap_id (g : mgraph) pres : wf g -> amap_id g -> amap_id (implicit_hydrogen g pres).
Proof.
  intros W A n b L. destruct (implicit_hydrogen_spec g pres W) as (HL & _). rewrite HL in L.
  destruct (label g n) as [a|] eqn:La; [|discriminate]. destruct (is_H a).
  - destruct (mem n (preserved g pres) || negb (has_heavy g n)); inversion L; subst. apply (A n b La).
  - inversion L; subst. cbn. apply (A n a La).
Qed.

(** * the pipeline theorem with explicit hydrogens *)
Lemma graph_of_amap_id (m : rmol) : rmol_ok m -> amap_id (graph_of m).
Proof. intros [Hn Hs]. apply (mol_to_graph_amap_id m _ Hn Hs (mol_to_graph_closed m Hn Hs)). Qed.

Section PipelineH.
Variable str : Type.
Variable rd_read : str -> option rmol.
Variable rd_write : wmol -> option str.
(** [ok g]: g is a graph RDKit writes and reads back unchanged ("RDKit-normal": consistent aromaticity, valences) *)
Variable ok : mgraph -> Prop.

(** RDKit contract R2 (four premises, written out in the theorem):
    P1 what RDKit reads is ok;  P2 ok depends only on the labelled graph (labels of the property + atom map + bonds);
    P3 folding explicit hydrogens into hydrogen counts keeps ok;  P4 an ok graph that RDKit writes reads back as itself *)
Definition R2 : Prop :=
  (forall s m, rd_read s = Some m -> ok (graph_of m)) /\
  (forall g g', ok g -> geq5 g' g -> ok g') /\
  (forall g pres, ok g -> wf g -> ok (implicit_hydrogen g pres)) /\
  (forall g w s, ok g -> wf g -> amap_id g -> graph_to_wmol g = Some w -> rd_write w = Some s ->
     exists m, rd_read s = Some m /\ rmol_ok m /\ geq_sel (graph_of m) g).

Theorem rsmi_pipeline_hydrogens : R2 ->
  forall r p mr mp, rd_read r = Some mr -> rd_read p = Some mp -> rmol_ok mr -> rmol_ok mp ->
  let G := graph_of mr in let H := graph_of mp in
  wf G -> wf H -> same_nodes G H -> orders_pos G -> orders_pos H ->
  forall J r' p', rsmi_to_its_s rd_read r p = Some J -> its_to_rsmi_s rd_write J = Some (r', p') ->
  J = its_construct G H /\
  exists mr' mp', rd_read r' = Some mr' /\ rd_read p' = Some mp' /\ rmol_ok mr' /\ rmol_ok mp' /\
                  geq_sel (graph_of mr') (smi_graph G (hlist J)) /\ geq_sel (graph_of mp') (smi_graph H (hlist J)).
Proof.
  intros (P1 & P2 & P3 & P4) r p mr mp Rr Rp Okr Okp G H WG WH S PG PH J r' p' E1 E2.
  destruct Okr as [Nr Sr]. destruct Okp as [Np Sp].
  unfold rsmi_to_its_s in E1. rewrite Rr, Rp in E1. unfold rsmi_to_its_m, rsmi_to_graph_m in E1.
  rewrite (mol_to_graph_closed mr Nr Sr), (mol_to_graph_closed mp Np Sp) in E1.
  fold (graph_of mr) in E1. fold (graph_of mp) in E1. fold G in E1. fold H in E1. inversion E1; subst J. clear E1.
  split; [reflexivity|].
  set (J := its_construct G H) in *. set (hl := hlist J).
  destruct (roundtrip G H WG WH S PG PH) as (R1g & A1 & R2h & A2).
  assert (wf (fst (its_decompose J)) /\ wf (snd (its_decompose J))) as [Wg Wh] by (split; apply dec_wf; apply its_wf; assumption).
  assert (geq5 (fst (its_decompose J)) G /\ geq5 (snd (its_decompose J)) H) as [Qg Qh].
  { split; apply geq_sel_amap_geq5; auto; apply graph_of_amap_id; split; assumption. }
  (* what is written on each side, and its relation to the input graph *)
  assert (forall (d X : mgraph), wf d -> wf X -> amap_id d -> geq5 d X -> ok X ->
            ok (smi_graph d hl) /\ wf (smi_graph d hl) /\ amap_id (smi_graph d hl) /\ geq_sel (smi_graph d hl) (smi_graph X hl)) as Side.
  { intros d X Wd WX Ad Q OkX. unfold smi_graph. destruct hl as [|z zs].
    - split; [apply (P2 X d OkX Q)|]. split; [exact Wd|]. split; [exact Ad|]. apply geq5_geq_sel. exact Q.
    - split; [apply P3; [apply (P2 X d OkX Q)|exact Wd]|]. split; [apply ih_wf; exact Wd|]. split; [apply ih_amap_id; assumption|].
      apply geq5_geq_sel. apply implicit_hydrogen_geq5; assumption. }
  destruct (Side _ G Wg WG A1 Qg (P1 r mr Rr)) as (Og & Wg' & Ag' & Gg).
  destruct (Side _ H Wh WH A2 Qh (P1 p mp Rp)) as (Oh & Wh' & Ah' & Gh).
  unfold its_to_rsmi_s, its_to_wmols, its_to_graphs in E2. fold hl in E2. cbn [fst snd] in E2.
  destruct (graph_to_wmol (smi_graph (fst (its_decompose J)) hl)) as [wr|] eqn:Wr; [|discriminate].
  destruct (graph_to_wmol (smi_graph (snd (its_decompose J)) hl)) as [wp|] eqn:Wp; [|discriminate].
  destruct (rd_write wr) as [sr|] eqn:Ws1; [|discriminate]. destruct (rd_write wp) as [sp|] eqn:Ws2; [|discriminate].
  inversion E2; subst r' p'. clear E2.
  destruct (P4 _ wr sr Og Wg' Ag' Wr Ws1) as (mr' & Rr' & Okr' & Gr).
  destruct (P4 _ wp sp Oh Wh' Ah' Wp Ws2) as (mp' & Rp' & Okp' & Gp).
  exists mr', mp'. split; [exact Rr'|]. split; [exact Rp'|]. split; [exact Okr'|]. split; [exact Okp'|].
  split; eapply geq_sel_trans; eauto.
Qed.
End PipelineH.


(** * non-vacuity: the contract R2 has a model in which the writer really writes *)
Definition ex_ok (g : mgraph) : Prop := geq_sel g (graph_of ex_mr) \/ geq_sel g (graph_of ex_mp).

Lemma no_H_fold (g X : mgraph) pres : wf g -> geq_sel g X -> (forall n a, label X n = Some a -> is_H a = false) ->
  geq_sel (implicit_hydrogen g pres) X.
Proof.
  intros W [GL GA] NoH.
  assert (forall n, is_Hn g n = false) as Hn.
  { intros n. unfold is_Hn. specialize (GL n). destruct (label g n) as [a|]; [|reflexivity].
    destruct (label X n) as [b|] eqn:LX; [|discriminate]. cbn in GL. inversion GL as [[E1 E2 E3 E4]].
    specialize (NoH n b LX). unfold is_H in NoH. rewrite E1. exact NoH. }
  assert (preserved g pres = []) as Pn.
  { destruct (preserved g pres) as [|h l] eqn:Ep; [reflexivity|]. exfalso.
    assert (In h (preserved g pres)) as Ih by (rewrite Ep; left; reflexivity).
    apply (preserved_isH g pres h W) in Ih. rewrite Hn in Ih. discriminate. }
  destruct (implicit_hydrogen_spec g pres W) as (L & A & _). split.
  - intros n. rewrite L, <- GL. destruct (label g n) as [a|] eqn:La; [|reflexivity].
    assert (is_H a = false) as Ha by (specialize (Hn n); unfold is_Hn in Hn; rewrite La in Hn; exact Hn).
    rewrite Ha. cbn. unfold sel4. cbn.
    assert (count_h g n = 0) as ->.
    { unfold count_h. rewrite (filter_nil (is_Hn g)); [reflexivity|intros x _; apply Hn]. }
    assert (count_pres g pres n = 0) as -> by (unfold count_pres; rewrite Pn; reflexivity).
    repeat f_equal. lia.
  - intros u v. rewrite A, <- GA. unfold ih_removed. rewrite !Hn. reflexivity.
Qed.

Example C01_R2_nonvacuous : R2 bool ex_read ex_write ex_ok.
Proof.
  assert (forall X, X = graph_of ex_mr \/ X = graph_of ex_mp -> forall n a, label X n = Some a -> is_H a = false) as NoH.
  { intros X [-> | ->] n a L; apply assoc_in in L; cbn in L; repeat (destruct L as [E|L]; [inversion E; reflexivity|]); destruct L. }
  split; [|split; [|split]].
  - intros s m Rd. unfold ex_read in Rd. destruct s; inversion Rd; [left|right]; split; reflexivity.
  - intros g g' Og Q. apply geq5_geq_sel in Q. destruct Og as [Og|Og]; [left|right]; eapply geq_sel_trans; eauto.
  - intros g pres Og W. destruct Og as [Og|Og]; [left; apply no_H_fold; auto; apply NoH; left; reflexivity|right; apply no_H_fold; auto; apply NoH; right; reflexivity].
  - intros g w s Og W Am Gw Wr. destruct C01_R1_nonvacuous as [HR _].
    destruct Og as [Og|Og]; [apply (HR true ex_mr g w s eq_refl W Og Am Gw Wr)|apply (HR false ex_mp g w s eq_refl W Og Am Gw Wr)].
Qed.

(** the hypotheses on the reaction are satisfiable with a non-empty preserve list: hydrogenation of ethene with mapped H2 *)
Example C01_pipeline_hydrogens_nonvacuous :
  let G := graph_of ex_hr in let H := graph_of ex_hp in
  rmol_ok ex_hr /\ rmol_ok ex_hp /\ wf G /\ wf H /\ same_nodes G H /\ orders_pos G /\ orders_pos H /\
  hlist (its_construct G H) = [3; 4] /\ (exists w, its_to_wmols (its_construct G H) = Some w) /\
  smi_graph G (hlist (its_construct G H)) = implicit_hydrogen G [3; 4].
Proof.
  cbv zeta.
  assert (rmol_ok ex_hr /\ rmol_ok ex_hp) as [O1 O2] by (split; split; cbn; repeat constructor; cbn; intuition discriminate).
  split; [exact O1|]. split; [exact O2|].
  split; [apply graph_of_wf; [exact O1|]; intros u v o I; cbn in I; repeat (destruct I as [E|I]; [inversion E; discriminate|]); destruct I|].
  split; [apply graph_of_wf; [exact O2|]; intros u v o I; cbn in I; repeat (destruct I as [E|I]; [inversion E; discriminate|]); destruct I|].
  split; [intros n; cbn; tauto|].
  split; [intros u v o I; cbn in I; repeat (destruct I as [E|I]; [inversion E; lia|]); destruct I|].
  split; [intros u v o I; cbn in I; repeat (destruct I as [E|I]; [inversion E; lia|]); destruct I|].
  split; [reflexivity|]. split; [eexists; reflexivity|reflexivity].
Qed.
