(** C19 — proofs about model/C19_Model.v (stdlib lists). *)
From Coq Require Import List NArith ZArith Bool Arith Lia.
From SK Require Import lib.Reach lib.C17_Farkas model.C17_Model model.C19_Model.
Import ListNotations.

Lemma deficiency_formula net iso r :
  let s := compute_summary net iso r in
  deficiency s = (Z.of_nat (n_complexes s) - Z.of_nat (n_linkage s) - Z.of_nat (stoich_rank s))%Z.
Proof. unfold compute_summary. destruct (complex_graph net iso) as [cs arcs]. reflexivity. Qed.
