(** C19 — proofs about model/C19_Model.v (stdlib lists). *)
From Coq Require Import List NArith ZArith Bool Arith Lia.
From SK Require Import lib.Tok lib.Reach lib.C17_Farkas model.C17_Model model.C19_Model.
Import ListNotations.

Lemma deficiency_formula net iso r :
  let s := compute_summary net iso r in
  deficiency s = (Z.of_nat (n_complexes s) - Z.of_nat (n_linkage s) - Z.of_nat (stoich_rank s))%Z.
Proof. unfold compute_summary. destruct (complex_graph net iso) as [cs arcs]. reflexivity. Qed.

(** call histories on one analyzer: the k-th answer is the answer of a fresh analysis of the k-th network *)
Lemma run19_hist_stateless steps :
  run19_hist steps = Tok.L (map (fun x => run19 (fst (fst (fst x))) (snd (fst (fst x))) (snd (fst x)) (snd x)) steps).
Proof.
  unfold run19_hist. f_equal.
  assert (G : forall st out,
    snd (fold_left (fun acc x => let st' := step19 (fst acc) x in (st', snd acc ++ [st'])) steps (st, out))
    = out ++ map (fun x => run19 (fst (fst (fst x))) (snd (fst (fst x))) (snd (fst x)) (snd x)) steps).
  { induction steps as [|x steps IH]; intros st out; simpl; [rewrite app_nil_r; reflexivity|].
    rewrite IH. rewrite <- app_assoc. reflexivity. }
  apply (G (Tok.L []) []).
Qed.

Example ex_hist : run19_hist [] = Tok.L [] /\ forall x, run19_hist [x] = Tok.L [step19 (Tok.L []) x].
Proof. split; reflexivity. Qed.

(* ------------------------------------------------------------------ the staged state machine *)

(** after any of the three routes, from ANY previous state, the object holds exactly the fresh analysis of the current network *)
Lemma route_fresh style x st : route style x st = route 0 x a_init.
Proof.
  unfold route, route_with, do_one_with, do_linkage, do_summary. simpl.
  destruct style as [|[|[|n]]]; simpl; destruct (fresh_sum x) as [[cs arcs] s]; simpl; reflexivity.
Qed.

Lemma obs_fresh_run19 x : hs_net x <> [] ->
  obs_of_state x (route 0 x a_init) = run19 (hs_net x) (hs_iso x) (hs_rc x) (hs_ccs x).
Proof.
  intros NE. unfold route, route_with, do_one_with, do_linkage, do_summary, fresh_sum, obs_of_state, run19, run19_flag. simpl.
  destruct (hs_net x) as [|e net] eqn:E; [congruence|].
  unfold compute_summary. destruct (complex_graph (e :: net) (hs_iso x)) as [cs arcs]. reflexivity.
Qed.

Lemma sm_fold steps : forall st out,
  (snd (fold_left sm_step steps (st, out))) =
  out ++ flat_map (fun sx => [run19 (hs_net (snd sx)) (hs_iso (snd sx)) (hs_rc (snd sx)) (hs_ccs (snd sx));
                              run19 (hs_net (snd sx)) (hs_iso (snd sx)) (hs_rc (snd sx)) (hs_ccs (snd sx))]) steps.
Proof.
  induction steps as [|sx steps IH]; intros st out; simpl; [rewrite app_nil_r; reflexivity|].
  unfold sm_step at 2. destruct (hs_net (snd sx)) as [|e net] eqn:E.
  - simpl. rewrite IH. rewrite <- app_assoc. reflexivity.
  - rewrite IH. rewrite <- app_assoc. f_equal. rewrite route_fresh.
    rewrite (obs_fresh_run19 (snd sx)) by (rewrite E; discriminate). rewrite E. reflexivity.
Qed.

(** a history through the state machine = fresh analyses of the step networks (each recorded twice: re-used, brand-new) *)
Lemma run19_sm_stateless steps :
  run19_sm steps = Tok.L (flat_map (fun sx => [run19 (hs_net (snd sx)) (hs_iso (snd sx)) (hs_rc (snd sx)) (hs_ccs (snd sx));
                                               run19 (hs_net (snd sx)) (hs_iso (snd sx)) (hs_rc (snd sx)) (hs_ccs (snd sx))]) steps).
Proof. unfold run19_sm. f_equal. apply (sm_fold steps a_init []). Qed.

(** BEFORE /repo 7d0fc98 (compute_summary kept the derived fields): on a re-used analyzer, route 2 after an edit reports the
    PREVIOUS network's class deficiencies next to the new deficiency.  A -> 2A -> 3A analysed, 2A -> 3A removed, route 2:
    deficiency 0 but class deficiencies [1] (fresh: [0]) — their sum exceeds the deficiency. *)
Definition lad_r1 : rxn := ([49%N], [114%N], [([65%N], 1%Z)], [([65%N], 2%Z)]).
Definition lad_r2 : rxn := ([50%N], [114%N], [([65%N], 2%Z)], [([65%N], 3%Z)]).
Definition only_r (r : nat) : rcert := RCert r [] [] [] [] 0%Z.
Definition lad_x1 : hist_step := ([lad_r1; lad_r2], [], only_r 1, [only_r 1]).
Definition lad_x2 : hist_step := ([lad_r1], [], only_r 1, [only_r 1]).
Definition lad_stale : astate := route_old 2 lad_x2 (route_old 0 lad_x1 a_init).
Definition st_deficiency (st : astate) : option Z := option_map (fun t => deficiency (snd t)) (a_sum st).

Lemma stale_summary_route_refuted :
  a_ld lad_stale = Some [1%Z] /\ st_deficiency lad_stale = Some 0%Z /\
  a_ld (route 2 lad_x2 (route 0 lad_x1 a_init)) = Some [0%Z] /\ a_ld (route 0 lad_x2 a_init) = Some [0%Z].
Proof. repeat split; vm_compute; reflexivity. Qed.
