(** C19 — proofs about model/C19_Model.v (stdlib lists). *)
From Coq Require Import List NArith ZArith Bool Arith Lia.
From SK Require Import lib.Tok lib.Reach lib.C17_Farkas model.C17_Model model.C19_Model.
Import ListNotations.

Lemma deficiency_formula net iso r :
  let s := compute_summary net iso r in
  deficiency s = (Z.of_nat (n_complexes s) - Z.of_nat (n_linkage s) - Z.of_nat (stoich_rank s))%Z.
Proof. unfold compute_summary. destruct (complex_graph net iso) as [cs arcs]. reflexivity. Qed.

(** call histories on one analyzer: the k-th answer is the answer of a fresh analysis of the k-th network *)
Lemma run19_hist_stateless steps :
  run19_hist steps = Tok.L (map (fun x => run19 (fst (fst (fst x))) (snd (fst (fst x))) (snd (fst x)) (snd x)) steps).
Proof.
  unfold run19_hist. f_equal.
  assert (G : forall st out,
    snd (fold_left (fun acc x => let st' := step19 (fst acc) x in (st', snd acc ++ [st'])) steps (st, out))
    = out ++ map (fun x => run19 (fst (fst (fst x))) (snd (fst (fst x))) (snd (fst x)) (snd x)) steps).
  { induction steps as [|x steps IH]; intros st out; simpl; [rewrite app_nil_r; reflexivity|].
    rewrite IH. rewrite <- app_assoc. reflexivity. }
  apply (G (Tok.L []) []).
Qed.

Example ex_hist : run19_hist [] = Tok.L [] /\ forall x, run19_hist [x] = Tok.L [step19 (Tok.L []) x].
Proof. split; reflexivity. Qed.
