(** C03 — when is the rule prepared in the default mode hydrogen-balanced?  Its total hydrogen change is the number of
    right-side bonds minus the number of left-side bonds between the removed hydrogens and the kept non-hydrogen atoms;
    it is 0 as soon as every removed hydrogen has as many such bonds on the right as on the left (e.g. exactly one on
    each side).  Stdlib lists only. *)
From Coq Require Import List NArith ZArith Bool Lia Permutation.
From SK Require Import lib.Tok lib.LGraph model.C03_Model proof.C03_Proof proof.C03_Glue proof.C03_Backward proof.C03_Skeleton
                       proof.C03_StripCounts proof.C03_WiringCount proof.C03_StripExact proof.C03_StripCor.
Import ListNotations.
Local Open Scope Z_scope.

Lemma countZ_cons {A} (P : A -> bool) x l : countZ P (x :: l) = (if P x then 1 else 0) + countZ P l.
Proof. unfold countZ. simpl. destruct (P x); simpl length; lia. Qed.

(** double counting *)
Lemma count_swap {A B} (P : A -> B -> bool) (K : list A) (R : list B) :
  fold_right (fun k acc => countZ (P k) R + acc) 0 K = fold_right (fun h acc => countZ (fun k => P k h) K + acc) 0 R.
Proof.
  induction K as [|k K IH]; simpl.
  - induction R as [|h R IHR]; simpl; [reflexivity|]. rewrite <- IHR. unfold countZ. simpl. lia.
  - rewrite IH. clear IH. induction R as [|h R IHR]; simpl; [unfold countZ; simpl; lia|].
    rewrite !countZ_cons, <- IHR. destruct (P k h); lia.
Qed.


Theorem default_rule_dH (tpl rc : its) (l r : molg) :
  nodupb (node_ids tpl) = true -> (forall k a, In (k, a) (gnodes tpl) -> a_el (iH a) = a_el (iG a)) ->
  simple_edgesb (gedges tpl) = true -> synrule tpl true = Some (rc, l, r) ->
  exists R K : list N,
    NoDup R /\ NoDup K /\
    (forall h, In h R <-> is_H_i tpl h = true /\ heavy_nbr (side0 iG eG tpl) h = true /\ heavy_nbr (side0 iH eH tpl) h = true) /\
    (forall k, In k K <-> In k (node_ids tpl) /\ is_H_i tpl k = false) /\
    sumZ dH rc = fold_right (fun h acc => (countZ (fun k => bonded eH tpl k h) K - countZ (fun k => bonded eG tpl k h) K) + acc) 0 R.
Proof.
  intros Hnd0 Hel Hs H. pose proof (nodupb_NoDup _ Hnd0) as Hnd.
  destruct (synrule_default_pointwise tpl rc l r Hnd0 Hel H) as (R & NR & Memb & Eids & _ & _ & Nrc & _ & Pt & _).
  set (K := filter (fun k => negb (is_H_i tpl k)) (node_ids rc)).
  exists R, K. split; [exact NR|]. split; [unfold K; apply NoDup_filter; exact Nrc|]. split; [exact Memb|]. split.
  - intros k. unfold K. rewrite filter_In, Eids, filter_In. split.
    + intros [[I _] Hk]. split; [exact I|]. apply negb_true_iff. exact Hk.
    + intros [I Hk]. split; [split; [exact I|]|rewrite Hk; reflexivity].
      destruct (mem k R) eqn:Em; [|reflexivity]. apply mem_spec in Em. apply Memb in Em. destruct Em as [Em _]. congruence.
  - (* the sum over the nodes of rc, by node id *)
    assert (S1 : sumZ dH rc = sumF (fun k => match label rc k with Some a => dH a | None => 0 end) (node_ids rc)).
    { unfold sumZ, label, node_ids. symmetry. apply sumF_ids. exact Nrc. }
    rewrite S1.
    assert (S2gen : forall ks, (forall k, In k ks -> In k (node_ids tpl) /\ ~ In k R) ->
                 sumF (fun k => match label rc k with Some a => dH a | None => 0 end) ks
                 = fold_right (fun k acc => (countZ (bonded eH tpl k) R - countZ (bonded eG tpl k) R) + acc) 0
                     (filter (fun k => negb (is_H_i tpl k)) ks)).
    { induction ks as [|k ks IH]; intros Hall; [reflexivity|]. cbn [sumF fold_right filter].
      fold (sumF (fun k0 => match label rc k0 with Some a => dH a | None => 0 end) ks). rewrite IH by (intros; apply Hall; right; assumption).
      destruct (Hall k (or_introl eq_refl)) as [Ik HnR]. unfold node_ids in Ik. apply in_map_iff in Ik. destruct Ik as ([k' a0] & E & Ia). cbn [fst] in E. subst k'.
      pose proof (assoc_nodup_in k (gnodes tpl) a0 Hnd Ia) as La. fold (label tpl k) in La.
      destruct (Pt k a0 La HnR) as (a & Lr & _ & _ & HG & HH). rewrite Lr. unfold dH. rewrite HG, HH.
      unfold is_H_i. rewrite La. destruct (N.eqb (a_el (iG a0)) EL_H); cbn [negb fold_right]; [lia|].
      rewrite !(sum_cnt_adjacent _ _ tpl R k Hs). unfold countZ, bonded. lia. }
    assert (S2 : sumF (fun k => match label rc k with Some a => dH a | None => 0 end) (node_ids rc)
                 = fold_right (fun k acc => (countZ (bonded eH tpl k) R - countZ (bonded eG tpl k) R) + acc) 0 K).
    { apply S2gen. intros k I. rewrite Eids in I. apply filter_In in I. destruct I as [I Hk]. split; [exact I|]. apply negb_true_iff in Hk.
      intros C. apply mem_spec in C. congruence. }
    rewrite S2.
    (* swap the two sums *)
    assert (Sp : forall (f g : N -> Z) (L : list N), fold_right (fun k acc => (f k - g k) + acc) 0 L
                 = fold_right (fun k acc => f k + acc) 0 L - fold_right (fun k acc => g k + acc) 0 L).
    { intros f g L. induction L as [|x L IH]; simpl; [reflexivity|]. rewrite IH. lia. }
    rewrite (Sp (fun k => countZ (bonded eH tpl k) R) (fun k => countZ (bonded eG tpl k) R) K).
    rewrite (Sp (fun h => countZ (fun k => bonded eH tpl k h) K) (fun h => countZ (fun k => bonded eG tpl k h) K) R).
    rewrite (count_swap (bonded eH tpl) K R), (count_swap (bonded eG tpl) K R). reflexivity.
Qed.


(** in particular: if every removed hydrogen has as many bonds to kept heavy atoms on the right as on the left (one and one,
    in every ordinary template), the prepared rule neither creates nor destroys hydrogens *)
Corollary default_rule_H_balanced (tpl rc : its) (l r : molg) :
  nodupb (node_ids tpl) = true -> (forall k a, In (k, a) (gnodes tpl) -> a_el (iH a) = a_el (iG a)) ->
  simple_edgesb (gedges tpl) = true -> synrule tpl true = Some (rc, l, r) ->
  exists R K : list N,
    NoDup R /\ NoDup K /\
    (forall h, In h R <-> is_H_i tpl h = true /\ heavy_nbr (side0 iG eG tpl) h = true /\ heavy_nbr (side0 iH eH tpl) h = true) /\
    (forall k, In k K <-> In k (node_ids tpl) /\ is_H_i tpl k = false) /\
    ((forall h, In h R -> countZ (fun k => bonded eH tpl k h) K = countZ (fun k => bonded eG tpl k h) K) -> sumZ dH rc = 0).
Proof.
  intros Hnd0 Hel Hs H. destruct (default_rule_dH tpl rc l r Hnd0 Hel Hs H) as (R & K & NR & NK & Memb & HK & E).
  exists R, K. split; [exact NR|]. split; [exact NK|]. split; [exact Memb|]. split; [exact HK|]. intros Hval. rewrite E. clear E Memb NR HK.
  induction R as [|h R IH]; [reflexivity|]. cbn [fold_right]. rewrite (Hval h (or_introl eq_refl)), IH by (intros; apply Hval; right; assumption). lia.
Qed.
