(** C16 (round 5) — orienting an undirected presentation of an exported bipartite graph gives the exported graph back:
    _as_bipartite (model/C16_Undirected.v) on ANY sequence of the incidences, each with its endpoints in either order,
    rebuilds exactly the DiGraph hypergraph_to_bipartite exported (roles exported); hence export -> undirected -> _as_bipartite
    -> import is the round trip of C16_bipartite_roundtrip. *)
From stdpp Require Import gmap strings sets pretty sorting.
From SK Require Import lib.Tok model.C15_Model proof.C15_Proof model.C16_Model proof.C16_Defs proof.C16_Common proof.C16_BipA proof.C16_BipB
                       model.C16_Undirected.
Local Open Scope string_scope.
Local Open Scope list_scope.

Definition flipb (b : bool) (e : nid * nid * barc) : nid * nid * barc := if b then (e.1.2, e.1.1, e.2) else e.

(** * the fold: distinct oriented keys never meet an existing arc *)
Lemma fold_orient_fresh nodes (l : list (nid * nid * barc)) : NoDup (orient_edge nodes <$> l) →
  ∀ m, (∀ e, e ∈ l → m !! orient_edge nodes e = None) →
  foldl (orient_step nodes) m l = list_to_map ((λ e, (orient_edge nodes e, e.2)) <$> l) ∪ m.
Proof.
  induction l as [|e l IH]; intros Hnd m Hm; [cbn; by rewrite (left_id_L ∅ (∪))|].
  rewrite fmap_cons in Hnd. apply NoDup_cons in Hnd as [He Hnd]. cbn [foldl fmap list_fmap list_to_map].
  unfold orient_step at 2. rewrite (Hm e) by (by left). rewrite IH; [| done |].
  - rewrite list_to_map_cons. cbn [fst snd].
    apply map_eq. intros k. rewrite !lookup_union. destruct (decide (k = orient_edge nodes e)) as [->|Hk].
    + rewrite !lookup_insert. rewrite (not_elem_of_list_to_map_1 _ (orient_edge nodes e)); [by destruct (m !! orient_edge nodes e)|].
      rewrite <-list_fmap_compose. exact He.
    + by rewrite !lookup_insert_ne by done.
  - intros e' He'. rewrite lookup_insert_ne; [apply Hm; by right|].
    intros Heq. apply He. rewrite Heq. apply elem_of_list_fmap. eauto.
Qed.

Section orient.
  Context (fl : bflags) (H : net) (G : bgraph) (Ms Rs : gmap string nid).
  Context (HS : bip_spec fl H G Ms Rs) (Hrole : f_role fl = true).

  Lemma rxn_node_is_rxn e n : Rs !! e = Some n → node_is_rxn (b_nodes G) n = true.
  Proof.
    intros He. destruct (proj1 (bs_Rdom _ _ _ _ _ HS e)) as [rx Hrx]; [eauto|].
    unfold node_is_rxn. rewrite (node_of_rxn fl H G Ms Rs HS e rx n Hrx He).
    apply orb_true_iff. left. by apply bool_decide_eq_true.
  Qed.
  Lemma sp_node_not_rxn s n : Ms !! s = Some n → node_is_rxn (b_nodes G) n = false.
  Proof.
    intros Hs. unfold node_is_rxn. rewrite (node_of_species fl H G Ms Rs HS s n Hs).
    apply orb_false_iff. split; [by apply bool_decide_eq_false|]. apply andb_false_iff. left. by apply bool_decide_eq_false.
  Qed.

  (** an incidence of the exported graph, endpoints in either order, is oriented back to its arc *)
  Lemma orient_flip b u v a : b_arcs G !! (u, v) = Some a → orient_edge (b_nodes G) (flipb b (u, v, a)) = (u, v).
  Proof.
    intros [(e & rx & s & c & Hrx & Hr & Hs & Hc & ->)|(e & rx & s & c & Hrx & Hr & Hs & Hc & ->)]%(bs_arcs _ _ _ _ _ HS).
    - (* reactant arc: species u -> reaction v *)
      destruct b; cbn [flipb fst snd]; unfold orient_edge;
        rewrite ?(rxn_node_is_rxn e v Hr), ?(sp_node_not_rxn s u Hs); unfold arc_attrs; rewrite Hrole; cbn;
        by rewrite bool_decide_eq_false_2 by done.
    - (* product arc: reaction u -> species v *)
      destruct b; cbn [flipb fst snd]; unfold orient_edge;
        rewrite ?(rxn_node_is_rxn e u Hr), ?(sp_node_not_rxn s v Hs); unfold arc_attrs; rewrite Hrole; cbn;
        by rewrite bool_decide_eq_true_2 by done.
  Qed.

  Lemma orient_presentation (bs : list bool) (L : list (nid * nid * barc)) :
    (∀ e, e ∈ L → b_arcs G !! e.1 = Some e.2) → length bs = length L →
    (λ e, (orient_edge (b_nodes G) e, e.2)) <$> zip_with flipb bs L = L.
  Proof.
    revert bs. induction L as [|[[u v] a] L IH]; intros [|b bs] HL Hlen; try done.
    cbn [zip_with fmap list_fmap]. rewrite (orient_flip b u v a) by (apply (HL (u, v, a)); by left).
    f_equal; [by destruct b|]. apply IH; [|by injection Hlen]. intros e He. apply HL. by right.
  Qed.

  (** the DiGraph comes back from ANY undirected presentation of its arcs *)
  Lemma as_bipartite_undirected_export (bs : list bool) (l : list (nid * nid * barc)) :
    length bs = length (map_to_list (b_arcs G)) → l ≡ₚ zip_with flipb bs (map_to_list (b_arcs G)) →
    as_bipartite_undirected (UGraph (b_nodes G) l) = G.
  Proof.
    intros Hlen Hperm. unfold as_bipartite_undirected. cbn [u_nodes u_edges].
    set (nodes := b_nodes G). set (L := map_to_list (b_arcs G)) in *.
    assert (foldl (orient_step nodes) ∅ l = b_arcs G) as ->; [|by destruct G].
    assert ((λ e, (orient_edge nodes e, e.2)) <$> l ≡ₚ L) as Hl.
    { rewrite Hperm. unfold nodes. rewrite (orient_presentation bs L); [done| |done].
      intros [[u v] a] He. cbn. by apply elem_of_map_to_list in He. }
    assert (((λ e, (orient_edge nodes e, e.2)) <$> l).*1 = orient_edge nodes <$> l) as Hfst by (by rewrite <-list_fmap_compose).
    assert (NoDup (orient_edge nodes <$> l)) as Hnd.
    { rewrite <-Hfst, Hl. apply NoDup_fst_map_to_list. }
    rewrite fold_orient_fresh; [|done|by intros ? _; apply lookup_empty].
    rewrite (right_id_L ∅ (∪)). rewrite (list_to_map_proper _ L); [apply list_to_map_to_list|by rewrite Hfst|done].
  Qed.
End orient.

(** export -> any undirected presentation -> _as_bipartite -> import: the round trip of C16_bipartite_roundtrip *)
Lemma undirected_roundtrip (fl : bflags) (ifl : iflags) (H : net) (bs : list bool) (l : list (nid * nid * barc)) :
  wf16 H → f_eid fl = true → f_stoich fl = true → f_role fl = true → bip_names_ok fl H →
  length bs = length (map_to_list (b_arcs (hypergraph_to_bipartite fl H))) →
  l ≡ₚ zip_with flipb bs (map_to_list (b_arcs (hypergraph_to_bipartite fl H))) →
  as_bipartite_undirected (UGraph (b_nodes (hypergraph_to_bipartite fl H)) l) = hypergraph_to_bipartite fl H ∧
  edges (bipartite_to_hypergraph ifl (as_bipartite_undirected (UGraph (b_nodes (hypergraph_to_bipartite fl H)) l))).1 = edges H.
Proof.
  intros Hwf Heid Hsto Hrole Hnames Hlen Hperm. pose proof Hwf as (_ & Hwsp & _ & _).
  destruct (export_spec fl H Hwsp Hnames) as (Ms & Rs & HS).
  pose proof (as_bipartite_undirected_export fl H _ Ms Rs HS Hrole bs l Hlen Hperm) as Heq.
  split; [exact Heq|]. rewrite Heq. by apply bipartite_roundtrip.
Qed.

(** non-vacuity: a catalyst (two incidences between S:A and R:r_1), every incidence flipped, sequence reversed *)
Definition exu_net : net :=
  mk_net [] [(None, "r", [("A", 2%Z)], [("B", 1%Z); ("A", 1%Z)]); (Some "x", "q", [("B", 1%Z)], [("C", 12%Z)])] [].
Definition exu_fl : bflags := BFlags (Some "S:") (Some "R:") 0 1 true true true false true false.
Definition exu_G : bgraph := hypergraph_to_bipartite exu_fl exu_net.
Definition exu_l : list (nid * nid * barc) := reverse (flipb true <$> map_to_list (b_arcs exu_G)).
Example ex_undirected_nonvacuous :
  length exu_l = 5%nat ∧
  tbgraph (as_bipartite_undirected (UGraph (b_nodes exu_G) exu_l)) = tbgraph exu_G ∧
  bool_decide (edges (bipartite_to_hypergraph (default_iflags true) (as_bipartite_undirected (UGraph (b_nodes exu_G) exu_l))).1 = edges exu_net) = true.
Proof. split_and!; by vm_compute. Qed.
(** without `role` every incidence is taken for a reactant: the product arcs are turned around *)
Definition exu_G_norole : bgraph := hypergraph_to_bipartite (BFlags (Some "S:") (Some "R:") 0 1 true false true false true false) exu_net.
Example ex_undirected_role_needed :
  tbgraph (as_bipartite_undirected (UGraph (b_nodes exu_G_norole) (map_to_list (b_arcs exu_G_norole)))) ≠ tbgraph exu_G_norole.
Proof. intros Hq. vm_compute in Hq. discriminate Hq. Qed.
