(** C17 — the no-SciPy fall-back verdicts never contradict the scan-level answers of the LP path, and positive scaling of the
    coefficients (fractional coefficients c / d written over their common denominator) changes neither conservativity nor consistency. *)
From Coq Require Import List ZArith Lia Bool Arith.
From SK Require Import lib.Tok lib.C17_Farkas model.C17_Model model.C17_Fallback.
Import ListNotations.
Open Scope Z_scope.

(** whenever the fall-back gives a definite answer, the SciPy path gives the same one whatever its LP answers *)
Theorem noscipy_conservative_agrees k scanL b :
  conservative_verdict_noscipy k scanL = Some b ->
  forall lpL lpR scanR, conservative_verdict k (Num scanL lpL lpR scanR) = b.
Proof.
  unfold conservative_verdict_noscipy, conservative_verdict. simpl.
  destruct (k =? 0)%nat; [intros H; inversion H; auto|].
  destruct scanL; [intros H; inversion H; auto|].
  destruct (k =? 1)%nat; [intros H; inversion H; auto|discriminate].
Qed.

(** and it is sound under the same premise as the SciPy path: a sign-definite basis column is a law / a flux *)
Theorem noscipy_verdicts_sound k kr n S scanL scanR :
  (scanL = true -> conservative n S) -> (scanR = true -> consistent n S) ->
  (conservative_verdict_noscipy k scanL = Some true -> conservative n S) /\
  (consistent_verdict_noscipy kr scanR = Some true -> consistent n S).
Proof.
  intros H1 H2. split.
  - unfold conservative_verdict_noscipy. destruct (k =? 0)%nat; [discriminate|].
    destruct scanL; [auto|]. destruct (k =? 1)%nat; discriminate.
  - unfold consistent_verdict_noscipy, consistent_verdict. simpl.
    destruct (kr =? 0)%nat; [discriminate|]. destruct scanR; [auto|discriminate].
Qed.

(* ------------------------------------------------------------------ scaling *)

Lemma dot_scale_r d u : forall v, dot u (map (Z.mul d) v) = d * dot u v.
Proof. induction u as [|x u IH]; intros [|y v]; simpl; try lia. rewrite IH. ring. Qed.

Lemma dot_scale_l d u : forall v, dot (map (Z.mul d) u) v = d * dot u v.
Proof. induction u as [|x u IH]; intros [|y v]; simpl; try lia. rewrite IH. ring. Qed.

Lemma col_mscale d j S : col j (mscale d S) = map (Z.mul d) (col j S).
Proof.
  unfold col, mscale. rewrite !map_map. apply map_ext. intros row.
  replace 0 with (d * 0) at 1 by ring. apply map_nth.
Qed.

Lemma vecmat_mscale d n y S : vecmat n y (mscale d S) = map (Z.mul d) (vecmat n y S).
Proof.
  unfold vecmat. rewrite map_map. apply map_ext. intros j. now rewrite col_mscale, dot_scale_r.
Qed.

Lemma matvec_mscale d S v : matvec (mscale d S) v = map (Z.mul d) (matvec S v).
Proof.
  unfold matvec, mscale. rewrite !map_map. apply map_ext. intros row. apply dot_scale_l.
Qed.

Lemma Forall_zero_scale d l : d <> 0 -> (Forall (fun t => t = 0) (map (Z.mul d) l) <-> Forall (fun t => t = 0) l).
Proof.
  intros Hd. rewrite Forall_map. split; intros H; eapply Forall_impl; [|exact H| |exact H]; simpl; intros a Ha; nia.
Qed.

(** a graph whose coefficients are c / d has, over the common denominator d > 0, the integer matrix d * S: conservativity and
    consistency are those of S *)
Theorem scaling_invariant d n S : 0 < d ->
  (conservative n (mscale d S) <-> conservative n S) /\ (consistent n (mscale d S) <-> consistent n S).
Proof.
  intros Hd. assert (Hd0 : d <> 0) by lia.
  assert (Hlen : length (mscale d S) = length S) by (unfold mscale; apply map_length).
  split; split; intros (w & H1 & H2 & H3); exists w.
  - rewrite Hlen in H1. rewrite vecmat_mscale in H3. apply Forall_zero_scale in H3; auto.
  - rewrite Hlen, vecmat_mscale. split; auto. split; auto. now apply Forall_zero_scale.
  - rewrite matvec_mscale in H3. apply Forall_zero_scale in H3; auto.
  - rewrite matvec_mscale. split; auto. split; auto. now apply Forall_zero_scale.
Qed.

Example noscipy_example :
  conservative_verdict_noscipy 2 false = None /\ conservative_verdict_noscipy 1 false = Some false /\
  conservative_verdict_noscipy 3 true = Some true /\ consistent_verdict_noscipy 2 false = None /\
  consistent_verdict_noscipy 0 false = Some false /\ mscale 4 [[1; -2]; [0; 3]] = [[4; -8]; [0; 12]].
Proof. vm_compute. repeat split; reflexivity. Qed.

(* ------------------------------------------------------------------ completeness direction of is_consistent, conditionally *)

(** the verdict is True as soon as the LP answered "success with a small residual" — that HiGHS does so on every feasible problem is
    the solver premise (compared per input with the certified truth, never proved) *)
Lemma consistent_verdict_lp_ok kr nm : nm_lpR nm = 0%nat -> consistent_verdict kr nm = Some true.
Proof. unfold consistent_verdict. intros ->. reflexivity. Qed.

(** None (inconclusive) is answered exactly when the LP gave no usable answer, the right kernel is non-trivial and no basis column
    is sign definite *)
Lemma consistent_verdict_none kr nm :
  consistent_verdict kr nm = None <-> (2 <= nm_lpR nm)%nat /\ kr <> 0%nat /\ nm_scanR nm = false.
Proof.
  unfold consistent_verdict. destruct (nm_lpR nm) as [|[|k]]; [split; [discriminate|lia]|split; [discriminate|lia]|].
  destruct (Nat.eqb_spec kr 0); [split; [discriminate|intros (_ & H & _); contradiction]|].
  destruct (nm_scanR nm); split; try discriminate; intros; try tauto.
  - destruct H as (_ & _ & H). discriminate.
  - repeat split; auto. lia.
Qed.
