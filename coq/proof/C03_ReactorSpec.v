(** C03 — vocabulary of the capstone statement about its_list (definitions only).
    ([call_okb], the hypothesis about the matcher's answers, is in model/C03_Reactor.v: the correspondence evaluates it.) *)
From Coq Require Import List NArith ZArith Bool Permutation.
From SK Require Import lib.Tok lib.LGraph model.C03_Model model.C03_Order model.C03_Reactor proof.C03_Spec.
Import ListNotations.
Local Open Scope Z_scope.

(** the graph the gluing of one call starts from: the substrate, or the substrate with the implicit hydrogens of some atoms
    written as explicit H atoms *)
Definition base_of (host hb : hostg) : Prop := hb = host \/ exists nodes : list N, hb = h_to_explicit host nodes.

(** the bonds _explicit_h appends are all changed bonds; as (pair, order change) keys *)
Definition new_bond_keys (h : N) (ms : list (N * N)) : list ((N * N) * Z) := map bond_key (new_edges h ms).

(** what "g is a genuine instance of rule rc on substrate host" means for one graph of its_list: it comes from gluing the
    rule along a valid match m onto a base graph hb (the substrate, possibly hydrogen-expanded), optionally followed by
    _explicit_h, and (a) its reactant side has the substrate's element counts, charge and bonds, (b) a balanced rule gives
    a balanced reaction, (c) the changed bonds of the glued graph are the m-images of the rule's changed bonds and the
    explicit stage adds only hydrogen bonds inside hydrogen-transfer groups *)
Definition instance_of (host : hostg) (rc : its) (g : its) : Prop :=
  exists (hb : hostg) (m : mapping) (T : its) (tbl : list (list N)),
    base_of host hb /\ wf_hostb hb = true /\ match_rcb hb rc m = true /\ glue hb rc m = Some T /\
    (g = T \/ exists ms, explicit_h_ord (ord_of tbl) T = Some (g, ms)) /\
    (* (a) *)
    (forall e, elem_count e (fst (its_decompose g)) = elem_count e (mol_of_host host)) /\
    total_charge (fst (its_decompose g)) = total_charge (mol_of_host host) /\
    (forall a b, In a (node_ids host) -> In b (node_ids host) -> bondG g a b = adj host a b) /\
    (* (a) atom by atom: every substrate atom is an atom of g whose reactant tuple is the substrate's up to the hydrogen count
       (element, aromaticity, charge, neighbors; the hydrogens are accounted for by the element counts above: a count may have
       become explicit H atoms) *)
    (forall n a, label host n = Some a -> exists a', label g n = Some a' /\ set_hc (iG a') 0 = set_hc a 0) /\
    (* (b) *)
    (balancedb rc = true ->
       (forall e, elem_count e (fst (its_decompose g)) = elem_count e (snd (its_decompose g))) /\
       total_charge (fst (its_decompose g)) = total_charge (snd (its_decompose g))) /\
    (* (c) atoms: a matched atom carries the rule atom's element, hydrogen change and charges; any other atom is unchanged *)
    (forall (p : N) (pn : inode) (h : N), In (p, pn) (gnodes rc) -> mget m p = Some h ->
       exists a : inode, label T h = Some a /\ a_el (iG a) = a_el (iG pn) /\ a_el (iH a) = a_el (iG pn) /\ dH a = dH pn /\
                         a_ch (iG a) = a_ch (iG pn) /\ a_ch (iH a) = a_ch (iH pn)) /\
    (forall (h : N) (a : inode), ~ In h (map snd m) -> label T h = Some a -> iH a = iG a) /\
    (* (c) bonds *)
    Permutation (changed_bonds T) (image_changed_bonds m rc) /\
    (forall ms, explicit_h_ord (ord_of tbl) T = Some (g, ms) ->
       changed_bonds g = changed_bonds T ++ new_bond_keys (N.succ (max_id T)) ms /\
       forall sd, In sd ms -> same_group T (fst sd) (snd sd) /\ 0 < dl_of T (fst sd) /\ dl_of T (snd sd) < 0).

(** the matcher's contract instead of [match_rcb]: the reactor hands the rule's LEFT graph l (after h_to_implicit when it
    keeps X-H hydrogens) to SubgraphSearchEngine, whose answers satisfy [match_okb] on that pattern (property C06).
    [left_of_rcb rc l]: l is the reactant side of rc as far as matching is concerned — same number of atoms, every rc atom
    is an l atom with the same element / charge / hydrogen count, every reactant-side bond of rc is a bond of l.
    [call_okm]: the matcher's answers for one kept mapping satisfy its contract on l (direct route: the mapping on the
    substrate; expanded route: every re-match on the well-formed hydrogen-expanded substrate). *)
Definition node_same (l : molg) (p : N * inode) : bool :=
  match label l (fst p) with
  | Some la => N.eqb (m_el la) (a_el (iG (snd p))) && Z.eqb (m_ch la) (a_ch (iG (snd p))) && Z.eqb (m_hc la) (a_hc (iG (snd p)))
  | None => false
  end.
Definition edge_same (l : molg) (e : N * N * iedge) : bool :=
  if 0 <? eG (snd e)
  then existsb (fun f : N * N * Z => peq (fst (fst f)) (snd (fst f)) (fst (fst e)) (snd (fst e)) && Z.eqb (snd f) (eG (snd e))) (gedges l)
  else true.
Definition left_of_rcb (rc : its) (l : molg) : bool :=
  (length (gnodes l) =? length (gnodes rc))%nat && forallb (node_same l) (gnodes rc) && forallb (edge_same l) (gedges rc).
Definition call_okm (host : hostg) (l : molg) (c : call) : bool :=
  if has_XH l then
    match snd c with
    | Some rs => let hb := h_to_explicit host (map snd (fst c)) in wf_hostb hb && forallb (match_okb hb l) rs
    | None => true
    end
  else match_okb host l (fst c).
(** all hypotheses of C03_its_list_instances_matcher on one reactor, as one boolean (evaluated on every scripted case) *)
Definition matcher_hyps_okb (rule : option triple) (host : hostg) (calls : list call) : bool :=
  match rule with
  | Some (rc, l, _) => wf_hostb host && wf_rcb rc && edges_closedb rc && left_of_rcb rc l && forallb (call_okm host l) calls
  | None => true
  end.
(** the part of it that concerns the prepared rule alone (evaluated on EVERY correspondence case) *)
Definition rule_link_okb (rule : option triple) : bool :=
  match rule with
  | Some (rc, l, _) => edges_closedb rc && left_of_rcb rc l
  | None => true
  end.

(** the TEMPLATE-side hypotheses of the default-mode capstones as ONE boolean of the template as written (evaluated on every
    correspondence case, by the model and — independently — by the harness): well formed, bonds join its atoms, every atom
    has the same element on both sides, and [tpl_condition] in decidable form: with R = the explicit hydrogens that have a
    non-hydrogen neighbour on both sides (the ones rule preparation strips) and K = the non-hydrogen atoms, every h in R has
    as many product-side as reactant-side bonds to K, and the atoms outside R keep the total charge *)
Definition same_elb (tpl : its) : bool := forallb (fun p : N * inode => N.eqb (a_el (iH (snd p))) (a_el (iG (snd p)))) (gnodes tpl).
Definition removedR (tpl : its) : list N :=
  filter (fun h => is_H_i tpl h && heavy_nbr (side0 iG eG tpl) h && heavy_nbr (side0 iH eH tpl) h) (node_ids tpl).
Definition keptK (tpl : its) : list N := filter (fun k => negb (is_H_i tpl k)) (node_ids tpl).
Definition tpl_condb (tpl : its) : bool :=
  forallb (fun h => Z.eqb (countZ (fun k => bonded eH tpl k h) (keptK tpl)) (countZ (fun k => bonded eG tpl k h) (keptK tpl))) (removedR tpl)
  && Z.eqb (sumL dQ (filter (keepn (removedR tpl)) (gnodes tpl))) 0.
Definition default_tpl_okb (tpl : its) : bool := wf_rcb tpl && edges_closedb tpl && same_elb tpl && tpl_condb tpl.

(** a hydrogen LEDGER of an ITS graph: one entry per migrating hydrogen, (the atoms it leaves, the atoms it joins);
    [ledger_dl lg n] = the reactant-minus-product hydrogen count the ledger gives atom n *)
Definition ledger := list (list N * list N).
Definition ledger_dl (lg : ledger) (n : N) : Z :=
  fold_right (fun h acc => occurrences n (fst h) - occurrences n (snd h) + acc) 0 lg.

