(** C09 — presentation independence and fixed point INCLUDING product atoms without reactant partner:
    they are numbered in the order of their input numbers, so the renaming must keep their relative order
    (it does for the second run of the canonicaliser on its own output: fixed point without that restriction). *)
From Coq Require Import List NArith ZArith Bool Arith Lia Permutation.
From SK Require Import lib.LGraph lib.C01_GraphLemmas model.C01_Model model.C09_Model
  proof.C09_Lists proof.C09_Canon proof.C09_Equiv proof.C09_Main proof.C09_Indep.
From SK Require model.C08_Model.
Import ListNotations.

Fixpoint nsorted (l : list N) : Prop :=
  match l with [] => True | x :: r => (forall y, In y r -> (x <= y)%N) /\ nsorted r end.
Lemma ninsert_in k l x : In x (ninsert k l) <-> x = k \/ In x l.
Proof.
  split; intros I.
  - apply (Permutation_in _ (ninsert_perm k l)) in I. destruct I; auto.
  - apply (Permutation_in _ (Permutation_sym (ninsert_perm k l))). destruct I; [left|right]; auto.
Qed.
Lemma ninsert_sorted k l : nsorted l -> nsorted (ninsert k l).
Proof.
  induction l as [|y r IH]; simpl; [intuition|]. intros [H1 H2].
  destruct (N.leb_spec k y) as [Hle|Hgt]; simpl.
  - split; [|split; auto]. intros z [<-|I]; [exact Hle|]. specialize (H1 z I). lia.
  - split; [|apply IH; exact H2]. intros z I. apply ninsert_in in I. destruct I as [->|I]; [lia|apply H1; exact I].
Qed.
Lemma nsort_sorted l : nsorted (nsort l).
Proof. induction l; simpl; [exact I|apply ninsert_sorted; assumption]. Qed.

Lemma sorted_unique l1 : forall l2, nsorted l1 -> nsorted l2 -> NoDup l1 -> NoDup l2 -> (forall x, In x l1 <-> In x l2) -> l1 = l2.
Proof.
  induction l1 as [|a l1 IH]; intros [|b l2] S1 S2 N1 N2 Hm.
  - reflexivity.
  - exfalso. apply (proj2 (Hm b)). left. reflexivity.
  - exfalso. apply (proj1 (Hm a)). left. reflexivity.
  - destruct S1 as [A1 S1]. destruct S2 as [A2 S2]. inversion N1 as [|? ? Na N1']; subst. inversion N2 as [|? ? Nb N2']; subst.
    assert (E : a = b).
    { destruct (proj1 (Hm a) (or_introl eq_refl)) as [->|Ia]; [reflexivity|].
      destruct (proj2 (Hm b) (or_introl eq_refl)) as [->|Ib]; [reflexivity|].
      specialize (A1 b Ib). specialize (A2 a Ia). lia. }
    subst b. f_equal. apply IH; auto. intros x. split; intros I.
    + destruct (proj1 (Hm x) (or_intror I)) as [->|I']; [contradiction|exact I'].
    + destruct (proj2 (Hm x) (or_intror I)) as [->|I']; [contradiction|exact I'].
Qed.

Lemma combine_map_r {X} (p : N -> N) (vals : list X) : forall E, combine vals (map p E) = map (fun q => (fst q, p (snd q))) (combine vals E).
Proof. induction vals as [|v vals IH]; intros [|e E]; simpl; auto. f_equal. apply IH. Qed.

Lemma assoc_extra_map (p : N -> N) (Pinj : forall a b, p a = p b -> a = b) first E n :
  assoc (p n) (map swap (extra_pairs first (map p E))) = assoc n (map swap (extra_pairs first E)).
Proof.
  unfold extra_pairs. rewrite map_length, combine_map_r, !map_map.
  rewrite (map_ext _ (fun q : N * N => (p (fst (swap q)), snd (swap q)))) by (intros [? ?]; reflexivity).
  rewrite <- (map_map swap (fun q : N * N => (p (fst q), snd q))). apply (assoc_map_key Pinj).
Qed.

(** the numbers given to the partner-less product atoms themselves: first, first+1, ... in list order *)
Lemma assoc_extra_nth first E : NoDup E -> forall i, (i < length E)%nat ->
  assoc (nth i E 0%N) (map swap (extra_pairs first E)) = Some (first + N.of_nat i)%N.
Proof.
  intros Hnd i Hi. apply assoc_nodup_in.
  - rewrite map_fst_swap, extra_pairs_keys. exact Hnd.
  - apply in_map_iff. exists ((first + N.of_nat i)%N, nth i E 0%N). split; [reflexivity|].
    unfold extra_pairs. set (g := fun i0 : nat => (first + N.of_nat i0)%N).
    assert (L : length (map g (seq 0 (length E))) = length E) by (rewrite map_length, seq_length; reflexivity).
    replace ((first + N.of_nat i)%N, nth i E 0%N) with (nth i (combine (map g (seq 0 (length E))) E) (0%N, 0%N)).
    + apply nth_In. rewrite combine_length, L. lia.
    + rewrite combine_nth by exact L. f_equal.
      rewrite (nth_indep _ 0%N (g 0%nat)) by (rewrite L; exact Hi).
      rewrite map_nth, seq_nth by exact Hi. reflexivity.
Qed.

Theorem presentation_independent_gen (G H G2' H2' Gc1 Gc2 : mgraph) (order1 order2 : list N) (p : N -> N) :
  parsed G -> parsed H -> (exists s, In s (node_ids G) /\ In s (node_ids H)) ->
  (forall a b, p a = p b -> a = b) -> (forall n, In n (node_ids G) \/ In n (node_ids H) -> p n <> 0%N) ->
  relabelled_by p G G2' -> relabelled_by p H H2' ->
  enumerates order1 G -> relabelled_by (sigma_of order1) G Gc1 ->
  enumerates order2 (set_amap G2') -> relabelled_by (sigma_of order2) (set_amap G2') Gc2 ->
  (forall n, In n (node_ids G) -> sigma_of order2 (p n) = sigma_of order1 n) ->
  nsorted (map p (extra_nodes H (aam_pairs Gc1 H))) ->
  exists (pairs1 pairs2 : list (N * N)) (Hc1 Hc2 : mgraph),
    canonicalise_with Gc1 H = Some (set_amap Gc1, pairs1, set_amap Hc1) /\
    canonicalise_with Gc2 (set_amap H2') = Some (set_amap Gc2, pairs2, set_amap Hc2) /\
    same_upto_order (set_amap Gc2) (set_amap Gc1) /\ same_upto_order (set_amap Hc2) (set_amap Hc1).
Proof.
  intros (WG & AG & PG) (WH & AH & PH) (s & Is1 & Is2) Pinj Ppos RG2 RH2 (O1 & I1) R1 (O2 & I2) R2 Inv Hsorted.
  assert (Hs1 : exists s, In s (node_ids G) /\ In s (node_ids H)) by (exists s; auto).
  destruct (canonicalise_with_spec G H Gc1 order1 WG WH AG AH PG PH O1 I1 R1 Hs1) as (Hc1 & E1 & RF1 & EH1 & Fs1 & _).
  assert (WG2 : wf (set_amap G2')) by (apply wf_set_amap; apply (rel_wf p Pinj G G2' WG RG2)).
  assert (WH2 : wf (set_amap H2')) by (apply wf_set_amap; apply (rel_wf p Pinj H H2' WH RH2)).
  assert (IG2 : forall x, In x (node_ids (set_amap G2')) <-> In x (map p (node_ids G))).
  { intros x. rewrite node_ids_set_amap. apply (rel_node_ids p G G2' RG2). }
  assert (IH2 : forall x, In x (node_ids (set_amap H2')) <-> In x (map p (node_ids H))).
  { intros x. rewrite node_ids_set_amap. apply (rel_node_ids p H H2' RH2). }
  assert (PG2 : pos_ids (set_amap G2')).
  { intros n I. apply IG2 in I. apply in_map_iff in I. destruct I as (m & <- & Im). apply Ppos. auto. }
  assert (PH2 : pos_ids (set_amap H2')).
  { intros n I. apply IH2 in I. apply in_map_iff in I. destruct I as (m & <- & Im). apply Ppos. auto. }
  assert (Hs2 : exists s, In s (node_ids (set_amap G2')) /\ In s (node_ids (set_amap H2'))).
  { exists (p s). split; [apply IG2|apply IH2]; apply in_map; assumption. }
  destruct (canonicalise_with_spec (set_amap G2') (set_amap H2') Gc2 order2 WG2 WH2 (amap_id_set_amap G2') (amap_id_set_amap H2')
              PG2 PH2 O2 I2 R2 Hs2) as (Hc2 & E2 & RF2 & EH2 & Fs2 & _).
  set (E1x := extra_nodes H (aam_pairs Gc1 H)) in *.
  set (E2x := extra_nodes (set_amap H2') (aam_pairs Gc2 (set_amap H2'))).
  (* the partner-less atoms of the second presentation are the images of those of the first, in the same order *)
  assert (K : E2x = map p E1x).
  { apply sorted_unique.
    - unfold E2x, extra_nodes. apply nsort_sorted.
    - exact Hsorted.
    - unfold E2x. apply extras_nodup. exact WH2.
    - apply FinFun.Injective_map_NoDup; [exact Pinj|]. unfold E1x. apply extras_nodup. exact WH.
    - intros x. unfold E2x. rewrite (extras_in (set_amap G2') (set_amap H2') Gc2 order2 WG2 WH2 (amap_id_set_amap G2') (amap_id_set_amap H2') PG2 PH2 R2).
      rewrite IG2, IH2, !in_map_iff. split.
      + intros ((n & <- & In1) & Hn). exists n. split; [reflexivity|]. unfold E1x.
        apply (extras_in G H Gc1 order1 WG WH AG AH PG PH R1). split; [exact In1|]. intros IG. apply Hn. exists n. auto.
      + intros (n & <- & In1). unfold E1x in In1. apply (extras_in G H Gc1 order1 WG WH AG AH PG PH R1) in In1. destruct In1 as (In1 & Hn).
        split; [exists n; auto|]. intros (m & Em & Im). apply Pinj in Em. subst m. contradiction. }
  assert (Len : length order2 = length order1).
  { assert (P1 : Permutation order1 (node_ids G)) by (apply NoDup_Permutation; auto; destruct WG as (A & _); exact A).
    assert (P2 : Permutation order2 (map p (node_ids G))).
    { apply NoDup_Permutation; auto.
      - apply FinFun.Injective_map_NoDup; [exact Pinj|destruct WG as (A & _); exact A].
      - intros x. rewrite I2. apply IG2. }
    rewrite (Permutation_length P1), (Permutation_length P2), map_length. reflexivity. }
  set (f1 := C09_Canon.f H Gc1 order1) in *. set (f2 := C09_Canon.f (set_amap H2') Gc2 order2) in *.
  assert (HfG : forall n, In n (node_ids G) -> f2 (p n) = f1 n).
  { intros n I. rewrite Fs2.
    - rewrite Inv by exact I. symmetry. apply Fs1. apply I1. exact I.
    - apply I2. apply IG2. apply in_map. exact I. }
  assert (HfH : forall n, In n (node_ids H) -> f2 (p n) = f1 n).
  { intros n I. destruct (in_dec N.eq_dec n (node_ids G)) as [IG|NG]; [apply HfG; exact IG|].
    unfold f1, f2, C09_Canon.f. fold E1x E2x. rewrite K. unfold tau, tau_list. rewrite !assoc_app.
    assert (N1 : assoc n (C08_Model.mapping_of order1) = None).
    { apply assoc_none. rewrite mapping_of_keys. intros J. apply I1 in J. contradiction. }
    assert (N2 : assoc (p n) (C08_Model.mapping_of order2) = None).
    { apply assoc_none. rewrite mapping_of_keys. intros J. apply I2 in J. apply IG2 in J. apply in_map_iff in J.
      destruct J as (m & Em & Im). apply Pinj in Em. subst m. contradiction. }
    rewrite N1, N2, Len, (assoc_extra_map p Pinj).
    destruct (assoc_is_some n (map swap (extra_pairs (N.of_nat (length order1) + 1) E1x))) as (v & ->); [|reflexivity].
    rewrite map_fst_swap, extra_pairs_keys. unfold E1x. apply (extras_in G H Gc1 order1 WG WH AG AH PG PH R1). auto. }
  exists (aam_pairs Gc1 H), (aam_pairs Gc2 (set_amap H2')), Hc1, Hc2.
  split; [exact E1|]. split; [exact E2|]. split.
  - eapply suo_trans; [apply (chain f1 f2 p G G2' Gc2 WG RG2 RF2 HfG)|]. apply suo_sym. apply suo_set_amap. exact RF1.
  - rewrite EH1. apply (chain f1 f2 p H H2' Hc2 WH RH2); [rewrite EH2; apply relabelled_exact|exact HfH].
Qed.

Lemma nsorted_map (p : N -> N) l : nsorted l -> (forall m n, In m l -> In n l -> (m <= n)%N -> (p m <= p n)%N) -> nsorted (map p l).
Proof.
  induction l as [|x r IH]; simpl; [auto|]. intros [H1 H2] Hm. split.
  - intros y I. apply in_map_iff in I. destruct I as (z & <- & Iz). apply Hm; auto.
  - apply IH; auto.
Qed.

(** numbering independence with partner-less product atoms: the renaming must keep their relative order *)
Theorem presentation_independent_mono (G H G2' H2' Gc1 Gc2 : mgraph) (order1 order2 : list N) (p : N -> N) :
  parsed G -> parsed H -> (exists s, In s (node_ids G) /\ In s (node_ids H)) ->
  (forall a b, p a = p b -> a = b) -> (forall n, In n (node_ids G) \/ In n (node_ids H) -> p n <> 0%N) ->
  (forall m n, In m (node_ids H) -> ~ In m (node_ids G) -> In n (node_ids H) -> ~ In n (node_ids G) -> (m <= n)%N -> (p m <= p n)%N) ->
  relabelled_by p G G2' -> relabelled_by p H H2' ->
  enumerates order1 G -> relabelled_by (sigma_of order1) G Gc1 ->
  enumerates order2 (set_amap G2') -> relabelled_by (sigma_of order2) (set_amap G2') Gc2 ->
  (forall n, In n (node_ids G) -> sigma_of order2 (p n) = sigma_of order1 n) ->
  exists (pairs1 pairs2 : list (N * N)) (Hc1 Hc2 : mgraph),
    canonicalise_with Gc1 H = Some (set_amap Gc1, pairs1, set_amap Hc1) /\
    canonicalise_with Gc2 (set_amap H2') = Some (set_amap Gc2, pairs2, set_amap Hc2) /\
    same_upto_order (set_amap Gc2) (set_amap Gc1) /\ same_upto_order (set_amap Hc2) (set_amap Hc1).
Proof.
  intros PG PH Hs Pinj Ppos Pmono RG2 RH2 En1 R1 En2 R2 Inv.
  apply (presentation_independent_gen G H G2' H2' Gc1 Gc2 order1 order2 p); auto.
  pose proof PG as (WG & AG & PG'). pose proof PH as (WH & AH & PH').
  apply nsorted_map; [unfold extra_nodes; apply nsort_sorted|].
  intros m n Im In'. apply (extras_in G H Gc1 order1 WG WH AG AH PG' PH' R1) in Im. apply (extras_in G H Gc1 order1 WG WH AG AH PG' PH' R1) in In'.
  destruct Im, In'. apply Pmono; auto.
Qed.

Lemma nsorted_map_seq (g : nat -> N) : (forall i j, (i <= j)%nat -> (g i <= g j)%N) -> forall k a, nsorted (map g (seq a k)).
Proof.
  intros Hg. induction k as [|k IH]; intros a; simpl; [exact I|]. split; [|apply IH].
  intros y Iy. apply in_map_iff in Iy. destruct Iy as (j & <- & Ij). apply in_seq in Ij. apply Hg. lia.
Qed.

(** fixed point, product atoms without partner included: their numbers N+1.. are already in increasing order *)
Theorem fixed_point_gen (G H Gc1 : mgraph) (order1 : list N) :
  parsed G -> parsed H -> (exists s, In s (node_ids G) /\ In s (node_ids H)) ->
  enumerates order1 G -> relabelled_by (sigma_of order1) G Gc1 ->
  exists (pairs1 : list (N * N)) (Gc1' Hc1' : mgraph),
    canonicalise_with Gc1 H = Some (Gc1', pairs1, Hc1') /\
    forall (order2 : list N) (Gc2 : mgraph),
      enumerates order2 Gc1' -> relabelled_by (sigma_of order2) Gc1' Gc2 ->
      (forall m, In m (node_ids Gc1') -> sigma_of order2 m = m) ->
      exists (pairs2 : list (N * N)) (Hc2' : mgraph),
        canonicalise_with Gc2 Hc1' = Some (set_amap Gc2, pairs2, Hc2') /\
        same_upto_order (set_amap Gc2) Gc1' /\ same_upto_order Hc2' Hc1'.
Proof.
  intros PG PH Hs En1 R1.
  pose proof PG as (WG & AG & PG'). pose proof PH as (WH & AH & PH'). pose proof En1 as (O1 & I1).
  destruct (canonicalise_with_spec G H Gc1 order1 WG WH AG AH PG' PH' O1 I1 R1 Hs) as (Hc1 & E1 & RF1 & EH1 & Fs1 & _).
  set (f1 := C09_Canon.f H Gc1 order1) in *.
  exists (aam_pairs Gc1 H), (set_amap Gc1), (set_amap Hc1). split; [exact E1|].
  intros order2 Gc2 En2 R2 Hid.
  assert (Inv : forall n, In n (node_ids G) -> sigma_of order2 (f1 n) = sigma_of order1 n).
  { intros n I. rewrite Hid; [apply Fs1; apply I1; exact I|].
    rewrite node_ids_set_amap. apply (rel_node_ids f1 G Gc1 RF1). apply in_map. exact I. }
  set (E := extra_nodes H (aam_pairs Gc1 H)).
  assert (End : NoDup E) by (apply extras_nodup; exact WH).
  assert (Hsorted : nsorted (map f1 E)).
  { set (g := fun i : nat => (N.of_nat (length order1) + 1 + N.of_nat i)%N).
    assert (Em : map f1 E = map g (seq 0 (length E))).
    { apply (nth_ext _ _ 0%N 0%N); [rewrite !map_length, seq_length; reflexivity|].
      intros i Hi. rewrite map_length in Hi.
      rewrite (nth_indep (map f1 E) 0%N (f1 0%N)) by (rewrite map_length; exact Hi). rewrite map_nth.
      rewrite (nth_indep (map g _) 0%N (g 0%nat)) by (rewrite map_length, seq_length; exact Hi). rewrite map_nth, seq_nth by exact Hi.
      unfold f1, C09_Canon.f. fold E. unfold tau, tau_list. rewrite assoc_app.
      assert (N1 : assoc (nth i E 0%N) (C08_Model.mapping_of order1) = None).
      { apply assoc_none. rewrite mapping_of_keys. intros J. apply I1 in J.
        assert (IE : In (nth i E 0%N) E) by (apply nth_In; exact Hi).
        unfold E in IE. apply (extras_in G H Gc1 order1 WG WH AG AH PG' PH' R1) in IE. tauto. }
      rewrite N1, (assoc_extra_nth _ E End i Hi). reflexivity. }
    rewrite Em. apply nsorted_map_seq. intros i j Hij. unfold g. lia. }
  destruct (presentation_independent_gen G H Gc1 (relabel f1 H) Gc1 Gc2 order1 order2 f1 PG PH Hs
              (fun a b => tau_injective _ _ a b) (fun n _ => tau_pos _ _ n) RF1 (relabelled_exact f1 H) En1 R1 En2 R2 Inv Hsorted)
    as (pairs1 & pairs2 & Hc1' & Hc2 & E1' & E2 & S1 & S2).
  rewrite E1 in E1'. subst Hc1.
  assert (Ec : set_amap (relabel f1 H) = set_amap Hc1') by congruence.
  exists pairs2, (set_amap Hc2). split; [exact E2|]. split; [exact S1|]. rewrite Ec. exact S2.
Qed.

(** non-vacuity: the reaction with a released proton (partner-less product atom) *)
Example ex_fixed_point_gen_hyps :
  parsed ex_G /\ parsed ex_H3 /\ (exists s, In s (node_ids ex_G) /\ In s (node_ids ex_H3)) /\ enumerates ex_order ex_G /\
  ~ (forall n, In n (node_ids ex_H3) -> In n (node_ids ex_G)).
Proof.
  split; [exact ex_G_parsed|]. split; [exact ex_H3_parsed|]. split; [exists 1%N; simpl; auto|]. split; [exact ex_order_enumerates|].
  intros Hsub. specialize (Hsub 3%N). simpl in Hsub. intuition discriminate.
Qed.

(* ------------------------------------------------------------------ the order premise on partner-less product atoms is necessary *)
(** CH3Br + OH- >> CH3OH + Br- + [Na+:8] + [K+:9]: two product atoms without reactant partner.  Exchanging their
    numbers (a renumbering that fixes every reactant atom) exchanges their canonical numbers 4 and 5. *)
Definition ex_H2 : mgraph :=
  LG [(1%N, GN 70%N false 3 0 None 1); (7%N, GN 82%N false 1 0 None 7); (2%N, GN 17013%N false 0 (-1) None 2);
      (8%N, GN 20068%N false 0 1 None 8); (9%N, GN 78%N false 0 1 None 9)] [(1%N, 7%N, 2%Z)].
Definition ex_p89 : N -> N := transp 8 9.
Definition ex_out1 := canonicalise_with (canon_rebuild ex_order ex_G) ex_H2.
Definition ex_out2 := canonicalise_with (canon_rebuild ex_order ex_G) (set_amap (relabel ex_p89 ex_H2)).
Definition label_in (r : option (mgraph * list (N * N) * mgraph)) (n : N) : option N :=
  match r with Some (_, _, Hc) => option_map g_el (label Hc n) | None => None end.
Theorem partnerless_order_refuted :
  exists (G H : mgraph) (order : list N) (p : N -> N),
    parsed G /\ enumerates order G /\ (forall a b, p a = p b -> a = b) /\ (forall n, In n (node_ids G) -> p n = n) /\
    exists Gc1 pr1 Hc1 Gc2 pr2 Hc2,
      canonicalise_with (canon_rebuild order G) H = Some (Gc1, pr1, Hc1) /\
      canonicalise_with (canon_rebuild order G) (set_amap (relabel p H)) = Some (Gc2, pr2, Hc2) /\
      option_map g_el (label Hc1 4%N) <> option_map g_el (label Hc2 4%N).
Proof.
  exists ex_G, ex_H2, ex_order, ex_p89.
  split; [exact ex_G_parsed|]. split; [exact ex_order_enumerates|].
  split.
  { intros a b. unfold ex_p89, transp.
    destruct (N.eqb_spec a 8), (N.eqb_spec a 9), (N.eqb_spec b 8), (N.eqb_spec b 9); lia. }
  split; [intros n I; simpl in I; destruct I as [<-|[<-|[<-|[]]]]; reflexivity|].
  destruct ex_out1 as [[[Gc1 pr1] Hc1]|] eqn:E1; [|vm_compute in E1; discriminate].
  destruct ex_out2 as [[[Gc2 pr2] Hc2]|] eqn:E2; [|vm_compute in E2; discriminate].
  exists Gc1, pr1, Hc1, Gc2, pr2, Hc2.
  split; [exact E1|]. split; [exact E2|].
  vm_compute in E1. vm_compute in E2. inversion E1; subst. inversion E2; subst. vm_compute. discriminate.
Qed.
