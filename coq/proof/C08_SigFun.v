(** C08 — the signature is a function of the graph as a mathematical object: the serialisation depends only on
    the covered view (serialise_geq_cov); generic and wl/morgan canonical graphs of two presentations of the
    same graph are the same covered graph, hence the same serialisation / digest. *)
From Coq Require Import String List NArith ZArith Bool Arith Lia Permutation.
From SK Require Import lib.LGraph lib.IRSortKeys lib.IRCore lib.StrJoin.
From SK Require Import model.C08_Model proof.C08_Spec proof.C08_Sort proof.C08_Faithful proof.C08_Cov.
From SK Require lib.IRInst.
Import ListNotations.
Open Scope string_scope. Open Scope list_scope. Open Scope nat_scope.

(* ---------------- the serialisation factors through the covered view ---------------- *)
Definition NK (c : N * (list N * Z * bool * Z)) : list Z :=
  let '(n, (e, c0, a, h)) := c in enc_str e ++ [c0; b2z a; h] ++ [Z.of_N n].
Definition NI (c : N * (list N * Z * bool * Z)) : str :=
  let '(n, (e, c0, a, h)) := c in
  decN n ++ lit ":" ++ lit "(" ++ pyrepr e ++ sep2 ++ decZ c0 ++ sep2 ++ pybool a ++ sep2 ++ decZ h ++ lit ")".
Definition sd0 (s : option Z) : Z := match s with Some s => s | None => 0%Z end.
Definition EK (c : N * N * ecv) : list Z :=
  let '(u, v, (o, t, s)) := c in [Z.of_N u; Z.of_N v; o; sd0 s].
Definition OS (o : Z) (t : option Z) : str :=
  match t with None => fl o | Some b => lit "(" ++ fl o ++ sep2 ++ fl b ++ lit ")" end.
Definition EI (c : N * N * ecv) : str :=
  let '(u, v, (o, t, s)) := c in
  let pr := lit "(" ++ decN u ++ sep2 ++ decN v ++ lit ")" in
  pr ++ lit ":" ++ lit "(" ++ pr ++ sep2 ++ OS o t ++ sep2 ++ (match s with Some s => fl s | None => lit "0" end) ++ lit ")".

Lemma nkey_id_cov p : nkey_id p = NK (covn p).
Proof. destruct p as [n [e a c h m]]. unfold nkey_id, nkey, NK, covn, ncov. simpl. rewrite <- app_assoc. reflexivity. Qed.
Lemma node_item_cov p : node_item p = NI (covn p).
Proof. destruct p as [n [e a c h m]]. reflexivity. Qed.
Lemma minmax_idem u v : N.min (N.min u v) (N.max u v) = N.min u v /\ N.max (N.min u v) (N.max u v) = N.max u v.
Proof. lia. Qed.
Lemma ekey_cov e : ekey e = EK (cove e).
Proof. destruct e as [[u v] [o s t]]. reflexivity. Qed.
Lemma edge_item_cov e : edge_item e = EI (cove e).
Proof. destruct e as [[u v] [o s t]]. reflexivity. Qed.

Lemma sort_by_ext {A} (k1 k2 : A -> list Z) l : (forall x, k1 x = k2 x) -> sort_by k1 l = sort_by k2 l.
Proof.
  intros H. induction l as [|x l IH]; simpl; auto. rewrite IH.
  generalize (sort_by k2 l). intros r. induction r as [|y r IHr]; simpl; auto.
  rewrite !H, IHr. reflexivity.
Qed.

Lemma map_cov_sort_nodes (l : list (N * nattr)) : map covn (sort_by nkey_id l) = sort_by NK (map covn l).
Proof. rewrite sort_by_map. f_equal. apply sort_by_ext. intros; apply nkey_id_cov. Qed.
Lemma map_cov_sort_edges (l : list (N * N * eattr)) : map cove (sort_by ekey l) = sort_by EK (map cove l).
Proof. rewrite sort_by_map. f_equal. apply sort_by_ext. intros; apply ekey_cov. Qed.

Lemma serialise_cov g :
  serialise g = lit "N[" ++ join 59%N (map NI (sort_by NK (cov_nodes g))) ++ lit "]|E["
                ++ join 59%N (map EI (sort_by EK (cov_edges g))) ++ lit "]".
Proof.
  unfold serialise, ser_nodes, ser_edges, cov_nodes, cov_edges.
  rewrite <- map_cov_sort_nodes, <- map_cov_sort_edges, !map_map.
  rewrite (map_ext node_item (fun x => NI (covn x))) by (intros; apply node_item_cov).
  rewrite (map_ext edge_item (fun x => EI (cove x))) by (intros; apply edge_item_cov).
  reflexivity.
Qed.

Lemma NK_inj_ids l : NoDup (map fst l) -> forall x y, In x l -> In y l -> NK x = NK y -> x = y.
Proof.
  intros Hnd [n [[[e c] a] h]] [n' [[[e' c'] a'] h']] Hx Hy E. unfold NK in E.
  rewrite !app_assoc in E. apply app_inj_tail in E. destruct E as [_ E]. apply N2Z.inj in E. subst n'.
  clear -Hnd Hx Hy. induction l as [|[k v] l IH]; [contradiction|].
  simpl in Hnd. inversion Hnd as [|? ? Hk Hnd']; subst.
  destruct Hx as [Hx|Hx], Hy as [Hy|Hy].
  - congruence.
  - exfalso. apply Hk. inversion Hx; subst. change n with (fst (n, (e', c', a', h'))). apply in_map. auto.
  - exfalso. apply Hk. inversion Hy; subst. change n with (fst (n, (e, c, a, h))). apply in_map. auto.
  - auto.
Qed.

Lemma EK_inj_simple g : simple g -> forall x y, In x (cov_edges g) -> In y (cov_edges g) -> EK x = EK y -> x = y.
Proof.
  intros Hs [[u v] [[o t] s]] [[u' v'] [[o' t'] s']] Hx Hy E. apply (simple_keys g Hs); auto.
  unfold EK in E. inversion E. simpl. f_equal; apply N2Z.inj; auto.
Qed.

Theorem serialise_geq_cov g h : simple g -> geq_cov g h -> serialise g = serialise h.
Proof.
  intros Hs [H1 H2]. rewrite !serialise_cov.
  rewrite (sort_by_perm_eq NK _ _ H1).
  - rewrite (sort_by_perm_eq EK _ _ H2); [reflexivity|]. apply EK_inj_simple. exact Hs.
  - apply NK_inj_ids. rewrite <- node_ids_cov. apply Hs.
Qed.

(* ---------------- generic ---------------- *)
Lemma generic_order_cov g : map fst (sort_by nkey_id (gnodes g)) = map fst (sort_by NK (cov_nodes g)).
Proof.
  unfold cov_nodes. rewrite <- map_cov_sort_nodes, map_map. reflexivity.
Qed.
Lemma generic_order_eq g h : NoDup (node_ids g) -> geq_cov g h ->
  map fst (sort_by nkey_id (gnodes g)) = map fst (sort_by nkey_id (gnodes h)).
Proof.
  intros Hnd [H1 _]. rewrite !generic_order_cov. f_equal. apply sort_by_perm_eq; auto.
  apply NK_inj_ids. rewrite <- node_ids_cov. exact Hnd.
Qed.

(* any two graphs rebuilt in the same node order from the same covered graph *)
Lemma rebuild_same_order g h order : wf g -> wf h -> geq_cov g h -> Permutation order (node_ids g) ->
  serialise (rebuild g order) = serialise (rebuild h order).
Proof.
  intros Hg Hh Hq Hp.
  assert (Hp' : Permutation order (node_ids h)) by (eapply perm_trans; [exact Hp|apply geq_cov_ids; auto]).
  destruct (rebuild_geq_cov g order (proj1 Hg) Hp) as [Hi Hr].
  destruct (rebuild_geq_cov h order (proj1 Hh) Hp') as [Hi' Hr'].
  apply serialise_geq_cov.
  - eapply simple_geq_cov; [apply geq_cov_sym; exact Hr|]. apply simple_relabel; auto.
  - eapply geq_cov_trans; [exact Hr|]. eapply geq_cov_trans; [apply relabel_geq_cov; exact Hq|]. apply geq_cov_sym. exact Hr'.
Qed.

Theorem sig_function_generic g h : wf g -> wf h -> geq_cov g h -> ser_generic g = ser_generic h.
Proof.
  intros Hg Hh Hq. unfold ser_generic, canon_generic.
  rewrite <- (generic_order_eq g h (proj1 Hg) Hq).
  apply rebuild_same_order; auto. apply generic_order_perm.
Qed.

(* ---------------- wl / morgan: for any ranking, the same for both presentations ---------------- *)
Definition incc (v : N) (c : N * N * ecv) : list (N * ecv) :=
  let '(a, b, x) := c in (if N.eqb a v then [(b, x)] else []) ++ (if N.eqb b v then [(a, x)] else []).
Definition inc1 (v : N) (e : N * N * eattr) : list (N * eattr) :=
  let '(a, b, x) := e in (if N.eqb a v then [(b, x)] else []) ++ (if N.eqb b v then [(a, x)] else []).
Definition ce (p : N * eattr) : N * ecv := (fst p, ecov (snd p)).

Lemma inc_flat g v : inc g v = flat_map (inc1 v) (gedges g).
Proof. unfold inc. apply flat_map_ext. intros [[a b] x]. reflexivity. Qed.

Lemma inc1_cov v e : Permutation (map ce (inc1 v e)) (incc v (cove e)).
Proof.
  destruct e as [[a b] x]. unfold inc1, incc, cove.
  destruct (N.le_ge_cases a b) as [H|H].
  - rewrite (N.min_l a b), (N.max_r a b) by lia. rewrite map_app.
    destruct (N.eqb a v), (N.eqb b v); apply Permutation_refl.
  - rewrite (N.min_r a b), (N.max_l a b) by lia. rewrite map_app.
    destruct (N.eqb a v), (N.eqb b v); simpl; try apply Permutation_refl. apply perm_swap.
Qed.

Lemma inc_cov g v : Permutation (map ce (inc g v)) (flat_map (incc v) (cov_edges g)).
Proof.
  rewrite inc_flat. unfold cov_edges. rewrite flat_map_map, map_flat_map.
  apply flat_map_perm_pointwise. intros e _. apply inc1_cov.
Qed.

Lemma inc_geq_cov g h v : geq_cov g h -> Permutation (map ce (inc g v)) (map ce (inc h v)).
Proof.
  intros [_ H]. eapply perm_trans; [apply inc_cov|]. eapply perm_trans; [|apply Permutation_sym, inc_cov].
  apply Permutation_flat_map. exact H.
Qed.

Lemma degree_geq_cov g h v : geq_cov g h -> degree g v = degree h v.
Proof.
  intros H. unfold degree. f_equal. pose proof (Permutation_length (inc_geq_cov g h v H)) as E.
  rewrite !map_length in E. exact E.
Qed.

Theorem sig_function_rank ranks g h : wf g -> wf h -> geq_cov g h -> ser_rank ranks g = ser_rank ranks h.
Proof.
  intros Hg Hh Hq. unfold ser_rank, canon_rank.
  assert (E : sort_by (fun v => [rank_of ranks v; degree h v; Z.of_N v]) (node_ids h)
            = sort_by (fun v => [rank_of ranks v; degree g v; Z.of_N v]) (node_ids g)).
  { rewrite (sort_by_ext _ (fun v => [rank_of ranks v; degree g v; Z.of_N v]))
      by (intros v; rewrite (degree_geq_cov g h v Hq); reflexivity).
    symmetry. apply sort_by_perm_eq; [apply geq_cov_ids; auto|].
    intros x y _ _ E. inversion E. apply N2Z.inj. auto. }
  rewrite E. apply rebuild_same_order; auto. apply sort_by_perm.
Qed.

(* non-vacuity: two presentations of one graph (other insertion order, flipped edge, other atom maps) *)
Definition sf_g : graph :=
  LG [(7%N, NA [67%N] false 0 0 (Some 1%Z)); (3%N, NA [79%N] false 0 1 None); (5%N, NA [67%N] false 0 0 None)]
     [(7%N, 3%N, EA 2 None); (5%N, 3%N, EA 4 None)].
Definition sf_h : graph :=
  LG [(5%N, NA [67%N] false 0 0 (Some 9%Z)); (7%N, NA [67%N] false 0 0 None); (3%N, NA [79%N] false 0 1 None)]
     [(3%N, 5%N, EA 4 None); (3%N, 7%N, EA 2 None)].
Example sf_ex : ser_generic sf_g = ser_generic sf_h /\ gnodes sf_g <> gnodes sf_h.
Proof. split; [vm_compute; reflexivity|discriminate]. Qed.

(* the signature is the digest of the serialisation: whatever the digest function *)
Theorem signature_function_generic (D : Type) (digest : str -> D) g h : wf g -> wf h -> geq_cov g h ->
  digest (serialise (canon_generic g)) = digest (serialise (canon_generic h)).
Proof. intros. f_equal. apply sig_function_generic; auto. Qed.
Theorem signature_function_rank (D : Type) (digest : str -> D) ranks g h : wf g -> wf h -> geq_cov g h ->
  digest (serialise (canon_rank ranks g)) = digest (serialise (canon_rank ranks h)).
Proof. intros. f_equal. apply sig_function_rank; auto. Qed.
Example sf_ex_premises : wf sf_g /\ wf sf_h /\ geq_cov sf_g sf_h.
Proof.
  split; [|split].
  - split; [repeat constructor; simpl; intuition discriminate|]. split.
    + intros a b x [E|[E|[]]]; inversion E; subst; simpl; intuition discriminate.
    + intros l1 a b x l2 E. destruct l1 as [|e1 [|e2 [|e3 l1]]]; simpl in E; inversion E; subst; simpl; auto.
  - split; [repeat constructor; simpl; intuition discriminate|]. split.
    + intros a b x [E|[E|[]]]; inversion E; subst; simpl; intuition discriminate.
    + intros l1 a b x l2 E. destruct l1 as [|e1 [|e2 [|e3 l1]]]; simpl in E; inversion E; subst; simpl; auto.
  - split; vm_compute.
    + eapply perm_trans; [apply perm_skip; apply perm_swap|apply perm_swap].
    + apply perm_swap.
Qed.

Print Assumptions serialise_geq_cov.
Print Assumptions sig_function_generic.
Print Assumptions sig_function_rank.
