(** C11 — the property theorems in the shape stated in props/C11.v, the computable well-formedness test,
    the orbit-list form of the WL statement, and the non-vacuity examples.  Stdlib lists. *)
From Coq Require Import List NArith ZArith Bool Arith Lia Permutation.
From SK Require Import lib.LGraph lib.Mono lib.Reach model.C11_Model proof.C11_Aut proof.C11_WL proof.C11_Dedup.
Import ListNotations.

(** ---------- [wfb] decides the premise ---------- *)
Lemma nodupb_spec l : nodupb l = true -> NoDup l.
Proof.
  induction l as [|x r IH]; simpl; [constructor|].
  rewrite andb_true_iff, negb_true_iff. intros [H1 H2]. constructor; [|auto].
  intros Hin. apply LGraph.mem_spec in Hin. congruence.
Qed.

Lemma uniq_edges_spec es : uniq_edges es = true ->
  forall l1 a b x l2, es = l1 ++ (a, b, x) :: l2 -> find_edge a b l1 = None /\ find_edge a b l2 = None.
Proof.
  intros H l1. revert es H. induction l1 as [|[[a' b'] x'] l1 IH]; intros es H a b x l2 E; subst es; simpl in H.
  - destruct (find_edge a b l2) eqn:F; [discriminate|]. auto.
  - destruct (find_edge a' b' (l1 ++ (a, b, x) :: l2)) eqn:F; [discriminate|].
    destruct (IH _ H a b x l2 eq_refl) as [H1 H2]. split; [|exact H2].
    simpl. destruct ((N.eqb a' a && N.eqb b' b) || (N.eqb a' b && N.eqb b' a)) eqn:T; [|exact H1].
    exfalso.
    assert (Hin : In (a, b, x) (l1 ++ (a, b, x) :: l2)) by (apply in_or_app; right; left; reflexivity).
    apply orb_true_iff in T. destruct T as [T|T]; apply andb_true_iff in T; destruct T as [T1 T2];
      apply N.eqb_eq in T1; apply N.eqb_eq in T2; subst.
    + exact (find_edge_in _ _ _ _ Hin F).
    + rewrite find_edge_sym in F. exact (find_edge_in _ _ _ _ Hin F).
Qed.

Lemma wfb_wf g : wfb g = true -> wf g.
Proof.
  unfold wfb. rewrite !andb_true_iff. intros [[H1 H2] H3]. split; [|split].
  - apply nodupb_spec. exact H1.
  - intros a b x Hin. rewrite forallb_forall in H2. specialize (H2 _ Hin). simpl in H2.
    rewrite !andb_true_iff, negb_true_iff in H2. destruct H2 as [[Ha Hb] Hn].
    apply LGraph.mem_spec in Ha. apply LGraph.mem_spec in Hb. apply N.eqb_neq in Hn. auto.
  - apply uniq_edges_spec. exact H3.
Qed.

(** ---------- clause 1: the count ---------- *)
Lemma aut_count_all (fn : nlab -> N) (fe : elab -> N) (g : graph) : simple_graph g ->
  NoDup (auts fn fe g) /\
  (forall m, In m (auts fn fe g) <-> exists s, is_automorphism fn fe g s /\ m = aut_pairs g s) /\
  a_count (analyze fn fe g) =
    (if (length (components g) <=? 1)%nat then N.of_nat (length (auts fn fe g))
     else fold_left N.mul (map (fun c => N.of_nat (length (auts fn fe (induced_sub g c)))) (components g)) 1%N) /\
  (forall c, simple_graph (induced_sub g c)).
Proof.
  intros Hg. split; [|split; [|split]].
  - apply auts_nodup. exact Hg.
  - apply auts_listing. exact Hg.
  - apply analyze_count. exact Hg.
  - intros c. apply induced_simple. exact Hg.
Qed.

Lemma aut_group (fn : nlab -> N) (fe : elab -> N) (g : graph) : simple_graph g ->
  is_automorphism fn fe g (fun u => u) /\
  (forall s t, is_automorphism fn fe g s -> is_automorphism fn fe g t -> is_automorphism fn fe g (fun u => s (t u))) /\
  (forall s, is_automorphism fn fe g s ->
     exists t, is_automorphism fn fe g t /\ forall u, In u (node_ids g) -> t (s u) = u /\ s (t u) = u).
Proof.
  intros Hg. split; [|split].
  - apply isaut_id.
  - intros s t. apply isaut_comp.
  - intros s Hs. exists (inv_fun (node_ids g) s). split; [apply isaut_inv; [exact (proj1 Hg) | exact Hs]|].
    intros u Hu.
    pose proof (inv_fun_spec (node_ids g) (lab_of fn g) (adj_of fe g) (proj1 Hg) s Hs) as Hi.
    split; [|apply Hi; exact Hu].
    assert (Hsu : In (s u) (node_ids g)) by (apply Hs; exact Hu).
    destruct (Hi (s u) Hsu) as [Hin E]. destruct Hs as (_ & S2 & _ & _). apply S2; auto.
Qed.

(** ---------- clause 2: the orbits ---------- *)

(** every node lies in a reported component, hence (also for a disconnected graph) in a reported orbit *)
Lemma saturate_incl nbr fuel : forall S R, saturate nbr fuel S = Some R -> incl S R.
Proof.
  induction fuel as [|f IH]; intros S R H; simpl in H; [discriminate|].
  destruct (length (step nbr S) =? length S)%nat.
  - inversion H; subst. apply incl_refl.
  - intros x Hx. apply (IH _ _ H). apply step_in. left. exact Hx.
Qed.

Lemma comp_of_seed (g : graph) u : In u (comp_of g u).
Proof.
  unfold comp_of. destruct (saturate (nbrs g) (S (length (gnodes g))) [u]) as [R|] eqn:E; [|left; reflexivity].
  apply (saturate_incl _ _ _ _ E). left. reflexivity.
Qed.

Lemma comps_go_cover (g : graph) todo : forall seen u, In u todo ->
  In u seen \/ exists c, In c (comps_go g todo seen) /\ In u c.
Proof.
  induction todo as [|h r IH]; intros seen u Hin; [destruct Hin|].
  simpl. destruct Hin as [->|Hin].
  - destruct (LGraph.mem u seen) eqn:E; [left; apply LGraph.mem_spec; exact E|].
    right. exists (comp_of g u). split; [left; reflexivity | apply comp_of_seed].
  - destruct (LGraph.mem h seen) eqn:E; [apply IH; exact Hin|].
    destruct (IH (comp_of g h ++ seen) u Hin) as [H|(c & Hc & Hu)].
    + apply in_app_or in H. destruct H as [H|H]; [|left; exact H].
      right. exists (comp_of g h). split; [left; reflexivity | exact H].
    + right. exists c. split; [right; exact Hc | exact Hu].
Qed.

Lemma components_cover (g : graph) u : In u (node_ids g) -> exists c, In c (components g) /\ In u c.
Proof.
  intros Hu. destruct (comps_go_cover g (node_ids g) [] u Hu) as [[]|H]. exact H.
Qed.

Lemma induced_node (g : graph) c u : In u (node_ids g) -> In u c -> In u (node_ids (induced_sub g c)).
Proof.
  intros Hu Hc. unfold node_ids in *. unfold induced_sub. simpl.
  apply in_map_iff in Hu. destruct Hu as ([u' a] & E & Hin). simpl in E. subst u'.
  apply in_map_iff. exists (u, a). split; [reflexivity|]. apply filter_In. split; [exact Hin|].
  simpl. apply LGraph.mem_spec. exact Hc.
Qed.

Lemma orbits_cover (fn : nlab -> N) (fe : elab -> N) (g : graph) : simple_graph g ->
  forall u, In u (node_ids g) -> exists o, In o (a_orbits (analyze fn fe g)) /\ In u o.
Proof.
  intros Hg u Hu. destruct (le_lt_dec (length (components g)) 1) as [Hc|Hc].
  - apply (analyze_orbits_connected fn fe g Hg Hc). exact Hu.
  - destruct (components_cover g u Hu) as (c & Hcin & Huc).
    destruct (analyze_component_orbits fn fe (induced_sub g c) (induced_simple g c Hg)) as (H1 & _).
    destruct (H1 u (induced_node g c u Hu Huc)) as (o & Ho & Huo).
    exists o. split; [|exact Huo]. apply (analyze_orbits_disconnected fn fe g Hg Hc). eauto.
Qed.

Lemma orbits_exact_all (fn : nlab -> N) (fe : elab -> N) (g : graph) : simple_graph g ->
  ((length (components g) <= 1)%nat -> exact_orbits fn fe g (a_orbits (analyze fn fe g))) /\
  ((1 < length (components g))%nat ->
     forall o, In o (a_orbits (analyze fn fe g)) <->
               exists c, In c (components g) /\ In o (fst (analyze_component fn fe (induced_sub g c)))) /\
  (forall c, exact_orbits fn fe (induced_sub g c) (fst (analyze_component fn fe (induced_sub g c)))) /\
  NoDup (a_orbits (analyze fn fe g)) /\
  (forall u, In u (node_ids g) -> exists o, In o (a_orbits (analyze fn fe g)) /\ In u o).
Proof.
  intros Hg. split; [|split; [|split; [|split]]].
  - apply analyze_orbits_connected. exact Hg.
  - apply analyze_orbits_disconnected. exact Hg.
  - intros c. apply analyze_component_orbits. apply induced_simple. exact Hg.
  - apply analyze_orbits_nodup. exact Hg.
  - apply orbits_cover. exact Hg.
Qed.

(** ---------- clause 2, second sentence: the WL-1 estimate, orbit-list form ---------- *)
Lemma assign_length {X} (xeqb : X -> X -> bool) labels : forall seen, length (assign xeqb labels seen) = length labels.
Proof.
  induction labels as [|x r IH]; intros seen; simpl; [reflexivity|].
  destruct (index_of xeqb x seen 0%N); simpl; rewrite IH; reflexivity.
Qed.

Lemma map_fst_combine {Y} (ids : list N) (l : list Y) : length l = length ids -> map fst (combine ids l) = ids.
Proof.
  revert l. induction ids as [|i ids IH]; intros [|y l] H; simpl in *; try discriminate; [reflexivity|].
  f_equal. apply IH. lia.
Qed.

Lemma wl_init_nodes fn (g : graph) : map fst (wl_init fn g) = node_ids g.
Proof.
  unfold wl_init. apply map_fst_combine. rewrite assign_length, map_length. unfold node_ids. rewrite map_length. reflexivity.
Qed.

Lemma refine_once_nodes fe (g : graph) cs : map fst (fst (refine_once fe g cs)) = node_ids g.
Proof.
  unfold refine_once. simpl. apply map_fst_combine. rewrite assign_length, map_length. reflexivity.
Qed.

Lemma refine_nodes fe (g : graph) k : forall cs, map fst cs = node_ids g -> map fst (refine fe g k cs) = node_ids g.
Proof.
  induction k as [|k IH]; intros cs H; [exact H|].
  change (map fst (let '(cs', ch) := refine_once fe g cs in if ch then refine fe g k cs' else cs') = node_ids g).
  pose proof (refine_once_nodes fe g cs) as H1. destruct (refine_once fe g cs) as [cs' ch]. simpl in H1.
  destruct ch; [apply IH; exact H1 | exact H1].
Qed.

Lemma wl_nodes fn fe (g : graph) k : map fst (wl fn fe g k) = node_ids g.
Proof. unfold wl. apply refine_nodes. apply wl_init_nodes. Qed.

Lemma insK_in x y l : In x (insK y l) <-> x = y \/ In x l.
Proof.
  induction l as [|a l IH]; simpl; [intuition|].
  destruct (key_leb y a); simpl; [intuition | rewrite IH; intuition].
Qed.

Lemma wl_orbits_in cs o : In o (wl_orbits cs) <-> In o (classes cs).
Proof.
  unfold wl_orbits. induction (classes cs) as [|a l IH]; simpl; [tauto|].
  rewrite insK_in, IH. intuition.
Qed.

Lemma classes_in cs o : In o (classes cs) <->
  exists c, In c (map snd cs) /\ o = map fst (filter (fun p => N.eqb (snd p) c) cs).
Proof.
  unfold classes. rewrite in_map_iff. split.
  - intros (c & E & Hc). exists c. split; [|auto]. rewrite <- in_rev, dedupN_in, <- in_rev in Hc. exact Hc.
  - intros (c & Hc & E). exists c. split; [auto|]. rewrite <- in_rev, dedupN_in, <- in_rev. exact Hc.
Qed.

Lemma class_member cs c u : NoDup (map fst cs) ->
  (In u (map fst (filter (fun p => N.eqb (snd p) c) cs)) <-> In u (map fst cs) /\ col cs u = c).
Proof.
  intros Hnd. rewrite in_map_iff. split.
  - intros ([u' c'] & E & Hin). simpl in E. subst u'. apply filter_In in Hin. destruct Hin as [Hin Hc].
    simpl in Hc. apply N.eqb_eq in Hc. subst c'. split.
    + apply in_map_iff. exists (u, c). auto.
    + unfold col. erewrite assoc_nodup_in; eauto.
  - intros [Hu Hc]. destruct (assoc_some_in u cs Hu) as (a & Ea). exists (u, a). split; [reflexivity|].
    apply filter_In. split; [apply assoc_in; exact Ea|]. simpl. unfold col in Hc. rewrite Ea in Hc. subst a.
    apply N.eqb_refl.
Qed.

Lemma wl_orbits_never_split fn fe (g : graph) k o u v : wf g ->
  In o (wl_orbits (wl fn fe g k)) -> In u o -> same_orbit fn fe g u v -> In v o.
Proof.
  intros Hwf Ho Hu Hrel. apply wl_orbits_in, classes_in in Ho. destruct Ho as (c & _ & ->).
  assert (Hnd : NoDup (map fst (wl fn fe g k))) by (rewrite wl_nodes; apply Hwf).
  apply (class_member _ c u Hnd) in Hu. destruct Hu as [Hun Hc].
  apply (class_member _ c v Hnd). split.
  - rewrite wl_nodes. apply (same_orbit_nodes fn fe g (wf_simple g Hwf) u v Hrel).
  - destruct Hrel as (m & Hm & Hin). rewrite (wl_never_splits_listed fn fe g k m u v Hwf Hm Hin). exact Hc.
Qed.

Lemma wl_never_splits_all (fn : nlab -> N) (fe : elab -> N) (g : graph) (k : nat) : wf g ->
  (forall s, is_automorphism fn fe g s ->
     forall u, In u (node_ids g) -> col (wl fn fe g k) (s u) = col (wl fn fe g k) u) /\
  (forall m u v, In m (auts fn fe g) -> In (u, v) m -> col (wl fn fe g k) v = col (wl fn fe g k) u) /\
  (forall o u v, In o (wl_orbits (wl fn fe g k)) -> In u o -> same_orbit fn fe g u v -> In v o).
Proof.
  intros Hwf. split; [|split].
  - intros s Hs u Hu. apply (wl_invariant fn fe g Hwf s Hs k u Hu).
  - intros m u v Hm Hin. apply (wl_never_splits_listed fn fe g k m u v Hwf Hm Hin).
  - intros o u v. apply wl_orbits_never_split. exact Hwf.
Qed.

(** ---------- VF2 as an explicit premise ---------- *)
(** The component analysis as a function of the enumeration it is handed (Automorphism._analyze_component with
    [gm.isomorphisms_iter()] abstracted). *)
Lemma analyze_component_with_auts fn fe (g : graph) :
  analyze_component fn fe g = analyze_component_with (node_ids g) (auts fn fe g).
Proof. unfold analyze_component, analyze_component_with. destruct (node_ids g) as [|n [|n' r]]; reflexivity. Qed.

Lemma orbit_set_ext (E1 E2 : list mapping) u : (forall m, In m E1 <-> In m E2) -> orbit_set E1 u = orbit_set E2 u.
Proof.
  intros H. unfold orbit_set. apply canonN_ext. intros y. rewrite !orbit_raw_in.
  split; intros (m & Hm & Hc); exists m; (split; [apply H; exact Hm | exact Hc]).
Qed.

(** any duplicate-free listing of exactly the label-preserving automorphisms gives the analysis the model computes *)
Lemma vf2_contract_suffices fn fe (g : graph) (E : list mapping) : simple_graph g ->
  NoDup E ->
  (forall m, In m E <-> exists s, is_automorphism fn fe g s /\ m = aut_pairs g s) ->
  analyze_component_with (node_ids g) E = analyze_component fn fe g /\
  length E = length (auts fn fe g).
Proof.
  intros Hg Hnd Hspec.
  assert (Hmem : forall m, In m E <-> In m (auts fn fe g)).
  { intros m. rewrite Hspec. symmetry. apply auts_listing. exact Hg. }
  assert (Hlen : length E = length (auts fn fe g)).
  { apply Permutation_length. apply NoDup_Permutation; [exact Hnd | apply auts_nodup; exact Hg | exact Hmem]. }
  split; [|exact Hlen].
  rewrite analyze_component_with_auts. unfold analyze_component_with.
  destruct (node_ids g) as [|n [|n' r]]; try reflexivity.
  destruct E as [|e E'], (auts fn fe g) as [|a A'] eqn:EA; simpl in Hlen; try discriminate; [reflexivity|].
  rewrite <- EA in *. f_equal; [|simpl; rewrite EA; simpl; f_equal; lia].
  f_equal. apply map_ext. intros u. apply orbit_set_ext. exact Hmem.
Qed.

(** ---------- clause 4 at the level of functions: m = m' o sigma^-1 for a rule automorphism sigma ---------- *)
Lemma assoc_none_notin {V} k (l : list (N * V)) : assoc k l = None -> ~ In k (map fst l).
Proof. intros H Hin. destruct (assoc_some_in k l Hin) as (a & E). congruence. Qed.

Lemma assoc_rev_nodup {V} k (l : list (N * V)) : NoDup (map fst l) -> assoc k (rev l) = assoc k l.
Proof.
  intros Hnd. assert (Hnd' : NoDup (map fst (rev l))) by (rewrite map_rev; apply NoDup_rev; exact Hnd).
  destruct (assoc k l) as [v|] eqn:E.
  - apply assoc_in in E. eapply assoc_nodup_in; [exact Hnd' | rewrite <- in_rev; exact E].
  - apply assoc_not_in. rewrite map_rev, <- in_rev. apply assoc_none_notin. exact E.
Qed.

Lemma app_map_aut_pairs (g : graph) (s : N -> N) p : NoDup (node_ids g) -> In p (node_ids g) -> app_map (aut_pairs g s) p = s p.
Proof.
  intros Hnd Hp. unfold app_map, aut_pairs. rewrite assoc_rev_nodup.
  - rewrite <- combine_map_pairs, (assoc_combine_map s _ _ Hp). reflexivity.
  - rewrite map_map. simpl. rewrite map_id. exact Hnd.
Qed.

Lemma prune_complete_fun (X : Type) (key : X -> mapping) (rc : graph) (raw : list X) :
  simple_graph rc ->
  (forall x p h, In x raw -> In (p, h) (key x) -> In p (node_ids rc)) ->
  forall x, In x raw ->
  exists y, In y (prune key rc raw) /\
    exists s, is_automorphism n_full e_full rc s /\
      forall p h, In (p, h) (key x) <-> exists p', In (p', h) (key y) /\ p = s p'.
Proof.
  intros Hg Hdom x Hx.
  assert (Hid : is_automorphism n_full e_full rc (fun u => u)) by apply isaut_id.
  destruct (prune_complete_all X key rc raw x Hx) as (y & Hy & [E | [E | (m & Hm & E)]]).
  - exists y. split; [exact Hy|]. exists (fun u => u). split; [exact Hid|]. subst y.
    intros p h. split; [intros H; exists p; auto | intros (p' & H & ->); exact H].
  - exists y. split; [exact Hy|]. exists (fun u => u). split; [exact Hid|].
    intros p h. rewrite (E (p, h)). split; [intros H; exists p; auto | intros (p' & H & ->); exact H].
  - exists y. split; [exact Hy|].
    apply (auts_listing n_full e_full rc Hg) in Hm. destruct Hm as (s & Hs & ->).
    exists s. split; [exact Hs|]. intros p h. rewrite E.
    assert (Hyraw : In y raw) by (exact (subseq_in _ _ _ (prune_subseq X key rc raw) Hy)).
    split; intros (p' & H & ->); exists p'; (split; [exact H|]).
    + apply app_map_aut_pairs; [apply Hg | eapply Hdom; eauto].
    + symmetry. apply app_map_aut_pairs; [apply Hg | eapply Hdom; eauto].
Qed.

(** ---------- non-vacuity ---------- *)
(** propene-like path 1 - 2 = 3 with labels C, C, O is asymmetric; the path C - C - C below has the mirror symmetry *)
Definition ex_path : graph :=
  LG [(1, (0, 0, 0)); (2, (0, 0, 0)); (3, (0, 0, 0))]%N [(1, 2, (0, 0)); (2, 3, (0, 0))]%N.
(** two components: an edge and an isolated node *)
Definition ex_disc : graph :=
  LG [(1, (0, 0, 0)); (2, (0, 0, 0)); (5, (0, 0, 0))]%N [(1, 2, (0, 0))]%N.

Example ex_path_wf : wf ex_path.
Proof. apply wfb_wf. vm_compute. reflexivity. Qed.
Example ex_disc_wf : wf ex_disc.
Proof. apply wfb_wf. vm_compute. reflexivity. Qed.

Example ex_aut_count :
  simple_graph ex_path /\ length (auts n_exact e_order ex_path) = 2%nat /\ a_count (analyze n_exact e_order ex_path) = 2%N /\
  simple_graph ex_disc /\ length (components ex_disc) = 2%nat /\ a_count (analyze n_exact e_order ex_disc) = 2%N.
Proof.
  split; [apply wf_simple, ex_path_wf|]. split; [vm_compute; reflexivity|]. split; [vm_compute; reflexivity|].
  split; [apply wf_simple, ex_disc_wf|]. split; vm_compute; reflexivity.
Qed.

Example ex_orbits :
  a_orbits (analyze n_exact e_order ex_path) = [[2]; [1; 3]]%N /\
  same_orbit n_exact e_order ex_path 1 3 /\ ~ same_orbit n_exact e_order ex_path 1 2 /\
  a_orbits (analyze n_exact e_order ex_disc) = [[1; 2]; [5]]%N.
Proof.
  split; [vm_compute; reflexivity|]. split; [|split; [|vm_compute; reflexivity]].
  - exists [(3, 1); (2, 2); (1, 3)]%N. split; [vm_compute; tauto | right; right; left; reflexivity].
  - intros H.
    destruct (analyze_orbits_connected n_exact e_order ex_path (wf_simple _ ex_path_wf) ltac:(vm_compute; lia))
      as (_ & _ & _ & _ & H5).
    specialize (H5 [1; 3]%N 1%N 2%N).
    assert (Ho : In [1; 3]%N (a_orbits (analyze n_exact e_order ex_path))) by (vm_compute; tauto).
    apply (H5 Ho) in H; [|left; reflexivity]. simpl in H. intuition discriminate.
Qed.

Example ex_wl :
  map snd (wl n_exact e_order ex_path 10) = [0; 1; 0]%N /\
  wl_orbits (wl n_exact e_order ex_path 10) = [[2]; [1; 3]]%N /\
  is_automorphism n_exact e_order ex_path (fun u => if N.eqb u 1 then 3 else if N.eqb u 3 then 1 else u)%N.
Proof.
  split; [vm_compute; reflexivity|]. split; [vm_compute; reflexivity|].
  unfold is_automorphism.
  assert (Hn : forall u, In u (node_ids ex_path) -> u = 1%N \/ u = 2%N \/ u = 3%N) by (simpl; intuition).
  repeat split.
  - intros u Hu. destruct (Hn u Hu) as [-> | [-> | ->]]; vm_compute; tauto.
  - intros u v Hu Hv. destruct (Hn u Hu) as [-> | [-> | ->]], (Hn v Hv) as [-> | [-> | ->]]; vm_compute; congruence.
  - intros u Hu. destruct (Hn u Hu) as [-> | [-> | ->]]; vm_compute; reflexivity.
  - intros u v Hu Hv. destruct (Hn u Hu) as [-> | [-> | ->]], (Hn v Hv) as [-> | [-> | ->]]; vm_compute; reflexivity.
Qed.

(** a rule centre with the mirror symmetry 1 <-> 3: the two matches that differ by it are merged, the third is kept *)
Definition ex_raw : list mapping := [[(1, 7); (2, 8); (3, 9)]; [(1, 9); (2, 8); (3, 7)]; [(1, 7); (2, 8); (3, 6)]]%N.
Example ex_prune :
  prune (fun m : mapping => m) ex_path ex_raw = [[(1, 7); (2, 8); (3, 9)]; [(1, 7); (2, 8); (3, 6)]]%N /\
  length (rule_auts ex_path) = 2%nat.
Proof. split; vm_compute; reflexivity. Qed.
