(** C04 — SynReactor as an object (model/C04_Reactor.v): the caches are coherent.  Whatever attributes are read, how often
    and in which order, every read returns what the same read returns on a fresh reactor — provided _explicit_h does
    not raise; if it does, the first read of its_list raises and every later read returns the half-processed list that
    stayed in the cache ([stale_after_crash]: exact description of that state).
    Byte-string lemmas for reverse_reaction / split(">>"). *)
From Coq Require Import List NArith ZArith Bool Arith Lia.
From SK Require Import lib.Tok lib.LGraph model.C06_Model model.C11_Model model.C03_Model model.C04_Model model.C04_Reactor.
Import ListNotations.

(** * byte strings *)
Definition no_gt (s : bytes) : Prop := forall c, In c s -> c <> GT.

Lemma split_no_gt s : no_gt s -> forall cur, split_gg s cur = [rev cur ++ s].
Proof.
  induction s as [|a r IH]; intros H cur; simpl.
  - rewrite app_nil_r. reflexivity.
  - assert (Ha : N.eqb a GT = false) by (apply N.eqb_neq; apply H; left; reflexivity).
    assert (Hr : no_gt r) by (intros c I; apply H; right; exact I).
    destruct r as [|b r'].
    + simpl. reflexivity.
    + rewrite Ha. simpl andb. rewrite (IH Hr (a :: cur)). simpl. rewrite <- app_assoc. reflexivity.
Qed.

Lemma split_arrow r p : no_gt r -> forall cur, split_gg (r ++ arrow ++ p) cur = (rev cur ++ r) :: split_gg p [].
Proof.
  induction r as [|a r IH]; intros H cur.
  - simpl. rewrite app_nil_r. reflexivity.
  - assert (Ha : N.eqb a GT = false) by (apply N.eqb_neq; apply H; left; reflexivity).
    assert (Hr : no_gt r) by (intros c I; apply H; right; exact I).
    change ((a :: r) ++ arrow ++ p) with (a :: (r ++ arrow ++ p)).
    assert (E : exists b t, r ++ arrow ++ p = b :: t).
    { destruct r as [|b t]; simpl; eauto. }
    destruct E as (b & t & E). cbn [split_gg]. rewrite E. rewrite Ha. cbn [andb]. rewrite <- E.
    rewrite (IH Hr (a :: cur)). simpl. rewrite <- app_assoc. reflexivity.
Qed.

Lemma split_reaction r p : no_gt r -> no_gt p -> split_gg (r ++ arrow ++ p) [] = [r; p].
Proof. intros Hr Hp. rewrite (split_arrow r p Hr []). simpl. rewrite (split_no_gt p Hp []). reflexivity. Qed.

(** reverse_reaction swaps the sides of 'r>>p' (SMILES contain no '>'), and twice is the identity *)
Theorem reverse_reaction_swaps r p : no_gt r -> no_gt p -> reverse_reaction (r ++ arrow ++ p) = p ++ arrow ++ r.
Proof. intros Hr Hp. unfold reverse_reaction. rewrite (split_reaction r p Hr Hp). reflexivity. Qed.
Theorem reverse_reaction_involutive r p : no_gt r -> no_gt p ->
  reverse_reaction (reverse_reaction (r ++ arrow ++ p)) = r ++ arrow ++ p.
Proof. intros Hr Hp. rewrite (reverse_reaction_swaps r p Hr Hp). apply reverse_reaction_swaps; assumption. Qed.
(** smiles_list takes the product side *)
Theorem last_piece_product r p : no_gt r -> no_gt p -> last_piece (r ++ arrow ++ p) = p.
Proof. intros Hr Hp. unfold last_piece. rewrite (split_reaction r p Hr Hp). reflexivity. Qed.

Theorem reverse_reaction_all r p : no_gt r -> no_gt p ->
  reverse_reaction (r ++ arrow ++ p) = p ++ arrow ++ r /\
  reverse_reaction (reverse_reaction (r ++ arrow ++ p)) = r ++ arrow ++ p /\
  last_piece (r ++ arrow ++ p) = p.
Proof.
  intros Hr Hp. split; [exact (reverse_reaction_swaps r p Hr Hp)|].
  split; [exact (reverse_reaction_involutive r p Hr Hp)|exact (last_piece_product r p Hr Hp)].
Qed.

(** * the caches *)
Section Coherent.
  Variable engine : sarg -> option N -> bool -> C06_Model.graph -> C06_Model.graph -> outcome.
  Variable rematch : nat -> hostg -> molg -> list C03_Model.mapping.
  Variable ser : nat -> its -> option bytes * option bytes.
  Variable o : ropts.
  Variable host : hostg.
  Variable rule : triple.
  Let l := snd (fst rule).

  Notation rd_maps := (read_mappings engine o host rule).
  Notation rd_its := (read_its engine rematch o host rule).
  Notation rd_smarts := (read_smarts engine rematch ser o host rule).
  Notation rd := (read engine rematch ser o host rule).
  Notation maps_val := (compute_mappings engine o host rule).
  Notation gluedg := (glue_graph rematch host rule).

  Definition flag_val : bool := has_XH l.
  Notation glued_val := (C04_Reactor.glued_val rematch host rule).
  Notation its_stored := (C04_Reactor.its_stored rematch o host rule).
  Notation crashed := (C04_Reactor.crashed rematch o host rule).

  Definition coh (st : rstate) : Prop :=
    (s_flag st = false \/ s_flag st = flag_val) /\
    (forall ms, s_maps st = Some ms -> maps_val = Some ms /\ s_flag st = flag_val) /\
    (forall gs, s_its st = Some gs -> exists ms, s_maps st = Some ms /\ gs = its_stored ms) /\
    (forall ss, s_smarts st = Some ss -> exists gs, s_its st = Some gs /\ ss = smarts_of ser o gs).

  Lemma coh_fresh : coh fresh.
  Proof. unfold coh, fresh; simpl. split; [left; reflexivity|]. split; [intros ? E; discriminate|]. split; intros ? E; discriminate. Qed.

  Lemma flag_raise st : s_flag st = false \/ s_flag st = flag_val -> s_flag st || has_XH l = flag_val.
  Proof. unfold flag_val. intros [E|E]; rewrite E; [reflexivity|]. destruct (has_XH l); reflexivity. Qed.

  (** reading mappings *)
  Lemma rd_maps_spec st : coh st ->
    fst (rd_maps st) = maps_val /\ coh (snd (rd_maps st)) /\
    s_its (snd (rd_maps st)) = s_its st /\ s_smarts (snd (rd_maps st)) = s_smarts st /\
    (forall ms, maps_val = Some ms -> s_maps (snd (rd_maps st)) = Some ms /\ s_flag (snd (rd_maps st)) = flag_val).
  Proof.
    intros (C1 & C2 & C3 & C4). unfold read_mappings. fold l.
    destruct (s_maps st) as [ms|] eqn:Em.
    - destruct (C2 ms eq_refl) as [E F]. simpl. split; [symmetry; exact E|]. split; [unfold coh; rewrite Em; exact (conj C1 (conj C2 (conj C3 C4)))|].
      split; [reflexivity|]. split; [reflexivity|]. intros ms' E'. rewrite E in E'. inversion E'; subst. rewrite Em. auto.
    - pose proof (flag_raise st C1) as FR.
      assert (N3 : s_its st = None).
      { destruct (s_its st) as [gs|] eqn:Ei; [|reflexivity]. destruct (C3 gs eq_refl) as (ms & E & _). discriminate E. }
      assert (N4 : s_smarts st = None).
      { destruct (s_smarts st) as [ss|] eqn:Es; [|reflexivity]. destruct (C4 ss eq_refl) as (gs & E & _). rewrite N3 in E. discriminate. }
      destruct maps_val as [ms|] eqn:Ev; simpl.
      + split; [reflexivity|]. split.
        { unfold coh; simpl. split; [right; exact FR|]. split; [intros ms' E'; inversion E'; subst; auto|].
          rewrite N3, N4. split; intros ? E'; discriminate. }
        split; [reflexivity|]. split; [reflexivity|]. intros ms' E'. inversion E'; subst. auto.
      + split; [reflexivity|]. split.
        { unfold coh; simpl. split; [right; exact FR|]. split; [intros ms' E'; discriminate|].
          rewrite N3, N4. split; intros ? E'; discriminate. }
        split; [reflexivity|]. split; [reflexivity|]. intros ms' E'. discriminate.
  Qed.

  (** the value a fresh reactor returns for its_list *)
  Definition its_val : option (list its) :=
    match maps_val with
    | None => None
    | Some ms => if crashed ms then None else Some (its_stored ms)
    end.

  Lemma rd_its_spec st : coh st ->
    coh (snd (rd_its st)) /\ s_smarts (snd (rd_its st)) = s_smarts st /\
    (s_its st = None -> fst (rd_its st) = its_val) /\
    (forall gs, s_its st = Some gs -> fst (rd_its st) = Some gs /\ snd (rd_its st) = st) /\
    (forall ms, maps_val = Some ms -> s_its (snd (rd_its st)) = Some (its_stored ms)).
  Proof.
    intros C. pose proof C as (C1 & C2 & C3 & C4). unfold read_its.
    destruct (s_its st) as [gs|] eqn:Ei.
    - simpl. split; [exact C|]. split; [reflexivity|]. split; [discriminate|]. split; [intros gs' E; inversion E; auto|].
      intros ms Ev. destruct (C3 gs eq_refl) as (ms' & Em & ->). destruct (C2 ms' Em) as [Ev' _]. rewrite Ev in Ev'. inversion Ev'. exact Ei.
    - destruct (rd_maps_spec st C) as (V & Cm & Ki & Ks & Km).
      destruct (rd_maps st) as [om st1] eqn:Er. simpl in V, Cm, Ki, Ks, Km. subst om.
      unfold its_val. destruct maps_val as [ms|] eqn:Ev.
      + destruct (Km ms eq_refl) as [Em Ef]. rewrite Ef. change (concat (mapi (gluedg flag_val) ms)) with (glued_val ms).
        pose proof Cm as (D1 & D2 & D3 & D4).
        assert (Hs4 : s_smarts st1 = None).
        { rewrite Ks. destruct (s_smarts st) as [ss|] eqn:Es; [|reflexivity]. destruct (C4 ss eq_refl) as (gs & E & _). discriminate E. }
        assert (K1 : flag_val = false \/ flag_val = flag_val) by (right; reflexivity).
        assert (K2 : forall ms0, s_maps st1 = Some ms0 -> maps_val = Some ms0 /\ flag_val = flag_val).
        { intros ms0 E0. split; [exact (proj1 (D2 ms0 E0))|reflexivity]. }
        unfold crashed, its_stored. destruct (o_explicit_h o) eqn:Eo.
        * destruct (explicit_all (glued_val ms)) as [gs c] eqn:Ex. simpl.
          split.
          { unfold coh; simpl. split; [exact K1|]. split; [exact K2|]. split.
            - intros gs' E'. inversion E'; subst. exists ms. split; [exact Em|]. unfold its_stored. rewrite Eo, Ex. reflexivity.
            - rewrite Hs4. intros ? E'; discriminate. }
          split; [rewrite <- Ks; reflexivity|].
          split; [intros _; destruct c; reflexivity|]. split; [discriminate|].
          intros ms' E'. inversion E'; subst. rewrite Ex. reflexivity.
        * simpl. split.
          { unfold coh; simpl. split; [exact K1|]. split; [exact K2|]. split.
            - intros gs' E'. inversion E'; subst. exists ms. split; [exact Em|]. unfold its_stored. rewrite Eo. reflexivity.
            - rewrite Hs4. intros ? E'; discriminate. }
          split; [rewrite <- Ks; reflexivity|].
          split; [intros _; reflexivity|]. split; [discriminate|].
          intros ms' E'. inversion E'; subst. reflexivity.
      + simpl. split; [exact Cm|]. split; [exact Ks|]. split; [intros _; reflexivity|]. split; [discriminate|]. discriminate.
  Qed.

  Definition smarts_val : option (list bytes) := option_map (smarts_of ser o) its_val.

  (** * no StopIteration: every read returns the fresh value *)
  Section NoCrash.
    Hypothesis NC : forall ms, maps_val = Some ms -> crashed ms = false.

    Lemma its_val_nc ms : maps_val = Some ms -> its_val = Some (its_stored ms).
    Proof. intros E. unfold its_val. rewrite E, (NC ms E). reflexivity. Qed.

    Lemma rd_its_value st : coh st -> fst (rd_its st) = its_val.
    Proof.
      intros C. destruct (rd_its_spec st C) as (_ & _ & V0 & V1 & _).
      destruct (s_its st) as [gs|] eqn:Ei; [|exact (V0 eq_refl)].
      destruct (V1 gs eq_refl) as [-> _]. destruct C as (_ & C2 & C3 & _).
      destruct (C3 gs Ei) as (ms & Em & ->). destruct (C2 ms Em) as [Ev _]. symmetry. exact (its_val_nc ms Ev).
    Qed.

    Lemma rd_smarts_spec st : coh st -> fst (rd_smarts st) = smarts_val /\ coh (snd (rd_smarts st)).
    Proof.
      intros C. pose proof C as (C1 & C2 & C3 & C4). unfold read_smarts.
      destruct (s_smarts st) as [ss|] eqn:Es.
      - simpl. split; [|exact C]. destruct (C4 ss eq_refl) as (gs & Ei & ->). destruct (C3 gs Ei) as (ms & Em & ->).
        destruct (C2 ms Em) as [Ev _]. unfold smarts_val. rewrite (its_val_nc ms Ev). reflexivity.
      - pose proof (rd_its_value st C) as V. destruct (rd_its_spec st C) as (Ci & Ks & _ & _ & Ki).
        destruct (rd_its st) as [og st1] eqn:Er. simpl in V, Ci, Ks, Ki. subst og. unfold smarts_val.
        destruct its_val as [gs|] eqn:Ev; simpl.
        + split; [reflexivity|]. pose proof Ci as (D1 & D2 & D3 & D4). unfold coh; simpl.
          split; [exact D1|]. split; [exact D2|]. split; [exact D3|].
          intros ss E'. inversion E'; subst. exists gs. split; [|reflexivity].
          unfold its_val in Ev. destruct maps_val as [ms|] eqn:Em; [|discriminate].
          rewrite (Ki ms eq_refl). rewrite (NC ms eq_refl) in Ev. exact Ev.
        + split; [reflexivity|exact Ci].
    Qed.

    Lemma read_value a st : coh st -> fst (rd a st) = fst (rd a fresh) /\ coh (snd (rd a st)).
    Proof.
      intros C.
      pose proof (rd_maps_spec st C) as (M1 & M2 & _). pose proof (rd_maps_spec fresh coh_fresh) as (F1 & _).
      pose proof (rd_its_value st C) as I1. pose proof (rd_its_value fresh coh_fresh) as I2.
      pose proof (rd_its_spec st C) as (I3 & _).
      pose proof (rd_smarts_spec st C) as (S1 & S2). pose proof (rd_smarts_spec fresh coh_fresh) as (S3 & _).
      destruct a; unfold read.
      - destruct (rd_maps st) as [v st']. destruct (rd_maps fresh) as [v0 st0]. simpl in *. subst. auto.
      - destruct (rd_its st) as [v st']. destruct (rd_its fresh) as [v0 st0]. simpl in *. subst. auto.
      - destruct (rd_smarts st) as [v st']. destruct (rd_smarts fresh) as [v0 st0]. simpl in *. subst. auto.
      - destruct (rd_smarts st) as [v st']. destruct (rd_smarts fresh) as [v0 st0]. simpl in *. subst. auto.
      - destruct (rd_maps st) as [v st']. destruct (rd_maps fresh) as [v0 st0]. simpl in *. subst. auto.
      - destruct (rd_smarts st) as [v st']. destruct (rd_smarts fresh) as [v0 st0]. simpl in *. subst. auto.
    Qed.

    (** any script of reads, from any reachable state: the list of answers is the list of fresh answers *)
    Theorem script_coherent s : forall st, coh st ->
      fst (run_script engine rematch ser o host rule s st) = map (fun a => fst (rd a fresh)) s /\
      coh (snd (run_script engine rematch ser o host rule s st)).
    Proof.
      induction s as [|a r IH]; intros st C; simpl; [auto|].
      destruct (read_value a st C) as [V C1]. destruct (rd a st) as [v st1]. simpl in V, C1.
      destruct (IH st1 C1) as [Vs C2]. destruct (run_script engine rematch ser o host rule r st1) as [vs st2]. simpl in *.
      subst. auto.
    Qed.
    Theorem reads_coherent s :
      fst (run_script engine rematch ser o host rule s fresh) = map (fun a => fst (rd a fresh)) s.
    Proof. exact (proj1 (script_coherent s fresh coh_fresh)). Qed.
  End NoCrash.

  (** * _explicit_h raises on some glued ITS: the first read of its_list raises, the list processed up to the failing
      element stays in the cache, and every later read of its_list / smarts_list is served from it without raising *)
  Theorem stale_after_crash ms : maps_val = Some ms -> crashed ms = true ->
    fst (rd_its fresh) = None /\
    let st1 := snd (rd_its fresh) in
    rd_its st1 = (Some (its_stored ms), st1) /\ fst (rd_smarts st1) = Some (smarts_of ser o (its_stored ms)).
  Proof.
    intros Ev Ec. destruct (rd_its_spec fresh coh_fresh) as (C1 & Ks & V0 & _ & Ki).
    specialize (V0 eq_refl). specialize (Ki ms Ev). unfold its_val in V0. rewrite Ev, Ec in V0.
    split; [exact V0|]. cbv zeta. set (st1 := snd (rd_its fresh)) in *.
    assert (R : rd_its st1 = (Some (its_stored ms), st1)) by (unfold read_its; rewrite Ki; reflexivity).
    split; [exact R|]. unfold read_smarts. replace (s_smarts st1) with (@None (list bytes)) by (rewrite Ks; reflexivity).
    rewrite R. reflexivity.
  Qed.
End Coherent.
