(** C08 — NautyCanonicalizer with any attribute selection: isomorphic graphs get the same graph_signature.
    If [h] is, on the covered attributes, [g] renumbered by an injective [pi], every ingredient of the selection's search is
    related (the selected codes and fields are functions of the covered values: C08_Equiv's [attr_rel], [adj_rel], [inc_rel]
    apply), the leaf enumerations correspond and the minimal selected label is the same; graph_signature hashes that label.
    (The converse - equal selected labels make the graphs isomorphic on the SELECTED attributes - is proved for the default
    selection only, C08_GraphSig; it is false for the empty node selection on the pair empty graph / single node.) *)
From Coq Require Import String List NArith ZArith Bool Arith Lia Permutation.
From SK Require Import lib.LGraph lib.IRSortKeys lib.IRCore lib.IRSearch lib.StrJoin.
From SK Require Import model.C08_Model model.C08_Sel proof.C08_Spec proof.C08_Sort proof.C08_Faithful proof.C08_Cov proof.C08_SigFun
                       proof.C08_Render proof.C08_IR proof.C08_Nauty proof.C08_Sound proof.C08_Equiv proof.C08_Invariant
                       proof.C08_GraphSig proof.C08_SelNauty.
From SK Require lib.IRInst.
Import ListNotations.

Notation ix p := (apply_map (mapping_of p)).

(* the selected codes and fields are functions of the covered values *)
Definition NF (c : list N * Z * bool * Z) (k : nsel) : str :=
  let '(e, c0, a, h0) := c in match k with SEl => e | SAr => pybool a | SCh => decZ c0 | SHc => decZ h0 end.
Definition NC1 (c : list N * Z * bool * Z) (k : nsel) : list Z :=
  let '(e, c0, a, h0) := c in match k with SEl => enc_str e | SAr => [b2z a] | SCh => [c0] | SHc => [h0] end.
Lemma nfield_cov a k : nfield a k = NF (ncov a) k.
Proof. destruct a, k; reflexivity. Qed.
Lemma ncode1_cov a k : ncode1 a k = NC1 (ncov a) k.
Proof. destruct a, k; reflexivity. Qed.
Definition EF (x : ecv) (k : esel) : str :=
  let '(o, t, s) := x in match k with SOrd => OS o t | SStd => match s with Some s => fl s | None => [] end end.
Definition EC1 (x : ecv) (k : esel) : list Z :=
  let '(o, t, s) := x in
  match k with
  | SOrd => match t with None => [1%Z; o] | Some b => [1%Z; Z.min o b; Z.max o b] end
  | SStd => [(match s with Some _ => 1 | None => 0 end)%Z; sd0 s]
  end.
Lemma efield_cov a k : efield a k = EF (ecov a) k.
Proof. destruct a as [o s t], k; reflexivity. Qed.
Lemma ecode1_cov a k : ecode1 a k = EC1 (ecov a) k.
Proof. destruct a as [o [s|] [t|]], k; reflexivity. Qed.
Lemma ecode_sel_cov ea a : ecode_sel ea a = flat_map (EC1 (ecov a)) ea.
Proof. unfold ecode_sel. apply flat_map_ext. intros k. apply ecode1_cov. Qed.

Section SelRel.
Variable na : list nsel.
Variable ea : list esel.
Variable pi : N -> N.
Hypothesis pi_inj : forall x y, pi x = pi y -> x = y.
Variables g h : graph.
Hypothesis Hg : wf g.
Hypothesis Hq : geq_cov (relabel pi g) h.

Lemma acode_sel_rel v : acode_sel na h (pi v) = acode_sel na g v.
Proof.
  unfold acode_sel. rewrite (flat_map_ext _ (NC1 (ncov (attr_of h (pi v))))) by (intros; apply ncode1_cov).
  rewrite (flat_map_ext (ncode1 (attr_of g v)) (NC1 (ncov (attr_of g v)))) by (intros; apply ncode1_cov).
  rewrite (attr_rel pi pi_inj g h Hg Hq). reflexivity.
Qed.
Lemma node_str_sel_rel v : node_str_sel na h (pi v) = node_str_sel na g v.
Proof.
  unfold node_str_sel. f_equal.
  rewrite (map_ext _ (NF (ncov (attr_of h (pi v))))) by (intros; apply nfield_cov).
  rewrite (map_ext (nfield (attr_of g v)) (NF (ncov (attr_of g v)))) by (intros; apply nfield_cov).
  rewrite (attr_rel pi pi_inj g h Hg Hq). reflexivity.
Qed.
Lemma edge_bit_sel_cov (k : graph) ab :
  edge_bit_sel ea k ab = match option_map ecov (adj k (fst ab) (snd ab)) with
                         | Some x => lit "1:"%string ++ join 58%N (map (EF x) ea)
                         | None => lit "0:"%string ++ join 58%N (map (fun _ : esel => @nil N) ea)
                         end.
Proof.
  unfold edge_bit_sel. destruct (adj k (fst ab) (snd ab)) as [x|]; [|reflexivity]. cbn [option_map].
  rewrite (map_ext (efield x) (EF (ecov x))) by (intros; apply efield_cov). reflexivity.
Qed.
Lemma edge_bit_sel_rel ab : edge_bit_sel ea h (pi (fst ab), pi (snd ab)) = edge_bit_sel ea g ab.
Proof. rewrite !edge_bit_sel_cov. cbn [fst snd]. rewrite (adj_rel pi pi_inj g h Hg Hq). reflexivity. Qed.

Lemma ecodes_sel_rel v : Permutation (map (fun p => ecode_sel ea (snd p)) (inc h (pi v))) (map (fun p => ecode_sel ea (snd p)) (inc g v)).
Proof.
  pose proof (Permutation_map (fun p : N * ecv => flat_map (EC1 (snd p)) ea) (inc_rel pi pi_inj g h Hq v)) as H.
  rewrite !map_map in H. cbn [snd ce] in H.
  rewrite (map_ext (fun p : N * eattr => ecode_sel ea (snd p)) (fun p => flat_map (EC1 (ecov (snd p))) ea)) by (intros; apply ecode_sel_cov).
  exact H.
Qed.

Theorem sigN_sel_rel P P' v : partR pi P P' -> sigN_sel na ea h P' (pi v) = sigN_sel na ea g P v.
Proof.
  intros HP. unfold sigN_sel. rewrite acode_sel_rel, (degree_rel pi pi_inj g h Hq). f_equal. f_equal. f_equal.
  - induction HP as [|c c' P P' Hc HP IH]; simpl; auto. f_equal; auto.
    rewrite (cnt_perm c' _ _ (nbrs_rel pi pi_inj g h Hq v)). apply IRInst.cnt_rel; auto.
  - f_equal. apply sort_by_perm_eq; [apply ecodes_sel_rel|]. intros x y _ _ E. exact E.
Qed.

Theorem init_sel_rel : partR pi (init_partition_sel na g) (init_partition_sel na h).
Proof.
  unfold init_partition_sel. pose proof (nnodes_rel pi g h Hq) as Hl.
  destruct (gnodes g) as [|p l] eqn:Eg, (gnodes h) as [|p' l'] eqn:Eh; try discriminate; [constructor|].
  apply (@split_rel (list Z) lexleb IRInst.lexleb_total IRInst.lexleb_trans IRInst.lexleb_antisym pi
           (fun _ v => acode_sel na g v) (fun _ v => acode_sel na h v)).
  - intros _ _ v _. apply acode_sel_rel.
  - constructor.
  - unfold cellR. eapply perm_trans; [apply Permutation_map; apply sorted_ids_perm|].
    eapply perm_trans; [apply (ids_rel pi g h Hq)|]. apply Permutation_sym, sorted_ids_perm.
Qed.

Theorem nlabel_sel_rel p : nlabel_sel na ea h (map pi p) = nlabel_sel na ea g p.
Proof.
  unfold nlabel_sel, node_seg_sel. rewrite (pairs_map pi), !map_map.
  rewrite (map_ext (fun x => node_str_sel na h (pi x)) (node_str_sel na g)) by apply node_str_sel_rel.
  rewrite (map_ext (fun x => edge_bit_sel ea h (pi (fst x), pi (snd x))) (edge_bit_sel ea g)) by apply edge_bit_sel_rel.
  reflexivity.
Qed.

Theorem leaves_sel_rel :
  Permutation (map (map pi) (leaves2 _ lexleb (sigN_sel na ea g) (rfuel g) (children g) (sfuel g) (init_partition_sel na g) []))
              (leaves2 _ lexleb (sigN_sel na ea h) (rfuel h) (children h) (sfuel h) (init_partition_sel na h) []).
Proof.
  destruct (fuel_rel pi g h Hq) as [-> ->].
  apply (leaves2_rel _ lexleb IRInst.lexleb_total IRInst.lexleb_trans IRInst.lexleb_antisym pi pi_inj (sigN_sel na ea g) (sigN_sel na ea h)
           sigN_sel_rel (children g) (children h) (children_perm g) (children_perm h) (rfuel g) (sfuel g)
           (init_partition_sel na g) (init_partition_sel na h) [] init_sel_rel).
Qed.
End SelRel.

Lemma nauty_label_sel_fold na ea (k : graph) :
  nauty_label_sel na ea k = fold_left (minl strleb) (map (nlabel_sel na ea k)
     (leaves2 _ lexleb (sigN_sel na ea k) (rfuel k) (children k) (sfuel k) (init_partition_sel na k) [])) None.
Proof.
  unfold nauty_label_sel, nauty_acc_sel. rewrite nsearch_sel_is_fold.
  exact (best_label_fold strleb (nlabel_sel na ea k) _ (None, [])).
Qed.

Theorem nauty_label_sel_rel na ea pi (pi_inj : forall x y : N, pi x = pi y -> x = y) g h : wf g -> geq_cov (relabel pi g) h ->
  nauty_label_sel na ea h = nauty_label_sel na ea g.
Proof.
  intros Hg Hq. rewrite !nauty_label_sel_fold.
  apply (fold_minl_perm strleb strleb_total strleb_trans strleb_antisym).
  eapply perm_trans; [apply Permutation_map; apply Permutation_sym; apply (leaves_sel_rel na ea pi pi_inj g h Hg Hq)|].
  rewrite map_map. rewrite (map_ext (fun x => nlabel_sel na ea h (map pi x)) (nlabel_sel na ea g)) by (apply (nlabel_sel_rel na ea pi pi_inj g h Hg Hq)).
  apply Permutation_refl.
Qed.

(* graph_signature hashes the minimal selected label *)
Theorem graph_sig_label_sel_min na ea g : wf g -> graph_sig_label_sel na ea g = nlabel_sel na ea g (nauty_perm_sel na ea g).
Proof.
  intros Hg. pose proof (proj1 Hg) as Ng. pose proof (nauty_perm_sel_perm na ea g Ng) as Pp.
  set (p := nauty_perm_sel na ea g) in *.
  assert (Np : NoDup p) by (eapply Permutation_NoDup; [apply Permutation_sym; exact Pp|exact Ng]).
  assert (Hi : C08_Spec.inj_on (ix p) (node_ids g)) by (apply inj_on_same; eapply inj_on_perm; [exact Pp|apply mapping_of_inj; auto]).
  unfold graph_sig_label_sel, canon_nauty_sel. fold p.
  assert (Es : sorted_ids (relabel (ix p) g) = map (ix p) p).
  { unfold sorted_ids. rewrite (mapping_of_map p Np). apply sort_ids_perm_seq.
    rewrite node_ids_relabel. rewrite <- (mapping_of_map p Np). apply Permutation_map. apply Permutation_sym. exact Pp. }
  rewrite Es.
  set (pi := extend (ix p) (node_ids g)).
  assert (pi_inj : forall x y, pi x = pi y -> x = y) by (apply extend_inj; exact Hi).
  assert (E1 : relabel (ix p) g = relabel pi g).
  { symmetry. apply relabel_ext_on; auto. intros x I. apply extend_on. exact I. }
  assert (E2 : map (ix p) p = map pi p).
  { apply map_ext_in. intros x I. symmetry. apply extend_on. apply (Permutation_in _ Pp). exact I. }
  rewrite E1, E2. apply (nlabel_sel_rel na ea pi pi_inj g (relabel pi g) Hg (geq_cov_refl _)).
Qed.

Theorem graph_sig_sel_invariant na ea g h : wf g -> wf h -> iso_cov g h -> graph_sig_label_sel na ea g = graph_sig_label_sel na ea h.
Proof.
  intros Hg Hh (f & Hf & Hq0). rewrite !graph_sig_label_sel_min by auto.
  destruct (nauty_perm_sel_leaf na ea g (proj1 Hg)) as [_ Ep]. destruct (nauty_perm_sel_leaf na ea h (proj1 Hh)) as [_ Eq].
  set (pi := extend f (node_ids g)).
  assert (pi_inj : forall x y, pi x = pi y -> x = y) by (apply extend_inj; exact Hf).
  assert (Hq : geq_cov (relabel pi g) h).
  { rewrite (relabel_ext_on pi f g Hg); auto. intros x I. apply extend_on. exact I. }
  pose proof (nauty_label_sel_rel na ea pi pi_inj g h Hg Hq) as E. rewrite Ep, Eq in E. inversion E. reflexivity.
Qed.

Theorem graph_signature_sel_invariant (D : Type) (digest : str -> D) na ea g h : wf g -> wf h -> iso_cov g h ->
  digest (graph_sig_label_sel na ea g) = digest (graph_sig_label_sel na ea h).
Proof. intros. f_equal. apply graph_sig_sel_invariant; assumption. Qed.

(* non-vacuity: so_g / so_h (C08_Sound.v: renumbered, re-inserted, one edge flipped) under the empty and the element-only selection *)
Example sel_inv_ex : graph_sig_label_sel [] [] so_g = graph_sig_label_sel [] [] so_h
                     /\ graph_sig_label_sel [SEl] [SStd; SOrd] so_g = graph_sig_label_sel [SEl] [SStd; SOrd] so_h
                     /\ nauty_perm_sel [SEl] [SStd; SOrd] so_g <> nauty_perm_sel [SEl] [SStd; SOrd] so_h.
Proof. split; [vm_compute; reflexivity|]. split; [vm_compute; reflexivity|vm_compute; discriminate]. Qed.

Print Assumptions graph_sig_sel_invariant.
Print Assumptions graph_sig_label_sel_min.
