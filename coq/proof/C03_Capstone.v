(** C03 — capstone: every graph its_list returns is a genuine instance of the rule.

    [spec_its inp] is what the property its_list returns whatever was read before (C03_reads_stable).  For every graph g in
    it there are a base graph hb (the substrate, or the substrate with some implicit hydrogens made explicit), a valid match
    m of the rule on hb and the glued graph T = glue hb rc m such that g = T (explicit_h off) or g = _explicit_h(T), and
      (a) the reactant side of g has the SUBSTRATE's element counts, charge and, between substrate atoms, bonds,
      (b) a balanced rule gives a balanced reaction,
      (c) the changed bonds of T are exactly the images of the rule's changed bonds (equal order changes), and g has in
          addition only the bonds of the re-materialised hydrogens, each inside one hydrogen-transfer group.
    Stdlib lists only. *)
From Coq Require Import List NArith ZArith Bool Lia Permutation.
From SK Require Import lib.Tok lib.LGraph model.C03_Model model.C03_Order model.C03_Reactor proof.C03_Proof proof.C03_Glue
                       proof.C03_ExplicitH proof.C03_ExplicitShape proof.C03_Expand proof.C03_Iso proof.C03_Wiring proof.C03_Ord
                       proof.C03_ReactorProof proof.C03_ReactorSpec proof.C03_Link.
Import ListNotations.
Local Open Scope Z_scope.

(** * where the graphs of the list come from *)
Lemma zip_pad_in {A B} (d : B) (l : list A) : forall (t : list B) a b, In (a, b) (zip_pad d l t) -> In a l.
Proof.
  induction l as [|x r IH]; intros t a b I; [destruct I|]. cbn [zip_pad] in I. destruct I as [I|I].
  - inversion I; subst. left. reflexivity.
  - right. exact (IH _ _ _ I).
Qed.

Lemma glue_call_in flag host rc ct T tbl : In (T, tbl) (glue_call flag host rc ct) ->
  exists hb x, glue hb rc x = Some T /\
    ((flag = false /\ hb = host /\ x = fst (fst ct)) \/
     (flag = true /\ exists rs, snd (fst ct) = Some rs /\ In x rs /\ hb = h_to_explicit host (map snd (fst (fst ct))))).
Proof.
  unfold glue_call. destruct flag.
  - destruct (snd (fst ct)) as [rs|] eqn:Er.
    + intros I. apply in_flat_map in I. destruct I as ([x tb] & Ix & Ig). cbn [fst snd] in Ig.
      destruct (glue (h_to_explicit host (map snd (fst (fst ct)))) rc x) as [g|] eqn:Eg; [|destruct Ig].
      destruct Ig as [Ig|[]]. inversion Ig; subst. exists (h_to_explicit host (map snd (fst (fst ct)))), x.
      split; [exact Eg|]. right. split; [reflexivity|]. exists rs. split; [reflexivity|]. split; [exact (zip_pad_in _ _ _ _ _ Ix)|reflexivity].
    + cbn [zip_pad flat_map]. intros [].
  - intros I. apply in_flat_map in I. destruct I as ([x tb] & Ix & Ig). cbn [fst snd] in Ig.
    destruct (glue host rc x) as [g|] eqn:Eg; [|destruct Ig]. destruct Ig as [Ig|[]]. inversion Ig; subst.
    cbn [zip_pad] in Ix. destruct Ix as [Ix|[]]. inversion Ix; subst.
    exists host, (fst (fst ct)). split; [exact Eg|]. left. auto.
Qed.

Lemma glue_all_in flag host rc calls tbls T tbl : In (T, tbl) (glue_all flag host rc calls tbls) ->
  exists c hb x, In c calls /\ glue hb rc x = Some T /\
    ((flag = false /\ hb = host /\ x = fst c) \/
     (flag = true /\ exists rs, snd c = Some rs /\ In x rs /\ hb = h_to_explicit host (map snd (fst c)))).
Proof.
  unfold glue_all. intros I. apply in_flat_map in I. destruct I as ([c t] & Ic & Ig).
  destruct (glue_call_in flag host rc (c, t) T tbl Ig) as (hb & x & Eg & R). cbn [fst] in R.
  exists c, hb, x. split; [exact (zip_pad_in _ _ _ _ _ Ic)|]. split; [exact Eg|exact R].
Qed.

Lemma explicit_all_in gs : forall out, explicit_all gs = Some out ->
  forall g, In g out -> exists T tbl ms, In (T, tbl) gs /\ explicit_h_ord (ord_of tbl) T = Some (g, ms).
Proof.
  induction gs as [|[T tbl] r IH]; intros out H g I.
  - simpl in H. inversion H; subst. destruct I.
  - cbn [explicit_all] in H. destruct (explicit_h_ord (ord_of tbl) T) as [[g' ms]|] eqn:E; [|discriminate].
    destruct (explicit_all r) as [r'|] eqn:Er; [|discriminate]. inversion H; subst. destruct I as [<-|I].
    + exists T, tbl, ms. split; [left; reflexivity|exact E].
    + destruct (IH r' eq_refl g I) as (T0 & tbl0 & ms0 & I0 & E0). exists T0, tbl0, ms0. split; [right; exact I0|exact E0].
Qed.

(** * one result *)
Section One.
  Variable ord : list N -> list N.
  Hypothesis ord_in : forall l x, In x (ord l) <-> In x l.
  Variables (host hb : hostg) (rc : its) (m : mapping) (T g : its).
  Hypothesis Hwh : wf_hostb host = true.
  Hypothesis Hb : base_of host hb.
  Hypothesis Hwx : wf_hostb hb = true.
  Hypothesis Hwr : wf_rcb rc = true.
  Hypothesis Hm : match_rcb hb rc m = true.
  Hypothesis Hg : glue hb rc m = Some T.

  Lemma base_facts :
    (forall e, elem_count e (mol_of_host hb) = elem_count e (mol_of_host host)) /\
    total_charge (mol_of_host hb) = total_charge (mol_of_host host) /\
    (forall a b, In a (node_ids host) -> In b (node_ids host) -> adj hb a b = adj host a b) /\
    (forall a, In a (node_ids host) -> In a (node_ids hb)) /\
    (forall n a, label host n = Some a -> exists a', label hb n = Some a' /\ set_hc a' 0 = set_hc a 0).
  Proof.
    destruct Hb as [->|(nodes & ->)]; [repeat split; auto; intros n a Hl; exists a; auto|].
    destruct (h_to_explicit_accounting host nodes (wf_host_nodup host Hwh)) as (X1 & X2 & X3 & X4 & _).
    split; [exact X1|]. split; [exact X2|]. split; [exact X3|]. split; [|exact X4].
    intros a Ia. unfold node_ids in Ia. apply in_map_iff in Ia. destruct Ia as ([k v] & <- & Ia).
    destruct (X4 k v (assoc_nodup_in k (gnodes host) v (wf_host_nodup host Hwh) Ia)) as (a' & Hl & _).
    unfold label in Hl. apply assoc_in in Hl. exact (in_map fst _ (k, a') Hl).
  Qed.

  Theorem result_sound :
    (g = T \/ exists ms, explicit_h_ord ord T = Some (g, ms)) ->
    (forall e, elem_count e (fst (its_decompose g)) = elem_count e (mol_of_host host)) /\
    total_charge (fst (its_decompose g)) = total_charge (mol_of_host host) /\
    (forall a b, In a (node_ids host) -> In b (node_ids host) -> bondG g a b = adj host a b) /\
    (balancedb rc = true ->
       (forall e, elem_count e (fst (its_decompose g)) = elem_count e (snd (its_decompose g))) /\
       total_charge (fst (its_decompose g)) = total_charge (snd (its_decompose g))).
  Proof.
    intros Hres. destruct base_facts as (F1 & F2 & F3 & F4 & _).
    pose proof (glued_nodup hb rc m T Hwx Hwr Hm Hg) as Hnd.
    destruct (left_is_host hb rc m T Hwx Hwr Hm Hg) as (L1 & _ & L3).
    destruct (left_is_host_dec hb rc m T Hwx Hwr Hm Hg) as (D1 & _).
    assert (TA : forall e, elem_count e (fst (its_decompose T)) = elem_count e (mol_of_host host)).
    { intros e. rewrite <- F1. unfold elem_count, count_el, total_hc. rewrite D1. reflexivity. }
    assert (TQ : total_charge (fst (its_decompose T)) = total_charge (mol_of_host host)).
    { rewrite <- F2. unfold total_charge. rewrite D1. reflexivity. }
    assert (TB : forall a b, In a (node_ids host) -> In b (node_ids host) -> bondG T a b = adj host a b).
    { intros a b Ia Ib. rewrite L3. apply F3; assumption. }
    destruct Hres as [->|(ms & He)].
    - split; [exact TA|]. split; [exact TQ|]. split; [exact TB|].
      intros Hbal. exact (conserve_balanced hb rc m T Hwx Hwr Hm Hg Hbal).
    - destruct (explicit_h_ord_accounting ord ord_in T g ms Hnd He) as (_ & B1 & (B2 & B3) & B4 & _).
      split; [|split; [|split]].
      + intros e. rewrite (proj1 (B1 e)). apply TA.
      + rewrite B2. exact TQ.
      + intros a b Ia Ib. unfold bondG. rewrite B4 by (rewrite L1; apply F4; assumption). fold (bondG T a b). apply TB; assumption.
      + intros Hbal. destruct (conserve_balanced hb rc m T Hwx Hwr Hm Hg Hbal) as (C1 & C2). split.
        * intros e. destruct (B1 e) as [E1 E2]. rewrite E1, E2. apply C1.
        * rewrite B2, B3. exact C2.
  Qed.

  (** clause (a) atom by atom *)
  Theorem result_atoms :
    (g = T \/ exists ms, explicit_h_ord ord T = Some (g, ms)) ->
    forall n a, label host n = Some a -> exists a', label g n = Some a' /\ set_hc (iG a') 0 = set_hc a 0.
  Proof.
    intros Hres n a Hl. destruct base_facts as (_ & _ & _ & _ & F5).
    destruct (F5 n a Hl) as (a1 & L1 & S1).
    destruct (left_is_host hb rc m T Hwx Hwr Hm Hg) as (_ & L2 & _). specialize (L2 n). rewrite L1 in L2.
    destruct (label T n) as [t|] eqn:Lt; [|discriminate]. cbn [option_map] in L2. inversion L2 as [E].
    destruct Hres as [->|(ms & He)].
    - exists t. split; [exact Lt|]. rewrite E. exact S1.
    - pose proof (glued_nodup hb rc m T Hwx Hwr Hm Hg) as Hnd.
      destruct (explicit_h_ord_accounting ord ord_in T g ms Hnd He) as (_ & _ & _ & _ & B5 & _).
      destruct (B5 n t Lt) as (t' & Lg & (S2 & _)). exists t'. split; [exact Lg|]. rewrite S2, E. exact S1.
  Qed.

  (** clause (c): the changed bonds *)
  Lemma new_edges_changed h ms : filter is_changed (new_edges h ms) = new_edges h ms.
  Proof. revert h. induction ms as [|sd r IH]; intros h; [reflexivity|]. cbn [new_edges filter]. unfold is_changed at 1 2. cbn. rewrite IH. reflexivity. Qed.

  Theorem result_changed_bonds :
    Permutation (changed_bonds T) (image_changed_bonds m rc) /\
    (forall ms, explicit_h_ord ord T = Some (g, ms) ->
       changed_bonds g = changed_bonds T ++ new_bond_keys (N.succ (max_id T)) ms /\
       forall sd, In sd ms -> same_group T (fst sd) (snd sd) /\ 0 < dl_of T (fst sd) /\ dl_of T (snd sd) < 0).
  Proof.
    split; [exact (changed_bonds_perm hb rc m T Hwx Hwr Hm Hg)|].
    intros ms He. pose proof (glued_nodup hb rc m T Hwx Hwr Hm Hg) as Hnd.
    destruct (explicit_h_ord_wiring ord ord_in T g ms Hnd He) as [E W]. split; [|exact W].
    unfold changed_bonds, new_bond_keys. rewrite E, filter_app, map_app, new_edges_changed. reflexivity.
  Qed.
End One.

(** * the whole list *)
Theorem its_list_sound inp rc l r gs :
  i_rule inp = Some (rc, l, r) -> wf_hostb (i_host inp) = true -> wf_rcb rc = true ->
  forallb (call_okb (has_XH l) (i_host inp) rc) (i_calls inp) = true ->
  spec_its inp = Some gs ->
  forall g, In g gs -> instance_of (i_host inp) rc g.
Proof.
  intros Er Hwh Hwr Hc Hs g Ig. unfold spec_its in Hs. rewrite Er in Hs.
  assert (Hgl : spec_glued inp = glue_all (has_XH l) (i_host inp) rc (i_calls inp) (i_tbls inp)).
  { unfold spec_glued, spec_flag. rewrite Er. reflexivity. }
  assert (Src : exists T tbl, In (T, tbl) (spec_glued inp) /\ (g = T \/ exists ms, explicit_h_ord (ord_of tbl) T = Some (g, ms))).
  { destruct (i_explicit inp).
    - destruct (explicit_all_in _ gs Hs g Ig) as (T & tbl & ms & I & E). exists T, tbl. split; [exact I|]. right. exists ms. exact E.
    - inversion Hs; subst. apply in_map_iff in Ig. destruct Ig as ([T tbl] & <- & I). exists T, tbl. split; [exact I|]. left. reflexivity. }
  destruct Src as (T & tbl & I & Hres). rewrite Hgl in I.
  destruct (glue_all_in _ _ _ _ _ _ _ I) as (c & hb & x & Ic & Eg & R).
  rewrite forallb_forall in Hc. specialize (Hc c Ic). unfold call_okb in Hc.
  assert (K : base_of (i_host inp) hb /\ wf_hostb hb = true /\ match_rcb hb rc x = true).
  { destruct R as [(Ef & -> & ->)|(Ef & rs & Es & Ix & ->)]; rewrite Ef in Hc.
    - split; [left; reflexivity|]. split; [exact Hwh|exact Hc].
    - rewrite Es in Hc. cbn zeta in Hc. apply andb_prop in Hc. destruct Hc as [H1 H2]. rewrite forallb_forall in H2.
      split; [right; eexists; reflexivity|]. split; [exact H1|exact (H2 x Ix)]. }
  destruct K as (Kb & Kw & Km).
  exists hb, x, T, tbl. split; [exact Kb|]. split; [exact Kw|]. split; [exact Km|]. split; [exact Eg|]. split; [exact Hres|].
  destruct (result_sound (ord_of tbl) (ord_of_in tbl) (i_host inp) hb rc x T g Hwh Kb Kw Hwr Km Eg Hres) as (A1 & A2 & A3 & A4).
  destruct (result_changed_bonds (ord_of tbl) (ord_of_in tbl) hb rc x T g Kw Hwr Km Eg) as (C1 & C2).
  destruct (glued_atoms hb rc x T Hwr Km Eg) as (G1 & G2).
  pose proof (result_atoms (ord_of tbl) (ord_of_in tbl) (i_host inp) hb rc x T g Hwh Kb Kw Hwr Km Eg Hres) as A5.
  repeat (split; [assumption|]). exact C2.
Qed.

(** whatever script of reads is run on a fresh reactor: every graph in every list it returns is such an instance *)
Corollary reads_return_instances inp rc l r :
  i_rule inp = Some (rc, l, r) -> wf_hostb (i_host inp) = true -> wf_rcb rc = true ->
  forallb (call_okb (has_XH l) (i_host inp) rc) (i_calls inp) = true -> nocrash inp ->
  forall ops gs, In (Vits gs) (run_ops inp rs0 ops) -> forall g, In g gs -> instance_of (i_host inp) rc g.
Proof.
  intros Er Hwh Hwr Hc Hnc ops gs Iv g Ig. rewrite (reads_stable inp ops Hnc) in Iv.
  apply in_map_iff in Iv. destruct Iv as (op & Ev & _).
  assert (Hs : spec_its inp = Some gs).
  { destruct op; cbn [spec_val] in Ev.
    - destruct (i_rule inp); discriminate.
    - destruct (i_rule inp); discriminate.
    - destruct (i_rule inp); discriminate.
    - destruct (spec_its inp) as [gs'|]; [inversion Ev; reflexivity|discriminate].
    - destruct (spec_smarts inp); discriminate.
    - destruct (spec_smarts inp); discriminate. }
  exact (its_list_sound inp rc l r gs Er Hwh Hwr Hc Hs g Ig).
Qed.

(** * the default mode, from the TEMPLATE: the rule glued is [synrule tpl true]; if the template satisfies [tpl_condition]
    (every stripped hydrogen keeps its number of bonds to the kept heavy atoms, the kept atoms keep the total charge — a
    condition on the template alone, proof/C03_Spec.v) every graph of its_list conserves every element count incl. hydrogen
    and the charge, and has the substrate's composition and bonds on its reactant side *)
From SK Require Import proof.C03_DefaultEnd.
Theorem its_list_default_mode inp tpl rc l r gs :
  i_rule inp = synrule tpl true -> synrule tpl true = Some (rc, l, r) ->
  nodupb (node_ids tpl) = true -> (forall k a, In (k, a) (gnodes tpl) -> a_el (iH a) = a_el (iG a)) ->
  simple_edgesb (gedges tpl) = true -> tpl_condition tpl ->
  wf_hostb (i_host inp) = true -> wf_rcb rc = true ->
  forallb (call_okb (has_XH l) (i_host inp) rc) (i_calls inp) = true ->
  spec_its inp = Some gs ->
  forall g, In g gs ->
    (forall e, elem_count e (fst (its_decompose g)) = elem_count e (snd (its_decompose g))) /\
    total_charge (fst (its_decompose g)) = total_charge (snd (its_decompose g)) /\
    (forall e, elem_count e (fst (its_decompose g)) = elem_count e (mol_of_host (i_host inp))) /\
    total_charge (fst (its_decompose g)) = total_charge (mol_of_host (i_host inp)) /\
    (forall a b, In a (node_ids (i_host inp)) -> In b (node_ids (i_host inp)) -> bondG g a b = adj (i_host inp) a b).
Proof.
  intros Ei Es Hnd Hel Hsi Hc Hwh Hwr Hcalls Hits g Ig. rewrite Es in Ei.
  destruct (its_list_sound inp rc l r gs Ei Hwh Hwr Hcalls Hits g Ig)
    as (hb & m & T & tbl & _ & _ & _ & _ & _ & A1 & A2 & A3 & _ & A4 & _).
  destruct (A4 (default_rule_balanced tpl rc l r Hnd Hel Hsi Es Hc)) as [B1 B2]. auto.
Qed.

(** * the matcher's contract as hypothesis *)
Lemma peq_cases a b u v : peq a b u v = true -> (a = u /\ b = v) \/ (a = v /\ b = u).
Proof.
  unfold peq. intros H. apply orb_prop in H. destruct H as [H|H]; apply andb_prop in H; destruct H as [H1 H2];
    apply N.eqb_eq in H1; apply N.eqb_eq in H2; auto.
Qed.

Theorem match_okb_left host rc l m :
  edges_closedb rc = true -> left_of_rcb rc l = true -> match_okb host l m = true -> match_rcb host rc m = true.
Proof.
  intros Hc Hl H. unfold match_okb in H. unfold match_rcb.
  apply andb_prop in H. destruct H as [H H5]. apply andb_prop in H. destruct H as [H H4].
  apply andb_prop in H. destruct H as [H H3]. rewrite H. clear H. cbn [andb].
  unfold left_of_rcb in Hl. apply andb_prop in Hl. destruct Hl as [Hl L3]. apply andb_prop in Hl. destruct Hl as [L1 L2].
  apply Nat.eqb_eq in L1. apply Nat.eqb_eq in H3. rewrite <- L1, (proj2 (Nat.eqb_eq _ _) H3). cbn [andb].
  rewrite forallb_forall in H4, H5, L2, L3.
  assert (Hn : forall k a, In (k, a) (gnodes rc) -> rc_node_okb host m (k, a) = true).
  { intros k a I. specialize (L2 _ I). unfold node_same in L2. cbn [fst snd] in L2.
    destruct (label l k) as [la|] eqn:El; [|discriminate]. unfold label in El. apply assoc_in in El.
    specialize (H4 _ El). unfold node_okb in H4. unfold rc_node_okb. cbn [fst snd] in *.
    destruct (mget m k) as [h|]; [|discriminate]. destruct (label host h) as [ha|]; [|discriminate].
    apply andb_prop in L2. destruct L2 as [L2 Lh]. apply andb_prop in L2. destruct L2 as [Le Lq].
    apply N.eqb_eq in Le. apply Z.eqb_eq in Lq. apply Z.eqb_eq in Lh. rewrite <- Le, <- Lq, <- Lh. exact H4. }
  apply andb_true_intro. split.
  - apply forallb_forall. intros [k a] I. apply Hn. exact I.
  - apply forallb_forall. intros [[u v] x] I. unfold rc_edge_okb.
    unfold edges_closedb in Hc. rewrite forallb_forall in Hc. pose proof (Hc _ I) as Hc'. cbn [fst snd] in Hc'.
    apply andb_prop in Hc'. destruct Hc' as [Hu Hv]. apply mem_spec in Hu, Hv.
    assert (Hg : forall w, In w (node_ids rc) -> exists h, mget m w = Some h).
    { intros w Iw. unfold node_ids in Iw. apply in_map_iff in Iw. destruct Iw as ([k a] & <- & Iw).
      specialize (Hn k a Iw). unfold rc_node_okb in Hn. cbn [fst] in *. destruct (mget m k); [eauto|discriminate]. }
    destruct (Hg u Hu) as [hu Eu]. destruct (Hg v Hv) as [hv Ev]. rewrite Eu, Ev.
    destruct (0 <? eG x) eqn:Ep; [|reflexivity].
    specialize (L3 _ I). unfold edge_same in L3. cbn [fst snd] in L3. rewrite Ep in L3.
    apply existsb_exists in L3. destruct L3 as ([[a b] o] & If & Hf). cbn [fst snd] in Hf.
    apply andb_prop in Hf. destruct Hf as [Hp Ho]. apply Z.eqb_eq in Ho. subst o.
    specialize (H5 _ If). unfold edge_okb in H5.
    destruct (peq_cases a b u v Hp) as [[-> ->]|[-> ->]].
    + rewrite Eu, Ev in H5. exact H5.
    + rewrite Eu, Ev in H5. rewrite adj_sym. exact H5.
Qed.

Lemma call_okm_okb host rc l c : edges_closedb rc = true -> left_of_rcb rc l = true ->
  call_okm host l c = true -> call_okb (has_XH l) host rc c = true.
Proof.
  intros Hc Hl H. unfold call_okm in H. unfold call_okb. destruct (has_XH l).
  - destruct (snd c) as [rs|]; [|reflexivity]. cbn zeta in *. apply andb_prop in H. destruct H as [H1 H2]. rewrite H1. cbn [andb].
    rewrite forallb_forall in H2. apply forallb_forall. intros x Ix. exact (match_okb_left _ rc l x Hc Hl (H2 x Ix)).
  - exact (match_okb_left host rc l _ Hc Hl H).
Qed.

Theorem its_list_sound_matcher inp rc l r gs :
  i_rule inp = Some (rc, l, r) -> matcher_hyps_okb (i_rule inp) (i_host inp) (i_calls inp) = true ->
  spec_its inp = Some gs -> forall g, In g gs -> instance_of (i_host inp) rc g.
Proof.
  intros Er Hh Hs g Ig. rewrite Er in Hh. unfold matcher_hyps_okb in Hh.
  apply andb_prop in Hh. destruct Hh as [Hh H5]. apply andb_prop in Hh. destruct Hh as [Hh H4].
  apply andb_prop in Hh. destruct Hh as [Hh H3]. apply andb_prop in Hh. destruct Hh as [H1 H2].
  apply (its_list_sound inp rc l r gs Er H1 H2); [|exact Hs|exact Ig].
  rewrite forallb_forall in H5. apply forallb_forall. intros c Ic. exact (call_okm_okb _ rc l c H3 H4 (H5 c Ic)).
Qed.

(** [left_of_rcb] holds by construction in the implicit-template mode (the rule is the template, its left graph the
    template's reactant side); in the default mode it is evaluated on every scripted case *)
Lemma left_of_rcb_dec tpl : NoDup (node_ids tpl) -> left_of_rcb tpl (fst (its_decompose tpl)) = true.
Proof.
  intros Hnd. unfold left_of_rcb, its_decompose, dec_side. cbn [fst gnodes gedges]. rewrite map_length, Nat.eqb_refl. cbn [andb].
  apply andb_true_intro. split.
  - apply forallb_forall. intros [k a] I. unfold node_same, label. cbn [fst snd gnodes].
    rewrite (assoc_nodup_in k _ (dec_node (iG a))).
    + cbn [dec_node m_el m_ch m_hc]. rewrite N.eqb_refl, !Z.eqb_refl. reflexivity.
    + rewrite map_map. cbn [fst]. exact Hnd.
    + apply in_map_iff. exists (k, a). split; [reflexivity|exact I].
  - apply forallb_forall. intros [[u v] x] I. unfold edge_same. cbn [fst snd gedges]. destruct (0 <? eG x) eqn:Ep; [|reflexivity].
    apply existsb_exists. exists (u, v, eG x). split.
    + apply in_flat_map. exists (u, v, x). split; [exact I|]. rewrite Ep. left. reflexivity.
    + cbn [fst snd]. unfold peq. rewrite !N.eqb_refl, Z.eqb_refl. reflexivity.
Qed.

