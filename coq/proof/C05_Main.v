(** C05 — part 6: the result-list theorem for every strategy (parts 3-5 composed). Stdlib lists. *)
From Coq Require Import List NArith ZArith Bool Arith Lia.
From SK Require Import lib.Tok lib.LGraph lib.Mono.
From SK Require model.C06_Model model.C11_Model.
From SK Require Import model.C03_Model model.C05_Model proof.C05_Proof proof.C05_Glue proof.C05_Pipe proof.C05_Prep proof.C05_Comp.
Import ListNotations.

Section WithThr.
Context {TH : Thr}.


Lemma kept_relabel strat sg pi (Hs : inj sg) (Hp : inj pi) host p :
  kept_of strat (relabel pi host) (relabel_prep sg p) = map (mv sg pi) (kept_of strat host p).
Proof.
  unfold kept_of, raw_of; simpl. rewrite matches_relabel by assumption. apply prune_relabel; assumption.
Qed.

Lemma glued_relabel strat sg pi (Hs : inj sg) (Hp : inj pi) host p :
  p_flag p = false ->
  glued_of strat (relabel pi host) (relabel_prep sg p) = map (relabel pi) (glued_of strat host p).
Proof.
  intros Hflag. unfold glued_of. rewrite kept_relabel by assumption.
  rewrite flat_map_map', map_flat_map'. apply flat_map_ext. intros m.
  unfold glue_all, glue_base; simpl. rewrite Hflag. simpl. rewrite !app_nil_r.
  rewrite glue_equivariant by assumption. destruct (glue host (p_rc p) m); reflexivity.
Qed.

Lemma results_relabel strat sg pi (Hs : inj sg) (Hp : inj pi) host p :
  p_flag p = false ->
  results_of false strat (relabel pi host) (relabel_prep sg p) = option_map (map (relabel pi)) (results_of false strat host p).
Proof. intros Hflag. unfold results_of. simpl. rewrite glued_relabel by assumption. reflexivity. Qed.

Lemma pipeline_relabel_any strat sg pi (Hs : inj sg) (Hp : inj pi) inv (host : hostg) (T : its) p :
  prepare inv true T = Some p -> p_flag p = false ->
  pipeline inv true false strat (relabel pi host) (relabel sg T) = option_map (map (relabel pi)) (pipeline inv true false strat host T).
Proof.
  intros Hprep Hflag. unfold pipeline. rewrite (prepare_relabel sg Hs inv T p Hprep Hflag), Hprep.
  apply results_relabel; assumption.
Qed.

End WithThr.
