(** C10 — proofs, part 32: graph_to_mol depends on the node order and the two lookups only; hence making the hydrogens of a molecule
    graph explicit and implicit again hands RDKit the same molecule. *)
From Coq Require Import String List NArith ZArith Bool Lia.
From SK Require Import lib.Tok lib.LGraph lib.StrJoin model.C10_Model proof.C10_Views proof.C10_Build proof.C10_Copy proof.C10_MolGraph
  proof.C10_Light proof.C10_Hydrogen proof.C10_HRound proof.C10_HRoundIts proof.C10_ImpH proof.C10_G2MSpec.
Import ListNotations.
Local Open Scope Z_scope.

Lemma assoc_list_ext (l1 : list (N * natt)) : forall l2, NoDup (map fst l1) -> map fst l1 = map fst l2 ->
  (forall n, assoc n l1 = assoc n l2) -> l1 = l2.
Proof.
  induction l1 as [|[k a] t IH]; intros l2 Hnd E HL.
  - destruct l2; [reflexivity|discriminate].
  - destruct l2 as [|[k2 a2] t2]; [discriminate|]. simpl in E. injection E as Ek E. subst k. simpl in Hnd. apply NoDup_cons_iff in Hnd. destruct Hnd as [Hnot Hnd'].
    pose proof (HL k2) as H0. simpl in H0. rewrite N.eqb_refl in H0. assert (a = a2) as -> by congruence. f_equal. apply IH; [exact Hnd'|exact E|].
    intros n0. specialize (HL n0). simpl in HL. destruct (N.eqb_spec n0 k2) as [En|Hne]; [subst n0|exact HL].
    assert (assoc k2 t = None) as ->.
    { destruct (assoc k2 t) eqn:A; [|reflexivity]. exfalso. apply Hnot. apply assoc_in in A. apply (in_map fst _ _ A). }
    assert (assoc k2 t2 = None) as ->; [|reflexivity].
    destruct (assoc k2 t2) eqn:A; [|reflexivity]. exfalso. apply Hnot. rewrite E. apply assoc_in in A. apply (in_map fst _ _ A).
Qed.
Lemma gnodes_ext (G1 G2 : gr) : NoDup (node_ids G1) -> node_ids G1 = node_ids G2 -> (forall n, label G1 n = label G2 n) -> gnodes G1 = gnodes G2.
Proof. apply assoc_list_ext. Qed.

Theorem graph_to_mol_ext (G1 G2 : gr) : gwf G1 -> gwf G2 ->
  (forall u v x, adj G1 u v = Some x -> u <> v /\ scalar_ord x) ->
  node_ids G1 = node_ids G2 -> (forall n, label G1 n = label G2 n) -> (forall u v, adj G1 u v = adj G2 u v) ->
  exists atoms b1 b2, graph_to_mol G1 = Some (atoms, b1) /\ graph_to_mol G2 = Some (atoms, b2) /\
                      forall i j, bond_find i j b1 = bond_find i j b2.
Proof.
  intros W1 W2 Hm1 Eids HL HA.
  assert (forall u v x, adj G2 u v = Some x -> u <> v /\ scalar_ord x) as Hm2 by (intros u v x A; rewrite <- HA in A; apply (Hm1 u v x A)).
  destruct (graph_to_mol_spec G1 W1 Hm1) as (b1 & E1 & S1 & T1). destruct (graph_to_mol_spec G2 W2 Hm2) as (b2 & E2 & S2 & T2).
  rewrite <- (gnodes_ext G1 G2 (gwf_nd G1 W1) Eids HL) in E2. rewrite <- Eids in S2, T2.
  eexists. exists b1, b2. split; [exact E1|split; [exact E2|]].
  intros i j. destruct (bond_find i j b1) as [t|] eqn:F1.
  - destruct (T1 i j t F1) as (u & v & Iu & Iv). rewrite (S1 u v i j Iu Iv) in F1. rewrite (S2 u v i j Iu Iv), <- HA. symmetry. exact F1.
  - destruct (bond_find i j b2) as [t|] eqn:F2; [|reflexivity]. destruct (T2 i j t F2) as (u & v & Iu & Iv).
    rewrite (S1 u v i j Iu Iv) in F1. rewrite (S2 u v i j Iu Iv), <- HA in F2. congruence.
Qed.

(** well-formedness of the two hydrogen conversions *)
Lemma himp_step_gwf (G : gr) h : gwf G -> gwf (himp_step G h).
Proof.
  intros W. unfold himp_step. destruct (filter _ (nbrs G h)) as [|x r]; [exact W|]. apply gwf_remove_node.
  apply gwf_fold_set; [|exact W]. intros G' n W'. apply gwf_set_node, W'.
Qed.
Lemma h_to_implicit_gwf (g : gr) : gwf g -> gwf (h_to_implicit g).
Proof.
  intros W. unfold h_to_implicit. cbv zeta. apply gwf_fold_set; [|apply gwf_copy, W]. intros G h WG. apply himp_step_gwf, WG.
Qed.
Lemma h_to_explicit_gwf (g : gr) (nodes : option (list N)) : gwf g -> gwf (h_to_explicit g nodes false).
Proof.
  intros W.
  assert (lab_ok g (copy g) []) as L0.
  { intros n _. rewrite label_copy. destruct (label g n); reflexivity. }
  assert (cnt_ok g [] []) as C0 by (intros n a _; reflexivity).
  destruct (hexp_fold_inv_any g W (exp_nodes g nodes) (copy g) (max_id g) [] [] (EInv0 g W) L0 C0) as (P & IE & _).
  cbv zeta in IE. rewrite h_to_explicit_false. exact (ei_wf _ _ _ _ IE).
Qed.

(** explicit and implicit again: the molecule handed to RDKit is the same (molecule graphs: no typesGH, no explicit hydrogens) *)
Theorem h_roundtrip_molecule (g : gr) : gwfb g = true -> no_H g = true -> no_tgh g = true ->
  (forall u v x, adj g u v = Some x -> u <> v /\ scalar_ord x) ->
  exists atoms b1 b2, graph_to_mol (h_to_implicit (h_to_explicit g None false)) = Some (atoms, b1) /\ graph_to_mol g = Some (atoms, b2) /\
                      forall i j, bond_find i j b1 = bond_find i j b2.
Proof.
  intros Hw Hh Ht Hm. pose proof (gwfb_gwf g Hw) as W. destruct (h_roundtrip_mol g Hw Hh Ht) as (A & B & C). cbv zeta in A, B, C.
  set (g' := h_to_implicit (h_to_explicit g None false)) in *.
  assert (gwf g') as W' by (apply h_to_implicit_gwf, h_to_explicit_gwf, W).
  apply (graph_to_mol_ext g' g W' W).
  - intros u v x Ax. rewrite C in Ax. apply (Hm u v x Ax).
  - exact A.
  - exact B.
  - exact C.
Qed.


(** ... for ANY node list (a subset, a single reactive atom, staged use): the hydrogens of the chosen atoms made explicit and
    everything folded back hands RDKit the same molecule *)
Theorem h_roundtrip_molecule_nodes (g : gr) (nodes : option (list N)) : gwfb g = true -> no_H g = true -> no_tgh g = true ->
  (forall u v x, adj g u v = Some x -> u <> v /\ scalar_ord x) ->
  exists atoms b1 b2, graph_to_mol (h_to_implicit (h_to_explicit g nodes false)) = Some (atoms, b1) /\ graph_to_mol g = Some (atoms, b2) /\
                      forall i j, bond_find i j b1 = bond_find i j b2.
Proof.
  intros Hw Hh Ht Hm. pose proof (gwfb_gwf g Hw) as W. destruct (h_roundtrip_nodes g nodes Hw Hh) as (A & B & C). cbv zeta in A, B, C.
  set (g' := h_to_implicit (h_to_explicit g nodes false)) in *.
  assert (gwf g') as W' by (apply h_to_implicit_gwf, h_to_explicit_gwf, W).
  apply (graph_to_mol_ext g' g W' W).
  - intros u v x Ax. rewrite C in Ax. apply (Hm u v x Ax).
  - exact A.
  - intros n. destruct (label g n) as [a|] eqn:La.
    + rewrite (B n a La). f_equal. destruct (mem n (exp_nodes g nodes)); [|reflexivity].
      unfold h_restore. apply assoc_in in La. unfold no_tgh in Ht. rewrite forallb_forall in Ht. specialize (Ht _ La). simpl in Ht.
      destruct a as [el ar hc ch am [t|]]; [discriminate|]. simpl. destruct (0 <? _); reflexivity.
    + apply has_node_false in La. apply has_node_false. apply not_true_is_false. intros E.
      apply has_node_in in E. rewrite A in E. apply has_node_in in E. congruence.
  - exact C.
Qed.

(** non-vacuity: methylamine *)
Example h_roundtrip_molecule_ex :
  gwfb ex_methylamine = true /\ no_H ex_methylamine = true /\ no_tgh ex_methylamine = true /\
  List.length (gnodes (h_to_explicit ex_methylamine None false)) = 7%nat /\
  graph_to_mol (h_to_implicit (h_to_explicit ex_methylamine None false)) = graph_to_mol ex_methylamine /\ graph_to_mol ex_methylamine <> None.
Proof. vm_compute. repeat split. discriminate. Qed.
