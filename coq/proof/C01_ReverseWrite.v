(** C01 — "every reversal" carried through to the writer: for a balanced reaction whose atoms keep their element, what
    its_to_rsmi hands to GraphToMol for the reversed reaction is, side for side exchanged, what it hands over for the
    reaction itself (same preserve set, same folding) *)
From Coq Require Import List NArith ZArith Bool Lia Arith Permutation.
From SK Require Import lib.LGraph lib.C01_GraphLemmas model.C01_Model model.C02_Model model.C01_String model.C01_Rewrite
  proof.C01_Proof proof.C02_Proof proof.C01_StringProof proof.C01_StringHyd proof.C01_StringHydExt proof.C01_StringPipe
  proof.C01_RenumWrite proof.C01_RewriteProof proof.C01_WriteExt.
Import ListNotations.
Local Open Scope Z_scope.

Section Rev.
Variables G H : mgraph.
Hypothesis WG : wf G.
Hypothesis WH : wf H.
Hypothesis S : same_nodes G H.
Hypothesis AG : amap_id G.
Hypothesis AH : amap_id H.
(** no atom changes its element *)
Hypothesis EL : forall n a b, label G n = Some a -> label H n = Some b -> g_el a = g_el b.

Let I := its_construct G H.
Let I' := its_construct H G.

Lemma WI : wf I. Proof. apply its_wf; assumption. Qed.
Lemma WI' : wf I'. Proof. apply its_wf; assumption. Qed.

Lemma rev_label n : label I' n = option_map swap_inode (label I n).
Proof. apply (reverse_its G H WG WH S AG AH). Qed.
Lemma rev_adj u v : adj I' u v = option_map swap_iedge (adj I u v).
Proof. apply (reverse_its G H WG WH S AG AH). Qed.

Lemma el_swap n a : label I n = Some a -> i_el (swap_inode a) = i_el a.
Proof.
  intros L. destruct (its_label_types G H n a L) as (Eg & Eh & Ee & _). unfold swap_inode. cbn [i_el]. rewrite Ee, Eh.
  unfold side_tuple.
  assert (In n (node_ids I)) as In_ by (eapply label_some_node; eauto).
  apply its_node_ids in In_.
  assert (In n (node_ids G) /\ In n (node_ids H)) as [IG IH] by (destruct In_ as [K|K]; split; try exact K; apply S; exact K).
  apply node_label_some in IG, IH. destruct IG as (a1 & L1), IH as (b1 & L2). rewrite L1, L2. cbn. symmetry. apply (EL n a1 b1 L1 L2).
Qed.

Lemma rev_is_h n : is_h I' n = is_h I n.
Proof.
  unfold is_h. rewrite rev_label. destruct (label I n) as [a|] eqn:L; [|reflexivity]. cbn [option_map]. rewrite (el_swap n a L). reflexivity.
Qed.

Lemma rev_node_ids n : In n (node_ids I') <-> In n (node_ids I).
Proof.
  split; intros K; apply node_label_some in K; destruct K as (a & L).
  - rewrite rev_label in L. destruct (label I n) as [b|] eqn:Lb; [eapply label_some_node; eauto|discriminate].
  - assert (label I' n = Some (swap_inode a)) as L' by (rewrite rev_label, L; reflexivity). eapply label_some_node; eauto.
Qed.

Lemma changed_swap x : changed (swap_iedge x) = changed x.
Proof. unfold changed, swap_iedge. cbn. destruct (Z.eqb_spec (e_std x) 0), (Z.eqb_spec (- e_std x) 0); try reflexivity; lia. Qed.

Lemma rev_rc_keys k : In k (node_ids (get_rc I')) <-> In k (node_ids (get_rc I)).
Proof.
  rewrite (rc_keys_adj I' k WI'), (rc_keys_adj I k WI), rev_node_ids. unfold is_hh.
  split; intros (Ik & v & x & Ad & Hs); (split; [exact Ik|]).
  - rewrite rev_adj in Ad. destruct (adj I k v) as [y|] eqn:Ay; [|discriminate]. cbn [option_map] in Ad. inversion Ad; subst x.
    exists v, y. split; [exact Ay|]. rewrite changed_swap, !rev_is_h in Hs. exact Hs.
  - exists v, (swap_iedge x). split; [rewrite rev_adj, Ad; reflexivity|]. rewrite changed_swap, !rev_is_h. exact Hs.
Qed.

Lemma rev_hlist z : In z (hlist I') <-> In z (hlist I).
Proof.
  rewrite (hlist_members I' z WI'), (hlist_members I z WI). split.
  - intros (n & b & L & Hb & Ez). pose proof (label_some_node L) as Ik. apply rev_rc_keys in Ik.
    apply rc_label_sound in L. destruct L as (a' & La' & ->). rewrite rev_label in La'.
    destruct (label I n) as [a|] eqn:La; [|discriminate]. inversion La'; subst a'.
    exists n, (rc_attr a). split; [apply rc_label_keys; assumption|]. cbn [rc_attr i_el i_amap] in *. rewrite (el_swap n a La) in Hb. auto.
  - intros (n & b & L & Hb & Ez). pose proof (label_some_node L) as Ik. apply rev_rc_keys in Ik.
    apply rc_label_sound in L. destruct L as (a & La & ->).
    exists n, (rc_attr (swap_inode a)). split; [apply rc_label_keys; [exact Ik|rewrite rev_label, La; reflexivity]|].
    cbn [rc_attr i_el i_amap] in *. rewrite (el_swap n a La). auto.
Qed.

(** C01_reverse_written *)
Theorem reverse_written :
  (forall z, In z (hlist I') <-> In z (hlist I)) /\
  geq (fst (its_to_graphs I')) (snd (its_to_graphs I)) /\ geq (snd (its_to_graphs I')) (fst (its_to_graphs I)).
Proof.
  split; [exact rev_hlist|].
  destruct (reverse_its G H WG WH S AG AH) as (_ & _ & G1 & G2). fold I I' in G1, G2.
  unfold its_to_graphs. cbn [fst snd].
  split; apply smi_graph_ext; try assumption; try (apply dec_wf; first [exact WI|exact WI']); exact rev_hlist.
Qed.
End Rev.

Example C01_reverse_written_nonvacuous :
  let G := graph_of C01_RenumWrite.ex_hr in let H := graph_of C01_RenumWrite.ex_hp in
  same_nodes G H /\ amap_id G /\ amap_id H /\ (forall n a b, label G n = Some a -> label H n = Some b -> g_el a = g_el b) /\
  hlist (its_construct H G) = [3; 4] /\ hlist (its_construct G H) = [3; 4].
Proof.
  cbv zeta. split; [intros n; cbn; tauto|].
  assert (forall X, X = graph_of C01_RenumWrite.ex_hr \/ X = graph_of C01_RenumWrite.ex_hp -> amap_id X) as AM.
  { intros X [-> | ->] n a L; apply assoc_in in L; cbn in L; repeat (destruct L as [E|L]; [inversion E; reflexivity|]); destruct L. }
  split; [apply AM; left; reflexivity|]. split; [apply AM; right; reflexivity|]. split; [|split; reflexivity].
  intros n a b La Lb. apply assoc_in in La, Lb. cbn in La, Lb.
  repeat (destruct La as [E|La]; [inversion E; subst; repeat (destruct Lb as [E'|Lb]; [inversion E'; subst; try reflexivity|]); try destruct Lb|]); try destruct La.
Qed.
