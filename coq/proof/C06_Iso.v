(** C06 — invariance under renaming of node ids and re-ordering of the node / edge lists: the set of
    label-preserving monomorphisms (and of the separating ones) of a pair (H, P) corresponds, through the
    renamings, to that of every isomorphic presentation (H', P').  This is what justifies checking ONE
    presentation per isomorphism class in the exhaustive populations. *)
From Coq Require Import List NArith Bool Arith Lia Permutation SetoidList Relations.
From SK Require Import lib.LGraph lib.Mono lib.Reach model.C06_Model lib.C06_Spec proof.C06_All proof.C06_Comps proof.C06_Main.
Import ListNotations.

(** [G'] is [G] with node ids renamed by [f] (inverse [f'] on the ids of [G']); node / edge list order is free *)
Record presents (f f' : N -> N) (G G' : graph) : Prop := {
  pr_in : forall u, In u (node_ids G) -> In (f u) (node_ids G');
  pr_in' : forall u', In u' (node_ids G') -> In (f' u') (node_ids G);
  pr_inv : forall u, In u (node_ids G) -> f' (f u) = u;
  pr_inv' : forall u', In u' (node_ids G') -> f (f' u') = u';
  pr_lab : forall u, In u (node_ids G) -> lab G' (f u) = lab G u;
  pr_adj : forall u v, In u (node_ids G) -> In v (node_ids G) -> LGraph.adj G' (f u) (f v) = LGraph.adj G u v }.

Lemma presents_sym f f' G G' : presents f f' G G' -> presents f' f G' G.
Proof.
  intros [A B C D E F]. constructor; auto.
  - intros u' Hu'. rewrite <- (E (f' u') (B u' Hu')), (D u' Hu'). reflexivity.
  - intros u' v' Hu' Hv'. rewrite <- (F (f' u') (f' v') (B u' Hu') (B v' Hv')), (D u' Hu'), (D v' Hv'). reflexivity.
Qed.

Definition rename (g f : N -> N) (m : mapping) : mapping := map (fun ph => (g (fst ph), f (snd ph))) m.

Lemma in_rename g f m p' h' : In (p', h') (rename g f m) <-> exists p h, In (p, h) m /\ p' = g p /\ h' = f h.
Proof.
  unfold rename. rewrite in_map_iff. split.
  - intros ([p h] & E & Hin). inversion E; subst. exists p, h. auto.
  - intros (p & h & Hin & -> & ->). exists (p, h). auto.
Qed.

Lemma NoDup_map_inj_on {X Y} (f : X -> Y) l :
  (forall a b, In a l -> In b l -> f a = f b -> a = b) -> NoDup l -> NoDup (map f l).
Proof.
  intros Hinj Hnd. induction Hnd as [|x l Hx Hnd IH]; simpl; constructor.
  - rewrite in_map_iff. intros (y & E & Hy). apply Hx.
    rewrite (Hinj x y (or_introl eq_refl) (or_intror Hy) (eq_sym E)). exact Hy.
  - apply IH. intros a b Ha Hb. apply Hinj; right; assumption.
Qed.

Lemma is_mono_presents f f' g g' (H H' P P' : graph) m :
  presents f f' H H' -> presents g g' P P' -> is_mono H P m -> is_mono H' P' (rename g f m).
Proof.
  intros PH PP (A & B & C & D & E).
  assert (Hp : forall p h, In (p, h) m -> In p (node_ids P)).
  { intros p h Hin. apply B. change p with (fst (p, h)). apply in_map. exact Hin. }
  assert (Hh : forall p h, In (p, h) m -> In h (node_ids H)) by (intros p h Hin; exact (proj1 (D p h Hin))).
  unfold is_mono, is_mono_on. split; [|split; [|split; [|split]]].
  - unfold rename. rewrite map_map. simpl. rewrite <- (map_map fst g).
    apply NoDup_map_inj_on; [|exact A].
    intros a b Ha Hb Eab. apply B in Ha. apply B in Hb.
    rewrite <- (pr_inv _ _ _ _ PP a Ha), <- (pr_inv _ _ _ _ PP b Hb), Eab. reflexivity.
  - intros p'. unfold rename. rewrite map_map. simpl. rewrite <- (map_map fst g). rewrite in_map_iff. split.
    + intros (p & <- & Hin). apply (pr_in _ _ _ _ PP). apply B. exact Hin.
    + intros Hin. exists (g' p'). split; [apply (pr_inv' _ _ _ _ PP); exact Hin|].
      apply B. apply (pr_in' _ _ _ _ PP). exact Hin.
  - unfold rename. rewrite map_map. simpl. rewrite <- (map_map snd f).
    apply NoDup_map_inj_on; [|exact C].
    intros a b Ha Hb Eab. apply in_map_iff in Ha. apply in_map_iff in Hb.
    destruct Ha as ([pa ha] & <- & Ia), Hb as ([pb hb] & <- & Ib). simpl in *.
    rewrite <- (pr_inv _ _ _ _ PH ha (Hh _ _ Ia)), <- (pr_inv _ _ _ _ PH hb (Hh _ _ Ib)), Eab. reflexivity.
  - intros p' h' Hin. apply in_rename in Hin. destruct Hin as (p & h & Hin & -> & ->).
    destruct (D p h Hin) as [Dh Dn]. split; [apply (pr_in _ _ _ _ PH); exact Dh|].
    rewrite (pr_lab _ _ _ _ PH h Dh), (pr_lab _ _ _ _ PP p (Hp _ _ Hin)). exact Dn.
  - intros p1' h1' p2' h2' b I1 I2 Hadj.
    apply in_rename in I1. apply in_rename in I2.
    destruct I1 as (p1 & h1 & I1 & -> & ->), I2 as (p2 & h2 & I2 & -> & ->).
    rewrite (pr_adj _ _ _ _ PP p1 p2 (Hp _ _ I1) (Hp _ _ I2)) in Hadj.
    destruct (E p1 h1 p2 h2 b I1 I2 Hadj) as (b' & Hb' & Hem). exists b'. split; [|exact Hem].
    rewrite (pr_adj _ _ _ _ PH h1 h2 (Hh _ _ I1) (Hh _ _ I2)). exact Hb'.
Qed.

(** connectivity is preserved (both graphs well-formed) *)
Lemma gconn_presents f f' (G G' : graph) : gwf G -> presents f f' G G' ->
  forall x y, In x (node_ids G) -> gconn G x y -> gconn G' (f x) (f y).
Proof.
  intros WG PG x y Hx Hc. unfold gconn in *.
  apply clos_rt_rt1n in Hc. induction Hc as [x|x z y Hxz Hzy IH].
  - apply rt_refl.
  - destruct (adjacent_nodes G x z WG Hxz) as [_ Hz].
    apply rt_trans with (f z); [|exact (IH Hz)].
    apply rt_step. unfold adjacent in *. rewrite (pr_adj _ _ _ _ PG x z Hx Hz). exact Hxz.
Qed.

Lemma separating_presents f f' g g' (H H' P P' : graph) m :
  gwf H' -> presents f f' H H' -> presents g g' P P' -> gwf P -> is_mono H P m ->
  separating H P m -> separating H' P' (rename g f m).
Proof.
  intros WH' PH PP WP (A & B & C & D & E) Hs p1' h1' p2' h2' I1 I2 Hc.
  apply in_rename in I1. apply in_rename in I2.
  destruct I1 as (p1 & h1 & I1 & -> & ->), I2 as (p2 & h2 & I2 & -> & ->).
  assert (Hp1 : In p1 (node_ids P)) by (apply B; change p1 with (fst (p1, h1)); apply in_map; exact I1).
  assert (Hh1 : In h1 (node_ids H)) by exact (proj1 (D _ _ I1)).
  assert (Hh2 : In h2 (node_ids H)) by exact (proj1 (D _ _ I2)).
  apply (gconn_presents g g' P P' WP PP p1 p2 Hp1).
  apply (Hs p1 h1 p2 h2 I1 I2).
  pose proof (gconn_presents f' f H' H WH' (presents_sym _ _ _ _ PH) (f h1) (f h2) (pr_in _ _ _ _ PH h1 Hh1) Hc) as Hc'.
  rewrite (pr_inv _ _ _ _ PH h1 Hh1), (pr_inv _ _ _ _ PH h2 Hh2) in Hc'. exact Hc'.
Qed.

Lemma rename_perm g f m m' : Permutation m m' -> Permutation (rename g f m) (rename g f m').
Proof. apply Permutation_map. Qed.

(** exhaustive strategy, no limits: the results of two presentations correspond through the renamings *)
Theorem all_presentation_invariant enum enum' T T' strict strict' f f' g g' (H H' P P' : graph) :
  presents f f' H H' -> presents g g' P P' ->
  vf2_contract enum H P (node_ids H) (node_ids P) -> vf2_contract enum' H' P' (node_ids H') (node_ids P') ->
  (lenN (enum (node_ids H) (node_ids P)) <= T)%N -> (lenN (enum' (node_ids H') (node_ids P')) <= T')%N ->
  forall m, In m (find enum (Cfg 0 0 T strict false) H P) ->
  exists m', In m' (find enum' (Cfg 0 0 T' strict' false) H' P') /\ Permutation (rename g f m) m'.
Proof.
  intros PH PP C1 C2 L1 L2 m Hm.
  destruct (all_exact enum T strict H P C1 L1) as (S1 & _ & _).
  destruct (all_exact enum' T' strict' H' P' C2 L2) as (_ & S2 & _).
  apply S2. apply (is_mono_presents f f' g g' H H' P P' m PH PP). apply S1. exact Hm.
Qed.

(** component-aware strategy, no limits, with the equality of the component counts of the two
    presentations as a premise (discharged in proof/C06_IsoCount.v: [comps_count_presents]) *)
Theorem comp_presentation_invariant_partial enum enum' strict f f' g g' (H H' P P' : graph) :
  gwf H -> gwf P -> gwf H' -> gwf P' ->
  presents f f' H H' -> presents g g' P P' ->
  oracle_ok enum H P -> oracle_ok enum' H' P' ->
  length (comps H') = length (comps H) -> length (comps P') = length (comps P) ->
  exists T0 : N, forall T : N, (T0 <= T)%N ->
  forall m, In m (find enum (Cfg 1 0 T strict false) H P) ->
  exists m', In m' (find enum' (Cfg 1 0 T strict false) H' P') /\ Permutation (rename g f m) m'.
Proof.
  intros WH WP WH' WP' PH PP O1 O2 EH EP.
  destruct (comp_spec enum strict H P WH WP O1) as (T1 & HT1).
  destruct (comp_spec enum' strict H' P' WH' WP' O2) as (T2 & HT2).
  exists (N.max T1 T2). intros T HT m Hm.
  specialize (HT1 T ltac:(lia)). specialize (HT2 T ltac:(lia)). cbv zeta in HT1, HT2.
  destruct HT1 as [_ C1]. destruct HT2 as [_ C2]. rewrite EH, EP in C2.
  destruct ((0 <? length (comps P)) && (length (comps P) <? length (comps H)) && strict).
  - rewrite C1 in Hm. destruct Hm.
  - destruct (length (comps H) <? length (comps P)).
    + destruct C1 as [S1 _]. destruct C2 as [_ S2]. apply S2.
      apply (is_mono_presents f f' g g' H H' P P' m PH PP). apply S1. exact Hm.
    + destruct C1 as [S1 _]. destruct C2 as [_ S2]. destruct (S1 m Hm) as [Hmono Hsep]. apply S2.
      * exact (is_mono_presents f f' g g' H H' P P' m PH PP Hmono).
      * exact (separating_presents f f' g g' H H' P P' m WH' PH PP WP Hmono Hsep).
Qed.

(** ---------- non-vacuity: a path O-C-C presented twice (ids and list orders differ) ---------- *)
Local Open Scope N_scope.
Definition Ha : graph := LG [ (1, ([1], 0)); (2, ([1], 0)); (3, ([2], 1)) ] [ (1, 2, [1]); (2, 3, [1]) ].
Definition Hb : graph := LG [ (7, ([2], 1)); (5, ([1], 0)); (9, ([1], 0)) ] [ (7, 5, [1]); (5, 9, [1]) ].
Definition Pa : graph := LG [ (1, ([1], 0)); (2, ([2], 0)) ] [ (1, 2, [1]) ].
Definition Pb : graph := LG [ (4, ([2], 0)); (8, ([1], 0)) ] [ (8, 4, [1]) ].
Definition fH (u : N) : N := match u with 1 => 9 | 2 => 5 | 3 => 7 | _ => 0 end.
Definition fH' (u : N) : N := match u with 9 => 1 | 5 => 2 | 7 => 3 | _ => 0 end.
Definition fP (u : N) : N := match u with 1 => 8 | 2 => 4 | _ => 0 end.
Definition fP' (u : N) : N := match u with 8 => 1 | 4 => 2 | _ => 0 end.

Ltac fin_nodes := simpl; intros; repeat match goal with H : _ \/ _ |- _ => destruct H | H : False |- _ => destruct H end; subst; vm_compute; auto 10.

Lemma presents_Hab : presents fH fH' Ha Hb.
Proof. constructor; fin_nodes. Qed.
Lemma presents_Pab : presents fP fP' Pa Pb.
Proof. constructor; fin_nodes. Qed.

Example ex_presentation :
  find (monos_on Ha Pa) (Cfg 0 0 5000 true false) Ha Pa = [[(2, 3); (1, 2)]] /\
  find (monos_on Hb Pb) (Cfg 0 0 5000 true false) Hb Pb = [[(8, 5); (4, 7)]] /\
  Permutation (rename fP fH [(2, 3); (1, 2)]) [(8, 5); (4, 7)].
Proof.
  split; [vm_compute; reflexivity|split; [vm_compute; reflexivity|]].
  vm_compute. apply perm_swap.
Qed.
