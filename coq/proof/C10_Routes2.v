(** C10 — proofs, part 11: the centre of the centre is the centre; exporting the full ITS with core=True and exporting
    its centre give rules that read back to the same ITS. *)
From Coq Require Import String List NArith ZArith Bool Lia.
From SK Require Import lib.Tok lib.LGraph lib.StrJoin model.C10_Model proof.C10_Proof proof.C10_Views proof.C10_Build
  proof.C10_Copy proof.C10_GmlRead proof.C10_GmlWrite proof.C10_Centre proof.C10_HRound.
Import ListNotations.
Local Open Scope Z_scope.

Lemma rc_attr_idem a : rc_attr (rc_attr a) = rc_attr a.
Proof. reflexivity. Qed.

Section Idem.
Variable I : gr.
Hypothesis HI : is_ok I.
Let W := proj1 HI.
Let rc := get_rc I.

Lemma rc_adj_some p q x : adj rc p q = Some x -> adj I p q = Some x /\ sel I p q x = true.
Proof.
  unfold rc. rewrite (get_rc_adj I p q HI). destruct (adj I p q) as [y|]; [|discriminate].
  destruct (sel I p q y) eqn:S; [|discriminate]. intros [= ->]. auto.
Qed.
Lemma rc_label_touched m : touched I m = true -> exists a, label I m = Some a /\ label rc m = Some (rc_attr a).
Proof.
  intros T. unfold rc. rewrite (get_rc_label I m HI), T.
  apply (touched_spec I m W) in T. destruct T as (w & x & A & _).
  apply find_some_in in A. destruct A as (a0 & b0 & Hin & P). destruct (gwf_cl I W a0 b0 x Hin) as [Ha Hb].
  assert (has_node I m = true) as Hm by (apply pair_eqb_spec in P; destruct P as [[-> _]|[_ ->]]; assumption).
  apply has_node_label in Hm. destruct Hm as [a La]. exists a. unfold rca. rewrite La. auto.
Qed.
Lemma rc_is_ok : is_ok rc.
Proof.
  split; [apply get_rc_gwf; exact HI|]. intros n b L. unfold rc in L. rewrite (get_rc_label I n HI) in L.
  destruct (touched I n) eqn:T; [|discriminate]. destruct (rc_label_touched n T) as (a & La & _).
  unfold rca in L. rewrite La in L. injection L as <-. simpl. apply (proj2 HI n a La).
Qed.
Lemma is_H_rc m : touched I m = true -> is_H rc m = is_H I m.
Proof. intros T. destruct (rc_label_touched m T) as (a & La & Lr). unfold is_H. rewrite La, Lr. reflexivity. Qed.
Lemma sel_rc p q x : adj I p q = Some x -> sel I p q x = true -> sel rc p q x = true.
Proof.
  intros A S. unfold sel in *. destruct (changed x); [reflexivity|]. simpl in *.
  assert (touched I p = true) as Tp by (apply (touched_spec I p W); exists q, x; unfold sel; rewrite S, orb_true_r; auto).
  assert (touched I q = true) as Tq.
  { apply (touched_spec I q W). exists p, x. rewrite adj_sym. split; [exact A|]. unfold sel. rewrite andb_comm, S, orb_true_r. reflexivity. }
  rewrite (is_H_rc p Tp), (is_H_rc q Tq). exact S.
Qed.

Theorem rc_idem_adj p q : adj (get_rc rc) p q = adj rc p q.
Proof.
  rewrite (get_rc_adj rc p q rc_is_ok). destruct (adj rc p q) as [x|] eqn:A; [|reflexivity].
  destruct (rc_adj_some p q x A) as [AI S]. rewrite (sel_rc p q x AI S). reflexivity.
Qed.
Lemma rc_adj_of p q x : adj I p q = Some x -> sel I p q x = true -> adj rc p q = Some x.
Proof. intros A S. unfold rc. rewrite (get_rc_adj I p q HI), A, S. reflexivity. Qed.

Theorem rc_idem_label m : label (get_rc rc) m = label rc m.
Proof.
  rewrite (get_rc_label rc m rc_is_ok). unfold rc at 3. rewrite (get_rc_label I m HI).
  assert (touched rc m = touched I m) as ->.
  { apply eq_true_iff_eq. rewrite (touched_spec rc m (proj1 rc_is_ok)), (touched_spec I m W). split.
    - intros (w & x & A & S). destruct (rc_adj_some m w x A) as [AI SI]. eauto.
    - intros (w & x & A & S). exists w, x. split; [apply rc_adj_of; assumption|apply sel_rc; assumption]. }
  destruct (touched I m) eqn:T; [|reflexivity]. destruct (rc_label_touched m T) as (a & La & Lr).
  unfold rca. rewrite Lr, La. reflexivity.
Qed.
End Idem.

(** ** equal lookups, equal read-back *)
Lemma IOK_transfer c c' : IOK c -> gwf c' ->
  (forall n, label c' n = label c n) -> (forall u v, adj c' u v = adj c u v) -> IOK c'.
Proof.
  intros (Wc & Hn & He) W' HL HA. split; [exact W'|split].
  - intros n a L. rewrite HL in L. apply (Hn n a L).
  - intros u v x A. rewrite HA in A. destruct (He u v x A) as (a & b & E & O1 & O2 & O3 & Hu & Hv).
    exists a, b. repeat split; auto; unfold has_node in *; rewrite HL; assumption.
Qed.

Lemma gwfb_alltgh_is_ok I : gwfb I = true -> all_tgh I = true -> is_ok I.
Proof.
  intros Hw Ht. split; [apply gwfb_gwf; exact Hw|]. intros n a L. apply assoc_in in L.
  unfold all_tgh in Ht. rewrite forallb_forall in Ht. specialize (Ht _ L). simpl in Ht. destruct (a_tgh a); [discriminate|discriminate].
Qed.

Theorem two_routes_centre (I : gr) :
  gwfb I = true -> all_tgh I = true -> its_ok (get_rc I) = true ->
  let A := gml_to_its (its_to_gml I true false false) in
  let B := gml_to_its (its_to_gml (get_rc I) true false false) in
  (forall n, label A n = label B n) /\ (forall u v, adj A u v = adj B u v) /\
  (forall n, has_node A n = has_node (get_rc I) n) /\ (forall u v, adj A u v = adj (get_rc I) u v).
Proof.
  intros Hw Ht Hok A B. pose proof (gwfb_alltgh_is_ok I Hw Ht) as HI.
  pose proof (its_ok_IOK _ Hok) as K.
  assert (IOK (get_rc (get_rc I))) as K'.
  { apply (IOK_transfer (get_rc I)); [exact K|apply get_rc_gwf, rc_is_ok, HI|apply rc_idem_label, HI|apply rc_idem_adj, HI]. }
  destruct (gml_roundtrip_iok _ K) as (A1 & A2 & A3). destruct (gml_roundtrip_iok _ K') as (B1 & B2 & B3).
  cbv zeta in *. change (its_to_gml (get_rc I) false false false) with (its_to_gml I true false false) in A1, A2, A3.
  change (its_to_gml (get_rc (get_rc I)) false false false) with (its_to_gml (get_rc I) true false false) in B1, B2, B3.
  fold A in A1, A2, A3. fold B in B1, B2, B3.
  split; [|split; [|split; [exact A1|exact A3]]].
  - intros n. destruct (label (get_rc I) n) as [a|] eqn:L.
    + rewrite (A2 n a L). symmetry. apply B2. rewrite (rc_idem_label I HI). exact L.
    + assert (has_node A n = false) as HA by (rewrite A1; apply has_node_false; exact L).
      assert (has_node B n = false) as HB by (rewrite B1; apply has_node_false; rewrite (rc_idem_label I HI); exact L).
      apply has_node_false in HA, HB. congruence.
  - intros u v. rewrite A3, B3, (rc_idem_adj I HI). reflexivity.
Qed.

(** non-vacuity: a full ITS with a spectator atom (node 40) and an unchanged bond; its centre drops both *)
Definition ex_full : gr :=
  LG (gnodes ex_centre ++ [(40%N, ex_nd "S" 0 0 4)]) (gedges ex_centre ++ [(30%N, 40%N, EA (Some (OP 2 2)) (Some 0))]).
Example two_routes_centre_ex :
  gwfb ex_full = true /\ all_tgh ex_full = true /\ its_ok (get_rc ex_full) = true /\
  has_node (get_rc ex_full) 40 = false /\
  has_node (gml_to_its (its_to_gml ex_full true false false)) 40 = false /\
  has_node (gml_to_its (its_to_gml ex_full false false false)) 40 = true.
Proof. vm_compute. repeat split. Qed.

(** ** the same with reindex=True (default of its_to_gml): both rules are renumberings of the centre *)
From SK Require Import proof.C10_Reindex.
Theorem two_routes_centre_reindex (I : gr) :
  gwfb I = true -> all_tgh I = true -> its_ok (get_rc I) = true ->
  let c := get_rc I in
  let fA := mapget (enum_from 1%N (node_ids c)) in
  let fB := mapget (enum_from 1%N (node_ids (get_rc c))) in
  let A := gml_to_its (its_to_gml I true true false) in
  let B := gml_to_its (its_to_gml c true true false) in
  (forall n a, label c n = Some a ->
     let e := tg_el (tG_of a) in let q := tg_ch (tG_of a) in let q' := tg_ch (tH_of a) in
     label A (fA n) = Some (gml_node (fA n) e q q') /\ label B (fB n) = Some (gml_node (fB n) e q q')) /\
  (forall u v, has_node c u = true -> has_node c v = true ->
     adj A (fA u) (fA v) = adj c u v /\ adj B (fB u) (fB v) = adj c u v) /\
  (forall k, has_node A k = true <-> exists n, has_node c n = true /\ k = fA n) /\
  (forall k, has_node B k = true <-> exists n, has_node c n = true /\ k = fB n).
Proof.
  intros Hw Ht Hok c fA fB A B. pose proof (gwfb_alltgh_is_ok I Hw Ht) as HI.
  pose proof (its_ok_IOK _ Hok) as K.
  assert (IOK (get_rc c)) as K'.
  { apply (IOK_transfer c); [exact K|apply get_rc_gwf, rc_is_ok, HI|apply rc_idem_label, HI|apply rc_idem_adj, HI]. }
  destruct (gml_roundtrip_reindex_iok c K) as (_ & A1 & A2 & A3 & _).
  destruct (gml_roundtrip_reindex_iok (get_rc c) K') as (_ & B1 & B2 & B3 & _). cbv zeta in *.
  change (its_to_gml c false true false) with (its_to_gml I true true false) in A1, A2, A3.
  change (its_to_gml (get_rc c) false true false) with (its_to_gml c true true false) in B1, B2, B3.
  fold A in A1, A2, A3. fold B in B1, B2, B3. fold fA in A1, A2, A3. fold fB in B1, B2, B3.
  assert (forall n, has_node (get_rc c) n = has_node c n) as Hn.
  { intros n. unfold has_node. unfold c at 1. rewrite (rc_idem_label I HI). reflexivity. }
  split; [|split; [|split]].
  - intros n a L. cbv zeta. split; [apply (A2 n a L)|]. apply B2. unfold c. rewrite (rc_idem_label I HI). exact L.
  - intros u v Hu Hv. split.
    + apply A3; apply has_node_in; assumption.
    + rewrite B3; [unfold c; apply (rc_idem_adj I HI)| |]; apply has_node_in; rewrite Hn; assumption.
  - intros k. rewrite A1. split; intros (n & H1 & H2); exists n; (split; [|exact H2]); apply has_node_in; exact H1.
  - intros k. rewrite B1. split; intros (n & H1 & H2); exists n; (split; [|exact H2]).
    + rewrite <- Hn. apply has_node_in. exact H1.
    + apply has_node_in. rewrite Hn. exact H1.
Qed.

(** the code as it was before repair c14a0f1 (kept in the model as [its_to_gml_old]): the context of the core export of
    a full ITS contained the spectator atom, the two routes disagreed *)
Example two_routes_old_disagree :
  its_to_gml_old ex_full true false false <> its_to_gml (get_rc ex_full) true false false /\
  its_to_gml ex_full true false false = its_to_gml (get_rc ex_full) false false false.
Proof. split; [vm_compute; discriminate|reflexivity]. Qed.
